(* Soundness of the trace oracles of Loop/Checks.v that are evaluated on implementation traces:
   check_C04_terminal_first, check_C03_sup_first (every world reachable under any schedule),
   check_C04_join (every reachable world) and check_C04_complete (settled worlds).
   Invariant TInv: per actor UInv (status / notify / armed versus the trace), per spawn-linked
   pair (child c, supervisor s) CInv: as long as c is alive and linked it still points to s, what
   c has reported is known to s (handled or queued) - or s will never start a handler again. *)
From Coq Require Import List Arith Bool Lia Setoid.
From RV Require Import Loop.World Loop.Checks Loop.WorldProofs Loop.PickProofs Loop.C04Proofs.
Import ListNotations.

(* ------------------------------------------------------------------ *)
(* the oracles, unfolded                                                 *)

Definition p_over (c : nat) (e : tev) : bool :=
  match e with
  | TExit j PostStop _ => Nat.eqb j c
  | TExit j PreStart _ => false
  | TExit j _ (RErr _) | TExit j _ (RPanic _) => Nat.eqb j c
  | TCancel j PreStart => false
  | TCancel j _ => Nat.eqb j c
  | _ => false end.
Definition p_eps (c : nat) (e : tev) : bool :=
  match e with TEnter j PostStart => Nat.eqb j c | _ => false end.
Definition p_sok (c : nat) (e : tev) : bool :=
  match e with TSpawnRet j true => Nat.eqb j c | _ => false end.
Definition p_end (c : nat) (e : tev) : bool :=
  match e with TJoin j | TAborted j => Nat.eqb j c | _ => false end.
Definition p_pso (c : nat) (e : tev) : bool :=
  match e with TExit j PostStart ROk => Nat.eqb j c | _ => false end.

Lemma over_app c t e : callbacks_over c (t ++ [e]) = callbacks_over c t || p_over c e.
Proof. apply has_ev_app. Qed.
Lemma eps_app c t e : entered_post_start c (t ++ [e]) = entered_post_start c t || p_eps c e.
Proof. apply has_ev_app. Qed.
Lemma sok_app c t e : started_ok c (t ++ [e]) = started_ok c t || p_sok c e.
Proof. apply has_ev_app. Qed.
Lemma end_app c t e : ended c (t ++ [e]) = ended c t || p_end c e.
Proof. apply has_ev_app. Qed.
Lemma pso_app c t e : post_start_ok c (t ++ [e]) = post_start_ok c t || p_pso c e.
Proof. apply has_ev_app. Qed.

Definition tf_judge (links : list (option nat)) (seen : list tev) (s : nat) : bool :=
  forallb (fun c =>
    match nth c links None with
    | Some s' => negb (Nat.eqb s s') || negb (entered_post_start c seen && callbacks_over c seen)
                 || Nat.ltb 0 (count_sup s (fun y => is_terminal y && Nat.eqb (about y) c) seen)
    | None => true
    end) (seq 0 (length links)).

Definition sf_judge (links : list (option nat)) (seen : list tev) (s : nat) : bool :=
  forallb (fun c =>
    match nth c links None with
    | Some s' => negb (Nat.eqb s s') || negb (post_start_ok c seen)
                 || Nat.ltb 0 (count_sup s (fun y => Nat.eqb (about y) c) seen)
    | None => true
    end) (seq 0 (length links)).

Lemma tf_go_app links seen t e :
  check_C04_terminal_first_go links seen (t ++ [e]) =
  check_C04_terminal_first_go links seen t &&
  match e with TEnter s (Handle _) => tf_judge links (seen ++ t) s | _ => true end.
Proof.
  revert seen. induction t as [|y r IH]; intros seen; simpl.
  - rewrite app_nil_r, andb_true_r. reflexivity.
  - rewrite IH, <- app_assoc. simpl. rewrite andb_assoc. reflexivity.
Qed.

Lemma sf_go_app links seen t e :
  check_C03_sup_first_go links seen (t ++ [e]) =
  check_C03_sup_first_go links seen t &&
  match e with TEnter s (Handle _) => sf_judge links (seen ++ t) s | _ => true end.
Proof.
  revert seen. induction t as [|y r IH]; intros seen; simpl.
  - rewrite app_nil_r, andb_true_r. reflexivity.
  - rewrite IH, <- app_assoc. simpl. rewrite andb_assoc. reflexivity.
Qed.

Definition stf_judge (links : list (option nat)) (seen : list tev) (s : nat) (x : supevt) : bool :=
  let c := about x in
  negb (is_terminal x) || negb (onat_eqb (nth c links None) (Some s)) || negb (post_start_ok c seen)
  || Nat.ltb 0 (count_sup s (fun y => negb (is_terminal y) && Nat.eqb (about y) c) seen).

Lemma stf_go_app links seen t e :
  check_C04_started_first_go links seen (t ++ [e]) =
  check_C04_started_first_go links seen t &&
  match e with TEnter s (Sup x) => stf_judge links (seen ++ t) s x | _ => true end.
Proof.
  revert seen. induction t as [|y r IH]; intros seen; simpl.
  - rewrite app_nil_r, andb_true_r. reflexivity.
  - rewrite IH, <- app_assoc. simpl. rewrite andb_assoc. reflexivity.
Qed.

Lemma filter_len_pos {A} (p : A -> bool) l y : In y l -> p y = true -> 0 < length (filter p l).
Proof.
  induction l as [|x t IH]; simpl; [tauto|]. intros [->|H] Hp.
  - rewrite Hp. simpl. lia.
  - destruct (p x); simpl; [lia|auto].
Qed.

(* ------------------------------------------------------------------ *)
(* the invariant                                                        *)

(* s will never start a handler again *)
Definition blocked (x : option nat) (w : world) (s : nat) : Prop :=
  match get w s with
  | None => True
  | Some b => a_sig b = true \/ a_pc b = Done \/ (exists r f p, a_pc b = InCb PostStop r f p)
              \/ x = Some s
  end.
(* s knows an ActorStarted about c (handled or queued) that no terminal event about c precedes *)
Definition anyK (w : world) (s c : nat) : Prop :=
  exists l1 y l2, K w s = l1 ++ y :: l2 /\ is_terminal y = false /\ about y = c
                  /\ (forall z, In z l1 -> is_terminal z = true -> about z <> c).
Definition termK (w : world) (s c : nat) : Prop :=
  exists y, In y (K w s) /\ is_terminal y = true /\ about y = c.
(* the link of this actor to its supervisor has been made *)
Definition linkedp (a : actor) : Prop :=
  a_notify a = true \/ (c_local (a_cfg a) = true /\ exists r f p, a_pc a = InCb PreStart r f p).

(* if the lifecycle recogniser accepts the trace, it has reached its final phase for actor i *)
Definition pend (i : nat) (tr : list tev) : Prop :=
  forall st, arun i ast0 tr = Go st -> s_phase st = PEnd.

Lemma arun_snoc_go i s t e st' :
  arun i s (t ++ [e]) = Go st' -> exists st, arun i s t = Go st /\ astep i st e = Go st'.
Proof. rewrite arun_app. destruct (arun i s t) as [st|]; [eauto|discriminate]. Qed.

Lemma astep_pend i st e st' : astep i st e = Go st' -> s_phase st = PEnd -> s_phase st' = PEnd.
Proof.
  destruct st as [ph g sr k pk]. simpl. intros H E. subst ph.
  destruct e as [j c|j|j g0|j g0|j c f|j c|j ok|j|j|j|j r|j|j m ok]; simpl in H;
    try (destruct (Nat.eqb i j); simpl in H);
    try (destruct k; simpl in H); try (destruct pk; simpl in H);
    try (destruct c; simpl in H); try (destruct ok; simpl in H);
    try discriminate; try (injection H as <-; reflexivity).
Qed.

Lemma pend_emit i tr e : pend i tr -> pend i (tr ++ [e]).
Proof.
  intros P st' H. destruct (arun_snoc_go _ _ _ _ _ H) as (st & H1 & H2).
  apply (astep_pend i st e st' H2). apply P. exact H1.
Qed.

Definition final_ev (i : nat) (e : tev) : Prop :=
  e = TJoin i \/ e = TSpawnRet i false \/ exists c, e = TCancel i c.

Lemma pend_final i tr e : final_ev i e -> pend i (tr ++ [e]).
Proof.
  intros F st' H. destruct (arun_snoc_go _ _ _ _ _ H) as (st & _ & H2). clear H.
  destruct st as [ph g sr k pk]. destruct F as [ -> |[ -> |(c & ->)]]; simpl in H2; rewrite Nat.eqb_refl in H2; simpl in H2.
  - destruct ph; try discriminate; injection H2 as <-; reflexivity.
  - destruct ph; try discriminate; injection H2 as <-; reflexivity.
  - destruct ph; try discriminate; destruct c; try discriminate;
      try (injection H2 as <-; reflexivity);
      try (destruct (cb_eqb _ _); try discriminate; injection H2 as <-; reflexivity).
Qed.

Lemma pend_aborted_quiet i tr :
  (forall st, arun i ast0 tr = Go st -> exit_ready (s_phase st)) -> pend i (tr ++ [TAborted i]).
Proof.
  intros Hq st' H. destruct (arun_snoc_go _ _ _ _ _ H) as (st & H1 & H2).
  specialize (Hq st H1). destruct st as [ph g sr k pk]. simpl in *. rewrite Nat.eqb_refl in H2. simpl in H2.
  destruct Hq as [ -> |[ -> |[ -> | -> ]]]; injection H2 as <-; reflexivity.
Qed.

Record UInv (tr : list tev) (x : option nat) (i : nat) (a : actor) : Prop := mkUInv {
  U1 : 5 <= a_status a ->
       a_pc a = Done \/ (exists r f p, a_pc a = InCb PostStop r f p) \/ x = Some i;
  U2 : a_pc a = NotCreated -> forall ks, a_kids a = Some ks -> ks = [];
  U3 : started_ok i tr = true \/ entered_post_start i tr = true -> a_notify a = true;
  U4 : callbacks_over i tr = true \/ ended i tr = true -> a_armed a = false \/ x = Some i;
  U5 : pre_pc (a_pc a) = false -> a_pc a <> Done -> a_notify a = true;
  U6 : a_sig a = true -> a_sig_taken a = true;
  U7 : a_ports a = false -> a_pc a = Done;
  U8 : a_armed a = false -> a_pc a = Done;
  U9 : a_sig_taken a = true -> a_sig a = true \/ a_pc a = Done \/ x = Some i;
  U10 : pre_pc (a_pc a) = true -> a_notify a = false;
  U11 : a_pc a = Done -> pend i tr \/ x = Some i
}.

Record CInv (x : option nat) (w : world) (c : nat) (a : actor) (s : nat) : Prop := mkCInv {
  CR : a_armed a = true -> linkedp a -> a_sup a = Some s \/ blocked x w s;
  CP1 : post_start_ok c (trace_of w) = true -> anyK w s c \/ blocked x w s;
  CP2 : a_notify a = true -> a_armed a = false -> termK w s c \/ blocked x w s;
  CP4 : termK w s c -> a_armed a = false \/ x = Some c
}.

Record TInv (links : list (option nat)) (x : option nat) (w : world) : Prop := mkTInv {
  t_links : forall c, nth c links None = link_of w c;
  t_chk1 : check_C04_terminal_first_go links [] (trace_of w) = true;
  t_chk2 : check_C03_sup_first_go links [] (trace_of w) = true;
  t_chk3 : check_C04_started_first_go links [] (trace_of w) = true;
  t_act : forall i a, get w i = Some a -> UInv (trace_of w) x i a;
  t_cs : forall c a s, get w c = Some a -> c_link (a_cfg a) = Some s -> CInv x w c a s
}.

Ltac uinv_tac :=
  intros;
  match goal with H : UInv _ _ _ _ |- _ =>
    let u1 := fresh "u1" in let u2 := fresh "u2" in let u3 := fresh "u3" in let u4 := fresh "u4" in
    let u5 := fresh "u5" in let u6 := fresh "u6" in let u7 := fresh "u7" in let u8 := fresh "u8" in
    let u9 := fresh "u9" in let u10 := fresh "u10" in let u11 := fresh "u11" in
    destruct H as [u1 u2 u3 u4 u5 u6 u7 u8 u9 u10 u11] end;
  constructor; simpl in *; auto.

Lemma blocked_tag x x' w s : (x' = x \/ x = None) -> blocked x w s -> blocked x' w s.
Proof.
  intros Hx. unfold blocked. destruct (get w s) as [b|]; auto.
  intros [A|[A|[A|A]]]; auto. destruct Hx as [ -> | -> ]; [auto|discriminate].
Qed.

(* ------------------------------------------------------------------ *)
(* (E) logging an event that is not the start of a supervision handler  *)

Lemma UInv_emit tr x x' i a e :
  UInv tr x i a -> (x' = x \/ x = None) ->
  (p_sok i e = true \/ p_eps i e = true -> a_notify a = true) ->
  (p_over i e = true \/ p_end i e = true -> a_armed a = false \/ x' = Some i) ->
  UInv (tr ++ [e]) x' i a.
Proof.
  intros [u1 u2 u3 u4 u5 u6 u7 u8 u9 u10 u11] Hx Hn Ha.
  assert (Htag : x = Some i -> x' = Some i) by (intros E; destruct Hx as [ -> | -> ]; [exact E|discriminate]).
  constructor; [|exact u2| | |exact u5|exact u6|exact u7|exact u8| |exact u10|].
  5: { intros D. destruct (u11 D) as [A|A]; [left; apply pend_emit; exact A|auto]. }
  - intros L. destruct (u1 L) as [A|[A|A]]; auto.
  - rewrite sok_app, eps_app. intros [A|A]; apply orb_true_iff in A as [A|A]; auto.
  - assert (Hold : callbacks_over i tr = true \/ ended i tr = true -> a_armed a = false \/ x' = Some i).
    { intros A. destruct (u4 A) as [B|B]; auto. }
    rewrite over_app, end_app. intros [A|A]; apply orb_true_iff in A as [A|A]; auto.
  - intros L. destruct (u9 L) as [A|[A|A]]; auto.
Qed.

Definition no_block_now (x : option nat) (w : world) (s : nat) : Prop :=
  exists b, get w s = Some b /\ a_sig b = false /\ a_supq b = [] /\ a_pc b <> Done
            /\ (forall r f p, a_pc b <> InCb PostStop r f p) /\ x <> Some s.

Lemma tinv_emit links x x' w e :
  TInv links x w -> is_sup_enter e = false -> (x' = x \/ x = None) ->
  (forall j a, p_sok j e = true \/ p_eps j e = true -> get w j = Some a -> a_notify a = true) ->
  (forall j a, p_over j e = true \/ p_end j e = true -> get w j = Some a ->
               a_armed a = false \/ x' = Some j) ->
  (forall j a s, p_pso j e = true -> get w j = Some a -> c_link (a_cfg a) = Some s ->
                 anyK w s j \/ blocked x' w s) ->
  (forall s m, e = TEnter s (Handle m) -> x' = None /\ no_block_now x' w s) ->
  TInv links x' (emit w e).
Proof.
  intros [h1 h2 h3 h3' h4 h5] Hpl Hx Hn Ha Hp Hh.
  assert (HK : forall s, K (emit w e) s = K w s) by (intros s; apply K_emit_plain; exact Hpl).
  assert (Hb : forall s, blocked x w s -> blocked x' (emit w e) s).
  { intros s B. apply (blocked_tag x x' w s Hx B). }
  (* what a message handler may rely on when it starts *)
  assert (Hjudge : forall s m, e = TEnter s (Handle m) ->
            tf_judge links (trace_of w) s = true /\ sf_judge links (trace_of w) s = true).
  { intros s m Ee. destruct (Hh s m Ee) as [-> (b & Egs & Hsig & Hq & Hd & Hps & Hxs)].
    assert (Hnb : ~ blocked None w s).
    { unfold blocked. rewrite Egs. intros [A|[A|[(r & f & p & A)|A]]]; try congruence; try (apply (Hps r f p A)). }
    assert (HKs : K w s = hl s (trace_of w)) by (unfold K, supq_of; rewrite Egs, Hq; apply app_nil_r).
    assert (Hx0 : x = None) by (destruct Hx as [E|E]; congruence). subst x.
    split; apply forallb_forall; intros c _; rewrite h1; unfold link_of;
      destruct (get w c) as [a|] eqn:Egc; auto; destruct (c_link (a_cfg a)) as [s'|] eqn:El; auto;
      destruct (Nat.eqb_spec s s') as [<-|]; simpl; auto.
    - destruct (entered_post_start c (trace_of w)) eqn:E1; simpl; auto.
      destruct (callbacks_over c (trace_of w)) eqn:E2; simpl; auto.
      pose proof (h4 c a Egc) as Uc.
      assert (N : a_notify a = true) by (apply (U3 _ _ _ _ Uc); auto).
      assert (D : a_armed a = false) by (destruct (U4 _ _ _ _ Uc) as [A|A]; [auto|exact A|discriminate]).
      destruct (CP2 _ _ _ _ _ (h5 c a s Egc El) N D) as [(y & Hy & Ht & Hab)|B]; [|contradiction].
      apply Nat.ltb_lt. rewrite count_sup_hl. rewrite HKs in Hy.
      apply (filter_len_pos _ _ y Hy). rewrite Ht, Hab, Nat.eqb_refl. reflexivity.
    - destruct (post_start_ok c (trace_of w)) eqn:E1; simpl; auto.
      destruct (CP1 _ _ _ _ _ (h5 c a s Egc El) E1) as [(l1 & y & l2 & EK & _ & Hab & _)|B]; [|contradiction].
      apply Nat.ltb_lt. rewrite count_sup_hl.
      assert (Hy : In y (hl s (trace_of w))) by (rewrite <- HKs, EK; apply in_or_app; right; left; reflexivity).
      apply (filter_len_pos _ _ y Hy). rewrite Hab. apply Nat.eqb_refl. }
  constructor.
  - exact h1.
  - rewrite trace_of_emit, tf_go_app, h2. simpl.
    destruct e as [s c| | | | | | | | | | | |]; auto. destruct c; auto. apply (Hjudge s m eq_refl).
  - rewrite trace_of_emit, sf_go_app, h3. simpl.
    destruct e as [s c| | | | | | | | | | | |]; auto. destruct c; auto. apply (Hjudge s m eq_refl).
  - rewrite trace_of_emit, stf_go_app, h3'. simpl.
    destruct e as [s c| | | | | | | | | | | |]; auto. destruct c; auto. discriminate.
  - intros i a Eg. rewrite trace_of_emit. apply UInv_emit with (x := x);
      [apply h4; exact Eg|exact Hx|intros A; apply (Hn i a A Eg)|intros A; apply (Ha i a A Eg)].
  - intros c a s Eg El. destruct (h5 c a s Eg El) as [r p1 p2 p4].
    constructor; unfold anyK, termK; rewrite ?HK.
    + intros A L. destruct (r A L) as [B|B]; [left; exact B|right; apply Hb; exact B].
    + rewrite trace_of_emit, pso_app. intros A. apply orb_true_iff in A as [A|A].
      * destruct (p1 A) as [B|B]; [left; exact B|right; apply Hb; exact B].
      * apply (Hp c a s A Eg El).
    + intros A D. destruct (p2 A D) as [B|B]; [left; exact B|right; apply Hb; exact B].
    + intros T. destruct (p4 T) as [A|A]; [left; exact A|right].
      destruct Hx as [ -> | -> ]; [exact A|discriminate].
Qed.

(* ------------------------------------------------------------------ *)
(* silent pointwise transformations                                     *)

Lemma cinv_keep x x' w w' c a a' s :
  CInv x w c a s -> trace_of w' = trace_of w -> K w' s = K w s ->
  (blocked x w s -> blocked x' w' s) ->
  (a_armed a' = true -> a_armed a = true) -> (linkedp a' -> linkedp a) ->
  (a_armed a' = true -> linkedp a' -> a_sup a' = a_sup a \/ blocked x' w' s) ->
  (a_notify a' = true -> a_notify a = true) ->
  (a_armed a' = false -> a_armed a = false \/ termK w' s c \/ blocked x' w' s) ->
  (x = Some c -> x' = Some c \/ a_armed a' = false) ->
  CInv x' w' c a' s.
Proof.
  intros [r p1 p2 p4] Et HK Hb Ha Hl Hs Hn Hd Hx. constructor; unfold anyK, termK; rewrite ?HK.
  - intros A L. destruct (Hs A L) as [E|B]; [|right; exact B]. rewrite E.
    destruct (r (Ha A) (Hl L)) as [B|B]; [left; exact B|right; apply Hb; exact B].
  - rewrite Et. intros A. destruct (p1 A) as [B|B]; [left; exact B|right; auto].
  - intros N D. destruct (Hd D) as [D0|[B|B]]; [|left; unfold termK in B; rewrite HK in B; exact B|right; exact B].
    destruct (p2 (Hn N) D0) as [B|B]; [left; exact B|right; auto].
  - intros T. destruct (p4 T) as [A|A].
    + left. destruct (a_armed a') eqn:E; auto. rewrite (Ha eq_refl) in A. discriminate.
    + destruct (Hx A) as [B|B]; auto.
Qed.

Lemma K_pw_same F w w' s :
  pw F w w' -> (forall j a, get w j = Some a -> a_supq (F j a) = a_supq a) -> K w' s = K w s.
Proof.
  intros Hpw Hq. unfold K. rewrite (trace_of_pw _ _ _ Hpw). f_equal.
  unfold supq_of. destruct Hpw as [_ g]. rewrite g. destruct (get w s) as [a|] eqn:E; simpl; auto.
Qed.

Lemma tinv_pw links x x' F w w' :
  TInv links x w -> pw F w w' ->
  (forall j a, get w j = Some a -> a_supq (F j a) = a_supq a /\ a_cfg (F j a) = a_cfg a) ->
  (forall j a, get w j = Some a -> UInv (trace_of w) x j a -> UInv (trace_of w) x' j (F j a)) ->
  (forall c a s, get w c = Some a -> c_link (a_cfg a) = Some s -> CInv x w c a s ->
                 CInv x' w' c (F c a) s) ->
  TInv links x' w'.
Proof.
  intros [h1 h2 h3 h3' h4 h5] Hpw Hf HU HC.
  pose proof (trace_of_pw _ _ _ Hpw) as Et.
  constructor.
  - intros c. rewrite h1. unfold link_of. destruct Hpw as [_ g]. rewrite g.
    destruct (get w c) as [a|] eqn:E; simpl; auto. destruct (Hf c a E) as [_ ->]. reflexivity.
  - rewrite Et. exact h2.
  - rewrite Et. exact h3.
  - rewrite Et. exact h3'.
  - intros i a' Eg. destruct Hpw as [_ g]. rewrite g in Eg.
    destruct (get w i) as [a|] eqn:E; simpl in Eg; [|discriminate]. injection Eg as <-.
    rewrite Et. apply HU; auto.
  - intros c a' s Eg El. destruct Hpw as [t g]. rewrite g in Eg.
    destruct (get w c) as [a|] eqn:E; simpl in Eg; [|discriminate]. injection Eg as <-.
    destruct (Hf c a E) as [_ Ec]. rewrite Ec in El. apply HC; auto.
Qed.

Definition tagrel (x x' : option nat) (i : nat) (a' : actor) : Prop :=
  x' = x \/ x = None \/ (x = Some i /\ x' = None /\ a_pc a' = Done).

Lemma blocked_upd x x' w i f a s :
  get w i = Some a -> tagrel x x' i (f a) ->
  (blocked x w i -> blocked x' (upd w i f) i) ->
  blocked x w s -> blocked x' (upd w i f) s.
Proof.
  intros Eg Ht Hi. destruct (Nat.eq_dec i s) as [<-|Hne]; [exact Hi|].
  unfold blocked. rewrite get_upd_other by assumption. destruct (get w s) as [b|]; auto.
  intros [A|[A|[A|A]]]; auto. destruct Ht as [ -> |[ -> |(-> & _ & _)]]; [auto|discriminate|congruence].
Qed.

Lemma UInv_retag tr x x' i j a (b' : actor) :
  UInv tr x j a -> tagrel x x' i b' -> j <> i -> UInv tr x' j a.
Proof.
  intros [u1 u2 u3 u4 u5 u6 u7 u8 u9 u10 u11] Ht Hne.
  assert (Htag : x = Some j -> x' = Some j).
  { intros E. destruct Ht as [ -> |[ -> |(-> & _ & _)]]; [exact E|discriminate|congruence]. }
  constructor; [|exact u2|exact u3| |exact u5|exact u6|exact u7|exact u8| |exact u10|].
  - intros L. destruct (u1 L) as [A|[A|A]]; auto.
  - intros L. destruct (u4 L) as [A|A]; auto.
  - intros L. destruct (u9 L) as [A|[A|A]]; auto.
  - intros L. destruct (u11 L) as [A|A]; auto.
Qed.

(* one actor updated, its supervision queue and configuration untouched *)
Lemma tinv_upd links x x' w i f a :
  TInv links x w -> get w i = Some a ->
  a_supq (f a) = a_supq a -> a_cfg (f a) = a_cfg a ->
  (UInv (trace_of w) x i a -> UInv (trace_of w) x' i (f a)) ->
  tagrel x x' i (f a) ->
  (blocked x w i -> blocked x' (upd w i f) i) ->
  (forall s, c_link (a_cfg a) = Some s -> CInv x w i a s -> CInv x' (upd w i f) i (f a) s) ->
  TInv links x' (upd w i f).
Proof.
  intros H Eg Fq Fc HU Ht Hbi HC.
  assert (Hb : forall s, blocked x w s -> blocked x' (upd w i f) s).
  { intros s. apply blocked_upd with (a := a); auto. }
  assert (HK : forall s, K (upd w i f) s = K w s).
  { intros s. apply (K_pw_same _ w _ s (pw_upd w i f)). intros j b Eb. cbv beta.
    destruct (Nat.eqb_spec i j) as [<-|]; auto. rewrite Eg in Eb. injection Eb as <-. exact Fq. }
  eapply tinv_pw with (x := x); [exact H|apply pw_upd| | |].
  - intros j b Eb. cbv beta. destruct (Nat.eqb_spec i j) as [<-|]; auto.
    rewrite Eg in Eb. injection Eb as <-. auto.
  - intros j b Eb Ub. cbv beta. destruct (Nat.eqb_spec i j) as [<-|Hne].
    + rewrite Eg in Eb. injection Eb as <-. auto.
    + apply (UInv_retag _ x x' i j b (f a)); auto.
  - intros c b s Eb El Cb. cbv beta. destruct (Nat.eqb_spec i c) as [<-|Hne].
    + rewrite Eg in Eb. injection Eb as <-. auto.
    + eapply cinv_keep; eauto.
      intros E. destruct Ht as [ -> |[ -> |(-> & _ & _)]]; [left; exact E|discriminate|congruence].
Qed.

(* the commonest case: nothing the pair invariant looks at changes *)
Lemma tinv_upd_plain links x w i f a :
  TInv links x w -> get w i = Some a ->
  a_supq (f a) = a_supq a -> a_cfg (f a) = a_cfg a ->
  (UInv (trace_of w) x i a -> UInv (trace_of w) x i (f a)) ->
  (blocked x w i -> blocked x (upd w i f) i) ->
  a_armed (f a) = a_armed a -> (linkedp (f a) -> linkedp a) -> a_sup (f a) = a_sup a ->
  a_notify (f a) = a_notify a ->
  TInv links x (upd w i f).
Proof.
  intros H Eg Fq Fc HU Hbi Fa Fl Fs Fn.
  assert (Ht : tagrel x x i (f a)) by (left; reflexivity).
  eapply tinv_upd; eauto.
  intros s El Ci.
  assert (E : K (upd w i f) s = K w s).
  { apply (K_pw_same _ w _ s (pw_upd w i f)). intros j b Eb. cbv beta.
    destruct (Nat.eqb_spec i j) as [<-|]; auto. rewrite Eg in Eb. injection Eb as <-. exact Fq. }
  eapply cinv_keep;
    [exact Ci|reflexivity|exact E|apply blocked_upd with (a := a); auto
    |congruence|exact Fl|intros _ _; left; exact Fs|congruence|intros D; left; congruence|try (intros; discriminate); auto].
Qed.

(* ------------------------------------------------------------------ *)
(* the supervision queue: append, and the head starting to be handled   *)

Definition pushq (e : supevt) (a : actor) : actor := upd_supq a (a_supq a ++ [e]).

Lemma K_push_incl w s e s' y : In y (K w s') -> In y (K (upd w s (pushq e)) s').
Proof.
  unfold K, supq_of. change (trace_of (upd w s (pushq e))) with (trace_of w).
  rewrite !in_app_iff. intros [A|A]; auto. right.
  destruct (Nat.eq_dec s s') as [<-|Hne].
  - rewrite get_upd_same. destruct (get w s); simpl in *; auto. apply in_or_app. auto.
  - rewrite get_upd_other by assumption. exact A.
Qed.

Lemma K_push_in w s e : get w s <> None -> In e (K (upd w s (pushq e)) s).
Proof.
  intros H. unfold K, supq_of. rewrite get_upd_same. destruct (get w s); [|congruence]. simpl.
  apply in_or_app. right. apply in_or_app. right. left. reflexivity.
Qed.

Lemma blocked_push x w s e s' : blocked x w s' <-> blocked x (upd w s (pushq e)) s'.
Proof.
  unfold blocked. destruct (Nat.eq_dec s s') as [<-|Hne].
  - rewrite get_upd_same. destruct (get w s); simpl; tauto.
  - rewrite get_upd_other by assumption. tauto.
Qed.

Lemma K_push_eq w s e s' :
  exists d, K (upd w s (pushq e)) s' = K w s' ++ d /\ (forall z, In z d -> z = e).
Proof.
  unfold K, supq_of. change (trace_of (upd w s (pushq e))) with (trace_of w).
  destruct (Nat.eq_dec s s') as [<-|Hne].
  - rewrite get_upd_same. destruct (get w s) as [b|]; simpl.
    + exists [e]. rewrite app_assoc. split; [reflexivity|]. intros z [<-|[]]. reflexivity.
    + exists []. split; [symmetry; apply app_nil_r|intros z []].
  - rewrite get_upd_other by assumption. exists []. split; [symmetry; apply app_nil_r|intros z []].
Qed.

(* a terminal event is only ever pushed by its subject's own exit, which is in transit (tag x) *)
Lemma tinv_push links x w s e :
  TInv links x w -> (is_terminal e = true -> x = Some (about e)) ->
  TInv links x (upd w s (pushq e)).
Proof.
  intros [h1 h2 h3 h3' h4 h5] Hterm. constructor.
  - intros c. rewrite h1. symmetry. apply link_upd_same. reflexivity.
  - exact h2.
  - exact h3.
  - exact h3'.
  - intros i a' Eg. change (trace_of (upd w s (pushq e))) with (trace_of w).
    destruct (Nat.eq_dec s i) as [->|Hne].
    + rewrite get_upd_same in Eg. destruct (get w i) as [a|] eqn:E; simpl in Eg; [|discriminate].
      injection Eg as <-. specialize (h4 i a E). clear - h4. unfold pushq. uinv_tac.
    + rewrite get_upd_other in Eg by assumption. auto.
  - intros c a' s' Eg El.
    assert (Ec : exists a, get w c = Some a /\ c_link (a_cfg a) = Some s' /\ a_armed a' = a_armed a
                 /\ (linkedp a' -> linkedp a) /\ a_sup a' = a_sup a /\ a_notify a' = a_notify a).
    { destruct (Nat.eq_dec s c) as [->|Hne].
      - rewrite get_upd_same in Eg. destruct (get w c) as [a|] eqn:E; simpl in Eg; [|discriminate].
        injection Eg as <-. exists a. simpl in El. repeat split; auto.
      - rewrite get_upd_other in Eg by assumption. exists a'. repeat split; auto. }
    destruct Ec as (a & E & El0 & F1 & F2 & F3 & F4).
    destruct (h5 c a s' E El0) as [r p1 p2 p4].
    destruct (K_push_eq w s e s') as (d & EK & Hd).
    change (trace_of (upd w s (pushq e))) with (trace_of w).
    constructor.
    + intros A L. rewrite F3. rewrite F1 in A. destruct (r A (F2 L)) as [B|B]; [left; exact B|right; apply blocked_push; exact B].
    + intros A. destruct (p1 A) as [(l1 & y & l2 & E1 & Hn & Hab & Ho)|B]; [left|right; apply blocked_push; exact B].
      exists l1, y, (l2 ++ d). rewrite EK, E1, <- app_assoc. simpl. auto.
    + rewrite F1, F4. intros N D. destruct (p2 N D) as [(y & Hy & T & Ey)|B]; [left|right; apply blocked_push; exact B].
      exists y. rewrite EK. split; [apply in_or_app; left; exact Hy|auto].
    + intros (y & Hy & T & Ey). rewrite F1. rewrite EK in Hy. apply in_app_or in Hy as [Hy|Hy].
      * apply p4. exists y. auto.
      * rewrite (Hd y Hy) in T, Ey. right. rewrite (Hterm T), Ey. reflexivity.
Qed.

Lemma notify_cases w i a e :
  get w i = Some a ->
  (exists s b, a_sup a = Some s /\ get w s = Some b /\ a_ports b = true
               /\ notify_supervisor w i e = upd w s (pushq e))
  \/ (notify_supervisor w i e = w
      /\ forall s, a_sup a = Some s -> match get w s with Some b => a_ports b = false | None => True end).
Proof.
  intros Eg. unfold notify_supervisor. rewrite Eg. destruct (a_sup a) as [s|]; [|right; split; [auto|discriminate]].
  destruct (get w s) as [b|] eqn:Egs.
  - destruct (a_ports b) eqn:Ep.
    + left. exists s, b. auto.
    + right. split; auto. intros s0 E. injection E as <-. rewrite Egs. exact Ep.
  - right. split; auto. intros s0 E. injection E as <-. rewrite Egs. exact I.
Qed.

Lemma tinv_notify links x w i e :
  TInv links x w -> (is_terminal e = true -> x = Some (about e)) -> TInv links x (notify_supervisor w i e).
Proof.
  intros H Hterm. destruct (get w i) as [a|] eqn:Eg.
  - destruct (notify_cases w i a e Eg) as [(s & b & _ & _ & _ & ->)|[-> _]]; [apply tinv_push|]; assumption.
  - unfold notify_supervisor. rewrite Eg. exact H.
Qed.

(* after the report, the event is known to the linked supervisor - or that one is finished *)
Lemma notify_known links x w i a e s :
  TInv links x w -> get w i = Some a -> c_link (a_cfg a) = Some s ->
  a_armed a = true -> linkedp a ->
  In e (K (notify_supervisor w i e) s) \/ blocked x (notify_supervisor w i e) s.
Proof.
  intros H Eg El Harm Hl.
  destruct (CR _ _ _ _ _ (t_cs _ _ _ H i a s Eg El) Harm Hl) as [Es|B].
  - destruct (notify_cases w i a e Eg) as [(s0 & b & E0 & Egs & Ep & ->)|[-> Hd]].
    + rewrite Es in E0. injection E0 as <-. left. apply K_push_in. congruence.
    + right. specialize (Hd s Es). unfold blocked. destruct (get w s) as [b|] eqn:Egs; auto.
      right; left. apply (U7 _ _ _ _ (t_act _ _ _ H s b Egs)). exact Hd.
  - right. destruct (notify_cases w i a e Eg) as [(s0 & b & _ & _ & _ & ->)|[-> _]]; [apply blocked_push|]; exact B.
Qed.

Lemma K_push_same w s e : get w s <> None -> K (upd w s (pushq e)) s = K w s ++ [e].
Proof.
  intros H. unfold K, supq_of. change (trace_of (upd w s (pushq e))) with (trace_of w).
  rewrite get_upd_same. destruct (get w s); [|congruence]. simpl. apply app_assoc.
Qed.

(* ... and it is the LAST thing that supervisor knows *)
Lemma notify_known_end links x w i a e s :
  TInv links x w -> get w i = Some a -> c_link (a_cfg a) = Some s ->
  a_armed a = true -> linkedp a ->
  K (notify_supervisor w i e) s = K w s ++ [e] \/ blocked x (notify_supervisor w i e) s.
Proof.
  intros H Eg El Harm Hl.
  destruct (CR _ _ _ _ _ (t_cs _ _ _ H i a s Eg El) Harm Hl) as [Es|B].
  - destruct (notify_cases w i a e Eg) as [(s0 & b & E0 & Egs & Ep & ->)|[-> Hd]].
    + rewrite Es in E0. injection E0 as <-. left. apply K_push_same. congruence.
    + right. specialize (Hd s Es). unfold blocked. destruct (get w s) as [b|] eqn:Egs; auto.
      right; left. apply (U7 _ _ _ _ (t_act _ _ _ H s b Egs)). exact Hd.
  - right. destruct (notify_cases w i a e Eg) as [(s0 & b & _ & _ & _ & ->)|[-> _]]; [apply blocked_push|]; exact B.
Qed.

Lemma K_notify_incl w i e s y : In y (K w s) -> In y (K (notify_supervisor w i e) s).
Proof.
  intros Hy. destruct (get w i) as [a|] eqn:Eg.
  - destruct (notify_cases w i a e Eg) as [(s0 & b & _ & _ & _ & ->)|[-> _]]; [apply K_push_incl|]; exact Hy.
  - unfold notify_supervisor. rewrite Eg. exact Hy.
Qed.

(* in h ++ e :: t, an element that no "bad" element precedes and that is not bad itself lies in h if e is bad *)
Lemma split_before {A} (bad : A -> Prop) (l1 : list A) y l2 h e t :
  l1 ++ y :: l2 = h ++ e :: t -> (forall z, In z l1 -> ~ bad z) -> ~ bad y -> bad e -> In y h.
Proof.
  revert h. induction l1 as [|z l1 IH]; intros h E Hl Hy He; destruct h as [|k h]; simpl in E.
  - injection E as -> _. contradiction.
  - injection E as -> _. left. reflexivity.
  - injection E as -> _. exfalso. apply (Hl e); [left; reflexivity|exact He].
  - injection E as -> E. right. apply IH; auto. intros z0 Hz. apply Hl. right. exact Hz.
Qed.

Lemma tinv_deq_enter links x w s a e t f :
  TInv links x w -> get w s = Some a -> a_supq a = e :: t -> a_sig a = false -> x = None ->
  a_supq (f a) = t -> a_cfg (f a) = a_cfg a -> a_armed (f a) = a_armed a ->
  a_sup (f a) = a_sup a -> a_notify (f a) = a_notify a -> a_sig (f a) = a_sig a ->
  a_pc a = Idle -> (linkedp (f a) -> linkedp a) ->
  (UInv (trace_of w) x s a -> UInv (trace_of w) x s (f a)) ->
  TInv links x (emit (upd w s f) (TEnter s (Sup e))).
Proof.
  intros [h1 h2 h3 h3' h4 h5] Eg Eq Hsig0 Hx0 Fq Fc Fa Fs Fn Fsig Epc Fl FU.
  set (w1 := upd w s f). set (ev := TEnter s (Sup e)).
  assert (Et : trace_of (emit w1 ev) = trace_of w ++ [ev]) by reflexivity.
  assert (HK : forall s', K (emit w1 ev) s' = K w s').
  { intros s'. unfold K. rewrite Et. unfold ev. rewrite hl_snoc_enter.
    change (supq_of (emit w1 (TEnter s (Sup e))) s') with (supq_of (upd w s f) s').
    destruct (Nat.eq_dec s s') as [<-|Hne].
    - rewrite Nat.eqb_refl. unfold supq_of. rewrite get_upd_same, Eg. simpl. rewrite Fq, Eq, <- app_assoc. reflexivity.
    - apply Nat.eqb_neq in Hne as Hb. rewrite Hb, app_nil_r. unfold supq_of. rewrite get_upd_other by assumption. reflexivity. }
  assert (Hb : forall s', blocked x w s' -> blocked x (emit w1 ev) s').
  { intros s'. unfold blocked. change (get (emit w1 ev) s') with (get (upd w s f) s').
    destruct (Nat.eq_dec s s') as [<-|Hne].
    - rewrite get_upd_same, Eg. simpl. rewrite Fsig, Epc.
      intros [A|[A|[(r & f0 & p & A)|A]]]; auto; discriminate.
    - rewrite get_upd_other by assumption. auto. }
  constructor.
  - intros c. rewrite h1. symmetry. change (link_of (upd w s f) c = link_of w c). apply link_upd_same.
    intros a0 E0. rewrite Eg in E0. injection E0 as <-. exact Fc.
  - rewrite Et, tf_go_app, h2. reflexivity.
  - rewrite Et, sf_go_app, h3. reflexivity.
  - rewrite Et, stf_go_app, h3'. simpl. unfold stf_judge.
    destruct (is_terminal e) eqn:Ht; simpl; auto.
    destruct (onat_eqb (nth (about e) links None) (Some s)) eqn:Hl; simpl; auto.
    destruct (post_start_ok (about e) (trace_of w)) eqn:Hp; simpl; auto.
    apply onat_eqb_true in Hl. rewrite h1 in Hl. unfold link_of in Hl.
    destruct (get w (about e)) as [ac|] eqn:Egc; [|discriminate].
    destruct (CP1 _ _ _ _ _ (h5 _ ac s Egc Hl) Hp) as [(l1 & y & l2 & EK & Hn & Hab & Ho)|B].
    + assert (EKs : K w s = hl s (trace_of w) ++ e :: t) by (unfold K, supq_of; rewrite Eg, Eq; reflexivity).
      rewrite EKs in EK. symmetry in EK.
      assert (Hy : In y (hl s (trace_of w))).
      { apply (split_before (fun z => is_terminal z = true /\ about z = about e) l1 y l2 _ e t EK).
        - intros z Hz [T A]. apply (Ho z Hz T A).
        - intros [T _]. congruence.
        - auto. }
      apply Nat.ltb_lt. rewrite count_sup_hl. apply (filter_len_pos _ _ y Hy).
      rewrite Hn, Hab, Nat.eqb_refl. reflexivity.
    + exfalso. unfold blocked in B. rewrite Eg in B.
      destruct B as [A|[A|[(r & f0 & p & A)|A]]]; congruence.
  - intros i b Eb. rewrite Et. change (get (upd w s f) i = Some b) in Eb.
    apply UInv_emit with (x := x); auto; try (intros [A|A]; discriminate).
    destruct (Nat.eq_dec s i) as [->|Hne].
    + rewrite get_upd_same, Eg in Eb. simpl in Eb. injection Eb as <-. apply FU. apply h4. exact Eg.
    + rewrite get_upd_other in Eb by assumption. apply h4. exact Eb.
  - intros c a' s' Eg' El. change (get (upd w s f) c = Some a') in Eg'.
    assert (Ec : exists a0, get w c = Some a0 /\ c_link (a_cfg a0) = Some s' /\ a_armed a' = a_armed a0
                 /\ (linkedp a' -> linkedp a0) /\ a_sup a' = a_sup a0 /\ a_notify a' = a_notify a0).
    { destruct (Nat.eq_dec s c) as [->|Hne].
      - rewrite get_upd_same, Eg in Eg'. simpl in Eg'. injection Eg' as <-. exists a.
        rewrite Fc in El. repeat split; auto.
      - rewrite get_upd_other in Eg' by assumption. exists a'. repeat split; auto. }
    destruct Ec as (a0 & E & El0 & F1 & F2 & F3 & F4).
    destruct (h5 c a0 s' E El0) as [r p1 p2 p4]. constructor; unfold anyK, termK; rewrite ?HK.
    + intros A L. rewrite F3. rewrite F1 in A. destruct (r A (F2 L)) as [B|B]; auto.
    + rewrite Et, pso_app. simpl. rewrite orb_false_r. intros A. destruct (p1 A) as [B|B]; auto.
    + rewrite F1, F4. intros N D. destruct (p2 N D) as [B|B]; auto.
    + rewrite F1. exact p4.
Qed.

(* ------------------------------------------------------------------ *)
(* kill, take_children, terminate                                       *)

Lemma blocked_pw x F w w' s :
  pw F w w' -> (forall j b, get w j = Some b -> a_sig (F j b) = a_sig b /\ a_pc (F j b) = a_pc b) ->
  blocked x w s -> blocked x w' s.
Proof.
  intros [_ g] Hf. unfold blocked. rewrite g. destruct (get w s) as [b|] eqn:E; simpl; auto.
  destruct (Hf s b E) as [-> ->]. auto.
Qed.

Lemma tinv_do_kill links x w y : TInv links x w -> TInv links x (do_kill w y).
Proof.
  intros H. unfold do_kill. destruct (get w y) as [a|] eqn:Eg; [|exact H].
  destruct (negb (created a) || a_sig_taken a) eqn:Ec; [exact H|].
  apply orb_false_iff in Ec as [_ Ht].
  pose proof (t_act _ _ _ H y a Eg) as Ua.
  eapply tinv_upd_plain with (a := a); eauto.
  - intros _. clear - Ua Ht. uinv_tac.
    + intros _. destruct (a_ports a) eqn:Ep; auto.
  - unfold blocked. rewrite get_upd_same, Eg. simpl.
    intros [A|[A|[A|A]]]; auto. rewrite (U6 _ _ _ _ Ua A) in Ht. discriminate.
Qed.

(* after the kill step of terminate's worklist: y will start no handler, or has no children *)
Lemma tinv_kill_step links x w y :
  TInv links x w ->
  let w1 := match get w y with
            | Some ax => if Nat.ltb (a_status ax) 5 then do_kill w y else w
            | None => w end in
  TInv links x w1 /\
  (blocked x w1 y \/ exists a, get w1 y = Some a /\ a_pc a = NotCreated).
Proof.
  intros H. cbv zeta. destruct (get w y) as [a|] eqn:Eg.
  2: { split; [exact H|]. left. unfold blocked. rewrite Eg. exact I. }
  pose proof (t_act _ _ _ H y a Eg) as Ua.
  destruct (Nat.ltb (a_status a) 5) eqn:El.
  - split; [apply tinv_do_kill; exact H|].
    unfold do_kill. rewrite Eg. destruct (created a) eqn:Ec; simpl.
    + destruct (a_sig_taken a) eqn:Et.
      * left. unfold blocked. rewrite Eg. destruct (U9 _ _ _ _ Ua Et) as [A|[A|A]]; auto.
      * left. unfold blocked. rewrite get_upd_same, Eg. simpl.
        destruct (a_ports a) eqn:Ep; [left; reflexivity|right; left; apply (U7 _ _ _ _ Ua Ep)].
    + right. exists a. split; [exact Eg|]. unfold created in Ec. destruct (a_pc a); congruence.
  - split; [exact H|]. left. apply Nat.ltb_ge in El. unfold blocked. rewrite Eg.
    destruct (U1 _ _ _ _ Ua El) as [A|[A|A]]; auto.
Qed.

Lemma Ftc_fields p ks j a :
  a_supq (Ftc p ks j a) = a_supq a /\ a_cfg (Ftc p ks j a) = a_cfg a
  /\ a_armed (Ftc p ks j a) = a_armed a /\ a_notify (Ftc p ks j a) = a_notify a
  /\ a_sig (Ftc p ks j a) = a_sig a /\ a_pc (Ftc p ks j a) = a_pc a
  /\ a_status (Ftc p ks j a) = a_status a /\ a_sig_taken (Ftc p ks j a) = a_sig_taken a
  /\ a_ports (Ftc p ks j a) = a_ports a
  /\ (a_kids (Ftc p ks j a) = a_kids a \/ a_kids (Ftc p ks j a) = None)
  /\ (a_sup (Ftc p ks j a) = a_sup a \/ (existsb (Nat.eqb j) ks = true /\ a_sup a = Some p)).
Proof.
  unfold Ftc, clr. destruct (Nat.eqb p j); simpl;
    (destruct (existsb _ ks); simpl; [|repeat split; auto]);
    (destruct (a_sup a) as [q|] eqn:E; [destruct (Nat.eqb_spec q p) as [->|]|]; simpl; repeat split; auto).
Qed.

Lemma tinv_take_children links x w p :
  TInv links x w ->
  (blocked x w p \/ exists a, get w p = Some a /\ a_pc a = NotCreated) ->
  TInv links x (fst (take_children w p)).
Proof.
  intros H Hp.
  destruct (get w p) as [ap|] eqn:Eg; [|unfold take_children; rewrite Eg; exact H].
  destruct (a_kids ap) as [ks|] eqn:Ek; [|unfold take_children; rewrite Eg, Ek; exact H].
  destruct (take_children_pw w p ap ks Eg Ek) as [Hpw _].
  set (w' := fst (take_children w p)) in *.
  assert (HK : forall s, K w' s = K w s).
  { intros s. apply (K_pw_same _ _ _ s Hpw). intros j a _. apply (Ftc_fields p ks j a). }
  assert (Hb : forall s, blocked x w s -> blocked x w' s).
  { intros s. apply (blocked_pw x _ _ _ s Hpw). intros j b _.
    destruct (Ftc_fields p ks j b) as (_ & _ & _ & _ & A & B & _). auto. }
  (* a supervisor pointer is only cleared when p really is finished *)
  assert (Hclr : ks <> [] -> blocked x w' p).
  { intros Hne. destruct Hp as [B|(a0 & E0 & Epc)]; [apply Hb; exact B|].
    assert (a0 = ap) by congruence. subst a0.
    exfalso. apply Hne. apply (U2 _ _ _ _ (t_act _ _ _ H p ap Eg) Epc ks Ek). }
  eapply tinv_pw with (x := x); [exact H|exact Hpw| | |].
  - intros j a _. destruct (Ftc_fields p ks j a) as (A & B & _). auto.
  - intros j a Ea Ua. destruct (Ftc_fields p ks j a) as (_ & _ & F3 & F4 & F5 & F6 & F7 & F8 & F9 & F10 & _).
    destruct Ua as [u1 u2 u3 u4 u5 u6 u7 u8 u9 u10 u11].
    constructor; rewrite ?F3, ?F4, ?F5, ?F6, ?F7, ?F8, ?F9; auto.
    intros Epc ks' Ek'. destruct F10 as [E|E]; rewrite E in Ek'; [eauto|discriminate].
  - intros c a s Ea El Ca. destruct (Ftc_fields p ks c a) as (_ & _ & F3 & F4 & _ & F6 & _ & _ & _ & _ & F11).
    eapply cinv_keep;
      [exact Ca|apply (trace_of_pw _ _ _ Hpw)|apply HK|apply Hb|congruence
      | | |congruence|intros D; left; congruence|try (intros; discriminate); auto].
    + unfold linkedp. rewrite F4, F6. destruct (Ftc_fields p ks c a) as (_ & -> & _). auto.
    + intros A L. destruct F11 as [E|[Hin Es]]; [left; exact E|right].
      assert (Hne : ks <> []) by (intros ->; discriminate).
      assert (L0 : linkedp a).
      { revert L. unfold linkedp. rewrite F4, F6. destruct (Ftc_fields p ks c a) as (_ & -> & _). auto. }
      rewrite F3 in A. destruct (CR _ _ _ _ _ Ca A L0) as [B|B]; [|apply Hb; exact B].
      rewrite Es in B. injection B as <-. apply Hclr. exact Hne.
Qed.

Lemma tinv_terminate_fuel links x fuel pending w :
  TInv links x w -> TInv links x (terminate_fuel fuel pending w).
Proof.
  revert pending w. induction fuel as [|k IH]; intros pending w H; simpl; [exact H|].
  destruct pending as [|y rest]; [exact H|].
  destruct (tinv_kill_step links x w y H) as [H1 Hp]. cbv zeta in H1, Hp.
  set (w1 := match get w y with
             | Some ax => if Nat.ltb (a_status ax) 5 then do_kill w y else w
             | None => w end) in *.
  pose proof (tinv_take_children links x w1 y H1 Hp) as H2.
  destruct (take_children w1 y) as [w2 ks]. simpl in H2. apply IH. exact H2.
Qed.

Lemma tinv_terminate links x w i : TInv links x w -> TInv links x (terminate w i).
Proof. apply tinv_terminate_fuel. Qed.

(* ------------------------------------------------------------------ *)
(* the end of an actor                                                  *)

(* the last two steps of cleanup (unlink, mark dead), described pointwise *)
Lemma tinv_die links w w' i G :
  TInv links (Some i) w -> pw G w w' ->
  (forall j b, j <> i -> get w j = Some b ->
     a_supq (G j b) = a_supq b /\ a_cfg (G j b) = a_cfg b /\ a_sig (G j b) = a_sig b
     /\ a_pc (G j b) = a_pc b /\ a_armed (G j b) = a_armed b /\ a_notify (G j b) = a_notify b
     /\ a_sup (G j b) = a_sup b /\ a_status (G j b) = a_status b /\ a_ports (G j b) = a_ports b
     /\ a_sig_taken (G j b) = a_sig_taken b
     /\ (forall ks', a_kids (G j b) = Some ks' -> exists ks, a_kids b = Some ks /\ (ks = [] -> ks' = []))) ->
  (forall b, get w i = Some b ->
     a_supq (G i b) = a_supq b /\ a_cfg (G i b) = a_cfg b /\ a_pc (G i b) = Done
     /\ a_armed (G i b) = false /\ a_notify (G i b) = a_notify b /\ a_sig (G i b) = a_sig b
     /\ a_sig_taken (G i b) = a_sig_taken b) ->
  (forall b s, get w i = Some b -> c_link (a_cfg b) = Some s -> a_notify b = true ->
     termK w s i \/ blocked (Some i) w s) ->
  TInv links (Some i) w'.
Proof.
  intros H Hpw Ho Hi Hk.
  assert (HK : forall s, K w' s = K w s).
  { intros s. apply (K_pw_same _ _ _ s Hpw). intros j b Eb. destruct (Nat.eq_dec j i) as [->|Hne].
    - apply (Hi b Eb).
    - apply (Ho j b Hne Eb). }
  assert (Hb : forall s, blocked (Some i) w s -> blocked (Some i) w' s).
  { intros s. unfold blocked. destruct Hpw as [_ g]. rewrite g.
    destruct (get w s) as [b|] eqn:E; simpl; auto. destruct (Nat.eq_dec s i) as [->|Hne].
    - auto.
    - destruct (Ho s b Hne E) as (_ & _ & -> & -> & _). auto. }
  eapply tinv_pw with (x := Some i); [exact H|exact Hpw| | |].
  - intros j b Eb. destruct (Nat.eq_dec j i) as [->|Hne].
    + destruct (Hi b Eb) as (A & B & _). auto.
    + destruct (Ho j b Hne Eb) as (A & B & _). auto.
  - intros j b Eb [u1 u2 u3 u4 u5 u6 u7 u8 u9 u10 u11]. destruct (Nat.eq_dec j i) as [->|Hne].
    + destruct (Hi b Eb) as (_ & _ & F3 & F4 & F5 & F6 & F7).
      constructor; rewrite ?F3, ?F4, ?F5, ?F6, ?F7; auto; try (intros; discriminate).
    + destruct (Ho j b Hne Eb) as (_ & _ & F3 & F4 & F5 & F6 & _ & F8 & F9 & F10 & F11).
      constructor; rewrite ?F3, ?F4, ?F5, ?F6, ?F8, ?F9, ?F10; auto.
      intros Epc ks' Ek'. destruct (F11 ks' Ek') as (ks & Ek & Himp). apply Himp. eapply u2; eauto.
  - intros c b s Eb El Cb. destruct (Nat.eq_dec c i) as [->|Hne].
    + destruct (Hi b Eb) as (_ & _ & F3 & F4 & F5 & _).
      destruct Cb as [r p1 p2 p4]. constructor; unfold anyK, termK; rewrite ?HK.
      * rewrite F4. intros; discriminate.
      * rewrite (trace_of_pw _ _ _ Hpw). intros A. destruct (p1 A) as [B|B]; auto.
      * rewrite F5. intros N _. destruct (Hk b s Eb El N) as [B|B]; auto.
      * intros _. left. exact F4.
    + destruct (Ho c b Hne Eb) as (_ & Fc & _ & F4 & F5 & F6 & F7 & _).
      eapply cinv_keep;
        [exact Cb|apply (trace_of_pw _ _ _ Hpw)|apply HK|apply Hb|congruence
        | |intros _ _; left; exact F7|congruence|intros D; left; congruence|try (intros; discriminate); auto].
      unfold linkedp. rewrite F6, F4, Fc. auto.
Qed.

(* the exit path is complete: the actor is dead and its final event has been logged *)
Lemma tinv_untag links w i a :
  TInv links (Some i) w -> get w i = Some a -> a_pc a = Done -> a_armed a = false ->
  pend i (trace_of w) -> TInv links None w.
Proof.
  intros H Eg Epc Ha Hp.
  assert (Hb : forall s, blocked (Some i) w s -> blocked None w s).
  { intros s. unfold blocked. destruct (get w s) as [b|] eqn:E; auto.
    intros [A|[A|[A|A]]]; auto. injection A as <-. rewrite Eg in E. injection E as <-. auto. }
  eapply tinv_pw with (x := Some i) (F := fun _ b => b); [exact H|apply pw_refl| | |].
  - auto.
  - intros j b Eb [u1 u2 u3 u4 u5 u6 u7 u8 u9 u10 u11].
    assert (Hj : Some i = Some j -> b = a) by (intros E; injection E as <-; congruence).
    constructor; auto.
    + intros L. destruct (u1 L) as [A|[A|A]]; auto. rewrite (Hj A). auto.
    + intros L. destruct (u4 L) as [A|A]; auto. rewrite (Hj A). auto.
    + intros L. destruct (u9 L) as [A|[A|A]]; auto. rewrite (Hj A). auto.
    + intros L. destruct (u11 L) as [A|A]; auto. left. injection A as <-. exact Hp.
  - intros c b s Eb El Cb.
    eapply cinv_keep; [exact Cb|reflexivity|auto|apply Hb|auto|auto|auto|auto|auto|].
    intros E. injection E as <-. right. rewrite Eg in Eb. injection Eb as <-. exact Ha.
Qed.

Lemma upd_sup_none_id a : a_sup a = None -> upd_sup a None = a.
Proof. destruct a; simpl; intros ->; reflexivity. Qed.

Lemma notify_get w i e j b' :
  get (notify_supervisor w i e) j = Some b' ->
  exists b, get w j = Some b /\ (b' = b \/ b' = pushq e b).
Proof.
  destruct (get w i) as [a|] eqn:Eg.
  - destruct (notify_cases w i a e Eg) as [(s & b0 & _ & _ & _ & ->)|[-> _]]; [|eauto].
    destruct (Nat.eq_dec s j) as [->|Hne].
    + rewrite get_upd_same. destruct (get w j) as [b|]; simpl; [|discriminate].
      intros E. injection E as <-. eauto.
    + rewrite get_upd_other by assumption. eauto.
  - unfold notify_supervisor. rewrite Eg. eauto.
Qed.

Lemma kids_rm_nil i b ks' :
  a_kids (kids_rm i b) = Some ks' -> exists ks, a_kids b = Some ks /\ (ks = [] -> ks' = []).
Proof.
  unfold kids_rm. destruct (a_kids b) as [ks|] eqn:E; simpl.
  - intros E'. injection E' as <-. exists ks. split; [reflexivity|]. intros ->. reflexivity.
  - rewrite E. discriminate.
Qed.

(* ActorLifecycleGuard::cleanup of the actor in transit *)
Lemma tinv_cleanup links w i a ev :
  TInv links (Some i) w -> get w i = Some a -> a_armed a = true ->
  (a_notify a = true -> exists e, ev = Some e /\ is_terminal e = true /\ about e = i) ->
  (forall e, ev = Some e -> about e = i) ->
  TInv links (Some i) (cleanup w i ev).
Proof.
  intros H Eg Harm Hev Habt. unfold cleanup. rewrite Eg, Harm. simpl.
  set (w1 := upd w i (fun a0 => upd_status a0 5)).
  assert (H1 : TInv links (Some i) w1).
  { eapply tinv_upd_plain with (a := a); eauto.
    - clear. uinv_tac.
    - unfold blocked. rewrite get_upd_same, Eg. simpl. auto. }
  set (w2 := terminate w1 i).
  assert (H2 : TInv links (Some i) w2) by (apply tinv_terminate; exact H1).
  assert (S2 : sil w w2).
  { apply sil_trans with w1; [unfold w1; apply sil_upd; sr_tac|apply sil_terminate]. }
  destruct (sil_get w w2 i a S2 Eg) as (a2 & Eg2 & R2).
  set (w3 := match ev with Some e => notify_supervisor w2 i e | None => w2 end).
  assert (H3 : TInv links (Some i) w3).
  { unfold w3. destruct ev as [e0|]; [apply tinv_notify|]; try exact H2.
    intros _. rewrite (Habt e0 eq_refl). reflexivity. }
  (* what the supervisor knows once the report has been made *)
  assert (Hk3 : forall s, c_link (a_cfg a2) = Some s -> a_notify a2 = true ->
                termK w3 s i \/ blocked (Some i) w3 s).
  { intros s El N. rewrite (s_notify _ _ R2) in N. destruct (Hev N) as (e & -> & Ht & Ea).
    unfold w3. assert (L : linkedp a2) by (left; rewrite (s_notify _ _ R2); exact N).
    assert (A2' : a_armed a2 = true) by (rewrite (s_armed _ _ R2); exact Harm).
    destruct (notify_known links (Some i) w2 i a2 e s H2 Eg2 El A2' L) as [B|B]; [left|right; exact B].
    exists e. auto. }
  assert (Eg3 : exists a3, get w3 i = Some a3 /\ a_cfg a3 = a_cfg a2 /\ a_notify a3 = a_notify a2
                           /\ a_sup a3 = a_sup a2).
  { assert (N3 : get w3 i <> None).
    { apply get_some_lt. assert (E : nact w3 = nact w2) by (unfold w3; destruct ev; [apply nact_notify|reflexivity]).
      rewrite E. apply get_some_lt. congruence. }
    destruct (get w3 i) as [a3|] eqn:E3; [|congruence]. exists a3. split; [reflexivity|].
    unfold w3 in E3. destruct ev as [e|].
    - destruct (notify_get _ _ _ _ _ E3) as (b & Eb & [ -> | -> ]); rewrite Eg2 in Eb; injection Eb as <-; auto.
    - rewrite Eg2 in E3. injection E3 as <-. auto. }
  destruct Eg3 as (a3 & Eg3 & C3 & N3 & S3).
  assert (Hk : forall b s, get w3 i = Some b -> c_link (a_cfg b) = Some s -> a_notify b = true ->
               termK w3 s i \/ blocked (Some i) w3 s).
  { intros b s Eb El N. rewrite Eg3 in Eb. injection Eb as <-. apply Hk3; congruence. }
  unfold unlink_from_supervisor. fold w1. fold w2. fold w3. rewrite Eg3.
  destruct (a_sup a3) as [s'|] eqn:Es3.
  - change (fun x0 : actor => match a_kids x0 with
                              | Some ks => upd_kids x0 (Some (remove_nat i ks))
                              | None => x0 end) with (kids_rm i).
    rewrite upd_upd.
    eapply tinv_die with (w := w3)
      (G := fun j b => (fun b1 => if Nat.eqb i j then upd_dead (upd_sup b1 None) else b1)
                         (if Nat.eqb s' j then kids_rm i b else b));
      [exact H3|eapply pw_ext; [|eapply pw_comp; apply pw_upd]; intros j b _; reflexivity| | |exact Hk].
    + intros j b Hne _. assert (Hb : Nat.eqb i j = false) by (apply Nat.eqb_neq; congruence). rewrite Hb.
      destruct (Nat.eqb s' j); [|repeat split; auto; intros ks' E; exists ks'; auto].
      unfold kids_rm. destruct (a_kids b) as [ks|] eqn:Ek; simpl; repeat split; auto.
      * intros ks' E. injection E as <-. exists ks. split; [reflexivity|]. intros ->. reflexivity.
      * intros ks' E. rewrite Ek in E. discriminate.
    + intros b _. rewrite Nat.eqb_refl. destruct (Nat.eqb s' i); [unfold kids_rm; destruct (a_kids b)|];
        simpl; repeat split; reflexivity.
  - eapply tinv_die with (w := w3) (G := fun j b => if Nat.eqb i j then upd_dead b else b);
      [exact H3|apply pw_upd| | |exact Hk].
    + intros j b Hne _. assert (Hb : Nat.eqb i j = false) by (apply Nat.eqb_neq; congruence). rewrite Hb.
      repeat split; auto. intros ks' E. exists ks'. auto.
    + intros b _. rewrite Nat.eqb_refl. simpl. repeat split; reflexivity.
Qed.

Lemma tinv_retag links w i : TInv links None w -> TInv links (Some i) w.
Proof.
  intros H. eapply tinv_pw with (x := None) (F := fun _ a => a); [exact H|apply pw_refl| | |].
  - auto.
  - intros j b Eb [u1 u2 u3 u4 u5 u6 u7 u8 u9 u10 u11].
    constructor; auto.
    + intros L. destruct (u1 L) as [A|[A|A]]; auto. discriminate.
    + intros L. destruct (u4 L) as [A|A]; auto. discriminate.
    + intros L. destruct (u9 L) as [A|[A|A]]; auto. discriminate.
    + intros L. destruct (u11 L) as [A|A]; auto. discriminate.
  - intros c b s Eb El Cb.
    eapply cinv_keep; [exact Cb|reflexivity|auto|apply blocked_tag; auto|auto|auto|auto|auto|auto|intros; discriminate].
Qed.

Lemma cleanup_done w i a ev :
  get w i = Some a -> a_armed a = true ->
  exists a', get (cleanup w i ev) i = Some a' /\ a_pc a' = Done /\ a_armed a' = false.
Proof.
  intros Eg Harm. unfold cleanup. rewrite Eg, Harm. simpl. rewrite get_upd_same.
  match goal with |- exists a', option_map _ ?G = _ /\ _ => destruct G as [b|] eqn:E end; simpl.
  - eexists; split; [reflexivity|]. split; reflexivity.
  - exfalso. revert E. apply get_some_lt. rewrite nact_unlink.
    destruct ev; rewrite ?nact_notify; unfold terminate; rewrite nact_terminate_fuel, nact_upd;
      apply get_some_lt; congruence.
Qed.

Lemma tinv_finish links w i a e :
  TInv links (Some i) w -> get w i = Some a -> a_armed a = true ->
  is_terminal e = true -> about e = i -> TInv links None (finish w i e).
Proof.
  intros H Eg Harm Ht Ea. unfold finish.
  destruct (cleanup_done w i a (Some e) Eg Harm) as (a' & Eg' & Epc' & Ha').
  apply (tinv_untag links _ i a'); auto.
  - apply tinv_emit with (x := Some i); auto; try (intros ? ? [A|A]; discriminate); try (intros; discriminate).
    + eapply tinv_cleanup; eauto. intros e0 E0. injection E0 as <-. exact Ea.
    + intros j b [A|A] Eb; [discriminate|]. simpl in A. apply Nat.eqb_eq in A. subst j. auto.
  - rewrite trace_of_emit. apply pend_final. left. reflexivity.
Qed.

Lemma tinv_start_failed links w i a :
  TInv links (Some i) w -> get w i = Some a -> a_armed a = true -> a_notify a = false ->
  TInv links None (start_failed w i).
Proof.
  intros H Eg Harm Hn. unfold start_failed.
  destruct (cleanup_done w i a None Eg Harm) as (a' & Eg' & Epc' & Ha').
  apply (tinv_untag links _ i a'); auto.
  - apply tinv_emit with (x := Some i); auto; try (intros ? ? [A|A]; discriminate); try (intros; discriminate).
    eapply tinv_cleanup; eauto; [intros N; congruence|intros e0 E0; discriminate].
  - rewrite trace_of_emit. apply pend_final. right; left. reflexivity.
Qed.

Lemma tinv_killed_exit links w i a c :
  TInv links (Some i) w -> get w i = Some a -> a_armed a = true ->
  (c = Some PreStart -> a_notify a = false) ->
  TInv links None (killed_exit w i c).
Proof.
  intros H Eg Harm Hc. unfold killed_exit.
  set (w1 := terminate w i).
  assert (H1 : TInv links (Some i) w1) by (apply tinv_terminate; exact H).
  assert (S1 : sil w w1) by apply sil_terminate.
  destruct (sil_get w w1 i a S1 Eg) as (a1 & Eg1 & R1).
  assert (Harm1 : a_armed a1 = true) by (rewrite (s_armed _ _ R1); exact Harm).
  assert (Hfin5 : forall e, is_terminal e = true -> about e = i ->
            TInv links None (finish (upd w1 i (fun a0 => upd_status a0 5)) i e)).
  { intros e Ht Ea. eapply tinv_finish with (a := upd_status a1 5); auto.
    - eapply tinv_upd_plain with (a := a1); eauto.
      + clear. uinv_tac.
      + unfold blocked. rewrite get_upd_same, Eg1. simpl. auto.
    - rewrite get_upd_same, Eg1. reflexivity. }
  destruct c as [[| |m|e|]|]; try (apply Hfin5; reflexivity); try (eapply tinv_finish; eauto; reflexivity).
  eapply tinv_start_failed; eauto. rewrite (s_notify _ _ R1). auto.
Qed.

Definition quiet_fields (a a' : actor) : Prop :=
  a_cfg a' = a_cfg a /\ a_armed a' = a_armed a /\ a_sup a' = a_sup a /\ a_notify a' = a_notify a
  /\ a_sig a' = a_sig a /\ a_sig_taken a' = a_sig_taken a /\ a_ports a' = a_ports a
  /\ a_kids a' = a_kids a /\ a_pc a' = a_pc a.

(* the pending signal is consumed and the actor leaves *)
Lemma tinv_sig_exit links w i a F c :
  TInv links None w -> get w i = Some a -> a_armed a = true ->
  quiet_fields a (F a) -> a_supq (F a) = a_supq a ->
  (c = Some PreStart -> a_notify a = false) ->
  TInv links None (killed_exit (upd w i (fun a0 => upd_sig (F a0) false true)) i c).
Proof.
  intros H Eg Harm (Fc & Fa & Fs & Fn & Fsig & Ft & Fp & Fk & Fpc) Fq Hc.
  pose proof (t_act _ _ _ H i a Eg) as Ua.
  eapply tinv_killed_exit with (a := upd_sig (F a) false true).
  - eapply tinv_upd with (x := None) (a := a); [exact H|exact Eg|exact Fq|exact Fc| |right; left; reflexivity| |].
    + intros _. destruct Ua as [u1 u2 u3 u4 u5 u6 u7 u8 u9 u10 u11].
      constructor; simpl; rewrite ?Fa, ?Fn, ?Fp, ?Fk, ?Fpc; auto; try (intros; discriminate).
    + unfold blocked. rewrite get_upd_same, Eg. simpl. auto.
    + intros s El Ci.
      assert (EK : forall s0, K (upd w i (fun a0 => upd_sig (F a0) false true)) s0 = K w s0).
      { intros s0. apply (K_pw_same _ w _ s0 (pw_upd w i _)). intros j b Eb. cbv beta.
        destruct (Nat.eqb_spec i j) as [<-|]; auto. rewrite Eg in Eb. injection Eb as <-. exact Fq. }
      eapply cinv_keep;
        [exact Ci|reflexivity|apply EK| |simpl; congruence| |intros _ _; left; simpl; exact Fs
        |simpl; congruence|simpl; intros D; left; congruence|try (intros; discriminate); auto].
      * apply blocked_upd with (a := a); [exact Eg|right; left; reflexivity|].
        unfold blocked. rewrite get_upd_same, Eg. simpl. auto.
      * unfold linkedp. simpl. rewrite Fn, Fc, Fpc. auto.
  - rewrite get_upd_same, Eg. reflexivity.
  - simpl. congruence.
  - intros E. simpl. rewrite Fn. auto.
Qed.

(* a callback starts (the signal is not pending) *)
Lemma tinv_enter links w i a F c :
  TInv links None w -> get w i = Some a -> a_sig a = false -> a_armed a = true ->
  start_from (a_pc a) c -> quiet_fields a (F a) ->
  (5 <= a_status (F a) -> c = PostStop) ->
  (match c with
   | Sup e => a_supq a = e :: a_supq (F a)
   | Handle _ => a_supq a = [] /\ a_supq (F a) = []
   | _ => a_supq (F a) = a_supq a end) ->
  (c = PreStart -> c_local (a_cfg a) = true -> forall s, c_link (a_cfg a) = Some s -> a_sup a = Some s) ->
  TInv links None (enter (upd w i F) i c).
Proof.
  intros H Eg Hsig Harm Hfrom (Fc & Fa & Fs & Fn & Fsig & Ft & Fp & Fk & Fpc) Hst Fq Hloc.
  pose proof (t_act _ _ _ H i a Eg) as Ua.
  assert (Hq : a_pc a = NotStarted \/ a_pc a = Spawned \/ a_pc a = Idle).
  { unfold start_from in Hfrom. destruct (a_pc a); try tauto; destruct c; tauto. }
  unfold enter. rewrite get_upd_same, Eg. cbn [option_map].
  destruct (script_of (upd w i F) (F a) c) as [es f].
  match goal with |- TInv _ _ (upd (emit _ _) i (fun a0 => upd_pc a0 (InCb c ?ES f false))) =>
    set (es' := ES) end.
  rewrite upd_emit, upd_upd.
  set (G := fun a0 => upd_pc (F a0) (InCb c es' f false)).
  assert (UG : UInv (trace_of w) None i (G a)).
  { destruct Ua as [u1 u2 u3 u4 u5 u6 u7 u8 u9 u10 u11]. unfold G.
    constructor; simpl; rewrite ?Fa, ?Fn, ?Fp, ?Fk, ?Fsig, ?Ft.
    - intros L. right; left. rewrite (Hst L). eauto.
    - intros; discriminate.
    - exact u3.
    - exact u4.
    - intros P _. destruct c; try discriminate P;
        (apply u5; [|destruct Hq as [E|[E|E]]; rewrite E; discriminate];
         unfold start_from in Hfrom; destruct (a_pc a); try contradiction; reflexivity).
    - exact u6.
    - intros P. apply u7 in P. destruct Hq as [E|[E|E]]; congruence.
    - intros P. rewrite Harm in P. discriminate.
    - intros P. destruct (u9 P) as [A|[A|A]]; [left; exact A| |discriminate].
      destruct Hq as [E|[E|E]]; congruence.
    - intros P. destruct c; try discriminate. apply u10.
      unfold start_from in Hfrom. destruct (a_pc a); try contradiction; reflexivity.
    - intros; discriminate. }
  assert (Hnb : ~ blocked None w i).
  { unfold blocked. rewrite Eg. intros [A|[A|[(r & f0 & p & A)|A]]]; try congruence;
      destruct Hq as [E|[E|E]]; congruence. }
  assert (Hupd : a_supq (G a) = a_supq a -> c <> PreStart -> TInv links None (upd w i G)).
  { intros Eq Hc.
    apply (tinv_upd_plain links None w i G a H Eg Eq Fc (fun _ => UG));
      [intros B; contradiction|exact Fa| |exact Fs|exact Fn].
    unfold linkedp, G. simpl. rewrite Fn. intros [N|[_ (r & f0 & p & E)]]; [left; exact N|].
    injection E as E _ _. congruence. }
  destruct c as [| |m|e|].
  - (* pre_start *)
    apply tinv_emit with (x := None); auto; try (intros ? ? [A|A]; discriminate); try (intros; discriminate).
    eapply tinv_upd with (x := None) (a := a); [exact H|exact Eg|exact Fq|exact Fc|intros _; exact UG|left; reflexivity| |].
    + intros B. contradiction.
    + intros s El Ci. destruct Ci as [r p1 p2 p4].
      assert (EK : forall s0, K (upd w i G) s0 = K w s0).
      { intros s0. apply (K_pw_same _ w _ s0 (pw_upd w i _)). intros j b Eb. cbv beta.
        destruct (Nat.eqb_spec i j) as [<-|]; auto. rewrite Eg in Eb. injection Eb as <-. exact Fq. }
      assert (Hb : blocked None w s -> blocked None (upd w i G) s).
      { apply blocked_upd with (a := a); [exact Eg|left; reflexivity|intros B; contradiction]. }
      constructor; unfold anyK, termK; rewrite ?EK; unfold G; simpl.
      * intros _ L. unfold linkedp in L. simpl in L. destruct L as [N|[L _]].
        -- rewrite Fn in N. destruct (r Harm (or_introl N)) as [B|B]; [left; congruence|right; apply Hb; exact B].
        -- left. rewrite Fs. rewrite Fc in L. apply (Hloc eq_refl L s El).
      * intros A. destruct (p1 A) as [B|B]; [left; exact B|right; apply Hb; exact B].
      * rewrite Fn, Fa. intros N D. destruct (p2 N D) as [B|B]; [left; exact B|right; apply Hb; exact B].
      * rewrite Fa. exact p4.
  - (* post_start *)
    apply tinv_emit with (x := None); auto; try (intros ? ? [A|A]; discriminate); try (intros; discriminate).
    + apply Hupd; [exact Fq|discriminate].
    + intros j b [A|A] Eb; [discriminate|]. simpl in A. apply Nat.eqb_eq in A. subst j.
      rewrite get_upd_same, Eg in Eb. injection Eb as <-. apply (U5 _ _ _ _ UG); simpl; [reflexivity|discriminate].
  - (* a message handler *)
    destruct Fq as [Eq0 Eq1].
    apply tinv_emit with (x := None); auto; try (intros ? ? [A|A]; discriminate); try (intros; discriminate).
    + apply Hupd; [simpl; congruence|discriminate].
    + intros s m0 E. injection E as <- <-. split; [reflexivity|].
      exists (G a). rewrite get_upd_same, Eg. unfold G. simpl.
      repeat split; auto; try congruence; try discriminate.
  - (* a supervision handler: the head of the queue *)
    eapply tinv_deq_enter with (a := a) (t := a_supq (F a)); eauto; unfold G; simpl; auto.
    + unfold start_from in Hfrom. destruct (a_pc a); try contradiction; reflexivity.
    + unfold linkedp. simpl. rewrite Fn. intros [N|[_ (r & f0 & p & E)]]; [left; exact N|discriminate].
  - (* post_stop *)
    apply tinv_emit with (x := None); auto; try (intros ? ? [A|A]; discriminate); try (intros; discriminate).
    apply Hupd; [exact Fq|discriminate].
Qed.

(* ------------------------------------------------------------------ *)
(* linking to the supervisor                                            *)

Lemma tinv_link_gen links (fin : bool) w i a s asup ks :
  TInv links None w -> get w i = Some a -> c_link (a_cfg a) = Some s ->
  get w s = Some asup -> a_kids asup = Some ks -> created asup = true -> a_armed a = true ->
  (if fin then exists p, a_pc a = InCb PreStart [] ROk p else a_pc a = NotStarted) ->
  TInv links None
    (upd (upd w s (fun a0 => upd_kids a0 (Some (i :: remove_nat i ks)))) i
         (fun a0 => if fin then upd_pc (upd_notify (upd_sup a0 (Some s)) true) Spawned
                    else upd_sup a0 (Some s))).
Proof.
  intros H Eg Hl Egs Eks Hcr Harm Hfin.
  set (wL := upd (upd w s (fun a0 => upd_kids a0 (Some (i :: remove_nat i ks)))) i
                 (fun a0 => if fin then upd_pc (upd_notify (upd_sup a0 (Some s)) true) Spawned
                            else upd_sup a0 (Some s))).
  assert (Hpw : pw (Flk fin i s ks) w wL).
  { eapply pw_ext; [|eapply pw_comp; apply pw_upd]. intros j b _. unfold Flk. cbv beta.
    destruct (Nat.eqb s j), (Nat.eqb i j), fin; reflexivity. }
  assert (Hpre : pre_pc (a_pc a) = true).
  { destruct fin; [destruct Hfin as (p & ->)|rewrite Hfin]; reflexivity. }
  assert (Hpcs : forall j b, get w j = Some b ->
            a_sig (Flk fin i s ks j b) = a_sig b /\ a_sig_taken (Flk fin i s ks j b) = a_sig_taken b
            /\ a_ports (Flk fin i s ks j b) = a_ports b
            /\ (a_pc (Flk fin i s ks j b) = a_pc b \/ (j = i /\ fin = true /\ a_pc (Flk fin i s ks j b) = Spawned))).
  { intros j b _. unfold Flk. destruct (Nat.eqb s j), (Nat.eqb_spec i j), fin; simpl; auto 8. }
  assert (HK : forall s0, K wL s0 = K w s0).
  { intros s0. apply (K_pw_same _ _ _ s0 Hpw). intros j b _. apply (Flk_fields fin i s ks j b). }
  assert (Hb : forall s0, blocked None w s0 -> blocked None wL s0).
  { intros s0. unfold blocked. destruct Hpw as [_ g]. rewrite g.
    destruct (get w s0) as [b|] eqn:E; simpl; auto.
    destruct (Hpcs s0 b E) as (-> & _ & _ & [-> |(-> & _ & P)]); auto.
    rewrite Eg in E. injection E as <-.
    intros [A|[A|[(r & f & p & A)|A]]]; auto; try discriminate; rewrite A in Hpre; discriminate. }
  eapply tinv_pw with (x := None); [exact H|exact Hpw| | |].
  - intros j b _. destruct (Flk_fields fin i s ks j b) as (A & B & _). auto.
  - intros j b Eb [u1 u2 u3 u4 u5 u6 u7 u8 u9 u10 u11].
    destruct (Flk_fields fin i s ks j b) as (_ & _ & F3 & _ & F5 & F6 & F7).
    destruct (Hpcs j b Eb) as (G1 & G2 & G3 & G4).
    destruct G4 as [G4|(-> & -> & G4)].
    + constructor; rewrite ?F3, ?F7, ?G1, ?G2, ?G3, ?G4; auto.
      * intros Epc ks' Ek'. rewrite F6 in Ek'. destruct (Nat.eqb_spec s j) as [<-|]; [|eauto].
        rewrite Egs in Eb. injection Eb as <-. unfold created in Hcr. rewrite Epc in Hcr. discriminate.
      * intros A. rewrite F5. destruct (Nat.eqb i j && fin); auto.
      * intros A B. rewrite F5. destruct (Nat.eqb i j && fin); auto.
      * intros A. rewrite F5. destruct (Nat.eqb i j && fin) eqn:E; auto.
        apply andb_true_iff in E as [E1 E2]. apply Nat.eqb_eq in E1. subst j.
        rewrite Eg in Eb. injection Eb as <-. destruct fin; [|discriminate].
        exfalso. rewrite <- G4 in A. unfold Flk in A. rewrite Nat.eqb_refl in A.
        destruct (Nat.eqb s i); discriminate.
    + rewrite Eg in Eb. injection Eb as <-.
      constructor; rewrite ?F3, ?F7, ?G1, ?G2, ?G3, ?G4; auto; try (intros; discriminate).
      * intros L. destruct (u1 L) as [A|[(r & f & p & A)|A]]; [|exfalso|discriminate].
        -- rewrite A in Hpre. discriminate.
        -- rewrite A in Hpre. discriminate.
      * intros _. rewrite F5, Nat.eqb_refl. reflexivity.
      * intros _ _. rewrite F5, Nat.eqb_refl. reflexivity.
      * intros P. apply u7 in P. rewrite P in Hpre. discriminate.
      * intros P. congruence.
      * intros P. destruct (u9 P) as [A|[A|A]]; auto. rewrite A in Hpre. discriminate.
  - intros c b s0 Eb El Cb.
    destruct (Flk_fields fin i s ks c b) as (_ & Fc & F3 & F4 & F5 & _).
    destruct (Hpcs c b Eb) as (_ & _ & _ & G4).
    destruct (Nat.eqb_spec i c) as [<-|Hne].
    + rewrite Eg in Eb. injection Eb as <-. assert (s0 = s) by congruence. subst s0.
      destruct Cb as [r p1 p2 p4]. constructor; unfold anyK, termK; rewrite ?HK.
      * intros _ _. left. exact F4.
      * rewrite (trace_of_pw _ _ _ Hpw). intros A. destruct (p1 A) as [B|B]; auto.
      * rewrite F3, Harm. intros; discriminate.
      * rewrite F3. exact p4.
    + simpl in F4, F5.
      destruct G4 as [G4|(E & _)]; [|congruence].
      eapply cinv_keep;
        [exact Cb|apply (trace_of_pw _ _ _ Hpw)|apply HK|apply Hb|congruence
        | |intros _ _; left; exact F4|congruence|intros D; left; congruence|try (intros; discriminate); auto].
      unfold linkedp. rewrite F5, Fc, G4. auto.
Qed.

Lemma tinv_try_link links (fin : bool) w i a s w1 :
  TInv links None w -> get w i = Some a -> c_link (a_cfg a) = Some s -> a_armed a = true ->
  (if fin then exists p, a_pc a = InCb PreStart [] ROk p else a_pc a = NotStarted) ->
  try_link w i s = (w1, true) ->
  TInv links None (if fin then upd w1 i (fun a0 => upd_pc (upd_notify a0 true) Spawned) else w1).
Proof.
  intros H Eg Hl Harm Hfin Etl. unfold try_link in Etl. rewrite Eg in Etl.
  destruct (get w s) as [asup|] eqn:Egs; [|discriminate].
  destruct (Nat.leb 4 (a_status a) || Nat.leb 4 (a_status asup) || negb (created asup)) eqn:Ec; [discriminate|].
  apply orb_false_iff in Ec as [_ Ec]. apply negb_false_iff in Ec.
  destruct (a_kids asup) as [ks|] eqn:Eks; [|discriminate].
  injection Etl as <-.
  pose proof (tinv_link_gen links fin w i a s asup ks H Eg Hl Egs Eks Ec Harm Hfin) as G.
  destruct fin; [rewrite upd_upd|]; exact G.
Qed.

Lemma notify_emit w e i ev : notify_supervisor (emit w e) i ev = emit (notify_supervisor w i ev) e.
Proof.
  unfold notify_supervisor. rewrite !get_emit. destruct (get w i) as [a|]; auto.
  destruct (a_sup a) as [s|]; auto. rewrite get_emit. destruct (get w s) as [b|]; auto.
  destruct (a_ports b); reflexivity.
Qed.

Lemma UInv_pc tr x i a q :
  UInv tr x i a -> a_pc a <> Done -> q <> Done -> q <> NotCreated ->
  (5 <= a_status a -> (exists r f p, q = InCb PostStop r f p) \/ x = Some i) ->
  (pre_pc q = false -> a_notify a = true) -> (pre_pc q = true -> a_notify a = false) ->
  UInv tr x i (upd_pc a q).
Proof.
  intros [u1 u2 u3 u4 u5 u6 u7 u8 u9 u10 u11] Hnd Hq1 Hq2 Hst Hn1 Hn2.
  constructor; simpl.
  - intros L. destruct (Hst L) as [A|A]; auto.
  - intros E. congruence.
  - exact u3.
  - exact u4.
  - intros P _. auto.
  - exact u6.
  - intros P. exfalso. auto.
  - intros P. exfalso. auto.
  - intros P. destruct (u9 P) as [A|[A|A]]; auto; contradiction.
  - exact Hn2.
  - intros P. contradiction.
Qed.

Lemma UInv_status tr x i a v : v < 5 -> UInv tr x i a -> UInv tr x i (upd_status a v).
Proof.
  intros Hv [u1 u2 u3 u4 u5 u6 u7 u8 u9 u10 u11]. constructor; simpl; auto.
  intros L. apply u1. lia.
Qed.

(* ------------------------------------------------------------------ *)
(* a callback returns                                                   *)

Lemma tinv_after_cb links w i a c f p :
  TInv links None w -> get w i = Some a -> a_pc a = InCb c [] f p -> a_armed a = true ->
  TInv links None (after_cb (emit w (TExit i c f)) i c f).
Proof.
  intros H Eg Epc Harm.
  pose proof (t_act _ _ _ H i a Eg) as Ua.
  set (e := TExit i c f). set (wx := emit w e).
  assert (Egx : get wx i = Some a) by exact Eg.
  assert (Hsub : forall j, p_sok j e = false /\ p_eps j e = false /\ p_end j e = false) by (intros j; auto).
  assert (HX : forall x', (p_over i e = true -> x' = Some i) -> p_pso i e = false -> TInv links x' wx).
  { intros x' Ho Hp. apply tinv_emit with (x := None); auto; try (intros; discriminate).
    - intros j b [A|A]; discriminate.
    - intros j b [A|A] Eb; [|discriminate]. right.
      assert (j = i) by (unfold e in A; simpl in A; destruct c, f; try discriminate; apply Nat.eqb_eq in A; auto).
      subst j. auto.
    - intros j b s A. exfalso. assert (j = i).
      { unfold e in A. simpl in A. destruct c; try discriminate; destruct f; try discriminate. apply Nat.eqb_eq in A; auto. }
      subst j. congruence. }
  assert (Hidle : TInv links None wx -> c <> PreStart -> c <> PostStop ->
                  TInv links None (upd wx i (fun a0 => upd_pc a0 Idle))).
  { intros Hx Hc1 Hc2.
    assert (Hpre : pre_pc (a_pc a) = false) by (rewrite Epc; destruct c; try reflexivity; congruence).
    assert (Hnd : a_pc a <> Done) by (rewrite Epc; discriminate).
    assert (Hnp : forall r f0 p0, a_pc a <> InCb PostStop r f0 p0).
    { intros r f0 p0 E. rewrite Epc in E. injection E as E _ _ _. congruence. }
    apply (tinv_upd_plain links None wx i (fun a0 => upd_pc a0 Idle) a Hx Egx eq_refl eq_refl).
    - intros Ux. apply UInv_pc; auto; try discriminate.
      + intros L. destruct (U1 _ _ _ _ Ux L) as [A|[(r & f0 & p0 & A)|A]];
          [contradiction|exfalso; eapply Hnp; eauto|discriminate].
      + intros _. apply (U5 _ _ _ _ Ux); auto.
    - unfold blocked. rewrite get_upd_same, Egx. simpl.
      intros [A|[A|[(r & f0 & p0 & A)|A]]]; auto; try contradiction; exfalso; eapply Hnp; eauto.
    - reflexivity.
    - unfold linkedp. simpl. intros [N|[_ (r & f0 & p0 & E)]]; [left; exact N|discriminate].
    - reflexivity.
    - reflexivity. }
  assert (Hfail : forall t, TInv links (Some i) wx ->
            TInv links None (finish wx i (SFailed i t)) /\
            TInv links None (finish (upd wx i (fun a0 => upd_status a0 5)) i (SFailed i t))).
  { intros t Hx. split.
    - eapply tinv_finish; eauto.
    - eapply tinv_finish with (a := upd_status a 5); auto.
      + apply (tinv_upd_plain links (Some i) wx i (fun a0 => upd_status a0 5) a Hx Egx eq_refl eq_refl); auto.
        * clear. uinv_tac.
        * unfold blocked. rewrite get_upd_same, Egx. simpl. auto.
      + rewrite get_upd_same, Egx. reflexivity. }
  unfold after_cb. rewrite Egx.
  destruct c as [| |m|ev|]; destruct f as [|t|t];
    try (apply Hfail; apply HX; [reflexivity|reflexivity]);
    try (apply Hidle; [apply HX; [discriminate|reflexivity]|discriminate|discriminate]).
  - (* pre_start Ok *)
    assert (Hx : forall x', TInv links x' wx) by (intros x'; apply HX; [discriminate|reflexivity]).
    assert (Hn0 : a_notify a = false) by (apply (U10 _ _ _ _ Ua); rewrite Epc; reflexivity).
    destruct (if c_local (a_cfg a) then None else c_link (a_cfg a)) as [s|] eqn:El.
    + assert (El' : c_link (a_cfg a) = Some s) by (destruct (c_local (a_cfg a)); [discriminate|exact El]).
      destruct (try_link wx i s) as [w1 ok] eqn:Etl. destruct ok.
      * apply tinv_emit with (x := None); auto; try (intros; discriminate).
        -- apply (tinv_try_link links true wx i a s w1 (Hx None) Egx El' Harm); [eauto|exact Etl].
        -- intros j b [A|A] Eb; [|discriminate]. simpl in A. apply Nat.eqb_eq in A. subst j.
           rewrite get_upd_same in Eb. destruct (get w1 i); simpl in Eb; [|discriminate].
           injection Eb as <-. reflexivity.
        -- intros j b [A|A]; discriminate.
      * assert (E1 : w1 = wx) by (rewrite <- (try_link_false wx i s); rewrite Etl; reflexivity).
        rewrite E1. eapply tinv_start_failed; eauto.
    + apply tinv_emit with (x := None); auto; try (intros; discriminate).
      * eapply tinv_upd with (x := None) (a := a); [apply Hx|exact Egx|reflexivity|reflexivity| |left; reflexivity| |].
        -- intros Ux. assert (Hnd : a_pc a <> Done) by (rewrite Epc; discriminate).
           destruct Ux as [u1 u2 u3 u4 u5 u6 u7 u8 u9 u10 u11]. constructor; simpl.
           ++ intros L. destruct (u1 L) as [A|[(r & f0 & p0 & A)|A]];
                [contradiction|rewrite Epc in A; discriminate|discriminate].
           ++ intros; discriminate.
           ++ intros _. reflexivity.
           ++ exact u4.
           ++ intros _ _. reflexivity.
           ++ exact u6.
           ++ intros P. exfalso. auto.
           ++ intros P. exfalso. auto.
           ++ intros P. destruct (u9 P) as [A|[A|A]]; auto; contradiction.
           ++ intros; discriminate.
           ++ intros; discriminate.
        -- unfold blocked. rewrite get_upd_same, Egx. simpl.
           intros [A|[A|[(r & f0 & p0 & A)|A]]]; auto; rewrite Epc in A; discriminate.
        -- intros s Els Ci. destruct Ci as [r p1 p2 p4].
           assert (Hloc : c_local (a_cfg a) = true) by (destruct (c_local (a_cfg a)); [reflexivity|congruence]).
           assert (EK : forall s0, K (upd wx i (fun a0 => upd_pc (upd_notify a0 true) Spawned)) s0 = K wx s0).
           { intros s0. apply (K_pw_same _ wx _ s0 (pw_upd wx i _)). intros j b _. cbv beta.
             destruct (Nat.eqb i j); reflexivity. }
           assert (Hb : blocked None wx s -> blocked None (upd wx i (fun a0 => upd_pc (upd_notify a0 true) Spawned)) s).
           { apply blocked_upd with (a := a); [exact Egx|left; reflexivity|].
             unfold blocked. rewrite get_upd_same, Egx. simpl.
             intros [A|[A|[(r0 & f0 & p0 & A)|A]]]; auto; rewrite Epc in A; discriminate. }
           constructor; unfold anyK, termK; rewrite ?EK; simpl.
           ++ intros _ _. destruct (r Harm) as [B|B]; auto. right. rewrite Epc. eauto.
           ++ intros A. destruct (p1 A) as [B|B]; auto.
           ++ rewrite Harm. intros; discriminate.
           ++ exact p4.
      * intros j b [A|A] Eb; [|discriminate]. simpl in A. apply Nat.eqb_eq in A. subst j.
        rewrite get_upd_same, Egx in Eb. injection Eb as <-. reflexivity.
      * intros j b [A|A]; discriminate.
  - (* pre_start failed *)
    apply (tinv_start_failed links wx i a); [apply HX; [discriminate|reflexivity]|exact Egx|exact Harm|].
    apply (U10 _ _ _ _ Ua). rewrite Epc. reflexivity.
  - apply (tinv_start_failed links wx i a); [apply HX; [discriminate|reflexivity]|exact Egx|exact Harm|].
    apply (U10 _ _ _ _ Ua). rewrite Epc. reflexivity.
  - (* post_start Ok: Idle, ActorStarted to the supervisor, then the event is logged *)
    set (g := fun a0 => upd_pc (upd_status a0 2) Idle).
    change (TInv links None (notify_supervisor (emit (upd w i g) e) i (SStarted i))).
    rewrite notify_emit.
    assert (Hn : a_notify a = true) by (apply (U5 _ _ _ _ Ua); rewrite Epc; [reflexivity|discriminate]).
    assert (H1 : TInv links None (upd w i g)).
    { assert (Hnd : a_pc a <> Done) by (rewrite Epc; discriminate).
      apply (tinv_upd_plain links None w i g a H Eg eq_refl eq_refl).
      - intros Ux. unfold g. apply UInv_pc; simpl; auto; try discriminate.
        + apply UInv_status; [lia|exact Ux].
        + intros L. assert (L' : 5 <= a_status a) by lia.
          destruct (U1 _ _ _ _ Ux L') as [A|[(r & f0 & p0 & A)|A]];
            [contradiction|rewrite Epc in A; discriminate|discriminate].
      - unfold blocked. rewrite get_upd_same, Eg. unfold g. simpl.
        intros [A|[A|[(r0 & f0 & p0 & A)|A]]]; auto; rewrite Epc in A; discriminate.
      - reflexivity.
      - unfold linkedp, g. simpl. intros [N|[_ (r & f0 & p0 & E)]]; [left; exact N|discriminate].
      - reflexivity.
      - reflexivity. }
    assert (Eg1 : get (upd w i g) i = Some (g a)) by (rewrite get_upd_same, Eg; reflexivity).
    apply tinv_emit with (x := None); auto; try (intros; discriminate).
    + apply tinv_notify; [exact H1|intros; discriminate].
    + intros j b [A|A]; discriminate.
    + intros j b [A|A]; discriminate.
    + intros j b s A Eb El. simpl in A. apply Nat.eqb_eq in A. subst j.
      assert (Eb1 : exists b1, get (upd w i g) i = Some b1 /\ a_cfg b1 = a_cfg b).
      { destruct (notify_get _ _ _ _ _ Eb) as (b1 & E1 & [ -> | -> ]); eauto. }
      destruct Eb1 as (b1 & E1 & Ec1). rewrite Eg1 in E1. injection E1 as <-.
      rewrite <- Ec1 in El.
      destruct (notify_known_end links None (upd w i g) i (g a) (SStarted i) s H1 Eg1 El) as [B|B]; auto.
      * left. exact Hn.
      * left. exists (K (upd w i g) s), (SStarted i), []. split; [exact B|]. split; [reflexivity|]. split; [reflexivity|].
        (* no terminal event about i is known yet: i is alive *)
        intros z Hz Tz Az.
        destruct (CP4 _ _ _ _ _ (t_cs _ _ _ H1 i (g a) s Eg1 El)) as [D|D]; [|unfold g in D; simpl in D; congruence|discriminate].
        exists z. auto.
  - (* post_stop Ok *)
    apply (tinv_finish links wx i a); [apply HX; [reflexivity|reflexivity]|exact Egx|exact Harm|reflexivity|reflexivity].
Qed.

(* ------------------------------------------------------------------ *)
(* requests made through a cell                                         *)

Lemma tinv_emit_plain links x w e :
  TInv links x w -> is_sup_enter e = false ->
  (forall j, p_sok j e = false /\ p_eps j e = false /\ p_over j e = false /\ p_end j e = false
             /\ p_pso j e = false) ->
  (forall s m, e <> TEnter s (Handle m)) ->
  TInv links x (emit w e).
Proof.
  intros H Hp Hn Hh. apply tinv_emit with (x := x); auto.
  - intros j a [A|A]; destruct (Hn j) as (E1 & E2 & _); congruence.
  - intros j a [A|A]; destruct (Hn j) as (_ & _ & E3 & E4 & _); congruence.
  - intros j a s A. destruct (Hn j) as (_ & _ & _ & _ & E5). congruence.
  - intros s m E. exfalso. apply (Hh s m E).
Qed.

Ltac plain_ev := first [reflexivity | intros; repeat split; reflexivity | intros; discriminate].

Lemma tinv_req_send links w i m : TInv links None w -> TInv links None (req_send w i m).
Proof.
  intros H. unfold req_send. destruct (is_created w i); [|exact H].
  unfold do_send. destruct (get w i) as [a|] eqn:Eg; [|exact H].
  destruct (can_send a); apply tinv_emit_plain; try plain_ev; [|exact H].
  eapply tinv_upd_plain with (a := a); eauto.
  - clear. uinv_tac.
  - unfold blocked. rewrite get_upd_same, Eg. simpl. auto.
Qed.

Lemma tinv_req_kill links w i : TInv links None w -> TInv links None (req_kill w i).
Proof.
  intros H. unfold req_kill. destruct (is_created w i); [|exact H].
  apply tinv_do_kill. apply tinv_emit_plain; try plain_ev. exact H.
Qed.

Lemma tinv_req_stop links w i r : TInv links None w -> TInv links None (req_stop w i r).
Proof.
  intros H. unfold req_stop. destruct (is_created w i); [|exact H].
  assert (H1 : TInv links None (emit w (TStopReq i r))) by (apply tinv_emit_plain; try plain_ev; exact H).
  unfold do_stop. destruct (get (emit w (TStopReq i r)) i) as [a|] eqn:Eg; [|exact H1].
  destruct (_ || _); [exact H1|].
  eapply tinv_upd_plain with (a := a); eauto.
  - clear. uinv_tac.
  - unfold blocked. rewrite get_upd_same, Eg. simpl. auto.
Qed.

Lemma drain_upd_more a :
  a_supq (drain_upd a) = a_supq a /\ a_cfg (drain_upd a) = a_cfg a /\ a_kids (drain_upd a) = a_kids a
  /\ a_notify (drain_upd a) = a_notify a /\ a_sup (drain_upd a) = a_sup a
  /\ (5 <= a_status (drain_upd a) -> 5 <= a_status a).
Proof.
  unfold drain_upd. destruct (Nat.ltb_spec (a_status a) 5); simpl;
    (destruct (a_marker a); simpl; [|destruct (a_ports a); simpl]); repeat split; auto; lia.
Qed.

Lemma tinv_req_drain links w i : TInv links None w -> TInv links None (req_drain w i).
Proof.
  intros H. unfold req_drain. destruct (is_created w i); [|exact H].
  assert (H1 : TInv links None (emit w (TDrainReq i))) by (apply tinv_emit_plain; try plain_ev; exact H).
  unfold do_drain. destruct (get (emit w (TDrainReq i)) i) as [a|] eqn:Eg; [|exact H1].
  destruct (negb (created a)); [exact H1|].
  change (TInv links None (upd (emit w (TDrainReq i)) i drain_upd)).
  destruct (drain_upd_fields a) as (E1 & E2 & E3 & E4 & E5 & E6 & E7).
  destruct (drain_upd_more a) as (D1 & D2 & D3 & D4 & D5 & D6).
  eapply tinv_upd_plain with (a := a); eauto.
  - intros [u1 u2 u3 u4 u5 u6 u7 u8 u9 u10 u11].
    constructor; rewrite ?E1, ?E2, ?E3, ?E4, ?E7, ?D3, ?D4; auto.
  - unfold blocked. rewrite get_upd_same, Eg. simpl. rewrite E1, E3. auto.
  - unfold linkedp. rewrite D4, D2, E1. auto.
Qed.

(* ------------------------------------------------------------------ *)
(* one segment of a poll                                                *)

Lemma qf_refl a : quiet_fields a a.
Proof. unfold quiet_fields. auto 10. Qed.

Lemma tinv_seg links w i : TInv links None w -> TInv links None (fst (seg w i)).
Proof.
  intros H. unfold seg. destruct (get w i) as [a|] eqn:Eg; [|exact H].
  pose proof (t_act _ _ _ H i a Eg) as Ua.
  destruct (a_pc a) as [| | |c rest f parked| |] eqn:Epc; try exact H.
  - (* NotStarted *)
    assert (Harm : a_armed a = true).
    { destruct (a_armed a) eqn:E; auto. apply (U8 _ _ _ _ Ua) in E. congruence. }
    assert (Hn0 : a_notify a = false) by (apply (U10 _ _ _ _ Ua); rewrite Epc; reflexivity).
    destruct (Nat.eqb (a_status a) 0) eqn:Est; cbn [negb fst].
    2: { apply (tinv_start_failed links w i a); auto. apply tinv_retag. exact H. }
    apply Nat.eqb_eq in Est.
    set (w0 := upd w i (fun a => upd_status a 1)).
    assert (H0 : TInv links None w0).
    { eapply tinv_upd_plain with (a := a); eauto.
      - intros Ux. apply UInv_status; [lia|exact Ux].
      - unfold blocked. rewrite get_upd_same, Eg. simpl. auto. }
    assert (Eg0 : get w0 i = Some (upd_status a 1)) by (unfold w0; rewrite get_upd_same, Eg; reflexivity).
    (* pre_start starts (or the pending signal wins) *)
    assert (Hstart : forall w1 a1, TInv links None w1 -> get w1 i = Some a1 ->
               a_pc a1 = NotStarted -> a_armed a1 = true -> a_notify a1 = false -> a_status a1 < 5 ->
               (c_local (a_cfg a1) = true -> forall s, c_link (a_cfg a1) = Some s -> a_sup a1 = Some s) ->
               TInv links None (start_cb w1 i PreStart)).
    { intros w1 a1 H1 Eg1 Epc1 Harm1 Hn1 Hst1 Hl1. unfold start_cb. rewrite Eg1.
      destruct (a_sig a1) eqn:Esig.
      - unfold consume_sig.
        apply (tinv_sig_exit links w1 i a1 (fun z => z) (Some PreStart) H1 Eg1 Harm1 (qf_refl a1) eq_refl).
        intros _. exact Hn1.
      - rewrite <- (upd_id w1 i).
        apply (tinv_enter links w1 i a1 (fun z => z) PreStart H1 Eg1 Esig Harm1); auto.
        + rewrite Epc1. exact I.
        + apply qf_refl.
        + intros L. lia. }
    destruct (if c_local (a_cfg a) then c_link (a_cfg a) else None) as [s|] eqn:El.
    + assert (Hloc : c_local (a_cfg a) = true /\ c_link (a_cfg a) = Some s)
        by (destruct (c_local (a_cfg a)); [auto|discriminate]).
      destruct Hloc as [Hloc El'].
      fold w0. destruct (try_link w0 i s) as [w1 ok] eqn:Etl. destruct ok; cbn [fst].
      * assert (H1 : TInv links None w1).
        { apply (tinv_try_link links false w0 i (upd_status a 1) s w1 H0 Eg0); auto. }
        assert (E1 : exists a1, get w1 i = Some a1 /\ core_eq a1 (upd_status a 1)
                                /\ a_sup a1 = Some s /\ a_notify a1 = false /\ a_cfg a1 = a_cfg a
                                /\ a_status a1 = 1).
        { unfold try_link in Etl. rewrite Eg0 in Etl.
          destruct (get w0 s) as [asup|] eqn:Egs; [|discriminate].
          destruct (_ || _); [discriminate|]. destruct (a_kids asup) as [ks|]; [|discriminate].
          injection Etl as <-. rewrite get_upd_same.
          destruct (Nat.eq_dec s i) as [->|Hne].
          - rewrite get_upd_same, Eg0. simpl. eexists; split; [reflexivity|].
            unfold core_eq; simpl. rewrite Est. repeat split; auto.
          - rewrite get_upd_other, Eg0 by assumption. simpl. eexists; split; [reflexivity|].
            unfold core_eq; simpl. rewrite Est. repeat split; auto. }
        destruct E1 as (a1 & Eg1 & (C1 & _ & _ & _ & _ & _ & C7 & _) & S1 & N1 & Cf1 & St1).
        simpl in C1, C7.
        apply (Hstart w1 a1 H1 Eg1); try congruence; try lia; try (intros _ s0 E0; congruence).
      * assert (E1 : w1 = w0) by (rewrite <- (try_link_false w0 i s); rewrite Etl; reflexivity).
        rewrite E1. apply (tinv_start_failed links w0 i (upd_status a 1)); auto.
        apply tinv_retag. exact H0.
    + cbn [fst]. apply (Hstart w0 (upd_status a 1) H0 Eg0); simpl; auto; try lia.
      intros Hloc s0 E0. rewrite Hloc in El. congruence.
  - (* Spawned *)
    assert (Harm : a_armed a = true).
    { destruct (a_armed a) eqn:E; auto. apply (U8 _ _ _ _ Ua) in E. congruence. }
    cbn [fst]. unfold start_cb. rewrite Eg. destruct (a_sig a) eqn:Esig.
    + unfold consume_sig.
      apply (tinv_sig_exit links w i a (fun z => z) (Some PostStart) H Eg Harm (qf_refl a) eq_refl).
      intros; discriminate.
    + rewrite <- (upd_id w i).
      apply (tinv_enter links w i a (fun z => z) PostStart H Eg Esig Harm); auto.
      * rewrite Epc. exact I.
      * apply qf_refl.
      * intros L. destruct (U1 _ _ _ _ Ua L) as [A|[(r & f0 & p0 & A)|A]]; congruence.
      * intros; discriminate.
  - (* inside a callback *)
    assert (Harm : a_armed a = true).
    { destruct (a_armed a) eqn:E; auto. apply (U8 _ _ _ _ Ua) in E. congruence. }
    assert (Hadv : forall x w0 r' p', TInv links x w0 -> get w0 i = Some a ->
                   TInv links x (upd w0 i (fun a0 => upd_pc a0 (InCb c r' f p')))).
    { intros x w0 r' p' H0 Eg0. eapply tinv_upd_plain with (a := a); eauto.
      - intros Ux. apply UInv_pc; auto; try discriminate; try (rewrite Epc; discriminate).
        + intros L. destruct (U1 _ _ _ _ Ux L) as [A|[(r & f0 & p0 & A)|A]]; [congruence| |auto].
          rewrite Epc in A. injection A as -> _ _ _. eauto 8.
        + intros P. apply (U5 _ _ _ _ Ux); rewrite Epc; [exact P|discriminate].
        + intros P. apply (U10 _ _ _ _ Ux). rewrite Epc. exact P.
      - unfold blocked. rewrite get_upd_same, Eg0. simpl. rewrite Epc.
        intros [A|[A|[(r & f0 & p0 & A)|A]]]; [auto|discriminate A| |auto]. injection A as -> _ _ _. eauto 8.
      - unfold linkedp. simpl. rewrite Epc. intros [N|[L (r & f0 & p0 & E)]]; [left; exact N|right].
        split; [exact L|]. injection E as -> _ _ _. eauto. }
    assert (Hadv_e : forall e r' p', is_sup_enter e = false ->
                     (forall j, p_sok j e = false /\ p_eps j e = false /\ p_over j e = false
                                /\ p_end j e = false /\ p_pso j e = false) ->
                     (forall s m, e <> TEnter s (Handle m)) ->
                     TInv links None (upd (emit w e) i (fun a0 => upd_pc a0 (InCb c r' f p')))).
    { intros e r' p' E1 E2 E3. apply Hadv; [|exact Eg]. apply tinv_emit_plain; auto. }
    destruct rest as [|e r]; cbn [fst].
    + eapply tinv_after_cb; eauto.
    + destruct e as [g| |b m|b r0|b|b]; cbn [do_eff].
      * destruct (is_open w g); cbn [fst].
        -- destruct parked; [apply Hadv_e; plain_ev|apply Hadv; auto].
        -- destruct parked; cbn [fst]; [exact H|apply Hadv_e; plain_ev].
      * apply Hadv_e; plain_ev.
      * apply tinv_req_send. apply Hadv; auto.
      * apply tinv_req_stop. apply Hadv; auto.
      * apply tinv_req_kill. apply Hadv; auto.
      * apply tinv_req_drain. apply Hadv; auto.
  - (* Idle: the biased pick *)
    assert (Harm : a_armed a = true).
    { destruct (a_armed a) eqn:E; auto. apply (U8 _ _ _ _ Ua) in E. congruence. }
    assert (Hst : a_status a < 5).
    { destruct (Nat.ltb_spec (a_status a) 5) as [L|L]; auto.
      destruct (U1 _ _ _ _ Ua L) as [A|[(r & f0 & p0 & A)|A]]; congruence. }
    destruct (a_sig a) eqn:Esig; cbn [fst].
    + unfold consume_sig.
      apply (tinv_sig_exit links w i a (fun z => z) None H Eg Harm (qf_refl a) eq_refl). intros; discriminate.
    + assert (Hgo : forall F c0, quiet_fields a (F a) -> start_from Idle c0 ->
                (5 <= a_status (F a) -> c0 = PostStop) ->
                (match c0 with
                 | Sup e => a_supq a = e :: a_supq (F a)
                 | Handle _ => a_supq a = [] /\ a_supq (F a) = []
                 | _ => a_supq (F a) = a_supq a end) -> c0 <> PreStart ->
                TInv links None (start_cb (upd w i F) i c0)).
      { intros F c0 Q Hf Hs5 Hq Hc. unfold start_cb. rewrite get_upd_same, Eg. cbn [option_map].
        destruct Q as (Q1 & Q2 & Q3 & Q4 & Q5 & Qr). rewrite Q5, Esig.
        apply (tinv_enter links w i a F c0 H Eg Esig Harm); auto.
        - rewrite Epc. exact Hf.
        - unfold quiet_fields. auto 10.
        - intros E. congruence. }
      destruct (a_stop a) as [r0|] eqn:Estop; cbn [fst].
      * unfold graceful_exit. rewrite upd_upd. apply Hgo; simpl; auto; try discriminate.
        unfold quiet_fields. simpl. auto 10.
      * destruct (a_supq a) as [|e t] eqn:Esup; cbn [fst].
        -- destruct (a_msgq a) as [|[m|] t] eqn:Emsg; cbn [fst].
           ++ exact H.
           ++ apply Hgo; simpl; auto; try discriminate; try lia.
              unfold quiet_fields. simpl. auto 10.
           ++ unfold graceful_exit. rewrite upd_upd. apply Hgo; simpl; auto; try discriminate.
              unfold quiet_fields. simpl. auto 10.
        -- apply Hgo; simpl; auto; try discriminate; try lia.
           unfold quiet_fields. simpl. auto 10.
Qed.

(* ------------------------------------------------------------------ *)
(* resuming a parked callback, aborting a task, a label, a schedule     *)

Lemma tinv_resume links w i : TInv links None w -> TInv links None (fst (resume w i)).
Proof.
  intros H. unfold resume. destruct (get w i) as [a|] eqn:Eg; [|exact H].
  pose proof (t_act _ _ _ H i a Eg) as Ua.
  destruct (a_pc a) as [| | |c rest f p| |] eqn:Epc; try exact H.
  destruct (a_sig a) eqn:Esig; [|exact H]. cbn [fst].
  assert (Harm : a_armed a = true).
  { destruct (a_armed a) eqn:E; auto. apply (U8 _ _ _ _ Ua) in E. congruence. }
  unfold consume_sig.
  set (w1 := upd w i (fun a0 => upd_sig a0 false true)).
  assert (H1 : TInv links (Some i) w1).
  { eapply tinv_upd with (x := None) (a := a); [exact H|exact Eg|reflexivity|reflexivity| |right; left; reflexivity| |].
    - intros [u1 u2 u3 u4 u5 u6 u7 u8 u9 u10 u11]. constructor; simpl; auto; try (intros; discriminate).
    - unfold blocked. rewrite get_upd_same, Eg. simpl. auto.
    - intros s El Ci.
      assert (EK : forall s0, K w1 s0 = K w s0).
      { intros s0. apply (K_pw_same _ w _ s0 (pw_upd w i _)). intros j b _. cbv beta.
        destruct (Nat.eqb i j); reflexivity. }
      eapply cinv_keep;
        [exact Ci|reflexivity|apply EK| |simpl; auto| |intros _ _; left; reflexivity
        |simpl; auto|simpl; intros D; left; exact D|try (intros; discriminate); auto].
      + apply blocked_upd with (a := a); [exact Eg|right; left; reflexivity|].
        unfold blocked. rewrite get_upd_same, Eg. simpl. auto.
      + unfold linkedp. simpl. auto. }
  eapply tinv_killed_exit with (a := upd_sig a false true).
  - apply tinv_emit with (x := Some i); auto; try (intros; discriminate).
    + intros j b [A|A]; discriminate.
    + intros j b [A|A] Eb; [|discriminate]. right.
      simpl in A. destruct c; try discriminate; apply Nat.eqb_eq in A; congruence.
  - rewrite get_emit. unfold w1. rewrite get_upd_same, Eg. reflexivity.
  - exact Harm.
  - intros E. injection E as ->. simpl. apply (U10 _ _ _ _ Ua). rewrite Epc. reflexivity.
Qed.

Lemma tinv_abort links w i :
  Inv None w -> TInv links None w -> TInv links None (abort w i).
Proof.
  intros HI H. unfold abort. destruct (get w i) as [a|] eqn:Eg; [|exact H].
  pose proof (t_act _ _ _ H i a Eg) as Ua.
  set (ev := if a_notify a then Some (STerminated i false (Some R_CANCELLED)) else None).
  assert (Hev : a_notify a = true -> exists e, ev = Some e /\ is_terminal e = true /\ about e = i).
  { intros N. unfold ev. rewrite N. eauto. }
  assert (Habt : forall e, ev = Some e -> about e = i).
  { intros e0. unfold ev. destruct (a_notify a); intros E0; [injection E0 as <-; reflexivity|discriminate]. }
  assert (HA : TInv links (Some i) (emit w (TAborted i))).
  { apply tinv_emit with (x := None); auto; try (intros; discriminate).
    - intros j b [A|A]; discriminate.
    - intros j b [A|A] Eb; [discriminate|]. right. simpl in A. apply Nat.eqb_eq in A. congruence. }
  assert (Harm : a_pc a <> Done -> a_armed a = true).
  { intros Hnd. destruct (a_armed a) eqn:E; auto. apply (U8 _ _ _ _ Ua) in E. congruence. }
  (* the recogniser state of i, from the lifecycle invariant *)
  pose proof (HI i) as Hi. unfold InvA in Hi. rewrite Eg in Hi. simpl in Hi.
  destruct Hi as (s0 & Hs0 & (_ & Hpc & _)). unfold tr in Hs0. fold (trace_of w) in Hs0.
  assert (Hquiet : a_pc a = NotStarted \/ a_pc a = Spawned \/ a_pc a = Idle ->
                   TInv links None (cleanup (emit w (TAborted i)) i ev)).
  { intros Hq. assert (Hnd : a_pc a <> Done) by (destruct Hq as [E|[E|E]]; rewrite E; discriminate).
    destruct (cleanup_done (emit w (TAborted i)) i a ev Eg (Harm Hnd)) as (a' & Eg' & Epc' & Ha').
    apply (tinv_untag links _ i a'); auto.
    - eapply tinv_cleanup with (a := a); eauto.
    - unfold trace_of. rewrite trace_cleanup. apply pend_aborted_quiet.
      intros st Est. change (arun i ast0 (trace_of w) = Go st) in Est. rewrite Hs0 in Est. injection Est as <-.
      unfold pc_rel in Hpc. unfold exit_ready.
      destruct Hq as [E|[E|E]]; rewrite E in Hpc; [destruct Hpc|..]; tauto. }
  destruct (a_pc a) as [| | |c rest f p| |] eqn:Epc; try exact H; try (apply Hquiet; tauto).
  destruct p; [|exact H].
  assert (Hnd : InCb c rest f true <> Done) by discriminate.
  destruct (cleanup_done (emit (emit w (TAborted i)) (TCancel i c)) i a ev Eg (Harm Hnd)) as (a' & Eg' & Epc' & Ha').
  apply (tinv_untag links _ i a'); auto.
  - eapply tinv_cleanup with (a := a); eauto.
    apply tinv_emit with (x := Some i); auto; try (intros; discriminate).
    + intros j b [A|A]; discriminate.
    + intros j b [A|A] Eb; [|discriminate]. right.
      simpl in A. destruct c; try discriminate; apply Nat.eqb_eq in A; congruence.
  - unfold trace_of. rewrite trace_cleanup. apply pend_final. right; right. eauto.
Qed.

Lemma tinv_segs links fuel w i : TInv links None w -> TInv links None (segs fuel w i).
Proof.
  revert w. induction fuel as [|k IH]; intros w H; simpl; [exact H|].
  pose proof (tinv_seg links w i H) as H'. destruct (seg w i) as [w' go]. simpl in H'.
  destruct go; [apply IH|]; exact H'.
Qed.

Lemma tinv_poll links fuel w i : TInv links None w -> TInv links None (poll fuel w i).
Proof.
  intros H. unfold poll. pose proof (tinv_resume links w i H) as H'.
  destruct (resume w i) as [w' go]. simpl in H'. destruct go; [apply tinv_segs|]; exact H'.
Qed.

Lemma tinv_step links w l : Inv None w -> TInv links None w -> TInv links None (step w l).
Proof.
  intros HI H. destruct l as [i|i m|i r|i|i|g|i|i fuel]; simpl.
  - destruct (get w i) as [a|] eqn:Eg; [|exact H].
    destruct (a_pc a) eqn:Epc; try exact H.
    pose proof (t_act _ _ _ H i a Eg) as Ua.
    apply (tinv_upd_plain links None w i (fun a0 => upd_pc a0 NotStarted) a H Eg eq_refl eq_refl);
      [| |reflexivity| |reflexivity|reflexivity].
    + intros Ux. apply UInv_pc; auto; try discriminate; try (rewrite Epc; discriminate).
      * intros L. destruct (U1 _ _ _ _ Ux L) as [A|[(r & f0 & p0 & A)|A]]; [congruence|congruence|auto].
      * intros _. apply (U10 _ _ _ _ Ux). rewrite Epc. reflexivity.
    + unfold blocked. rewrite get_upd_same, Eg. simpl. rewrite Epc.
      intros [A|[A|[(r & f0 & p0 & A)|A]]]; auto; discriminate.
    + unfold linkedp. simpl. intros [N|[_ (r & f0 & p0 & E)]]; [left; exact N|discriminate].
  - apply tinv_req_send. exact H.
  - apply tinv_req_stop. exact H.
  - apply tinv_req_kill. exact H.
  - apply tinv_req_drain. exact H.
  - destruct H as [h1 h2 h3 h3' h4 h5]. constructor; [exact h1|exact h2|exact h3|exact h3'|exact h4|].
    intros c a s Eg El. destruct (h5 c a s Eg El) as [r p1 p2 p4]. constructor; [exact r|exact p1|exact p2|exact p4].
  - apply tinv_abort; assumption.
  - apply tinv_poll. exact H.
Qed.

Lemma tinv_run links ls w : Inv None w -> TInv links None w -> TInv links None (run w ls).
Proof.
  unfold run. revert w. induction ls as [|l t IH]; simpl; intros w HI H; [exact H|].
  apply IH; [apply inv_step; exact HI|apply tinv_step; assumption].
Qed.

Lemma tinv_init cfgs msgs : TInv (map c_link cfgs) None (init cfgs msgs).
Proof.
  assert (Hget : forall j a, get (init cfgs msgs) j = Some a -> exists c, a = new_actor c).
  { intros j a. unfold get, init. simpl. rewrite nth_error_map.
    destruct (nth_error cfgs j) as [c|]; simpl; [|discriminate]. intros E. injection E as <-. eauto. }
  constructor.
  - intros c. unfold link_of, get, init. simpl. apply nth_map_link.
  - reflexivity.
  - reflexivity.
  - reflexivity.
  - intros i a Eg. destruct (Hget i a Eg) as (c & ->).
    constructor; simpl; auto; try (intros; discriminate); try lia;
      try (intros [A|A]; discriminate); try (intros _ ks E; injection E as <-; reflexivity).
  - intros c a s Eg El. destruct (Hget c a Eg) as (c0 & ->).
    assert (HK0 : K (init cfgs msgs) s = []).
    { unfold K, supq_of. simpl. destruct (get (init cfgs msgs) s) as [b|] eqn:E; auto.
      destruct (Hget s b E) as (c1 & ->). reflexivity. }
    constructor; simpl; try (intros; discriminate).
    + intros _ [N|[_ (r & f & p & E)]]; discriminate.
    + intros (y & Hy & _). rewrite HK0 in Hy. destruct Hy.
Qed.

(* ------------------------------------------------------------------ *)
(* the two trace oracles accept every trace of the model                *)

Theorem terminal_first_sound cfgs msgs ls :
  check_C04_terminal_first (map c_link cfgs) (trace_of (run (init cfgs msgs) ls)) = true.
Proof. exact (t_chk1 _ _ _ (tinv_run _ ls _ (inv_init cfgs msgs) (tinv_init cfgs msgs))). Qed.

Theorem sup_first_sound cfgs msgs ls :
  check_C03_sup_first (map c_link cfgs) (trace_of (run (init cfgs msgs) ls)) = true.
Proof. exact (t_chk2 _ _ _ (tinv_run _ ls _ (inv_init cfgs msgs) (tinv_init cfgs msgs))). Qed.

Theorem started_first_sound cfgs msgs ls :
  check_C04_started_first (map c_link cfgs) (trace_of (run (init cfgs msgs) ls)) = true.
Proof. apply (t_chk3 _ _ _ (tinv_run _ ls _ (inv_init cfgs msgs) (tinv_init cfgs msgs))). Qed.

Theorem started_first_sound_dops cfgs msgs rounds fuel order ops :
  check_C04_started_first (map c_link cfgs) (trace_of (run_dops rounds fuel order (init cfgs msgs) ops)) = true.
Proof. rewrite run_dops_labels. apply started_first_sound. Qed.

Theorem terminal_first_sound_dops cfgs msgs rounds fuel order ops :
  check_C04_terminal_first (map c_link cfgs)
    (trace_of (run_dops rounds fuel order (init cfgs msgs) ops)) = true.
Proof. rewrite run_dops_labels. apply terminal_first_sound. Qed.

Theorem sup_first_sound_dops cfgs msgs rounds fuel order ops :
  check_C03_sup_first (map c_link cfgs)
    (trace_of (run_dops rounds fuel order (init cfgs msgs) ops)) = true.
Proof. rewrite run_dops_labels. apply sup_first_sound. Qed.

(* ------------------------------------------------------------------ *)
(* check_C04_join: a failed callback is followed, in the same step, by the normal completion of
   the task (TJoin).  A pure trace argument: every helper extends the trace by a segment in
   which each failing callback exit of an actor comes with that actor's TJoin. *)

Definition p_fail (c : nat) (e : tev) : bool :=
  match e with
  | TExit j PreStart _ => false
  | TExit j _ (RErr _) | TExit j _ (RPanic _) => Nat.eqb j c
  | TCancel j PreStart => false
  | TCancel j _ => Nat.eqb j c
  | _ => false end.

Lemma has_ev_imp (p q : tev -> bool) t :
  (forall e, p e = true -> q e = true) -> has_ev p t = true -> has_ev q t = true.
Proof.
  intros H. unfold has_ev. rewrite !existsb_exists. intros (e & He & Pe). exists e. auto.
Qed.
Lemma failed_pf c t : failed_cb c t = true -> has_ev (p_fail c) t = true.
Proof.
  unfold failed_cb. apply has_ev_imp. intros e0. destruct e0; simpl; auto; intros; discriminate.
Qed.
Lemma cancelled_pf c t : cancelled_cb c t = true -> has_ev (p_fail c) t = true.
Proof.
  unfold cancelled_cb. apply has_ev_imp. intros e0. destruct e0; simpl; auto; intros; discriminate.
Qed.
Lemma pf_app c t1 t2 : has_ev (p_fail c) (t1 ++ t2) = has_ev (p_fail c) t1 || has_ev (p_fail c) t2.
Proof. unfold has_ev. apply existsb_app. Qed.
Lemma ended_app2 c t1 t2 : ended c (t1 ++ t2) = ended c t1 || ended c t2.
Proof. unfold ended, has_ev. apply existsb_app. Qed.

(* in the segment, every failed or cancelled callback (after pre_start) of an actor comes with
   the end of that actor's task *)
Definition jgood (d : list tev) : Prop := forall c, has_ev (p_fail c) d = true -> ended c d = true.
Definition ext (w w' : world) : Prop := exists d, trace_of w' = trace_of w ++ d /\ jgood d.

Lemma ext_refl w : ext w w.
Proof. exists []. split; [symmetry; apply app_nil_r|intros c; discriminate]. Qed.
Lemma ext_trans w1 w2 w3 : ext w1 w2 -> ext w2 w3 -> ext w1 w3.
Proof.
  intros (d1 & E1 & G1) (d2 & E2 & G2). exists (d1 ++ d2). split; [rewrite E2, E1, app_assoc; reflexivity|].
  intros c. rewrite pf_app, ended_app2. intros A. apply orb_true_iff in A as [A|A];
    [rewrite (G1 c A)|rewrite (G2 c A), orb_true_r]; reflexivity.
Qed.
Lemma ext_same w w' : w_trace w' = w_trace w -> ext w w'.
Proof. intros E. exists []. unfold trace_of. rewrite E, app_nil_r. split; [reflexivity|intros c; discriminate]. Qed.
Lemma ext_emit w e : (forall c, p_fail c e = false) -> ext w (emit w e).
Proof.
  intros H. exists [e]. split; [reflexivity|]. intros c A. unfold has_ev in A. simpl in A.
  rewrite orb_false_r, H in A. discriminate.
Qed.
Lemma ext_upd w i f : ext w (upd w i f).
Proof. apply ext_same. reflexivity. Qed.

Ltac ext_ev := apply ext_emit; intros; reflexivity.

Lemma ext_cleanup w i ev : ext w (cleanup w i ev).
Proof. apply ext_same, trace_cleanup. Qed.
Lemma ext_finish w i e : ext w (finish w i e).
Proof. unfold finish. eapply ext_trans; [apply ext_cleanup|ext_ev]. Qed.
Lemma ext_start_failed w i : ext w (start_failed w i).
Proof. unfold start_failed. eapply ext_trans; [apply ext_cleanup|ext_ev]. Qed.
Lemma ext_terminate w i : ext w (terminate w i).
Proof. apply ext_same. unfold terminate. apply trace_terminate_fuel. Qed.
Lemma ext_killed_exit w i c : ext w (killed_exit w i c).
Proof.
  unfold killed_exit. eapply ext_trans; [apply ext_terminate|].
  destruct c as [[| | | |]|]; auto using ext_start_failed, ext_finish;
    (eapply ext_trans; [apply ext_upd|apply ext_finish]).
Qed.
Lemma ext_enter w i c : ext w (enter w i c).
Proof.
  unfold enter. destruct (get w i) as [a|]; [|apply ext_refl]. destruct (script_of w a c) as [es f].
  eapply ext_trans; [|apply ext_upd]. ext_ev.
Qed.
Lemma ext_start_cb w i c : ext w (start_cb w i c).
Proof.
  unfold start_cb. destruct (get w i) as [a|]; [|apply ext_refl]. destruct (a_sig a).
  - eapply ext_trans; [apply ext_upd|apply ext_killed_exit].
  - apply ext_enter.
Qed.
Lemma ext_graceful_exit w i r : ext w (graceful_exit w i r).
Proof. unfold graceful_exit. eapply ext_trans; [apply ext_upd|apply ext_start_cb]. Qed.
Lemma ext_do_eff w e : ext w (do_eff w e).
Proof.
  destruct e; simpl; try apply ext_refl.
  - unfold req_send. destruct (is_created w a); [|apply ext_refl]. unfold do_send.
    destruct (get w a); [|apply ext_refl]. destruct (can_send _); [eapply ext_trans; [apply ext_upd|]|]; ext_ev.
  - unfold req_stop. destruct (is_created w a); [|apply ext_refl].
    apply ext_trans with (emit w (TStopReq a r)); [ext_ev|]. apply ext_same. unfold do_stop.
    destruct (get _ a); auto. destruct (_ || _); auto.
  - unfold req_kill. destruct (is_created w a); [|apply ext_refl].
    apply ext_trans with (emit w (TKillReq a)); [ext_ev|]. apply ext_same, trace_do_kill.
  - unfold req_drain. destruct (is_created w a); [|apply ext_refl].
    apply ext_trans with (emit w (TDrainReq a)); [ext_ev|]. apply ext_same. unfold do_drain.
    destruct (get _ a); auto. destruct (negb _); auto.
Qed.

(* the unit: the callback's exit is logged, then what follows it *)
Lemma ext_after_cb w i c f : get w i <> None -> ext w (after_cb (emit w (TExit i c f)) i c f).
Proof.
  intros Hsome. set (wx := emit w (TExit i c f)).
  assert (Hok : (forall c0, p_fail c0 (TExit i c f) = false) -> forall w', ext wx w' -> ext w w').
  { intros Hn w' E. eapply ext_trans; [apply ext_emit; exact Hn|exact E]. }
  (* a failing exit: the trace grows by [TExit; TJoin] *)
  assert (Hfail : forall w' e, w_trace w' = w_trace wx -> ext w (finish w' i e)).
  { intros w' e Et. exists [TExit i c f; TJoin i]. split.
    - unfold finish, trace_of. simpl. rewrite trace_cleanup, Et. simpl. rewrite <- app_assoc. reflexivity.
    - intros c0 A. unfold ended, has_ev. simpl. unfold has_ev in A. simpl in A.
      rewrite orb_false_r in A. assert (Nat.eqb i c0 = true).
      { destruct c; try discriminate; destruct f; try discriminate; exact A. }
      rewrite H. reflexivity. }
  unfold after_cb. fold wx. change (get wx i) with (get w i). destruct (get w i) as [a|]; [|congruence].
  destruct c as [| |m|ev|]; destruct f as [|t|t];
    try (apply Hfail; reflexivity);
    try (apply Hok; [intros; reflexivity|]).
  - destruct (if c_local (a_cfg a) then None else c_link (a_cfg a)) as [s|].
    + pose proof (trace_try_link wx i s) as Et. destruct (try_link wx i s) as [w1 ok]. simpl in Et.
      eapply ext_trans; [apply ext_same; exact Et|]. destruct ok; [|apply ext_start_failed].
      eapply ext_trans; [apply ext_upd|ext_ev].
    + eapply ext_trans; [apply ext_upd|ext_ev].
  - apply ext_start_failed.
  - apply ext_start_failed.
  - eapply ext_trans; [apply ext_upd|]. apply ext_same, trace_notify.
  - apply ext_upd.
  - apply ext_upd.
Qed.

Lemma killed_exit_trace w i c :
  w_trace (killed_exit w i c) =
  (match c with Some PreStart => TSpawnRet i false | _ => TJoin i end) :: w_trace w.
Proof.
  unfold killed_exit, finish, start_failed.
  destruct c as [[| | | |]|]; simpl; rewrite trace_cleanup, ?trace_upd; unfold terminate;
    rewrite trace_terminate_fuel; reflexivity.
Qed.

Lemma ext_seg w i : ext w (fst (seg w i)).
Proof.
  unfold seg. destruct (get w i) as [a|] eqn:Eg; [|apply ext_refl].
  destruct (a_pc a) as [| | |c rest f parked| |]; cbn [fst]; try apply ext_refl.
  - destruct (negb _); cbn [fst]; [apply ext_start_failed|].
    set (w0 := upd w i (fun a0 => upd_status a0 1)).
    assert (E0 : ext w w0) by apply ext_upd.
    destruct (if c_local (a_cfg a) then c_link (a_cfg a) else None) as [s|].
    + pose proof (trace_try_link w0 i s) as Et. destruct (try_link w0 i s) as [w1 ok]. simpl in Et.
      assert (E1 : ext w w1) by (eapply ext_trans; [exact E0|apply ext_same; exact Et]).
      destruct ok; cbn [fst]; (eapply ext_trans; [exact E1|]); [apply ext_start_cb|apply ext_start_failed].
    + cbn [fst]. eapply ext_trans; [exact E0|apply ext_start_cb].
  - apply ext_start_cb.
  - destruct rest as [|e r]; cbn [fst].
    + apply ext_after_cb. congruence.
    + destruct e; cbn [fst];
        try (eapply ext_trans; [apply ext_upd|apply (ext_do_eff _ (ESend _ _))
                                                || apply (ext_do_eff _ (EStop _ _))
                                                || apply (ext_do_eff _ (EKill _))
                                                || apply (ext_do_eff _ (EDrain _))]).
      * destruct (is_open w g); cbn [fst].
        -- destruct parked; [eapply ext_trans; [|apply ext_upd]; ext_ev|apply ext_upd].
        -- destruct parked; cbn [fst]; [apply ext_refl|eapply ext_trans; [|apply ext_upd]; ext_ev].
      * eapply ext_trans; [|apply ext_upd]. ext_ev.
  - destruct (a_sig a); cbn [fst].
    + eapply ext_trans; [apply ext_upd|apply ext_killed_exit].
    + destruct (a_stop a); cbn [fst].
      * eapply ext_trans; [apply ext_upd|apply ext_graceful_exit].
      * destruct (a_supq a); cbn [fst].
        -- destruct (a_msgq a) as [|[m|] t]; cbn [fst]; [apply ext_refl| |].
           ++ eapply ext_trans; [apply ext_upd|apply ext_start_cb].
           ++ eapply ext_trans; [apply ext_upd|apply ext_graceful_exit].
        -- eapply ext_trans; [apply ext_upd|apply ext_start_cb].
Qed.

Lemma ext_segs fuel w i : ext w (segs fuel w i).
Proof.
  revert w. induction fuel as [|n IH]; intros w; cbn [segs]; [apply ext_refl|].
  pose proof (ext_seg w i) as E. destruct (seg w i) as [w' go]. cbn [fst] in E.
  destruct go; [eapply ext_trans; [exact E|apply IH]|exact E].
Qed.

Lemma ext_poll fuel w i : ext w (poll fuel w i).
Proof.
  unfold poll. assert (E : ext w (fst (resume w i))).
  { unfold resume. destruct (get w i) as [a|]; [|apply ext_refl].
    destruct (a_pc a); cbn [fst]; try apply ext_refl. destruct (a_sig a); cbn [fst]; [|apply ext_refl].
    set (fe := match c with PreStart => TSpawnRet i false | _ => TJoin i end).
    exists [TCancel i c; fe]. split.
    - unfold trace_of. rewrite (killed_exit_trace _ i (Some c)). simpl. rewrite <- app_assoc. reflexivity.
    - intros c0 A. unfold has_ev in A. simpl in A. unfold ended, has_ev. simpl.
      assert (E : c <> PreStart /\ Nat.eqb i c0 = true).
      { unfold fe in A. destruct c; simpl in A; rewrite ?orb_false_r in A; try discriminate; split; auto; discriminate. }
      destruct E as [Hc E]. unfold fe. destruct c; try congruence; simpl; rewrite E; reflexivity. }
  destruct (resume w i) as [w' go]. cbn [fst] in E.
  destruct go; [eapply ext_trans; [exact E|apply ext_segs]|exact E].
Qed.

Lemma ext_abort w i : ext w (abort w i).
Proof.
  unfold abort. destruct (get w i) as [a|]; [|apply ext_refl].
  destruct (a_pc a) as [| | |c r f [|]| |]; try apply ext_refl;
    try (eapply ext_trans; [|apply ext_cleanup]; ext_ev).
  exists [TAborted i; TCancel i c]. split.
  - unfold trace_of. rewrite trace_cleanup. simpl. rewrite <- app_assoc. reflexivity.
  - intros c0 A. unfold has_ev in A. simpl in A. unfold ended, has_ev. simpl.
    assert (E : Nat.eqb i c0 = true) by (destruct c; simpl in A; rewrite ?orb_false_r in A; try discriminate; auto).
    rewrite E. reflexivity.
Qed.

Lemma ext_step w l : ext w (step w l).
Proof.
  destruct l as [i|i m|i r|i|i|g|i|i fuel]; simpl.
  - destruct (get w i) as [a|]; [|apply ext_refl]. destruct (a_pc a); try apply ext_refl. apply ext_upd.
  - apply (ext_do_eff w (ESend i m)).
  - apply (ext_do_eff w (EStop i r)).
  - apply (ext_do_eff w (EKill i)).
  - apply (ext_do_eff w (EDrain i)).
  - apply ext_same. reflexivity.
  - apply ext_abort.
  - apply ext_poll.
Qed.

Lemma ext_run ls w : ext w (run w ls).
Proof.
  unfold run. revert w. induction ls as [|l t IH]; simpl; intros w; [apply ext_refl|].
  eapply ext_trans; [apply ext_step|apply IH].
Qed.

(* in every reachable world (no settling needed): an actor one of whose callbacks after pre_start
   failed has a join handle that completed normally *)
Theorem failed_then_joined cfgs msgs ls c :
  failed_cb c (trace_of (run (init cfgs msgs) ls)) = true ->
  ended c (trace_of (run (init cfgs msgs) ls)) = true.
Proof.
  destruct (ext_run ls (init cfgs msgs)) as (d & E & G). rewrite E. simpl. intros F. apply G, failed_pf, F.
Qed.

(* the same for a callback (after pre_start) cancelled by a kill or an abort *)
Theorem cancelled_then_ended cfgs msgs ls c :
  cancelled_cb c (trace_of (run (init cfgs msgs) ls)) = true ->
  ended c (trace_of (run (init cfgs msgs) ls)) = true.
Proof.
  destruct (ext_run ls (init cfgs msgs)) as (d & E & G). rewrite E. simpl. intros F. apply G, cancelled_pf, F.
Qed.

Theorem join_sound cfgs msgs ls n :
  check_C04_join n (trace_of (run (init cfgs msgs) ls)) = true.
Proof.
  unfold check_C04_join. apply forallb_forall. intros c _.
  destruct (failed_cb c _) eqn:F.
  - rewrite (failed_then_joined cfgs msgs ls c F). apply orb_true_r.
  - rewrite andb_false_r. reflexivity.
Qed.

Theorem join_cancel_sound cfgs msgs ls n :
  check_C04_join_cancel n (trace_of (run (init cfgs msgs) ls)) = true.
Proof.
  unfold check_C04_join_cancel. apply forallb_forall. intros c _.
  destruct (cancelled_cb c _) eqn:F.
  - rewrite (cancelled_then_ended cfgs msgs ls c F). apply orb_true_r.
  - rewrite andb_false_r. reflexivity.
Qed.

Theorem join_cancel_sound_dops cfgs msgs rounds fuel order ops n :
  check_C04_join_cancel n (trace_of (run_dops rounds fuel order (init cfgs msgs) ops)) = true.
Proof. rewrite run_dops_labels. apply join_cancel_sound. Qed.

Theorem join_sound_dops cfgs msgs rounds fuel order ops n :
  check_C04_join n (trace_of (run_dops rounds fuel order (init cfgs msgs) ops)) = true.
Proof. rewrite run_dops_labels. apply join_sound. Qed.

(* ------------------------------------------------------------------ *)
(* check_C04_complete: the "at least once" half, for settled worlds     *)

(* nothing is pending for an actor that waits between handlers *)
Definition settled (w : world) : Prop :=
  forall i a, get w i = Some a -> a_pc a = Idle -> a_sig a = false /\ a_supq a = [].

Theorem complete_sound cfgs msgs ls :
  settled (run (init cfgs msgs) ls) ->
  check_C04_complete (map c_link cfgs) (trace_of (run (init cfgs msgs) ls)) = true.
Proof.
  intros Hset. set (w := run (init cfgs msgs) ls) in *.
  pose proof (tinv_run (map c_link cfgs) ls _ (inv_init cfgs msgs) (tinv_init cfgs msgs)) as H. fold w in H.
  pose proof (inv_run ls _ (inv_init cfgs msgs)) as HI. fold w in HI.
  unfold check_C04_complete. apply forallb_forall. intros c _.
  rewrite (t_links _ _ _ H c). unfold link_of.
  destruct (get w c) as [a|] eqn:Egc; auto. destruct (c_link (a_cfg a)) as [s|] eqn:El; auto.
  destruct (started_ok c (trace_of w)) eqn:E1; simpl; auto.
  destruct (ended c (trace_of w)) eqn:E2; simpl; auto.
  destruct (idle_alive_at_end s (trace_of w)) eqn:E3; auto.
  pose proof (t_act _ _ _ H c a Egc) as Uc.
  assert (N : a_notify a = true) by (apply (U3 _ _ _ _ Uc); auto).
  assert (D : a_armed a = false) by (destruct (U4 _ _ _ _ Uc) as [A|A]; [auto|exact A|discriminate]).
  (* the supervisor is really waiting between handlers *)
  unfold idle_alive_at_end in E3.
  destruct (arun s ast0 (trace_of w)) as [st|] eqn:Ear; [|discriminate].
  destruct (s_phase st) eqn:Eph; try discriminate.
  pose proof (HI s) as Hs. unfold InvA in Hs. change (tr w s) with (arun s ast0 (trace_of w)) in Hs.
  destruct (get w s) as [b|] eqn:Egs.
  2: { rewrite Ear in Hs. injection Hs as ->. discriminate. }
  destruct Hs as (s0 & Hs0 & (_ & Hpc & _)). simpl in Hs0. rewrite Ear in Hs0. injection Hs0 as <-.
  pose proof (t_act _ _ _ H s b Egs) as Us.
  assert (Eidle : a_pc b = Idle).
  { unfold pc_rel in Hpc. destruct (a_pc b) as [| | |cb rest f p| |] eqn:Epc; auto.
    - destruct Hpc as (-> & _). discriminate.
    - destruct Hpc as (A & _). congruence.
    - congruence.
    - destruct Hpc as (A & _). rewrite Eph in A. destruct cb; discriminate.
    - destruct (U11 _ _ _ _ Us Epc) as [P|P]; [|discriminate]. rewrite (P st Ear) in Eph. discriminate. }
  destruct (Hset s b Egs Eidle) as [Hsig Hq].
  destruct (CP2 _ _ _ _ _ (t_cs _ _ _ H c a s Egc El) N D) as [(y & Hy & Ht & Hab)|B].
  - apply Nat.ltb_lt. rewrite count_sup_hl.
    assert (HK : K w s = hl s (trace_of w)) by (unfold K, supq_of; rewrite Egs, Hq; apply app_nil_r).
    rewrite HK in Hy. apply (filter_len_pos _ _ y Hy). rewrite Ht, Hab, Nat.eqb_refl. reflexivity.
  - exfalso. unfold blocked in B. rewrite Egs in B.
    destruct B as [A|[A|[(r & f0 & p & A)|A]]]; congruence.
Qed.

(* the driver programs of the E1 engine *)
Theorem complete_sound_dops cfgs msgs rounds fuel order ops :
  settled (run_dops rounds fuel order (init cfgs msgs) ops) ->
  check_C04_complete (map c_link cfgs)
    (trace_of (run_dops rounds fuel order (init cfgs msgs) ops)) = true.
Proof. rewrite run_dops_labels. apply complete_sound. Qed.

(* "no enabled label other than external operations": polling changes nothing *)
Definition quiescent (w : world) : Prop := forall i fuel, poll fuel w i = w.

Lemma enter_trace w i a c : get w i = Some a -> w_trace (enter w i c) = TEnter i c :: w_trace w.
Proof. intros Eg. unfold enter. rewrite Eg. destruct (script_of w a c). reflexivity. Qed.

Lemma quiescent_settled w : quiescent w -> settled w.
Proof.
  intros Q i a Eg Epc. specialize (Q i 1). unfold poll, resume in Q. rewrite Eg, Epc in Q.
  cbn [segs] in Q. assert (Q' : w_trace (fst (seg w i)) = w_trace w).
  { destruct (seg w i) as [w' go]. destruct go; simpl in *; rewrite Q; reflexivity. }
  clear Q. unfold seg in Q'. rewrite Eg, Epc in Q'.
  assert (Hgrow : forall e, w_trace w <> e :: w_trace w).
  { intros e E. apply (f_equal (@length tev)) in E. simpl in E. lia. }
  destruct (a_sig a) eqn:Esig.
  - exfalso. cbn [fst] in Q'. unfold killed_exit, finish in Q'. simpl in Q'.
    rewrite trace_cleanup, trace_upd in Q'. unfold terminate in Q'. rewrite trace_terminate_fuel in Q'.
    unfold consume_sig in Q'. rewrite trace_upd in Q'. symmetry in Q'. apply (Hgrow _ Q').
  - split; [reflexivity|].
    assert (Hstart : forall F c, a_sig (F a) = false ->
              w_trace (start_cb (upd w i F) i c) = TEnter i c :: w_trace w).
    { intros F c Hs. unfold start_cb. rewrite get_upd_same, Eg. cbn [option_map]. rewrite Hs.
      rewrite (enter_trace _ i (F a)); [reflexivity|]. rewrite get_upd_same, Eg. reflexivity. }
    destruct (a_stop a) as [r|] eqn:Est.
    + exfalso. cbn [fst] in Q'. unfold graceful_exit in Q'. rewrite upd_upd in Q'.
      rewrite Hstart in Q' by (simpl; exact Esig). symmetry in Q'. apply (Hgrow _ Q').
    + destruct (a_supq a) as [|e t] eqn:Eq; [reflexivity|].
      exfalso. cbn [fst] in Q'. rewrite Hstart in Q' by (simpl; exact Esig).
      symmetry in Q'. apply (Hgrow _ Q').
Qed.

Theorem complete_sound_quiescent cfgs msgs ls :
  quiescent (run (init cfgs msgs) ls) ->
  check_C04_complete (map c_link cfgs) (trace_of (run (init cfgs msgs) ls)) = true.
Proof. intros Q. apply complete_sound. apply quiescent_settled. exact Q. Qed.
