(* Proofs about the actor-runtime model: the lifecycle recogniser accepts the trace of
   every actor under every schedule (C01 grammar + C03 kill/stop clauses). *)
From Coq Require Import List Arith Bool Lia Setoid.
From RV Require Import Loop.World Loop.Checks.
Import ListNotations.

(* ------------------------------------------------------------------ *)
(* lists / worlds                                                       *)

Lemma nth_upd_same {A} (l : list A) i f :
  nth_error (upd_nth l i f) i = option_map f (nth_error l i).
Proof.
  revert i; induction l as [|x t IH]; intros [|i]; simpl; auto.
Qed.

Lemma nth_upd_other {A} (l : list A) i j f :
  i <> j -> nth_error (upd_nth l i f) j = nth_error l j.
Proof.
  revert i j; induction l as [|x t IH]; intros [|i] [|j] H; simpl; auto; try congruence.
Qed.

Lemma get_upd_same w i f : get (upd w i f) i = option_map f (get w i).
Proof. unfold get, upd; simpl. apply nth_upd_same. Qed.

Lemma get_upd_other w i j f : i <> j -> get (upd w i f) j = get w j.
Proof. unfold get, upd; simpl. apply nth_upd_other. Qed.

Lemma get_emit w e j : get (emit w e) j = get w j.
Proof. reflexivity. Qed.

Lemma trace_upd w i f : w_trace (upd w i f) = w_trace w.
Proof. reflexivity. Qed.

Lemma trace_emit w e : w_trace (emit w e) = e :: w_trace w.
Proof. reflexivity. Qed.

(* ------------------------------------------------------------------ *)
(* the recogniser on an extended trace                                  *)

Lemma arun_app i s es e :
  arun i s (es ++ [e]) =
  match arun i s es with Go s1 => astep i s1 e | Bad c => Bad c end.
Proof.
  revert s; induction es as [|x t IH]; intros s; simpl.
  - destruct (astep i s e); reflexivity.
  - destruct (astep i s x); auto.
Qed.

Definition tr (w : world) (i : nat) : verdict := arun i ast0 (rev (w_trace w)).

Lemma tr_emit w e i :
  tr (emit w e) i = match tr w i with Go s => astep i s e | Bad c => Bad c end.
Proof. unfold tr. simpl. apply arun_app. Qed.

Lemma tr_upd w k f i : tr (upd w k f) i = tr w i.
Proof. reflexivity. Qed.

(* ------------------------------------------------------------------ *)
(* the relation between an actor and its recogniser state               *)

Definition exit_ready (p : phase) : Prop := p = P0 \/ p = PPreOk \/ p = PRun \/ p = PEnd.

Definition ph_of (c : cb) : phase :=
  match c with
  | PreStart => PPre | PostStart => PPs | PostStop => PPost
  | Handle m => PH (Handle m) | Sup e => PH (Sup e)
  end.

Definition has_marker (q : list mux) : Prop := In Marker q.

(* flags part: independent of the program counter *)
Definition RelF (a : actor) (s : ast) : Prop :=
  ((a_stop a <> None \/ has_marker (a_msgq a)) -> s_grace s = true)
  /\ (s_stopreq s = true -> a_stop_taken a = true)
  /\ (s_killed s = true -> a_sig_taken a = true)
  /\ (a_stop a <> None -> a_stop_taken a = true).

Definition pc_rel (a : actor) (s : ast) : Prop :=
  match a_pc a with
  | NotCreated => s = ast0 /\ a_sig_taken a = false /\ a_stop_taken a = false
                  /\ a_stop a = None /\ ~ has_marker (a_msgq a) /\ a_sig a = false
  | NotStarted => s_phase s = P0 /\ s_parked s = false
  | Spawned => s_phase s = PPreOk
  | InCb c rest f p =>
      s_phase s = ph_of c /\ s_parked s = p
      /\ (p = true -> exists g r, rest = EGate g :: r)
      /\ (c = PostStop -> s_grace s = true)
  | Idle => s_phase s = PRun
  | Done => exit_ready (s_phase s)
  end.

Definition alive_rel (a : actor) : Prop :=
  (a_ports a = false -> a_pc a = Done)
  /\ (a_sig_taken a = true -> a_sig a = true \/ a_pc a = Done)
  /\ (a_armed a = false -> a_pc a = Done)
  /\ (a_stop_taken a = true ->
        a_stop a <> None \/ a_pc a = Done \/ exists r f p, a_pc a = InCb PostStop r f p).

Definition Rel (a : actor) (s : ast) : Prop := RelF a s /\ pc_rel a s /\ alive_rel a.

(* an actor in transit through its exit path: its last callback event has been logged *)
Definition RelX (a : actor) (s : ast) : Prop :=
  RelF a s /\ exit_ready (s_phase s) /\ a_pc a <> NotCreated /\ a_armed a = true.

Definition InvA (x : option nat) (w : world) (j : nat) : Prop :=
  match get w j with
  | Some a => exists s, tr w j = Go s /\
                        (if match x with Some k => Nat.eqb k j | None => false end
                         then RelX a s else Rel a s)
  | None => tr w j = Go ast0
  end.

Definition Inv (x : option nat) (w : world) : Prop := forall j, InvA x w j.

(* an update of one actor that keeps both relations, whatever the recogniser state *)
Definition silent (f : actor -> actor) : Prop :=
  (forall a s, Rel a s -> Rel (f a) s) /\ (forall a s, RelX a s -> RelX (f a) s).

Lemma inv_upd_silent x w k f : silent f -> Inv x w -> Inv x (upd w k f).
Proof.
  intros [H1 H2] H j. specialize (H j). unfold InvA in *. rewrite tr_upd.
  destruct (Nat.eq_dec k j) as [->|Hne].
  - rewrite get_upd_same. destruct (get w j) as [a|]; simpl; auto.
    destruct H as (s & Ht & HR). exists s. split; auto.
    destruct (match x with Some k => Nat.eqb k j | None => false end); auto.
  - rewrite get_upd_other by assumption. exact H.
Qed.

(* an event that no recogniser reacts to *)
Definition neutral (e : tev) : Prop := forall i s, astep i s e = Go s.

Lemma inv_emit_neutral x w e : neutral e -> Inv x w -> Inv x (emit w e).
Proof.
  intros Hn H j. specialize (H j). unfold InvA in *. rewrite get_emit, tr_emit.
  destruct (get w j) as [a|].
  - destruct H as (s & Ht & HR). exists s. rewrite Ht. split; auto.
  - rewrite H. apply Hn.
Qed.

Lemma neutral_sent a m ok : neutral (TSent a m ok).
Proof. intros i s. reflexivity. Qed.

(* an event about actor k together with an update of actor k *)
Definition about_only (k : nat) (e : tev) : Prop := forall i s, i <> k -> astep i s e = Go s.

Lemma inv_step_actor x x' w k e f :
  about_only k e ->
  (forall j, j <> k -> (match x with Some q => Nat.eqb q j | None => false end)
                       = (match x' with Some q => Nat.eqb q j | None => false end)) ->
  (forall a s, get w k = Some a -> tr w k = Go s ->
     (if match x with Some q => Nat.eqb q k | None => false end then RelX a s else Rel a s) ->
     exists s', astep k s e = Go s' /\
       (if match x' with Some q => Nat.eqb q k | None => false end then RelX (f a) s' else Rel (f a) s')) ->
  (get w k = None -> False) ->
  Inv x w -> Inv x' (upd (emit w e) k f).
Proof.
  intros Hab Hx Hk Hsome H j. specialize (H j). unfold InvA in *.
  rewrite tr_upd, tr_emit.
  destruct (Nat.eq_dec k j) as [->|Hne].
  - rewrite get_upd_same, get_emit. destruct (get w j) as [a|] eqn:Eg.
    + simpl. destruct H as (s & Ht & HR). rewrite Ht.
      destruct (Hk a s eq_refl Ht HR) as (s' & Hs & HR'). exists s'. split; assumption.
    + exfalso. apply Hsome. reflexivity.
  - rewrite get_upd_other, get_emit by assumption.
    rewrite <- (Hx j) by congruence.
    destruct (get w j) as [a|].
    + destruct H as (s & Ht & HR). exists s. rewrite Ht. split; [apply Hab; congruence|assumption].
    + rewrite H. apply Hab. congruence.
Qed.

Lemma inv_upd_at x w k f :
  (forall a s, get w k = Some a ->
     (Rel a s -> Rel (f a) s) /\ (RelX a s -> RelX (f a) s)) ->
  Inv x w -> Inv x (upd w k f).
Proof.
  intros Hf H j. specialize (H j). unfold InvA in *. rewrite tr_upd.
  destruct (Nat.eq_dec k j) as [->|Hne].
  - rewrite get_upd_same. destruct (get w j) as [a|] eqn:Eg; simpl; auto.
    destruct H as (s & Ht & HR). exists s. split; auto.
    destruct (Hf a s eq_refl) as [H1 H2].
    destruct (match x with Some k => Nat.eqb k j | None => false end); auto.
  - rewrite get_upd_other by assumption. exact H.
Qed.

(* ------------------------------------------------------------------ *)
(* field updates that do not disturb the relations                      *)

Ltac relsimpl :=
  unfold Rel, RelX, RelF, pc_rel, alive_rel, has_marker in *; simpl in *.

Lemma silent_status v : silent (fun a => upd_status a v).
Proof. split; intros a s H; relsimpl; exact H. Qed.
Lemma silent_supq_app e : silent (fun a => upd_supq a (a_supq a ++ [e])).
Proof. split; intros a s H; relsimpl; exact H. Qed.
Lemma silent_supq q : silent (fun a => upd_supq a q).
Proof. split; intros a s H; relsimpl; exact H. Qed.
Lemma silent_notify b : silent (fun a => upd_notify a b).
Proof. split; intros a s H; relsimpl; exact H. Qed.
Lemma silent_reason r : silent (fun a => upd_reason a r).
Proof. split; intros a s H; relsimpl; exact H. Qed.
Lemma silent_sup r : silent (fun a => upd_sup a r).
Proof. split; intros a s H; relsimpl; exact H. Qed.
Lemma silent_kids r : silent (fun a => upd_kids a r).
Proof. split; intros a s H; relsimpl; exact H. Qed.
Lemma silent_id : silent (fun a => a).
Proof. split; auto. Qed.
Lemma silent_comp f g : silent f -> silent g -> silent (fun a => g (f a)).
Proof. intros [A B] [C D]. split; intros a s H; auto. Qed.

Lemma silent_sup_clear p :
  silent (fun a => match a_sup a with
                   | Some q => if Nat.eqb q p then upd_sup a None else a
                   | None => a end).
Proof.
  split; intros a s H; destruct (a_sup a) as [q|]; auto; destruct (Nat.eqb q p); auto;
    relsimpl; exact H.
Qed.

Lemma silent_kids_remove i :
  silent (fun x => match a_kids x with
                   | Some ks => upd_kids x (Some (remove_nat i ks))
                   | None => x end).
Proof.
  split; intros a s H; destruct (a_kids a); auto; relsimpl; exact H.
Qed.

Lemma in_marker_app q m : In Marker (q ++ [Msg m]) <-> In Marker q.
Proof.
  rewrite in_app_iff. simpl. split; [intros [H|[H|[]]]; [assumption|discriminate]|auto].
Qed.

Lemma silent_msg_push m : silent (fun a => upd_msgq a (a_msgq a ++ [Msg m])).
Proof.
  split; intros a s H; relsimpl; destruct (a_pc a); rewrite ?in_marker_app; exact H.
Qed.

(* ------------------------------------------------------------------ *)
(* cell operations without a trace event                                *)

Lemma inv_do_kill x w i : Inv x w -> Inv x (do_kill w i).
Proof.
  intros H. unfold do_kill. destruct (get w i) as [a|] eqn:Eg; [|exact H].
  destruct (negb (created a) || a_sig_taken a) eqn:Ec; [exact H|].
  apply orb_false_iff in Ec as [Hc Ht]. apply negb_false_iff in Hc.
  apply inv_upd_at; [|exact H].
  intros a0 s E. rewrite Eg in E. injection E as <-.
  unfold created in Hc.
  split; intros HR; relsimpl.
  - destruct HR as ((Hg & Hs & Hk & Hsk) & Hpc & (Hp & Hst & Hsig & Hstop)).
    repeat split; auto.
    + destruct (a_pc a); try exact Hpc. discriminate.
    + intros _. destruct (a_ports a) eqn:Ep; [left; reflexivity|right; apply Hp; reflexivity].
  - destruct HR as ((Hg & Hs & Hk & Hsk) & Hex & Hnc & Harm). repeat split; auto.
Qed.

Lemma fold_inv {A} x (l : list A) (g : world -> A -> world) w :
  (forall w c, Inv x w -> Inv x (g w c)) -> Inv x w -> Inv x (fold_left g l w).
Proof.
  intros Hg. revert w. induction l as [|c t IH]; simpl; intros w H; auto.
Qed.

Lemma inv_take_children x w p : Inv x w -> Inv x (fst (take_children w p)).
Proof.
  intros H. unfold take_children. destruct (get w p) as [ap|]; [|exact H].
  destruct (a_kids ap) as [ks|]; [|exact H]. simpl.
  apply fold_inv.
  - intros w0 c H0. apply inv_upd_silent; [apply silent_sup_clear|exact H0].
  - apply inv_upd_silent; [apply silent_kids|exact H].
Qed.

Lemma inv_terminate_fuel x fuel pending w :
  Inv x w -> Inv x (terminate_fuel fuel pending w).
Proof.
  revert pending w. induction fuel as [|k IH]; intros pending w H; simpl; [exact H|].
  destruct pending as [|y rest]; [exact H|].
  set (w1 := match get w y with
             | Some ax => if Nat.ltb (a_status ax) 5 then do_kill w y else w
             | None => w end).
  assert (H1 : Inv x w1).
  { unfold w1. destruct (get w y) as [ax|]; [|exact H].
    destruct (Nat.ltb (a_status ax) 5); [apply inv_do_kill|]; exact H. }
  pose proof (inv_take_children x w1 y H1) as H2.
  destruct (take_children w1 y) as [w2 ks]. simpl in H2. apply IH. exact H2.
Qed.

Lemma inv_terminate x w i : Inv x w -> Inv x (terminate w i).
Proof. apply inv_terminate_fuel. Qed.

Lemma inv_notify x w i e : Inv x w -> Inv x (notify_supervisor w i e).
Proof.
  intros H. unfold notify_supervisor. destruct (get w i) as [a|]; [|exact H].
  destruct (a_sup a) as [s|]; [|exact H]. destruct (get w s) as [asup|]; [|exact H].
  destruct (a_ports asup); [|exact H].
  apply inv_upd_silent; [apply silent_supq_app|exact H].
Qed.

Lemma inv_unlink x w i : Inv x w -> Inv x (unlink_from_supervisor w i).
Proof.
  intros H. unfold unlink_from_supervisor. destruct (get w i) as [a|]; [|exact H].
  destruct (a_sup a) as [s|]; [|exact H].
  apply inv_upd_silent; [apply silent_sup|].
  apply inv_upd_silent; [apply silent_kids_remove|exact H].
Qed.

Lemma inv_try_link x w c s : Inv x w -> Inv x (fst (try_link w c s)).
Proof.
  intros H. unfold try_link. destruct (get w c) as [ac|]; [|exact H].
  destruct (get w s) as [asup|]; [|exact H].
  destruct (_ || _); [exact H|]. destruct (a_kids asup); [|exact H]. simpl.
  apply inv_upd_silent; [apply silent_sup|].
  apply inv_upd_silent; [apply silent_kids|exact H].
Qed.

Lemma inv_do_send x w i m : Inv x w -> Inv x (do_send w i m).
Proof.
  intros H. unfold do_send. destruct (get w i) as [a|]; [|exact H].
  destruct (can_send a); apply inv_emit_neutral; try apply neutral_sent; auto.
  apply inv_upd_silent; [apply silent_msg_push|exact H].
Qed.

Lemma inv_req_send x w i m : Inv x w -> Inv x (req_send w i m).
Proof. intros H. unfold req_send. destruct (is_created w i); [apply inv_do_send|]; exact H. Qed.

(* ------------------------------------------------------------------ *)
(* requests made through a cell: one trace event + one update of the target *)

Lemma is_created_get w i : is_created w i = true -> exists a, get w i = Some a /\ created a = true.
Proof. unfold is_created. destruct (get w i) as [a|]; [eauto|discriminate]. Qed.

Lemma about_kill k : about_only k (TKillReq k).
Proof. intros i s H. simpl. destruct (Nat.eqb_spec i k); [contradiction|reflexivity]. Qed.
Lemma about_stop k r : about_only k (TStopReq k r).
Proof. intros i s H. simpl. destruct (Nat.eqb_spec i k); [contradiction|reflexivity]. Qed.
Lemma about_drain k : about_only k (TDrainReq k).
Proof. intros i s H. simpl. destruct (Nat.eqb_spec i k); [contradiction|reflexivity]. Qed.

Lemma upd_nth_id {A} (l : list A) i : upd_nth l i (fun a => a) = l.
Proof. revert i; induction l as [|y t IH]; intros [|i]; simpl; auto. now rewrite IH. Qed.

Lemma upd_id w i : upd w i (fun a => a) = w.
Proof. unfold upd. rewrite upd_nth_id. destruct w; reflexivity. Qed.

Lemma inv_req_kill w i : Inv None w -> Inv None (req_kill w i).
Proof.
  intros H. unfold req_kill. destruct (is_created w i) eqn:Ec; [|exact H].
  destruct (is_created_get _ _ Ec) as (a & Eg & Hc).
  unfold do_kill. rewrite get_emit, Eg, Hc. simpl.
  destruct (a_sig_taken a) eqn:Et.
  - (* sender already used *)
    rewrite <- (upd_id (emit w (TKillReq i)) i).
    eapply inv_step_actor with (x := None); [apply about_kill|reflexivity| |congruence|exact H].
    intros a0 s E Ht HR. rewrite Eg in E; injection E as <-. simpl. rewrite Nat.eqb_refl.
    eexists; split; [reflexivity|].
    unfold created in Hc. relsimpl.
    destruct HR as ((Hg & Hs & Hk & Hsk) & Hpc & Hal).
    split; [repeat split; auto|]. split; [|exact Hal].
    destruct (a_pc a); try exact Hpc. discriminate.
  - eapply inv_step_actor with (x := None); [apply about_kill|reflexivity| |congruence|exact H].
    intros a0 s E Ht HR. rewrite Eg in E; injection E as <-. simpl. rewrite Nat.eqb_refl.
    eexists; split; [reflexivity|].
    unfold created in Hc. relsimpl.
    destruct HR as ((Hg & Hs & Hk & Hsk) & Hpc & (Hp & Hst & Hsig & Hstop)).
    repeat split; auto.
    + destruct (a_pc a); try exact Hpc. discriminate.
    + intros _. destruct (a_ports a) eqn:Ep; [left; reflexivity|right; apply Hp; reflexivity].
Qed.

Lemma inv_req_stop w i r : Inv None w -> Inv None (req_stop w i r).
Proof.
  intros H. unfold req_stop. destruct (is_created w i) eqn:Ec; [|exact H].
  destruct (is_created_get _ _ Ec) as (a & Eg & Hc).
  unfold do_stop. rewrite get_emit, Eg, Hc. simpl.
  destruct (a_stop_taken a) eqn:Et.
  - rewrite <- (upd_id (emit w (TStopReq i r)) i).
    eapply inv_step_actor with (x := None); [apply about_stop|reflexivity| |congruence|exact H].
    intros a0 s E Ht HR. rewrite Eg in E; injection E as <-. simpl. rewrite Nat.eqb_refl.
    eexists; split; [reflexivity|].
    unfold created in Hc. relsimpl.
    destruct HR as ((Hg & Hs & Hk & Hsk) & Hpc & Hal).
    split; [repeat split; auto|]. split; [|exact Hal].
    destruct (a_pc a); try exact Hpc; try discriminate; tauto.
  - eapply inv_step_actor with (x := None); [apply about_stop|reflexivity| |congruence|exact H].
    intros a0 s E Ht HR. rewrite Eg in E; injection E as <-. simpl. rewrite Nat.eqb_refl.
    eexists; split; [reflexivity|].
    unfold created in Hc. relsimpl.
    destruct HR as ((Hg & Hs & Hk & Hsk) & Hpc & (Hp & Hst & Hsig & Hstop)).
    split; [repeat split; auto|]. split.
    + destruct (a_pc a); try exact Hpc; try discriminate; tauto.
    + repeat split; auto. intros _.
      destruct (a_ports a) eqn:Ep; [left; discriminate|right; left; apply Hp; reflexivity].
Qed.

Definition drain_upd (a : actor) : actor :=
  let a1 := if Nat.ltb (a_status a) 5 then upd_status a 4 else a in
  if a_marker a1 then upd_adm a1 true true
  else upd_adm (if a_ports a1 then upd_msgq a1 (a_msgq a1 ++ [Marker]) else a1) true true.

Lemma drain_upd_fields a :
  a_pc (drain_upd a) = a_pc a /\ a_ports (drain_upd a) = a_ports a
  /\ a_sig (drain_upd a) = a_sig a /\ a_sig_taken (drain_upd a) = a_sig_taken a
  /\ a_stop (drain_upd a) = a_stop a /\ a_stop_taken (drain_upd a) = a_stop_taken a
  /\ a_armed (drain_upd a) = a_armed a.
Proof.
  unfold drain_upd. destruct (Nat.ltb (a_status a) 5); simpl;
    (destruct (a_marker a) eqn:Em; simpl; [|destruct (a_ports a) eqn:Ep; simpl]);
    repeat split; auto.
Qed.

(* same program counter and port flags, grace raised: the relation carries over *)
Lemma Rel_transfer_grace a a' s s' :
  a_pc a' = a_pc a -> a_ports a' = a_ports a -> a_sig a' = a_sig a ->
  a_sig_taken a' = a_sig_taken a -> a_stop a' = a_stop a -> a_stop_taken a' = a_stop_taken a ->
  a_armed a' = a_armed a ->
  a_pc a <> NotCreated ->
  s_phase s' = s_phase s -> s_parked s' = s_parked s -> s_stopreq s' = s_stopreq s ->
  s_killed s' = s_killed s -> s_grace s' = true ->
  Rel a s -> Rel a' s'.
Proof.
  intros E1 E2 E3 E4 E5 E6 E7 Hn P1 P2 P3 P4 P5 ((Hg & Hs & Hk & Hsk) & Hpc & Hal).
  unfold Rel, RelF, pc_rel, alive_rel in *.
  rewrite E1, E2, E3, E4, E5, E6, E7, P1, P2, P3, P4, P5.
  split; [repeat split; auto|]. split; [|exact Hal].
  destruct (a_pc a); try exact Hpc; try congruence; tauto.
Qed.

Lemma inv_req_drain w i : Inv None w -> Inv None (req_drain w i).
Proof.
  intros H. unfold req_drain. destruct (is_created w i) eqn:Ec; [|exact H].
  destruct (is_created_get _ _ Ec) as (a & Eg & Hc).
  unfold do_drain. rewrite get_emit, Eg, Hc. simpl.
  eapply inv_step_actor with (x := None); [apply about_drain|reflexivity| |congruence|exact H].
  intros a0 s E Ht HR. rewrite Eg in E; injection E as <-. simpl. rewrite Nat.eqb_refl.
  eexists; split; [reflexivity|].
  change (Rel (drain_upd a) (mkAst (s_phase s) true (s_stopreq s) (s_killed s) (s_parked s))).
  destruct (drain_upd_fields a) as (E1 & E2 & E3 & E4 & E5 & E6 & E7).
  apply (Rel_transfer_grace a (drain_upd a) s); auto.
  unfold created in Hc. destruct (a_pc a); congruence.
Qed.

(* ------------------------------------------------------------------ *)
(* the silent helpers leave the trace alone                             *)

Lemma trace_do_kill w i : w_trace (do_kill w i) = w_trace w.
Proof. unfold do_kill. destruct (get w i); auto. destruct (_ || _); auto. Qed.

Lemma trace_fold {A} (l : list A) (g : world -> A -> world) w :
  (forall w c, w_trace (g w c) = w_trace w) -> w_trace (fold_left g l w) = w_trace w.
Proof.
  intros Hg. revert w. induction l as [|c t IH]; simpl; intros w; auto. rewrite IH. apply Hg.
Qed.

Lemma trace_take_children w p : w_trace (fst (take_children w p)) = w_trace w.
Proof.
  unfold take_children. destruct (get w p) as [ap|]; auto. destruct (a_kids ap); auto. simpl.
  rewrite trace_fold; auto.
Qed.

Lemma trace_terminate_fuel fuel pending w : w_trace (terminate_fuel fuel pending w) = w_trace w.
Proof.
  revert pending w. induction fuel as [|k IH]; intros pending w; simpl; auto.
  destruct pending as [|y rest]; auto.
  set (w1 := match get w y with
             | Some ax => if Nat.ltb (a_status ax) 5 then do_kill w y else w
             | None => w end).
  assert (E1 : w_trace w1 = w_trace w).
  { unfold w1. destruct (get w y) as [ax|]; auto. destruct (Nat.ltb _ 5); auto using trace_do_kill. }
  pose proof (trace_take_children w1 y) as E2.
  destruct (take_children w1 y) as [w2 ks]. simpl in E2. rewrite IH. congruence.
Qed.

Lemma trace_notify w i e : w_trace (notify_supervisor w i e) = w_trace w.
Proof.
  unfold notify_supervisor. destruct (get w i) as [a|]; auto. destruct (a_sup a) as [s|]; auto.
  destruct (get w s) as [b|]; auto. destruct (a_ports b); auto.
Qed.

Lemma trace_unlink w i : w_trace (unlink_from_supervisor w i) = w_trace w.
Proof.
  unfold unlink_from_supervisor. destruct (get w i) as [a|]; auto. destruct (a_sup a); auto.
Qed.

Lemma trace_cleanup w i e : w_trace (cleanup w i e) = w_trace w.
Proof.
  unfold cleanup. destruct (get w i) as [a|]; auto. destruct (negb (a_armed a)); auto.
  rewrite trace_upd, trace_unlink. destruct e; rewrite ?trace_notify; unfold terminate;
    rewrite trace_terminate_fuel; reflexivity.
Qed.

Lemma trace_try_link w c s : w_trace (fst (try_link w c s)) = w_trace w.
Proof.
  unfold try_link. destruct (get w c); auto. destruct (get w s) as [b|]; auto.
  destruct (_ || _); auto. destruct (a_kids b); auto.
Qed.

(* ------------------------------------------------------------------ *)
(* leaving transit: the final update of cleanup                         *)

Lemma inv_land w i f :
  (forall a s, get w i = Some a -> RelX a s -> Rel (f a) s) ->
  Inv (Some i) w -> Inv None (upd w i f).
Proof.
  intros Hf H j. specialize (H j). unfold InvA in *. rewrite tr_upd.
  destruct (Nat.eq_dec i j) as [->|Hne].
  - rewrite get_upd_same. rewrite Nat.eqb_refl in H.
    destruct (get w j) as [a|] eqn:Eg; simpl; auto.
    destruct H as (s & Ht & HR). exists s. split; auto.
  - rewrite get_upd_other by assumption.
    apply Nat.eqb_neq in Hne. rewrite Hne in H. exact H.
Qed.

Lemma RelX_dead a s : RelX a s -> Rel (upd_dead a) s.
Proof.
  intros ((Hg & Hs & Hk & Hsk) & Hex & Hnc & Harm). relsimpl.
  split; [repeat split; auto|]. split; [exact Hex|]. repeat split; auto.
Qed.

(* the transit actor keeps its identity through silent helpers: its armed flag *)
Lemma get_transit (w : world) i : Inv (Some i) w ->
  match get w i with Some a => a_armed a = true | None => True end.
Proof.
  intros H. specialize (H i). unfold InvA in H. rewrite Nat.eqb_refl in H.
  destruct (get w i); auto. destruct H as (s & _ & (_ & _ & _ & Harm)). exact Harm.
Qed.

Lemma inv_cleanup w i e : Inv (Some i) w -> Inv None (cleanup w i e) \/ get w i = None.
Proof.
  intros H. unfold cleanup. pose proof (get_transit w i H) as Harm.
  destruct (get w i) as [a|] eqn:Eg; [left|right; reflexivity].
  rewrite Harm. simpl.
  apply inv_land.
  - intros a0 s _ HR. apply RelX_dead. exact HR.
  - apply inv_unlink.
    assert (H2 : Inv (Some i) (terminate (upd w i (fun a => upd_status a 5)) i)).
    { apply inv_terminate. apply inv_upd_silent; [apply silent_status|exact H]. }
    destruct e; [apply inv_notify|]; exact H2.
Qed.

(* ------------------------------------------------------------------ *)
(* generic single-actor transition without / with an event             *)

Definition tagb (x : option nat) (j : nat) : bool :=
  match x with Some k => Nat.eqb k j | None => false end.

Lemma inv_upd_actor x x' w k f :
  (forall j, j <> k -> tagb x j = tagb x' j) ->
  (forall a s, get w k = Some a -> tr w k = Go s ->
     (if tagb x k then RelX a s else Rel a s) ->
     (if tagb x' k then RelX (f a) s else Rel (f a) s)) ->
  Inv x w -> Inv x' (upd w k f).
Proof.
  intros Hx Hk H j. specialize (H j). unfold InvA in *. fold (tagb x j) in H. fold (tagb x' j).
  rewrite tr_upd.
  destruct (Nat.eq_dec k j) as [->|Hne].
  - rewrite get_upd_same. destruct (get w j) as [a|] eqn:Eg; simpl; auto.
    destruct H as (s & Ht & HR). exists s. split; [assumption|]. apply Hk; auto.
  - rewrite get_upd_other by assumption. rewrite <- (Hx j) by congruence. exact H.
Qed.

Lemma upd_nth_upd_nth {A} (l : list A) i f g :
  upd_nth (upd_nth l i f) i g = upd_nth l i (fun a => g (f a)).
Proof. revert i; induction l as [|y t IH]; intros [|i]; simpl; auto. now rewrite IH. Qed.

Lemma upd_upd w i f g : upd (upd w i f) i g = upd w i (fun a => g (f a)).
Proof. unfold upd. simpl. now rewrite upd_nth_upd_nth. Qed.

Lemma upd_emit w e i f : upd (emit w e) i f = emit (upd w i f) e.
Proof. reflexivity. Qed.

Lemma upd_nth_ext {A} (l : list A) i f g a :
  nth_error l i = Some a -> f a = g a -> upd_nth l i f = upd_nth l i g.
Proof.
  revert i; induction l as [|y t IH]; intros [|i] H E; simpl in *; try discriminate.
  - injection H as ->. now rewrite E.
  - f_equal. eapply IH; eauto.
Qed.

Lemma upd_ext w i f g a : get w i = Some a -> f a = g a -> upd w i f = upd w i g.
Proof. intros H E. unfold upd. f_equal. eapply upd_nth_ext; eauto. Qed.

(* ------------------------------------------------------------------ *)
(* end of the task: TJoin / TSpawnRet false after cleanup               *)

Lemma about_join k : about_only k (TJoin k).
Proof. intros i s H. simpl. destruct (Nat.eqb_spec i k); [contradiction|reflexivity]. Qed.
Lemma about_spawnret k b : about_only k (TSpawnRet k b).
Proof. intros i s H. simpl. destruct (Nat.eqb_spec i k); [contradiction|reflexivity]. Qed.

Lemma cleanup_dead w i e a' :
  Inv (Some i) w -> get (cleanup w i e) i = Some a' -> a_pc a' = Done.
Proof.
  intros H. unfold cleanup. pose proof (get_transit w i H) as Harm.
  destruct (get w i) as [a|] eqn:Eg.
  - rewrite Harm. simpl. rewrite get_upd_same.
    match goal with |- option_map _ ?G = _ -> _ => destruct G as [b|] end; simpl; [|discriminate].
    intros E; injection E as <-. reflexivity.
  - rewrite Eg. discriminate.
Qed.

Lemma tr_cleanup w i e j : tr (cleanup w i e) j = tr w j.
Proof. unfold tr. now rewrite trace_cleanup. Qed.

Lemma Rel_done_setphase a s :
  a_pc a = Done -> Rel a s -> Rel a (set_phase s PEnd).
Proof.
  intros Hd ((Hg & Hs & Hk & Hsk) & Hpc & Hal). relsimpl. rewrite Hd in *.
  split; [repeat split; auto|]. split; [|exact Hal]. right; right; right; reflexivity.
Qed.

(* the number of actors never changes *)
Definition nact (w : world) : nat := length (w_actors w).

Lemma len_upd_nth {A} (l : list A) i f : length (upd_nth l i f) = length l.
Proof. revert i; induction l as [|y t IH]; intros [|i]; simpl; auto. Qed.
Lemma nact_upd w i f : nact (upd w i f) = nact w.
Proof. unfold nact, upd; simpl. apply len_upd_nth. Qed.
Lemma nact_emit w e : nact (emit w e) = nact w.
Proof. reflexivity. Qed.
Lemma get_some_lt w i : get w i <> None <-> i < nact w.
Proof. unfold get, nact. apply nth_error_Some. Qed.

Lemma nact_do_kill w i : nact (do_kill w i) = nact w.
Proof. unfold do_kill. destruct (get w i); auto. destruct (_ || _); auto using nact_upd. Qed.
Lemma nact_fold {A} (l : list A) (g : world -> A -> world) w :
  (forall w c, nact (g w c) = nact w) -> nact (fold_left g l w) = nact w.
Proof. intros Hg. revert w. induction l as [|c t IH]; simpl; intros w; auto. rewrite IH. apply Hg. Qed.
Lemma nact_take_children w p : nact (fst (take_children w p)) = nact w.
Proof.
  unfold take_children. destruct (get w p) as [ap|]; auto. destruct (a_kids ap); auto. simpl.
  rewrite nact_fold; [apply nact_upd|]. intros; apply nact_upd.
Qed.
Lemma nact_terminate_fuel fuel pending w : nact (terminate_fuel fuel pending w) = nact w.
Proof.
  revert pending w. induction fuel as [|k IH]; intros pending w; simpl; auto.
  destruct pending as [|y rest]; auto.
  set (w1 := match get w y with
             | Some ax => if Nat.ltb (a_status ax) 5 then do_kill w y else w
             | None => w end).
  assert (E1 : nact w1 = nact w).
  { unfold w1. destruct (get w y) as [ax|]; auto. destruct (Nat.ltb _ 5); auto using nact_do_kill. }
  pose proof (nact_take_children w1 y) as E2.
  destruct (take_children w1 y) as [w2 ks]. simpl in E2. rewrite IH. congruence.
Qed.
Lemma nact_notify w i e : nact (notify_supervisor w i e) = nact w.
Proof.
  unfold notify_supervisor. destruct (get w i) as [a|]; auto. destruct (a_sup a) as [s|]; auto.
  destruct (get w s) as [b|]; auto. destruct (a_ports b); auto using nact_upd.
Qed.
Lemma nact_unlink w i : nact (unlink_from_supervisor w i) = nact w.
Proof.
  unfold unlink_from_supervisor. destruct (get w i) as [a|]; auto. destruct (a_sup a); auto.
  now rewrite !nact_upd.
Qed.
Lemma nact_cleanup w i e : nact (cleanup w i e) = nact w.
Proof.
  unfold cleanup. destruct (get w i) as [a|]; auto. destruct (negb (a_armed a)); auto.
  rewrite nact_upd, nact_unlink. destruct e; rewrite ?nact_notify; unfold terminate;
    rewrite nact_terminate_fuel; apply nact_upd.
Qed.

Lemma inv_finish w i e :
  Inv (Some i) w -> get w i <> None -> Inv None (finish w i e).
Proof.
  intros H Hsome. unfold finish.
  destruct (inv_cleanup w i (Some e) H) as [Hc|Hn]; [|contradiction].
  rewrite <- (upd_id (emit _ _) i).
  eapply inv_step_actor with (x := None); [apply about_join|reflexivity| | |exact Hc].
  - intros a s Eg Ht HR. simpl in HR |- *. rewrite Nat.eqb_refl.
    pose proof (cleanup_dead w i (Some e) a H Eg) as Hd.
    destruct HR as (HF & Hpc & Hal). pose proof Hpc as Hpc'. unfold pc_rel in Hpc'. rewrite Hd in Hpc'.
    destruct Hpc' as [E|[E|[E|E]]]; rewrite E; eexists; (split; [reflexivity|]);
      (apply Rel_done_setphase; [assumption|split; [assumption|split; assumption]]).
  - apply get_some_lt. rewrite nact_cleanup. apply get_some_lt. exact Hsome.
Qed.

Lemma inv_start_failed w i s :
  Inv (Some i) w -> get w i <> None -> tr w i = Go s ->
  (s_phase s = P0 \/ s_phase s = PPreOk \/ s_phase s = PEnd) ->
  Inv None (start_failed w i).
Proof.
  intros H Hsome Ht Hph. unfold start_failed.
  destruct (inv_cleanup w i None H) as [Hc|Hn]; [|contradiction].
  rewrite <- (upd_id (emit _ _) i).
  eapply inv_step_actor with (x := None); [apply about_spawnret|reflexivity| | |exact Hc].
  - intros a s0 Eg Ht0 HR. rewrite tr_cleanup, Ht in Ht0. injection Ht0 as <-.
    simpl in HR |- *. rewrite Nat.eqb_refl.
    pose proof (cleanup_dead w i None a H Eg) as Hd.
    destruct Hph as [E|[E|E]]; rewrite E; eexists; (split; [reflexivity|]);
      apply Rel_done_setphase; auto.
  - apply get_some_lt. rewrite nact_cleanup. apply get_some_lt. exact Hsome.
Qed.

(* ------------------------------------------------------------------ *)
(* entering and leaving transit                                         *)

Lemma tagb_none_some i j : j <> i -> tagb None j = tagb (Some i) j.
Proof. intros H. simpl. symmetry. apply Nat.eqb_neq. congruence. Qed.
Lemma tagb_some_none i j : j <> i -> tagb (Some i) j = tagb None j.
Proof. intros H. simpl. apply Nat.eqb_neq. congruence. Qed.

Lemma tr_terminate w i j : tr (terminate w i) j = tr w j.
Proof. unfold tr, terminate. now rewrite trace_terminate_fuel. Qed.
Lemma nact_terminate w i : nact (terminate w i) = nact w.
Proof. apply nact_terminate_fuel. Qed.

Lemma inv_killed_exit w i c s :
  Inv (Some i) w -> get w i <> None -> tr w i = Go s ->
  (c = Some PreStart -> s_phase s = P0 \/ s_phase s = PPreOk \/ s_phase s = PEnd) ->
  Inv None (killed_exit w i c).
Proof.
  intros H Hsome Ht Hc. unfold killed_exit.
  assert (H1 : Inv (Some i) (terminate w i)) by (apply inv_terminate; exact H).
  assert (S1 : get (terminate w i) i <> None)
    by (apply get_some_lt; rewrite nact_terminate; apply get_some_lt; exact Hsome).
  assert (T1 : tr (terminate w i) i = Go s) by (rewrite tr_terminate; exact Ht).
  assert (Hfin : forall e, Inv None (finish (upd (terminate w i) i (fun a => upd_status a 5)) i e)).
  { intros e. apply inv_finish.
    - apply inv_upd_silent; [apply silent_status|exact H1].
    - apply get_some_lt. rewrite nact_upd. apply get_some_lt. exact S1. }
  destruct c as [[| | | |]|]; auto using inv_finish.
  eapply inv_start_failed; eauto.
Qed.

Definition core_same (a' a : actor) : Prop :=
  a_pc a' = a_pc a /\ a_ports a' = a_ports a /\ a_sig a' = a_sig a
  /\ a_sig_taken a' = a_sig_taken a /\ a_stop_taken a' = a_stop_taken a
  /\ a_armed a' = a_armed a /\ a_cfg a' = a_cfg a
  /\ (has_marker (a_msgq a') -> has_marker (a_msgq a))
  /\ (a_stop a' <> None -> a_stop a <> None).

Definition is_handler (c : cb) : bool := match c with Handle _ | Sup _ => true | _ => false end.

(* the program counter from which callback c may be started *)
Definition start_from (p : pc) (c : cb) : Prop :=
  match p, c with
  | NotStarted, PreStart | Spawned, PostStart => True
  | Idle, Handle _ | Idle, Sup _ | Idle, PostStop => True
  | _, _ => False
  end.

Lemma RelX_of_Rel_quiet a a' s :
  Rel a s -> core_same a' a ->
  (a_pc a = NotStarted \/ a_pc a = Spawned \/ a_pc a = Idle) ->
  RelX (upd_sig a' false true) s.
Proof.
  intros ((Hg & Hs & Hk & Hsk) & Hpc & (Hp & Hst & Harm & Hstop)) (E1 & E2 & E3 & E4 & E5 & E6 & E7 & E8 & E9) Hq.
  unfold RelX, RelF. simpl. rewrite E1, E5, E6.
  split; [repeat split; auto; intros [A|A]; auto|].
  unfold pc_rel in Hpc.
  split; [|split].
  - destruct Hq as [E|[E|E]]; rewrite E in Hpc; unfold exit_ready; [destruct Hpc|..]; tauto.
  - destruct Hq as [E|[E|E]]; rewrite E; discriminate.
  - destruct (a_armed a) eqn:Ea; auto. specialize (Harm eq_refl).
    destruct Hq as [E|[E|E]]; congruence.
Qed.

Lemma about_enter k c : about_only k (TEnter k c).
Proof. intros i s H. simpl. destruct (Nat.eqb_spec i k); [contradiction|reflexivity]. Qed.

Lemma inv_start_cb w i c F a s :
  Inv None w -> get w i = Some a -> tr w i = Go s ->
  core_same (F a) a ->
  start_from (a_pc a) c ->
  (is_handler c = true -> a_stop (F a) = None) ->
  (c = PostStop -> s_grace s = true) ->
  (c <> PostStop -> a_stop (F a) = a_stop a) ->
  Inv None (start_cb (upd w i F) i c).
Proof.
  intros H Eg Ht Hcs Hfrom Hh Hgr Hst.
  pose proof Hcs as (E1 & E2 & E3 & E4 & E5 & E6 & E7 & E8 & E9).
  pose proof (H i) as Hi. unfold InvA in Hi. rewrite Eg, Ht in Hi. simpl in Hi.
  destruct Hi as (s0 & Es & HR). injection Es as <-.
  assert (Hquiet : a_pc a = NotStarted \/ a_pc a = Spawned \/ a_pc a = Idle).
  { unfold start_from in Hfrom. destruct (a_pc a); try tauto; destruct c; tauto. }
  unfold start_cb. rewrite get_upd_same, Eg. cbn [option_map]. rewrite E3.
  destruct (a_sig a) eqn:Esig.
  - (* the signal wins the race: the callback is never polled *)
    unfold consume_sig. rewrite upd_upd.
    eapply inv_killed_exit with (s := s).
    + eapply inv_upd_actor with (x := None); [apply tagb_none_some| |exact H].
      intros a0 s0 E0 Ht0 HR0. rewrite Eg in E0; injection E0 as <-.
      rewrite Ht in Ht0; injection Ht0 as <-. simpl in HR0 |- *. rewrite Nat.eqb_refl.
      apply (RelX_of_Rel_quiet a (F a) s); auto.
    + apply get_some_lt. rewrite nact_upd. apply get_some_lt. congruence.
    + rewrite tr_upd. exact Ht.
    + intros Ec. injection Ec as ->. unfold start_from in Hfrom.
      destruct HR as (_ & Hpc & _). unfold pc_rel in Hpc.
      destruct (a_pc a); tauto.
  - unfold enter. rewrite get_upd_same, Eg. simpl.
    destruct (script_of (upd w i F) (F a) c) as [es f].
    match goal with |- Inv None (upd (emit _ _) i (fun a0 => upd_pc a0 (InCb c ?ES f false))) =>
      set (es' := ES) end.
    rewrite upd_emit, upd_upd, <- upd_emit.
    eapply inv_step_actor with (x := None); [apply about_enter|reflexivity| |congruence|exact H].
    intros a0 s0 E0 Ht0 HR0. rewrite Eg in E0; injection E0 as <-.
    rewrite Ht in Ht0; injection Ht0 as <-. simpl in HR0 |- *. rewrite Nat.eqb_refl.
    destruct HR0 as ((Hg & Hs & Hk & Hsk) & Hpc & (Hp & Hstk & Harm & Hstop)).
    (* not killed, since the signal is not pending and the actor is alive *)
    assert (Hnt : a_sig_taken a = false).
    { destruct (a_sig_taken a) eqn:Et; auto. destruct (Hstk eq_refl) as [A|A]; [congruence|].
      destruct Hquiet as [E|[E|E]]; congruence. }
    assert (Hnk : s_killed s = false).
    { destruct (s_killed s) eqn:Ek; auto. specialize (Hk eq_refl). congruence. }
    rewrite Hnk.
    assert (Hports : a_ports a = true).
    { destruct (a_ports a) eqn:Ep; auto. specialize (Hp eq_refl). destruct Hquiet as [E|[E|E]]; congruence. }
    assert (Harmed : a_armed a = true).
    { destruct (a_armed a) eqn:Ep; auto. specialize (Harm eq_refl). destruct Hquiet as [E|[E|E]]; congruence. }
    unfold pc_rel in Hpc.
    assert (Hgoal : forall ph, s_phase (set_phase s ph) = ph -> 
              ph = ph_of c ->
              Rel (upd_pc (F a) (InCb c es' f false)) (set_phase s ph)).
    { intros ph _ Eph. unfold Rel, RelF, pc_rel, alive_rel. simpl.
      rewrite E2, E3, E4, E5, E6, Hnt, Hports, Harmed.
      split; [split; [|split; [|split]]|].
      { intros [A|A]; apply Hg; [left; apply E9; exact A|right; apply E8; exact A]. }
      { exact Hs. }
      { intros A; congruence. }
      { intros A. apply Hsk. apply E9. exact A. }
      split; [repeat split; auto; intros; discriminate|].
      split; [intros; discriminate|]. split; [intros; discriminate|]. split; [intros; discriminate|].
      intros Htk. destruct (Hstop Htk) as [A|[A|(r & f0 & p & A)]].
      - destruct c; try (left; rewrite Hst by discriminate; exact A).
        right; right. eauto.
      - destruct Hquiet as [E|[E|E]]; congruence.
      - destruct Hquiet as [E|[E|E]]; congruence. }
    unfold start_from in Hfrom.
    destruct (a_pc a) eqn:Epc; try tauto; destruct c; try tauto.
    + destruct Hpc as [Hph Hpk]. rewrite Hph. eexists; split; [reflexivity|]. apply Hgoal; reflexivity.
    + rewrite Hpc. eexists; split; [reflexivity|]. apply Hgoal; reflexivity.
    + rewrite Hpc.
      assert (Hns : s_stopreq s = false).
      { destruct (s_stopreq s) eqn:Eq; auto. specialize (Hs eq_refl).
        destruct (Hstop Hs) as [A|[A|(r & f0 & p & A)]]; try congruence.
        exfalso. apply A. rewrite <- Hst by discriminate. apply Hh. reflexivity. }
      rewrite Hns. eexists; split; [reflexivity|]. apply Hgoal; reflexivity.
    + rewrite Hpc.
      assert (Hns : s_stopreq s = false).
      { destruct (s_stopreq s) eqn:Eq; auto. specialize (Hs eq_refl).
        destruct (Hstop Hs) as [A|[A|(r & f0 & p & A)]]; try congruence.
        exfalso. apply A. rewrite <- Hst by discriminate. apply Hh. reflexivity. }
      rewrite Hns. eexists; split; [reflexivity|]. apply Hgoal; reflexivity.
    + rewrite Hpc. rewrite (Hgr eq_refl). eexists; split; [reflexivity|].
      apply Hgoal; reflexivity.
Qed.

(* ------------------------------------------------------------------ *)
(* a callback returns                                                   *)

Lemma onat_eqb_refl x : onat_eqb x x = true.
Proof. destruct x; simpl; auto using Nat.eqb_refl. Qed.
Lemma supevt_eqb_refl e : supevt_eqb e e = true.
Proof. destruct e; simpl; rewrite ?Nat.eqb_refl, ?eqb_reflx, ?onat_eqb_refl; reflexivity. Qed.
Lemma cb_eqb_refl c : cb_eqb c c = true.
Proof. destruct c; simpl; auto using Nat.eqb_refl, supevt_eqb_refl. Qed.

Lemma about_exit k c f : about_only k (TExit k c f).
Proof. intros i s H. simpl. destruct (Nat.eqb_spec i k); [contradiction|reflexivity]. Qed.

Definition after_phase (c : cb) (f : fin) : phase :=
  match c with
  | PreStart => if is_ok f then PPreOk else PEnd
  | PostStart | Handle _ | Sup _ => if is_ok f then PRun else PEnd
  | PostStop => PEnd
  end.

Lemma astep_exit i s c f :
  s_phase s = ph_of c -> s_parked s = false ->
  astep i s (TExit i c f) = Go (set_phase s (after_phase c f)).
Proof.
  intros Hp Hk. simpl. rewrite Nat.eqb_refl, Hk, andb_false_r, Hp. simpl.
  destruct c; simpl; rewrite ?Nat.eqb_refl, ?supevt_eqb_refl; reflexivity.
Qed.

Lemma exit_ready_after c f : exit_ready (after_phase c f).
Proof. unfold exit_ready. destruct c; simpl; destruct (is_ok f); tauto. Qed.

(* the facts about an actor inside a finished callback that every continuation needs *)
Lemma in_cb_facts a s c f p :
  Rel a s -> a_pc a = InCb c [] f p ->
  s_phase s = ph_of c /\ s_parked s = false /\ p = false
  /\ a_ports a = true /\ a_armed a = true
  /\ (a_sig_taken a = true -> a_sig a = true)
  /\ (c <> PostStop -> a_stop_taken a = true -> a_stop a <> None)
  /\ (c = PostStop -> s_grace s = true).
Proof.
  intros (HF & Hpc & (Hp & Hst & Harm & Hstop)) E. unfold pc_rel in Hpc. rewrite E in *.
  destruct Hpc as (Hph & Hpk & Hg & Hgr).
  assert (p = false).
  { destruct p; auto. destruct (Hg eq_refl) as (g & r & A). discriminate. }
  subst p. repeat split; auto.
  - destruct (a_ports a); auto. specialize (Hp eq_refl). discriminate.
  - destruct (a_armed a); auto. specialize (Harm eq_refl). discriminate.
  - intros A. destruct (Hst A); [assumption|discriminate].
  - intros Hn A. destruct (Hstop A) as [B|[B|(r & f0 & p0 & B)]]; [assumption|discriminate|].
    injection B as B1 _ _ _. congruence.
Qed.

(* TExit logged: the actor is in transit (dying form) *)
Lemma inv_texit_transit w i c f a s p :
  Inv None w -> get w i = Some a -> tr w i = Go s -> a_pc a = InCb c [] f p ->
  Inv (Some i) (emit w (TExit i c f))
  /\ tr (emit w (TExit i c f)) i = Go (set_phase s (after_phase c f)).
Proof.
  intros H Eg Ht Epc.
  pose proof (H i) as Hi. unfold InvA in Hi. rewrite Eg, Ht in Hi. simpl in Hi.
  destruct Hi as (s0 & Es & HR). injection Es as <-.
  destruct (in_cb_facts a s c f p HR Epc) as (Hph & Hpk & -> & Hports & Harm & Hsig & Hstop & Hgr).
  split.
  - rewrite <- (upd_id (emit w _) i).
    eapply inv_step_actor with (x := None) (x' := Some i);
      [apply about_exit|intros j Hj; apply tagb_none_some; exact Hj| |congruence|exact H].
    intros a0 s0 E0 Ht0 HR0. rewrite Eg in E0; injection E0 as <-.
    rewrite Ht in Ht0; injection Ht0 as <-. cbn [tagb] in *. rewrite Nat.eqb_refl.
    rewrite (astep_exit i s c f Hph Hpk). eexists; split; [reflexivity|].
    destruct HR as ((Hg & Hs & Hk & Hsk) & _ & _).
    unfold RelX, RelF. simpl. repeat split; auto.
    + apply exit_ready_after.
    + rewrite Epc. discriminate.
  - rewrite tr_emit, Ht. apply astep_exit; assumption.
Qed.

Definition core_eq (a' a : actor) : Prop :=
  a_pc a' = a_pc a /\ a_ports a' = a_ports a /\ a_sig a' = a_sig a
  /\ a_sig_taken a' = a_sig_taken a /\ a_stop a' = a_stop a /\ a_stop_taken a' = a_stop_taken a
  /\ a_armed a' = a_armed a /\ a_msgq a' = a_msgq a.

Lemma core_eq_refl a : core_eq a a.
Proof. unfold core_eq; repeat split; reflexivity. Qed.

Lemma try_link_core w c s a a1 :
  get w c = Some a -> get (fst (try_link w c s)) c = Some a1 -> core_eq a1 a.
Proof.
  intros Eg. unfold try_link. rewrite Eg. destruct (get w s) as [asup|] eqn:Es.
  - destruct (_ || _); simpl; [rewrite Eg; intros E; injection E as <-; apply core_eq_refl|].
    destruct (a_kids asup) as [ks|]; simpl; [|rewrite Eg; intros E; injection E as <-; apply core_eq_refl].
    rewrite get_upd_same. destruct (Nat.eq_dec s c) as [->|Hne].
    + rewrite get_upd_same, Eg. simpl. intros E; injection E as <-. unfold core_eq; simpl; repeat split; reflexivity.
    + rewrite get_upd_other, Eg by assumption. simpl. intros E; injection E as <-.
      unfold core_eq; simpl; repeat split; reflexivity.
  - simpl. rewrite Eg. intros E; injection E as <-. apply core_eq_refl.
Qed.

Lemma nact_try_link w c s : nact (fst (try_link w c s)) = nact w.
Proof.
  unfold try_link. destruct (get w c); auto. destruct (get w s) as [b|]; auto.
  destruct (_ || _); auto. destruct (a_kids b); auto. simpl. now rewrite !nact_upd.
Qed.

Lemma tr_try_link w c s j : tr (fst (try_link w c s)) j = tr w j.
Proof. unfold tr. now rewrite trace_try_link. Qed.

Lemma inv_after_cb w i c f a s p :
  Inv None w -> get w i = Some a -> tr w i = Go s -> a_pc a = InCb c [] f p ->
  Inv None (after_cb (emit w (TExit i c f)) i c f).
Proof.
  intros H Eg Ht Epc.
  pose proof (H i) as Hi. unfold InvA in Hi. rewrite Eg, Ht in Hi. simpl in Hi.
  destruct Hi as (s0 & Es & HR). injection Es as <-.
  destruct (in_cb_facts a s c f p HR Epc) as (Hph & Hpk & -> & Hports & Harm & Hsig & Hstop & Hgr).
  destruct (inv_texit_transit w i c f a s false H Eg Ht Epc) as [HX HtX].
  set (wx := emit w (TExit i c f)) in *.
  assert (Egx : get wx i = Some a) by exact Eg.
  assert (Hsomex : get wx i <> None) by congruence.
  (* the three dying continuations *)
  assert (Dfin : forall e, Inv None (finish wx i e)) by (intros e; apply inv_finish; assumption).
  assert (Dfin5 : forall e, Inv None (finish (upd wx i (fun a => upd_status a 5)) i e)).
  { intros e. apply inv_finish.
    - apply inv_upd_silent; [apply silent_status|exact HX].
    - apply get_some_lt. rewrite nact_upd. apply get_some_lt. exact Hsomex. }
  (* the two continuations that stay alive inside the loop task *)
  assert (Alive : forall F ph,
            core_eq (upd_pc (F a) (a_pc a)) a -> after_phase c f = ph -> c <> PostStop ->
            (a_pc (F a) = Idle /\ ph = PRun) ->
            Inv None (upd wx i F)).
  { intros F ph Hce Eph Hnps [EpcF Ephr]. unfold wx. rewrite upd_emit, <- upd_emit.
    eapply inv_step_actor with (x := None); [apply about_exit|reflexivity| |congruence|exact H].
    intros a0 s0 E0 Ht0 HR0. rewrite Eg in E0; injection E0 as <-.
    rewrite Ht in Ht0; injection Ht0 as <-. cbn [tagb]. 
    rewrite (astep_exit i s c f Hph Hpk). eexists; split; [reflexivity|].
    destruct Hce as (_ & E2 & E3 & E4 & E5 & E6 & E7 & E8). simpl in E2, E3, E4, E5, E6, E7, E8.
    destruct HR as ((Hg & Hs & Hk & Hsk) & _ & _).
    unfold Rel, RelF, pc_rel, alive_rel. simpl. rewrite EpcF, E2, E3, E4, E5, E6, E7, E8, Eph, Ephr, Hports, Harm.
    split; [repeat split; auto|]. split; [reflexivity|].
    split; [intros; discriminate|]. split; [intros A; left; auto|]. split; [intros; discriminate|].
    intros A. left. apply Hstop; assumption. }
  unfold after_cb. rewrite Egx.
  destruct c as [| |m|e|]; destruct f as [|t|t]; auto.
  - (* pre_start returned Ok: link, mark running, hand over to the loop task *)
    set (lk := match (if c_local (a_cfg a) then None else c_link (a_cfg a)) with Some sp => try_link wx i sp | None => (wx, true) end).
    assert (HL : Inv (Some i) (fst lk) /\ tr (fst lk) i = Go (set_phase s PPreOk)
                 /\ nact (fst lk) = nact wx
                 /\ (forall a1, get (fst lk) i = Some a1 -> core_eq a1 a)).
    { unfold lk. destruct (if c_local (a_cfg a) then None else c_link (a_cfg a)) as [sp|]; simpl.
      - split; [apply inv_try_link; exact HX|]. split; [rewrite tr_try_link; exact HtX|].
        split; [apply nact_try_link|]. intros a1 E1. eapply try_link_core; eauto.
      - split; [exact HX|]. split; [exact HtX|]. split; [reflexivity|].
        intros a1 E1. rewrite Egx in E1. injection E1 as <-. apply core_eq_refl. }
    destruct lk as [w1 ok]. simpl in HL. destruct HL as (HL1 & HL2 & HL3 & HL4).
    destruct ok.
    + rewrite <- (upd_id (emit _ _) i).
      eapply inv_step_actor with (x := None); [apply about_spawnret|reflexivity| | |].
      * intros a1 s1 E1 Ht1 HR1. rewrite tr_upd, HL2 in Ht1. injection Ht1 as <-.
        cbn [tagb] in *. simpl. rewrite Nat.eqb_refl. eexists; split; [reflexivity|exact HR1].
      * rewrite get_upd_same. intros A. destruct (get w1 i) eqn:E1; [discriminate|].
        assert (i < nact w1) by (rewrite HL3; apply get_some_lt; exact Hsomex).
        apply get_some_lt in H0. congruence.
      * eapply inv_upd_actor with (x := Some i); [intros j Hj; apply tagb_some_none; exact Hj| |exact HL1].
        intros a1 s1 E1 Ht1 HR1. rewrite HL2 in Ht1. injection Ht1 as <-.
        cbn [tagb] in *. rewrite Nat.eqb_refl in HR1.
        destruct (HL4 a1 E1) as (C1 & C2 & C3 & C4 & C5 & C6 & C7 & C8).
        destruct HR1 as ((Hg & Hs & Hk & Hsk) & _ & _). simpl in Hg, Hs, Hk.
        rewrite C5, C8 in Hg. rewrite C6 in Hs. rewrite C4 in Hk. rewrite C5, C6 in Hsk.
        unfold Rel, RelF, pc_rel, alive_rel. simpl. rewrite C2, C3, C4, C5, C6, C7, C8, Hports, Harm.
        split; [repeat split; auto|]. split; [reflexivity|].
        split; [intros; discriminate|]. split; [intros A; left; auto|]. split; [intros; discriminate|].
        intros A. left. apply Hstop; [discriminate|assumption].
    + eapply inv_start_failed; [exact HL1| |exact HL2|simpl; tauto].
      apply get_some_lt. rewrite HL3. apply get_some_lt. exact Hsomex.
  - eapply inv_start_failed; [exact HX|exact Hsomex|exact HtX|simpl; tauto].
  - eapply inv_start_failed; [exact HX|exact Hsomex|exact HtX|simpl; tauto].
  - (* post_start returned Ok *)
    apply inv_notify.
    apply (Alive (fun a => upd_pc (upd_status a 2) Idle) PRun);
      [unfold core_eq; simpl; repeat split; auto|reflexivity|discriminate|split; reflexivity].
  - apply (Alive (fun a => upd_pc a Idle) PRun);
      [unfold core_eq; simpl; repeat split; auto|reflexivity|discriminate|split; reflexivity].
  - apply (Alive (fun a => upd_pc a Idle) PRun);
      [unfold core_eq; simpl; repeat split; auto|reflexivity|discriminate|split; reflexivity].
Qed.

(* ------------------------------------------------------------------ *)
(* one segment of a poll                                                *)

Lemma RelX_of_Rel_same a s :
  Rel a s -> (a_pc a = NotStarted \/ a_pc a = Spawned \/ a_pc a = Idle) -> RelX a s.
Proof.
  intros ((Hg & Hs & Hk & Hsk) & Hpc & (Hp & Hst & Harm & Hstop)) Hq.
  unfold RelX, RelF. split; [repeat split; auto|]. unfold pc_rel in Hpc.
  split; [|split].
  - destruct Hq as [E|[E|E]]; rewrite E in Hpc; unfold exit_ready; [destruct Hpc|..]; tauto.
  - destruct Hq as [E|[E|E]]; rewrite E; discriminate.
  - destruct (a_armed a) eqn:Ea; auto. specialize (Harm eq_refl).
    destruct Hq as [E|[E|E]]; congruence.
Qed.

Lemma inv_retag_transit w i a s :
  Inv None w -> get w i = Some a -> tr w i = Go s ->
  (a_pc a = NotStarted \/ a_pc a = Spawned \/ a_pc a = Idle) ->
  Inv (Some i) w.
Proof.
  intros H Eg Ht Hq. rewrite <- (upd_id w i).
  eapply inv_upd_actor with (x := None); [intros j Hj; apply tagb_none_some; exact Hj| |exact H].
  intros a0 s0 E0 Ht0 HR0. rewrite Eg in E0; injection E0 as <-. cbn [tagb] in *.
  rewrite Nat.eqb_refl. apply RelX_of_Rel_same; assumption.
Qed.

(* a parked callback is only ever resumed while no signal is pending *)
Definition pre_seg (w : world) (i : nat) : Prop :=
  forall a c r f, get w i = Some a -> a_pc a = InCb c r f true -> a_sig a = false.

Lemma about_tick k : about_only k (TTick k).
Proof. intros i s H. simpl. destruct (Nat.eqb_spec i k); [contradiction|reflexivity]. Qed.
Lemma about_park k g : about_only k (TPark k g).
Proof. intros i s H. simpl. destruct (Nat.eqb_spec i k); [contradiction|reflexivity]. Qed.
Lemma about_wake k g : about_only k (TWake k g).
Proof. intros i s H. simpl. destruct (Nat.eqb_spec i k); [contradiction|reflexivity]. Qed.
Lemma about_cancel k c : about_only k (TCancel k c).
Proof. intros i s H. simpl. destruct (Nat.eqb_spec i k); [contradiction|reflexivity]. Qed.
Lemma about_aborted k : about_only k (TAborted k).
Proof. intros i s H. simpl. destruct (Nat.eqb_spec i k); [contradiction|reflexivity]. Qed.

Lemma ph_of_cb c : ph_of c = PPre \/ ph_of c = PPs \/ ph_of c = PPost \/ ph_of c = PH c.
Proof. destruct c; simpl; tauto. Qed.

Lemma inv_do_eff w e : (forall g, e <> EGate g) -> e <> ETick -> Inv None w -> Inv None (do_eff w e).
Proof.
  intros Hg Ht H. destruct e; simpl; auto using inv_req_send, inv_req_stop, inv_req_kill, inv_req_drain.
Qed.

(* moving on inside a running callback: pc InCb c (e :: r) f p  ->  InCb c r f false *)
Lemma Rel_advance a s c e r f :
  Rel a s -> a_pc a = InCb c (e :: r) f false ->
  Rel (upd_pc a (InCb c r f false)) s.
Proof.
  intros (HF & Hpc & (Hp & Hst & Harm & Hstop)) E. unfold Rel, pc_rel, alive_rel in *. rewrite E in *.
  simpl. split; [exact HF|]. destruct Hpc as (A & B & C & D).
  split; [repeat split; auto; intros; discriminate|].
  repeat split; auto.
  - intros X. specialize (Hp X). discriminate.
  - intros X. destruct (Hst X); [left; assumption|discriminate].
  - intros X. specialize (Harm X). discriminate.
  - intros X. destruct (Hstop X) as [Y|[Y|(r0 & f0 & p0 & Y)]]; [left; assumption|discriminate|].
    right; right. injection Y as -> _ _ _. eauto.
Qed.

(* ------------------------------------------------------------------ *)
(* only the TPark branch of seg ever parks an actor                     *)

Definition is_parked (a : actor) : bool :=
  match a_pc a with InCb _ _ _ true => true | _ => false end.

Definition nopark (f : actor -> actor) : Prop := forall a, is_parked (f a) = true -> is_parked a = true.

Definition nnp (w w' : world) : Prop :=
  forall j a', get w' j = Some a' -> is_parked a' = true ->
               exists a, get w j = Some a /\ is_parked a = true.

Lemma nnp_refl w : nnp w w.
Proof. intros j a' E P. eauto. Qed.
Lemma nnp_trans w1 w2 w3 : nnp w1 w2 -> nnp w2 w3 -> nnp w1 w3.
Proof. intros A B j a3 E P. destruct (B j a3 E P) as (a2 & E2 & P2). eauto. Qed.
Lemma nnp_upd w k f : nopark f -> nnp w (upd w k f).
Proof.
  intros Hf j a' E P. destruct (Nat.eq_dec k j) as [->|Hne].
  - rewrite get_upd_same in E. destruct (get w j) as [a|]; simpl in E; [|discriminate].
    injection E as <-. eauto.
  - rewrite get_upd_other in E by assumption. eauto.
Qed.
Lemma nnp_emit w e : nnp w (emit w e).
Proof. intros j a' E P. eauto. Qed.

Ltac nopark_tac := let z := fresh "z" in intros z; unfold is_parked; simpl; auto; try (intros; discriminate).

Lemma nnp_do_kill w i : nnp w (do_kill w i).
Proof.
  unfold do_kill. destruct (get w i); [|apply nnp_refl]. destruct (_ || _); [apply nnp_refl|].
  apply nnp_upd. nopark_tac.
Qed.
Lemma nnp_do_stop w i r : nnp w (do_stop w i r).
Proof.
  unfold do_stop. destruct (get w i); [|apply nnp_refl]. destruct (_ || _); [apply nnp_refl|].
  apply nnp_upd. nopark_tac.
Qed.
Lemma nnp_do_send w i m : nnp w (do_send w i m).
Proof.
  unfold do_send. destruct (get w i); [|apply nnp_refl]. destruct (can_send _).
  - eapply nnp_trans; [|apply nnp_emit]. apply nnp_upd. nopark_tac.
  - apply nnp_emit.
Qed.
Lemma nnp_do_drain w i : nnp w (do_drain w i).
Proof.
  unfold do_drain. destruct (get w i) as [a|]; [|apply nnp_refl]. destruct (negb _); [apply nnp_refl|].
  apply nnp_upd. intros a0. unfold is_parked.
  destruct (Nat.ltb (a_status a0) 5); simpl;
    (destruct (a_marker a0); simpl; [|destruct (a_ports a0); simpl]); auto.
Qed.
Lemma nnp_fold {A} (l : list A) (g : world -> A -> world) w :
  (forall w c, nnp w (g w c)) -> nnp w (fold_left g l w).
Proof.
  intros Hg. revert w. induction l as [|c t IH]; simpl; intros w; [apply nnp_refl|].
  eapply nnp_trans; [apply Hg|apply IH].
Qed.
Lemma nnp_take_children w p : nnp w (fst (take_children w p)).
Proof.
  unfold take_children. destruct (get w p) as [ap|]; [|apply nnp_refl].
  destruct (a_kids ap); [|apply nnp_refl]. simpl.
  apply nnp_trans with (upd w p (fun a => upd_kids a None)); [apply nnp_upd; nopark_tac|]. apply nnp_fold.
  intros w0 c. apply nnp_upd. intros a. unfold is_parked.
  destruct (a_sup a) as [q|]; auto. destruct (Nat.eqb q p); auto.
Qed.
Lemma nnp_terminate_fuel fuel pending w : nnp w (terminate_fuel fuel pending w).
Proof.
  revert pending w. induction fuel as [|k IH]; intros pending w; simpl; [apply nnp_refl|].
  destruct pending as [|y rest]; [apply nnp_refl|].
  set (w1 := match get w y with
             | Some ax => if Nat.ltb (a_status ax) 5 then do_kill w y else w
             | None => w end).
  assert (E1 : nnp w w1).
  { unfold w1. destruct (get w y) as [ax|]; [|apply nnp_refl].
    destruct (Nat.ltb _ 5); [apply nnp_do_kill|apply nnp_refl]. }
  pose proof (nnp_take_children w1 y) as E2.
  destruct (take_children w1 y) as [w2 ks]. simpl in E2.
  eapply nnp_trans; [exact E1|]. eapply nnp_trans; [exact E2|apply IH].
Qed.
Lemma nnp_notify w i e : nnp w (notify_supervisor w i e).
Proof.
  unfold notify_supervisor. destruct (get w i) as [a|]; [|apply nnp_refl].
  destruct (a_sup a) as [s|]; [|apply nnp_refl]. destruct (get w s) as [b|]; [|apply nnp_refl].
  destruct (a_ports b); [|apply nnp_refl]. apply nnp_upd. nopark_tac.
Qed.
Lemma nnp_unlink w i : nnp w (unlink_from_supervisor w i).
Proof.
  unfold unlink_from_supervisor. destruct (get w i) as [a|]; [|apply nnp_refl].
  destruct (a_sup a); [|apply nnp_refl].
  eapply nnp_trans; [|apply nnp_upd; nopark_tac].
  apply nnp_upd. intros x. unfold is_parked. destruct (a_kids x); auto.
Qed.
Lemma nnp_cleanup w i e : nnp w (cleanup w i e).
Proof.
  unfold cleanup. destruct (get w i) as [a|]; [|apply nnp_refl]. destruct (negb _); [apply nnp_refl|].
  eapply nnp_trans; [|apply nnp_upd; nopark_tac].
  eapply nnp_trans; [|apply nnp_unlink].
  assert (E : nnp w (terminate (upd w i (fun a0 => upd_status a0 5)) i)).
  { eapply nnp_trans; [|apply nnp_terminate_fuel]. apply nnp_upd; nopark_tac. }
  destruct e; [eapply nnp_trans; [exact E|apply nnp_notify]|exact E].
Qed.
Lemma nnp_finish w i e : nnp w (finish w i e).
Proof. unfold finish. eapply nnp_trans; [|apply nnp_emit]. apply nnp_cleanup. Qed.
Lemma nnp_start_failed w i : nnp w (start_failed w i).
Proof. unfold start_failed. eapply nnp_trans; [|apply nnp_emit]. apply nnp_cleanup. Qed.
Lemma nnp_killed_exit w i c : nnp w (killed_exit w i c).
Proof.
  unfold killed_exit.
  assert (E : nnp w (terminate w i)) by apply nnp_terminate_fuel.
  destruct c as [[| | | |]|];
    try (eapply nnp_trans; [exact E|]; auto using nnp_start_failed, nnp_finish);
    (eapply nnp_trans; [|apply nnp_finish]; apply nnp_upd; nopark_tac).
Qed.
Lemma nnp_try_link w c s : nnp w (fst (try_link w c s)).
Proof.
  unfold try_link. destruct (get w c); [|apply nnp_refl]. destruct (get w s) as [b|]; [|apply nnp_refl].
  destruct (_ || _); [apply nnp_refl|]. destruct (a_kids b); [|apply nnp_refl]. simpl.
  eapply nnp_trans; [|apply nnp_upd; nopark_tac]. apply nnp_upd; nopark_tac.
Qed.
Lemma nnp_enter w i c : nnp w (enter w i c).
Proof.
  unfold enter. destruct (get w i) as [a|]; [|apply nnp_refl]. destruct (script_of w a c) as [es f].
  eapply nnp_trans; [|apply nnp_upd; nopark_tac]. apply nnp_emit.
Qed.
Lemma nnp_start_cb w i c : nnp w (start_cb w i c).
Proof.
  unfold start_cb. destruct (get w i) as [a|]; [|apply nnp_refl]. destruct (a_sig a).
  - eapply nnp_trans; [|apply nnp_killed_exit]. apply nnp_upd; nopark_tac.
  - apply nnp_enter.
Qed.
Lemma nnp_graceful_exit w i r : nnp w (graceful_exit w i r).
Proof. unfold graceful_exit. eapply nnp_trans; [|apply nnp_start_cb]. apply nnp_upd; nopark_tac. Qed.
Lemma nnp_after_cb w i c f : nnp w (after_cb w i c f).
Proof.
  unfold after_cb. destruct (get w i) as [a|]; [|apply nnp_refl].
  assert (F5 : forall e, nnp w (finish (upd w i (fun a0 => upd_status a0 5)) i e)).
  { intros e. eapply nnp_trans; [|apply nnp_finish]. apply nnp_upd; nopark_tac. }
  assert (Idl : nnp w (upd w i (fun a0 => upd_pc a0 Idle))).
  { apply nnp_upd. nopark_tac. }
  destruct c; destruct f; auto using nnp_start_failed, nnp_finish.
  - destruct (if c_local (a_cfg a) then None else c_link (a_cfg a)) as [sp|].
    + pose proof (nnp_try_link w i sp) as E. destruct (try_link w i sp) as [w1 ok]. simpl in E.
      eapply nnp_trans; [exact E|]. destruct ok; [|apply nnp_start_failed].
      eapply nnp_trans; [|apply nnp_emit]. apply nnp_upd; nopark_tac.
    + eapply nnp_trans; [|apply nnp_emit]. apply nnp_upd; nopark_tac.
  - eapply nnp_trans; [|apply nnp_notify]. apply nnp_upd; nopark_tac.
Qed.
Lemma nnp_do_eff w e : nnp w (do_eff w e).
Proof.
  destruct e; simpl; try apply nnp_refl.
  - unfold req_send. destruct (is_created w a); [apply nnp_do_send|apply nnp_refl].
  - unfold req_stop. destruct (is_created w a); [|apply nnp_refl].
    eapply nnp_trans; [|apply nnp_do_stop]. apply nnp_emit.
  - unfold req_kill. destruct (is_created w a); [|apply nnp_refl].
    eapply nnp_trans; [|apply nnp_do_kill]. apply nnp_emit.
  - unfold req_drain. destruct (is_created w a); [|apply nnp_refl].
    eapply nnp_trans; [|apply nnp_do_drain]. apply nnp_emit.
Qed.

(* if actor i is not parked and the step is nnp, it is not parked afterwards *)
Lemma not_parked_after w w' i :
  nnp w w' -> (forall a, get w i = Some a -> is_parked a = false) ->
  forall a', get w' i = Some a' -> is_parked a' = false.
Proof.
  intros Hn Hw a' E. destruct (is_parked a') eqn:P; auto.
  destruct (Hn i a' E P) as (a & Ea & Pa). rewrite (Hw a Ea) in Pa. discriminate.
Qed.

Definition unparked (w : world) (i : nat) : Prop :=
  forall a, get w i = Some a -> is_parked a = false.

Lemma unparked_pre w i : unparked w i -> pre_seg w i.
Proof.
  intros H a c r f E Epc. specialize (H a E). unfold is_parked in H. rewrite Epc in H. discriminate.
Qed.

Lemma inv_seg w i w' go :
  Inv None w -> pre_seg w i -> seg w i = (w', go) ->
  Inv None w' /\ (go = true -> unparked w' i).
Proof.
  intros H Hpre Hseg. unfold seg in Hseg.
  destruct (get w i) as [a|] eqn:Eg; [|injection Hseg as <- <-; split; [exact H|discriminate]].
  pose proof (H i) as Hi. unfold InvA in Hi. rewrite Eg in Hi. simpl in Hi.
  destruct Hi as (s & Ht & HR).
  assert (Hnp : forall wz, nnp w wz -> is_parked a = false -> unparked wz i).
  { intros wz Hn Hp. unfold unparked. apply (not_parked_after w wz i Hn). intros a0 E0. congruence. }
  destruct (a_pc a) as [| | |c rest f parked| |] eqn:Epc.
  - injection Hseg as <- <-. split; [exact H|discriminate].
  - (* first poll of start() *)
    assert (Hp0 : is_parked a = false) by (unfold is_parked; rewrite Epc; reflexivity).
    destruct (negb (Nat.eqb (a_status a) 0)).
    + injection Hseg as <- <-. split; [|discriminate].
      eapply inv_start_failed with (s := s); [eapply inv_retag_transit; eauto|congruence|exact Ht|].
      destruct HR as (_ & Hpc & _). unfold pc_rel in Hpc. rewrite Epc in Hpc. tauto.
    + (* status Starting; a thread-local start() links now, then pre_start *)
      set (w0 := upd w i (fun a => upd_status a 1)) in *.
      assert (H0 : Inv None w0) by (apply inv_upd_silent; [apply silent_status|exact H]).
      assert (Eg0 : get w0 i = Some (upd_status a 1)) by (unfold w0; rewrite get_upd_same, Eg; reflexivity).
      assert (Ht0 : tr w0 i = Go s) by (unfold w0; rewrite tr_upd; exact Ht).
      assert (Hn0 : nnp w w0) by (apply nnp_upd; nopark_tac).
      set (lk := match (if c_local (a_cfg a) then c_link (a_cfg a) else None) with
                 | Some sp => try_link w0 i sp | None => (w0, true) end) in *.
      assert (HL : Inv None (fst lk) /\ tr (fst lk) i = Go s /\ nnp w (fst lk)
                   /\ exists a1, get (fst lk) i = Some a1 /\ core_eq a1 (upd_status a 1)).
      { unfold lk. destruct (if c_local (a_cfg a) then c_link (a_cfg a) else None) as [sp|]; simpl.
        - split; [apply inv_try_link; exact H0|]. split; [rewrite tr_try_link; exact Ht0|].
          split; [eapply nnp_trans; [exact Hn0|apply nnp_try_link]|].
          destruct (get (fst (try_link w0 i sp)) i) as [a1|] eqn:E1.
          + exists a1. split; [reflexivity|]. eapply try_link_core; eauto.
          + exfalso. assert (i < nact (fst (try_link w0 i sp))).
            { rewrite nact_try_link. apply get_some_lt. congruence. }
            apply get_some_lt in H1. congruence.
        - split; [exact H0|]. split; [exact Ht0|]. split; [exact Hn0|].
          exists (upd_status a 1). split; [exact Eg0|apply core_eq_refl]. }
      destruct lk as [w1 ok]. simpl in HL. destruct HL as (HL1 & HL2 & HL3 & a1 & HL4 & HL5).
      destruct HL5 as (C1 & C2 & C3 & C4 & C5 & C6 & C7 & C8). simpl in C1.
      destruct ok; injection Hseg as <- <-.
      * split.
        -- rewrite <- (upd_id w1 i).
           eapply inv_start_cb with (a := a1) (s := s) (F := fun a => a); eauto.
           ++ unfold core_same; repeat split; auto.
           ++ rewrite C1, Epc. exact I.
           ++ discriminate.
           ++ discriminate.
        -- intros _. apply Hnp; [|exact Hp0].
           eapply nnp_trans; [exact HL3|apply nnp_start_cb].
      * split; [|discriminate].
        eapply inv_start_failed with (s := s); [eapply inv_retag_transit; eauto|congruence|exact HL2|].
        -- rewrite C1, Epc. auto.
        -- destruct HR as (_ & Hpc & _). unfold pc_rel in Hpc. rewrite Epc in Hpc. tauto.
  - (* first poll of the loop task *)
    assert (Hp0 : is_parked a = false) by (unfold is_parked; rewrite Epc; reflexivity).
    injection Hseg as <- <-. split.
    + rewrite <- (upd_id w i).
      eapply inv_start_cb with (a := a) (s := s) (F := fun a => a); eauto.
      * unfold core_same; repeat split; auto.
      * rewrite Epc. exact I.
      * discriminate.
      * discriminate.
    + intros _. apply Hnp; [apply nnp_start_cb|exact Hp0].
  - (* inside a callback *)
    destruct rest as [|e r].
    + (* the callback returns *)
      assert (Hp0 : is_parked a = false).
      { unfold is_parked. rewrite Epc. destruct parked; auto.
        destruct HR as (_ & Hpc & _). unfold pc_rel in Hpc. rewrite Epc in Hpc.
        destruct Hpc as (_ & _ & Hg & _). destruct (Hg eq_refl) as (g & r & A). discriminate. }
      injection Hseg as <- <-. split.
      * eapply inv_after_cb; eauto.
      * intros _. apply Hnp; [|exact Hp0]. eapply nnp_trans; [apply nnp_emit|apply nnp_after_cb].
    + destruct HR as ((Hg & Hs & Hk & Hsk) & Hpc & (Hp & Hst & Harm & Hstop)).
      pose proof Hpc as Hpc'. unfold pc_rel in Hpc'. rewrite Epc in Hpc'.
      destruct Hpc' as (Hph & Hpk & Hgate & Hgr).
      assert (Hcbphase : s_phase s = PPre \/ s_phase s = PPs \/ s_phase s = PPost \/ s_phase s = PH c).
      { rewrite Hph. apply ph_of_cb. }
      destruct e as [g| |b m|b r0|b|b].
      * (* a gate *)
        destruct (is_open w g).
        -- destruct parked.
           ++ (* wake up: the signal is not pending, hence kill() has not returned *)
              injection Hseg as <- <-.
              assert (Hsig : a_sig a = false) by (eapply Hpre; eauto).
              assert (Hnk : s_killed s = false).
              { destruct (s_killed s) eqn:Ek; auto. specialize (Hk eq_refl).
                destruct (Hst Hk); congruence. }
              split.
              ** eapply inv_step_actor with (x := None); [apply about_wake|reflexivity| |congruence|exact H].
                 intros a0 s0 E0 Ht0 HR0. rewrite Eg in E0; injection E0 as <-.
                 rewrite Ht in Ht0; injection Ht0 as <-. cbn [tagb].
                 simpl. rewrite Nat.eqb_refl, Hnk. simpl.
                 assert (Ego : forall ph, s_phase s = ph -> (ph = PPre \/ ph = PPs \/ ph = PPost \/ ph = PH c) ->
                           exists s', match ph with PPre | PPs | PH _ | PPost => Go (set_phase s ph) | _ => Bad 13 end = Go s'
                                      /\ Rel (upd_pc a (InCb c r f false)) s').
                 { intros ph Eph Hc4. exists (set_phase s ph).
                   split; [destruct Hc4 as [ -> | [ -> | [ -> | -> ] ] ]; reflexivity|].
                   unfold Rel, RelF, pc_rel, alive_rel. simpl. rewrite Epc in *.
                   split; [repeat split; auto|].
                   split; [repeat split; auto; [congruence|intros; discriminate]|].
                   repeat split; auto.
                   - intros X. specialize (Hp X). discriminate.
                   - intros X. destruct (Hst X); [left; assumption|discriminate].
                   - intros X. specialize (Harm X). discriminate.
                   - intros X. destruct (Hstop X) as [Y|[Y|(r1 & f1 & p1 & Y)]]; [left; assumption|discriminate|].
                     right; right. injection Y as -> _ _ _. eauto. }
                 destruct (Ego (s_phase s) eq_refl Hcbphase) as (s' & E1 & E2).
                 exists s'. split; [|exact E2].
                 destruct (s_phase s); try exact E1.
              ** intros _ a' E'. rewrite get_upd_same, get_emit, Eg in E'. simpl in E'.
                 injection E' as <-. reflexivity.
           ++ injection Hseg as <- <-. split.
              ** apply inv_upd_at; [|exact H]. intros a0 s0 E0. rewrite Eg in E0; injection E0 as <-.
                 split.
                 --- intros HR0. eapply Rel_advance; eauto.
                 --- intros HX. destruct HX as (A & B & C & D). repeat split; auto; try apply A.
                     simpl. discriminate.
              ** intros _ a' E'. rewrite get_upd_same, Eg in E'. simpl in E'. injection E' as <-. reflexivity.
        -- destruct parked.
           ++ injection Hseg as <- <-. split; [exact H|discriminate].
           ++ injection Hseg as <- <-. split; [|discriminate].
              eapply inv_step_actor with (x := None); [apply about_park|reflexivity| |congruence|exact H].
              intros a0 s0 E0 Ht0 HR0. rewrite Eg in E0; injection E0 as <-.
              rewrite Ht in Ht0; injection Ht0 as <-. cbn [tagb]. simpl. rewrite Nat.eqb_refl.
              assert (Ego : exists s', match s_phase s with PPre | PPs | PH _ | PPost =>
                                 Go (mkAst (s_phase s) (s_grace s) (s_stopreq s) (s_killed s) true) | _ => Bad 13 end = Go s'
                            /\ Rel (upd_pc a (InCb c (EGate g :: r) f true)) s').
              { exists (mkAst (s_phase s) (s_grace s) (s_stopreq s) (s_killed s) true).
                split; [destruct Hcbphase as [ -> | [ -> | [ -> | -> ] ] ]; reflexivity|].
                unfold Rel, RelF, pc_rel, alive_rel. simpl. rewrite Epc in *.
                split; [repeat split; auto|].
                split; [repeat split; eauto|].
                repeat split; auto.
                - intros X. specialize (Hp X). discriminate.
                - intros X. destruct (Hst X); [left; assumption|discriminate].
                - intros X. specialize (Harm X). discriminate.
                - intros X. destruct (Hstop X) as [Y|[Y|(r1 & f1 & p1 & Y)]]; [left; assumption|discriminate|].
                  right; right. injection Y as -> _ _ _. eauto. }
              exact Ego.
      * (* a tick *)
        destruct parked; [destruct (Hgate eq_refl) as (g & r1 & A); discriminate|].
        injection Hseg as <- <-. split.
        -- eapply inv_step_actor with (x := None); [apply about_tick|reflexivity| |congruence|exact H].
           intros a0 s0 E0 Ht0 HR0. rewrite Eg in E0; injection E0 as <-.
           rewrite Ht in Ht0; injection Ht0 as <-. cbn [tagb]. simpl. rewrite Nat.eqb_refl, Hpk, andb_false_r.
           assert (Ego : exists s', match s_phase s with PPre | PPs | PH _ | PPost => Go (set_phase s (s_phase s)) | _ => Bad 13 end = Go s'
                         /\ Rel (upd_pc a (InCb c r f false)) s').
           { exists (set_phase s (s_phase s)).
             split; [destruct Hcbphase as [ -> | [ -> | [ -> | -> ] ] ]; reflexivity|].
             unfold Rel, RelF, pc_rel, alive_rel. simpl. rewrite Epc in *.
             split; [repeat split; auto|].
             split; [repeat split; auto; intros; discriminate|].
             repeat split; auto.
             - intros X. specialize (Hp X). discriminate.
             - intros X. destruct (Hst X); [left; assumption|discriminate].
             - intros X. specialize (Harm X). discriminate.
             - intros X. destruct (Hstop X) as [Y|[Y|(r1 & f1 & p1 & Y)]]; [left; assumption|discriminate|].
               right; right. injection Y as -> _ _ _. eauto. }
           exact Ego.
        -- intros _ a' E'. rewrite get_upd_same, get_emit, Eg in E'. simpl in E'. injection E' as <-. reflexivity.
      * (* EFF *)
        destruct parked; [destruct (Hgate eq_refl) as (g & r1 & A); discriminate|].
        injection Hseg as <- <-.
        assert (Hadv : Inv None (upd w i (fun a0 => upd_pc a0 (InCb c r f false)))).
        { apply inv_upd_at; [|exact H]. intros a0 s0 E0. rewrite Eg in E0; injection E0 as <-. split.
          - intros HR0. eapply Rel_advance; eauto.
          - intros HX. destruct HX as (A & B & C & D). repeat split; auto; try apply A. simpl. discriminate. }
        split.
        -- simpl; first [apply inv_req_send|apply inv_req_stop|apply inv_req_kill|apply inv_req_drain]; exact Hadv.
        -- intros _. apply Hnp; [|unfold is_parked; rewrite Epc; reflexivity].
           apply nnp_trans with (upd w i (fun a0 => upd_pc a0 (InCb c r f false))); [apply nnp_upd; nopark_tac|].
           apply (nnp_do_eff _ (ESend b m)).
      * (* EFF *)
        destruct parked; [destruct (Hgate eq_refl) as (g & r1 & A); discriminate|].
        injection Hseg as <- <-.
        assert (Hadv : Inv None (upd w i (fun a0 => upd_pc a0 (InCb c r f false)))).
        { apply inv_upd_at; [|exact H]. intros a0 s0 E0. rewrite Eg in E0; injection E0 as <-. split.
          - intros HR0. eapply Rel_advance; eauto.
          - intros HX. destruct HX as (A & B & C & D). repeat split; auto; try apply A. simpl. discriminate. }
        split.
        -- simpl; first [apply inv_req_send|apply inv_req_stop|apply inv_req_kill|apply inv_req_drain]; exact Hadv.
        -- intros _. apply Hnp; [|unfold is_parked; rewrite Epc; reflexivity].
           apply nnp_trans with (upd w i (fun a0 => upd_pc a0 (InCb c r f false))); [apply nnp_upd; nopark_tac|].
           apply (nnp_do_eff _ (EStop b r0)).
      * (* EFF *)
        destruct parked; [destruct (Hgate eq_refl) as (g & r1 & A); discriminate|].
        injection Hseg as <- <-.
        assert (Hadv : Inv None (upd w i (fun a0 => upd_pc a0 (InCb c r f false)))).
        { apply inv_upd_at; [|exact H]. intros a0 s0 E0. rewrite Eg in E0; injection E0 as <-. split.
          - intros HR0. eapply Rel_advance; eauto.
          - intros HX. destruct HX as (A & B & C & D). repeat split; auto; try apply A. simpl. discriminate. }
        split.
        -- simpl; first [apply inv_req_send|apply inv_req_stop|apply inv_req_kill|apply inv_req_drain]; exact Hadv.
        -- intros _. apply Hnp; [|unfold is_parked; rewrite Epc; reflexivity].
           apply nnp_trans with (upd w i (fun a0 => upd_pc a0 (InCb c r f false))); [apply nnp_upd; nopark_tac|].
           apply (nnp_do_eff _ (EKill b)).
      * (* EFF *)
        destruct parked; [destruct (Hgate eq_refl) as (g & r1 & A); discriminate|].
        injection Hseg as <- <-.
        assert (Hadv : Inv None (upd w i (fun a0 => upd_pc a0 (InCb c r f false)))).
        { apply inv_upd_at; [|exact H]. intros a0 s0 E0. rewrite Eg in E0; injection E0 as <-. split.
          - intros HR0. eapply Rel_advance; eauto.
          - intros HX. destruct HX as (A & B & C & D). repeat split; auto; try apply A. simpl. discriminate. }
        split.
        -- simpl; first [apply inv_req_send|apply inv_req_stop|apply inv_req_kill|apply inv_req_drain]; exact Hadv.
        -- intros _. apply Hnp; [|unfold is_parked; rewrite Epc; reflexivity].
           apply nnp_trans with (upd w i (fun a0 => upd_pc a0 (InCb c r f false))); [apply nnp_upd; nopark_tac|].
           apply (nnp_do_eff _ (EDrain b)).
  - (* idle: the biased pick *)
    assert (Hp0 : is_parked a = false) by (unfold is_parked; rewrite Epc; reflexivity).
    destruct HR as ((Hg & Hs & Hk & Hsk) & Hpc & Hal).
    assert (HRel : Rel a s) by (split; [repeat split; auto|split; assumption]).
    destruct (a_sig a) eqn:Esig.
    + injection Hseg as <- <-. split; [|discriminate].
      change (Inv None (killed_exit (upd w i (fun a0 => upd_sig a0 false true)) i None)).
      eapply inv_killed_exit with (s := s).
      * eapply inv_upd_actor with (x := None); [intros j Hj; apply tagb_none_some; exact Hj| |exact H].
        intros a0 s0 E0 Ht0 HR0. rewrite Eg in E0; injection E0 as <-.
        rewrite Ht in Ht0; injection Ht0 as <-. cbn [tagb]. rewrite Nat.eqb_refl.
        apply (RelX_of_Rel_quiet a a s); auto.
        unfold core_same; repeat split; auto.
      * apply get_some_lt. rewrite nact_upd. apply get_some_lt. congruence.
      * rewrite tr_upd. exact Ht.
      * discriminate.
    + destruct (a_stop a) as [r0|] eqn:Estop.
      * injection Hseg as <- <-. split.
        -- unfold graceful_exit. rewrite upd_upd.
           eapply inv_start_cb with (a := a) (s := s);
             [exact H|exact Eg|exact Ht|(unfold core_same; simpl; repeat split; auto; try (symmetry; apply Hsk; try rewrite Estop; discriminate); try (intros X; contradiction); try (try rewrite Emsg; unfold has_marker; simpl; tauto); try (try rewrite Estop; auto))|rewrite Epc; exact I|discriminate| |intros X; contradiction].
           intros _. apply Hg. left. try rewrite Estop. discriminate.
        -- intros _. apply Hnp; [|exact Hp0].
           eapply nnp_trans; [|apply nnp_graceful_exit]. apply nnp_upd; nopark_tac.
      * destruct (a_supq a) as [|e t] eqn:Esup.
        -- destruct (a_msgq a) as [|[m|] t] eqn:Emsg.
           ++ injection Hseg as <- <-. split; [exact H|discriminate].
           ++ injection Hseg as <- <-. split.
              ** eapply inv_start_cb with (a := a) (s := s);
                   [exact H|exact Eg|exact Ht|(unfold core_same; simpl; repeat split; auto; try (symmetry; apply Hsk; try rewrite Estop; discriminate); try (intros X; contradiction); try (try rewrite Emsg; unfold has_marker; simpl; tauto); try (try rewrite Estop; auto))|rewrite Epc; exact I|intros _; simpl; try rewrite Estop; reflexivity
                   |discriminate|intros _; simpl; try rewrite Estop; reflexivity].
              ** intros _. apply Hnp; [|exact Hp0].
                 eapply nnp_trans; [|apply nnp_start_cb]. apply nnp_upd; nopark_tac.
           ++ injection Hseg as <- <-. split.
              ** unfold graceful_exit. rewrite upd_upd.
                 eapply inv_start_cb with (a := a) (s := s);
                   [exact H|exact Eg|exact Ht|(unfold core_same; simpl; repeat split; auto; try (symmetry; apply Hsk; try rewrite Estop; discriminate); try (intros X; contradiction); try (try rewrite Emsg; unfold has_marker; simpl; tauto); try (try rewrite Estop; auto))|rewrite Epc; exact I|discriminate| |intros X; contradiction].
                 intros _. apply Hg. right. try rewrite Emsg. left. reflexivity.
              ** intros _. apply Hnp; [|exact Hp0].
                 eapply nnp_trans; [|apply nnp_graceful_exit]. apply nnp_upd; nopark_tac.
        -- injection Hseg as <- <-. split.
           ++ eapply inv_start_cb with (a := a) (s := s);
                [exact H|exact Eg|exact Ht|(unfold core_same; simpl; repeat split; auto; try (symmetry; apply Hsk; try rewrite Estop; discriminate); try (intros X; contradiction); try (try rewrite Emsg; unfold has_marker; simpl; tauto); try (try rewrite Estop; auto))|rewrite Epc; exact I|intros _; simpl; try rewrite Estop; reflexivity
                |discriminate|intros _; simpl; try rewrite Estop; reflexivity].
           ++ intros _. apply Hnp; [|exact Hp0].
              eapply nnp_trans; [|apply nnp_start_cb]. apply nnp_upd; nopark_tac.
  - injection Hseg as <- <-. split; [exact H|discriminate].
Qed.

(* ------------------------------------------------------------------ *)
(* a whole poll, an abort, a label, a schedule                          *)

Lemma inv_segs fuel w i : Inv None w -> pre_seg w i -> Inv None (segs fuel w i).
Proof.
  revert w. induction fuel as [|k IH]; intros w H Hpre; simpl; [exact H|].
  destruct (seg w i) as [w' go] eqn:E.
  destruct (inv_seg w i w' go H Hpre E) as [H' Hgo].
  destruct go; [|exact H']. apply IH; [exact H'|]. apply unparked_pre. apply Hgo. reflexivity.
Qed.

Lemma astep_cancel i s c :
  s_phase s = ph_of c -> astep i s (TCancel i c) = Go (set_phase s PEnd).
Proof.
  intros Hp. simpl. rewrite Nat.eqb_refl, Hp.
  destruct c; simpl; rewrite ?Nat.eqb_refl, ?supevt_eqb_refl; reflexivity.
Qed.

Lemma inv_cancel_transit w i a s c rest f p F :
  Inv None w -> get w i = Some a -> tr w i = Go s -> a_pc a = InCb c rest f p ->
  (forall z, a_stop (F z) = a_stop z /\ a_msgq (F z) = a_msgq z /\ a_stop_taken (F z) = a_stop_taken z
             /\ a_armed (F z) = a_armed z /\ a_pc (F z) = a_pc z
             /\ (a_sig_taken z = true -> a_sig_taken (F z) = true)) ->
  Inv (Some i) (upd (emit w (TCancel i c)) i F)
  /\ tr (upd (emit w (TCancel i c)) i F) i = Go (set_phase s PEnd).
Proof.
  intros H Eg Ht Epc HF.
  pose proof (H i) as Hi. unfold InvA in Hi. rewrite Eg, Ht in Hi. simpl in Hi.
  destruct Hi as (s0 & Es & HR). injection Es as <-.
  destruct HR as ((Hg & Hs & Hk & Hsk) & Hpc & (Hp & Hst & Harm & Hstop)).
  pose proof Hpc as Hpc'. unfold pc_rel in Hpc'. rewrite Epc in Hpc'. destruct Hpc' as (Hph & _).
  split.
  - eapply inv_step_actor with (x := None) (x' := Some i);
      [apply about_cancel|intros j Hj; apply tagb_none_some; exact Hj| |congruence|exact H].
    intros a0 s0 E0 Ht0 HR0. rewrite Eg in E0; injection E0 as <-.
    rewrite Ht in Ht0; injection Ht0 as <-. cbn [tagb]. rewrite Nat.eqb_refl.
    rewrite (astep_cancel i s c Hph). eexists; split; [reflexivity|].
    destruct (HF a) as (F1 & F2 & F3 & F4 & F5 & F6).
    unfold RelX, RelF. simpl. rewrite F1, F2, F3, F4, F5.
    split; [repeat split; auto|]. split; [right; right; right; reflexivity|].
    split; [rewrite Epc; discriminate|].
    destruct (a_armed a) eqn:Ea; auto. specialize (Harm eq_refl). congruence.
  - rewrite tr_upd, tr_emit, Ht. apply astep_cancel. exact Hph.
Qed.

Lemma inv_resume w i w' go :
  Inv None w -> resume w i = (w', go) ->
  Inv None w' /\ (go = true -> pre_seg w' i).
Proof.
  intros H Hres. unfold resume in Hres.
  destruct (get w i) as [a|] eqn:Eg; [|injection Hres as <- <-; split; [exact H|discriminate]].
  pose proof (H i) as Hi. unfold InvA in Hi. rewrite Eg in Hi. simpl in Hi.
  destruct Hi as (s & Ht & HR).
  assert (Hdefault : Inv None w /\ (true = true -> pre_seg w i) \/ True) by (right; exact I).
  destruct (a_pc a) as [| | |c rest f p| |] eqn:Epc;
    try (injection Hres as <- <-; split; [exact H|];
         intros _ a0 c0 r0 f0 E0 P0; rewrite Eg in E0; injection E0 as <-; congruence).
  destruct (a_sig a) eqn:Esig.
  - assert (G : Inv None (killed_exit (upd (emit w (TCancel i c)) i (fun a0 => upd_sig a0 false true)) i (Some c))).
    { destruct (inv_cancel_transit w i a s c rest f p (fun a0 => upd_sig a0 false true) H Eg Ht Epc) as [HX HtX].
      { intros z. simpl. repeat split; auto. }
      eapply inv_killed_exit; [exact HX| |exact HtX|].
      + apply get_some_lt. rewrite nact_upd, nact_emit. apply get_some_lt. congruence.
      + intros _. simpl. tauto. }
    injection Hres as <- <-. split; [exact G|discriminate].
  - injection Hres as <- <-. split; [exact H|].
    intros _ a0 c0 r0 f0 E0 P0. rewrite Eg in E0; injection E0 as <-. exact Esig.
Qed.

Lemma inv_poll fuel w i : Inv None w -> Inv None (poll fuel w i).
Proof.
  intros H. unfold poll. destruct (resume w i) as [w' go] eqn:E.
  destruct (inv_resume w i w' go H E) as [H' Hgo].
  destruct go; [|exact H']. apply inv_segs; [exact H'|apply Hgo; reflexivity].
Qed.

Lemma astep_aborted_cb i s : 
  (s_phase s = PPre \/ s_phase s = PPs \/ s_phase s = PPost \/ exists c, s_phase s = PH c) ->
  astep i s (TAborted i) = Go s.
Proof.
  intros Hp. simpl. rewrite Nat.eqb_refl.
  destruct Hp as [E|[E|[E|(c & E)]]]; rewrite E; reflexivity.
Qed.

Lemma inv_abort w i : Inv None w -> Inv None (abort w i).
Proof.
  intros H. unfold abort.
  destruct (get w i) as [a|] eqn:Eg; [|exact H].
  pose proof (H i) as Hi. unfold InvA in Hi. rewrite Eg in Hi. simpl in Hi.
  destruct Hi as (s & Ht & HR).
  set (ev := if a_notify a then Some (STerminated i false (Some R_CANCELLED)) else None).
  assert (Hquiet : (a_pc a = NotStarted \/ a_pc a = Spawned \/ a_pc a = Idle) ->
                   Inv None (cleanup (emit w (TAborted i)) i ev)).
  { intros Hq.
    assert (HX : Inv (Some i) (emit w (TAborted i))).
    { rewrite <- (upd_id (emit w _) i).
      eapply inv_step_actor with (x := None) (x' := Some i);
        [apply about_aborted|intros j Hj; apply tagb_none_some; exact Hj| |congruence|exact H].
      intros a0 s0 E0 Ht0 HR0. rewrite Eg in E0; injection E0 as <-.
      rewrite Ht in Ht0; injection Ht0 as <-. cbn [tagb]. rewrite Nat.eqb_refl.
      pose proof (RelX_of_Rel_same a s HR0 Hq) as (HFx & Hex & Hnc & Harm).
      destruct HR0 as (_ & Hpc & _). unfold pc_rel in Hpc.
      assert (Hph : s_phase s = P0 \/ s_phase s = PPreOk \/ s_phase s = PRun).
      { destruct Hq as [E|[E|E]]; rewrite E in Hpc; tauto. }
      exists (set_phase s PEnd). split.
      - simpl. rewrite Nat.eqb_refl. destruct Hph as [E|[E|E]]; rewrite E; reflexivity.
      - unfold RelX. split; [exact HFx|]. split; [right; right; right; reflexivity|]. split; assumption. }
    destruct (inv_cleanup _ i ev HX) as [Hc|Hn]; [exact Hc|].
    rewrite get_emit in Hn. congruence. }
  destruct (a_pc a) as [| | |c rest f p| |] eqn:Epc; try exact H; try (apply Hquiet; tauto).
  destruct p; [|exact H].
  (* aborted while parked inside a callback *)
  assert (H1 : Inv None (emit w (TAborted i)) /\ tr (emit w (TAborted i)) i = Go s).
  { assert (Hcb : s_phase s = PPre \/ s_phase s = PPs \/ s_phase s = PPost \/ exists c0, s_phase s = PH c0).
    { destruct HR as (_ & Hpc & _). unfold pc_rel in Hpc. rewrite Epc in Hpc. destruct Hpc as (Hph & _).
      rewrite Hph. destruct c; simpl; eauto. }
    split.
    - rewrite <- (upd_id (emit w _) i).
      eapply inv_step_actor with (x := None); [apply about_aborted|reflexivity| |congruence|exact H].
      intros a0 s0 E0 Ht0 HR0. rewrite Eg in E0; injection E0 as <-.
      rewrite Ht in Ht0; injection Ht0 as <-. cbn [tagb].
      rewrite (astep_aborted_cb i s Hcb). eexists; split; [reflexivity|exact HR0].
    - rewrite tr_emit, Ht. apply astep_aborted_cb. exact Hcb. }
  destruct H1 as [H1 Ht1].
  destruct (inv_cancel_transit (emit w (TAborted i)) i a s c rest f true (fun z => z) H1 Eg Ht1 Epc) as [HX _].
  { intros z. repeat split; auto. }
  rewrite upd_id in HX.
  destruct (inv_cleanup _ i ev HX) as [Hc|Hn]; [exact Hc|].
  rewrite !get_emit in Hn. congruence.
Qed.

Lemma inv_step w l : Inv None w -> Inv None (step w l).
Proof.
  intros H. destruct l as [i|i m|i r|i|i|g|i|i fuel]; simpl.
  - destruct (get w i) as [a|] eqn:Eg; [|exact H].
    destruct (a_pc a) eqn:Epc; try exact H.
    apply inv_upd_at; [|exact H].
    intros a0 s0 E0. rewrite Eg in E0; injection E0 as <-. split.
    + intros ((Hg & Hs & Hk & Hsk) & Hpc & (Hp & Hst & Harm & Hstop)).
      unfold pc_rel in Hpc. rewrite Epc in *. destruct Hpc as (-> & A & B & C & D & E).
      unfold Rel, RelF, pc_rel, alive_rel. simpl.
      split; [repeat split; auto|]. split; [split; reflexivity|].
      repeat split; auto.
      * intros X. specialize (Hp X). discriminate.
      * intros X. congruence.
      * intros X. specialize (Harm X). discriminate.
      * intros X. congruence.
    + intros (A & B & C & D). exfalso. apply C. exact Epc.
  - apply inv_req_send. exact H.
  - apply inv_req_stop. exact H.
  - apply inv_req_kill. exact H.
  - apply inv_req_drain. exact H.
  - exact H.
  - apply inv_abort. exact H.
  - apply inv_poll. exact H.
Qed.

Lemma inv_run ls w : Inv None w -> Inv None (run w ls).
Proof.
  unfold run. revert w. induction ls as [|l t IH]; simpl; intros w H; [exact H|].
  apply IH. apply inv_step. exact H.
Qed.

Lemma inv_init cfgs msgs : Inv None (init cfgs msgs).
Proof.
  intros j. unfold InvA, init, get. simpl.
  rewrite nth_error_map. destruct (nth_error cfgs j) as [c|]; simpl; [|reflexivity].
  exists ast0. split; [reflexivity|].
  unfold Rel, RelF, pc_rel, alive_rel, has_marker. simpl.
  split; [repeat split; try (intros; discriminate); try tauto; intros A; exfalso; tauto|].
  split; [repeat split; auto|]. repeat split; intros; discriminate.
Qed.

(* ------------------------------------------------------------------ *)
(* the recogniser accepts every actor's events under every schedule     *)

Theorem life_ok cfgs msgs ls i :
  code_of (arun i ast0 (trace_of (run (init cfgs msgs) ls))) = 0.
Proof.
  pose proof (inv_run ls _ (inv_init cfgs msgs) i) as H. unfold InvA in H.
  change (code_of (tr (run (init cfgs msgs) ls) i) = 0).
  destruct (get _ i); [destruct H as (s & -> & _)|rewrite H]; reflexivity.
Qed.

Theorem check_life_ok cfgs msgs ls n :
  check_life n (trace_of (run (init cfgs msgs) ls)) = true.
Proof.
  unfold check_life. apply forallb_forall. intros i _. rewrite life_ok. reflexivity.
Qed.

Theorem check_C01_ok cfgs msgs ls n :
  check_C01 n (trace_of (run (init cfgs msgs) ls)) = true.
Proof.
  unfold check_C01. apply forallb_forall. intros i _. rewrite life_ok. reflexivity.
Qed.

Theorem check_C03_ok cfgs msgs ls n :
  check_C03 n (trace_of (run (init cfgs msgs) ls)) = true.
Proof.
  unfold check_C03. apply forallb_forall. intros i _. rewrite life_ok. reflexivity.
Qed.
