(* C04: the supervision-event oracle accepts the trace of every world under every schedule.
   Invariant Inv4 (queues + handled events per supervisor, tree, per-actor facts), proved
   step by step in the style of WorldProofs.v, on top of the lifecycle invariant Inv. *)
From Coq Require Import List Arith Bool Lia Setoid.
From RV Require Import Loop.World Loop.Checks Loop.WorldProofs Loop.PickProofs.
Import ListNotations.

(* ------------------------------------------------------------------ *)
(* the oracle, decomposed                                               *)

(* the supervision events supervisor s has started to handle, in order *)
Definition hl (s : nat) (t : list tev) : list supevt :=
  flat_map (fun e => match e with
                     | TEnter j (Sup x) => if Nat.eqb j s then [x] else []
                     | _ => [] end) t.

Lemma hl_app s t1 t2 : hl s (t1 ++ t2) = hl s t1 ++ hl s t2.
Proof. unfold hl. apply flat_map_app. Qed.

Lemma count_sup_hl s p t : count_sup s p t = length (filter p (hl s t)).
Proof.
  unfold count_sup. induction t as [|e r IH]; simpl; [reflexivity|].
  destruct e as [j c| | | | | | | | | | | |]; simpl; auto.
  destruct c as [| | |x|]; simpl; auto.
  destruct (Nat.eqb j s); simpl; auto.
  destruct (p x); simpl; auto.
Qed.

Lemma filter_len0 {A} (p : A -> bool) l :
  (forall y, In y l -> p y = false) -> length (filter p l) = 0.
Proof.
  induction l as [|x t IH]; simpl; intros H; auto.
  rewrite (H x) by auto. apply IH. intros y Hy. apply H. auto.
Qed.

Definition ev_kill c e := match e with TKillReq j => Nat.eqb j c | _ => false end.
Definition ev_abort c e := match e with TAborted j => Nat.eqb j c | _ => false end.
Definition ev_drain c e := match e with TDrainReq j => Nat.eqb j c | _ => false end.
Definition ev_stop c (r : option nat) e :=
  match e with TStopReq j r' => Nat.eqb j c && onat_eqb r r' | _ => false end.

(* the stated cause of a graceful exit is on record *)
Definition backed (c : nat) (r : option nat) (seen : list tev) : bool :=
  has_ev (ev_stop c r) seen || (onat_eqb r (Some 1) && has_ev (ev_drain c) seen).

(* the classification clause of judge_sup *)
Definition cls (locs : list bool) (x : supevt) (seen : list tev) : bool :=
  match x with
  | SStarted _ => true
  | STerminated c st reason =>
    match ending_of c seen EndNone, st, reason with
    | EndGraceful, st', r => Bool.eqb st' (negb (nth c locs false)) && backed c r seen
    | EndNone, false, Some 0 => has_ev (ev_kill c) seen
    | EndNone, false, Some 2 => has_ev (ev_abort c) seen
    | _, _, _ => false
    end
  | SFailed c txt =>
    match ending_of c seen EndNone with EndFailed t0 => Nat.eqb t0 txt | _ => false end
  end.

Definition cnt_ok (s : nat) (x : supevt) (seen : list tev) : bool :=
  match x with
  | SStarted c => post_start_ok c seen && Nat.eqb (count_sup s (fun y => Nat.eqb (about y) c) seen) 0
  | _ => Nat.eqb (count_sup s (fun y => is_terminal y && Nat.eqb (about y) (about x)) seen) 0
  end.

Lemma judge_sup_split links locs seen s x :
  onat_eqb (nth (about x) links None) (Some s) = true ->
  cnt_ok s x seen = true -> cls locs x seen = true ->
  judge_sup links locs seen s x = true.
Proof.
  intros Hl Hc Hk. unfold judge_sup. rewrite Hl. simpl.
  destruct x as [c|c st r|c txt]; simpl in *.
  - exact Hc.
  - rewrite Hc. simpl.
    destruct (ending_of c seen EndNone); try discriminate.
    + destruct st; try discriminate. destruct r as [[|[|[|n]]]|]; try discriminate; exact Hk.
    + apply andb_prop in Hk. destruct Hk as [Hb Hk]. unfold backed in Hk. unfold ev_stop, ev_drain in Hk.
      destruct r as [[|[|n]]|]; simpl in Hk; rewrite ?orb_false_r in Hk; rewrite Hb; simpl; try exact Hk.
      rewrite orb_comm. exact Hk.
  - rewrite Hc. exact Hk.
Qed.

Lemma check_go_app links locs seen t e :
  check_C04_go links locs seen (t ++ [e]) =
  check_C04_go links locs seen t &&
  match e with TEnter s (Sup x) => judge_sup links locs (seen ++ t) s x | _ => true end.
Proof.
  revert seen. induction t as [|y r IH]; intros seen; simpl.
  - rewrite app_nil_r, andb_true_r. reflexivity.
  - rewrite IH, <- app_assoc. simpl. rewrite andb_assoc. reflexivity.
Qed.

(* ------------------------------------------------------------------ *)
(* trace facts: monotone ones, and the ending of an actor               *)

Lemma has_ev_app p t e : has_ev p (t ++ [e]) = has_ev p t || p e.
Proof. unfold has_ev. rewrite existsb_app. simpl. now rewrite orb_false_r. Qed.

Lemma has_ev_in p t e : In e t -> p e = true -> has_ev p t = true.
Proof. intros. unfold has_ev. apply existsb_exists. eauto. Qed.

Definition end_step (c : nat) (acc : ending) (e : tev) : ending :=
  match e with
  | TExit j cbk f =>
    if Nat.eqb j c then
      match cbk, f with
      | PreStart, ROk => acc
      | PreStart, _ => EndStartFailed
      | _, RErr x | _, RPanic x => EndFailed x
      | PostStop, ROk => EndGraceful
      | _, ROk => acc
      end
    else acc
  | TCancel j PreStart => if Nat.eqb j c then EndStartFailed else acc
  | TSpawnRet j false => if Nat.eqb j c then EndStartFailed else acc
  | _ => acc
  end.

Lemma ending_of_app c t e acc : ending_of c (t ++ [e]) acc = end_step c (ending_of c t acc) e.
Proof.
  revert acc. induction t as [|y r IH]; intros acc; simpl; [reflexivity|]. apply IH.
Qed.

(* events that can change some actor's ending / post_start_ok: all others are "plain" *)
Definition subj_end (e : tev) : option nat :=
  match e with
  | TExit j PreStart ROk => None
  | TExit j PreStart _ => Some j
  | TExit j _ (RErr _) | TExit j _ (RPanic _) => Some j
  | TExit j PostStop ROk => Some j
  | TCancel j PreStart => Some j
  | TSpawnRet j false => Some j
  | _ => None
  end.

Lemma end_step_other c acc e : subj_end e <> Some c -> end_step c acc e = acc.
Proof.
  intros H. destruct e as [| | | |j cb f|j cb|j ok| | | | | |]; simpl in *; auto.
  - destruct (Nat.eqb_spec j c) as [->|]; auto.
    destruct cb, f; simpl in *; auto; congruence.
  - destruct cb; auto. destruct (Nat.eqb_spec j c) as [->|]; auto. congruence.
  - destruct ok; auto. destruct (Nat.eqb_spec j c) as [->|]; auto. congruence.
Qed.

Definition is_sup_enter (e : tev) : bool :=
  match e with TEnter _ (Sup _) => true | _ => false end.

Lemma hl_snoc_plain s t e : is_sup_enter e = false -> hl s (t ++ [e]) = hl s t.
Proof.
  intros H. rewrite hl_app. simpl. destruct e as [j c| | | | | | | | | | | |]; simpl; try apply app_nil_r.
  destruct c; try apply app_nil_r. discriminate.
Qed.

Lemma hl_snoc_enter s t j x :
  hl s (t ++ [TEnter j (Sup x)]) = hl s t ++ (if Nat.eqb j s then [x] else []).
Proof. rewrite hl_app. simpl. now rewrite app_nil_r. Qed.

Lemma post_start_ok_app c t e :
  post_start_ok c (t ++ [e]) =
  post_start_ok c t || match e with TExit j PostStart ROk => Nat.eqb j c | _ => false end.
Proof. unfold post_start_ok. apply has_ev_app. Qed.

Lemma cls_stable locs x t e :
  subj_end e <> Some (about x) -> cls locs x t = true -> cls locs x (t ++ [e]) = true.
Proof.
  intros Hs H. destruct x as [c|c st r|c txt]; simpl in *; auto.
  - rewrite ending_of_app, end_step_other by assumption.
    destruct (ending_of c t EndNone); try discriminate.
    + destruct st; try discriminate.
      destruct r as [[|[|[|n]]]|]; try discriminate; rewrite has_ev_app, H; reflexivity.
    + apply andb_true_iff in H as [Hb H]. rewrite Hb. simpl.
      unfold backed in *. rewrite !has_ev_app.
      apply orb_true_iff in H as [H|H]; [rewrite H; reflexivity|].
      apply andb_true_iff in H as [H1 H2]. rewrite H1, H2. simpl. apply orb_true_r.
  - rewrite ending_of_app, end_step_other by assumption. exact H.
Qed.

(* ------------------------------------------------------------------ *)
(* the shape of what a supervisor knows about one child                 *)

Fixpoint shape (l : list supevt) : Prop :=
  match l with
  | [] => True
  | y :: r => (forall x, In x r -> about x = about y -> is_terminal x = true /\ is_terminal y = false)
              /\ shape r
  end.

Definition cross (l1 l2 : list supevt) : Prop :=
  forall y x, In y l1 -> In x l2 -> about x = about y -> is_terminal x = true /\ is_terminal y = false.

Lemma shape_app l1 l2 : shape (l1 ++ l2) <-> shape l1 /\ shape l2 /\ cross l1 l2.
Proof.
  induction l1 as [|y r IH]; simpl.
  - unfold cross. simpl. tauto.
  - rewrite IH. unfold cross. simpl. split.
    + intros (H1 & H2 & H3 & H4). split; [split; [|exact H2]|split; [exact H3|]].
      * intros x0 Hx. apply H1. apply in_or_app. auto.
      * intros y0 x0 [<-|Hy] Hx E; [apply H1; [apply in_or_app; auto|exact E]|eapply H4; eauto].
    + intros ((H1 & H2) & H3 & H4). split; [|split; [exact H2|split; [exact H3|]]].
      * intros x0 Hx E. apply in_app_or in Hx as [Hx|Hx]; [apply H1; auto|apply (H4 y x0); auto].
      * intros y0 x0 Hy Hx. apply H4; auto.
Qed.

Lemma shape_drop l1 e l2 : shape (l1 ++ e :: l2) -> shape (l1 ++ l2).
Proof.
  rewrite !shape_app. simpl. intros (H1 & (H2 & H3) & H4). split; [exact H1|split; [exact H3|]].
  intros y0 x0 Hy Hx. apply H4; simpl; auto.
Qed.

(* ------------------------------------------------------------------ *)
(* the invariant                                                        *)

Definition supq_of (w : world) (s : nat) : list supevt :=
  match get w s with Some a => a_supq a | None => [] end.
(* what supervisor s knows: handled events, then the queued ones *)
Definition K (w : world) (s : nat) : list supevt := hl s (trace_of w) ++ supq_of w s.
Definition link_of (w : world) (c : nat) : option nat :=
  match get w c with Some a => c_link (a_cfg a) | None => None end.
Definition local_of (w : world) (c : nat) : bool :=
  match get w c with Some a => c_local (a_cfg a) | None => false end.
(* no link will be made for this actor any more: a Send actor links when pre_start has returned
   (and is marked running in the same step), a thread-local one in the step that sets Starting *)
Definition nl (a : actor) : Prop :=
  a_notify a = true \/ (c_local (a_cfg a) = true /\ 1 <= a_status a).
Definition dead (w : world) (c : nat) : Prop :=
  match get w c with Some a => a_armed a = false | None => False end.
Definition pre_pc (p : pc) : bool :=
  match p with NotCreated | NotStarted | InCb PreStart _ _ _ => true | _ => false end.
Definition past_ps (p : pc) : bool :=
  match p with
  | Idle | Done | InCb (Handle _) _ _ _ | InCb (Sup _) _ _ _ | InCb PostStop _ _ _ => true
  | _ => false end.

Record AInv (tr : list tev) (x : option nat) (i : nat) (a : actor) : Prop := mkAInv {
  A1 : forall s, a_sup a = Some s -> c_link (a_cfg a) = Some s;
  A2 : pre_pc (a_pc a) = true ->
       a_notify a = false /\ (a_sup a <> None -> c_local (a_cfg a) = true /\ 1 <= a_status a);
  A3 : forall r, a_stop a = Some r -> has_ev (ev_stop i r) tr = true;
  A4 : In Marker (a_msgq a) -> has_ev (ev_drain i) tr = true;
  A5 : forall rest f p, a_pc a = InCb PostStop rest f p -> backed i (a_reason a) tr = true;
  A6 : a_armed a = true -> a_sig a = true ->
       has_ev (ev_kill i) tr = true \/ (a_sup a = None /\ nl a);
  A7 : a_armed a = true -> x <> Some i -> ending_of i tr EndNone = EndNone;
  A8 : past_ps (a_pc a) = false -> post_start_ok i tr = false
}.

Definition TreeInv (w : world) : Prop :=
  forall p ap ks c, get w p = Some ap -> a_kids ap = Some ks -> In c ks ->
    exists ac, get w c = Some ac /\ a_sup ac = Some p /\ nl ac.

Record KInv (locs : list bool) (x : option nat) (w : world) (s : nat) : Prop := mkKInv {
  Q1 : forall e, In e (K w s) -> link_of w (about e) = Some s;
  Q2 : forall c, In (SStarted c) (K w s) -> post_start_ok c (trace_of w) = true;
  Q3 : forall e, In e (K w s) -> is_terminal e = true ->
         (dead w (about e) \/ x = Some (about e)) /\ cls locs e (trace_of w) = true;
  Q4 : shape (K w s)
}.

Record Inv4 (links : list (option nat)) (locs : list bool) (x : option nat) (w : world) : Prop := mkInv4 {
  i_links : forall c, nth c links None = link_of w c;
  i_chk : check_C04_go links locs [] (trace_of w) = true;
  i_act : forall i a, get w i = Some a -> AInv (trace_of w) x i a;
  i_tree : TreeInv w;
  i_K : forall s, KInv locs x w s;
  i_locs : forall c, nth c locs false = local_of w c
}.

(* no terminal event about j is known to anybody *)
Definition noterm (w : world) (j : nat) : Prop :=
  forall s y, In y (K w s) -> is_terminal y = true -> about y <> j.
(* nothing at all about j is known to anybody *)
Definition nonabout (w : world) (j : nat) : Prop :=
  forall s y, In y (K w s) -> about y <> j.

Lemma noterm_alive links locs x w j a :
  Inv4 links locs x w -> get w j = Some a -> a_armed a = true -> x <> Some j -> noterm w j.
Proof.
  intros H Eg Ha Hx s y Hy Ht E. destruct (Q3 _ _ _ _ (i_K _ _ _ _ H s) y Hy Ht) as [[D|D] _].
  - unfold dead in D. rewrite E, Eg in D. congruence.
  - rewrite E in D. contradiction.
Qed.

Lemma trace_of_emit w e : trace_of (emit w e) = trace_of w ++ [e].
Proof. reflexivity. Qed.

(* ------------------------------------------------------------------ *)
(* (E) logging an event that is not the start of a supervision handler  *)

Lemma AInv_emit tr x x' i a e :
  AInv tr x i a ->
  (subj_end e = Some i -> x' = Some i \/ a_armed a = false) ->
  (x' = x \/ x = None) ->
  (forall j, e = TExit j PostStart ROk -> j = i -> past_ps (a_pc a) = true) ->
  AInv (tr ++ [e]) x' i a.
Proof.
  intros [a1 a2 a3 a4 a5 a6 a7 a8] Hs Hx Hp. constructor; auto.
  - intros r Hr. rewrite has_ev_app, (a3 r Hr). reflexivity.
  - intros Hm. rewrite has_ev_app, (a4 Hm). reflexivity.
  - intros rest f p Hpc. specialize (a5 rest f p Hpc). unfold backed in *. rewrite !has_ev_app.
    apply orb_true_iff in a5 as [A|A]; [rewrite A; reflexivity|].
    apply andb_true_iff in A as [A B]. rewrite A, B. simpl. apply orb_true_r.
  - intros Ha Hsig. destruct (a6 Ha Hsig) as [A|A]; [left; rewrite has_ev_app, A; reflexivity|right; exact A].
  - intros Ha Hn. rewrite ending_of_app, end_step_other.
    + apply a7; auto. destruct Hx as [ -> | -> ]; [exact Hn|discriminate].
    + intros E. destruct (Hs E) as [A|A]; [apply Hn; exact A|congruence].
  - intros Hpp. rewrite post_start_ok_app, (a8 Hpp). simpl.
    destruct e as [| | | |j cb f| | | | | | | |]; auto. destruct cb; auto. destruct f; auto.
    destruct (Nat.eqb_spec j i) as [->|]; auto.
    rewrite (Hp i eq_refl eq_refl) in Hpp. discriminate.
Qed.

Lemma K_emit_plain w e s : is_sup_enter e = false -> K (emit w e) s = K w s.
Proof. intros H. unfold K. rewrite trace_of_emit, hl_snoc_plain by assumption. reflexivity. Qed.

Lemma inv4_emit links locs x x' w e :
  Inv4 links locs x w -> is_sup_enter e = false ->
  (forall j, subj_end e = Some j -> (x' = Some j \/ dead w j) /\ noterm w j) ->
  (forall j a, e = TExit j PostStart ROk -> get w j = Some a -> past_ps (a_pc a) = true) ->
  (x' = x \/ x = None) ->
  Inv4 links locs x' (emit w e).
Proof.
  intros [h1 h2 h3 h4 h5 h6] Hpl Hs Hp Hx. constructor.
  - exact h1.
  - rewrite trace_of_emit, check_go_app, h2. destruct e as [j c| | | | | | | | | | | |]; auto.
    destruct c; auto. discriminate.
  - intros i a Eg. rewrite trace_of_emit. apply AInv_emit with (x := x); auto.
    + intros E. destruct (Hs i E) as [[A|A] _]; [left; exact A|right].
      unfold dead in A. change (get w i = Some a) in Eg. rewrite Eg in A. exact A.
    + intros j -> ->. apply (Hp i a eq_refl Eg).
  - exact h4.
  - intros s. destruct (h5 s) as [q1 q2 q3 q4]. constructor; rewrite ?K_emit_plain by assumption.
    + exact q1.
    + intros c Hc. rewrite trace_of_emit, post_start_ok_app, (q2 c Hc). reflexivity.
    + intros y Hy Ht. destruct (q3 y Hy Ht) as [D C]. split.
      * destruct D as [D|D]; [left; exact D|right]. destruct Hx as [ -> | -> ]; [exact D|discriminate].
      * rewrite trace_of_emit. apply cls_stable; [|exact C].
        intros E. destruct (Hs _ E) as [_ N]. apply (N s y Hy Ht). reflexivity.
    + exact q4.
  - exact h6.
Qed.

(* ------------------------------------------------------------------ *)
(* (UU) a silent pointwise transformation of the actors                  *)

Definition pw (F : nat -> actor -> actor) (w w' : world) : Prop :=
  w_trace w' = w_trace w /\ forall j, get w' j = option_map (F j) (get w j).

Lemma pw_upd w i f : pw (fun j a => if Nat.eqb i j then f a else a) w (upd w i f).
Proof.
  split; [reflexivity|]. intros j. destruct (Nat.eqb_spec i j) as [->|Hne].
  - apply get_upd_same.
  - rewrite get_upd_other by assumption. destruct (get w j); reflexivity.
Qed.

Lemma pw_comp F G w w1 w2 : pw F w w1 -> pw G w1 w2 -> pw (fun j a => G j (F j a)) w w2.
Proof.
  intros [t1 g1] [t2 g2]. split; [congruence|]. intros j. rewrite g2, g1.
  destruct (get w j); reflexivity.
Qed.

Lemma pw_refl w : pw (fun _ a => a) w w.
Proof. split; auto. intros j. destruct (get w j); reflexivity. Qed.

Lemma pw_ext F G w w' : (forall j a, get w j = Some a -> F j a = G j a) -> pw F w w' -> pw G w w'.
Proof.
  intros H [t g]. split; auto. intros j. rewrite g. destruct (get w j) eqn:E; simpl; auto.
  now rewrite (H j a E).
Qed.

(* what may happen to one actor in a silent step *)
Definition LR (a a' : actor) : Prop :=
  (a_supq a' = a_supq a \/ exists e, a_supq a = e :: a_supq a')
  /\ a_cfg a' = a_cfg a /\ (a_armed a' = true -> a_armed a = true)
  /\ a_status a <= a_status a'.

#[local] Hint Resolve Nat.le_max_l : core.

Lemma LR_refl a : LR a a.
Proof. unfold LR. auto 6. Qed.

Lemma nl_pres a a' :
  a_notify a' = a_notify a -> a_cfg a' = a_cfg a -> a_status a <= a_status a' -> nl a -> nl a'.
Proof. unfold nl. intros -> -> L [A|[A B]]; [left; exact A|right; split; [exact A|lia]]. Qed.
Lemma nl_pres' a a' :
  (a_notify a = true -> a_notify a' = true) -> a_cfg a' = a_cfg a -> a_status a <= a_status a' -> nl a -> nl a'.
Proof. unfold nl. intros N -> L [A|[A B]]; [left; auto|right; split; [exact A|lia]]. Qed.

Definition tagcase (x x' : option nat) (w' : world) : Prop :=
  x' = x \/ x = None \/ (exists i, x = Some i /\ x' = None /\ dead w' i).

Lemma trace_of_pw F w w' : pw F w w' -> trace_of w' = trace_of w.
Proof. intros [t _]. unfold trace_of. now rewrite t. Qed.

Lemma K_pw_sub F w w' s :
  pw F w w' -> (forall j a, get w j = Some a -> LR a (F j a)) ->
  exists h q q', K w s = h ++ q /\ K w' s = h ++ q' /\ (q' = q \/ exists e, q = e :: q').
Proof.
  intros Hpw HL. unfold K. rewrite (trace_of_pw _ _ _ Hpw).
  exists (hl s (trace_of w)), (supq_of w s), (supq_of w' s). split; [reflexivity|]. split; [reflexivity|].
  unfold supq_of. destruct Hpw as [_ g]. rewrite g. destruct (get w s) as [a|] eqn:E; simpl; auto.
  destruct (HL s a E) as (A & _). exact A.
Qed.

Lemma inv4_pw links locs x x' F w w' :
  Inv4 links locs x w -> pw F w w' ->
  (forall j a, get w j = Some a -> AInv (trace_of w) x j a ->
     LR a (F j a) /\ AInv (trace_of w) x' j (F j a)) ->
  TreeInv w' -> tagcase x x' w' ->
  Inv4 links locs x' w'.
Proof.
  intros [h1 h2 h3 h4 h5 h6] Hpw HF Htree Htag.
  pose proof (trace_of_pw _ _ _ Hpw) as Et.
  assert (HLR : forall j a, get w j = Some a -> LR a (F j a)).
  { intros j a E. apply (HF j a E). apply h3. exact E. }
  assert (Hlink : forall c, link_of w' c = link_of w c).
  { intros c. unfold link_of. destruct Hpw as [_ g]. rewrite g. destruct (get w c) as [a|] eqn:E; simpl; auto.
    destruct (HLR c a E) as (_ & -> & _). reflexivity. }
  assert (Hdead : forall c, dead w c -> dead w' c).
  { intros c. unfold dead. destruct Hpw as [_ g]. rewrite g. destruct (get w c) as [a|] eqn:E; simpl; auto.
    destruct (HLR c a E) as (_ & _ & A & _). intros D. destruct (a_armed (F c a)); auto.
    specialize (A eq_refl). congruence. }
  constructor.
  - intros c. rewrite Hlink. apply h1.
  - rewrite Et. exact h2.
  - intros i a' Eg. destruct Hpw as [_ g]. rewrite g in Eg. destruct (get w i) as [a|] eqn:E; simpl in Eg; [|discriminate].
    injection Eg as <-. rewrite Et. apply (HF i a E). apply h3. exact E.
  - exact Htree.
  - intros s. destruct (h5 s) as [q1 q2 q3 q4].
    destruct (K_pw_sub F w w' s Hpw HLR) as (h & q & q' & E1 & E2 & Hq).
    assert (Hin : forall y, In y (K w' s) -> In y (K w s)).
    { intros y. rewrite E1, E2. rewrite !in_app_iff. intros [A|A]; auto.
      destruct Hq as [->|(e & ->)]; simpl; auto. }
    constructor.
    + intros e He. rewrite Hlink. apply q1. apply Hin. exact He.
    + intros c Hc. rewrite Et. apply q2. apply Hin. exact Hc.
    + intros e He Ht. destruct (q3 e (Hin e He) Ht) as [D C]. rewrite Et. split; [|exact C].
      destruct D as [D|D]; [left; apply Hdead; exact D|].
      destruct Htag as [ -> |[ -> |(i & -> & -> & Di)]]; [right; exact D|discriminate|].
      injection D as <-. left. exact Di.
    + rewrite E2. rewrite E1 in q4. destruct Hq as [->|(e & ->)]; [exact q4|].
      apply shape_drop with (e := e). exact q4.
  - intros c. rewrite h6. unfold local_of. destruct Hpw as [_ g]. rewrite g.
    destruct (get w c) as [a|] eqn:E; simpl; auto.
    destruct (HLR c a E) as (_ & -> & _). reflexivity.
Qed.

(* ------------------------------------------------------------------ *)
(* corollaries: one actor updated; the tree clause                      *)

Ltac ainv_tac :=
  intros;
  match goal with H : AInv _ _ _ _ |- _ =>
    let a1 := fresh "a1" in let a2 := fresh "a2" in let a3 := fresh "a3" in let a4 := fresh "a4" in
    let a5 := fresh "a5" in let a6 := fresh "a6" in let a7 := fresh "a7" in let a8 := fresh "a8" in
    destruct H as [a1 a2 a3 a4 a5 a6 a7 a8];
    constructor; simpl in *; auto;
    (* A2 / A6 when only the status grew or notify was left alone *)
    try (let Hp := fresh "Hp" in let N := fresh "N" in let Hq := fresh "Hq" in
         intros Hp; destruct (a2 Hp) as [? Hq]; split; [assumption|];
         intros N; destruct (Hq N); split; [assumption|lia]);
    try (let Ha := fresh "Ha" in let Hs := fresh "Hs" in let A := fresh "A" in let B := fresh "B" in
         intros Ha Hs; destruct (a6 Ha Hs) as [A|[A B]]; [left; exact A|right; split; [exact A|]];
         unfold nl in *; simpl; destruct B as [B|[B ?]]; [left; exact B|right; split; [exact B|lia]])
  end.

Lemma tree_pw F w w' :
  TreeInv w -> pw F w w' ->
  (forall j a, get w j = Some a ->
     (forall ks', a_kids (F j a) = Some ks' -> exists ks, a_kids a = Some ks /\ incl ks' ks)
     /\ a_sup (F j a) = a_sup a /\ (nl a -> nl (F j a))) ->
  TreeInv w'.
Proof.
  intros HT [_ g] HF p ap' ks' c Ep Ek Hin. rewrite g in Ep.
  destruct (get w p) as [ap|] eqn:E; simpl in Ep; [|discriminate]. injection Ep as <-.
  destruct (HF p ap E) as (A & _ & _). destruct (A ks' Ek) as (ks & Ek0 & Hincl).
  destruct (HT p ap ks c E Ek0 (Hincl c Hin)) as (ac & Ec & Es & En).
  exists (F c ac). rewrite g, Ec. simpl. destruct (HF c ac Ec) as (_ & -> & Hn). auto.
Qed.

Lemma tagcase_same x w : tagcase x x w.
Proof. left. reflexivity. Qed.

(* one actor updated; supervision fields untouched *)
Lemma inv4_upd links locs x x' w i f a :
  Inv4 links locs x w -> get w i = Some a ->
  LR a (f a) ->
  (forall ks', a_kids (f a) = Some ks' -> exists ks, a_kids a = Some ks /\ incl ks' ks) ->
  a_sup (f a) = a_sup a -> a_notify (f a) = a_notify a ->
  (AInv (trace_of w) x i a -> AInv (trace_of w) x' i (f a)) ->
  (x' = x \/ x = None \/ (x = Some i /\ x' = None /\ a_armed (f a) = false)) ->
  Inv4 links locs x' (upd w i f).
Proof.
  intros H Eg HL Hk Hs Hn HA Htag.
  eapply inv4_pw with (x := x); [exact H|apply pw_upd| | |].
  - intros j b Eb Ab. cbv beta. destruct (Nat.eqb_spec i j) as [<-|Hne].
    + rewrite Eg in Eb. injection Eb as <-. split; [exact HL|apply HA; exact Ab].
    + split; [apply LR_refl|]. destruct Ab as [a1 a2 a3 a4 a5 a6 a7 a8]. constructor; auto.
      intros Harm Hx. apply a7; auto.
      destruct Htag as [->|[->|(-> & -> & _)]]; [exact Hx|discriminate|congruence].
  - eapply tree_pw; [exact (i_tree _ _ _ _ H)|apply pw_upd|].
    intros j b Eb. cbv beta. destruct (Nat.eqb_spec i j) as [<-|Hne].
    + rewrite Eg in Eb. injection Eb as <-. destruct HL as (_ & Lc & _ & Ls).
      split; [exact Hk|]. split; [exact Hs|]. apply nl_pres; assumption.
    + split; [|auto]. intros ks' E. exists ks'. split; [exact E|apply incl_refl].
  - destruct Htag as [->|[->|(-> & -> & D)]]; [left; reflexivity|right; left; reflexivity|].
    right; right. exists i. split; [reflexivity|split; [reflexivity|]].
    unfold dead. rewrite get_upd_same, Eg. exact D.
Qed.

Lemma K_upd_other w i f s : i <> s -> K (upd w i f) s = K w s.
Proof. intros H. unfold K, supq_of. rewrite get_upd_other by assumption. reflexivity. Qed.

Lemma dead_upd_same w i f c :
  (forall a, get w i = Some a -> a_armed (f a) = a_armed a) -> dead (upd w i f) c <-> dead w c.
Proof.
  intros Hf. unfold dead. destruct (Nat.eq_dec i c) as [->|Hne].
  - rewrite get_upd_same. destruct (get w c) as [a|] eqn:E; simpl; [|tauto]. rewrite (Hf a eq_refl). tauto.
  - rewrite get_upd_other by assumption. tauto.
Qed.

Lemma link_upd_same w i f c :
  (forall a, get w i = Some a -> a_cfg (f a) = a_cfg a) -> link_of (upd w i f) c = link_of w c.
Proof.
  intros Hf. unfold link_of. destruct (Nat.eq_dec i c) as [->|Hne].
  - rewrite get_upd_same. destruct (get w c) as [a|] eqn:E; simpl; auto. now rewrite (Hf a eq_refl).
  - rewrite get_upd_other by assumption. reflexivity.
Qed.

Lemma local_upd_same w i f c :
  (forall a, get w i = Some a -> a_cfg (f a) = a_cfg a) -> local_of (upd w i f) c = local_of w c.
Proof.
  intros Hf. unfold local_of. destruct (Nat.eq_dec i c) as [->|Hne].
  - rewrite get_upd_same. destruct (get w c) as [a|] eqn:E; simpl; auto. now rewrite (Hf a eq_refl).
  - rewrite get_upd_other by assumption. reflexivity.
Qed.

(* (N) one event appended to the supervision queue of s *)
Lemma inv4_push links locs x w s e :
  Inv4 links locs x w -> get w s <> None ->
  link_of w (about e) = Some s ->
  (forall c, e = SStarted c -> post_start_ok c (trace_of w) = true) ->
  (is_terminal e = true -> (dead w (about e) \/ x = Some (about e)) /\ cls locs e (trace_of w) = true) ->
  cross (K w s) [e] ->
  Inv4 links locs x (upd w s (fun a => upd_supq a (a_supq a ++ [e]))).
Proof.
  intros [h1 h2 h3 h4 h5 h6] Hs Hl Hst Htm Hcr.
  set (f := fun a => upd_supq a (a_supq a ++ [e])).
  assert (Hlink : forall c, link_of (upd w s f) c = link_of w c) by (intros c; apply link_upd_same; reflexivity).
  assert (Hdead : forall c, dead (upd w s f) c <-> dead w c) by (intros c; apply dead_upd_same; reflexivity).
  constructor.
  - intros c. rewrite Hlink. apply h1.
  - exact h2.
  - intros i a' Eg. change (trace_of (upd w s f)) with (trace_of w).
    destruct (Nat.eq_dec s i) as [->|Hne].
    + rewrite get_upd_same in Eg. destruct (get w i) as [a|] eqn:E; simpl in Eg; [|discriminate].
      injection Eg as <-. specialize (h3 i a E). unfold f. clear - h3. ainv_tac.
    + rewrite get_upd_other in Eg by assumption. apply h3. exact Eg.
  - eapply tree_pw; [exact h4|apply pw_upd|].
    intros j b Eb. unfold f. destruct (Nat.eqb s j); simpl; (split; [|split; [reflexivity|intros N; exact N]]);
      intros ks' E; exists ks'; (split; [exact E|apply incl_refl]).
  - intros s'. destruct (h5 s') as [q1 q2 q3 q4].
    destruct (Nat.eq_dec s s') as [<-|Hne].
    + assert (EK : K (upd w s f) s = K w s ++ [e]).
      { unfold K, supq_of. rewrite get_upd_same. change (trace_of (upd w s f)) with (trace_of w).
        destruct (get w s) as [a|]; [|congruence]. simpl. now rewrite app_assoc. }
      constructor; rewrite ?EK; change (trace_of (upd w s f)) with (trace_of w).
      * intros y Hy. rewrite Hlink. apply in_app_or in Hy as [Hy|[<-|[]]]; auto.
      * intros c Hy. apply in_app_or in Hy as [Hy|[Hy|[]]]; auto.
      * intros y Hy Ht. apply in_app_or in Hy as [Hy|[<-|[]]].
        -- destruct (q3 y Hy Ht) as [D C]. split; [|exact C]. destruct D as [D|D]; [left; apply Hdead; exact D|right; exact D].
        -- destruct (Htm Ht) as [D C]. split; [|exact C]. destruct D as [D|D]; [left; apply Hdead; exact D|right; exact D].
      * apply shape_app. split; [exact q4|]. split; [simpl; split; [intros y []|exact I]|exact Hcr].
    + constructor; rewrite ?K_upd_other by assumption; change (trace_of (upd w s f)) with (trace_of w).
      * intros y Hy. rewrite Hlink. auto.
      * exact q2.
      * intros y Hy Ht. destruct (q3 y Hy Ht) as [D C]. split; [|exact C].
        destruct D as [D|D]; [left; apply Hdead; exact D|right; exact D].
      * exact q4.
  - intros c. rewrite h6. symmetry. apply local_upd_same. reflexivity.
Qed.

Lemma inv4_notify links locs x w i a e :
  Inv4 links locs x w -> get w i = Some a -> about e = i ->
  (forall c, e = SStarted c -> post_start_ok c (trace_of w) = true /\ nonabout w i) ->
  (is_terminal e = true -> x = Some i /\ noterm w i /\ (a_sup a <> None -> cls locs e (trace_of w) = true)) ->
  Inv4 links locs x (notify_supervisor w i e).
Proof.
  intros H Eg Ea Hst Htm. unfold notify_supervisor. rewrite Eg.
  destruct (a_sup a) as [s|] eqn:Es; [|exact H].
  destruct (get w s) as [asup|] eqn:Egs; [|exact H]. destruct (a_ports asup); [|exact H].
  apply inv4_push; auto.
  - congruence.
  - unfold link_of. rewrite Ea, Eg. apply (A1 _ _ _ _ (i_act _ _ _ _ H i a Eg)). exact Es.
  - intros c Ec. apply (Hst c Ec).
  - intros Ht. destruct (Htm Ht) as (Hx & _ & Hc). rewrite Ea. split; [right; exact Hx|apply Hc; discriminate].
  - intros y z Hy [<-|[]] Eab. destruct (is_terminal e) eqn:Ht.
    + destruct (Htm eq_refl) as (_ & Hn & _). split; [reflexivity|].
      destruct (is_terminal y) eqn:Hty; auto. exfalso. apply (Hn s y Hy Hty). congruence.
    + destruct e as [c| |]; try discriminate. destruct (Hst c eq_refl) as [_ Hn].
      exfalso. apply (Hn s y Hy). congruence.
Qed.

(* (DE) the head of the supervision queue starts to be handled *)
Lemma inv4_deq_enter links locs x w s a e t f :
  Inv4 links locs x w -> get w s = Some a -> a_supq a = e :: t ->
  a_supq (f a) = t -> a_cfg (f a) = a_cfg a -> a_armed (f a) = a_armed a ->
  a_kids (f a) = a_kids a -> a_sup (f a) = a_sup a -> a_notify (f a) = a_notify a ->
  a_status a <= a_status (f a) ->
  (AInv (trace_of w) x s a -> AInv (trace_of w) x s (f a)) ->
  Inv4 links locs x (emit (upd w s f) (TEnter s (Sup e))).
Proof.
  intros [h1 h2 h3 h4 h5 h6] Eg Eq Fq Fc Fa Fk Fs Fn Fst FA.
  set (w1 := upd w s f). set (ev := TEnter s (Sup e)).
  assert (Hlink : forall c, link_of (emit w1 ev) c = link_of w c).
  { intros c. unfold w1. change (link_of (upd w s f) c = link_of w c). apply link_upd_same.
    intros a0 E0. rewrite Eg in E0. injection E0 as <-. exact Fc. }
  assert (Hdead : forall c, dead (emit w1 ev) c <-> dead w c).
  { intros c. change (dead (upd w s f) c <-> dead w c). apply dead_upd_same.
    intros a0 E0. rewrite Eg in E0. injection E0 as <-. exact Fa. }
  assert (Et : trace_of (emit w1 ev) = trace_of w ++ [ev]) by reflexivity.
  assert (EKs : K w s = hl s (trace_of w) ++ e :: t).
  { unfold K, supq_of. rewrite Eg, Eq. reflexivity. }
  assert (HK : forall s', K (emit w1 ev) s' = K w s').
  { intros s'. unfold K. rewrite Et. unfold ev. rewrite hl_snoc_enter.
    change (supq_of (emit w1 (TEnter s (Sup e))) s') with (supq_of (upd w s f) s').
    destruct (Nat.eq_dec s s') as [<-|Hne].
    - rewrite Nat.eqb_refl. unfold supq_of. rewrite get_upd_same, Eg. simpl. rewrite Fq, Eq, <- app_assoc. reflexivity.
    - apply Nat.eqb_neq in Hne as Hb. rewrite Hb, app_nil_r. unfold supq_of. rewrite get_upd_other by assumption. reflexivity. }
  constructor.
  - intros c. rewrite Hlink. apply h1.
  - rewrite Et, check_go_app, h2. simpl.
    destruct (h5 s) as [q1 q2 q3 q4]. rewrite EKs in q1, q2, q3, q4.
    assert (Hine : In e (hl s (trace_of w) ++ e :: t)) by (apply in_or_app; simpl; auto).
    apply shape_app in q4 as (_ & _ & Hcr).
    apply judge_sup_split.
    + rewrite h1, (q1 e Hine). apply onat_eqb_refl.
    + destruct e as [c|c st r|c txt]; simpl.
      * rewrite (q2 c Hine). simpl. rewrite count_sup_hl, filter_len0; [reflexivity|].
        intros y Hy. apply Nat.eqb_neq. intros E.
        destruct (Hcr y (SStarted c) Hy (or_introl eq_refl)) as [A _]; [simpl; congruence|discriminate].
      * rewrite count_sup_hl, filter_len0; [reflexivity|].
        intros y Hy. destruct (Nat.eqb_spec (about y) c) as [E|]; [|apply andb_false_r].
        destruct (Hcr y (STerminated c st r) Hy (or_introl eq_refl)) as [_ A]; [simpl; congruence|].
        rewrite A. reflexivity.
      * rewrite count_sup_hl, filter_len0; [reflexivity|].
        intros y Hy. destruct (Nat.eqb_spec (about y) c) as [E|]; [|apply andb_false_r].
        destruct (Hcr y (SFailed c txt) Hy (or_introl eq_refl)) as [_ A]; [simpl; congruence|].
        rewrite A. reflexivity.
    + destruct (is_terminal e) eqn:Ht; [apply (q3 e Hine Ht)|destruct e; try discriminate; reflexivity].
  - intros i b Eb. rewrite Et. change (get (upd w s f) i = Some b) in Eb.
    apply AInv_emit with (x := x); auto; try discriminate.
    destruct (Nat.eq_dec s i) as [->|Hne].
    + rewrite get_upd_same, Eg in Eb. simpl in Eb. injection Eb as <-. apply FA. apply h3. exact Eg.
    + rewrite get_upd_other in Eb by assumption. apply h3. exact Eb.
  - change (TreeInv (upd w s f)). eapply tree_pw; [exact h4|apply pw_upd|].
    intros j b Eb. cbv beta. destruct (Nat.eqb_spec s j) as [<-|Hne].
    + rewrite Eg in Eb. injection Eb as <-. rewrite Fk, Fs. split; [|split; [reflexivity|apply nl_pres; assumption]].
      intros ks' E. exists ks'. split; [exact E|apply incl_refl].
    + split; [|auto]. intros ks' E. exists ks'. split; [exact E|apply incl_refl].
  - intros s'. destruct (h5 s') as [q1 q2 q3 q4]. constructor; rewrite ?HK.
    + intros y Hy. rewrite Hlink. auto.
    + intros c Hc. rewrite Et, post_start_ok_app, (q2 c Hc). reflexivity.
    + intros y Hy Ht. destruct (q3 y Hy Ht) as [D C]. split.
      * destruct D as [D|D]; [left; apply Hdead; exact D|right; exact D].
      * rewrite Et. apply cls_stable; [discriminate|exact C].
    + exact q4.
  - intros c. rewrite h6. symmetry. change (local_of (upd w s f) c = local_of w c). apply local_upd_same.
    intros a0 E0. rewrite Eg in E0. injection E0 as <-. exact Fc.
Qed.

(* ------------------------------------------------------------------ *)
(* the silent helpers: what they leave alone (frame)                     *)

Record SR (a a' : actor) : Prop := mkSR {
  s_supq : a_supq a' = a_supq a; s_cfg : a_cfg a' = a_cfg a; s_pc : a_pc a' = a_pc a;
  s_armed : a_armed a' = a_armed a; s_notify : a_notify a' = a_notify a;
  s_reason : a_reason a' = a_reason a; s_ports : a_ports a' = a_ports a;
  s_stop : a_stop a' = a_stop a; s_msgq : a_msgq a' = a_msgq a;
  s_status : a_status a <= a_status a';
  s_taken : a_sig_taken a = true -> a_sig_taken a' = true;
  s_sup : a_sup a' = a_sup a \/ a_sup a' = None
}.

Lemma SR_refl a : SR a a.
Proof. constructor; auto. Qed.
Lemma SR_trans a b c : SR a b -> SR b c -> SR a c.
Proof.
  intros [] []. constructor; try congruence; auto; try lia.
  destruct s_sup1 as [E|E]; [rewrite E; exact s_sup0|right; exact E].
Qed.

Definition sil (w w' : world) : Prop :=
  w_trace w' = w_trace w /\
  forall j, match get w j, get w' j with
            | Some a, Some a' => SR a a' | None, None => True | _, _ => False end.

Lemma sil_refl w : sil w w.
Proof. split; auto. intros j. destruct (get w j); auto using SR_refl. Qed.
Lemma sil_trans w1 w2 w3 : sil w1 w2 -> sil w2 w3 -> sil w1 w3.
Proof.
  intros [t1 g1] [t2 g2]. split; [congruence|]. intros j. specialize (g1 j). specialize (g2 j).
  destruct (get w1 j), (get w2 j), (get w3 j); try tauto. eapply SR_trans; eauto.
Qed.
Lemma sil_upd w k f : (forall a, SR a (f a)) -> sil w (upd w k f).
Proof.
  intros Hf. split; auto. intros j. destruct (Nat.eq_dec k j) as [->|Hne].
  - rewrite get_upd_same. destruct (get w j); simpl; auto.
  - rewrite get_upd_other by assumption. destruct (get w j); auto using SR_refl.
Qed.
Lemma sil_get w w' j a : sil w w' -> get w j = Some a -> exists a', get w' j = Some a' /\ SR a a'.
Proof. intros [_ g] E. specialize (g j). rewrite E in g. destruct (get w' j) as [a'|]; [eauto|tauto]. Qed.
Lemma sil_get_inv w w' j a' : sil w w' -> get w' j = Some a' -> exists a, get w j = Some a /\ SR a a'.
Proof. intros [_ g] E. specialize (g j). rewrite E in g. destruct (get w j) as [a|]; [eauto|tauto]. Qed.

Ltac sr_tac := let z := fresh "z" in intros z; constructor; simpl; auto; try lia.

Lemma sil_do_kill w i : sil w (do_kill w i).
Proof.
  unfold do_kill. destruct (get w i); [|apply sil_refl]. destruct (_ || _); [apply sil_refl|].
  apply sil_upd. sr_tac.
Qed.

Definition clr (p : nat) (a : actor) : actor :=
  match a_sup a with Some q => if Nat.eqb q p then upd_sup a None else a | None => a end.

Lemma SR_clr p a : SR a (clr p a).
Proof. unfold clr. destruct (a_sup a) as [q|]; [destruct (Nat.eqb q p)|]; constructor; simpl; auto. Qed.

Lemma sil_fold {A} (l : list A) (g : world -> A -> world) w :
  (forall w c, sil w (g w c)) -> sil w (fold_left g l w).
Proof.
  intros Hg. revert w. induction l as [|c t IH]; simpl; intros w; [apply sil_refl|].
  eapply sil_trans; [apply Hg|apply IH].
Qed.

Lemma sil_take_children w p : sil w (fst (take_children w p)).
Proof.
  unfold take_children. destruct (get w p) as [ap|]; [|apply sil_refl].
  destruct (a_kids ap); [|apply sil_refl]. simpl.
  apply sil_trans with (upd w p (fun a => upd_kids a None)); [apply sil_upd; sr_tac|]. apply sil_fold.
  intros w0 c. apply sil_upd. intros a. apply (SR_clr p a).
Qed.

Lemma sil_terminate_fuel fuel pending w : sil w (terminate_fuel fuel pending w).
Proof.
  revert pending w. induction fuel as [|k IH]; intros pending w; simpl; [apply sil_refl|].
  destruct pending as [|y rest]; [apply sil_refl|].
  set (w1 := match get w y with
             | Some ax => if Nat.ltb (a_status ax) 5 then do_kill w y else w
             | None => w end).
  assert (E1 : sil w w1).
  { unfold w1. destruct (get w y) as [ax|]; [|apply sil_refl].
    destruct (Nat.ltb _ 5); [apply sil_do_kill|apply sil_refl]. }
  pose proof (sil_take_children w1 y) as E2.
  destruct (take_children w1 y) as [w2 ks]. simpl in E2.
  eapply sil_trans; [exact E1|]. eapply sil_trans; [exact E2|apply IH].
Qed.

Lemma sil_unlink w i : sil w (unlink_from_supervisor w i).
Proof.
  unfold unlink_from_supervisor. destruct (get w i) as [a|]; [|apply sil_refl].
  destruct (a_sup a); [|apply sil_refl].
  eapply sil_trans; [|apply sil_upd; sr_tac].
  apply sil_upd. intros z. destruct (a_kids z); constructor; simpl; auto.
Qed.

Lemma supq_sil w w' s : sil w w' -> supq_of w' s = supq_of w s.
Proof.
  intros [_ g]. specialize (g s). unfold supq_of.
  destruct (get w s), (get w' s); try tauto. apply (s_supq _ _ g).
Qed.
Lemma K_sil w w' s : sil w w' -> K w' s = K w s.
Proof.
  intros H. unfold K. rewrite (supq_sil _ _ _ H). destruct H as [t _]. unfold trace_of. now rewrite t.
Qed.
Lemma trace_of_sil w w' : sil w w' -> trace_of w' = trace_of w.
Proof. intros [t _]. unfold trace_of. now rewrite t. Qed.
Lemma noterm_sil w w' j : sil w w' -> noterm w j -> noterm w' j.
Proof. intros H N s y Hy. rewrite (K_sil _ _ _ H) in Hy. apply (N s y Hy). Qed.
Lemma nonabout_sil w w' j : sil w w' -> nonabout w j -> nonabout w' j.
Proof. intros H N s y Hy. rewrite (K_sil _ _ _ H) in Hy. apply (N s y Hy). Qed.

(* ------------------------------------------------------------------ *)
(* kills that are not requested through a cell: terminate()             *)

Definition killsafe (w : world) (y : nat) : Prop :=
  match get w y with
  | Some a => (a_sup a = None /\ nl a) \/ a_sig_taken a = true \/ 5 <= a_status a
              \/ has_ev (ev_kill y) (trace_of w) = true
  | None => True
  end.

Lemma killsafe_sil w w' y : sil w w' -> killsafe w y -> killsafe w' y.
Proof.
  intros H. unfold killsafe. rewrite (trace_of_sil _ _ H). destruct H as [_ g]. specialize (g y).
  destruct (get w y) as [a|], (get w' y) as [a'|]; try tauto.
  destruct g. intros [[A B]|[A|[A|A]]].
  - left. split; [destruct s_sup0 as [E|E]; congruence|]. eapply nl_pres; eauto.
  - right; left. auto.
  - right; right; left. lia.
  - right; right; right. exact A.
Qed.

Lemma inv4_do_kill links locs x w y :
  Inv4 links locs x w ->
  (forall a, get w y = Some a -> a_sig_taken a = false ->
     has_ev (ev_kill y) (trace_of w) = true \/ (a_sup a = None /\ nl a)) ->
  Inv4 links locs x (do_kill w y).
Proof.
  intros H Hs. unfold do_kill. destruct (get w y) as [a|] eqn:Eg; [|exact H].
  destruct (negb (created a) || a_sig_taken a) eqn:Ec; [exact H|].
  apply orb_false_iff in Ec as [_ Ht].
  eapply inv4_upd with (x := x); [exact H|exact Eg| | | | | |left; reflexivity]; simpl; auto.
  - unfold LR. simpl. auto 6.
  - intros ks' E. exists ks'. split; [exact E|apply incl_refl].
  - specialize (Hs a eq_refl Ht). ainv_tac.
Qed.

Lemma existsb_eqb_in j l : existsb (Nat.eqb j) l = true <-> In j l.
Proof.
  rewrite existsb_exists. split.
  - intros (y & Hy & E). apply Nat.eqb_eq in E. congruence.
  - intros H. exists j. split; [exact H|apply Nat.eqb_refl].
Qed.

Lemma clr_idem p a : clr p (clr p a) = clr p a.
Proof.
  unfold clr. destruct (a_sup a) as [q|] eqn:E; [|now rewrite E].
  destruct (Nat.eqb q p) eqn:Eq; simpl; [reflexivity|]. now rewrite E, Eq.
Qed.

Lemma fold_clr_pw p l w :
  pw (fun j a => if existsb (Nat.eqb j) l then clr p a else a) w
     (fold_left (fun w c => upd w c (clr p)) l w).
Proof.
  revert w. induction l as [|c t IH]; intros w; simpl; [apply pw_refl|].
  eapply pw_ext; [|eapply pw_comp; [apply pw_upd|apply IH]].
  intros j a _. cbv beta. rewrite (Nat.eqb_sym j c).
  destruct (Nat.eqb c j); simpl; [|reflexivity].
  destruct (existsb (Nat.eqb j) t); [apply clr_idem|reflexivity].
Qed.

Definition Ftc (p : nat) (ks : list nat) (j : nat) (a : actor) : actor :=
  let a1 := if Nat.eqb p j then upd_kids a None else a in
  if existsb (Nat.eqb j) ks then clr p a1 else a1.

Lemma take_children_pw w p ap ks :
  get w p = Some ap -> a_kids ap = Some ks ->
  pw (Ftc p ks) w (fst (take_children w p)) /\ snd (take_children w p) = ks.
Proof.
  intros Eg Ek. unfold take_children. rewrite Eg, Ek. simpl. split; [|reflexivity].
  eapply pw_ext; [|eapply pw_comp; [apply pw_upd|apply (fold_clr_pw p ks)]].
  intros j a _. reflexivity.
Qed.

Lemma clr_sup p a : a_sup (clr p a) = match a_sup a with
                                      | Some q => if Nat.eqb q p then None else Some q
                                      | None => None end.
Proof. unfold clr. destruct (a_sup a) as [q|] eqn:E; [destruct (Nat.eqb q p)|]; simpl; auto. Qed.

Lemma AInv_clr tr x j p a : AInv tr x j a -> AInv tr x j (clr p a).
Proof.
  intros H. unfold clr. destruct (a_sup a) as [q|] eqn:E; [destruct (Nat.eqb q p)|]; auto.
  ainv_tac.
  - intros s Hs; discriminate.
  - intros Hp. destruct (a2 Hp) as [A _]. split; [exact A|intros N; exfalso; apply N; reflexivity].
  - intros Ha Hs. destruct (a6 Ha Hs) as [A|[A _]]; [left; exact A|congruence].
Qed.

Lemma inv4_take_children links locs x w p :
  Inv4 links locs x w ->
  Inv4 links locs x (fst (take_children w p)) /\
  (forall c, In c (snd (take_children w p)) -> killsafe (fst (take_children w p)) c).
Proof.
  intros H.
  destruct (get w p) as [ap|] eqn:Eg;
    [|unfold take_children; rewrite Eg; simpl; split; [exact H|intros c []]].
  destruct (a_kids ap) as [ks|] eqn:Ek;
    [|unfold take_children; rewrite Eg, Ek; simpl; split; [exact H|intros c []]].
  destruct (take_children_pw w p ap ks Eg Ek) as [Hpw Esnd]. rewrite Esnd.
  set (w' := fst (take_children w p)) in *.
  assert (Hfields : forall j a, a_supq (Ftc p ks j a) = a_supq a /\ a_cfg (Ftc p ks j a) = a_cfg a
            /\ a_armed (Ftc p ks j a) = a_armed a /\ a_notify (Ftc p ks j a) = a_notify a
            /\ a_status (Ftc p ks j a) = a_status a).
  { intros j a. unfold Ftc, clr. destruct (Nat.eqb p j); simpl;
      (destruct (existsb _ ks); simpl; [|auto]);
      (destruct (a_sup a) as [q|]; [destruct (Nat.eqb q p)|]; simpl; auto 6). }
  split.
  - eapply inv4_pw with (x := x); [exact H|exact Hpw| | |left; reflexivity].
    + intros j a Ea Aa. destruct (Hfields j a) as (F1 & F2 & F3 & F4 & F5). split.
      * unfold LR. rewrite F1, F2, F3, F5. auto 6.
      * unfold Ftc. assert (A1' : AInv (trace_of w) x j (if Nat.eqb p j then upd_kids a None else a)).
        { destruct (Nat.eqb p j); [|exact Aa]. clear - Aa. ainv_tac. }
        destruct (existsb _ ks); [apply AInv_clr|]; exact A1'.
    + intros p' ap' ks' c Ep Ek' Hin. destruct Hpw as [_ g]. rewrite g in Ep.
      destruct (get w p') as [ap0|] eqn:E0; simpl in Ep; [|discriminate]. injection Ep as <-.
      assert (Hpp : p <> p' /\ a_kids ap0 = Some ks').
      { unfold Ftc, clr in Ek'. destruct (Nat.eqb_spec p p') as [->|Hne].
        - exfalso. simpl in Ek'. destruct (existsb _ ks); simpl in Ek'; [|discriminate].
          destruct (a_sup ap0) as [q|]; [destruct (Nat.eqb q p')|]; simpl in Ek'; discriminate.
        - split; [exact Hne|]. destruct (existsb _ ks); [|exact Ek'].
          destruct (a_sup ap0) as [q|]; [destruct (Nat.eqb q p)|]; simpl in Ek'; exact Ek'. }
      destruct Hpp as [Hne Ek0].
      destruct (i_tree _ _ _ _ H p' ap0 ks' c E0 Ek0 Hin) as (ac & Ec & Es & En).
      exists (Ftc p ks c ac). rewrite g, Ec. simpl. split; [reflexivity|].
      destruct (Hfields c ac) as (_ & F2 & _ & F4 & F5).
      split; [|apply (nl_pres ac); [exact F4|exact F2|rewrite F5; auto|exact En]].
      unfold Ftc. assert (E1 : a_sup (if Nat.eqb p c then upd_kids ac None else ac) = Some p')
        by (destruct (Nat.eqb p c); exact Es).
      destruct (existsb _ ks); [|exact E1]. rewrite clr_sup, E1.
      assert (Hb : Nat.eqb p' p = false) by (apply Nat.eqb_neq; congruence). now rewrite Hb.
  - intros c Hc. unfold killsafe. destruct Hpw as [_ g]. rewrite g.
    destruct (get w c) as [ac|] eqn:Ec; simpl; [|exact I].
    destruct (i_tree _ _ _ _ H p ap ks c Eg Ek Hc) as (ac' & Ec' & Es & En).
    rewrite Ec in Ec'. injection Ec' as <-. left.
    destruct (Hfields c ac) as (_ & F2 & _ & F4 & F5).
    split; [|apply (nl_pres ac); [exact F4|exact F2|rewrite F5; auto|exact En]].
    unfold Ftc. apply existsb_eqb_in in Hc. rewrite Hc.
    assert (E1 : a_sup (if Nat.eqb p c then upd_kids ac None else ac) = Some p)
      by (destruct (Nat.eqb p c); exact Es).
    rewrite clr_sup, E1, Nat.eqb_refl. reflexivity.
Qed.

Lemma inv4_terminate_fuel links locs x fuel pending w :
  Inv4 links locs x w -> (forall y, In y pending -> killsafe w y) ->
  Inv4 links locs x (terminate_fuel fuel pending w).
Proof.
  revert pending w. induction fuel as [|k IH]; intros pending w H Hs; simpl; [exact H|].
  destruct pending as [|y rest]; [exact H|].
  set (w1 := match get w y with
             | Some ax => if Nat.ltb (a_status ax) 5 then do_kill w y else w
             | None => w end).
  assert (S1 : sil w w1).
  { unfold w1. destruct (get w y) as [ax|]; [|apply sil_refl].
    destruct (Nat.ltb _ 5); [apply sil_do_kill|apply sil_refl]. }
  assert (H1 : Inv4 links locs x w1).
  { unfold w1. destruct (get w y) as [ax|] eqn:Ey; [|exact H].
    destruct (Nat.ltb (a_status ax) 5) eqn:El; [|exact H].
    apply inv4_do_kill; [exact H|]. intros a Ea Ht. rewrite Ey in Ea. injection Ea as <-.
    pose proof (Hs y (or_introl eq_refl)) as Ks. unfold killsafe in Ks. rewrite Ey in Ks.
    apply Nat.ltb_lt in El.
    destruct Ks as [A|[A|[A|A]]]; [right; exact A|congruence|lia|left; exact A]. }
  destruct (inv4_take_children links locs x w1 y H1) as [H2 Hks].
  pose proof (sil_take_children w1 y) as S2.
  destruct (take_children w1 y) as [w2 ks]. simpl in H2, Hks, S2.
  apply IH; [exact H2|].
  intros z Hz. apply in_app_or in Hz as [Hz|Hz]; [apply Hks; exact Hz|].
  apply (killsafe_sil w1 w2 z S2). apply (killsafe_sil w w1 z S1). apply Hs. right. exact Hz.
Qed.

Lemma inv4_terminate links locs x w i :
  Inv4 links locs x w -> killsafe w i -> Inv4 links locs x (terminate w i).
Proof.
  intros H Hs. apply inv4_terminate_fuel; [exact H|]. intros y [<-|[]]. exact Hs.
Qed.
Lemma sil_terminate w i : sil w (terminate w i).
Proof. apply sil_terminate_fuel. Qed.

(* ------------------------------------------------------------------ *)
(* unlink, cleanup, and the ways a task ends                            *)

Lemma in_remove_nat c i ks : In c (remove_nat i ks) -> c <> i /\ In c ks.
Proof.
  unfold remove_nat. rewrite filter_In. intros [A B]. split; [|exact A].
  apply negb_true_iff, Nat.eqb_neq in B. congruence.
Qed.

Lemma upd_nth_none {A} (l : list A) s f : nth_error l s = None -> upd_nth l s f = l.
Proof.
  revert s. induction l as [|y t IH]; intros [|s]; simpl; intros E; auto; try discriminate.
  f_equal. apply IH. exact E.
Qed.
Lemma upd_none w s f : get w s = None -> upd w s f = w.
Proof. intros E. unfold upd. rewrite upd_nth_none by exact E. destruct w; reflexivity. Qed.

Definition kids_rm (i : nat) (z : actor) : actor :=
  match a_kids z with Some ks => upd_kids z (Some (remove_nat i ks)) | None => z end.

Lemma inv4_unlink links locs x w i : Inv4 links locs x w -> Inv4 links locs x (unlink_from_supervisor w i).
Proof.
  intros H. unfold unlink_from_supervisor. destruct (get w i) as [a|] eqn:Eg; [|exact H].
  destruct (a_sup a) as [s|] eqn:Es; [|exact H].
  change (fun x0 : actor => match a_kids x0 with
                            | Some ks => upd_kids x0 (Some (remove_nat i ks))
                            | None => x0 end) with (kids_rm i).
  set (w1 := upd w s (kids_rm i)).
  assert (H1 : Inv4 links locs x w1).
  { destruct (get w s) as [asup|] eqn:Egs.
    - eapply inv4_upd with (x := x); [exact H|exact Egs| | | | | |left; reflexivity];
        unfold kids_rm; destruct (a_kids asup) as [ks|] eqn:Ek; simpl; auto using LR_refl.
      + unfold LR; simpl; auto 6.
      + intros ks' E. injection E as <-. exists ks. split; [reflexivity|].
        intros c Hc. apply (in_remove_nat c i ks Hc).
      + rewrite Ek. intros ks' E. discriminate.
      + ainv_tac.
    - unfold w1. rewrite upd_none by exact Egs. exact H. }
  assert (Ei : exists a1, get w1 i = Some a1 /\ a_sup a1 = Some s).
  { unfold w1. destruct (Nat.eq_dec s i) as [->|Hne].
    - rewrite get_upd_same, Eg. simpl. eexists; split; [reflexivity|].
      unfold kids_rm. destruct (a_kids a); simpl; exact Es.
    - rewrite get_upd_other by assumption. eauto. }
  destruct Ei as (a1 & Eg1 & Es1).
  assert (Hk1 : forall as1 ks1, get w1 s = Some as1 -> a_kids as1 = Some ks1 -> ~ In i ks1).
  { unfold w1. intros as1 ks1 E1 Ek1. rewrite get_upd_same in E1.
    destruct (get w s) as [asup|]; simpl in E1; [|discriminate]. injection E1 as <-.
    unfold kids_rm in Ek1. destruct (a_kids asup) as [ks|] eqn:Ek; simpl in Ek1; [|congruence].
    injection Ek1 as <-. intros Hin. apply in_remove_nat in Hin as [A _]. congruence. }
  eapply inv4_pw with (x := x); [exact H1|apply pw_upd| | |left; reflexivity].
  - intros j b Eb Ab. cbv beta. destruct (Nat.eqb i j); [|split; [apply LR_refl|exact Ab]].
    split; [unfold LR; simpl; auto 6|]. clear - Ab. ainv_tac.
    + intros s0 Hs0; discriminate.
    + intros Hp. destruct (a2 Hp). auto.
    + intros Ha Hs0. destruct (a6 Ha Hs0) as [A|[A B]]; auto.
  - intros p' ap' ks' c Ep Ek' Hin.
    assert (Ep1 : exists ap1, get w1 p' = Some ap1 /\ a_kids ap1 = Some ks').
    { destruct (Nat.eq_dec i p') as [<-|Hne].
      - rewrite get_upd_same, Eg1 in Ep. simpl in Ep. injection Ep as <-. eauto.
      - rewrite get_upd_other in Ep by assumption. eauto. }
    destruct Ep1 as (ap1 & Ep1 & Ek1).
    destruct (i_tree _ _ _ _ H1 p' ap1 ks' c Ep1 Ek1 Hin) as (ac & Ec & Esc & Enc).
    assert (Hci : c <> i).
    { intros ->. rewrite Eg1 in Ec. injection Ec as <-. rewrite Es1 in Esc. injection Esc as <-.
      apply (Hk1 ap1 ks' Ep1 Ek1 Hin). }
    exists ac. rewrite get_upd_other by congruence. auto.
Qed.

Lemma nact_sil w w' : sil w w' -> nact w' = nact w.
Proof.
  intros [_ g]. unfold nact.
  destruct (Nat.lt_trichotomy (length (w_actors w')) (length (w_actors w))) as [L|[L|L]]; auto; exfalso.
  - specialize (g (length (w_actors w'))). unfold get in g.
    destruct (nth_error (w_actors w) _) eqn:E1; [|apply nth_error_None in E1; lia].
    destruct (nth_error (w_actors w') _) eqn:E2; [|exact g].
    assert (nth_error (w_actors w') (length (w_actors w')) = None) by (apply nth_error_None; lia). congruence.
  - specialize (g (length (w_actors w))). unfold get in g.
    destruct (nth_error (w_actors w') _) eqn:E1; [|apply nth_error_None in E1; lia].
    destruct (nth_error (w_actors w) _) eqn:E2; [|exact g].
    assert (nth_error (w_actors w) (length (w_actors w)) = None) by (apply nth_error_None; lia). congruence.
Qed.

(* the exit cleanup of actor i (in transit): at most one event, to the current supervisor *)
Lemma inv4_cleanup links locs w i a ev :
  Inv4 links locs (Some i) w -> get w i = Some a -> a_armed a = true -> noterm w i ->
  (forall e, ev = Some e -> about e = i /\ is_terminal e = true
                            /\ (cls locs e (trace_of w) = true \/ a_sup a = None)) ->
  Inv4 links locs None (cleanup w i ev).
Proof.
  intros H Eg Harm Hnt Hev. unfold cleanup. rewrite Eg, Harm. simpl.
  set (w1 := upd w i (fun a0 => upd_status a0 5)).
  assert (H1 : Inv4 links locs (Some i) w1).
  { eapply inv4_upd with (x := Some i); [exact H|exact Eg| | | | | |left; reflexivity]; simpl; auto.
    - unfold LR; simpl; auto 6.
    - intros ks' E. exists ks'. split; [exact E|apply incl_refl].
    - ainv_tac. }
  assert (S1 : sil w w1) by (apply sil_upd; sr_tac).
  assert (Ks1 : killsafe w1 i).
  { unfold killsafe, w1. rewrite get_upd_same, Eg. simpl. right; right; left. lia. }
  set (w2 := terminate w1 i).
  assert (H2 : Inv4 links locs (Some i) w2) by (apply inv4_terminate; assumption).
  assert (S2 : sil w w2) by (eapply sil_trans; [exact S1|apply sil_terminate]).
  destruct (sil_get w w2 i a S2 Eg) as (a2 & Eg2 & R2).
  set (w3 := match ev with Some e => notify_supervisor w2 i e | None => w2 end).
  assert (H3 : Inv4 links locs (Some i) w3).
  { unfold w3. destruct ev as [e|]; [|exact H2].
    destruct (Hev e eq_refl) as (Ea & Ht & Hc).
    eapply inv4_notify; [exact H2|exact Eg2|exact Ea| |].
    - intros c Ec. rewrite Ec in Ht. discriminate.
    - intros _. split; [reflexivity|]. split; [apply (noterm_sil w w2 i S2 Hnt)|].
      intros Hs. rewrite (trace_of_sil _ _ S2). destruct Hc as [Hc|Hc]; [exact Hc|].
      exfalso. apply Hs. destruct (s_sup _ _ R2) as [E|E]; congruence. }
  set (w4 := unlink_from_supervisor w3 i).
  assert (H4 : Inv4 links locs (Some i) w4) by (apply inv4_unlink; exact H3).
  assert (N4 : get w4 i <> None).
  { apply get_some_lt. unfold w4. rewrite nact_unlink.
    assert (nact w3 = nact w2) by (unfold w3; destruct ev; [apply nact_notify|reflexivity]).
    rewrite H0, (nact_sil _ _ S2). apply get_some_lt. congruence. }
  destruct (get w4 i) as [a4|] eqn:Eg4; [|congruence].
  eapply inv4_upd with (x := Some i); [exact H4|exact Eg4| | | | | |right; right; auto]; simpl; auto.
  - unfold LR; simpl. split; auto. split; auto. split; [intros; discriminate|auto].
  - intros ks' E. exists ks'. split; [exact E|apply incl_refl].
  - ainv_tac; intros; discriminate.
Qed.

Lemma K_cleanup_none w i s : K (cleanup w i None) s = K w s.
Proof.
  unfold cleanup. destruct (get w i) as [a|]; [|reflexivity]. destruct (negb (a_armed a)); [reflexivity|].
  set (w4 := unlink_from_supervisor _ i).
  assert (S : sil w w4).
  { unfold w4. eapply sil_trans; [|apply sil_unlink]. eapply sil_trans; [|apply sil_terminate].
    apply sil_upd; sr_tac. }
  rewrite <- (K_sil w w4 s S). unfold K, supq_of.
  destruct (Nat.eq_dec i s) as [->|Hne].
  - rewrite get_upd_same. destruct (get w4 s); reflexivity.
  - rewrite get_upd_other by assumption. reflexivity.
Qed.

Lemma cleanup_dead4 w i a ev :
  get w i = Some a -> a_armed a = true -> dead (cleanup w i ev) i.
Proof.
  intros Eg Harm. unfold cleanup. rewrite Eg, Harm. simpl. unfold dead. rewrite get_upd_same.
  match goal with |- match option_map _ ?G with _ => _ end => destruct G eqn:E end; simpl; [reflexivity|].
  exfalso. revert E. apply get_some_lt. rewrite nact_unlink.
  destruct ev; rewrite ?nact_notify; unfold terminate; rewrite nact_terminate_fuel, nact_upd;
    apply get_some_lt; congruence.
Qed.

Lemma inv4_finish links locs w i a e :
  Inv4 links locs (Some i) w -> get w i = Some a -> a_armed a = true -> noterm w i ->
  about e = i -> is_terminal e = true -> (cls locs e (trace_of w) = true \/ a_sup a = None) ->
  Inv4 links locs None (finish w i e).
Proof.
  intros H Eg Harm Hnt Ea Ht Hc. unfold finish.
  apply inv4_emit with (x := None); auto; try discriminate.
  eapply inv4_cleanup; eauto. intros e0 E0. injection E0 as <-. auto.
Qed.

Lemma inv4_start_failed links locs w i a :
  Inv4 links locs (Some i) w -> get w i = Some a -> a_armed a = true -> noterm w i ->
  Inv4 links locs None (start_failed w i).
Proof.
  intros H Eg Harm Hnt. unfold start_failed.
  apply inv4_emit with (x := None); auto; try discriminate.
  - eapply inv4_cleanup; eauto. intros e0 E0. discriminate.
  - intros j E. simpl in E. injection E as <-. split.
    + right. eapply cleanup_dead4; eauto.
    + intros s y Hy. rewrite K_cleanup_none in Hy. apply (Hnt s y Hy).
Qed.

(* the signal won: terminate the subtree, then the exit the phase prescribes *)
Lemma inv4_killed_exit links locs w i a c :
  Inv4 links locs (Some i) w -> get w i = Some a -> a_armed a = true -> noterm w i ->
  a_sig_taken a = true ->
  (c <> Some PreStart ->
     ending_of i (trace_of w) EndNone = EndNone /\
     (has_ev (ev_kill i) (trace_of w) = true \/ a_sup a = None)) ->
  Inv4 links locs None (killed_exit w i c).
Proof.
  intros H Eg Harm Hnt Htk Hc. unfold killed_exit.
  set (w1 := terminate w i).
  assert (Ks : killsafe w i) by (unfold killsafe; rewrite Eg; auto).
  assert (H1 : Inv4 links locs (Some i) w1) by (apply inv4_terminate; assumption).
  assert (S1 : sil w w1) by apply sil_terminate.
  destruct (sil_get w w1 i a S1 Eg) as (a1 & Eg1 & R1).
  assert (Harm1 : a_armed a1 = true) by (rewrite (s_armed _ _ R1); exact Harm).
  assert (Hnt1 : noterm w1 i) by (apply (noterm_sil w w1 i S1 Hnt)).
  assert (Hcls : c <> Some PreStart ->
            cls locs (STerminated i false (Some R_KILLED)) (trace_of w1) = true \/ a_sup a1 = None).
  { intros Hn. destruct (Hc Hn) as [He [Hk|Hk]].
    - left. rewrite (trace_of_sil _ _ S1). simpl. rewrite He. exact Hk.
    - right. destruct (s_sup _ _ R1) as [E|E]; congruence. }
  assert (Hfin5 : c <> Some PreStart ->
            Inv4 links locs None (finish (upd w1 i (fun a0 => upd_status a0 5)) i
                                    (STerminated i KILLED_IN_LOOP_HAS_STATE (Some R_KILLED)))).
  { intros Hn. eapply inv4_finish with (a := upd_status a1 5); auto.
    - eapply inv4_upd with (x := Some i); [exact H1|exact Eg1| | | | | |left; reflexivity]; simpl; auto.
      + unfold LR; simpl; auto 6.
      + intros ks' E. exists ks'. split; [exact E|apply incl_refl].
      + ainv_tac.
    - rewrite get_upd_same, Eg1. reflexivity.
    - apply (noterm_sil w1 _ i); [apply sil_upd; sr_tac|exact Hnt1]. }
  destruct c as [[| |m|e|]|].
  - eapply inv4_start_failed; eauto.
  - eapply inv4_finish; eauto. apply Hcls. discriminate.
  - apply Hfin5. discriminate.
  - apply Hfin5. discriminate.
  - eapply inv4_finish; eauto. apply Hcls. discriminate.
  - apply Hfin5. discriminate.
Qed.

(* ------------------------------------------------------------------ *)
(* starting a callback                                                  *)

Lemma K_upd_incl w i f a s y :
  get w i = Some a -> LR a (f a) -> In y (K (upd w i f) s) -> In y (K w s).
Proof.
  intros Eg HL.
  destruct (K_pw_sub _ w (upd w i f) s (pw_upd w i f)) as (h & q & q' & E1 & E2 & Hq).
  - intros j b Eb. cbv beta. destruct (Nat.eqb_spec i j) as [<-|]; [|apply LR_refl].
    rewrite Eg in Eb. injection Eb as <-. exact HL.
  - rewrite E1, E2, !in_app_iff. intros [A|A]; auto. destruct Hq as [->|(e & ->)]; simpl; auto.
Qed.

Lemma noterm_upd w i f a j :
  get w i = Some a -> LR a (f a) -> noterm w j -> noterm (upd w i f) j.
Proof. intros Eg HL N s y Hy. apply (N s y). eapply K_upd_incl; eauto. Qed.

Lemma noterm_emit w e j : is_sup_enter e = false -> noterm w j -> noterm (emit w e) j.
Proof. intros Hp N s y Hy. rewrite K_emit_plain in Hy by assumption. apply (N s y Hy). Qed.
Lemma nonabout_emit w e j : is_sup_enter e = false -> nonabout w j -> nonabout (emit w e) j.
Proof. intros Hp N s y Hy. rewrite K_emit_plain in Hy by assumption. apply (N s y Hy). Qed.

Definition same_sup_fields (a a' : actor) : Prop :=
  a_cfg a' = a_cfg a /\ a_armed a' = a_armed a /\ a_kids a' = a_kids a
  /\ a_sup a' = a_sup a /\ a_notify a' = a_notify a /\ a_status a <= a_status a'.

Lemma kids_same_incl a a' :
  a_kids a' = a_kids a -> forall ks', a_kids a' = Some ks' -> exists ks, a_kids a = Some ks /\ incl ks' ks.
Proof. intros E ks' E'. exists ks'. split; [congruence|apply incl_refl]. Qed.

Lemma inv4_upd' links locs x x' w i f a :
  Inv4 links locs x w -> get w i = Some a ->
  LR a (f a) -> a_kids (f a) = a_kids a -> a_sup (f a) = a_sup a -> a_notify (f a) = a_notify a ->
  (AInv (trace_of w) x i a -> AInv (trace_of w) x' i (f a)) ->
  (x' = x \/ x = None \/ (x = Some i /\ x' = None /\ a_armed (f a) = false)) ->
  Inv4 links locs x' (upd w i f).
Proof.
  intros H Eg HL Hk Hs Hn HA Ht. eapply inv4_upd; eauto. apply kids_same_incl. exact Hk.
Qed.

Lemma LR_sig a F p t : LR a (F a) -> LR a (upd_sig (F a) p t).
Proof. intros (A & B & C & D). unfold LR. simpl. auto 6. Qed.
Lemma LR_pc a F p : LR a (F a) -> LR a (upd_pc (F a) p).
Proof. intros (A & B & C & D). unfold LR. simpl. auto 6. Qed.

(* the pending signal is consumed and the actor leaves *)
Lemma inv4_sig_exit links locs w i a F c :
  Inv4 links locs None w -> get w i = Some a -> a_armed a = true -> a_sig a = true ->
  LR a (F a) -> same_sup_fields a (F a) ->
  (AInv (trace_of w) None i a -> AInv (trace_of w) None i (F a)) ->
  Inv4 links locs None (killed_exit (upd w i (fun a0 => upd_sig (F a0) false true)) i c).
Proof.
  intros H Eg Harm Hsig HL (Fc & Fa & Fk & Fs & Fn & Fst) HA.
  pose proof (i_act _ _ _ _ H i a Eg) as Aa.
  eapply inv4_killed_exit with (a := upd_sig (F a) false true).
  - eapply inv4_upd' with (x := None);
      [exact H|exact Eg|apply LR_sig; exact HL|exact Fk|exact Fs|exact Fn| |right; left; reflexivity].
    intros _. specialize (HA Aa). clear - HA. ainv_tac. intros; discriminate.
  - rewrite get_upd_same, Eg. reflexivity.
  - simpl. congruence.
  - apply (noterm_upd w i _ a i Eg (LR_sig a F false true HL)).
    eapply noterm_alive; eauto. discriminate.
  - reflexivity.
  - intros _. change (trace_of (upd w i _)) with (trace_of w). simpl. split.
    + apply (A7 _ _ _ _ Aa Harm). discriminate.
    + destruct (A6 _ _ _ _ Aa Harm Hsig) as [A|[A _]]; [left; exact A|right; congruence].
Qed.

Lemma AInv_enter tr i a c es f :
  AInv tr None i a -> start_from (a_pc a) c ->
  (c = PostStop -> backed i (a_reason a) tr = true) ->
  AInv tr None i (upd_pc a (InCb c es f false)).
Proof.
  intros Aa Hfrom Hb. unfold start_from in Hfrom.
  destruct Aa as [a1 a2 a3 a4 a5 a6 a7 a8]. constructor; simpl; auto.
  - destruct c; try discriminate. intros _. apply a2.
    destruct (a_pc a); try contradiction; reflexivity.
  - intros rest f0 p E. injection E as -> _ _ _. apply Hb. reflexivity.
  - intros Hp. apply a8. destruct (a_pc a); try contradiction; destruct c; try contradiction; try discriminate; reflexivity.
Qed.

Lemma inv4_start_cb links locs w i a F c :
  Inv4 links locs None w -> get w i = Some a -> a_armed a = true ->
  same_sup_fields a (F a) -> a_sig (F a) = a_sig a -> a_pc (F a) = a_pc a ->
  (match c with Sup e => a_supq a = e :: a_supq (F a) | _ => a_supq (F a) = a_supq a end) ->
  (AInv (trace_of w) None i a -> AInv (trace_of w) None i (F a)) ->
  start_from (a_pc a) c ->
  (c = PostStop -> backed i (a_reason (F a)) (trace_of w) = true) ->
  Inv4 links locs None (start_cb (upd w i F) i c).
Proof.
  intros H Eg Harm Hsf Fsig Fpc Fq HA Hfrom Hb.
  pose proof Hsf as (Fc & Fa & Fk & Fs & Fn & Fst).
  pose proof (i_act _ _ _ _ H i a Eg) as Aa.
  assert (HL : LR a (F a)).
  { unfold LR. rewrite Fc, Fa. split; [|auto]. destruct c; auto. right. eauto. }
  unfold start_cb. rewrite get_upd_same, Eg. cbn [option_map]. rewrite Fsig.
  destruct (a_sig a) eqn:Esig.
  - unfold consume_sig. rewrite upd_upd. eapply inv4_sig_exit; eauto.
  - unfold enter. rewrite get_upd_same, Eg. cbn [option_map].
    destruct (script_of (upd w i F) (F a) c) as [es f].
    match goal with |- Inv4 _ _ _ (upd (emit _ _) i (fun a0 => upd_pc a0 (InCb c ?ES f false))) =>
      set (es' := ES) end.
    rewrite upd_emit, upd_upd.
    assert (AG : AInv (trace_of w) None i (upd_pc (F a) (InCb c es' f false))).
    { apply AInv_enter; [apply HA; exact Aa|rewrite Fpc; exact Hfrom|exact Hb]. }
    destruct (is_sup_enter (TEnter i c)) eqn:Ese.
    + destruct c as [| | |e|]; try discriminate.
      eapply inv4_deq_enter with (t := a_supq (F a)); eauto.
    + apply inv4_emit with (x := None); auto; try discriminate.
      eapply inv4_upd' with (x := None);
        [exact H|exact Eg|apply LR_pc; exact HL|exact Fk|exact Fs|exact Fn|intros _; exact AG|left; reflexivity].
Qed.

(* ------------------------------------------------------------------ *)
(* pre_start returned Ok: link to the supervisor, mark running           *)

Lemma try_link_false w c s : snd (try_link w c s) = false -> fst (try_link w c s) = w.
Proof.
  unfold try_link. destruct (get w c); auto. destruct (get w s) as [b|]; auto.
  destruct (_ || _); auto. destruct (a_kids b); auto. discriminate.
Qed.

(* [fin]: the Send start() links when pre_start has returned and marks the actor running in the
   same step; the thread-local start() links first and nothing else changes *)
Definition Flk (fin : bool) (i s : nat) (ks : list nat) (j : nat) (a : actor) : actor :=
  let a1 := if Nat.eqb s j then upd_kids a (Some (i :: remove_nat i ks)) else a in
  if Nat.eqb i j then
    (if fin then upd_pc (upd_notify (upd_sup a1 (Some s)) true) Spawned else upd_sup a1 (Some s))
  else a1.

Lemma Flk_fields fin i s ks j a :
  a_supq (Flk fin i s ks j a) = a_supq a /\ a_cfg (Flk fin i s ks j a) = a_cfg a
  /\ a_armed (Flk fin i s ks j a) = a_armed a
  /\ a_sup (Flk fin i s ks j a) = (if Nat.eqb i j then Some s else a_sup a)
  /\ a_notify (Flk fin i s ks j a) = (if Nat.eqb i j && fin then true else a_notify a)
  /\ a_kids (Flk fin i s ks j a) = (if Nat.eqb s j then Some (i :: remove_nat i ks) else a_kids a)
  /\ a_status (Flk fin i s ks j a) = a_status a.
Proof. unfold Flk. destruct (Nat.eqb s j), (Nat.eqb i j), fin; simpl; repeat split; reflexivity. Qed.

(* the common part: linking i (so far without supervisor) under s *)
Lemma inv4_link_gen links locs (fin : bool) w i a s asup ks :
  Inv4 links locs None w -> get w i = Some a -> c_link (a_cfg a) = Some s ->
  get w s = Some asup -> a_kids asup = Some ks ->
  a_sup a = None -> a_notify a = false ->
  (a_armed a = true -> a_sig a = true -> has_ev (ev_kill i) (trace_of w) = true) ->
  (if fin return Prop then exists p, a_pc a = InCb PreStart [] ROk p
   else c_local (a_cfg a) = true /\ 1 <= a_status a) ->
  Inv4 links locs None
    (upd (upd w s (fun a0 => upd_kids a0 (Some (i :: remove_nat i ks)))) i
         (fun a0 => if fin then upd_pc (upd_notify (upd_sup a0 (Some s)) true) Spawned
                    else upd_sup a0 (Some s))).
Proof.
  intros H Eg Hl Egs Eks Hsup Hnot Hsig Hfin.
  pose proof (i_act _ _ _ _ H i a Eg) as Aa.
  set (wL := upd (upd w s (fun a0 => upd_kids a0 (Some (i :: remove_nat i ks)))) i
                 (fun a0 => if fin then upd_pc (upd_notify (upd_sup a0 (Some s)) true) Spawned
                            else upd_sup a0 (Some s))).
  assert (Hpw : pw (Flk fin i s ks) w wL).
  { eapply pw_ext; [|eapply pw_comp; apply pw_upd]. intros j b _. unfold Flk. cbv beta.
    destruct (Nat.eqb s j), (Nat.eqb i j), fin; reflexivity. }
  eapply inv4_pw with (x := None); [exact H|exact Hpw| | |left; reflexivity].
  - intros j b Eb Ab. destruct (Flk_fields fin i s ks j b) as (F1 & F2 & F3 & F4 & F5 & F6 & F7). split.
    + unfold LR. rewrite F1, F2, F3, F7. auto 6.
    + unfold Flk. destruct (Nat.eqb_spec i j) as [<-|Hne].
      * rewrite Eg in Eb. injection Eb as <-.
        assert (A1' : AInv (trace_of w) None i (if Nat.eqb s i then upd_kids a (Some (i :: remove_nat i ks)) else a)).
        { destruct (Nat.eqb s i); [|exact Aa]. clear - Aa. ainv_tac. }
        set (a1 := if Nat.eqb s i then _ else a) in *.
        assert (E1 : a_cfg a1 = a_cfg a /\ a_pc a1 = a_pc a /\ a_notify a1 = a_notify a /\ a_sup a1 = a_sup a
                     /\ a_status a1 = a_status a /\ a_armed a1 = a_armed a /\ a_sig a1 = a_sig a)
          by (unfold a1; destruct (Nat.eqb s i); simpl; auto 8).
        destruct E1 as (C1 & C2 & C3 & C4 & C5 & C6 & C7).
        clear - A1' C1 C2 C3 C4 C5 C6 C7 Hl Hsup Hnot Hsig Hfin.
        destruct A1' as [a1' a2 a3 a4 a5 a6 a7 a8]. destruct fin.
        -- destruct Hfin as (p & Epc). constructor; simpl; auto.
           ++ intros s0 E. injection E as <-. congruence.
           ++ intros; discriminate.
           ++ intros; discriminate.
           ++ intros Ha Hs. left. apply Hsig; congruence.
           ++ intros _. apply a8. rewrite C2, Epc. reflexivity.
        -- destruct Hfin as (Hloc & Hst). constructor; simpl; auto.
           ++ intros s0 E. injection E as <-. congruence.
           ++ intros Hp. split; [rewrite C3; exact Hnot|]. intros _. split; [congruence|lia].
           ++ intros Ha Hs. left. apply Hsig; congruence.
      * destruct (Nat.eqb s j); [|exact Ab]. clear - Ab. ainv_tac.
  - intros p' ap' ks' c Ep Ek' Hin. destruct Hpw as [_ g].
    rewrite g in Ep. destruct (get w p') as [ap0|] eqn:E0; simpl in Ep; [|discriminate]. injection Ep as <-.
    destruct (Flk_fields fin i s ks p' ap0) as (_ & _ & _ & _ & _ & F6 & _). rewrite F6 in Ek'.
    assert (Hgc : forall ac, get w c = Some ac -> c <> i ->
              exists ac', get wL c = Some ac' /\ a_sup ac' = a_sup ac /\ (nl ac -> nl ac')).
    { intros ac Ec Hci. exists (Flk fin i s ks c ac). rewrite g, Ec. split; [reflexivity|].
      destruct (Flk_fields fin i s ks c ac) as (_ & F2 & _ & F4 & F5 & _ & F7).
      assert (Hb : Nat.eqb i c = false) by (apply Nat.eqb_neq; congruence). rewrite Hb in F4, F5. simpl in F5.
      split; [exact F4|]. apply nl_pres; [exact F5|exact F2|rewrite F7; auto]. }
    assert (Hgi : exists ai', get wL i = Some ai' /\ a_sup ai' = Some s /\ nl ai').
    { exists (Flk fin i s ks i a). rewrite g, Eg. split; [reflexivity|].
      destruct (Flk_fields fin i s ks i a) as (_ & F2 & _ & F4 & F5 & _ & F7). rewrite Nat.eqb_refl in F4, F5.
      split; [exact F4|]. unfold nl. rewrite F5, F2, F7. simpl. destruct fin; [left; reflexivity|right; exact Hfin]. }
    destruct (Nat.eqb_spec s p') as [<-|Hne].
    + injection Ek' as <-. destruct Hin as [<-|Hin].
      * destruct Hgi as (ai' & A & B & C). eauto.
      * apply in_remove_nat in Hin as [Hci Hin].
        rewrite Egs in E0. injection E0 as <-.
        destruct (i_tree _ _ _ _ H s asup ks c Egs Eks Hin) as (ac & Ec & Es & En).
        destruct (Hgc ac Ec Hci) as (ac' & A & B & C). exists ac'. rewrite B. auto.
    + destruct (i_tree _ _ _ _ H p' ap0 ks' c E0 Ek' Hin) as (ac & Ec & Es & En).
      assert (Hci : c <> i).
      { intros ->. rewrite Eg in Ec. injection Ec as <-. congruence. }
      destruct (Hgc ac Ec Hci) as (ac' & A & B & C). exists ac'. rewrite B. auto.
Qed.

Lemma A2_send tr x i a :
  AInv tr x i a -> pre_pc (a_pc a) = true -> c_local (a_cfg a) = false ->
  a_sup a = None /\ a_notify a = false.
Proof.
  intros Aa Hp Hl. destruct (A2 _ _ _ _ Aa Hp) as [A B]. split; [|exact A].
  destruct (a_sup a) as [q|]; [|reflexivity]. destruct B as [B _]; [discriminate|congruence].
Qed.

Lemma inv4_link_ok links locs w i a s w1 p :
  Inv4 links locs None w -> get w i = Some a -> c_link (a_cfg a) = Some s -> c_local (a_cfg a) = false ->
  a_pc a = InCb PreStart [] ROk p -> a_armed a = true -> try_link w i s = (w1, true) ->
  Inv4 links locs None (upd w1 i (fun a0 => upd_pc (upd_notify a0 true) Spawned)).
Proof.
  intros H Eg Hl Hloc Epc Harm Etl. unfold try_link in Etl. rewrite Eg in Etl.
  destruct (get w s) as [asup|] eqn:Egs; [|discriminate].
  destruct (_ || _); [discriminate|]. destruct (a_kids asup) as [ks|] eqn:Eks; [|discriminate].
  injection Etl as <-.
  pose proof (i_act _ _ _ _ H i a Eg) as Aa.
  assert (Hpre : a_sup a = None /\ a_notify a = false)
    by (apply (A2_send _ _ _ _ Aa); [rewrite Epc; reflexivity|exact Hloc]).
  destruct Hpre as [Hs0 Hn0].
  rewrite upd_upd.
  apply (inv4_link_gen links locs true w i a s asup ks); auto.
  - intros Ha Hsig. destruct (A6 _ _ _ _ Aa Ha Hsig) as [A|[_ [A|[A _]]]]; [exact A|congruence|congruence].
  - eauto.
Qed.

(* the thread-local start(): status Starting has just been set, link before pre_start *)
Lemma inv4_link_local links locs w i a s w1 :
  Inv4 links locs None w -> get w i = Some a -> c_link (a_cfg a) = Some s -> c_local (a_cfg a) = true ->
  1 <= a_status a -> a_sup a = None -> a_notify a = false ->
  (a_armed a = true -> a_sig a = true -> has_ev (ev_kill i) (trace_of w) = true) ->
  try_link w i s = (w1, true) ->
  Inv4 links locs None w1.
Proof.
  intros H Eg Hl Hloc Hst Hs0 Hn0 Hsig Etl. unfold try_link in Etl. rewrite Eg in Etl.
  destruct (get w s) as [asup|] eqn:Egs; [|discriminate].
  destruct (_ || _); [discriminate|]. destruct (a_kids asup) as [ks|] eqn:Eks; [|discriminate].
  injection Etl as <-.
  apply (inv4_link_gen links locs false w i a s asup ks); auto.
Qed.

(* ------------------------------------------------------------------ *)
(* a callback returns                                                   *)

Lemma backed_app c r t e : backed c r t = true -> backed c r (t ++ [e]) = true.
Proof.
  unfold backed. rewrite !has_ev_app. intros H.
  apply orb_true_iff in H as [H|H]; [rewrite H; reflexivity|].
  apply andb_true_iff in H as [H1 H2]. rewrite H1, H2. simpl. apply orb_true_r.
Qed.

Lemma nonabout_upd w i f a j :
  get w i = Some a -> LR a (f a) -> nonabout w j -> nonabout (upd w i f) j.
Proof. intros Eg HL N s y Hy. apply (N s y). eapply K_upd_incl; eauto. Qed.

Lemma LR_status a v : LR a (upd_status a v).
Proof. unfold LR. simpl. auto 6. Qed.

Lemma inv4_after_cb links locs w i a c f p :
  Inv4 links locs None w -> get w i = Some a -> a_pc a = InCb c [] f p -> a_armed a = true ->
  Inv4 links locs None (after_cb (emit w (TExit i c f)) i c f).
Proof.
  intros H Eg Epc Harm.
  pose proof (i_act _ _ _ _ H i a Eg) as Aa.
  assert (Nt : noterm w i) by (eapply noterm_alive; eauto; discriminate).
  set (e := TExit i c f). set (wx := emit w e).
  assert (Egx : get wx i = Some a) by exact Eg.
  assert (Ntx : noterm wx i) by (apply noterm_emit; [reflexivity|exact Nt]).
  assert (Etx : trace_of wx = trace_of w ++ [e]) by reflexivity.
  assert (HXd : subj_end e = Some i -> Inv4 links locs (Some i) wx).
  { intros Es. apply inv4_emit with (x := None); auto.
    - intros j Ej. rewrite Es in Ej. injection Ej as <-. auto.
    - intros j b Ee. unfold e in Ee. injection Ee as -> -> ->. discriminate Es. }
  assert (HXp : forall x', subj_end e = None -> (c = PostStart -> f <> ROk) -> Inv4 links locs x' wx).
  { intros x' Es Hn. apply inv4_emit with (x := None); auto.
    - intros j Ej. rewrite Es in Ej. discriminate.
    - intros j b Ee. unfold e in Ee. injection Ee as -> -> ->. exfalso. apply Hn; reflexivity. }
  assert (Hcf : forall t, (f = RErr t \/ f = RPanic t) -> c <> PreStart ->
                cls locs (SFailed i t) (trace_of wx) = true /\ subj_end e = Some i).
  { intros t Hf Hc. rewrite Etx. simpl. rewrite ending_of_app. unfold e. simpl. rewrite Nat.eqb_refl.
    destruct Hf as [-> | ->]; destruct c; try congruence; simpl; rewrite Nat.eqb_refl; auto. }
  assert (Dfin : forall t, (f = RErr t \/ f = RPanic t) -> c <> PreStart ->
                 Inv4 links locs None (finish wx i (SFailed i t))).
  { intros t Hf Hc. destruct (Hcf t Hf Hc) as [C S]. eapply inv4_finish; eauto. }
  assert (Dfin5 : forall t, (f = RErr t \/ f = RPanic t) -> c <> PreStart ->
                 Inv4 links locs None (finish (upd wx i (fun a0 => upd_status a0 5)) i (SFailed i t))).
  { intros t Hf Hc. destruct (Hcf t Hf Hc) as [C S].
    eapply inv4_finish with (a := upd_status a 5); auto.
    - eapply inv4_upd' with (x := Some i);
        [apply HXd; exact S|exact Egx|apply LR_status|reflexivity|reflexivity|reflexivity| |left; reflexivity].
      clear. ainv_tac.
    - rewrite get_upd_same, Egx. reflexivity.
    - apply (noterm_upd wx i _ a i Egx (LR_status a 5) Ntx). }
  assert (Didle : subj_end e = None -> c <> PostStart -> c <> PreStart -> c <> PostStop ->
                  Inv4 links locs None (upd wx i (fun a0 => upd_pc a0 Idle))).
  { intros Es Hc1 Hc2 Hc3.
    eapply inv4_upd' with (x := None);
      [apply HXp; [exact Es|intros; contradiction]|exact Egx|apply (LR_pc a (fun z => z)); apply LR_refl
      |reflexivity|reflexivity|reflexivity| |left; reflexivity].
    clear. ainv_tac; intros; discriminate. }
  unfold after_cb. rewrite Egx.
  destruct c as [| |m|ev|]; destruct f as [|t|t];
    try (apply Dfin; [eauto|discriminate]); try (apply Dfin5; [eauto|discriminate]);
    try (apply Didle; [reflexivity|discriminate|discriminate|discriminate]).
  - (* pre_start Ok *)
    assert (HP : Inv4 links locs None wx) by (apply HXp; [reflexivity|discriminate]).
    (* marking the actor running, no (further) link: unlinked, or thread-local (linked before) *)
    assert (Hrun : (c_local (a_cfg a) = true \/ a_sup a = None) ->
              Inv4 links locs None (upd wx i (fun a0 => upd_pc (upd_notify a0 true) Spawned))).
    { intros Hlk.
      eapply inv4_pw with (x := None); [exact HP|apply pw_upd| | |left; reflexivity].
      * intros j b Eb Ab. cbv beta. destruct (Nat.eqb_spec i j) as [<-|Hne]; [|split; [apply LR_refl|exact Ab]].
        rewrite Egx in Eb. injection Eb as <-. split; [unfold LR; simpl; auto 6|].
        pose proof (A2 _ _ _ _ Aa) as a2'. rewrite Epc in a2'. specialize (a2' eq_refl).
        pose proof (A8 _ _ _ _ Ab) as a8'. rewrite Epc in a8'. specialize (a8' eq_refl).
        clear - Ab a2' a8' Hlk. destruct Ab as [a1 a2 a3 a4 a5 a6 a7 a8]. constructor; simpl; auto;
          try (intros; discriminate).
        intros Ha Hs. destruct (a6 Ha Hs) as [A|[A B]]; [left; exact A|right; split; [exact A|]].
        unfold nl. simpl. left. reflexivity.
      * eapply tree_pw; [exact (i_tree _ _ _ _ HP)|apply pw_upd|].
        intros j b Eb. cbv beta. destruct (Nat.eqb i j); simpl;
          (split; [|split; [reflexivity|]]);
          try (intros ks' E; exists ks'; (split; [exact E|apply incl_refl]));
          try (intros N; exact N).
        intros N. unfold nl. simpl. left. reflexivity. }
    destruct (c_local (a_cfg a)) eqn:Eloc.
    + apply inv4_emit with (x := None); auto; try discriminate.
    + destruct (c_link (a_cfg a)) as [s|] eqn:El.
      * destruct (try_link wx i s) as [w1 ok] eqn:Etl. destruct ok.
        -- apply inv4_emit with (x := None); auto; try discriminate.
           eapply inv4_link_ok with (w := wx); eauto.
        -- assert (E1 : w1 = wx) by (rewrite <- (try_link_false wx i s); rewrite Etl; reflexivity).
           rewrite E1. eapply inv4_start_failed; eauto. apply HXp; [reflexivity|discriminate].
      * apply inv4_emit with (x := None); auto; try discriminate.
        apply Hrun. right. apply (A2_send _ _ _ _ Aa); [rewrite Epc; reflexivity|exact Eloc].
  - (* pre_start failed *)
    eapply inv4_start_failed; eauto.
  - eapply inv4_start_failed; eauto.
  - (* post_start Ok: Idle, then ActorStarted to the supervisor *)
    set (g := fun a0 => upd_pc (upd_status a0 2) Idle).
    change (Inv4 links locs None (notify_supervisor (emit (upd w i g) e) i (SStarted i))).
    assert (H1 : Inv4 links locs None (upd w i g)).
    { eapply inv4_upd' with (x := None);
        [exact H|exact Eg|unfold LR, g; simpl; auto 6|reflexivity|reflexivity|reflexivity| |left; reflexivity].
      clear. unfold g. ainv_tac; intros; discriminate. }
    assert (H2 : Inv4 links locs None (emit (upd w i g) e)).
    { apply inv4_emit with (x := None); auto.
      - intros j Ej. discriminate.
      - intros j b Ee Eb. injection Ee as <-. rewrite get_upd_same, Eg in Eb. injection Eb as <-. reflexivity. }
    assert (Na : nonabout w i).
    { intros s y Hy Ey. destruct (is_terminal y) eqn:Ht; [exact (Nt s y Hy Ht Ey)|].
      destruct y as [c0| |]; try discriminate. simpl in Ey. subst c0.
      pose proof (Q2 _ _ _ _ (i_K _ _ _ _ H s) i Hy) as P.
      rewrite (A8 _ _ _ _ Aa) in P; [discriminate|rewrite Epc; reflexivity]. }
    eapply inv4_notify with (a := g a); [exact H2|rewrite get_emit, get_upd_same, Eg; reflexivity|reflexivity| |].
    + intros c0 Ec. injection Ec as <-. split.
      * change (trace_of (emit (upd w i g) e)) with (trace_of w ++ [e]).
        rewrite post_start_ok_app. unfold e. rewrite Nat.eqb_refl. apply orb_true_r.
      * apply nonabout_emit; [reflexivity|].
        apply (nonabout_upd w i g a i Eg); [unfold LR, g; simpl; auto 6|exact Na].
    + intros; discriminate.
  - (* post_stop Ok *)
    eapply inv4_finish; eauto.
    left. rewrite Etx. simpl. rewrite ending_of_app. unfold e. simpl. rewrite Nat.eqb_refl.
    assert (El : nth i locs false = c_local (a_cfg a)).
    { rewrite (i_locs _ _ _ _ H i). unfold local_of. rewrite Eg. reflexivity. }
    rewrite El, eqb_reflx. simpl.
    apply backed_app. apply (A5 _ _ _ _ Aa _ _ _ Epc).
Qed.

(* ------------------------------------------------------------------ *)
(* requests made through a cell                                         *)

Lemma inv_armed w i a : Inv None w -> get w i = Some a -> a_pc a <> Done -> a_armed a = true.
Proof.
  intros H Eg Hn. specialize (H i). unfold InvA in H. rewrite Eg in H. simpl in H.
  destruct H as (s & _ & _ & _ & (_ & _ & Harm & _)).
  destruct (a_armed a) eqn:E; auto.
Qed.

Lemma inv4_retag links locs w i : Inv4 links locs None w -> Inv4 links locs (Some i) w.
Proof.
  intros H. eapply inv4_pw with (x := None) (F := fun _ a => a);
    [exact H|apply pw_refl| |exact (i_tree _ _ _ _ H)|right; left; reflexivity].
  intros j b Eb Ab. split; [apply LR_refl|]. destruct Ab. constructor; auto.
  intros Ha _. apply A15; [exact Ha|discriminate].
Qed.

Lemma inv4_emit_plain links locs x w e :
  Inv4 links locs x w -> is_sup_enter e = false -> subj_end e = None ->
  (forall j, e <> TExit j PostStart ROk) -> Inv4 links locs x (emit w e).
Proof.
  intros H Hp Hs Hn. apply inv4_emit with (x := x); auto.
  - intros j E. rewrite Hs in E. discriminate.
  - intros j b E. exfalso. apply (Hn j E).
Qed.

Lemma inv4_req_send links locs w i m : Inv4 links locs None w -> Inv4 links locs None (req_send w i m).
Proof.
  intros H. unfold req_send. destruct (is_created w i); [|exact H].
  unfold do_send. destruct (get w i) as [a|] eqn:Eg; [|exact H].
  destruct (can_send a); apply inv4_emit_plain; try reflexivity; try (intros; discriminate); [|exact H].
  eapply inv4_upd' with (x := None);
    [exact H|exact Eg|unfold LR; simpl; auto 6|reflexivity|reflexivity|reflexivity| |left; reflexivity].
  ainv_tac. intros Hm. apply a4. apply in_marker_app in Hm. exact Hm.
Qed.

Lemma inv4_req_kill links locs w i : Inv4 links locs None w -> Inv4 links locs None (req_kill w i).
Proof.
  intros H. unfold req_kill. destruct (is_created w i); [|exact H].
  apply inv4_do_kill.
  - apply inv4_emit_plain; auto; intros; discriminate.
  - intros a _ _. left. rewrite trace_of_emit, has_ev_app. simpl. rewrite Nat.eqb_refl. apply orb_true_r.
Qed.

Lemma inv4_req_stop links locs w i r : Inv4 links locs None w -> Inv4 links locs None (req_stop w i r).
Proof.
  intros H. unfold req_stop. destruct (is_created w i); [|exact H].
  assert (H1 : Inv4 links locs None (emit w (TStopReq i r))) by (apply inv4_emit_plain; auto; intros; discriminate).
  unfold do_stop. destruct (get (emit w (TStopReq i r)) i) as [a|] eqn:Eg; [|exact H1].
  destruct (_ || _); [exact H1|].
  eapply inv4_upd' with (x := None);
    [exact H1|exact Eg|unfold LR; simpl; auto 6|reflexivity|reflexivity|reflexivity| |left; reflexivity].
  ainv_tac. intros r0 E. destruct (a_ports a); [|discriminate]. injection E as <-.
  rewrite trace_of_emit, has_ev_app. simpl. rewrite Nat.eqb_refl, onat_eqb_refl. apply orb_true_r.
Qed.

Lemma AInv_drain tr x i a :
  has_ev (ev_drain i) tr = true -> AInv tr x i a -> AInv tr x i (drain_upd a).
Proof.
  intros Hd Aa. unfold drain_upd. destruct (Nat.ltb (a_status a) 5); simpl;
    (destruct (a_marker a); simpl; [|destruct (a_ports a); simpl]); ainv_tac.
Qed.

Lemma drain_upd_sup a :
  a_supq (drain_upd a) = a_supq a /\ a_cfg (drain_upd a) = a_cfg a /\ a_armed (drain_upd a) = a_armed a
  /\ a_kids (drain_upd a) = a_kids a /\ a_sup (drain_upd a) = a_sup a /\ a_notify (drain_upd a) = a_notify a
  /\ a_status a <= a_status (drain_upd a).
Proof.
  unfold drain_upd. destruct (Nat.ltb (a_status a) 5); simpl;
    (destruct (a_marker a); simpl; [|destruct (a_ports a); simpl]); repeat split; auto; reflexivity.
Qed.

Lemma inv4_req_drain links locs w i : Inv4 links locs None w -> Inv4 links locs None (req_drain w i).
Proof.
  intros H. unfold req_drain. destruct (is_created w i); [|exact H].
  assert (H1 : Inv4 links locs None (emit w (TDrainReq i))) by (apply inv4_emit_plain; auto; intros; discriminate).
  unfold do_drain. destruct (get (emit w (TDrainReq i)) i) as [a|] eqn:Eg; [|exact H1].
  destruct (negb (created a)); [exact H1|].
  change (Inv4 links locs None (upd (emit w (TDrainReq i)) i drain_upd)).
  destruct (drain_upd_sup a) as (D1 & D2 & D3 & D4 & D5 & D6 & D7).
  eapply inv4_upd' with (x := None);
    [exact H1|exact Eg|unfold LR; rewrite D1, D2, D3; auto 6|exact D4|exact D5|exact D6| |left; reflexivity].
  apply AInv_drain. rewrite trace_of_emit, has_ev_app. simpl. rewrite Nat.eqb_refl. apply orb_true_r.
Qed.

Lemma inv4_do_eff links locs w e :
  Inv4 links locs None w -> Inv4 links locs None (do_eff w e).
Proof.
  intros H. destruct e; simpl; auto using inv4_req_send, inv4_req_stop, inv4_req_kill, inv4_req_drain.
Qed.

(* ------------------------------------------------------------------ *)
(* one segment of a poll                                                *)

Lemma AInv_pc_cb tr x i a c r f p r' f' p' :
  a_pc a = InCb c r f p -> AInv tr x i a -> AInv tr x i (upd_pc a (InCb c r' f' p')).
Proof.
  intros Epc Aa. destruct Aa as [a1 a2 a3 a4 a5 a6 a7 a8]. rewrite Epc in *. constructor; simpl; auto.
  intros rest f0 p0 E. injection E as -> _ _ _. eapply a5. reflexivity.
Qed.

Lemma inv4_seg links locs w i :
  Inv None w -> Inv4 links locs None w -> Inv4 links locs None (fst (seg w i)).
Proof.
  intros HI H. unfold seg. destruct (get w i) as [a|] eqn:Eg; [|exact H].
  pose proof (i_act _ _ _ _ H i a Eg) as Aa.
  destruct (a_pc a) as [| | |c rest f parked| |] eqn:Epc; try exact H.
  - (* NotStarted *)
    assert (Harm : a_armed a = true) by (eapply inv_armed; eauto; rewrite Epc; discriminate).
    destruct (Nat.eqb (a_status a) 0) eqn:Est; simpl.
    2: { eapply inv4_start_failed; eauto using inv4_retag. eapply noterm_alive; eauto. discriminate. }
    apply Nat.eqb_eq in Est.
    set (w0 := upd w i (fun a => upd_status a 1)).
    assert (H0 : Inv4 links locs None w0).
    { eapply inv4_upd' with (x := None);
        [exact H|exact Eg|apply LR_status|reflexivity|reflexivity|reflexivity| |left; reflexivity].
      clear. ainv_tac. }
    assert (Eg0 : get w0 i = Some (upd_status a 1)) by (unfold w0; rewrite get_upd_same, Eg; reflexivity).
    assert (Hstart : forall w1 a1, Inv4 links locs None w1 -> get w1 i = Some a1 ->
               a_pc a1 = NotStarted -> a_armed a1 = true ->
               Inv4 links locs None (start_cb w1 i PreStart)).
    { intros w1 a1 H1 Eg1 Epc1 Harm1. rewrite <- (upd_id w1 i).
      eapply inv4_start_cb with (a := a1) (F := fun z => z); eauto; try reflexivity.
      - unfold same_sup_fields; auto 8.
      - rewrite Epc1. exact I.
      - discriminate. }
    (* before Starting was set: no supervisor yet, and a pending kill is a logged one *)
    pose proof (A2 _ _ _ _ Aa) as a2'. rewrite Epc in a2'. destruct (a2' eq_refl) as [Hn0 Hs0'].
    assert (Hs0 : a_sup a = None).
    { destruct (a_sup a) as [q|]; [|reflexivity]. destruct Hs0' as [_ L]; [discriminate|lia]. }
    assert (Hsig0 : a_sig a = true -> has_ev (ev_kill i) (trace_of w) = true).
    { intros Hsig. destruct (A6 _ _ _ _ Aa Harm Hsig) as [A|[_ [A|[_ A]]]]; [exact A|congruence|lia]. }
    destruct (c_local (a_cfg a)) eqn:Eloc; [|simpl; eapply Hstart; eauto].
    destruct (c_link (a_cfg a)) as [s|] eqn:El; [|simpl; eapply Hstart; eauto].
    fold w0. destruct (try_link w0 i s) as [w1 ok] eqn:Etl. destruct ok; simpl.
    + assert (H1 : Inv4 links locs None w1).
      { eapply inv4_link_local with (w := w0) (a := upd_status a 1); eauto; simpl; auto; lia. }
      assert (E1 : exists a1, get w1 i = Some a1 /\ core_eq a1 (upd_status a 1)).
      { assert (Ew : w1 = fst (try_link w0 i s)) by (rewrite Etl; reflexivity).
        destruct (get w1 i) as [a1|] eqn:G1.
        - exists a1. split; [reflexivity|]. rewrite Ew in G1. eapply try_link_core; eauto.
        - exfalso. assert (L : i < nact w1).
          { rewrite Ew, nact_try_link. apply get_some_lt. congruence. }
          apply get_some_lt in L. congruence. }
      destruct E1 as (a1 & Eg1 & (C1 & _ & _ & _ & _ & _ & C7 & _)). simpl in C1, C7.
      eapply Hstart; eauto; congruence.
    + assert (E1 : w1 = w0) by (rewrite <- (try_link_false w0 i s); rewrite Etl; reflexivity).
      rewrite E1. eapply inv4_start_failed with (a := upd_status a 1); eauto using inv4_retag.
      apply (noterm_upd w i _ a i Eg (LR_status a 1)). eapply noterm_alive; eauto. discriminate.
  - (* Spawned *)
    assert (Harm : a_armed a = true) by (eapply inv_armed; eauto; rewrite Epc; discriminate).
    simpl. rewrite <- (upd_id w i).
    eapply inv4_start_cb with (a := a) (F := fun z => z); eauto; try reflexivity.
    + unfold same_sup_fields; auto 8.
    + rewrite Epc. exact I.
    + discriminate.
  - (* inside a callback *)
    assert (Harm : a_armed a = true) by (eapply inv_armed; eauto; rewrite Epc; discriminate).
    assert (Hadv : forall r' p', Inv4 links locs None (upd w i (fun a0 => upd_pc a0 (InCb c r' f p')))).
    { intros r' p'. eapply inv4_upd' with (x := None);
        [exact H|exact Eg|apply (LR_pc a (fun z => z)); apply LR_refl|reflexivity|reflexivity|reflexivity
        |apply AInv_pc_cb with (1 := Epc)|left; reflexivity]. }
    assert (Hadv_e : forall e r' p', is_sup_enter e = false -> subj_end e = None ->
                     (forall j, e <> TExit j PostStart ROk) ->
                     Inv4 links locs None (upd (emit w e) i (fun a0 => upd_pc a0 (InCb c r' f p')))).
    { intros e r' p' E1 E2 E3. rewrite upd_emit. apply inv4_emit_plain; auto. }
    destruct rest as [|e r]; simpl.
    + eapply inv4_after_cb; eauto.
    + destruct e as [g| |b m|b r0|b|b]; simpl.
      * destruct (is_open w g); simpl.
        -- destruct parked; [apply Hadv_e; auto; intros; discriminate|apply Hadv].
        -- destruct parked; simpl; [exact H|apply Hadv_e; auto; intros; discriminate].
      * apply Hadv_e; auto; intros; discriminate.
      * apply inv4_req_send. apply Hadv.
      * apply inv4_req_stop. apply Hadv.
      * apply inv4_req_kill. apply Hadv.
      * apply inv4_req_drain. apply Hadv.
  - (* Idle *)
    assert (Harm : a_armed a = true) by (eapply inv_armed; eauto; rewrite Epc; discriminate).
    destruct (a_sig a) eqn:Esig; simpl.
    + unfold consume_sig.
      apply (inv4_sig_exit links locs w i a (fun z => z) None H Eg Harm Esig (LR_refl a)); auto.
      unfold same_sup_fields; auto 8.
    + destruct (a_stop a) as [r0|] eqn:Estop; simpl.
      * unfold graceful_exit. rewrite upd_upd.
        eapply inv4_start_cb with (a := a); eauto; try reflexivity.
        -- unfold same_sup_fields; simpl; auto 8.
        -- clear - Epc. ainv_tac; try (intros; discriminate). rewrite Epc. intros; discriminate.
        -- rewrite Epc. exact I.
        -- intros _. simpl. unfold backed. rewrite (A3 _ _ _ _ Aa r0 Estop). reflexivity.
      * destruct (a_supq a) as [|e t] eqn:Esup; simpl.
        -- destruct (a_msgq a) as [|[m|] t] eqn:Emsg; simpl.
           ++ exact H.
           ++ eapply inv4_start_cb with (a := a); eauto; try reflexivity.
              ** unfold same_sup_fields; simpl; auto 8.
              ** intros Ab. pose proof (A4 _ _ _ _ Ab) as a4'. rewrite Emsg in a4'.
                 clear - Ab a4'. ainv_tac; try (intros Hm; apply a4'; right; exact Hm).
              ** rewrite Epc. exact I.
              ** discriminate.
           ++ unfold graceful_exit. rewrite upd_upd.
              eapply inv4_start_cb with (a := a); eauto; try reflexivity.
              ** unfold same_sup_fields; simpl; auto 8.
              ** intros Ab. pose proof (A4 _ _ _ _ Ab) as a4'. rewrite Emsg in a4'.
                 clear - Ab a4' Epc. ainv_tac; try (rewrite Epc; intros; discriminate);
                   try (intros Hm; apply a4'; right; exact Hm).
              ** rewrite Epc. exact I.
              ** intros _. simpl. unfold backed. simpl.
                 rewrite (A4 _ _ _ _ Aa); [apply orb_true_r|rewrite Emsg; left; reflexivity].
        -- eapply inv4_start_cb with (a := a); eauto; try reflexivity.
           ++ unfold same_sup_fields; simpl; auto 8.
           ++ clear. ainv_tac.
           ++ rewrite Epc. exact I.
           ++ discriminate.
Qed.

(* ------------------------------------------------------------------ *)
(* resuming a parked callback, aborting a task                          *)

Lemma inv4_resume links locs w i :
  Inv None w -> Inv4 links locs None w -> Inv4 links locs None (fst (resume w i)).
Proof.
  intros HI H. unfold resume. destruct (get w i) as [a|] eqn:Eg; [|exact H].
  pose proof (i_act _ _ _ _ H i a Eg) as Aa.
  destruct (a_pc a) as [| | |c rest f p| |] eqn:Epc; try exact H.
  destruct (a_sig a) eqn:Esig; [|exact H]. cbn [fst].
  assert (Harm : a_armed a = true) by (eapply inv_armed; eauto; rewrite Epc; discriminate).
  assert (Nt : noterm w i) by (eapply noterm_alive; eauto; discriminate).
  unfold consume_sig.
  set (w1 := upd w i (fun a0 => upd_sig a0 false true)).
  assert (H1 : Inv4 links locs (Some i) w1).
  { eapply inv4_upd' with (x := None);
      [exact H|exact Eg|apply (LR_sig a (fun z => z)); apply LR_refl|reflexivity|reflexivity|reflexivity
      | |right; left; reflexivity].
    intros _. clear - Aa. ainv_tac. intros; discriminate. }
  assert (Nt1 : noterm w1 i).
  { apply (noterm_upd w i _ a i Eg); [apply (LR_sig a (fun z => z)); apply LR_refl|exact Nt]. }
  eapply inv4_killed_exit with (a := upd_sig a false true).
  - apply inv4_emit with (x := Some i); auto.
    + intros j Ej. destruct c; try discriminate. injection Ej as <-. auto.
    + intros; discriminate.
  - rewrite get_emit. unfold w1. rewrite get_upd_same, Eg. reflexivity.
  - exact Harm.
  - apply noterm_emit; [reflexivity|exact Nt1].
  - reflexivity.
  - intros Hc. change (trace_of (emit w1 (TCancel i c))) with (trace_of w ++ [TCancel i c]). split.
    + rewrite ending_of_app, end_step_other; [apply (A7 _ _ _ _ Aa Harm); discriminate|].
      destruct c; try discriminate. congruence.
    + simpl. destruct (A6 _ _ _ _ Aa Harm Esig) as [A|[A _]]; [left|right; exact A].
      rewrite has_ev_app, A. reflexivity.
Qed.

Lemma inv4_abort links locs w i :
  Inv None w -> Inv4 links locs None w -> Inv4 links locs None (abort w i).
Proof.
  intros HI H. unfold abort. destruct (get w i) as [a|] eqn:Eg; [|exact H].
  pose proof (i_act _ _ _ _ H i a Eg) as Aa.
  set (ev := if a_notify a then Some (STerminated i false (Some R_CANCELLED)) else None).
  assert (Nt : a_armed a = true -> noterm w i) by (intros; eapply noterm_alive; eauto; discriminate).
  assert (HA : Inv4 links locs (Some i) (emit w (TAborted i))).
  { apply inv4_emit with (x := None); auto; intros; discriminate. }
  assert (Hev : forall tr2, ending_of i tr2 EndNone = EndNone \/ a_notify a = false ->
                has_ev (ev_abort i) tr2 = true ->
                forall e, ev = Some e -> about e = i /\ is_terminal e = true /\ (cls locs e tr2 = true \/ a_sup a = None)).
  { intros tr2 He Hab e Ee. unfold ev in Ee. destruct (a_notify a); [|discriminate]. injection Ee as <-.
    split; [reflexivity|]. split; [reflexivity|]. destruct He as [He|He]; [left|discriminate].
    simpl. rewrite He. exact Hab. }
  assert (Hquiet : a_armed a = true -> Inv4 links locs None (cleanup (emit w (TAborted i)) i ev)).
  { intros Harm. eapply inv4_cleanup with (a := a); eauto.
    - apply noterm_emit; [reflexivity|auto].
    - apply Hev.
      + left. rewrite trace_of_emit, ending_of_app. simpl. apply (A7 _ _ _ _ Aa Harm). discriminate.
      + rewrite trace_of_emit, has_ev_app. simpl. rewrite Nat.eqb_refl. apply orb_true_r. }
  destruct (a_pc a) as [| | |c rest f p| |] eqn:Epc; try exact H;
    try (apply Hquiet; eapply inv_armed; eauto; rewrite Epc; discriminate).
  destruct p; [|exact H].
  assert (Harm : a_armed a = true) by (eapply inv_armed; eauto; rewrite Epc; discriminate).
  eapply inv4_cleanup with (a := a); eauto.
  - apply inv4_emit with (x := Some i); auto.
    + intros j Ej. destruct c; try discriminate. injection Ej as <-. split; [auto|].
      apply noterm_emit; [reflexivity|auto].
    + intros; discriminate.
  - apply noterm_emit; [reflexivity|]. apply noterm_emit; [reflexivity|auto].
  - apply Hev.
    + rewrite !trace_of_emit, !ending_of_app.
      destruct c; try (left; simpl; apply (A7 _ _ _ _ Aa Harm); discriminate).
      right. apply (A2 _ _ _ _ Aa). rewrite Epc. reflexivity.
    + rewrite !trace_of_emit, !has_ev_app. simpl. rewrite Nat.eqb_refl, orb_true_r. reflexivity.
Qed.

(* ------------------------------------------------------------------ *)
(* a poll, a label, a schedule                                          *)

Lemma inv4_segs links locs fuel w i :
  Inv None w -> pre_seg w i -> Inv4 links locs None w -> Inv4 links locs None (segs fuel w i).
Proof.
  revert w. induction fuel as [|k IH]; intros w HI Hpre H; simpl; [exact H|].
  pose proof (inv4_seg links locs w i HI H) as H'.
  destruct (seg w i) as [w' go] eqn:E. simpl in H'.
  destruct (inv_seg w i w' go HI Hpre E) as [HI' Hgo].
  destruct go; [|exact H']. apply IH; auto. apply unparked_pre. apply Hgo. reflexivity.
Qed.

Lemma inv4_poll links locs fuel w i :
  Inv None w -> Inv4 links locs None w -> Inv4 links locs None (poll fuel w i).
Proof.
  intros HI H. unfold poll. pose proof (inv4_resume links locs w i HI H) as H'.
  destruct (resume w i) as [w' go] eqn:E. simpl in H'.
  destruct (inv_resume w i w' go HI E) as [HI' Hgo].
  destruct go; [|exact H']. apply inv4_segs; auto.
Qed.

Lemma inv4_step links locs w l :
  Inv None w -> Inv4 links locs None w -> Inv4 links locs None (step w l).
Proof.
  intros HI H. destruct l as [i|i m|i r|i|i|g|i|i fuel]; simpl.
  - destruct (get w i) as [a|] eqn:Eg; [|exact H].
    destruct (a_pc a) eqn:Epc; try exact H.
    eapply inv4_upd' with (x := None);
      [exact H|exact Eg|apply (LR_pc a (fun z => z)); apply LR_refl|reflexivity|reflexivity|reflexivity
      | |left; reflexivity].
    intros Aa. pose proof (A2 _ _ _ _ Aa) as a2'. pose proof (A8 _ _ _ _ Aa) as a8'. rewrite Epc in a2', a8'.
    clear - Aa a2' a8'. ainv_tac; intros; discriminate.
  - apply inv4_req_send. exact H.
  - apply inv4_req_stop. exact H.
  - apply inv4_req_kill. exact H.
  - apply inv4_req_drain. exact H.
  - destruct H as [h1 h2 h3 h4 h5 h6]. constructor; [exact h1|exact h2|exact h3|exact h4| |exact h6].
    intros s. destruct (h5 s) as [q1 q2 q3 q4]. constructor; [exact q1|exact q2|exact q3|exact q4].
  - apply inv4_abort; assumption.
  - apply inv4_poll; assumption.
Qed.

Lemma inv4_run links locs ls w :
  Inv None w -> Inv4 links locs None w -> Inv4 links locs None (run w ls).
Proof.
  unfold run. revert w. induction ls as [|l t IH]; simpl; intros w HI H; [exact H|].
  apply IH; [apply inv_step; exact HI|apply inv4_step; assumption].
Qed.

Lemma nth_map_link (cfgs : list cfg) c :
  nth c (map c_link cfgs) None =
  match nth_error (map new_actor cfgs) c with Some a => c_link (a_cfg a) | None => None end.
Proof.
  revert c. induction cfgs as [|x t IH]; intros [|c]; simpl; auto.
Qed.

Lemma nth_map_local (cfgs : list cfg) c :
  nth c (map c_local cfgs) false =
  match nth_error (map new_actor cfgs) c with Some a => c_local (a_cfg a) | None => false end.
Proof.
  revert c. induction cfgs as [|x t IH]; intros [|c]; simpl; auto.
Qed.

Lemma inv4_init cfgs msgs : Inv4 (map c_link cfgs) (map c_local cfgs) None (init cfgs msgs).
Proof.
  assert (Hget : forall j a, get (init cfgs msgs) j = Some a -> exists c, a = new_actor c).
  { intros j a. unfold get, init. simpl. rewrite nth_error_map.
    destruct (nth_error cfgs j) as [c|]; simpl; [|discriminate]. intros E. injection E as <-. eauto. }
  assert (HK : forall s, K (init cfgs msgs) s = []).
  { intros s. unfold K, supq_of. simpl. destruct (get (init cfgs msgs) s) as [a|] eqn:E; auto.
    destruct (Hget s a E) as (c & ->). reflexivity. }
  constructor.
  - intros c. unfold link_of, get, init. simpl. apply nth_map_link.
  - reflexivity.
  - intros i a Eg. destruct (Hget i a Eg) as (c & ->).
    constructor; simpl; auto; try (intros; discriminate); try (intros []).
    split; [reflexivity|]. intros N. exfalso. apply N. reflexivity.
  - intros p ap ks c Ep Ek Hin. destruct (Hget p ap Ep) as (c0 & ->). simpl in Ek.
    injection Ek as <-. destruct Hin.
  - intros s. constructor; rewrite HK; simpl; auto; intros ? [].
  - intros c. unfold local_of, get, init. simpl. apply nth_map_local.
Qed.

(* ------------------------------------------------------------------ *)
(* the oracle accepts every trace of the model                          *)

Theorem C04_oracle_sound_proof cfgs msgs ls :
  check_C04 (map c_link cfgs) (map c_local cfgs) (trace_of (run (init cfgs msgs) ls)) = true.
Proof.
  unfold check_C04.
  apply (i_chk _ _ _ _ (inv4_run (map c_link cfgs) (map c_local cfgs) ls _ (inv_init cfgs msgs) (inv4_init cfgs msgs))).
Qed.

Theorem C04_oracle_sound_dops cfgs msgs rounds fuel order ops :
  check_C04 (map c_link cfgs) (map c_local cfgs) (trace_of (run_dops rounds fuel order (init cfgs msgs) ops)) = true.
Proof. rewrite run_dops_labels. apply C04_oracle_sound_proof. Qed.

(* ------------------------------------------------------------------ *)
(* what the accepted traces look like (consequences of the oracle)      *)

Lemma check_go_split links locs seen t1 e t2 :
  check_C04_go links locs seen (t1 ++ e :: t2) = true ->
  match e with TEnter s (Sup x) => judge_sup links locs (seen ++ t1) s x = true | _ => True end.
Proof.
  revert seen. induction t1 as [|y r IH]; intros seen; simpl.
  - rewrite app_nil_r. intros H. apply andb_true_iff in H as [H _].
    destruct e as [s c| | | | | | | | | | | |]; auto. destruct c; auto.
  - intros H. apply andb_true_iff in H as [_ H]. specialize (IH _ H). rewrite <- app_assoc in IH. exact IH.
Qed.

Lemma onat_eqb_true a b : onat_eqb a b = true -> a = b.
Proof.
  destruct a, b; simpl; intros H; try discriminate; auto. apply Nat.eqb_eq in H. congruence.
Qed.

Section Consequences.
  Variables (cfgs : list cfg) (msgs : list (nat * script)) (ls : list label).
  Let t := trace_of (run (init cfgs msgs) ls).

  Lemma judged t1 s x t2 : t = t1 ++ TEnter s (Sup x) :: t2 -> judge_sup (map c_link cfgs) (map c_local cfgs) t1 s x = true.
  Proof.
    intros E. pose proof (C04_oracle_sound_proof cfgs msgs ls) as H. fold t in H. rewrite E in H.
    apply (check_go_split _ _ [] t1 (TEnter s (Sup x)) t2 H).
  Qed.

  (* an event is only ever handled by the actor its subject was spawn-linked to *)
  Theorem no_stranger_events t1 s x t2 :
    t = t1 ++ TEnter s (Sup x) :: t2 -> nth (about x) (map c_link cfgs) None = Some s.
  Proof.
    intros E. pose proof (judged _ _ _ _ E) as J. unfold judge_sup in J.
    apply andb_true_iff in J as [J _]. apply onat_eqb_true. exact J.
  Qed.

  (* when a terminal event about c starts to be handled, s has handled no terminal event about c before *)
  Theorem terminal_first t1 s x t2 :
    t = t1 ++ TEnter s (Sup x) :: t2 -> is_terminal x = true ->
    count_sup s (fun y => is_terminal y && Nat.eqb (about y) (about x)) t1 = 0.
  Proof.
    intros E Ht. pose proof (judged _ _ _ _ E) as J. unfold judge_sup in J.
    apply andb_true_iff in J as [_ J]. destruct x; try discriminate;
      apply andb_true_iff in J as [J _]; apply Nat.eqb_eq in J; exact J.
  Qed.

  (* ActorStarted: post_start had returned Ok, and s had handled nothing about that child before
     (no earlier Started, no earlier terminal event) *)
  Theorem started_first t1 s c t2 :
    t = t1 ++ TEnter s (Sup (SStarted c)) :: t2 ->
    post_start_ok c t1 = true /\ count_sup s (fun y => Nat.eqb (about y) c) t1 = 0.
  Proof.
    intros E. pose proof (judged _ _ _ _ E) as J. unfold judge_sup in J.
    apply andb_true_iff in J as [_ J]. apply andb_true_iff in J as [J1 J2].
    apply Nat.eqb_eq in J2. auto.
  Qed.

  Theorem classification_failed t1 s c txt t2 :
    t = t1 ++ TEnter s (Sup (SFailed c txt)) :: t2 -> ending_of c t1 EndNone = EndFailed txt.
  Proof.
    intros E. pose proof (judged _ _ _ _ E) as J. unfold judge_sup in J.
    apply andb_true_iff in J as [_ J]. apply andb_true_iff in J as [_ J]. simpl in J.
    destruct (ending_of c t1 EndNone); try discriminate. apply Nat.eqb_eq in J. congruence.
  Qed.

  (* the graceful clause, shared by both shapes of the event *)
  Lemma graceful_clause c (b : bool) r t1 :
    match r with
    | Some 1 => b && (has_ev (fun e => match e with TDrainReq j => Nat.eqb j c | _ => false end) t1
                      || has_ev (fun e => match e with TStopReq j r' => Nat.eqb j c && onat_eqb (Some 1) r' | _ => false end) t1)
    | _ => b && has_ev (fun e => match e with TStopReq j r' => Nat.eqb j c && onat_eqb r r' | _ => false end) t1
    end = true ->
    b = true /\ (has_ev (ev_stop c r) t1 = true \/ (r = Some R_DRAINED /\ has_ev (ev_drain c) t1 = true)).
  Proof.
    intros J. destruct r as [[|[|n]]|]; apply andb_true_iff in J as [Jb J]; (split; [exact Jb|]);
      try (left; exact J).
    apply orb_true_iff in J as [J|J]; [right; auto|left; exact J].
  Qed.

  (* an event WITH state: only about a Send actor (a thread-local state is never sent),
     whose post_stop returned Ok, with the requested reason *)
  Theorem classification_with_state t1 s c r t2 :
    t = t1 ++ TEnter s (Sup (STerminated c true r)) :: t2 ->
    nth c (map c_local cfgs) false = false /\
    ending_of c t1 EndNone = EndGraceful /\
    (has_ev (ev_stop c r) t1 = true \/ (r = Some R_DRAINED /\ has_ev (ev_drain c) t1 = true)).
  Proof.
    intros E. pose proof (judged _ _ _ _ E) as J. unfold judge_sup in J.
    apply andb_true_iff in J as [_ J]. apply andb_true_iff in J as [_ J]. simpl in J.
    destruct (ending_of c t1 EndNone); try discriminate.
    destruct (graceful_clause c _ r t1 J) as [Jb Jr].
    split; [|split; [reflexivity|exact Jr]].
    destruct (nth c (map c_local cfgs) false); [discriminate|reflexivity].
  Qed.

  (* an event WITHOUT state: killed / task cancelled (no callback of c ended it), or the graceful
     exit of a thread-local actor *)
  Theorem classification_without_state t1 s c r t2 :
    t = t1 ++ TEnter s (Sup (STerminated c false r)) :: t2 ->
    (ending_of c t1 EndNone = EndNone /\
     ((r = Some R_KILLED /\ has_ev (ev_kill c) t1 = true) \/
      (r = Some R_CANCELLED /\ has_ev (ev_abort c) t1 = true)))
    \/ (nth c (map c_local cfgs) false = true /\ ending_of c t1 EndNone = EndGraceful /\
        (has_ev (ev_stop c r) t1 = true \/ (r = Some R_DRAINED /\ has_ev (ev_drain c) t1 = true))).
  Proof.
    intros E. pose proof (judged _ _ _ _ E) as J. unfold judge_sup in J.
    apply andb_true_iff in J as [_ J]. apply andb_true_iff in J as [_ J]. simpl in J.
    destruct (ending_of c t1 EndNone); try discriminate.
    - left. split; [reflexivity|].
      destruct r as [[|[|[|n]]]|]; try discriminate; [left|right]; auto.
    - right. destruct (graceful_clause c _ r t1 J) as [Jb Jr].
      split; [|split; [reflexivity|exact Jr]].
      destruct (nth c (map c_local cfgs) false); [reflexivity|discriminate].
  Qed.

  (* a failed or cancelled start is never reported as a termination *)
  Theorem start_failure_no_terminal t1 s x t2 :
    t = t1 ++ TEnter s (Sup x) :: t2 -> is_terminal x = true ->
    ending_of (about x) t1 EndNone <> EndStartFailed.
  Proof.
    intros E Ht. destruct x as [c|c [|] r|c txt]; try discriminate; simpl.
    - rewrite (proj1 (proj2 (classification_with_state _ _ _ _ _ E))). discriminate.
    - destruct (classification_without_state _ _ _ _ _ E) as [[A _]|(_ & A & _)]; rewrite A; discriminate.
    - rewrite (classification_failed _ _ _ _ _ E). discriminate.
  Qed.
End Consequences.

(* at most one terminal event about c, and at most one ActorStarted, is ever handled by s *)
Lemma count_sup_app s p t1 t2 : count_sup s p (t1 ++ t2) = count_sup s p t1 + count_sup s p t2.
Proof. unfold count_sup. rewrite filter_app, app_length. reflexivity. Qed.

Lemma count_sup_single s p e :
  count_sup s p [e] = match e with TEnter j (Sup x) => if Nat.eqb j s && p x then 1 else 0 | _ => 0 end.
Proof.
  unfold count_sup. destruct e as [j cb| | | | | | | | | | | |]; simpl; auto.
  destruct cb as [| | |x|]; simpl; auto. destruct (Nat.eqb j s && p x); reflexivity.
Qed.

Lemma check_counts links locs t s c :
  check_C04_go links locs [] t = true ->
  count_sup s (fun y => is_terminal y && Nat.eqb (about y) c) t <= 1 /\
  count_sup s (fun y => negb (is_terminal y) && Nat.eqb (about y) c) t <= 1.
Proof.
  induction t as [|e r IH] using rev_ind; [simpl; auto|].
  rewrite check_go_app. intros H. apply andb_true_iff in H as [H1 H2]. destruct (IH H1) as [I1 I2].
  rewrite !count_sup_app, !count_sup_single.
  destruct e as [j cb| | | | | | | | | | | |]; try lia.
  destruct cb as [| | |x|]; try lia.
  destruct (Nat.eqb_spec j s) as [->|]; [|simpl; lia].
  simpl in H2. unfold judge_sup in H2. apply andb_true_iff in H2 as [_ H2].
  destruct (Nat.eqb_spec (about x) c) as [Ec|]; [|rewrite !andb_false_r; simpl; lia].
  rewrite !andb_true_r. simpl andb.
  destruct x as [c0|c0 st r0|c0 txt]; simpl in Ec, H2 |- *; subst c0.
  - apply andb_true_iff in H2 as [_ H2]. apply Nat.eqb_eq in H2.
    assert (count_sup s (fun y => negb (is_terminal y) && Nat.eqb (about y) c) r
            <= count_sup s (fun y => Nat.eqb (about y) c) r).
    { rewrite !count_sup_hl. clear. induction (hl s r) as [|y l IH]; simpl; auto.
      destruct (Nat.eqb (about y) c); rewrite ?andb_false_r, ?andb_true_r; simpl; [|exact IH].
      destruct (negb (is_terminal y)); simpl; lia. }
    lia.
  - apply andb_true_iff in H2 as [H2 _]. apply Nat.eqb_eq in H2. lia.
  - apply andb_true_iff in H2 as [H2 _]. apply Nat.eqb_eq in H2. lia.
Qed.

Theorem terminal_at_most_once cfgs msgs ls s c :
  count_sup s (fun y => is_terminal y && Nat.eqb (about y) c) (trace_of (run (init cfgs msgs) ls)) <= 1.
Proof. apply (check_counts _ _ _ s c (C04_oracle_sound_proof cfgs msgs ls)). Qed.

Theorem started_at_most_once cfgs msgs ls s c :
  count_sup s (fun y => negb (is_terminal y) && Nat.eqb (about y) c) (trace_of (run (init cfgs msgs) ls)) <= 1.
Proof. apply (check_counts _ _ _ s c (C04_oracle_sound_proof cfgs msgs ls)). Qed.

(* start() returning Err: nothing is appended to anybody's supervision queue *)
Theorem start_failed_silent w i s : supq_of (start_failed w i) s = supq_of w s.
Proof.
  unfold start_failed. change (supq_of (emit (cleanup w i None) (TSpawnRet i false)) s)
    with (supq_of (cleanup w i None) s).
  unfold cleanup. destruct (get w i) as [a|]; [|reflexivity]. destruct (negb (a_armed a)); [reflexivity|].
  set (w4 := unlink_from_supervisor _ i).
  assert (S : sil w w4).
  { unfold w4. eapply sil_trans; [|apply sil_unlink]. eapply sil_trans; [|apply sil_terminate].
    apply sil_upd; sr_tac. }
  rewrite <- (supq_sil w w4 s S). unfold supq_of.
  destruct (Nat.eq_dec i s) as [->|Hne].
  - rewrite get_upd_same. destruct (get w4 s); reflexivity.
  - rewrite get_upd_other by assumption. reflexivity.
Qed.

(* ------------------------------------------------------------------ *)
(* containment: a step of actor k never moves another actor's program counter *)

Definition pcf (k : nat) (w w' : world) : Prop :=
  forall j, j <> k -> option_map a_pc (get w' j) = option_map a_pc (get w j).

Lemma pcf_refl k w : pcf k w w.
Proof. intros j _. reflexivity. Qed.
Lemma pcf_trans k w1 w2 w3 : pcf k w1 w2 -> pcf k w2 w3 -> pcf k w1 w3.
Proof. intros A B j H. rewrite (B j H). apply A. exact H. Qed.
Lemma pcf_upd_own k w f : pcf k w (upd w k f).
Proof. intros j H. rewrite get_upd_other by congruence. reflexivity. Qed.
Lemma pcf_upd_pc k w i f : (forall a, a_pc (f a) = a_pc a) -> pcf k w (upd w i f).
Proof.
  intros Hf j _. destruct (Nat.eq_dec i j) as [->|Hne].
  - rewrite get_upd_same. destruct (get w j); simpl; auto. now rewrite Hf.
  - rewrite get_upd_other by assumption. reflexivity.
Qed.
Lemma pcf_emit k w e : pcf k w (emit w e).
Proof. intros j _. reflexivity. Qed.
Lemma pcf_sil k w w' : sil w w' -> pcf k w w'.
Proof.
  intros [_ g] j _. specialize (g j). destruct (get w j), (get w' j); try tauto. simpl.
  now rewrite (s_pc _ _ g).
Qed.

Ltac pcf_upd := apply pcf_upd_pc; let z := fresh "z" in intros z; simpl; auto.

Lemma pcf_do_kill k w i : pcf k w (do_kill w i).
Proof. apply pcf_sil, sil_do_kill. Qed.
Lemma pcf_do_stop k w i r : pcf k w (do_stop w i r).
Proof.
  unfold do_stop. destruct (get w i); [|apply pcf_refl]. destruct (_ || _); [apply pcf_refl|pcf_upd].
Qed.
Lemma pcf_do_send k w i m : pcf k w (do_send w i m).
Proof.
  unfold do_send. destruct (get w i); [|apply pcf_refl]. destruct (can_send _); [|apply pcf_emit].
  eapply pcf_trans; [|apply pcf_emit]. pcf_upd.
Qed.
Lemma pcf_do_drain k w i : pcf k w (do_drain w i).
Proof.
  unfold do_drain. destruct (get w i); [|apply pcf_refl]. destruct (negb _); [apply pcf_refl|].
  apply pcf_upd_pc. intros z. destruct (drain_upd_fields z) as (E & _). exact E.
Qed.
Lemma pcf_do_eff k w e : pcf k w (do_eff w e).
Proof.
  destruct e; simpl; try apply pcf_refl.
  - unfold req_send. destruct (is_created w a); [apply pcf_do_send|apply pcf_refl].
  - unfold req_stop. destruct (is_created w a); [|apply pcf_refl].
    eapply pcf_trans; [apply pcf_emit|apply pcf_do_stop].
  - unfold req_kill. destruct (is_created w a); [|apply pcf_refl].
    eapply pcf_trans; [apply pcf_emit|apply pcf_do_kill].
  - unfold req_drain. destruct (is_created w a); [|apply pcf_refl].
    eapply pcf_trans; [apply pcf_emit|apply pcf_do_drain].
Qed.
Lemma pcf_notify k w i e : pcf k w (notify_supervisor w i e).
Proof.
  unfold notify_supervisor. destruct (get w i) as [a|]; [|apply pcf_refl].
  destruct (a_sup a) as [s|]; [|apply pcf_refl]. destruct (get w s) as [b|]; [|apply pcf_refl].
  destruct (a_ports b); [pcf_upd|apply pcf_refl].
Qed.
Lemma pcf_cleanup k w e : pcf k w (cleanup w k e).
Proof.
  unfold cleanup. destruct (get w k) as [a|]; [|apply pcf_refl]. destruct (negb _); [apply pcf_refl|].
  eapply pcf_trans; [|apply pcf_upd_own]. eapply pcf_trans; [|apply pcf_sil, sil_unlink].
  assert (E : pcf k w (terminate (upd w k (fun a0 => upd_status a0 5)) k)).
  { eapply pcf_trans; [apply pcf_upd_own|apply pcf_sil, sil_terminate]. }
  destruct e; [eapply pcf_trans; [exact E|apply pcf_notify]|exact E].
Qed.
Lemma pcf_finish k w e : pcf k w (finish w k e).
Proof. unfold finish. eapply pcf_trans; [apply pcf_cleanup|apply pcf_emit]. Qed.
Lemma pcf_start_failed k w : pcf k w (start_failed w k).
Proof. unfold start_failed. eapply pcf_trans; [apply pcf_cleanup|apply pcf_emit]. Qed.
Lemma pcf_killed_exit k w c : pcf k w (killed_exit w k c).
Proof.
  unfold killed_exit. assert (E : pcf k w (terminate w k)) by apply pcf_sil, sil_terminate.
  destruct c as [[| | | |]|];
    try (eapply pcf_trans; [exact E|]; auto using pcf_start_failed, pcf_finish);
    (eapply pcf_trans; [|apply pcf_finish]; apply pcf_upd_own).
Qed.
Lemma pcf_try_link k w s : pcf k w (fst (try_link w k s)).
Proof.
  unfold try_link. destruct (get w k); [|apply pcf_refl]. destruct (get w s) as [b|]; [|apply pcf_refl].
  destruct (_ || _); [apply pcf_refl|]. destruct (a_kids b); [|apply pcf_refl]. simpl.
  eapply pcf_trans; [|apply pcf_upd_own]. pcf_upd.
Qed.
Lemma pcf_enter k w c : pcf k w (enter w k c).
Proof.
  unfold enter. destruct (get w k) as [a|]; [|apply pcf_refl]. destruct (script_of w a c) as [es f].
  eapply pcf_trans; [apply pcf_emit|apply pcf_upd_own].
Qed.
Lemma pcf_start_cb k w c : pcf k w (start_cb w k c).
Proof.
  unfold start_cb. destruct (get w k) as [a|]; [|apply pcf_refl]. destruct (a_sig a).
  - eapply pcf_trans; [|apply pcf_killed_exit]. apply pcf_upd_own.
  - apply pcf_enter.
Qed.
Lemma pcf_graceful_exit k w r : pcf k w (graceful_exit w k r).
Proof. unfold graceful_exit. eapply pcf_trans; [|apply pcf_start_cb]. apply pcf_upd_own. Qed.
Lemma pcf_after_cb k w c f : pcf k w (after_cb w k c f).
Proof.
  unfold after_cb. destruct (get w k) as [a|]; [|apply pcf_refl].
  assert (F5 : forall e, pcf k w (finish (upd w k (fun a0 => upd_status a0 5)) k e)).
  { intros e. eapply pcf_trans; [apply pcf_upd_own|apply pcf_finish]. }
  destruct c; destruct f; auto using pcf_start_failed, pcf_finish, pcf_upd_own.
  - destruct (if c_local (a_cfg a) then None else c_link (a_cfg a)) as [sp|].
    + pose proof (pcf_try_link k w sp) as E. destruct (try_link w k sp) as [w1 ok]. simpl in E.
      eapply pcf_trans; [exact E|]. destruct ok; [|apply pcf_start_failed].
      eapply pcf_trans; [apply pcf_upd_own|apply pcf_emit].
    + eapply pcf_trans; [apply pcf_upd_own|apply pcf_emit].
  - eapply pcf_trans; [apply pcf_upd_own|apply pcf_notify].
Qed.
Lemma pcf_seg k w : pcf k w (fst (seg w k)).
Proof.
  unfold seg. destruct (get w k) as [a|]; [|apply pcf_refl].
  destruct (a_pc a) as [| | |c rest f parked| |]; cbn [fst]; try apply pcf_refl.
  - destruct (negb _); cbn [fst]; [apply pcf_start_failed|].
    destruct (if c_local (a_cfg a) then c_link (a_cfg a) else None) as [sp|].
    + pose proof (pcf_try_link k (upd w k (fun a0 => upd_status a0 1)) sp) as E.
      destruct (try_link (upd w k (fun a0 => upd_status a0 1)) k sp) as [w1 ok]. simpl in E.
      eapply pcf_trans; [apply pcf_upd_own|]. eapply pcf_trans; [exact E|].
      destruct ok; cbn [fst]; [apply pcf_start_cb|apply pcf_start_failed].
    + cbn [fst]. eapply pcf_trans; [apply pcf_upd_own|apply pcf_start_cb].
  - apply pcf_start_cb.
  - destruct rest as [|e r]; cbn [fst].
    + eapply pcf_trans; [apply pcf_emit|apply pcf_after_cb].
    + destruct e; cbn [fst];
        try (eapply pcf_trans; [apply pcf_upd_own|apply (pcf_do_eff k _ (ESend _ _))
                                                  || apply (pcf_do_eff k _ (EStop _ _))
                                                  || apply (pcf_do_eff k _ (EKill _))
                                                  || apply (pcf_do_eff k _ (EDrain _))]).
      * destruct (is_open w g); cbn [fst].
        -- destruct parked; [eapply pcf_trans; [apply pcf_emit|apply pcf_upd_own]|apply pcf_upd_own].
        -- destruct parked; cbn [fst]; [apply pcf_refl|eapply pcf_trans; [apply pcf_emit|apply pcf_upd_own]].
      * eapply pcf_trans; [apply pcf_emit|apply pcf_upd_own].
  - destruct (a_sig a); cbn [fst].
    + eapply pcf_trans; [apply pcf_upd_own|apply pcf_killed_exit].
    + destruct (a_stop a); cbn [fst].
      * eapply pcf_trans; [apply pcf_upd_own|apply pcf_graceful_exit].
      * destruct (a_supq a); cbn [fst].
        -- destruct (a_msgq a) as [|[m|] t]; cbn [fst]; [apply pcf_refl| |].
           ++ eapply pcf_trans; [apply pcf_upd_own|apply pcf_start_cb].
           ++ eapply pcf_trans; [apply pcf_upd_own|apply pcf_graceful_exit].
        -- eapply pcf_trans; [apply pcf_upd_own|apply pcf_start_cb].
Qed.
Lemma pcf_segs k fuel w : pcf k w (segs fuel w k).
Proof.
  revert w. induction fuel as [|n IH]; intros w; cbn [segs]; [apply pcf_refl|].
  pose proof (pcf_seg k w) as E. destruct (seg w k) as [w' go]. cbn [fst] in E.
  destruct go; [eapply pcf_trans; [exact E|apply IH]|exact E].
Qed.
Lemma pcf_poll k fuel w : pcf k w (poll fuel w k).
Proof.
  unfold poll. assert (E : pcf k w (fst (resume w k))).
  { unfold resume. destruct (get w k) as [a|]; [|apply pcf_refl].
    destruct (a_pc a); cbn [fst]; try apply pcf_refl. destruct (a_sig a); cbn [fst]; [|apply pcf_refl].
    eapply pcf_trans; [|apply pcf_killed_exit]. eapply pcf_trans; [apply pcf_upd_own|apply pcf_emit]. }
  destruct (resume w k) as [w' go]. cbn [fst] in E.
  destruct go; [eapply pcf_trans; [exact E|apply pcf_segs]|exact E].
Qed.
Lemma pcf_abort k w : pcf k w (abort w k).
Proof.
  unfold abort. destruct (get w k) as [a|]; [|apply pcf_refl].
  destruct (a_pc a) as [| | |c r f [|]| |]; try apply pcf_refl;
    (eapply pcf_trans; [|apply pcf_cleanup]); repeat (eapply pcf_trans; [|apply pcf_emit]); apply pcf_refl.
Qed.

Definition subject (l : label) : option nat :=
  match l with LSpawn i | LAbort i | LPoll i _ => Some i | _ => None end.

(* whatever actor k does or suffers in one step (callbacks, failure, panic, kill, abort,
   exit cleanup with the kill of its subtree and the report to its supervisor), every other
   actor stays at the same point of its own life cycle; requests (send/stop/kill/drain) and gate
   openings move nobody's program counter at all *)
Theorem containment w l j :
  subject l <> Some j -> option_map a_pc (get (step w l) j) = option_map a_pc (get w j).
Proof.
  intros Hs. destruct l as [i|i m|i r|i|i|g|i|i fuel]; simpl in *.
  - assert (Hj : j <> i) by congruence. destruct (get w i) as [a|]; auto.
    destruct (a_pc a); auto. apply (pcf_upd_own i w _ j Hj).
  - apply (pcf_do_eff (S j) w (ESend i m) j). lia.
  - apply (pcf_do_eff (S j) w (EStop i r) j). lia.
  - apply (pcf_do_eff (S j) w (EKill i) j). lia.
  - apply (pcf_do_eff (S j) w (EDrain i) j). lia.
  - reflexivity.
  - apply (pcf_abort i w j). congruence.
  - apply (pcf_poll i fuel w j). congruence.
Qed.
