(* C10 — proofs about Registry/Model.v (repaired code: f1 = false). *)
From Coq Require Import List NArith Bool Arith Lia.
From RV Require Import Registry.Model.
Import ListNotations.

(* ------------------------------------------------------------------ lists *)
Lemma nth_error_upd_eq {A} (l : list A) i x y :
  nth_error l i = Some y -> nth_error (upd l i x) i = Some x.
Proof. revert i; induction l as [|h t IH]; intros [|i] H; simpl in *; try discriminate; auto. Qed.

Lemma nth_error_upd_neq {A} (l : list A) i j x :
  i <> j -> nth_error (upd l i x) j = nth_error l j.
Proof.
  revert i j; induction l as [|h t IH]; intros [|i] [|j] H; simpl; auto; try congruence.
Qed.

Lemma lookup_none_notin n l : lookup n l = None <-> ~ In n (map fst l).
Proof.
  induction l as [|[m a] t IH]; simpl; [tauto|].
  destruct (N.eqb m n) eqn:E.
  - apply N.eqb_eq in E. subst. split; [discriminate|intros H; exfalso; apply H; auto].
  - apply N.eqb_neq in E. rewrite IH. tauto.
Qed.

Lemma lookup_remove n k l :
  lookup k (remove_name n l) = if N.eqb n k then None else lookup k l.
Proof.
  induction l as [|[m a] t IH]; simpl.
  - destruct (N.eqb n k); reflexivity.
  - destruct (N.eqb m n) eqn:E1; simpl.
    + apply N.eqb_eq in E1. subst m. rewrite IH. destruct (N.eqb n k); reflexivity.
    + simpl. rewrite IH. destruct (N.eqb m k) eqn:E2; auto.
      apply N.eqb_eq in E2. subst m. rewrite N.eqb_sym, E1. reflexivity.
Qed.

Lemma map_fst_remove_incl n l x : In x (map fst (remove_name n l)) -> In x (map fst l).
Proof.
  unfold remove_name. induction l as [|[m a] t IH]; simpl; auto.
  destruct (negb (N.eqb m n)); simpl; intuition.
Qed.

Lemma NoDup_remove n l : NoDup (map fst l) -> NoDup (map fst (remove_name n l)).
Proof.
  unfold remove_name. induction l as [|[m a] t IH]; simpl; intros H; auto.
  inversion H as [|? ? Hn Hd]; subst.
  destruct (negb (N.eqb m n)); simpl; auto.
  constructor; auto. intros X. apply Hn. eapply map_fst_remove_incl; eauto.
Qed.

Lemma mem_pid_cons a b l : mem_pid a (b :: l) = Nat.eqb a b || mem_pid a l.
Proof. reflexivity. Qed.

Lemma mem_pid_remove a b l : mem_pid a (remove_pid b l) = negb (Nat.eqb a b) && mem_pid a l.
Proof.
  unfold mem_pid, remove_pid. induction l as [|c t IH]; simpl.
  - rewrite andb_false_r; reflexivity.
  - destruct (Nat.eqb c b) eqn:E; simpl.
    + apply Nat.eqb_eq in E. subst c. rewrite IH. destruct (Nat.eqb a b); reflexivity.
    + rewrite IH. destruct (Nat.eqb a c) eqn:E2; simpl.
      * apply Nat.eqb_eq in E2. subst c. rewrite E. reflexivity.
      * reflexivity.
Qed.

Lemma NoDup_remove_pid b l : NoDup l -> NoDup (remove_pid b l).
Proof. unfold remove_pid. apply NoDup_filter. Qed.

Lemma mem_pid_In a l : mem_pid a l = true <-> In a l.
Proof.
  unfold mem_pid. rewrite existsb_exists. split.
  - intros (x & Hx & E). apply Nat.eqb_eq in E. subst; auto.
  - intros H. exists a. split; auto. apply Nat.eqb_refl.
Qed.

(* ------------------------------------------------------------------ the invariant *)
Lemma named_inj x n m : named x n = true -> named x m = true -> n = m.
Proof.
  unfold named. destruct (a_remote x); simpl; try discriminate.
  destruct (a_name x); try discriminate.
  intros A B. apply N.eqb_eq in A. apply N.eqb_eq in B. congruence.
Qed.

Lemma named_spec x n : named x n = true <-> a_remote x = false /\ a_name x = Some n.
Proof.
  unfold named. destruct (a_remote x); simpl.
  - split; [discriminate|intros [? _]; discriminate].
  - destruct (a_name x) as [m|].
    + rewrite N.eqb_eq. split; [intros ->; auto|intros [_ H]; congruence].
    + split; [discriminate|intros [_ ?]; discriminate].
Qed.

Record Inv (s : st) : Prop := mkInv {
  iA : forall n a, lookup n (names s) = Some a ->
       exists x, nth_error (actors s) a = Some x /\ named x n = true /\ holds_name (a_pc x) = true;
  iB : forall a x n, nth_error (actors s) a = Some x -> named x n = true ->
       holds_name (a_pc x) = true -> lookup n (names s) = Some a;
  iU : NoDup (map fst (names s));
  iP : forall a, mem_pid a (pids s) = true <->
       exists x, nth_error (actors s) a = Some x /\ a_remote x = false /\ holds_pid (a_pc x) = true;
  iPU : NoDup (pids s)
}.

Lemma init_inv acts : Inv (init acts).
Proof.
  constructor; unfold init; simpl.
  - discriminate.
  - intros a x n H _ Hh. rewrite nth_error_map in H.
    destruct (nth_error acts a); try discriminate. injection H as <-. discriminate.
  - constructor.
  - intros a. split; [discriminate|].
    intros (x & H & _ & Hh). rewrite nth_error_map in H.
    destruct (nth_error acts a); try discriminate. injection H as <-. discriminate.
  - constructor.
Qed.

(* an actor changes its pc; the tables do not change; the change is invisible to both tables *)
Lemma Inv_pc_frame s i x p' :
  Inv s -> nth_error (actors s) i = Some x ->
  (holds_name p' = holds_name (a_pc x) \/ forall n, named x n = false) ->
  (holds_pid p' = holds_pid (a_pc x) \/ a_remote x = true) ->
  Inv (set_pc s i x p').
Proof.
  intros [A B U P PU] E Hn Hp.
  assert (NM : forall n, named (mkA (a_name x) (a_remote x) p') n = named x n) by reflexivity.
  constructor; unfold set_pc; simpl; auto.
  - intros n a L. destruct (A _ _ L) as (y & Ey & Ny & Hy).
    destruct (Nat.eq_dec i a) as [->|Hne].
    + rewrite (nth_error_upd_eq _ _ _ _ E). eexists; split; [reflexivity|].
      rewrite E in Ey. injection Ey as <-. rewrite NM. split; auto. simpl.
      destruct Hn as [->|Hn]; auto. rewrite Hn in Ny. discriminate.
    + rewrite nth_error_upd_neq by auto. eauto.
  - intros a y n Ey Ny Hy. destruct (Nat.eq_dec i a) as [->|Hne].
    + rewrite (nth_error_upd_eq _ _ _ _ E) in Ey. injection Ey as <-. rewrite NM in Ny. simpl in Hy.
      apply (B _ x n); auto. destruct Hn as [<-|Hn]; auto. rewrite Hn in Ny. discriminate.
    + rewrite nth_error_upd_neq in Ey by auto. eauto.
  - intros a. rewrite P. destruct (Nat.eq_dec i a) as [->|Hne].
    + rewrite (nth_error_upd_eq _ _ _ _ E). split.
      * intros (y & Ey & Ry & Hy). rewrite E in Ey. injection Ey as <-.
        eexists; split; [reflexivity|]. simpl. split; auto.
        destruct Hp as [->|Hp]; auto. congruence.
      * intros (y & Ey & Ry & Hy). injection Ey as <-. simpl in *.
        exists x. split; auto. split; auto. destruct Hp as [<-|Hp]; auto. congruence.
    + rewrite nth_error_upd_neq by auto. tauto.
Qed.

Lemma Inv_step s l : Inv s -> Inv (step false s l).
Proof.
  intros I. destruct l as [i|i ok|i|i|i|n|a]; simpl; auto.
  - (* LStep *)
    destruct (nth_error (actors s) i) as [x|] eqn:E; auto.
    destruct (a_pc x) eqn:Epc; auto.
    + (* PNew *)
      destruct (a_remote x) eqn:Er.
      * apply Inv_pc_frame; auto; try (left; rewrite Epc; reflexivity); try (right; assumption);
           try (right; intros ?; unfold named; rewrite ?Er, ?En, ?andb_false_r; reflexivity).
      * destruct (a_name x) as [n0|] eqn:En.
        -- destruct (lookup n0 (names s)) as [j|] eqn:EL.
           ++ apply Inv_pc_frame; auto; left; rewrite Epc; reflexivity.
           ++ (* the name is inserted *)
              destruct I as [A B U P PU].
              assert (Nx : named x n0 = true) by (apply named_spec; auto).
              constructor; unfold set_pc; simpl.
              ** intros n a. destruct (N.eqb n0 n) eqn:E0.
                 --- apply N.eqb_eq in E0. subst n. intros H. injection H as <-.
                     rewrite (nth_error_upd_eq _ _ _ _ E). eexists; split; [reflexivity|]. split; auto.
                 --- intros L. destruct (A _ _ L) as (y & Ey & Ny & Hy).
                     destruct (Nat.eq_dec i a) as [->|Hne].
                     +++ rewrite E in Ey. injection Ey as <-. rewrite Epc in Hy. discriminate.
                     +++ rewrite nth_error_upd_neq by auto. eauto.
              ** intros a y n Ey Ny Hy. destruct (Nat.eq_dec i a) as [->|Hne].
                 --- rewrite (nth_error_upd_eq _ _ _ _ E) in Ey. injection Ey as <-.
                     assert (n = n0) as -> by (eapply named_inj; eauto).
                     rewrite N.eqb_refl. reflexivity.
                 --- rewrite nth_error_upd_neq in Ey by auto.
                     pose proof (B _ _ _ Ey Ny Hy) as L.
                     destruct (N.eqb n0 n) eqn:E0; auto.
                     apply N.eqb_eq in E0. subst n. congruence.
              ** constructor; auto. apply lookup_none_notin; auto.
              ** intros a. rewrite P. destruct (Nat.eq_dec i a) as [->|Hne].
                 --- rewrite (nth_error_upd_eq _ _ _ _ E). split.
                     +++ intros (y & Ey & _ & Hy). rewrite E in Ey. injection Ey as <-.
                         rewrite Epc in Hy. discriminate.
                     +++ intros (y & Ey & _ & Hy). injection Ey as <-. discriminate.
                 --- rewrite nth_error_upd_neq by auto. tauto.
              ** auto.
        -- apply Inv_pc_frame; auto; try (left; rewrite Epc; reflexivity); try (right; assumption);
           try (right; intros ?; unfold named; rewrite ?Er, ?En, ?andb_false_r; reflexivity).
    + (* PNameOk: the pid is inserted for local actors *)
      destruct (a_remote x) eqn:Er.
      * apply Inv_pc_frame; auto; try (left; rewrite Epc; reflexivity); try (right; assumption);
           try (right; intros ?; unfold named; rewrite ?Er, ?En, ?andb_false_r; reflexivity).
      * destruct I as [A B U P PU].
        assert (Hnot : mem_pid i (pids s) = false).
        { destruct (mem_pid i (pids s)) eqn:M; auto. apply P in M as (y & Ey & _ & Hy).
          rewrite E in Ey. injection Ey as <-. rewrite Epc in Hy. discriminate. }
        constructor; unfold set_pc; simpl; auto.
        -- intros n a L. destruct (A _ _ L) as (y & Ey & Ny & Hy).
           destruct (Nat.eq_dec i a) as [->|Hne].
           ++ rewrite (nth_error_upd_eq _ _ _ _ E). rewrite E in Ey. injection Ey as <-.
              eexists; split; [reflexivity|]. split; auto.
           ++ rewrite nth_error_upd_neq by auto. eauto.
        -- intros a y n Ey Ny Hy. destruct (Nat.eq_dec i a) as [->|Hne].
           ++ rewrite (nth_error_upd_eq _ _ _ _ E) in Ey. injection Ey as <-.
              apply (B _ x n); auto. rewrite Epc. reflexivity.
           ++ rewrite nth_error_upd_neq in Ey by auto. eauto.
        -- intros a. destruct (Nat.eq_dec i a) as [->|Hne].
           ++ rewrite Nat.eqb_refl. simpl. rewrite (nth_error_upd_eq _ _ _ _ E).
              split; auto. intros _. eexists; split; [reflexivity|]. simpl. auto.
           ++ assert (Nat.eqb a i = false) as -> by (apply Nat.eqb_neq; auto). simpl.
              rewrite P. rewrite nth_error_upd_neq by auto. tauto.
        -- constructor; auto. intros X. apply mem_pid_In in X. congruence.
    + (* PStop1: the pid is removed for local actors *)
      destruct (a_remote x) eqn:Er.
      * apply (Inv_pc_frame s i x PStop2); auto; try (left; rewrite Epc; reflexivity); try (right; assumption);
           try (right; intros ?; unfold named; rewrite ?Er, ?En, ?andb_false_r; reflexivity).
      * destruct I as [A B U P PU].
        constructor; unfold set_pc; simpl; auto.
        -- intros n a L. destruct (A _ _ L) as (y & Ey & Ny & Hy).
           destruct (Nat.eq_dec i a) as [->|Hne].
           ++ rewrite (nth_error_upd_eq _ _ _ _ E). rewrite E in Ey. injection Ey as <-.
              eexists; split; [reflexivity|]. split; auto.
           ++ rewrite nth_error_upd_neq by auto. eauto.
        -- intros a y n Ey Ny Hy. destruct (Nat.eq_dec i a) as [->|Hne].
           ++ rewrite (nth_error_upd_eq _ _ _ _ E) in Ey. injection Ey as <-.
              apply (B _ x n); auto. rewrite Epc. reflexivity.
           ++ rewrite nth_error_upd_neq in Ey by auto. eauto.
        -- intros a. rewrite mem_pid_remove. destruct (Nat.eq_dec i a) as [->|Hne].
           ++ rewrite Nat.eqb_refl. simpl. rewrite (nth_error_upd_eq _ _ _ _ E).
              split; [discriminate|]. intros (y & Ey & _ & Hy). injection Ey as <-. discriminate.
           ++ assert (Nat.eqb a i = false) as -> by (apply Nat.eqb_neq; auto). simpl.
              rewrite P. rewrite nth_error_upd_neq by auto. tauto.
        -- apply NoDup_remove_pid; auto.
    + (* PStop2: the name is removed (by name) for local actors *)
      destruct (a_name x) as [n0|] eqn:En.
      * rewrite orb_false_r. destruct (a_remote x) eqn:Er; simpl.
        -- apply Inv_pc_frame; auto; try (left; rewrite Epc; reflexivity); try (right; assumption);
           try (right; intros ?; unfold named; rewrite ?Er, ?En, ?andb_false_r; reflexivity).
        -- destruct I as [A B U P PU].
           assert (Nx : named x n0 = true) by (apply named_spec; auto).
           assert (Li : lookup n0 (names s) = Some i).
           { apply (B _ x n0); auto. rewrite Epc. reflexivity. }
           constructor; unfold set_pc; simpl.
           ++ intros n a. rewrite lookup_remove. destruct (N.eqb n0 n) eqn:E0; [discriminate|].
              intros L. destruct (A _ _ L) as (y & Ey & Ny & Hy).
              destruct (Nat.eq_dec i a) as [->|Hne].
              ** rewrite E in Ey. injection Ey as <-.
                 apply N.eqb_neq in E0. exfalso. apply E0. eapply named_inj; eauto.
              ** rewrite nth_error_upd_neq by auto. eauto.
           ++ intros a y n Ey Ny Hy. destruct (Nat.eq_dec i a) as [->|Hne].
              ** rewrite (nth_error_upd_eq _ _ _ _ E) in Ey. injection Ey as <-. discriminate.
              ** rewrite nth_error_upd_neq in Ey by auto.
                 pose proof (B _ _ _ Ey Ny Hy) as L. rewrite lookup_remove.
                 destruct (N.eqb n0 n) eqn:E0; auto.
                 apply N.eqb_eq in E0. subst n. congruence.
           ++ apply NoDup_remove; auto.
           ++ intros a. rewrite P. destruct (Nat.eq_dec i a) as [->|Hne].
              ** rewrite (nth_error_upd_eq _ _ _ _ E). split.
                 --- intros (y & Ey & _ & Hy). rewrite E in Ey. injection Ey as <-.
                     rewrite Epc in Hy. discriminate.
                 --- intros (y & Ey & _ & Hy). injection Ey as <-. discriminate.
              ** rewrite nth_error_upd_neq by auto. tauto.
           ++ auto.
      * apply Inv_pc_frame; auto; try (left; rewrite Epc; reflexivity); try (right; assumption);
           try (right; intros ?; unfold named; rewrite ?Er, ?En, ?andb_false_r; reflexivity).
  - (* LStart *)
    destruct (nth_error (actors s) i) as [x|] eqn:E; auto.
    destruct (a_pc x) eqn:Epc; auto.
    apply Inv_pc_frame; auto; left; rewrite Epc; destruct ok; reflexivity.
  - (* LStop *)
    destruct (nth_error (actors s) i) as [x|] eqn:E; auto.
    destruct (a_pc x) eqn:Epc; auto.
    apply Inv_pc_frame; auto; left; rewrite Epc; reflexivity.
  - (* LFinish *)
    destruct (nth_error (actors s) i) as [x|] eqn:E; auto.
    destruct (a_pc x) eqn:Epc; auto.
    apply Inv_pc_frame; auto; left; rewrite Epc; reflexivity.
  - (* LWaitRet *)
    destruct (nth_error (actors s) i) as [x|] eqn:E; auto.
    destruct (a_pc x) eqn:Epc; auto;
      apply Inv_pc_frame; auto; left; rewrite Epc; reflexivity.
Qed.

Lemma Inv_run ls s : Inv s -> Inv (run false ls s).
Proof.
  revert s; induction ls as [|l r IH]; intros s I; simpl; auto.
  apply IH. apply Inv_step; auto.
Qed.

Lemma reach_inv acts ls : Inv (run false ls (init acts)).
Proof. apply Inv_run. apply init_inv. Qed.

(* ------------------------------------------------------------------ consequences *)
(* at most one actor holds a name; it is the one the table maps the name to *)
Lemma held_unique s a b x y n :
  Inv s -> nth_error (actors s) a = Some x -> nth_error (actors s) b = Some y ->
  named x n = true -> named y n = true ->
  holds_name (a_pc x) = true -> holds_name (a_pc y) = true -> a = b.
Proof.
  intros I Ea Eb Na Nb Ha Hb.
  pose proof (iB _ I _ _ _ Ea Na Ha) as L1. pose proof (iB _ I _ _ _ Eb Nb Hb) as L2. congruence.
Qed.

Lemma held_iff s n a :
  Inv s ->
  (lookup n (names s) = Some a <->
   exists x, nth_error (actors s) a = Some x /\ named x n = true /\ holds_name (a_pc x) = true).
Proof.
  intros I. split; [apply (iA _ I)|]. intros (x & E & Nx & H). eapply (iB _ I); eauto.
Qed.

(* what a spawn does when it reaches the registry *)
Lemma spawn_outcome s i x n :
  nth_error (actors s) i = Some x -> a_pc x = PNew -> a_remote x = false -> a_name x = Some n ->
  let s' := step false s (LStep i) in
  (lookup n (names s) = None ->
     names s' = (n, i) :: names s /\ pids s' = pids s /\ pc_of s' i = Some PNameOk) /\
  (lookup n (names s) <> None ->
     names s' = names s /\ pids s' = pids s /\ pc_of s' i = Some PFailed /\
     forall j, j <> i -> nth_error (actors s') j = nth_error (actors s) j).
Proof.
  intros E Epc Er En. simpl. rewrite E, Epc, Er, En. split.
  - intros L. rewrite L. unfold set_pc, pc_of; simpl. rewrite (nth_error_upd_eq _ _ _ _ E). auto.
  - intros L. destruct (lookup n (names s)); [|congruence].
    unfold set_pc, pc_of; simpl. rewrite (nth_error_upd_eq _ _ _ _ E).
    repeat split; auto. intros j Hj. apply nth_error_upd_neq; auto.
Qed.

(* refinement of the sequential map in which only the holder releases *)
Lemma refines_map s l k : Inv s -> abs (step false s l) k = spec_step (actors s) l (abs s) k.
Proof.
  intros I. unfold abs. destruct l as [i|i ok|i|i|i|n|a]; simpl; auto.
  - destruct (nth_error (actors s) i) as [x|] eqn:E; auto.
    destruct (a_pc x) eqn:Epc; auto.
    all: destruct (a_remote x) eqn:Er; auto.
    all: destruct (a_name x) as [n0|] eqn:En; auto.
    + destruct (lookup n0 (names s)) as [j|] eqn:EL; auto;
        try (unfold mset; simpl; destruct (N.eqb n0 k); reflexivity).
    + simpl.
      assert (Li : lookup n0 (names s) = Some i).
      { apply (iB _ I _ x n0); auto; [apply named_spec; auto|rewrite Epc; reflexivity]. }
      rewrite Li, Nat.eqb_refl. unfold mset. rewrite lookup_remove. reflexivity.
  - destruct (nth_error (actors s) i) as [x|]; auto. destruct (a_pc x); auto.
  - destruct (nth_error (actors s) i) as [x|]; auto. destruct (a_pc x); auto.
  - destruct (nth_error (actors s) i) as [x|]; auto. destruct (a_pc x); auto.
  - destruct (nth_error (actors s) i) as [x|]; auto. destruct (a_pc x); auto.
Qed.

(* the holder's release frees the name *)
Lemma release_frees s i x n :
  Inv s -> nth_error (actors s) i = Some x -> a_pc x = PStop2 -> named x n = true ->
  lookup n (names (step false s (LStep i))) = None.
Proof.
  intros I E Epc Nx. apply named_spec in Nx as [Er En]. simpl. rewrite E, Epc, En, Er. simpl.
  rewrite lookup_remove, N.eqb_refl. reflexivity.
Qed.
