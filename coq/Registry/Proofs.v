(* C10 — proofs about Registry/Model.v (repaired code: f1 = false). *)
From Coq Require Import List NArith Bool Arith Lia.
From RV Require Import Registry.Model.
Import ListNotations.

(* ------------------------------------------------------------------ lists *)
Lemma nth_error_upd_eq {A} (l : list A) i x y :
  nth_error l i = Some y -> nth_error (upd l i x) i = Some x.
Proof. revert i; induction l as [|h t IH]; intros [|i] H; simpl in *; try discriminate; auto. Qed.

Lemma nth_error_upd_neq {A} (l : list A) i j x :
  i <> j -> nth_error (upd l i x) j = nth_error l j.
Proof.
  revert i j; induction l as [|h t IH]; intros [|i] [|j] H; simpl; auto; try congruence.
Qed.

Lemma lookup_none_notin n l : lookup n l = None <-> ~ In n (map fst l).
Proof.
  induction l as [|[m a] t IH]; simpl; [tauto|].
  destruct (N.eqb m n) eqn:E.
  - apply N.eqb_eq in E. subst. split; [discriminate|intros H; exfalso; apply H; auto].
  - apply N.eqb_neq in E. rewrite IH. tauto.
Qed.

Lemma lookup_remove n k l :
  lookup k (remove_name n l) = if N.eqb n k then None else lookup k l.
Proof.
  induction l as [|[m a] t IH]; simpl.
  - destruct (N.eqb n k); reflexivity.
  - destruct (N.eqb m n) eqn:E1; simpl.
    + apply N.eqb_eq in E1. subst m. rewrite IH. destruct (N.eqb n k); reflexivity.
    + simpl. rewrite IH. destruct (N.eqb m k) eqn:E2; auto.
      apply N.eqb_eq in E2. subst m. rewrite N.eqb_sym, E1. reflexivity.
Qed.

Lemma map_fst_remove_incl n l x : In x (map fst (remove_name n l)) -> In x (map fst l).
Proof.
  unfold remove_name. induction l as [|[m a] t IH]; simpl; auto.
  destruct (negb (N.eqb m n)); simpl; intuition.
Qed.

Lemma NoDup_remove n l : NoDup (map fst l) -> NoDup (map fst (remove_name n l)).
Proof.
  unfold remove_name. induction l as [|[m a] t IH]; simpl; intros H; auto.
  inversion H as [|? ? Hn Hd]; subst.
  destruct (negb (N.eqb m n)); simpl; auto.
  constructor; auto. intros X. apply Hn. eapply map_fst_remove_incl; eauto.
Qed.

Lemma mem_pid_cons a b l : mem_pid a (b :: l) = Nat.eqb a b || mem_pid a l.
Proof. reflexivity. Qed.

Lemma mem_pid_remove a b l : mem_pid a (remove_pid b l) = negb (Nat.eqb a b) && mem_pid a l.
Proof.
  unfold mem_pid, remove_pid. induction l as [|c t IH]; simpl.
  - rewrite andb_false_r; reflexivity.
  - destruct (Nat.eqb c b) eqn:E; simpl.
    + apply Nat.eqb_eq in E. subst c. rewrite IH. destruct (Nat.eqb a b); reflexivity.
    + rewrite IH. destruct (Nat.eqb a c) eqn:E2; simpl.
      * apply Nat.eqb_eq in E2. subst c. rewrite E. reflexivity.
      * reflexivity.
Qed.

Lemma NoDup_remove_pid b l : NoDup l -> NoDup (remove_pid b l).
Proof. unfold remove_pid. apply NoDup_filter. Qed.

Lemma mem_pid_In a l : mem_pid a l = true <-> In a l.
Proof.
  unfold mem_pid. rewrite existsb_exists. split.
  - intros (x & Hx & E). apply Nat.eqb_eq in E. subst; auto.
  - intros H. exists a. split; auto. apply Nat.eqb_refl.
Qed.

(* ------------------------------------------------------------------ the invariant *)
Lemma named_inj x n m : named x n = true -> named x m = true -> n = m.
Proof.
  unfold named. destruct (a_remote x); simpl; try discriminate.
  destruct (a_name x); try discriminate.
  intros A B. apply N.eqb_eq in A. apply N.eqb_eq in B. congruence.
Qed.

Lemma named_spec x n : named x n = true <-> a_remote x = false /\ a_name x = Some n.
Proof.
  unfold named. destruct (a_remote x); simpl.
  - split; [discriminate|intros [? _]; discriminate].
  - destruct (a_name x) as [m|].
    + rewrite N.eqb_eq. split; [intros ->; auto|intros [_ H]; congruence].
    + split; [discriminate|intros [_ ?]; discriminate].
Qed.

Record Inv (s : st) : Prop := mkInv {
  iA : forall n a, lookup n (names s) = Some a ->
       exists x, nth_error (actors s) a = Some x /\ named x n = true /\ holds_name (a_pc x) = true;
  iB : forall a x n, nth_error (actors s) a = Some x -> named x n = true ->
       holds_name (a_pc x) = true -> lookup n (names s) = Some a;
  iU : NoDup (map fst (names s));
  iP : forall a, mem_pid a (pids s) = true <->
       exists x, nth_error (actors s) a = Some x /\ a_remote x = false /\ holds_pid (a_pc x) = true;
  iPU : NoDup (pids s)
}.

Lemma init_inv acts : Inv (init acts).
Proof.
  constructor; unfold init; simpl.
  - discriminate.
  - intros a x n H _ Hh. rewrite nth_error_map in H.
    destruct (nth_error acts a); try discriminate. injection H as <-. discriminate.
  - constructor.
  - intros a. split; [discriminate|].
    intros (x & H & _ & Hh). rewrite nth_error_map in H.
    destruct (nth_error acts a); try discriminate. injection H as <-. discriminate.
  - constructor.
Qed.

(* an actor changes its pc; the tables do not change; the change is invisible to both tables *)
Lemma Inv_pc_frame s i x p' :
  Inv s -> nth_error (actors s) i = Some x ->
  (holds_name p' = holds_name (a_pc x) \/ forall n, named x n = false) ->
  (holds_pid p' = holds_pid (a_pc x) \/ a_remote x = true) ->
  Inv (set_pc s i x p').
Proof.
  intros [A B U P PU] E Hn Hp.
  assert (NM : forall n, named (mkA (a_name x) (a_remote x) p') n = named x n) by reflexivity.
  constructor; unfold set_pc; simpl; auto.
  - intros n a L. destruct (A _ _ L) as (y & Ey & Ny & Hy).
    destruct (Nat.eq_dec i a) as [->|Hne].
    + rewrite (nth_error_upd_eq _ _ _ _ E). eexists; split; [reflexivity|].
      rewrite E in Ey. injection Ey as <-. rewrite NM. split; auto. simpl.
      destruct Hn as [->|Hn]; auto. rewrite Hn in Ny. discriminate.
    + rewrite nth_error_upd_neq by auto. eauto.
  - intros a y n Ey Ny Hy. destruct (Nat.eq_dec i a) as [->|Hne].
    + rewrite (nth_error_upd_eq _ _ _ _ E) in Ey. injection Ey as <-. rewrite NM in Ny. simpl in Hy.
      apply (B _ x n); auto. destruct Hn as [<-|Hn]; auto. rewrite Hn in Ny. discriminate.
    + rewrite nth_error_upd_neq in Ey by auto. eauto.
  - intros a. rewrite P. destruct (Nat.eq_dec i a) as [->|Hne].
    + rewrite (nth_error_upd_eq _ _ _ _ E). split.
      * intros (y & Ey & Ry & Hy). rewrite E in Ey. injection Ey as <-.
        eexists; split; [reflexivity|]. simpl. split; auto.
        destruct Hp as [->|Hp]; auto. congruence.
      * intros (y & Ey & Ry & Hy). injection Ey as <-. simpl in *.
        exists x. split; auto. split; auto. destruct Hp as [<-|Hp]; auto. congruence.
    + rewrite nth_error_upd_neq by auto. tauto.
Qed.

Lemma Inv_step s l : Inv s -> Inv (step false s l).
Proof.
  intros I. destruct l as [i|i ok|i|i|i|n|a]; simpl; auto.
  - (* LStep *)
    destruct (nth_error (actors s) i) as [x|] eqn:E; auto.
    destruct (a_pc x) eqn:Epc; auto.
    + (* PNew *)
      destruct (a_remote x) eqn:Er.
      * apply Inv_pc_frame; auto; try (left; rewrite Epc; reflexivity); try (right; assumption);
           try (right; intros ?; unfold named; rewrite ?Er, ?En, ?andb_false_r; reflexivity).
      * destruct (a_name x) as [n0|] eqn:En.
        -- destruct (lookup n0 (names s)) as [j|] eqn:EL.
           ++ apply Inv_pc_frame; auto; left; rewrite Epc; reflexivity.
           ++ (* the name is inserted *)
              destruct I as [A B U P PU].
              assert (Nx : named x n0 = true) by (apply named_spec; auto).
              constructor; unfold set_pc; simpl.
              ** intros n a. destruct (N.eqb n0 n) eqn:E0.
                 --- apply N.eqb_eq in E0. subst n. intros H. injection H as <-.
                     rewrite (nth_error_upd_eq _ _ _ _ E). eexists; split; [reflexivity|]. split; auto.
                 --- intros L. destruct (A _ _ L) as (y & Ey & Ny & Hy).
                     destruct (Nat.eq_dec i a) as [->|Hne].
                     +++ rewrite E in Ey. injection Ey as <-. rewrite Epc in Hy. discriminate.
                     +++ rewrite nth_error_upd_neq by auto. eauto.
              ** intros a y n Ey Ny Hy. destruct (Nat.eq_dec i a) as [->|Hne].
                 --- rewrite (nth_error_upd_eq _ _ _ _ E) in Ey. injection Ey as <-.
                     assert (n = n0) as -> by (eapply named_inj; eauto).
                     rewrite N.eqb_refl. reflexivity.
                 --- rewrite nth_error_upd_neq in Ey by auto.
                     pose proof (B _ _ _ Ey Ny Hy) as L.
                     destruct (N.eqb n0 n) eqn:E0; auto.
                     apply N.eqb_eq in E0. subst n. congruence.
              ** constructor; auto. apply lookup_none_notin; auto.
              ** intros a. rewrite P. destruct (Nat.eq_dec i a) as [->|Hne].
                 --- rewrite (nth_error_upd_eq _ _ _ _ E). split.
                     +++ intros (y & Ey & _ & Hy). rewrite E in Ey. injection Ey as <-.
                         rewrite Epc in Hy. discriminate.
                     +++ intros (y & Ey & _ & Hy). injection Ey as <-. discriminate.
                 --- rewrite nth_error_upd_neq by auto. tauto.
              ** auto.
        -- apply Inv_pc_frame; auto; try (left; rewrite Epc; reflexivity); try (right; assumption);
           try (right; intros ?; unfold named; rewrite ?Er, ?En, ?andb_false_r; reflexivity).
    + (* PNameOk: the pid is inserted for local actors *)
      destruct (a_remote x) eqn:Er.
      * apply Inv_pc_frame; auto; try (left; rewrite Epc; reflexivity); try (right; assumption);
           try (right; intros ?; unfold named; rewrite ?Er, ?En, ?andb_false_r; reflexivity).
      * destruct I as [A B U P PU].
        assert (Hnot : mem_pid i (pids s) = false).
        { destruct (mem_pid i (pids s)) eqn:M; auto. apply P in M as (y & Ey & _ & Hy).
          rewrite E in Ey. injection Ey as <-. rewrite Epc in Hy. discriminate. }
        constructor; unfold set_pc; simpl; auto.
        -- intros n a L. destruct (A _ _ L) as (y & Ey & Ny & Hy).
           destruct (Nat.eq_dec i a) as [->|Hne].
           ++ rewrite (nth_error_upd_eq _ _ _ _ E). rewrite E in Ey. injection Ey as <-.
              eexists; split; [reflexivity|]. split; auto.
           ++ rewrite nth_error_upd_neq by auto. eauto.
        -- intros a y n Ey Ny Hy. destruct (Nat.eq_dec i a) as [->|Hne].
           ++ rewrite (nth_error_upd_eq _ _ _ _ E) in Ey. injection Ey as <-.
              apply (B _ x n); auto. rewrite Epc. reflexivity.
           ++ rewrite nth_error_upd_neq in Ey by auto. eauto.
        -- intros a. destruct (Nat.eq_dec i a) as [->|Hne].
           ++ rewrite Nat.eqb_refl. simpl. rewrite (nth_error_upd_eq _ _ _ _ E).
              split; auto. intros _. eexists; split; [reflexivity|]. simpl. auto.
           ++ assert (Nat.eqb a i = false) as -> by (apply Nat.eqb_neq; auto). simpl.
              rewrite P. rewrite nth_error_upd_neq by auto. tauto.
        -- constructor; auto. intros X. apply mem_pid_In in X. congruence.
    + (* PStop1: the pid is removed for local actors *)
      destruct (a_remote x) eqn:Er.
      * apply (Inv_pc_frame s i x PStop2); auto; try (left; rewrite Epc; reflexivity); try (right; assumption);
           try (right; intros ?; unfold named; rewrite ?Er, ?En, ?andb_false_r; reflexivity).
      * destruct I as [A B U P PU].
        constructor; unfold set_pc; simpl; auto.
        -- intros n a L. destruct (A _ _ L) as (y & Ey & Ny & Hy).
           destruct (Nat.eq_dec i a) as [->|Hne].
           ++ rewrite (nth_error_upd_eq _ _ _ _ E). rewrite E in Ey. injection Ey as <-.
              eexists; split; [reflexivity|]. split; auto.
           ++ rewrite nth_error_upd_neq by auto. eauto.
        -- intros a y n Ey Ny Hy. destruct (Nat.eq_dec i a) as [->|Hne].
           ++ rewrite (nth_error_upd_eq _ _ _ _ E) in Ey. injection Ey as <-.
              apply (B _ x n); auto. rewrite Epc. reflexivity.
           ++ rewrite nth_error_upd_neq in Ey by auto. eauto.
        -- intros a. rewrite mem_pid_remove. destruct (Nat.eq_dec i a) as [->|Hne].
           ++ rewrite Nat.eqb_refl. simpl. rewrite (nth_error_upd_eq _ _ _ _ E).
              split; [discriminate|]. intros (y & Ey & _ & Hy). injection Ey as <-. discriminate.
           ++ assert (Nat.eqb a i = false) as -> by (apply Nat.eqb_neq; auto). simpl.
              rewrite P. rewrite nth_error_upd_neq by auto. tauto.
        -- apply NoDup_remove_pid; auto.
    + (* PStop2: the name is removed (by name) for local actors *)
      destruct (a_name x) as [n0|] eqn:En.
      * rewrite orb_false_r. destruct (a_remote x) eqn:Er; simpl.
        -- apply Inv_pc_frame; auto; try (left; rewrite Epc; reflexivity); try (right; assumption);
           try (right; intros ?; unfold named; rewrite ?Er, ?En, ?andb_false_r; reflexivity).
        -- destruct I as [A B U P PU].
           assert (Nx : named x n0 = true) by (apply named_spec; auto).
           assert (Li : lookup n0 (names s) = Some i).
           { apply (B _ x n0); auto. rewrite Epc. reflexivity. }
           constructor; unfold set_pc; simpl.
           ++ intros n a. rewrite lookup_remove. destruct (N.eqb n0 n) eqn:E0; [discriminate|].
              intros L. destruct (A _ _ L) as (y & Ey & Ny & Hy).
              destruct (Nat.eq_dec i a) as [->|Hne].
              ** rewrite E in Ey. injection Ey as <-.
                 apply N.eqb_neq in E0. exfalso. apply E0. eapply named_inj; eauto.
              ** rewrite nth_error_upd_neq by auto. eauto.
           ++ intros a y n Ey Ny Hy. destruct (Nat.eq_dec i a) as [->|Hne].
              ** rewrite (nth_error_upd_eq _ _ _ _ E) in Ey. injection Ey as <-. discriminate.
              ** rewrite nth_error_upd_neq in Ey by auto.
                 pose proof (B _ _ _ Ey Ny Hy) as L. rewrite lookup_remove.
                 destruct (N.eqb n0 n) eqn:E0; auto.
                 apply N.eqb_eq in E0. subst n. congruence.
           ++ apply NoDup_remove; auto.
           ++ intros a. rewrite P. destruct (Nat.eq_dec i a) as [->|Hne].
              ** rewrite (nth_error_upd_eq _ _ _ _ E). split.
                 --- intros (y & Ey & _ & Hy). rewrite E in Ey. injection Ey as <-.
                     rewrite Epc in Hy. discriminate.
                 --- intros (y & Ey & _ & Hy). injection Ey as <-. discriminate.
              ** rewrite nth_error_upd_neq by auto. tauto.
           ++ auto.
      * apply Inv_pc_frame; auto; try (left; rewrite Epc; reflexivity); try (right; assumption);
           try (right; intros ?; unfold named; rewrite ?Er, ?En, ?andb_false_r; reflexivity).
  - (* LStart *)
    destruct (nth_error (actors s) i) as [x|] eqn:E; auto.
    destruct (a_pc x) eqn:Epc; auto.
    apply Inv_pc_frame; auto; left; rewrite Epc; destruct ok; reflexivity.
  - (* LStop *)
    destruct (nth_error (actors s) i) as [x|] eqn:E; auto.
    destruct (a_pc x) eqn:Epc; auto.
    apply Inv_pc_frame; auto; left; rewrite Epc; reflexivity.
  - (* LFinish *)
    destruct (nth_error (actors s) i) as [x|] eqn:E; auto.
    destruct (a_pc x) eqn:Epc; auto.
    apply Inv_pc_frame; auto; left; rewrite Epc; reflexivity.
  - (* LWaitRet *)
    destruct (nth_error (actors s) i) as [x|] eqn:E; auto.
    destruct (a_pc x) eqn:Epc; auto;
      apply Inv_pc_frame; auto; left; rewrite Epc; reflexivity.
Qed.

Lemma Inv_run ls s : Inv s -> Inv (run false ls s).
Proof.
  revert s; induction ls as [|l r IH]; intros s I; simpl; auto.
  apply IH. apply Inv_step; auto.
Qed.

Lemma reach_inv acts ls : Inv (run false ls (init acts)).
Proof. apply Inv_run. apply init_inv. Qed.

(* ------------------------------------------------------------------ consequences *)
(* at most one actor holds a name; it is the one the table maps the name to *)
Lemma held_unique s a b x y n :
  Inv s -> nth_error (actors s) a = Some x -> nth_error (actors s) b = Some y ->
  named x n = true -> named y n = true ->
  holds_name (a_pc x) = true -> holds_name (a_pc y) = true -> a = b.
Proof.
  intros I Ea Eb Na Nb Ha Hb.
  pose proof (iB _ I _ _ _ Ea Na Ha) as L1. pose proof (iB _ I _ _ _ Eb Nb Hb) as L2. congruence.
Qed.

Lemma held_iff s n a :
  Inv s ->
  (lookup n (names s) = Some a <->
   exists x, nth_error (actors s) a = Some x /\ named x n = true /\ holds_name (a_pc x) = true).
Proof.
  intros I. split; [apply (iA _ I)|]. intros (x & E & Nx & H). eapply (iB _ I); eauto.
Qed.

(* what a spawn does when it reaches the registry *)
Lemma spawn_outcome s i x n :
  nth_error (actors s) i = Some x -> a_pc x = PNew -> a_remote x = false -> a_name x = Some n ->
  let s' := step false s (LStep i) in
  (lookup n (names s) = None ->
     names s' = (n, i) :: names s /\ pids s' = pids s /\ pc_of s' i = Some PNameOk) /\
  (lookup n (names s) <> None ->
     names s' = names s /\ pids s' = pids s /\ pc_of s' i = Some PFailed /\
     forall j, j <> i -> nth_error (actors s') j = nth_error (actors s) j).
Proof.
  intros E Epc Er En. simpl. rewrite E, Epc, Er, En. split.
  - intros L. rewrite L. unfold set_pc, pc_of; simpl. rewrite (nth_error_upd_eq _ _ _ _ E). auto.
  - intros L. destruct (lookup n (names s)); [|congruence].
    unfold set_pc, pc_of; simpl. rewrite (nth_error_upd_eq _ _ _ _ E).
    repeat split; auto. intros j Hj. apply nth_error_upd_neq; auto.
Qed.

(* refinement of the sequential map in which only the holder releases *)
Lemma refines_map s l k : Inv s -> abs (step false s l) k = spec_step (actors s) l (abs s) k.
Proof.
  intros I. unfold abs. destruct l as [i|i ok|i|i|i|n|a]; simpl; auto.
  - destruct (nth_error (actors s) i) as [x|] eqn:E; auto.
    destruct (a_pc x) eqn:Epc; auto.
    all: destruct (a_remote x) eqn:Er; auto.
    all: destruct (a_name x) as [n0|] eqn:En; auto.
    + destruct (lookup n0 (names s)) as [j|] eqn:EL; auto;
        try (unfold mset; simpl; destruct (N.eqb n0 k); reflexivity).
    + simpl.
      assert (Li : lookup n0 (names s) = Some i).
      { apply (iB _ I _ x n0); auto; [apply named_spec; auto|rewrite Epc; reflexivity]. }
      rewrite Li, Nat.eqb_refl. unfold mset. rewrite lookup_remove. reflexivity.
  - destruct (nth_error (actors s) i) as [x|]; auto. destruct (a_pc x); auto.
  - destruct (nth_error (actors s) i) as [x|]; auto. destruct (a_pc x); auto.
  - destruct (nth_error (actors s) i) as [x|]; auto. destruct (a_pc x); auto.
  - destruct (nth_error (actors s) i) as [x|]; auto. destruct (a_pc x); auto.
Qed.

(* the holder's release frees the name *)
Lemma release_frees s i x n :
  Inv s -> nth_error (actors s) i = Some x -> a_pc x = PStop2 -> named x n = true ->
  lookup n (names (step false s (LStep i))) = None.
Proof.
  intros I E Epc Nx. apply named_spec in Nx as [Er En]. simpl. rewrite E, Epc, En, Er. simpl.
  rewrite lookup_remove, N.eqb_refl. reflexivity.
Qed.

(* ------------------------------------------------------------------ the oracle accepts every model history *)
Lemma mem_pair_cons n a m b l :
  mem_pair n a ((m, b) :: l) = (N.eqb m n && Nat.eqb b a) || mem_pair n a l.
Proof. reflexivity. Qed.

Lemma mem_pair_del n a m b l :
  mem_pair n a (del_pair m b l) = mem_pair n a l && negb (N.eqb n m && Nat.eqb a b).
Proof.
  unfold mem_pair, del_pair. induction l as [|[k c] t IH]; simpl; auto.
  destruct (N.eqb k m && Nat.eqb c b) eqn:E; simpl.
  - rewrite IH. apply andb_true_iff in E as [E1 E2].
    apply N.eqb_eq in E1. apply Nat.eqb_eq in E2. subst k c.
    destruct (N.eqb m n) eqn:F1; simpl; auto.
    destruct (Nat.eqb b a) eqn:F2; simpl; auto.
    apply N.eqb_eq in F1. apply Nat.eqb_eq in F2. subst. rewrite N.eqb_refl, Nat.eqb_refl. simpl.
    rewrite andb_false_r. reflexivity.
  - rewrite IH. destruct (N.eqb k n && Nat.eqb c a) eqn:F; simpl; auto.
    apply andb_true_iff in F as [F1 F2]. apply N.eqb_eq in F1. apply Nat.eqb_eq in F2. subst k c.
    rewrite E. reflexivity.
Qed.

Lemma has_name_ex n l : has_name n l = true <-> exists a, mem_pair n a l = true.
Proof.
  unfold has_name, mem_pair. split.
  - intros H. apply existsb_exists in H as ([m a] & Hin & E). exists a.
    apply existsb_exists. exists (m, a). simpl in *. rewrite E, Nat.eqb_refl. auto.
  - intros (a & H). apply existsb_exists in H as (e & Hin & E). apply andb_true_iff in E as [E _].
    apply existsb_exists. eauto.
Qed.

Lemma mem_nat_del a b l : mem_nat a (del_nat b l) = mem_nat a l && negb (Nat.eqb a b).
Proof.
  unfold mem_nat, del_nat. induction l as [|c t IH]; simpl; auto.
  destruct (Nat.eqb c b) eqn:E; simpl.
  - rewrite IH. apply Nat.eqb_eq in E. subst c. destruct (Nat.eqb a b); simpl; auto.
    rewrite andb_false_r. reflexivity.
  - rewrite IH. destruct (Nat.eqb a c) eqn:F; simpl; auto.
    apply Nat.eqb_eq in F. subst c. rewrite E. reflexivity.
Qed.

Definition stoppingpc (p : pc) : bool := match p with PStop1 | PStop2 => true | _ => false end.
Definition pidlivepc (p : pc) : bool := match p with PRegd | PRun => true | _ => false end.
Definition spawnedpc (p : pc) : bool := match p with PNew | PFailed => false | _ => true end.

Record Rel (s : st) (o : ost) : Prop := mkRel {
  rL : forall n a, mem_pair n a (o_live o) = true <->
       exists x, nth_error (actors s) a = Some x /\ named x n = true /\ live (a_pc x) = true;
  rS : forall n a x, nth_error (actors s) a = Some x -> named x n = true ->
       stoppingpc (a_pc x) = true -> mem_pair n a (o_stopping o) = true;
  rW : forall a, mem_nat a (o_waited o) = true ->
       exists x, nth_error (actors s) a = Some x /\ a_pc x = PWaited;
  rP : forall a, mem_nat a (o_pidlive o) = true ->
       exists x, nth_error (actors s) a = Some x /\ a_remote x = false /\ pidlivepc (a_pc x) = true;
  rI : forall a x, nth_error (actors s) a = Some x -> spawnedpc (a_pc x) = true ->
       info_of a (o_info o) = Some (a_name x, a_remote x)
}.

Fixpoint osteps (o : ost) (h : list ev) : option ost :=
  match h with
  | [] => Some o
  | e :: t => match ostep o e with Some o' => osteps o' t | None => None end
  end.

Lemma check_from_app o h1 h2 :
  check_from o (h1 ++ h2) = match osteps o h1 with Some o' => check_from o' h2 | None => false end.
Proof.
  revert o; induction h1 as [|e t IH]; intros o; simpl; auto.
  destruct (ostep o e); auto.
Qed.

(* pc change of actor i; classes relevant to Rel given as hypotheses *)
Lemma Rel_pc s o i x p' :
  Rel s o -> nth_error (actors s) i = Some x ->
  (live p' = live (a_pc x) \/ forall n, named x n = false) ->
  (stoppingpc p' = true -> stoppingpc (a_pc x) = true \/ forall n, named x n = false) ->
  (a_pc x = PWaited -> p' = PWaited) ->
  (pidlivepc (a_pc x) = true -> pidlivepc p' = true \/ mem_nat i (o_pidlive o) = false) ->
  (spawnedpc p' = true -> spawnedpc (a_pc x) = true \/ info_of i (o_info o) = Some (a_name x, a_remote x)) ->
  Rel (set_pc s i x p') o.
Proof.
  intros [L S W P I] E HL HS HW HP HI.
  assert (NM : forall n, named (mkA (a_name x) (a_remote x) p') n = named x n) by reflexivity.
  constructor; unfold set_pc; simpl.
  - intros n a. rewrite L. destruct (Nat.eq_dec i a) as [->|Hne].
    + rewrite (nth_error_upd_eq _ _ _ _ E). split.
      * intros (y & Ey & Ny & Ly). rewrite E in Ey. injection Ey as <-.
        eexists; split; [reflexivity|]. rewrite NM. split; auto. simpl.
        destruct HL as [->|HL]; auto. rewrite HL in Ny. discriminate.
      * intros (y & Ey & Ny & Ly). injection Ey as <-. rewrite NM in Ny. simpl in Ly.
        exists x. split; auto. split; auto. destruct HL as [<-|HL]; auto. rewrite HL in Ny. discriminate.
    + rewrite nth_error_upd_neq by auto. tauto.
  - intros n a y Ey Ny Sy. destruct (Nat.eq_dec i a) as [->|Hne].
    + rewrite (nth_error_upd_eq _ _ _ _ E) in Ey. injection Ey as <-. rewrite NM in Ny. simpl in Sy.
      destruct (HS Sy) as [H|H]; [|rewrite H in Ny; discriminate]. eapply S; eauto.
    + rewrite nth_error_upd_neq in Ey by auto. eauto.
  - intros a Ha. destruct (W _ Ha) as (y & Ey & Py). destruct (Nat.eq_dec i a) as [->|Hne].
    + rewrite (nth_error_upd_eq _ _ _ _ E). rewrite E in Ey. injection Ey as <-.
      eexists; split; [reflexivity|]. simpl. auto.
    + rewrite nth_error_upd_neq by auto. eauto.
  - intros a Ha. destruct (P _ Ha) as (y & Ey & Ry & Py). destruct (Nat.eq_dec i a) as [->|Hne].
    + rewrite (nth_error_upd_eq _ _ _ _ E). rewrite E in Ey. injection Ey as <-.
      eexists; split; [reflexivity|]. simpl. split; auto.
      destruct (HP Py) as [H|H]; auto. congruence.
    + rewrite nth_error_upd_neq by auto. eauto.
  - intros a y Ey Sy. destruct (Nat.eq_dec i a) as [->|Hne].
    + rewrite (nth_error_upd_eq _ _ _ _ E) in Ey. injection Ey as <-. simpl in *.
      destruct (HI Sy) as [H|H]; auto; apply (I _ x); auto.
    + rewrite nth_error_upd_neq in Ey by auto. eauto.
Qed.

Lemma Rel_oinfo s o i x v :
  Rel s o -> nth_error (actors s) i = Some x -> a_pc x = PNew ->
  Rel s (mkO (o_live o) (o_stopping o) (o_waited o) (o_pidlive o) ((i, v) :: o_info o)).
Proof.
  intros [L S W P I] E Epc. constructor; simpl; auto.
  intros a y Ey Sy. destruct (Nat.eqb i a) eqn:Ei.
  - apply Nat.eqb_eq in Ei. subst a. rewrite E in Ey. injection Ey as <-. rewrite Epc in Sy. discriminate.
  - eauto.
Qed.

(* the tables of the state do not matter for Rel *)
Lemma Rel_tables s o nm pd : Rel s o -> Rel (mkSt nm pd (actors s)) o.
Proof. intros [L S W P I]. constructor; simpl; auto. Qed.

(* the oracle state gains a pid / info entry *)
Lemma info_of_cons a b v l : info_of a ((b, v) :: l) = if Nat.eqb b a then Some v else info_of a l.
Proof. reflexivity. Qed.

Ltac nonamed H :=
  unfold named in H; simpl in H;
  repeat match goal with
         | E : a_remote _ = _ |- _ => rewrite E in H
         | E : a_name _ = _ |- _ => rewrite E in H
         end;
  simpl in H; rewrite ?andb_false_r in H; discriminate.

Lemma begin_ok s o i x :
  Inv s -> Rel s o -> nth_error (actors s) i = Some x -> pidlivepc (a_pc x) = true ->
  exists o', ostep o (EBegin i) = Some o' /\ Rel (set_pc s i x PStop1) o'.
Proof.
  intros I R E Hp.
  assert (Sp : spawnedpc (a_pc x) = true) by (destruct (a_pc x); try discriminate; reflexivity).
  assert (Lx : live (a_pc x) = true) by (destruct (a_pc x); try discriminate; reflexivity).
  pose proof (rI _ _ R _ _ E Sp) as Info. simpl. rewrite Info.
  assert (NM : forall n, named (mkA (a_name x) (a_remote x) PStop1) n = named x n) by reflexivity.
  (* generic part: pidlive loses i *)
  assert (PID : forall a, mem_nat a (del_nat i (o_pidlive o)) = true ->
           exists y, nth_error (actors (set_pc s i x PStop1)) a = Some y /\
                     a_remote y = false /\ pidlivepc (a_pc y) = true).
  { unfold set_pc; simpl. intros a Ha. rewrite mem_nat_del in Ha. apply andb_true_iff in Ha as [Ha Hne].
    destruct (rP _ _ R _ Ha) as (y & Ey & Ry & Py).
    assert (a <> i) by (intros ->; rewrite Nat.eqb_refl in Hne; discriminate).
    rewrite nth_error_upd_neq by auto. eauto. }
  assert (WT : forall a, mem_nat a (o_waited o) = true ->
           exists y, nth_error (actors (set_pc s i x PStop1)) a = Some y /\ a_pc y = PWaited).
  { unfold set_pc; simpl. intros a Ha. destruct (rW _ _ R _ Ha) as (y & Ey & Py). destruct (Nat.eq_dec i a) as [->|Hne].
    - rewrite E in Ey. injection Ey as <-. rewrite Py in Hp. discriminate.
    - rewrite nth_error_upd_neq by auto. eauto. }
  assert (INF : forall a y, nth_error (actors (set_pc s i x PStop1)) a = Some y ->
           spawnedpc (a_pc y) = true -> info_of a (o_info o) = Some (a_name y, a_remote y)).
  { unfold set_pc; simpl. intros a y Ey Sy. destruct (Nat.eq_dec i a) as [->|Hne].
    - rewrite (nth_error_upd_eq _ _ _ _ E) in Ey. injection Ey as <-. simpl. auto.
    - rewrite nth_error_upd_neq in Ey by auto. eapply (rI _ _ R); eauto. }
  destruct (a_name x) as [n0|] eqn:En; [destruct (a_remote x) eqn:Er|].
  - (* remote named *)
    eexists; split; [reflexivity|]. constructor; [| |exact WT|exact PID|exact INF]; unfold set_pc; simpl.
    + intros n a. rewrite (rL _ _ R). destruct (Nat.eq_dec i a) as [->|Hne].
      * rewrite (nth_error_upd_eq _ _ _ _ E). split.
        -- intros (y & Ey & Ny & _). rewrite E in Ey. injection Ey as <-.
           nonamed Ny.
        -- intros (y & Ey & Ny & _). injection Ey as <-. nonamed Ny.
      * rewrite nth_error_upd_neq by auto. tauto.
    + intros n a y Ey Ny Sy. destruct (Nat.eq_dec i a) as [->|Hne].
      * rewrite (nth_error_upd_eq _ _ _ _ E) in Ey. injection Ey as <-. nonamed Ny.
      * rewrite nth_error_upd_neq in Ey by auto. eapply (rS _ _ R); eauto.
  - (* local named: the holder moves from live to stopping *)
    assert (Nx : named x n0 = true) by (apply named_spec; auto).
    assert (ML : mem_pair n0 i (o_live o) = true) by (apply (rL _ _ R); eauto).
    rewrite ML. eexists; split; [reflexivity|]. constructor; [| |exact WT|exact PID|exact INF]; unfold set_pc; simpl.
    + intros n a. rewrite mem_pair_del, andb_true_iff, (rL _ _ R).
      destruct (Nat.eq_dec i a) as [->|Hne].
      * rewrite (nth_error_upd_eq _ _ _ _ E). split.
        -- intros [(y & Ey & Ny & _) Hd]. rewrite E in Ey. injection Ey as <-.
           assert (n = n0) as -> by (eapply named_inj; eauto).
           rewrite N.eqb_refl, Nat.eqb_refl in Hd. discriminate.
        -- intros (y & Ey & _ & Ly). injection Ey as <-. discriminate.
      * rewrite nth_error_upd_neq by auto. split; [tauto|]. intros H. split; auto.
        assert (Nat.eqb a i = false) as -> by (apply Nat.eqb_neq; auto). rewrite andb_false_r. reflexivity.
    + intros n a y Ey Ny Sy. destruct (Nat.eq_dec i a) as [->|Hne].
      * rewrite (nth_error_upd_eq _ _ _ _ E) in Ey. injection Ey as <-. change (named x n = true) in Ny.
        assert (n = n0) as -> by (eapply named_inj; eauto).
        rewrite N.eqb_refl, Nat.eqb_refl. reflexivity.
      * rewrite nth_error_upd_neq in Ey by auto. rewrite (rS _ _ R _ _ _ Ey Ny Sy). apply orb_true_r.
  - (* anonymous *)
    eexists; split; [reflexivity|]. constructor; [| |exact WT|exact PID|exact INF]; unfold set_pc; simpl.
    + intros n a. rewrite (rL _ _ R). destruct (Nat.eq_dec i a) as [->|Hne].
      * rewrite (nth_error_upd_eq _ _ _ _ E). split.
        -- intros (y & Ey & Ny & _). rewrite E in Ey. injection Ey as <-.
           nonamed Ny.
        -- intros (y & Ey & Ny & _). injection Ey as <-. nonamed Ny.
      * rewrite nth_error_upd_neq by auto. tauto.
    + intros n a y Ey Ny Sy. destruct (Nat.eq_dec i a) as [->|Hne].
      * rewrite (nth_error_upd_eq _ _ _ _ E) in Ey. injection Ey as <-. nonamed Ny.
      * rewrite nth_error_upd_neq in Ey by auto. eapply (rS _ _ R); eauto.
Qed.

Lemma pc_of_set s i x p : nth_error (actors s) i = Some x -> pc_of (set_pc s i x p) i = Some p.
Proof. intros E. unfold pc_of, set_pc; simpl. rewrite (nth_error_upd_eq _ _ _ _ E). reflexivity. Qed.

Lemma pc_of_set_tables nm pd s i x p :
  nth_error (actors s) i = Some x -> pc_of (set_pc (mkSt nm pd (actors s)) i x p) i = Some p.
Proof. intros E. unfold pc_of, set_pc; simpl. rewrite (nth_error_upd_eq _ _ _ _ E). reflexivity. Qed.

Lemma Rel_set_tables s o nm pd i x p :
  Rel (set_pc s i x p) o -> Rel (set_pc (mkSt nm pd (actors s)) i x p) o.
Proof. intros [L S W P I]. constructor; unfold set_pc in *; simpl in *; auto. Qed.




Lemma Rel_spawn_named s o i x n0 :
  Rel s o -> nth_error (actors s) i = Some x -> a_pc x = PNew -> named x n0 = true ->
  Rel (set_pc s i x PNameOk)
      (mkO ((n0, i) :: o_live o) (o_stopping o) (o_waited o) (o_pidlive o)
           ((i, (a_name x, a_remote x)) :: o_info o)).
Proof.
  intros [L S W P I] E Epc Nx.
  assert (NM : forall n, named (mkA (a_name x) (a_remote x) PNameOk) n = named x n) by reflexivity.
  constructor; unfold set_pc; simpl.
  - intros n a. destruct (Nat.eq_dec i a) as [->|Hne].
    + rewrite Nat.eqb_refl, andb_true_r, (nth_error_upd_eq _ _ _ _ E). split.
      * intros H. eexists; split; [reflexivity|]. rewrite NM. simpl. split; auto.
        apply orb_true_iff in H as [H|H].
        -- apply N.eqb_eq in H. subst; auto.
        -- apply L in H as (y & Ey & _ & Ly). rewrite E in Ey. injection Ey as <-. rewrite Epc in Ly. discriminate.
      * intros (y & Ey & Ny & _). injection Ey as <-. rewrite NM in Ny.
        assert (n = n0) as -> by (eapply named_inj; eauto). rewrite N.eqb_refl. reflexivity.
    + assert (Nat.eqb i a = false) as -> by (apply Nat.eqb_neq; auto).
      rewrite andb_false_r. simpl. rewrite L, nth_error_upd_neq by auto. tauto.
  - intros n a y Ey Ny Sy. destruct (Nat.eq_dec i a) as [->|Hne].
    + rewrite (nth_error_upd_eq _ _ _ _ E) in Ey. injection Ey as <-. discriminate.
    + rewrite nth_error_upd_neq in Ey by auto. eauto.
  - intros a Ha. destruct (W _ Ha) as (y & Ey & Py). destruct (Nat.eq_dec i a) as [->|Hne].
    + rewrite E in Ey. injection Ey as <-. congruence.
    + rewrite nth_error_upd_neq by auto. eauto.
  - intros a Ha. destruct (P _ Ha) as (y & Ey & Ry & Py). destruct (Nat.eq_dec i a) as [->|Hne].
    + rewrite E in Ey. injection Ey as <-. rewrite Epc in Py. discriminate.
    + rewrite nth_error_upd_neq by auto. eauto.
  - intros a y Ey Sy. destruct (Nat.eq_dec i a) as [->|Hne].
    + rewrite (nth_error_upd_eq _ _ _ _ E) in Ey. injection Ey as <-. rewrite Nat.eqb_refl. reflexivity.
    + assert (Nat.eqb i a = false) as -> by (apply Nat.eqb_neq; auto).
      rewrite nth_error_upd_neq in Ey by auto. eauto.
Qed.

Lemma sim_step s o l :
  Inv s -> Rel s o ->
  exists o', osteps o (emit s (step false s l) l) = Some o' /\ Rel (step false s l) o'.
Proof.
  intros I R. destruct l as [i|i ok|i|i|i|n|a].
  - (* LStep *)
    simpl. destruct (nth_error (actors s) i) as [x|] eqn:E; [|exists o; auto].
    destruct (a_pc x) eqn:Epc; try (exists o; split; [reflexivity|exact R]).
    + (* PNew *)
      assert (ANON : (forall n, named x n = false) ->
                exists o', osteps o [ESpawn i (a_name x) (a_remote x) true] = Some o' /\ Rel (set_pc s i x PNameOk) o').
      { intros Hn. simpl.
        assert (ostep o (ESpawn i (a_name x) (a_remote x) true) =
                Some (mkO (o_live o) (o_stopping o) (o_waited o) (o_pidlive o) ((i, (a_name x, a_remote x)) :: o_info o))) as Eo.
        { simpl. destruct (a_name x) as [n0|] eqn:En; auto. destruct (a_remote x) eqn:Er; auto.
          specialize (Hn n0). unfold named in Hn. rewrite Er, En, N.eqb_refl in Hn. discriminate. }
        simpl in Eo. rewrite Eo. eexists; split; [reflexivity|].
        apply Rel_pc; auto.
        - apply Rel_oinfo with (x := x); auto.
        - rewrite Epc; discriminate.
        - rewrite Epc; discriminate.
        - intros _. right. simpl. rewrite Nat.eqb_refl. reflexivity. }
      destruct (a_remote x) eqn:Er; [|destruct (a_name x) as [n0|] eqn:En].
      * rewrite (pc_of_set _ _ _ _ E). apply ANON. intros n. unfold named. rewrite Er. reflexivity.
      * destruct (lookup n0 (names s)) as [j|] eqn:EL.
        -- (* AlreadyRegistered *)
           rewrite (pc_of_set _ _ _ _ E). simpl.
           destruct (iA _ I _ _ EL) as (y & Ey & Ny & Hy).
           assert (HN : has_name n0 (o_live o) || has_name n0 (o_stopping o) = true).
           { destruct (live (a_pc y)) eqn:Ly.
             - assert (mem_pair n0 j (o_live o) = true) by (apply (rL _ _ R); eauto).
               apply orb_true_iff; left. apply has_name_ex; eauto.
             - assert (mem_pair n0 j (o_stopping o) = true).
               { eapply (rS _ _ R); eauto. destruct (a_pc y); try discriminate; reflexivity. }
               apply orb_true_iff; right. apply has_name_ex; eauto. }
           rewrite HN. eexists; split; [reflexivity|].
           apply Rel_pc; auto; rewrite Epc; try discriminate; auto.
        -- (* the name is taken by i *)
           unfold pc_of, set_pc. simpl. rewrite (nth_error_upd_eq _ _ _ _ E). simpl.
           assert (Nx : named x n0 = true) by (apply named_spec; auto).
           assert (HN : has_name n0 (o_live o) = false).
           { destruct (has_name n0 (o_live o)) eqn:H; auto. apply has_name_ex in H as (a & Ha).
             apply (rL _ _ R) in Ha as (y & Ey & Ny & Ly).
             assert (lookup n0 (names s) = Some a).
             { apply (iB _ I _ y n0); auto. destruct (a_pc y); try discriminate; reflexivity. }
             congruence. }
           rewrite HN. eexists; split; [reflexivity|].
           pose proof (Rel_spawn_named s o i x n0 R E Epc Nx) as R'.
           rewrite En, Er in R'.
           destruct R' as [L S W P If]. constructor; unfold set_pc in *; simpl in *; auto.
      * rewrite (pc_of_set _ _ _ _ E). apply ANON. intros n. unfold named. rewrite En, andb_false_r. reflexivity.
    + (* PNameOk *)
      destruct (a_remote x) eqn:Er.
      * rewrite (pc_of_set _ _ _ _ E). simpl. exists o. split; auto.
        apply Rel_pc; auto; rewrite Epc; try discriminate; auto.
      * unfold pc_of, set_pc. simpl. rewrite (nth_error_upd_eq _ _ _ _ E). simpl.
        rewrite (rI _ _ R i x E) by (rewrite Epc; reflexivity).
        eexists; split; [reflexivity|].
        assert (R1 : Rel (set_pc s i x PRegd) o).
        { apply Rel_pc; auto; rewrite Epc; try discriminate; auto. }
        destruct R1 as [L S W P If]. constructor; unfold set_pc in *; simpl in *; auto.
        intros a Ha. apply orb_true_iff in Ha as [Ha|Ha]; auto.
        apply Nat.eqb_eq in Ha. subst a. rewrite (nth_error_upd_eq _ _ _ _ E).
        eexists; split; [reflexivity|]. simpl. auto.
    + (* PStop1 *)
      exists o. split; auto. apply Rel_set_tables.
      apply Rel_pc; auto; rewrite Epc; try discriminate; auto.
    + (* PStop2 *)
      assert (R1 : Rel (set_pc s i x PStopping) o).
      { apply Rel_pc; auto; rewrite Epc; try discriminate; auto. }
      exists o. split; auto.
      destruct (a_name x) as [n0|]; auto.
      destruct (negb (a_remote x) || false); auto. apply Rel_set_tables; auto.
  - (* LStart *)
    destruct ok.
    + simpl. exists o. split; auto.
      destruct (nth_error (actors s) i) as [x|] eqn:E; auto.
      destruct (a_pc x) eqn:Epc; auto.
      apply Rel_pc; auto; rewrite Epc; try discriminate; auto.
    + simpl. unfold pc_of. destruct (nth_error (actors s) i) as [x|] eqn:E; [|exists o; auto].
      destruct (a_pc x) eqn:Epc; try (exists o; split; [reflexivity|exact R]).
      destruct (begin_ok s o i x I R E) as (o' & Eo & R'); [rewrite Epc; reflexivity|].
      exists o'. simpl. simpl in Eo. rewrite Eo. auto.
  - (* LStop *)
    simpl. unfold pc_of. destruct (nth_error (actors s) i) as [x|] eqn:E; [|exists o; auto].
    destruct (a_pc x) eqn:Epc; try (exists o; split; [reflexivity|exact R]).
    destruct (begin_ok s o i x I R E) as (o' & Eo & R'); [rewrite Epc; reflexivity|].
    exists o'. simpl. simpl in Eo. rewrite Eo. auto.
  - (* LFinish *)
    simpl. destruct (nth_error (actors s) i) as [x|] eqn:E; [|exists o; auto].
    destruct (a_pc x) eqn:Epc; try (exists o; split; [reflexivity|exact R]).
    exists o. split; auto. apply Rel_pc; auto; rewrite Epc; try discriminate; auto.
  - (* LWaitRet *)
    simpl. unfold pc_of.
    destruct (nth_error (actors s) i) as [x|] eqn:E; [|rewrite E; exists o; auto].
    assert (WAIT : a_pc x = PStopped \/ a_pc x = PWaited ->
              exists o', osteps o [EWait i] = Some o' /\ Rel (set_pc s i x PWaited) o').
    { intros Hpc.
      assert (Sp : spawnedpc (a_pc x) = true) by (destruct Hpc as [-> | ->]; reflexivity).
      pose proof (rI _ _ R _ _ E Sp) as Info.
      assert (R1 : Rel (set_pc s i x PWaited) o).
      { apply Rel_pc; auto; try discriminate;
          try (left; destruct Hpc as [-> | ->]; reflexivity);
          try (intros Hp; left; destruct Hpc as [H | H]; rewrite H in Hp; discriminate);
          try (intros _; left; destruct Hpc as [-> | ->]; reflexivity). }
      simpl. rewrite Info.
      assert (Pi : pc_of (set_pc s i x PWaited) i = Some PWaited) by (apply pc_of_set; auto).
      assert (GEN : forall st', (forall n a, mem_pair n a st' = true -> mem_pair n a (o_stopping o) = true) ->
                (forall n a, mem_pair n a (o_stopping o) = true -> a <> i -> mem_pair n a st' = true) ->
                Rel (set_pc s i x PWaited) (mkO (o_live o) st' (i :: o_waited o) (o_pidlive o) (o_info o))).
      { intros st' H1 H2. destruct R1 as [L S W P If]. constructor; simpl; auto.
        - intros n a y Ey Ny Sy. apply H2; [eapply S; eauto|].
          intros ->. unfold set_pc in Ey; simpl in Ey. rewrite (nth_error_upd_eq _ _ _ _ E) in Ey.
          injection Ey as <-. discriminate.
        - intros a Ha. apply orb_true_iff in Ha as [Ha|Ha]; auto.
          apply Nat.eqb_eq in Ha. subst a. unfold set_pc; simpl. rewrite (nth_error_upd_eq _ _ _ _ E).
          eexists; split; reflexivity. }
      destruct (a_name x) as [n0|]; [destruct (a_remote x)|]; eexists; (split; [reflexivity|]).
      - apply GEN; auto.
      - apply GEN.
        + intros n a. rewrite mem_pair_del. intros H. apply andb_true_iff in H. tauto.
        + intros n a H Hne. rewrite mem_pair_del, H. simpl.
          assert (Nat.eqb a i = false) as -> by (apply Nat.eqb_neq; auto). rewrite andb_false_r. reflexivity.
      - apply GEN; auto. }
    destruct (a_pc x) eqn:Epc; try (rewrite E, Epc; exists o; split; [reflexivity|exact R]).
    + unfold set_pc at 1; simpl. rewrite (nth_error_upd_eq _ _ _ _ E). simpl. apply WAIT; auto.
    + unfold set_pc at 1; simpl. rewrite (nth_error_upd_eq _ _ _ _ E). simpl. apply WAIT; auto.
  - (* LWhere *)
    simpl. destruct (lookup n (names s)) as [a|] eqn:EL.
    + destruct (iA _ I _ _ EL) as (x & Ex & Nx & Hx). unfold pc_of. rewrite Ex.
      assert (C : (mem_pair n a (o_live o) || mem_pair n a (o_stopping o)) && negb (mem_nat a (o_waited o))
                  && negb (match cls (a_pc x) with SStopped => true | _ => false end) = true).
      { apply andb_true_iff; split; [apply andb_true_iff; split|].
        - destruct (live (a_pc x)) eqn:Lx.
          + apply orb_true_iff; left. apply (rL _ _ R); eauto.
          + apply orb_true_iff; right. eapply (rS _ _ R); eauto.
            destruct (a_pc x); try discriminate; reflexivity.
        - destruct (mem_nat a (o_waited o)) eqn:M; auto.
          apply (rW _ _ R) in M as (y & Ey & Py). rewrite Ex in Ey. injection Ey as <-.
          rewrite Py in Hx. discriminate.
        - destruct (a_pc x); try discriminate; reflexivity. }
      rewrite C. exists o; auto.
    + assert (HN : has_name n (o_live o) = false).
      { destruct (has_name n (o_live o)) eqn:H; auto. apply has_name_ex in H as (a & Ha).
        apply (rL _ _ R) in Ha as (y & Ey & Ny & Ly).
        assert (lookup n (names s) = Some a).
        { apply (iB _ I _ y n); auto. destruct (a_pc y); try discriminate; reflexivity. }
        congruence. }
      rewrite HN. exists o; auto.
  - (* LWherePid *)
    simpl. destruct (mem_pid a (pids s)) eqn:M.
    + apply (iP _ I) in M as (x & Ex & Rx & Hx). unfold pc_of. rewrite Ex.
      assert (C : mem_nat a (o_waited o) || (match cls (a_pc x) with SStopped => true | _ => false end) = false).
      { apply orb_false_iff; split.
        - destruct (mem_nat a (o_waited o)) eqn:W; auto.
          apply (rW _ _ R) in W as (y & Ey & Py). rewrite Ex in Ey. injection Ey as <-.
          rewrite Py in Hx. discriminate.
        - destruct (a_pc x); try discriminate; reflexivity. }
      rewrite C. exists o; auto.
    + assert (HN : mem_nat a (o_pidlive o) = false).
      { destruct (mem_nat a (o_pidlive o)) eqn:H; auto.
        apply (rP _ _ R) in H as (y & Ey & Ry & Py).
        assert (mem_pid a (pids s) = true).
        { apply (iP _ I). exists y. repeat split; auto. destruct (a_pc y); try discriminate; reflexivity. }
        congruence. }
      rewrite HN. exists o; auto.
Qed.

Lemma Rel_init acts : Rel (init acts) o0.
Proof.
  constructor; unfold init, o0; simpl.
  - intros n a. split; [discriminate|]. intros (x & E & _ & L).
    rewrite nth_error_map in E. destruct (nth_error acts a); try discriminate. injection E as <-. discriminate.
  - intros n a x E _ S. rewrite nth_error_map in E. destruct (nth_error acts a); try discriminate.
    injection E as <-. discriminate.
  - discriminate.
  - discriminate.
  - intros a x E S. rewrite nth_error_map in E. destruct (nth_error acts a); try discriminate.
    injection E as <-. discriminate.
Qed.

Lemma check_sim ls s o : Inv s -> Rel s o -> check_from o (history false ls s) = true.
Proof.
  revert s o; induction ls as [|l r IH]; intros s o I R; simpl; auto.
  rewrite check_from_app.
  destruct (sim_step s o l I R) as (o' & Eo & R'). rewrite Eo.
  apply IH; auto. apply Inv_step; auto.
Qed.

Lemma oracle_sound acts ls : check_C10 (history false ls (init acts)) = true.
Proof. apply check_sim; [apply init_inv|apply Rel_init]. Qed.

(* ------------------------------------------------------------------ exactly one winner *)
(* a spawn that failed with ActorAlreadyRegistered was beaten by somebody: the name is still
   held, or a holder has released it since *)
Definition released (p : pc) : bool :=
  match p with PStopping | PStopped | PWaited => true | _ => false end.

Definition InvJ (s : st) : Prop :=
  forall n a x, nth_error (actors s) a = Some x -> named x n = true -> a_pc x = PFailed ->
    lookup n (names s) <> None \/
    exists b y, nth_error (actors s) b = Some y /\ named y n = true /\ released (a_pc y) = true.

Lemma InvJ_init acts : InvJ (init acts).
Proof.
  intros n a x E _ P. unfold init in E; simpl in E. rewrite nth_error_map in E.
  destruct (nth_error acts a); try discriminate. injection E as <-. discriminate.
Qed.

(* pc change of actor i with the name table unchanged, not to PFailed, not un-releasing *)
Lemma InvJ_pc s i x p' nm pd :
  InvJ s -> nth_error (actors s) i = Some x -> p' <> PFailed ->
  (released (a_pc x) = true -> released p' = true) ->
  (forall n, lookup n (names s) <> None -> lookup n nm <> None \/ (named x n = true /\ released p' = true)) ->
  InvJ (set_pc (mkSt nm pd (actors s)) i x p').
Proof.
  intros J E Hp Hr Hn n a y Ey Ny Py. unfold set_pc in *; simpl in *.
  assert (Hai : a <> i).
  { intros ->. rewrite (nth_error_upd_eq _ _ _ _ E) in Ey. injection Ey as <-. simpl in Py. congruence. }
  rewrite nth_error_upd_neq in Ey by auto.
  destruct (J _ _ _ Ey Ny Py) as [H|(b & z & Ez & Nz & Rz)].
  - destruct (Hn _ H) as [H'|[Nx Rx]]; auto.
    right. exists i. eexists. rewrite (nth_error_upd_eq _ _ _ _ E). split; [reflexivity|]. split; auto.
  - right. destruct (Nat.eq_dec b i) as [->|Hb].
    + rewrite E in Ez. injection Ez as <-. exists i. eexists.
      rewrite (nth_error_upd_eq _ _ _ _ E). split; [reflexivity|]. split; simpl; auto.
    + exists b, z. rewrite nth_error_upd_neq by auto. auto.
Qed.

Lemma InvJ_step s l : Inv s -> InvJ s -> InvJ (step false s l).
Proof.
  intros I J.
  assert (SAME : forall i x p', nth_error (actors s) i = Some x -> p' <> PFailed ->
            (released (a_pc x) = true -> released p' = true) -> InvJ (set_pc s i x p')).
  { intros i x p' E Hp Hr.
    replace (set_pc s i x p') with (set_pc (mkSt (names s) (pids s) (actors s)) i x p') by reflexivity.
    apply InvJ_pc; auto. }
  destruct l as [i|i ok|i|i|i|n|a]; simpl; auto.
  - destruct (nth_error (actors s) i) as [x|] eqn:E; auto.
    destruct (a_pc x) eqn:Epc; auto.
    + (* PNew *)
      destruct (a_remote x) eqn:Er; [apply SAME; auto; [discriminate|rewrite Epc; discriminate]|].
      destruct (a_name x) as [n0|] eqn:En; [|apply SAME; auto; [discriminate|rewrite Epc; discriminate]].
      destruct (lookup n0 (names s)) as [j|] eqn:EL.
      * (* becomes PFailed: the name is held right now *)
        intros n a y Ey Ny Py. unfold set_pc in *; simpl in *.
        destruct (Nat.eq_dec a i) as [->|Hai].
        -- rewrite (nth_error_upd_eq _ _ _ _ E) in Ey. injection Ey as <-.
           assert (n = n0) as ->.
           { apply named_spec in Ny as [_ Hn]. simpl in Hn. congruence. }
           left. congruence.
        -- rewrite nth_error_upd_neq in Ey by auto.
           destruct (J _ _ _ Ey Ny Py) as [H|(b & z & Ez & Nz & Rz)]; auto.
           right. exists b, z. destruct (Nat.eq_dec b i) as [->|Hb].
           ++ rewrite E in Ez. injection Ez as <-. rewrite Epc in Rz. discriminate.
           ++ rewrite nth_error_upd_neq by auto. auto.
      * apply InvJ_pc; auto; [discriminate|rewrite Epc; discriminate|].
        intros n H. left. simpl. destruct (N.eqb n0 n); auto. discriminate.
    + destruct (a_remote x); apply InvJ_pc; auto; try discriminate; rewrite Epc; discriminate.
    + apply InvJ_pc; auto; try discriminate; rewrite Epc; discriminate.
    + (* PStop2: the name may be released *)
      destruct (a_name x) as [n0|] eqn:En; [|apply SAME; auto; discriminate].
      rewrite orb_false_r. destruct (a_remote x) eqn:Er; simpl; [apply SAME; auto; discriminate|].
      apply InvJ_pc; auto; try discriminate.
      intros n H. rewrite lookup_remove. destruct (N.eqb n0 n) eqn:E0; auto.
      apply N.eqb_eq in E0. subst n. right. split; auto. apply named_spec; auto.
  - destruct (nth_error (actors s) i) as [x|] eqn:E; auto. destruct (a_pc x) eqn:Epc; auto.
    apply SAME; auto; [destruct ok; discriminate|rewrite Epc; discriminate].
  - destruct (nth_error (actors s) i) as [x|] eqn:E; auto. destruct (a_pc x) eqn:Epc; auto.
    apply SAME; auto; [discriminate|rewrite Epc; discriminate].
  - destruct (nth_error (actors s) i) as [x|] eqn:E; auto. destruct (a_pc x) eqn:Epc; auto.
    apply SAME; auto; discriminate.
  - destruct (nth_error (actors s) i) as [x|] eqn:E; auto. destruct (a_pc x) eqn:Epc; auto;
      apply SAME; auto; discriminate.
Qed.

Lemma InvJ_run ls s : Inv s -> InvJ s -> InvJ (run false ls s).
Proof.
  revert s; induction ls as [|l r IH]; intros s I J; simpl; auto.
  apply IH; [apply Inv_step; auto|apply InvJ_step; auto].
Qed.

Lemma exactly_one_winner acts ls n :
  let s := run false ls (init acts) in
  (forall b y, nth_error (actors s) b = Some y -> named y n = true -> released (a_pc y) = false) ->
  (exists a x, nth_error (actors s) a = Some x /\ named x n = true /\ a_pc x <> PNew) ->
  exists w, lookup n (names s) = Some w /\
    forall a x, nth_error (actors s) a = Some x -> named x n = true -> a_pc x <> PNew -> a <> w ->
                a_pc x = PFailed.
Proof.
  intros s NoRel (a & x & E & Nx & Att).
  pose proof (reach_inv acts ls) as I. pose proof (InvJ_run ls _ (init_inv acts) (InvJ_init acts)) as J.
  fold s in I, J.
  assert (W : exists w, lookup n (names s) = Some w).
  { destruct (holds_name (a_pc x)) eqn:H.
    - exists a. eapply (iB _ I); eauto.
    - pose proof (NoRel _ _ E Nx) as R.
      assert (a_pc x = PFailed) as Pf by (destruct (a_pc x); try discriminate; congruence).
      destruct (J _ _ _ E Nx Pf) as [L|(b & y & Ey & Ny & Ry)].
      + destruct (lookup n (names s)) as [w|]; [eauto|congruence].
      + rewrite (NoRel _ _ Ey Ny) in Ry. discriminate. }
  destruct W as (w & Lw). exists w. split; auto.
  intros a' x' E' N' Att' Ne.
  destruct (holds_name (a_pc x')) eqn:H.
  - assert (lookup n (names s) = Some a') by (eapply (iB _ I); eauto). congruence.
  - pose proof (NoRel _ _ E' N') as R. destruct (a_pc x'); try discriminate; congruence.
Qed.
