(* C10 — model of the name registry and the pid registry of ractor
     registry::register / unregister / where_is              (ractor/src/registry.rs)
     pid_registry::register_pid / unregister_pid / where_is_pid (ractor/src/registry/pid_registry.rs)
     registration in ActorCell::new, release in ActorCell::set_status (ractor/src/actor/actor_cell.rs)
   composed with the lifecycle of any number of actors (local named / local anonymous /
   remote-id handles), failed starts included.

   Definitions only; proofs are in Registry/Proofs.v.

   Every label is one atomic step of one thread (one DashMap entry operation — atomic per
   key, trusted — or one status publication); a label list is an arbitrary interleaving of
   any number of spawning, stopping, looking-up threads.

   The parameter `f1` switches on the defect the pinned code had (DESIGN section 5, F1:
   set_status unregistered by name for remote-id handles too); all theorems are about
   `f1 = false` (the repaired code), the refutation example about `f1 = true`. *)
From Coq Require Import List NArith Bool Arith.
Import ListNotations.

(* program counter of an actor *)
Inductive pc :=
| PNew        (* the spawn call has not reached the registry yet *)
| PFailed     (* spawn returned ActorAlreadyRegistered *)
| PNameOk     (* name entry inserted (or no name); pid not yet registered *)
| PRegd       (* pid registered; pre_start running (status Unstarted/Starting) *)
| PRun        (* started *)
| PStop1      (* status >= Stopping published, elected for cleanup; pid entry still there *)
| PStop2      (* pid entry removed; name entry still there *)
| PStopping   (* cleanup block done; post_stop / children / supervisor notification under way *)
| PStopped    (* status Stopped published, waiters notified *)
| PWaited     (* a wait() on this actor has returned (C06: only after PStopped) *).

Record actor := mkA { a_name : option N; a_remote : bool; a_pc : pc }.

Record st := mkSt {
  names : list (N * nat);   (* ACTOR_REGISTRY: name -> actor index *)
  pids : list nat;          (* PID_REGISTRY (keys; local actors only) *)
  actors : list actor
}.

Fixpoint upd {A} (l : list A) (i : nat) (x : A) : list A :=
  match l, i with
  | [], _ => []
  | _ :: t, O => x :: t
  | h :: t, S i => h :: upd t i x
  end.

Fixpoint lookup (n : N) (l : list (N * nat)) : option nat :=
  match l with
  | [] => None
  | (m, a) :: t => if N.eqb m n then Some a else lookup n t
  end.

(* DashMap::remove(name): by key, whoever holds it *)
Definition remove_name (n : N) (l : list (N * nat)) : list (N * nat) :=
  filter (fun e => negb (N.eqb (fst e) n)) l.

Definition remove_pid (a : nat) (l : list nat) : list nat :=
  filter (fun b => negb (Nat.eqb b a)) l.

Definition mem_pid (a : nat) (l : list nat) : bool := existsb (Nat.eqb a) l.

Definition set_pc (s : st) (i : nat) (x : actor) (p : pc) : st :=
  mkSt (names s) (pids s) (upd (actors s) i (mkA (a_name x) (a_remote x) p)).

Inductive label :=
| LStep (a : nat)             (* the next micro-step of a's spawn or of its cleanup block *)
| LStart (a : nat) (ok : bool) (* pre_start returned Ok / failed (Err, panic) *)
| LStop (a : nat)             (* a running actor publishes >= Stopping (any exit cause) *)
| LFinish (a : nat)           (* the rest of the exit: post_stop ..., status Stopped *)
| LWaitRet (a : nat)          (* a wait() on a returns *)
| LWhere (n : N)              (* registry::where_is(n) *)
| LWherePid (a : nat)         (* registry::where_is_pid(id of a) *).

Section Step.
Variable f1 : bool.

Definition step (s : st) (l : label) : st :=
  match l with
  | LStep i =>
      match nth_error (actors s) i with
      | None => s
      | Some x =>
        match a_pc x with
        | PNew =>
            (* ActorCell::new: local actors register their name through the entry API;
               new_remote registers nothing *)
            if a_remote x then set_pc s i x PNameOk
            else match a_name x with
                 | None => set_pc s i x PNameOk
                 | Some n =>
                     match lookup n (names s) with
                     | None => set_pc (mkSt ((n, i) :: names s) (pids s) (actors s)) i x PNameOk
                     | Some _ => set_pc s i x PFailed
                     end
                 end
        | PNameOk =>
            (* register_pid: only local ids *)
            if a_remote x then set_pc s i x PRegd
            else set_pc (mkSt (names s) (i :: pids s) (actors s)) i x PRegd
        | PStop1 =>
            (* unregister_pid: only local ids *)
            set_pc (mkSt (names s) (if a_remote x then pids s else remove_pid i (pids s)) (actors s)) i x PStop2
        | PStop2 =>
            (* unregister(name) BY NAME; guarded by is_local() in the repaired code *)
            match a_name x with
            | Some n =>
                if negb (a_remote x) || f1
                then set_pc (mkSt (remove_name n (names s)) (pids s) (actors s)) i x PStopping
                else set_pc s i x PStopping
            | None => set_pc s i x PStopping
            end
        | _ => s
        end
      end
  | LStart i ok =>
      match nth_error (actors s) i with
      | Some x => match a_pc x with
                  | PRegd => set_pc s i x (if ok then PRun else PStop1)
                  | _ => s
                  end
      | None => s
      end
  | LStop i =>
      match nth_error (actors s) i with
      | Some x => match a_pc x with PRun => set_pc s i x PStop1 | _ => s end
      | None => s
      end
  | LFinish i =>
      match nth_error (actors s) i with
      | Some x => match a_pc x with PStopping => set_pc s i x PStopped | _ => s end
      | None => s
      end
  | LWaitRet i =>
      match nth_error (actors s) i with
      | Some x => match a_pc x with PStopped | PWaited => set_pc s i x PWaited | _ => s end
      | None => s
      end
  | LWhere _ | LWherePid _ => s
  end.

Definition run (ls : list label) (s : st) : st := fold_left step ls s.

End Step.

Definition init (acts : list (option N * bool)) : st :=
  mkSt [] [] (map (fun p => mkA (fst p) (snd p) PNew) acts).

(* ---------- classes of program counters ---------- *)
(* the name entry of a local named actor is present exactly in these *)
Definition holds_name (p : pc) : bool :=
  match p with PNameOk | PRegd | PRun | PStop1 | PStop2 => true | _ => false end.
(* ... and its pid entry exactly in these *)
Definition holds_pid (p : pc) : bool :=
  match p with PRegd | PRun | PStop1 => true | _ => false end.
(* from the successful spawn until it begins to stop *)
Definition live (p : pc) : bool :=
  match p with PNameOk | PRegd | PRun => true | _ => false end.

Definition named (x : actor) (n : N) : bool :=
  negb (a_remote x) && match a_name x with Some m => N.eqb m n | None => false end.

Definition count_held (n : N) (l : list actor) : nat :=
  length (filter (fun x => named x n && holds_name (a_pc x)) l).

(* ---------- the sequential specification: a map name -> actor in which only the
   holder releases ---------- *)
Definition nmap := N -> option nat.
Definition abs (s : st) : nmap := fun n => lookup n (names s).

Definition mset (m : nmap) (n : N) (v : option nat) : nmap :=
  fun k => if N.eqb n k then v else m k.

(* what a label does to the specification map, given the actor table (who is where) *)
Definition spec_step (acts : list actor) (l : label) (m : nmap) : nmap :=
  match l with
  | LStep i =>
      match nth_error acts i with
      | Some x =>
          match a_pc x, a_remote x, a_name x with
          | PNew, false, Some n => match m n with None => mset m n (Some i) | Some _ => m end
          | PStop2, false, Some n =>
              (* release by holder: only a's own entry *)
              match m n with
              | Some j => if Nat.eqb j i then mset m n None else m
              | None => m
              end
          | _, _, _ => m
          end
      | None => m
      end
  | _ => m
  end.

(* ---------- observable history ---------- *)
(* status classes of a cell returned by a lookup *)
Inductive scls := SLive | SStopping | SStopped.

Definition cls (p : pc) : scls :=
  match p with
  | PStop1 | PStop2 | PStopping => SStopping
  | PStopped | PWaited => SStopped
  | _ => SLive
  end.

Inductive ev :=
| ESpawn (a : nat) (name : option N) (remote ok : bool)   (* the spawn reached the registry; ok = not AlreadyRegistered *)
| EPid (a : nat)                                          (* the (local) actor's pid entry has been inserted *)
| EBegin (a : nat)                                        (* a begins to stop *)
| EWait (a : nat)                                         (* a wait() on a returned *)
| EWhere (n : N) (r : option (nat * scls))                (* where_is(n) = r, tagged with the status class of the cell *)
| EWherePid (a : nat) (r : option scls).

Definition pc_of (s : st) (i : nat) : option pc :=
  match nth_error (actors s) i with Some x => Some (a_pc x) | None => None end.

Definition emit (s s' : st) (l : label) : list ev :=
  match l with
  | LStep i =>
      match nth_error (actors s) i with
      | Some x =>
          match a_pc x, pc_of s' i with
          | PNew, Some PFailed => [ESpawn i (a_name x) (a_remote x) false]
          | PNew, Some _ => [ESpawn i (a_name x) (a_remote x) true]
          | PNameOk, Some PRegd => if a_remote x then [] else [EPid i]
          | _, _ => []
          end
      | None => []
      end
  | LStart i false =>
      match pc_of s i with Some PRegd => [EBegin i] | _ => [] end
  | LStop i =>
      match pc_of s i with Some PRun => [EBegin i] | _ => [] end
  | LWaitRet i =>
      match pc_of s' i with Some PWaited => [EWait i] | _ => [] end
  | LWhere n =>
      [EWhere n (match lookup n (names s) with
                 | Some a => match pc_of s a with Some p => Some (a, cls p) | None => None end
                 | None => None
                 end)]
  | LWherePid a =>
      [EWherePid a (if mem_pid a (pids s)
                    then match pc_of s a with Some p => Some (cls p) | None => None end
                    else None)]
  | _ => []
  end.

Fixpoint history (f1 : bool) (ls : list label) (s : st) : list ev :=
  match ls with
  | [] => []
  | l :: r => let s' := step f1 s l in emit s s' l ++ history f1 r s'
  end.

(* ---------- the executable property over a history ---------- *)
(* oracle state, per name: the actor that registered it and has not begun to stop (`o_live`),
   former holders that have begun to stop and whose wait has not returned (their entry may
   or may not still be there: the property allows either), actors whose wait returned;
   for the pid table: local actors whose pid entry exists and that have not begun to stop *)
Record ost := mkO {
  o_live : list (N * nat);
  o_stopping : list (N * nat);
  o_waited : list nat;
  o_pidlive : list nat;
  o_info : list (nat * (option N * bool))   (* spawned actors: name, remote *)
}.

Definition o0 : ost := mkO [] [] [] [] [].

Fixpoint info_of (a : nat) (l : list (nat * (option N * bool))) : option (option N * bool) :=
  match l with
  | [] => None
  | (b, x) :: t => if Nat.eqb b a then Some x else info_of a t
  end.

Definition mem_pair (n : N) (a : nat) (l : list (N * nat)) : bool :=
  existsb (fun e => N.eqb (fst e) n && Nat.eqb (snd e) a) l.
Definition has_name (n : N) (l : list (N * nat)) : bool := existsb (fun e => N.eqb (fst e) n) l.
Definition del_pair (n : N) (a : nat) (l : list (N * nat)) : list (N * nat) :=
  filter (fun e => negb (N.eqb (fst e) n && Nat.eqb (snd e) a)) l.
Definition mem_nat (a : nat) (l : list nat) : bool := existsb (Nat.eqb a) l.
Definition del_nat (a : nat) (l : list nat) : list nat := filter (fun b => negb (Nat.eqb b a)) l.

(* one event: Some new-state if consistent with the property, None = violation *)
Definition ostep (o : ost) (e : ev) : option ost :=
  match e with
  | ESpawn a nm remote ok =>
      let info := (a, (nm, remote)) :: o_info o in
      match nm, remote with
      | Some n, false =>
          if ok then
            (* success: nobody live may hold n *)
            if has_name n (o_live o) then None
            else Some (mkO ((n, a) :: o_live o) (o_stopping o) (o_waited o) (o_pidlive o) info)
          else
            (* ActorAlreadyRegistered: somebody must (possibly) still hold n; no side effect *)
            if has_name n (o_live o) || has_name n (o_stopping o) then Some o else None
      | _, _ =>
          (* anonymous actors and remote-id handles never touch the name table *)
          Some (mkO (o_live o) (o_stopping o) (o_waited o) (o_pidlive o) info)
      end
  | EPid a =>
      (* only an actor whose spawn got past the name step enters the pid table: a spawn rejected with
         ActorAlreadyRegistered has no side effect (it leaves no o_info entry), so a pid insertion /
         pid lifecycle event for it is rejected *)
      match info_of a (o_info o) with
      | Some _ => Some (mkO (o_live o) (o_stopping o) (o_waited o) (a :: o_pidlive o) (o_info o))
      | None => None
      end
  | EBegin a =>
      let pl := del_nat a (o_pidlive o) in
      match info_of a (o_info o) with
      | Some (Some n, false) =>
          if mem_pair n a (o_live o)
          then Some (mkO (del_pair n a (o_live o)) ((n, a) :: o_stopping o) (o_waited o) pl (o_info o))
          else Some (mkO (o_live o) (o_stopping o) (o_waited o) pl (o_info o))
      | _ => Some (mkO (o_live o) (o_stopping o) (o_waited o) pl (o_info o))
      end
  | EWait a =>
      match info_of a (o_info o) with
      | Some (Some n, false) =>
          Some (mkO (o_live o) (del_pair n a (o_stopping o)) (a :: o_waited o) (o_pidlive o) (o_info o))
      | _ => Some (mkO (o_live o) (o_stopping o) (a :: o_waited o) (o_pidlive o) (o_info o))
      end
  | EWhere n None =>
      (* a live holder must be found *)
      if has_name n (o_live o) then None else Some o
  | EWhere n (Some (a, c)) =>
      (* only the live holder or a holder that is still stopping; never after its wait returned,
         and never a cell whose status already reads Stopped (a wait() on it returns at once) *)
      if (mem_pair n a (o_live o) || mem_pair n a (o_stopping o)) && negb (mem_nat a (o_waited o))
         && negb (match c with SStopped => true | _ => false end)
      then Some o else None
  | EWherePid a None =>
      (* a local actor that is registered and has not begun to stop must be found by pid *)
      if mem_nat a (o_pidlive o) then None else Some o
  | EWherePid a (Some c) =>
      if mem_nat a (o_waited o) || (match c with SStopped => true | _ => false end) then None else Some o
  end.

Fixpoint check_from (o : ost) (h : list ev) : bool :=
  match h with
  | [] => true
  | e :: t => match ostep o e with Some o' => check_from o' t | None => false end
  end.

Definition check_C10 (h : list ev) : bool := check_from o0 h.

(* ---------- concurrent same-name spawns from OS threads (no exits in between):
   k attempts, outcome counts, whether where_is found the winner, whether the name could be
   taken again after the winner's wait returned ---------- *)
Definition check_race (k n_ok n_already n_other : nat) (where_winner respawn_ok : bool) : bool :=
  Nat.eqb n_ok 1 && Nat.eqb (n_ok + n_already) k && Nat.eqb n_other 0 && where_winner && respawn_ok.

(* threads looping spawn(name) / lookup / stop / wait / lookup on a few names: a thread whose
   spawn succeeded is the live holder until it stops (every lookup must find it), and must not
   be found once its wait() returned *)
Definition check_hammer (live_not_found found_after_wait other : nat) : bool :=
  Nat.eqb live_not_found 0 && Nat.eqb found_after_wait 0 && Nat.eqb other 0.
