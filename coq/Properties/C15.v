(* C15 — Factory capacity controls: limits, rate, pool size, draining.
   Only statements (pinned with their literal text), non-vacuity examples and
   Print Assumptions.  Bucket: model Ratelim/Model.v, proofs Ratelim/Proofs.v.
   Factory: model Factory/Capacity.v, proofs Factory/CapacityProofs.v. *)
From Coq Require Import List NArith Bool Permutation.
From RV Require Import Ratelim.Model Ratelim.Proofs Factory.Capacity Factory.CapacityProofs.
Import ListNotations.
Local Open Scope N_scope.

(* ================= leaky bucket (ratelim.rs) ================= *)

(* (B1) balance <= max at every moment of every history, for every configuration
   (any refill / interval / max / initial / machine bounds) *)
Theorem C15_bucket_cap : forall c initial now ops1 ops2,
  balance (run c (new c initial now) ops1) <= maxb c
  /\ balance (run c (new c initial now) (ops1 ++ ops2)) <= maxb c.
Proof. exact bucket_cap. Qed.

(* (B2) the window bound: from ANY bucket state b at which nothing can be credited at or
   before t0, ANY sequence of checks and bumps whose checks happen no later than t1 takes at
   most balance + refill * ((t1 - t0) / interval + 1) tokens.  The only hypothesis on the
   configuration is interval > 0; the other two cases are (B4) and (B5). *)
Theorem C15_bucket_window : forall c b ops t0 t1,
  0 < interval c -> fresh b t0 -> Forall (op_time_le t1) ops ->
  granted c b ops <= balance b + refill c * ((t1 - t0) / interval c + 1).
Proof. exact bucket_window. Qed.

(* the hypothesis `fresh` holds at every observation point: right after creation and right
   after any check, whatever happened before *)
Theorem C15_bucket_fresh_points : forall c b initial t0,
  0 < interval c -> fresh (refresh c b t0) t0 /\ fresh (new c initial t0) t0.
Proof. intros c b initial t0 H. split; [apply fresh_after_refresh|apply fresh_new]; exact H. Qed.

(* (B2') the same over whole histories: any history, a check at t0, any continuation *)
Theorem C15_bucket_window_history : forall c initial tc h1 t0 ops t1,
  0 < interval c -> Forall (op_time_le t1) ops ->
  let b0 := run c (new c initial tc) (h1 ++ [Check t0]) in
  granted c b0 ops <= balance b0 + refill c * ((t1 - t0) / interval c + 1)
  /\ balance b0 <= maxb c.
Proof. exact bucket_window_history. Qed.

(* (B3) no interval boundary inside the window: a burst takes at most the balance *)
Theorem C15_bucket_burst : forall c b ops t1,
  0 < interval c -> fresh b t1 -> Forall (op_time_le t1) ops ->
  granted c b ops <= balance b.
Proof. exact bucket_burst. Qed.

(* (B4) interval = 0: at most one refill per check *)
Theorem C15_bucket_zero_interval : forall c b ops,
  interval c = 0 -> granted c b ops <= balance b + refill c * count_checks ops.
Proof. exact bucket_zero_interval. Qed.

(* (B5) unrepresentable deadline: no further refill, ever; and this is exactly what happens
   at creation when now + interval is not a representable instant *)
Theorem C15_bucket_no_deadline : forall c b ops,
  deadline b = None -> granted c b ops <= balance b.
Proof. exact bucket_no_deadline. Qed.

Theorem C15_bucket_new_unrepresentable : forall c initial now,
  deadline (new c initial now) = None <-> instant_max c < now + interval c.
Proof. exact new_deadline_none. Qed.

(* (B6) inside the machine bounds a due refresh credits exactly periods * refill (capped at
   max) and moves the deadline by exactly `periods` intervals: the upper bounds above are
   not satisfied by never refilling *)
Theorem C15_bucket_refresh_exact : forall c b now d,
  interval c <> 0 -> interval c <= dur_max -> deadline b = Some d -> d <= now ->
  let k := periods_at c d now in
  k <= usize_max c -> k <= u128_max ->
  k * refill c <= max_lb c -> balance b + k * refill c <= usize_max c ->
  d + k * interval c <= instant_max c ->
  refresh c b now = mkB (N.min (balance b + k * refill c) (maxb c)) (Some (d + k * interval c)).
Proof. exact refresh_exact. Qed.

(* (B7) RateLimitedRouter: jobs handed to workers over a window obey the same bound, and a
   route is refused (RateLimited) exactly when the refreshed balance is empty *)
Theorem C15_router_window : forall c b rs t0 t1,
  0 < interval c -> fresh b t0 -> Forall (fun r => fst r <= t1) rs ->
  count_handled (snd (route_all c b rs)) <= balance b + refill c * ((t1 - t0) / interval c + 1).
Proof. exact router_window. Qed.

Theorem C15_router_rejects : forall c b t h,
  let b' := refresh c b t in
  (balance b' = 0 -> Ratelim.Model.route c b t h = (b', RRateLimited))
  /\ (0 < balance b' -> Ratelim.Model.route c b t h = if h then (bump b', RHandled) else (b', RBacklog)).
Proof. exact route_rejects. Qed.

(* (B8) the executable oracle never rejects a run of the model *)
Theorem C15_bucket_oracle_sound : forall c initial t0 ops,
  let r := bucket_run c initial t0 ops in
  check_C15_bucket c t0 (fst r, ops, snd r) = true.
Proof. exact oracle_sound. Qed.

(* ================= factory (factoryimpl.rs, worker.rs, queues.rs, routing.rs) ================= *)

(* (F1) with a limit L -- any L including 0, either mode, every router / queue kind, with or
   without a rate limiter -- after EVERY label sequence (dispatch bursts, completions, handler
   failures, kills, resizes, DrainRequests, time) the factory queue holds at most L discardable
   jobs, and when the router queues at the workers every worker's own queue holds at most L jobs
   (a worker whose actor is stopping, so that nothing can be dispatched to it until its
   supervision event is handled, may hold max(L,1) jobs in Newest mode: one job when L = 0) *)
Theorem C15_queue_bound : forall c L m ops,
  c_discard c = Some (L, m) -> forallb (fun o => negb (is_update o)) ops = true ->
  let s := state_after c (fst (init c 0)) ops in
  len (filter (discardable c) (f_q s)) <= L
  /\ (factory_queueing c = false -> forall w, In w (f_pool s) ->
      len (w_q w) <= (if w_alive w then L else match m with Oldest => L | Newest => N.max L 1 end)).
Proof. exact queue_bound. Qed.

(* (F1') runtime UpdateSettings{discard_settings}.  The label installs the new settings for the
   factory and for every existing worker and touches no queue (ractor does not shed
   retroactively); it is the only label that changes them.  From ANY state in which settings
   (L, m) are in force and every queue is within max(L, K) -- K = 0: within the limit; K > 0:
   what a lowered limit found in the queues -- every further label sequence without another
   update keeps all queues within max(L, K): the new limit holds for everything that arrives
   after the update.  In Oldest mode a queue is within L after its next enqueue whatever it held. *)
Theorem C15_update_installs : forall c s d,
  f_stopped s = false ->
  f_discard (fst (step c s (FUpdate d))) = d
  /\ (f_stopped (fst (step c s (FUpdate d))) = false ->
      f_q (fst (step c s (FUpdate d))) = f_q s /\ f_pool (fst (step c s (FUpdate d))) = f_pool s).
Proof. exact step_update. Qed.

Theorem C15_settings_change_only_on_update : forall c s o,
  is_update o = false -> f_discard (fst (step c s o)) = f_discard s.
Proof. exact step_disc. Qed.

Theorem C15_queue_bound_after_update : forall c L m K s ops,
  forallb (fun o => negb (is_update o)) ops = true ->
  f_discard s = Some (L, m) -> QI c L m K s ->
  let s' := state_after c s ops in
  len (filter (discardable c) (f_q s')) <= N.max L K
  /\ (factory_queueing c = false -> forall w, In w (f_pool s') ->
      len (w_q w) <= N.max (if w_alive w then L else match m with Oldest => L | Newest => N.max L 1 end) K).
Proof. exact queue_bound_from. Qed.

Theorem C15_oldest_catches_up : forall c w j L,
  wsettings c = Some (L, Oldest) -> len (w_q (fst (enqueue_job c w j))) <= L.
Proof. exact enqueue_oldest_catches_up. Qed.

(* (F2) which job is shed, and that it is reported exactly once.
   Newest: the arriving job itself, reported and rejected, queue untouched -- or it is queued.
   Oldest: the arriving job is accepted; the queue plus the arrival is exactly (as a multiset) the
   reported jobs plus the remaining queue, each shed job reported once as Loadshed; and each shed
   job comes from the lowest non-empty priority level and is the oldest of that level. *)
Theorem C15_shed_newest : forall c L q j,
  c_discard c = Some (L, Newest) ->
  (fst (maybe_enqueue c q j) = q /\ snd (maybe_enqueue c q j) = [EDiscard (jid j) Loadshed; EReject (jid j)])
  \/ (fst (maybe_enqueue c q j) = q ++ [j] /\ snd (maybe_enqueue c q j) = [EAccept (jid j)]).
Proof. intros c L q j H. exact (maybe_enqueue_newest c L Newest H q j eq_refl). Qed.

Theorem C15_shed_oldest : forall c L q j,
  c_discard c = Some (L, Oldest) ->
  exists shed, Permutation (q ++ [j]) (shed ++ fst (maybe_enqueue c q j))
    /\ snd (maybe_enqueue c q j) = EAccept (jid j) :: map (fun x => EDiscard (jid x) Loadshed) shed
    /\ len (fst (maybe_enqueue c q j)) <= L.
Proof. intros c L q j H. exact (maybe_enqueue_oldest c L Oldest H q j eq_refl). Qed.

Theorem C15_shed_oldest_identity : forall k q x q',
  discard_oldest k q = Some (x, q') ->
  (forall j, In j q -> eff_prio k j <= eff_prio k x)
  /\ exists a b, q = a ++ x :: b /\ q' = a ++ b /\ forall j, In j a -> eff_prio k j < eff_prio k x.
Proof. exact discard_oldest_identity. Qed.

(* (F3) resize: after EVERY label sequence (resizes interleaved with dispatches, busy workers,
   completions, failures, kills and stopping workers, draining), whenever the factory is alive,
   no worker is busy and no worker actor is stopping with its supervision event still pending,
   the pool is exactly the slots 0..n-1, none draining, where n = f_size is the last non-zero
   requested size (0 ignored, capped at 1_000_000; the initial size if none) -- spelled out as
   target_after for histories without Calculate ticks (a tick asks the scripted capacity
   controller, whose answer is a resize request like any other).  Holds for the model of the
   tree WITH fix F7; without it the statement is false (see ex_F7_scenario below and notes). *)
Theorem C15_resize_converges : forall c ops,
  let s := state_after c (fst (init c 0)) ops in
  f_stopped s = false -> all_available (f_pool s) = true -> forallb w_alive (f_pool s) = true ->
  (forallb (fun o => negb (is_tick o)) ops = true -> f_size s = target_after (c_n0 c) ops)
  /\ (forall i, (exists w, find_w (f_pool s) i = Some w) <-> i < f_size s)
  /\ (forall i w, find_w (f_pool s) i = Some w -> w_drain w = false).
Proof. exact resize_converges. Qed.

(* (F4) drain: after a DrainRequests anywhere in any history, no later dispatch is accepted ... *)
Theorem C15_drain_refuses : forall c ops1 ops2 j,
  let s := state_after c (fst (step c (state_after c (fst (init c 0)) ops1) FDrain)) ops2 in
  existsb is_accept_ev (snd (step c s (FDispatch j))) = false.
Proof. exact drain_refuses. Qed.

(* ... it is reported as Shutdown and rejected while the factory lives, dropped afterwards *)
Theorem C15_drain_refusal_shape : forall c s j, closing s ->
  existsb is_accept_ev (snd (step c s (FDispatch j))) = false
  /\ (f_stopped s = true -> snd (step c s (FDispatch j)) = [EDropped (jid j)])
  /\ (f_stopped s = false ->
      exists rest, snd (step c s (FDispatch j)) = EDiscard (jid j) Shutdown :: EReject (jid j) :: rest).
Proof. exact drain_refuses_step. Qed.

(* ... and while draining the factory stops exactly when, after a processed message, every worker
   is available and the queue is empty -- not before (earlier jobs finish first), not later; the
   stopped hook is then the last hook; a factory that is not draining never stops by itself *)
Theorem C15_drain_stops_when_idle : forall s, f_drain s = Draining ->
  if all_available (f_pool s) && (len (f_q s) =? 0)
  then f_stopped (fst (after_message s)) = true /\ snd (after_message s) = [EHook HStopped; EStopped]
  else after_message s = (s, []).
Proof. exact drain_stop_spec. Qed.

Theorem C15_no_stop_without_drain : forall s, f_drain s = NotDraining -> after_message s = (s, []).
Proof. exact not_draining_never_stops. Qed.

(* (F4') lifecycle hooks over EVERY run: started exactly once and first; then one draining hook
   per DrainRequests that reached the living factory (exactly one for a single request); then,
   iff the factory has stopped, the stopped hook exactly once and last; a stop is always preceded
   by a draining hook *)
Theorem C15_hooks_order : forall c ops,
  let s := state_after c (fst (init c 0)) ops in
  let k := drains_alive c (fst (init c 0)) ops in
  hooks_of (concat (factory_run c ops)) = HStarted :: repeat HDraining k ++ stopped_hook (f_stopped s)
  /\ (k <= count_drains ops)%nat
  /\ (f_stopped s = true -> (1 <= k)%nat).
Proof. exact hooks_order. Qed.

(* (F5) a dispatch refused by the rate limiter is reported as RateLimited and rejected, and the
   limiter refuses exactly when its refreshed balance is empty (bucket theorems then bound admissions) *)
Theorem C15_bucket_reject_reported : forall c s j s1 e,
  f_drain s = NotDraining -> route c s j None = (s1, Limited, e) ->
  dispatch c s j = (s1, e ++ [EDiscard (jid j) RateLimited; EReject (jid j)]).
Proof. exact rate_limited_reported. Qed.

Theorem C15_rate_limited_iff_empty : forall c rc ini b s j hint,
  c_rate c = Some (rc, ini) -> f_bucket s = Some b ->
  (snd (fst (route c s j hint)) = Limited <-> balance (refresh rc b (f_now s)) = 0).
Proof. exact route_limited_iff. Qed.

(* (F6) the factory oracle on the model's own runs, clause by clause.  Proved: the clauses
   hooks_order and drain_refuses accept EVERY run of the model (job ids pairwise distinct, as the
   generators produce them), so they can never raise an alarm on model-conforming behaviour. *)
Theorem C15_factory_oracle_sound_partial : forall c ops,
  ops <> [] -> NoDup (map jid (jobs_of ops)) ->
  ck_hooks (model_windows c ops) = true /\ ck_drain_refuses (model_windows c ops) = true.
Proof.
  intros c ops H1 H2. split; [exact (oracle_hooks_sound c ops H1)|exact (oracle_drain_refuses_sound c ops H2)].
Qed.
(* OPEN: forall c ops, ops <> [] -> NoDup (map jid (jobs_of ops)) -> check_C15_factory c (model_windows c ops) = true.
   Missing for the other seven clauses (discard_once, queue_bound, shed_identity, reject_reported,
   rate_window, drain_finishes_then_stops, resize_converges): an invariant tying the event log to
   the state (every accepted job without a start/discard event sits in the factory queue or in
   exactly one worker queue, ids in the state are ids dispatched so far) -- the job-conservation
   argument.  The state-level theorems they rest on are (F1)-(F5) above; these clauses are
   validated on every check run against the model's own traces (model = implementation view and
   oracle accepts), and ex_oracle_accepts_model below. *)

(* ---- statement pins ---- *)
Check (C15_bucket_cap : forall c initial now ops1 ops2,
  balance (run c (new c initial now) ops1) <= maxb c
  /\ balance (run c (new c initial now) (ops1 ++ ops2)) <= maxb c).
Check (C15_bucket_window : forall c b ops t0 t1,
  0 < interval c -> fresh b t0 -> Forall (op_time_le t1) ops ->
  granted c b ops <= balance b + refill c * ((t1 - t0) / interval c + 1)).
Check (C15_bucket_zero_interval : forall c b ops,
  interval c = 0 -> granted c b ops <= balance b + refill c * count_checks ops).
Check (C15_bucket_no_deadline : forall c b ops,
  deadline b = None -> granted c b ops <= balance b).

Check (C15_queue_bound : forall c L m ops,
  c_discard c = Some (L, m) -> forallb (fun o => negb (is_update o)) ops = true ->
  let s := state_after c (fst (init c 0)) ops in
  len (filter (discardable c) (f_q s)) <= L
  /\ (factory_queueing c = false -> forall w, In w (f_pool s) ->
      len (w_q w) <= (if w_alive w then L else match m with Oldest => L | Newest => N.max L 1 end))).
Check (C15_queue_bound_after_update : forall c L m K s ops,
  forallb (fun o => negb (is_update o)) ops = true ->
  f_discard s = Some (L, m) -> QI c L m K s ->
  let s' := state_after c s ops in
  len (filter (discardable c) (f_q s')) <= N.max L K
  /\ (factory_queueing c = false -> forall w, In w (f_pool s') ->
      len (w_q w) <= N.max (if w_alive w then L else match m with Oldest => L | Newest => N.max L 1 end) K)).
Check (C15_resize_converges : forall c ops,
  let s := state_after c (fst (init c 0)) ops in
  f_stopped s = false -> all_available (f_pool s) = true -> forallb w_alive (f_pool s) = true ->
  (forallb (fun o => negb (is_tick o)) ops = true -> f_size s = target_after (c_n0 c) ops)
  /\ (forall i, (exists w, find_w (f_pool s) i = Some w) <-> i < f_size s)
  /\ (forall i w, find_w (f_pool s) i = Some w -> w_drain w = false)).
Check (C15_hooks_order : forall c ops,
  let s := state_after c (fst (init c 0)) ops in
  let k := drains_alive c (fst (init c 0)) ops in
  hooks_of (concat (factory_run c ops)) = HStarted :: repeat HDraining k ++ stopped_hook (f_stopped s)
  /\ (k <= count_drains ops)%nat
  /\ (f_stopped s = true -> (1 <= k)%nat)).
Check (C15_drain_refuses : forall c ops1 ops2 j,
  let s := state_after c (fst (step c (state_after c (fst (init c 0)) ops1) FDrain)) ops2 in
  existsb is_accept_ev (snd (step c s (FDispatch j))) = false).

(* ---- non-vacuity ---- *)
Definition ex_cfg : cfg := mkCfg 2 100 10 18446744073709551615 9223372036000000000000000000.
(* created at t=5 with 1 token; at t=350 three boundaries (105, 205, 305) have passed *)
Example ex_bucket_run :
  bucket_run ex_cfg (Some 1) 5 [TCheck; TBump; TCheck; TAdv 345; TCheck; TBump; TAdv 1000; TCheck]
  = (1, [OCheck true 1; OBump 0; OCheck false 0; OAdv 0; OCheck true 6; OBump 5; OAdv 5; OCheck true 10]).
Proof. vm_compute. reflexivity. Qed.
Example ex_bucket_tight :
  (* the bound of (B2) is attained: deadline just after t0 = 5, five boundaries in (5, 406] *)
  let c := mkCfg 2 100 100 18446744073709551615 9223372036000000000000000000 in
  fresh (mkB 1 (Some 6)) 5
  /\ granted c (mkB 1 (Some 6)) (Bump :: Check 406 :: repeat Bump 20) = 1 + 2 * ((406 - 5) / 100 + 1)
  /\ granted ex_cfg (new ex_cfg (Some 1) 5) (Bump :: Check 350 :: repeat Bump 20) = 7.
Proof. cbn zeta. split; [reflexivity|]. split; vm_compute; reflexivity. Qed.
Example ex_bucket_zero_interval :
  bucket_run (mkCfg 3 0 4 18446744073709551615 9223372036000000000000000000) (Some 0) 7
             [TCheck; TBump; TBump; TBump; TBump; TCheck]
  = (0, [OCheck true 3; OBump 2; OBump 1; OBump 0; OBump 0; OCheck true 3]).
Proof. vm_compute. reflexivity. Qed.
Example ex_bucket_unrepresentable :
  bucket_run (mkCfg 1 18446744073709551615999999999 10 18446744073709551615 9223372036000000000000000000)
             (Some 0) 7 [TCheck; TAdv 1000000; TCheck]
  = (0, [OCheck false 0; OAdv 0; OCheck false 0]).
Proof. vm_compute. reflexivity. Qed.
Example ex_fresh : fresh (new ex_cfg (Some 1) 5) 5.
Proof. vm_compute. reflexivity. Qed.

(* factory examples *)
Definition J (id : N) : job := mkJob id 0 3 true.
Definition ex_fc : fcfg := mkFcfg RQueuer QDefault (Some (1, Oldest)) None 2 [] ([], []).
(* two workers busy, limit 1, oldest mode: jobs 3 and 4 are shed as 4 and 5 arrive *)
Example ex_factory_oldest :
  factory_run ex_fc [FDispatch (J 1); FDispatch (J 2); FDispatch (J 3); FDispatch (J 4); FDispatch (J 5); FQuery]
  = [[EHook HStarted]; [EAccept 1; EStart 1 0 1]; [EAccept 2; EStart 2 1 1]; [EAccept 3];
     [EAccept 4; EDiscard 3 Loadshed]; [EAccept 5; EDiscard 4 Loadshed];
     [EQuery (Some 1) (Some 0) (Some 2) [0; 1]]].
Proof. vm_compute. reflexivity. Qed.
(* the F7 scenario: both busy, shrink to 1, the draining worker 1 is killed, worker 0 finishes:
   the pool converges to [0] (on the tree before fix 5f6a017 the real factory kept [0; 1]) *)
Example ex_F7_scenario :
  factory_run (mkFcfg RRoundRobin QDefault None None 2 [] ([], []))
    [FDispatch (J 1); FDispatch (J 2); FResize 1; FKill 1; FFinishAll; FQuery]
  = [[EHook HStarted]; [EAccept 1; EStart 1 1 1]; [EAccept 2; EStart 2 0 1]; []; [ELost 1]; [EEnd 2];
     [EQuery (Some 0) (Some 1) (Some 0) [0]]].
Proof. vm_compute. reflexivity. Qed.
(* drain: later dispatch refused with Shutdown, earlier jobs finish, then the factory stops *)
Example ex_drain :
  factory_run ex_fc [FDispatch (J 1); FDispatch (J 2); FDispatch (J 3); FDrain; FDispatch (J 4);
                     FFinishAll; FFinishAll; FDispatch (J 5)]
  = [[EHook HStarted]; [EAccept 1; EStart 1 0 1]; [EAccept 2; EStart 2 1 1]; [EAccept 3]; [EHook HDraining];
     [EDiscard 4 Shutdown; EReject 4]; [EEnd 1; EStart 3 0 1; EEnd 2]; [EEnd 3; EHook HStopped; EStopped];
     [EDropped 5]].
Proof. vm_compute. reflexivity. Qed.
Example ex_oracle_accepts_model :
  check_C15_factory ex_fc (model_windows ex_fc
    [FSettle; FDispatch (J 1); FDispatch (J 2); FDispatch (J 3); FDispatch (J 4); FSettle; FDrain; FSettle;
     FFinishAll; FSettle; FFinishAll; FSettle; FQuery; FSettle]) = true.
Proof. vm_compute. reflexivity. Qed.
(* the oracle rejects the trace the unfixed tree produced for the F7 scenario (live = [0; 1]) *)
Example ex_oracle_rejects_F7_trace :
  ck_resize (mkFcfg RRoundRobin QDefault None None 2 [] ([], []))
    [([FSettle], [EHook HStarted]);
     ([FDispatch (J 1); FDispatch (J 2); FSettle], [EStart 1 1 1; EStart 2 0 1; EAccept 1; EAccept 2]);
     ([FResize 1; FSettle], []); ([FKill 1; FSettle], [ELost 1]); ([FFinishAll; FSettle], [EEnd 2]);
     ([FQuery; FSettle], [EQuery (Some 0) (Some 1) (Some 0) [0; 1]])] = false.
Proof. vm_compute. reflexivity. Qed.

(* a Calculate tick: the capacity controller asks for 3 workers, then (second tick) for 1; a Dynamic
   limit goes 2 -> 0 at the first DoPings *)
Example ex_tick :
  factory_run (mkFcfg RQueuer QDefault (Some (2, Newest)) None 1 [] ([3; 1], [0]))
    [FDispatch (J 1); FDispatch (J 2); FTick; FQuery; FDispatch (J 3); FTick; FFinishAll; FQuery]
  = [[EHook HStarted]; [EAccept 1; EStart 1 0 1]; [EAccept 2]; [EStart 2 1 1];
     [EQuery (Some 0) (Some 1) (Some 2) [0; 1; 2]]; [EAccept 3; EStart 3 2 1]; [];
     [EEnd 1; EEnd 2; EEnd 3]; [EQuery (Some 0) (Some 1) (Some 0) [0]]].
Proof. vm_compute. reflexivity. Qed.

Print Assumptions C15_bucket_cap.
Print Assumptions C15_bucket_window.
Print Assumptions C15_bucket_fresh_points.
Print Assumptions C15_bucket_window_history.
Print Assumptions C15_bucket_burst.
Print Assumptions C15_bucket_zero_interval.
Print Assumptions C15_bucket_no_deadline.
Print Assumptions C15_bucket_new_unrepresentable.
Print Assumptions C15_bucket_refresh_exact.
Print Assumptions C15_router_window.
Print Assumptions C15_router_rejects.
Print Assumptions C15_bucket_oracle_sound.
Print Assumptions C15_queue_bound.
Print Assumptions C15_update_installs.
Print Assumptions C15_settings_change_only_on_update.
Print Assumptions C15_queue_bound_after_update.
Print Assumptions C15_oldest_catches_up.
Print Assumptions C15_shed_newest.
Print Assumptions C15_shed_oldest.
Print Assumptions C15_shed_oldest_identity.
Print Assumptions C15_resize_converges.
Print Assumptions C15_drain_refuses.
Print Assumptions C15_drain_refusal_shape.
Print Assumptions C15_drain_stops_when_idle.
Print Assumptions C15_no_stop_without_drain.
Print Assumptions C15_hooks_order.
Print Assumptions C15_factory_oracle_sound_partial.
Print Assumptions C15_bucket_reject_reported.
Print Assumptions C15_rate_limited_iff_empty.
