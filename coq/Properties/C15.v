(* C15 — Factory capacity controls: limits, rate, pool size, draining.
   Only statements (pinned with their literal text), non-vacuity examples and
   Print Assumptions.  Bucket: model Ratelim/Model.v, proofs Ratelim/Proofs.v. *)
From Coq Require Import List NArith Bool.
From RV Require Import Ratelim.Model Ratelim.Proofs.
Import ListNotations.
Local Open Scope N_scope.

(* ================= leaky bucket (ratelim.rs) ================= *)

(* (B1) balance <= max at every moment of every history, for every configuration
   (any refill / interval / max / initial / machine bounds) *)
Theorem C15_bucket_cap : forall c initial now ops1 ops2,
  balance (run c (new c initial now) ops1) <= maxb c
  /\ balance (run c (new c initial now) (ops1 ++ ops2)) <= maxb c.
Proof. exact bucket_cap. Qed.

(* (B2) the window bound: from ANY bucket state b at which nothing can be credited at or
   before t0, ANY sequence of checks and bumps whose checks happen no later than t1 takes at
   most balance + refill * ((t1 - t0) / interval + 1) tokens.  The only hypothesis on the
   configuration is interval > 0; the other two cases are (B4) and (B5). *)
Theorem C15_bucket_window : forall c b ops t0 t1,
  0 < interval c -> fresh b t0 -> Forall (op_time_le t1) ops ->
  admitted c b ops <= balance b + refill c * ((t1 - t0) / interval c + 1).
Proof. exact bucket_window. Qed.

(* the hypothesis `fresh` holds at every observation point: right after creation and right
   after any check, whatever happened before *)
Theorem C15_bucket_fresh_points : forall c b initial t0,
  0 < interval c -> fresh (refresh c b t0) t0 /\ fresh (new c initial t0) t0.
Proof. intros c b initial t0 H. split; [apply fresh_after_refresh|apply fresh_new]; exact H. Qed.

(* (B2') the same over whole histories: any history, a check at t0, any continuation *)
Theorem C15_bucket_window_history : forall c initial tc h1 t0 ops t1,
  0 < interval c -> Forall (op_time_le t1) ops ->
  let b0 := run c (new c initial tc) (h1 ++ [Check t0]) in
  admitted c b0 ops <= balance b0 + refill c * ((t1 - t0) / interval c + 1)
  /\ balance b0 <= maxb c.
Proof. exact bucket_window_history. Qed.

(* (B3) no interval boundary inside the window: a burst takes at most the balance *)
Theorem C15_bucket_burst : forall c b ops t1,
  0 < interval c -> fresh b t1 -> Forall (op_time_le t1) ops ->
  admitted c b ops <= balance b.
Proof. exact bucket_burst. Qed.

(* (B4) interval = 0: at most one refill per check *)
Theorem C15_bucket_zero_interval : forall c b ops,
  interval c = 0 -> admitted c b ops <= balance b + refill c * count_checks ops.
Proof. exact bucket_zero_interval. Qed.

(* (B5) unrepresentable deadline: no further refill, ever; and this is exactly what happens
   at creation when now + interval is not a representable instant *)
Theorem C15_bucket_no_deadline : forall c b ops,
  deadline b = None -> admitted c b ops <= balance b.
Proof. exact bucket_no_deadline. Qed.

Theorem C15_bucket_new_unrepresentable : forall c initial now,
  deadline (new c initial now) = None <-> instant_max c < now + interval c.
Proof. exact new_deadline_none. Qed.

(* (B6) inside the machine bounds a due refresh credits exactly periods * refill (capped at
   max) and moves the deadline by exactly `periods` intervals: the upper bounds above are
   not satisfied by never refilling *)
Theorem C15_bucket_refresh_exact : forall c b now d,
  interval c <> 0 -> interval c <= dur_max -> deadline b = Some d -> d <= now ->
  let k := periods_at c d now in
  k <= usize_max c -> k <= u128_max ->
  k * refill c <= max_lb c -> balance b + k * refill c <= usize_max c ->
  d + k * interval c <= instant_max c ->
  refresh c b now = mkB (N.min (balance b + k * refill c) (maxb c)) (Some (d + k * interval c)).
Proof. exact refresh_exact. Qed.

(* (B7) RateLimitedRouter: jobs handed to workers over a window obey the same bound, and a
   route is refused (RateLimited) exactly when the refreshed balance is empty *)
Theorem C15_router_window : forall c b rs t0 t1,
  0 < interval c -> fresh b t0 -> Forall (fun r => fst r <= t1) rs ->
  count_handled (snd (route_all c b rs)) <= balance b + refill c * ((t1 - t0) / interval c + 1).
Proof. exact router_window. Qed.

Theorem C15_router_rejects : forall c b t h,
  let b' := refresh c b t in
  (balance b' = 0 -> route c b t h = (b', RRateLimited))
  /\ (0 < balance b' -> route c b t h = if h then (bump b', RHandled) else (b', RBacklog)).
Proof. exact route_rejects. Qed.

(* (B8) the executable oracle never rejects a run of the model *)
Theorem C15_bucket_oracle_sound : forall c initial t0 ops,
  let r := bucket_run c initial t0 ops in
  check_C15_bucket c t0 (fst r, ops, snd r) = true.
Proof. exact oracle_sound. Qed.

(* ---- statement pins ---- *)
Check (C15_bucket_cap : forall c initial now ops1 ops2,
  balance (run c (new c initial now) ops1) <= maxb c
  /\ balance (run c (new c initial now) (ops1 ++ ops2)) <= maxb c).
Check (C15_bucket_window : forall c b ops t0 t1,
  0 < interval c -> fresh b t0 -> Forall (op_time_le t1) ops ->
  admitted c b ops <= balance b + refill c * ((t1 - t0) / interval c + 1)).
Check (C15_bucket_zero_interval : forall c b ops,
  interval c = 0 -> admitted c b ops <= balance b + refill c * count_checks ops).
Check (C15_bucket_no_deadline : forall c b ops,
  deadline b = None -> admitted c b ops <= balance b).

(* ---- non-vacuity ---- *)
Definition ex_cfg : cfg := mkCfg 2 100 10 18446744073709551615 9223372036000000000000000000.
(* created at t=5 with 1 token; at t=350 three boundaries (105, 205, 305) have passed *)
Example ex_bucket_run :
  bucket_run ex_cfg (Some 1) 5 [TCheck; TBump; TCheck; TAdv 345; TCheck; TBump; TAdv 1000; TCheck]
  = (1, [OCheck true 1; OBump 0; OCheck false 0; OAdv 0; OCheck true 6; OBump 5; OAdv 5; OCheck true 10]).
Proof. vm_compute. reflexivity. Qed.
Example ex_bucket_tight :
  (* the bound of (B2) is attained: deadline just after t0 = 5, five boundaries in (5, 406] *)
  let c := mkCfg 2 100 100 18446744073709551615 9223372036000000000000000000 in
  fresh (mkB 1 (Some 6)) 5
  /\ admitted c (mkB 1 (Some 6)) (Bump :: Check 406 :: repeat Bump 20) = 1 + 2 * ((406 - 5) / 100 + 1)
  /\ admitted ex_cfg (new ex_cfg (Some 1) 5) (Bump :: Check 350 :: repeat Bump 20) = 7.
Proof. cbn zeta. split; [reflexivity|]. split; vm_compute; reflexivity. Qed.
Example ex_bucket_zero_interval :
  bucket_run (mkCfg 3 0 4 18446744073709551615 9223372036000000000000000000) (Some 0) 7
             [TCheck; TBump; TBump; TBump; TBump; TCheck]
  = (0, [OCheck true 3; OBump 2; OBump 1; OBump 0; OBump 0; OCheck true 3]).
Proof. vm_compute. reflexivity. Qed.
Example ex_bucket_unrepresentable :
  bucket_run (mkCfg 1 18446744073709551615999999999 10 18446744073709551615 9223372036000000000000000000)
             (Some 0) 7 [TCheck; TAdv 1000000; TCheck]
  = (0, [OCheck false 0; OAdv 0; OCheck false 0]).
Proof. vm_compute. reflexivity. Qed.
Example ex_fresh : fresh (new ex_cfg (Some 1) 5) 5.
Proof. vm_compute. reflexivity. Qed.

Print Assumptions C15_bucket_cap.
Print Assumptions C15_bucket_window.
Print Assumptions C15_bucket_fresh_points.
Print Assumptions C15_bucket_window_history.
Print Assumptions C15_bucket_burst.
Print Assumptions C15_bucket_zero_interval.
Print Assumptions C15_bucket_no_deadline.
Print Assumptions C15_bucket_new_unrepresentable.
Print Assumptions C15_bucket_refresh_exact.
Print Assumptions C15_router_window.
Print Assumptions C15_router_rejects.
Print Assumptions C15_bucket_oracle_sound.
