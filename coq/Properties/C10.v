(* C10 — A name maps to at most one live actor and is released on exit.
   Only statements (pinned), non-vacuity examples and Print Assumptions.
   Model: Registry/Model.v; proofs: Registry/Proofs.v.

   `run false ls (init acts)` is the state after the interleaving `ls` of the atomic steps
   of any number of actors `acts` (each: optional name, remote-id flag) — concurrent named
   spawns, starts that fail, exits by any cause, waits, lookups. `false` selects the
   repaired code (remote-id handles do not unregister); `true` the defect F1. *)
From Coq Require Import List NArith Bool Arith.
From RV Require Import Registry.Model Registry.Proofs.
Import ListNotations.

(* (1) uniqueness: the name table never has two entries for a name (and the pid table no
   duplicate) — invariant of every interleaving *)
Theorem C10_unique : forall acts ls,
  let s := run false ls (init acts) in
  NoDup (map fst (names s)) /\ NoDup (pids s).
Proof. intros acts ls s. pose proof (reach_inv acts ls) as I. split; [apply (iU _ I)|apply (iPU _ I)]. Qed.

(* (2) one winner: at any moment at most one local actor holds a given name (holds = its
   spawn succeeded and it has not yet removed its entry), and it is exactly the actor
   where_is returns *)
Theorem C10_one_winner : forall acts ls a b x y n,
  let s := run false ls (init acts) in
  nth_error (actors s) a = Some x -> nth_error (actors s) b = Some y ->
  named x n = true -> named y n = true ->
  holds_name (a_pc x) = true -> holds_name (a_pc y) = true -> a = b.
Proof. intros acts ls a b x y n s. apply held_unique. apply reach_inv. Qed.

Theorem C10_holder_is_lookup : forall acts ls n a,
  let s := run false ls (init acts) in
  lookup n (names s) = Some a <->
  exists x, nth_error (actors s) a = Some x /\ named x n = true /\ holds_name (a_pc x) = true.
Proof. intros acts ls n a s. apply held_iff. apply reach_inv. Qed.

(* of any set of concurrent spawns with the same name exactly one succeeds and the others
   fail: in any reachable state in which nobody named n has released the name yet, if at
   least one spawn under n has reached the registry then there is a winner w, where_is n
   returns w, and every other spawn under n that has reached the registry has failed
   (ActorAlreadyRegistered) — for every interleaving and any number of spawns *)
Theorem C10_exactly_one_winner : forall acts ls n,
  let s := run false ls (init acts) in
  (forall b y, nth_error (actors s) b = Some y -> named y n = true -> released (a_pc y) = false) ->
  (exists a x, nth_error (actors s) a = Some x /\ named x n = true /\ a_pc x <> PNew) ->
  exists w, lookup n (names s) = Some w /\
    forall a x, nth_error (actors s) a = Some x -> named x n = true -> a_pc x <> PNew -> a <> w ->
                a_pc x = PFailed.
Proof. exact exactly_one_winner. Qed.

(* ... a spawn that reaches the registry succeeds iff the name is free; a failing spawn
   (ActorAlreadyRegistered) changes neither table nor any other actor *)
Theorem C10_spawn_outcome : forall s i x n,
  nth_error (actors s) i = Some x -> a_pc x = PNew -> a_remote x = false -> a_name x = Some n ->
  let s' := step false s (LStep i) in
  (lookup n (names s) = None ->
     names s' = (n, i) :: names s /\ pids s' = pids s /\ pc_of s' i = Some PNameOk) /\
  (lookup n (names s) <> None ->
     names s' = names s /\ pids s' = pids s /\ pc_of s' i = Some PFailed /\
     forall j, j <> i -> nth_error (actors s') j = nth_error (actors s) j).
Proof. exact spawn_outcome. Qed.

(* (3) the table refines a sequential name -> actor map in which only the holder
   releases, although the code removes BY NAME: at every reachable state the thread that
   executes unregister(name) is the holder *)
Theorem C10_refines_map : forall acts ls l k,
  let s := run false ls (init acts) in
  abs (step false s l) k = spec_step (actors s) l (abs s) k.
Proof. intros acts ls l k s. apply refines_map. apply reach_inv. Qed.

(* (4) lookup window *)
(* from the successful spawn until it begins to stop, where_is finds the actor *)
Theorem C10_lookup_live : forall acts ls a x n,
  let s := run false ls (init acts) in
  nth_error (actors s) a = Some x -> named x n = true -> live (a_pc x) = true ->
  lookup n (names s) = Some a.
Proof.
  intros acts ls a x n s E Nx L. apply (iB _ (reach_inv acts ls) a x n); auto.
  destruct (a_pc x); try discriminate; reflexivity.
Qed.

(* where_is never returns an actor that has finished its cleanup block — in particular
   never one whose wait() has returned *)
Theorem C10_lookup_never_stale : forall acts ls a x n,
  let s := run false ls (init acts) in
  lookup n (names s) = Some a -> nth_error (actors s) a = Some x ->
  holds_name (a_pc x) = true /\ a_pc x <> PWaited /\ a_pc x <> PStopped /\ a_pc x <> PStopping.
Proof.
  intros acts ls a x n s L E. destruct (iA _ (reach_inv acts ls) _ _ L) as (y & Ey & _ & Hy).
  fold s in Ey. rewrite E in Ey. injection Ey as <-.
  split; auto. destruct (a_pc x); try discriminate; repeat split; discriminate.
Qed.

(* the holder's own unregister frees the name, and a free name can be taken: once a
   wait() on the holder has returned (it is past its cleanup), the next spawn under the
   name succeeds unless somebody else took it meanwhile *)
Theorem C10_release_frees : forall acts ls i x n,
  let s := run false ls (init acts) in
  nth_error (actors s) i = Some x -> a_pc x = PStop2 -> named x n = true ->
  lookup n (names (step false s (LStep i))) = None.
Proof. intros acts ls i x n s. apply release_frees. apply reach_inv. Qed.

Theorem C10_registrable_after_wait : forall acts ls a x n,
  let s := run false ls (init acts) in
  nth_error (actors s) a = Some x -> named x n = true -> a_pc x = PWaited ->
  lookup n (names s) <> Some a.
Proof.
  intros acts ls a x n s E Nx Hp L.
  destruct (C10_lookup_never_stale acts ls a x n L E) as (_ & H & _). congruence.
Qed.

(* (5) the same for the pid table: where_is_pid finds a local actor exactly from its
   registration until it begins its cleanup; never after its wait returned *)
Theorem C10_pid_window : forall acts ls a,
  let s := run false ls (init acts) in
  mem_pid a (pids s) = true <->
  exists x, nth_error (actors s) a = Some x /\ a_remote x = false /\ holds_pid (a_pc x) = true.
Proof. intros acts ls a s. apply (iP _ (reach_inv acts ls)). Qed.

(* (6) the executable property accepts every history of the model: it cannot raise a false
   alarm on model-conforming behaviour, whatever the interleaving *)
Theorem C10_oracle_sound : forall acts ls, check_C10 (history false ls (init acts)) = true.
Proof. exact oracle_sound. Qed.

(* ---- statement pins ---- *)
Check (C10_one_winner : forall acts ls a b x y n,
  let s := run false ls (init acts) in
  nth_error (actors s) a = Some x -> nth_error (actors s) b = Some y ->
  named x n = true -> named y n = true ->
  holds_name (a_pc x) = true -> holds_name (a_pc y) = true -> a = b).
Check (C10_exactly_one_winner : forall acts ls n,
  let s := run false ls (init acts) in
  (forall b y, nth_error (actors s) b = Some y -> named y n = true -> released (a_pc y) = false) ->
  (exists a x, nth_error (actors s) a = Some x /\ named x n = true /\ a_pc x <> PNew) ->
  exists w, lookup n (names s) = Some w /\
    forall a x, nth_error (actors s) a = Some x -> named x n = true -> a_pc x <> PNew -> a <> w ->
                a_pc x = PFailed).
Check (C10_refines_map : forall acts ls l k,
  let s := run false ls (init acts) in
  abs (step false s l) k = spec_step (actors s) l (abs s) k).
Check (C10_lookup_live : forall acts ls a x n,
  let s := run false ls (init acts) in
  nth_error (actors s) a = Some x -> named x n = true -> live (a_pc x) = true ->
  lookup n (names s) = Some a).

(* ---- non-vacuity ---- *)
(* three concurrent spawns of name 7 interleaved: one winner, two failures; the winner
   exits, its successor registers while the predecessor is still in post_stop *)
Definition ex_acts : list (option N * bool) :=
  [(Some 7%N, false); (Some 7%N, false); (Some 7%N, false); (Some 7%N, false)].
Definition ex_ls : list label :=
  [LStep 1; LStep 0; LStep 2; LStep 1; LStart 1 true; LWhere 7%N; LStop 1; LStep 1; LStep 1;
   LWhere 7%N; LStep 3; LStep 3; LWhere 7%N; LFinish 1; LWaitRet 1; LWhere 7%N].
Example ex_history :
  history false ex_ls (init ex_acts)
  = [ESpawn 1 (Some 7%N) false true; ESpawn 0 (Some 7%N) false false; ESpawn 2 (Some 7%N) false false;
     EPid 1; EWhere 7%N (Some (1, SLive)); EBegin 1; EWhere 7%N None;
     ESpawn 3 (Some 7%N) false true; EPid 3; EWhere 7%N (Some (3, SLive)); EWait 1;
     EWhere 7%N (Some (3, SLive))]
  /\ check_C10 (history false ex_ls (init ex_acts)) = true.
Proof. split; vm_compute; reflexivity. Qed.

(* the defect F1 (f1 = true): a remote-id handle named 7 stops and removes the live local
   actor's entry; the oracle rejects exactly that history.  With the repair (f1 = false)
   the same label list keeps the entry. *)
Definition f1_acts : list (option N * bool) := [(Some 7%N, false); (Some 7%N, true)].
Definition f1_ls : list label :=
  [LStep 0; LStep 0; LStart 0 true; LStep 1; LStep 1; LStart 1 true; LWhere 7%N;
   LStop 1; LStep 1; LStep 1; LFinish 1; LWhere 7%N].
Example ex_F1_refuted :
  history true f1_ls (init f1_acts)
  = [ESpawn 0 (Some 7%N) false true; EPid 0; ESpawn 1 (Some 7%N) true true; EWhere 7%N (Some (0, SLive));
     EBegin 1; EWhere 7%N None]
  /\ check_C10 (history true f1_ls (init f1_acts)) = false
  /\ pc_of (run true f1_ls (init f1_acts)) 0 = Some PRun.
Proof. repeat split; vm_compute; reflexivity. Qed.
Example ex_F1_repaired :
  check_C10 (history false f1_ls (init f1_acts)) = true
  /\ lookup 7%N (names (run false f1_ls (init f1_acts))) = Some 0.
Proof. split; vm_compute; reflexivity. Qed.

(* the oracle rejects: two successful spawns of one name, a lookup that returns an actor
   whose wait has returned, a failing spawn of a free name *)
Example ex_oracle_rejects :
  check_C10 [ESpawn 0 (Some 7%N) false true; ESpawn 1 (Some 7%N) false true] = false
  /\ check_C10 [ESpawn 0 (Some 7%N) false true; EBegin 0; EWait 0; EWhere 7%N (Some (0, SStopped))] = false
  /\ check_C10 [ESpawn 0 (Some 7%N) false true; EBegin 0; EWait 0; ESpawn 1 (Some 7%N) false false] = false
  /\ check_C10 [ESpawn 0 (Some 7%N) false true; EPid 0; EWherePid 0 None] = false
  /\ check_C10 [ESpawn 0 (Some 7%N) false true; EBegin 0; EWhere 7%N (Some (0, SStopped))] = false.
Proof. repeat split; vm_compute; reflexivity. Qed.

(* ... a REJECTED spawn (Send or thread-local API) with a side effect: the live holder is no
   longer found / the name can be taken a second time; and a stale second release by a
   predecessor (e.g. its status written back below Stopping by a late drain()) that hits the
   successor which took the name while the predecessor was in post_stop *)
(* ... a REJECTED spawn that was visible in the pid table / announced to pid lifecycle subscribers
   (seed C10-8: pid registered before the name claim and rolled back), and a failed start whose
   name is not released (seed C10-7: where_is hands out the ghost, here as an unknown cell 999;
   the re-spawn is refused although nobody holds the name) *)
Example ex_oracle_rejects_loser_pid :
  check_C10 [ESpawn 0 (Some 7%N) false true; EPid 0; ESpawn 1 (Some 7%N) false false; EPid 1] = false
  /\ check_C10 [ESpawn 0 (Some 7%N) false true; EPid 0; EBegin 0; EWhere 7%N (Some (999, SLive))] = false
  /\ check_C10 [ESpawn 0 (Some 7%N) false true; EPid 0; EBegin 0; EWait 0; ESpawn 1 (Some 7%N) false false] = false
  /\ check_C10 [ESpawn 0 (Some 7%N) false true; EPid 0; EBegin 0; EWhere 7%N None;
                ESpawn 1 (Some 7%N) false true; EPid 1] = true.
Proof. repeat split; vm_compute; reflexivity. Qed.

Example ex_oracle_rejects_lost_entry :
  check_C10 [ESpawn 0 (Some 7%N) false true; EPid 0; ESpawn 1 (Some 7%N) false false; EWhere 7%N None] = false
  /\ check_C10 [ESpawn 0 (Some 7%N) false true; EPid 0; ESpawn 1 (Some 7%N) false false;
                ESpawn 2 (Some 7%N) false true] = false
  /\ check_C10 [ESpawn 0 (Some 7%N) false true; EPid 0; EBegin 0; EWhere 7%N None;
                ESpawn 1 (Some 7%N) false true; EPid 1; EWhere 7%N (Some (1, SLive)); EWait 0;
                EWhere 7%N None] = false
  /\ check_C10 [ESpawn 0 (Some 7%N) false true; EPid 0; ESpawn 1 (Some 7%N) false false;
                EWhere 7%N (Some (0, SLive)); ESpawn 2 (Some 7%N) false false] = true.
Proof. repeat split; vm_compute; reflexivity. Qed.

Print Assumptions C10_unique.
Print Assumptions C10_one_winner.
Print Assumptions C10_holder_is_lookup.
Print Assumptions C10_exactly_one_winner.
Print Assumptions C10_spawn_outcome.
Print Assumptions C10_refines_map.
Print Assumptions C10_lookup_live.
Print Assumptions C10_lookup_never_stale.
Print Assumptions C10_release_frees.
Print Assumptions C10_registrable_after_wait.
Print Assumptions C10_pid_window.
Print Assumptions C10_oracle_sound.
