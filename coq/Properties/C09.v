(* C09 — Every RPC completes and replies are never cross-wired.
   Only statements, pins, non-vacuity examples and Print Assumptions.
   Model: Rpc/Model.v; proofs: Rpc/Proofs.v.

   Every theorem quantifies over ALL label sequences `ls` from `init t n` (n actors): any number
   of callers creating calls with or without timeout / forwarding target at any time, the callee
   dequeuing, whoever holds a reply port replying with ANY value / dropping it / storing it in
   the actor's state / handing it to another task, handlers returning, actors exiting at ANY
   moment (stop, kill, panic, error, drain are all `Exit`, drain's refusal is `StopAccept`),
   callers being polled, clock advances and timer-driver turns in any order.  The callee's code
   is therefore universally quantified.  tokio oneshot / timeout / timer wheel and the linearity
   of the reply port (Rust ownership) are MODELLED (see Rpc/Model.v header), not verified. *)
From Coq Require Import List NArith Bool.
From RV Require Import Rpc.Model Rpc.Proofs.
Import ListNotations.
Local Open Scope N_scope.

(* (1) Success v only if v is the first value sent on that call's OWN reply port (the log
   `replies` is appended only by a `Reply c v` performed by the current holder of c's port:
   C09_replies_by_holder) *)
Theorem C09_success_sound : forall ls t n c cl v tt,
  let s := run ls (init t n) in
  nth_error (calls s) c = Some cl -> c_st cl = CGot (RSuccess v) tt ->
  first_reply c (replies s) = Some v.
Proof. exact success_sound. Qed.

Theorem C09_replies_by_holder : forall s l,
  replies (step s l) = replies s
  \/ exists c v cl, l = Reply c v /\ nth_error (calls s) c = Some cl /\ held (c_loc cl) = true
                    /\ replies (step s l) = replies s ++ [(c, v)].
Proof. exact replies_step. Qed.

(* (2) no hang: the callee is gone (any cause) or the port is gone, and the port was not handed
   to another task: a waiting caller completes at its next poll with SenderError (or with the
   value already sent); in particular a quiescent caller is never still waiting *)
Theorem C09_no_hang : forall ls t n c cl dl,
  let s := run ls (init t n) in
  nth_error (calls s) c = Some cl -> c_st cl = CWaiting dl ->
  (~ alive_at (actors s) (c_callee cl) \/ c_loc cl = LGone) -> c_loc cl <> LTask ->
  (exists r, nth_error (calls (step s (Poll c))) c
             = Some (set_call cl (CGot r (now s)) (c_ch cl) (c_loc cl) (c_first cl))
             /\ (r = RSenderError \/ exists v, r = RSuccess v /\ c_ch cl = ChFull v))
  /\ ~ caller_quiescent s c.
Proof. exact no_hang. Qed.

(* (3) timeouts: the deadline is exactly T after the start of the call; once the timer driver
   has seen it pass, the next poll completes the call, so a quiescent caller is not waiting;
   and Timeout is never returned before T has elapsed *)
Theorem C09_timeout_bound : forall ls t n c cl D,
  let s := run ls (init t n) in
  nth_error (calls s) c = Some cl -> c_st cl = CWaiting (Some D) ->
  (exists T, c_tmo cl = Some T /\ D = c_t0 cl + T)
  /\ (elapsed (wheel s) D = true ->
      (exists r, nth_error (calls (step s (Poll c))) c
                 = Some (set_call cl (CGot r (now s)) (c_ch cl) (c_loc cl) (c_first cl)))
      /\ ~ caller_quiescent s c).
Proof. exact timeout_bound. Qed.

Theorem C09_timeout_not_early : forall ls t n c cl tt,
  let s := run ls (init t n) in
  nth_error (calls s) c = Some cl -> c_st cl = CGot RTimeout tt ->
  exists T, c_tmo cl = Some T /\ c_t0 cl + T <= tt.
Proof. exact timeout_not_early. Qed.

(* (4) no cross-wiring: whatever acts on call c (a reply, a drop, a move of its port, its
   caller's poll) leaves every other call exactly as it was -- in ANY state *)
Theorem C09_no_crosswire : forall s l c c',
  call_label l = Some c -> c' <> c -> nth_error (calls (step s l)) c' = nth_error (calls s) c'.
Proof. exact no_crosswire. Qed.

(* (5) multi_call is part of the model (x-labels: `XNewMulti ts tmo` registers a call,
   `XMultiSend g` is one iteration of its send loop, `XL l` is any ordinary label), so the
   theorem is over ALL x-label sequences: several multi_calls in progress at once, their send
   loops interleaved with anything else, targets exiting at any moment.  For every multi_call:
   request i was created for target i with the call's timeout and stays addressed to it; no
   request is shared between two multi_calls or two positions; and when the caller receives
   `GOk rs`, rs has one entry per target and entry i is the outcome of request i -- i.e. of the
   port that was sent to target i *)
Theorem C09_multi_order : forall xls t n g gr,
  let s := xrun xls (init t n) in
  nth_error (groups s) g = Some gr ->
  (forall i c, nth_error (gg_ids gr) i = Some c ->
     exists a, nth_error (gg_targets gr) i = Some a /\ sent_to s c a (gg_tmo gr))
  /\ (forall g2 gr2 i1 i2 c, nth_error (groups s) g2 = Some gr2 ->
        nth_error (gg_ids gr) i1 = Some c -> nth_error (gg_ids gr2) i2 = Some c -> g = g2 /\ i1 = i2)
  /\ (forall rs tt, gres_of s gr = GOk rs tt ->
        length rs = length (gg_targets gr)
        /\ forall i c, nth_error (gg_ids gr) i = Some c -> nth_error rs i = Some (res_of s c)).
Proof. exact multi_order. Qed.

(* the states of x-runs are states of ordinary runs plus the multi_call bookkeeping: theorems
   (1)-(4) and (6) apply to every request of every multi_call (e.g. C09_success_sound_x) *)
Theorem C09_xrun_core : forall xls t n,
  exists ls, xrun xls (init t n) = set_groups (run ls (init t n)) (groups (xrun xls (init t n))).
Proof. exact xrun_core. Qed.

Theorem C09_success_sound_x : forall xls t n c cl v tt,
  let s := xrun xls (init t n) in
  nth_error (calls s) c = Some cl -> c_st cl = CGot (RSuccess v) tt ->
  first_reply c (replies s) = Some v.
Proof. exact success_sound_x. Qed.

(* (6) call_and_forward: at most one forward per call; exactly one, carrying the reply's value,
   issued at the completion time, when the call succeeded; none otherwise *)
Theorem C09_forward_once : forall ls t n c cl,
  let s := run ls (init t n) in
  nth_error (calls s) c = Some cl ->
  (length (fw_of c (fwds s)) <= 1)%nat
  /\ (forall v tt b, c_st cl = CGot (RSuccess v) tt -> c_fwd cl = Some b ->
        exists ok, fw_of c (fwds s) = [(c, v, tt, ok)])
  /\ ((forall v tt, c_st cl <> CGot (RSuccess v) tt) -> fw_of c (fwds s) = []).
Proof. exact forward_once. Qed.

(* (7) the deterministic driver of the correspondence check only performs model steps *)
Theorem C09_exec_is_run : forall n ops,
  d_s (exec n ops) = xrun (rev (d_ls (exec n ops))) (init 0 n).
Proof. exact exec_is_run. Qed.

(* (8) the executable oracle.  Its SAFETY clauses -- a Timeout result is never earlier than
   t_call + T; a forward is recorded exactly once, with the reply's value and at the completion
   time, iff a forwarding call succeeded, and never otherwise -- accept every run of the model's
   driver, for every number of actors and every scenario; and they are part of the oracle applied
   to the implementation *)
Theorem C09_oracle_sound_safety : forall n ops, check_C09_safety (observe n ops) = true.
Proof. exact oracle_sound_safety. Qed.

Theorem C09_oracle_includes_safety : forall n ops o,
  check_C09 n ops o = true -> check_C09_safety o = true.
Proof. exact oracle_includes_safety. Qed.

(* (8b) the VALUE clauses of the oracle -- a caller of a plain / forwarding call, and every slot of
   a multi_call vector, only ever shows a value the scenario designated for THAT request (the
   cross-wiring clause: all designated values are distinct) -- accept every run of the model's
   driver (trace invariant: every `Reply c v` the driver issues comes from a plan published for
   c); they are part of the oracle applied to the implementation *)
Theorem C09_oracle_sound_values : forall n ops, check_C09_values ops (observe n ops) = true.
Proof. exact oracle_sound_values. Qed.

Theorem C09_oracle_includes_values : forall n ops o,
  check_C09 n ops o = true -> check_C09_values ops o = true.
Proof. exact oracle_includes_values. Qed.

(* (8c) the UNCONDITIONAL form of full oracle soundness is FALSE: `settle` is fuel-bounded
   (FUEL = 300 task turns per pass); with 700 callers of one actor that is then killed the history
   is not settled (callers remain un-polled), and the oracle's no-hang clause rejects it.  The open
   statement therefore carries an explicit `settled` side condition (every settle ends with an
   empty run queue and every caller quiescent) *)
Example C09_oracle_sound_unsettled_refuted :
  exists n ops, check_C09 n ops (observe n ops) = false.
Proof. exists 1%nat, (repeat (OCall 0%nat None) 700 ++ [OSettle; OKill 0%nat]). vm_compute. reflexivity. Qed.

(* OPEN: C09_oracle_sound_settled : forall n ops, settled_history n ops ->
     check_C09 n ops (observe n ops) = true.   (proved so far: safety (8) and value (8b) clauses)
   GAP (value clauses now proved, (8b)): (ii) "answer no later than the first drain at/after the deadline" and "no pending caller with a
   dead callee unless its port was handed to a task" are PROGRESS statements about the
   fuel-bounded `settle`; (iii) the multi_call vector clause combines (i) with C09_multi_order.
   All are checked by vm_compute on the model's own observation for every scenario of every run
   (lib/c09.py, coverage.model_oracle_accepts). *)

(* ---- statement pins ---- *)
Check (C09_success_sound : forall ls t n c cl v tt,
  let s := run ls (init t n) in
  nth_error (calls s) c = Some cl -> c_st cl = CGot (RSuccess v) tt ->
  first_reply c (replies s) = Some v).
Check (C09_no_hang : forall ls t n c cl dl,
  let s := run ls (init t n) in
  nth_error (calls s) c = Some cl -> c_st cl = CWaiting dl ->
  (~ alive_at (actors s) (c_callee cl) \/ c_loc cl = LGone) -> c_loc cl <> LTask ->
  (exists r, nth_error (calls (step s (Poll c))) c
             = Some (set_call cl (CGot r (now s)) (c_ch cl) (c_loc cl) (c_first cl))
             /\ (r = RSenderError \/ exists v, r = RSuccess v /\ c_ch cl = ChFull v))
  /\ ~ caller_quiescent s c).
Check (C09_multi_order : forall xls t n g gr,
  let s := xrun xls (init t n) in
  nth_error (groups s) g = Some gr ->
  (forall i c, nth_error (gg_ids gr) i = Some c ->
     exists a, nth_error (gg_targets gr) i = Some a /\ sent_to s c a (gg_tmo gr))
  /\ (forall g2 gr2 i1 i2 c, nth_error (groups s) g2 = Some gr2 ->
        nth_error (gg_ids gr) i1 = Some c -> nth_error (gg_ids gr2) i2 = Some c -> g = g2 /\ i1 = i2)
  /\ (forall rs tt, gres_of s gr = GOk rs tt ->
        length rs = length (gg_targets gr)
        /\ forall i c, nth_error (gg_ids gr) i = Some c -> nth_error rs i = Some (res_of s c))).
Check (C09_no_crosswire : forall s l c c',
  call_label l = Some c -> c' <> c -> nth_error (calls (step s l)) c' = nth_error (calls s) c').

(* ---- non-vacuity ---- *)
(* two concurrent callers, replies in the opposite order, each gets its own value *)
Example ex_two_callers :
  o_calls (observe 1 [OCall 0 None; OCall 0 None; OSettle;
                      OAct 0 (mkPlan [] AStore); OSettle;
                      OAct 1 (mkPlan [(0%nat, Some 20)] (AReply 21)); OSettle])
  = [mkOC (OSuccess 20) 0 0 true None 0 None; mkOC (OSuccess 21) 0 0 true None 0 None].
Proof. vm_compute; reflexivity. Qed.
(* the callee is killed with one request in the handler and one queued: both SenderError *)
Example ex_kill :
  o_calls (observe 1 [OCall 0 None; OCall 0 (Some 3000000); OSettle; OKill 0])
  = [mkOC OSenderError 0 0 true None 0 None; mkOC OSenderError 0 0 true (Some 3000000) 0 None].
Proof. vm_compute; reflexivity. Qed.
(* timeout exactly at the deadline; a reply that is already there at the same instant wins *)
Example ex_timeout :
  o_calls (observe 1 [OCall 0 (Some 3000000); OSettle; OAdv 3000000; OAct 0 (mkPlan [] (AReply 1))])
  = [mkOC OTimeout 3000000 0 true (Some 3000000) 0 None]
  /\ o_calls (observe 1 [OCall 0 (Some 3000000); OSettle; OAct 0 (mkPlan [] (AReply 1)); OAdvRaw 3000000])
  = [mkOC (OSuccess 1) 3000000 0 true (Some 3000000) 0 None].
Proof. split; vm_compute; reflexivity. Qed.
(* a port handed to another task outlives the callee: the caller legitimately keeps waiting,
   and is answered by that task *)
Example ex_moved :
  o_calls (observe 1 [OCall 0 None; OSettle; OAct 0 (mkPlan [] AMove); OSettle; OKill 0; OSettle])
  = [mkOC OPending 0 0 true None 0 None]
  /\ o_calls (observe 1 [OCall 0 None; OSettle; OAct 0 (mkPlan [] AMove); OSettle; OKill 0; OSettle; OTask 0 (TReply 9)])
  = [mkOC (OSuccess 9) 0 0 true None 0 None].
Proof. split; vm_compute; reflexivity. Qed.
(* multi_call in request order although the replies arrive in reverse; forward exactly once *)
Example ex_multi :
  o_groups (observe 3 [OMulti [0; 1; 2]%nat None; OSettle; OAct 2 (mkPlan [] (AReply 30));
                       OAct 1 (mkPlan [] (AReply 20)); OAct 0 (mkPlan [] (AReply 10))])
  = [(GOk [OSuccess 10; OSuccess 20; OSuccess 30] 0, [0; 1; 2]%nat)].
Proof. vm_compute; reflexivity. Qed.
(* two multi_calls whose send loops are interleaved, one target exits in between *)
Definition ex_xls : list xlabel :=
  [XNewMulti [0; 1]%nat None; XNewMulti [1; 0]%nat (Some 5); XMultiSend 0; XMultiSend 1;
   XL (Exit 0); XMultiSend 0; XMultiSend 1].
Example ex_interleaved :
  map (fun g => (gg_ids g, gg_failed g)) (groups (xrun ex_xls (init 0 2)))
  = [([0; 2]%nat, false); ([1; 3]%nat, true)]
  /\ map c_callee (calls (xrun ex_xls (init 0 2))) = [0; 1; 1; 0]%nat.
Proof. split; vm_compute; reflexivity. Qed.
(* multi_call with T = 3 ms and replies scripted at 1 ms and 4 ms: the vector is due AT T, the late
   slot is Timeout; the oracle rejects a vector that comes back later than T with the late reply *)
Example ex_multi_timeout :
  o_groups (observe 2 [OMulti [0; 1]%nat (Some 3000000); OSettle; OAdv 1000000; OAct 0 (mkPlan [] (AReply 70)); OSettle;
                       OAdv 2000000; OAdv 1000000; OAct 1 (mkPlan [] (AReply 71)); OSettle; OAdv 4000000])
  = [(GOk [OSuccess 70; OTimeout] 3000000, [0; 1]%nat)]
  /\ check_C09 2 [OMulti [0; 1]%nat (Some 3000000); OSettle; OAdv 1000000; OAct 0 (mkPlan [] (AReply 70)); OSettle;
                  OAdv 2000000; OAdv 1000000; OAct 1 (mkPlan [] (AReply 71)); OSettle; OAdv 4000000]
       (mkObs [mkOC OPending 0 0 true (Some 3000000) 0 None; mkOC OPending 0 0 true (Some 3000000) 1 None]
              [(GOk [OSuccess 70; OSuccess 71] 4000000, [0; 1]%nat)] [] [true; true]) = false.
Proof. split; vm_compute; reflexivity. Qed.
(* an un-timed multi_call whose callee drops the port / is killed: that slot is SenderError; the
   oracle rejects a Timeout slot when no timeout was given *)
Example ex_multi_untimed :
  o_groups (observe 2 [OMulti [0; 1]%nat None; OSettle; OAct 0 (mkPlan [] ADrop); OKill 1])
  = [(GOk [OSenderError; OSenderError] 0, [0; 1]%nat)]
  /\ check_C09 2 [OMulti [0; 1]%nat None; OSettle; OAct 0 (mkPlan [] ADrop); OKill 1]
       (mkObs [mkOC OPending 0 0 true None 0 None; mkOC OPending 0 0 true None 1 None]
              [(GOk [OTimeout; OSenderError] 0, [0; 1]%nat)] [] [true; false]) = false.
Proof. split; vm_compute; reflexivity. Qed.
Example ex_forward :
  o_fwds (observe 2 [OFwd 0 1 None; OSettle; OAct 0 (mkPlan [] (AReply 60))]) = [(0%nat, 60, 0, true)]
  /\ o_fwds (observe 2 [OFwd 0 1 None; OSettle; OAct 0 (mkPlan [] ADrop)]) = [].
Proof. split; vm_compute; reflexivity. Qed.
(* the oracle rejects a cross-wired reply, an early timeout, a hang and a double forward *)
Example ex_oracle :
  check_C09 1 [OCall 0 None; OCall 0 None; OSettle; OAct 0 (mkPlan [] (AReply 5)); OAct 1 (mkPlan [] (AReply 6))]
    (mkObs [mkOC (OSuccess 6) 0 0 true None 0 None; mkOC (OSuccess 5) 0 0 true None 0 None] [] [] [true]) = false
  /\ check_C09 1 [OCall 0 (Some 3000000); OAdv 2000000]
    (mkObs [mkOC OTimeout 2000000 0 true (Some 3000000) 0 None] [] [] [true]) = false
  /\ check_C09 1 [OCall 0 None; OSettle; OKill 0]
    (mkObs [mkOC OPending 0 0 true None 0 None] [] [] [false]) = false
  /\ check_C09 2 [OFwd 0 1 None; OSettle; OAct 0 (mkPlan [] (AReply 60))]
    (mkObs [mkOC (OSuccess 60) 0 0 true None 0 (Some 1%nat)] [] [(0%nat, 60, 0, true); (0%nat, 60, 0, true)] [true; true]) = false
  /\ check_C09 1 [OCall 0 (Some 3000000); OSettle; OAdv 3000000; OAdv 1000000]
    (mkObs [mkOC OPending 0 0 true (Some 3000000) 0 None] [] [] [true]) = false.
Proof. repeat split; vm_compute; reflexivity. Qed.

Print Assumptions C09_success_sound.
Print Assumptions C09_replies_by_holder.
Print Assumptions C09_no_hang.
Print Assumptions C09_timeout_bound.
Print Assumptions C09_timeout_not_early.
Print Assumptions C09_no_crosswire.
Print Assumptions C09_multi_order.
Print Assumptions C09_xrun_core.
Print Assumptions C09_success_sound_x.
Print Assumptions C09_forward_once.
Print Assumptions C09_exec_is_run.
Print Assumptions C09_oracle_sound_safety.
Print Assumptions C09_oracle_includes_safety.
Print Assumptions C09_oracle_sound_values.
Print Assumptions C09_oracle_includes_values.
