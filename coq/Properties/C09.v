(* C09 placeholder while the proofs are being written *)
From RV Require Import Rpc.Model.
