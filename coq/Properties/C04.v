(* C04 — Failures are contained and reported to the supervisor exactly once.
   Model: Loop/World.v (actor runtime: start, processing loop, four ports, lifecycle guard,
   supervision routing: link at start, take_children/terminate, notify_supervisor, unlink);
   both kinds of host: Send actors (actor.rs: link after pre_start, final state reported) and
   thread-local actors ([c_local], thread_local/inner.rs: link BEFORE pre_start, the non-Send
   state never reported).
   The property as the executable oracle Loop/Checks.v (judge_sup / check_C04), which judges every
   supervision event a supervisor starts to handle against everything logged before it.
   Proofs in Loop/C04Proofs.v (invariant Inv4 over every step of every schedule, on top of the
   lifecycle invariant of Loop/WorldProofs.v).  Statements, pins, non-vacuity, assumptions only. *)
From Coq Require Import List Arith Bool.
From RV Require Import Loop.World Loop.Checks Loop.WorldProofs Loop.PickProofs Loop.C04Proofs Loop.TraceOracleProofs.
Import ListNotations.

(* For every world of scripted actors (arbitrary callback bodies and results: Ok / Err / panic,
   gates = await points, sends, stops, kills, drains), every spawn-link layout (including
   self-links and cycles) and EVERY schedule (any list of driver operations, aborts at any await
   point, and polls of any actor with any fuel), every supervision event that any actor starts
   to handle is accepted by the oracle: it is about an actor spawn-linked to the handler;
   ActorStarted comes only after post_start returned Ok and before anything else about that
   child; at most one terminal event per child; the terminal event is classified as the child's
   own callbacks and the requests made of it dictate.  [map c_local cfgs] tells the oracle which
   actors are thread-local: their graceful ActorTerminated must NOT carry a state, that of a Send
   actor must. *)
Theorem C04_oracle_sound : forall cfgs msgs ls,
  check_C04 (map c_link cfgs) (map c_local cfgs) (trace_of (run (init cfgs msgs) ls)) = true.
Proof. exact C04_oracle_sound_proof. Qed.

(* the same for the driver programs the E1 engine executes (settle = rounds of polls) *)
Theorem C04_driver_programs : forall cfgs msgs rounds fuel order ops,
  check_C04 (map c_link cfgs) (map c_local cfgs) (trace_of (run_dops rounds fuel order (init cfgs msgs) ops)) = true.
Proof. exact C04_oracle_sound_dops. Qed.

(* ---- the consequences, one by one ---- *)

(* exactly-once, upper half: over the whole run, supervisor s starts to handle at most one
   terminal event (ActorTerminated / ActorFailed) about child c *)
Theorem C04_terminal_at_most_once : forall cfgs msgs ls s c,
  count_sup s (fun y => is_terminal y && Nat.eqb (about y) c)
            (trace_of (run (init cfgs msgs) ls)) <= 1.
Proof. exact terminal_at_most_once. Qed.

(* ActorStarted about c is handled at most once by s; when it is, post_start of c had returned Ok
   and s had handled nothing about c before (so it precedes the terminal event) *)
Theorem C04_started_once_before_terminal : forall cfgs msgs ls s c,
  count_sup s (fun y => negb (is_terminal y) && Nat.eqb (about y) c)
            (trace_of (run (init cfgs msgs) ls)) <= 1
  /\ forall t1 t2, trace_of (run (init cfgs msgs) ls) = t1 ++ TEnter s (Sup (SStarted c)) :: t2 ->
       post_start_ok c t1 = true /\ count_sup s (fun y => Nat.eqb (about y) c) t1 = 0.
Proof.
  intros. split; [apply started_at_most_once|].
  intros t1 t2 E. exact (started_first cfgs msgs ls t1 s c t2 E).
Qed.

(* no actor handles a lifecycle event of an actor that was not spawn-linked to it *)
Theorem C04_no_stranger_events : forall cfgs msgs ls t1 s x t2,
  trace_of (run (init cfgs msgs) ls) = t1 ++ TEnter s (Sup x) :: t2 ->
  nth (about x) (map c_link cfgs) None = Some s.
Proof. intros cfgs msgs ls t1 s x t2 E. exact (no_stranger_events cfgs msgs ls t1 s x t2 E). Qed.

(* classification of the terminal event, against the child's own callback events and the
   requests logged before:
   - ActorFailed txt: the child's last callback ended with Err txt / panic txt;
   - ActorTerminated with state and reason r: the child is a Send actor, post_stop returned Ok, and
     stop(r) was called on the child, or r = "Drained" and a drain was requested;
   - ActorTerminated without state: either no callback failed and post_stop did not complete, and
     reason "killed" and kill() was called on the child, or reason "actor_task_cancelled" and its
     task was aborted; or the child is thread-local and exited gracefully exactly as above. *)
Theorem C04_classification : forall cfgs msgs ls t1 s t2,
  (forall c txt, trace_of (run (init cfgs msgs) ls) = t1 ++ TEnter s (Sup (SFailed c txt)) :: t2 ->
     ending_of c t1 EndNone = EndFailed txt)
  /\ (forall c r, trace_of (run (init cfgs msgs) ls) = t1 ++ TEnter s (Sup (STerminated c true r)) :: t2 ->
     nth c (map c_local cfgs) false = false /\
     ending_of c t1 EndNone = EndGraceful /\
     (has_ev (ev_stop c r) t1 = true \/ (r = Some R_DRAINED /\ has_ev (ev_drain c) t1 = true)))
  /\ (forall c r, trace_of (run (init cfgs msgs) ls) = t1 ++ TEnter s (Sup (STerminated c false r)) :: t2 ->
     (ending_of c t1 EndNone = EndNone /\
      ((r = Some R_KILLED /\ has_ev (ev_kill c) t1 = true) \/
       (r = Some R_CANCELLED /\ has_ev (ev_abort c) t1 = true)))
     \/ (nth c (map c_local cfgs) false = true /\ ending_of c t1 EndNone = EndGraceful /\
         (has_ev (ev_stop c r) t1 = true \/ (r = Some R_DRAINED /\ has_ev (ev_drain c) t1 = true)))).
Proof.
  intros cfgs msgs ls t1 s t2. split; [|split].
  - intros c txt E. exact (classification_failed cfgs msgs ls t1 s c txt t2 E).
  - intros c r E. exact (classification_with_state cfgs msgs ls t1 s c r t2 E).
  - intros c r E. exact (classification_without_state cfgs msgs ls t1 s c r t2 E).
Qed.

(* a pre_start failure / cancelled start: start() returning Err appends nothing to anybody's
   supervision queue, and no terminal event about such an actor is ever handled *)
Theorem C04_prestart_failure_silent :
  (forall w i s, supq_of (start_failed w i) s = supq_of w s)
  /\ (forall cfgs msgs ls t1 s x t2,
        trace_of (run (init cfgs msgs) ls) = t1 ++ TEnter s (Sup x) :: t2 -> is_terminal x = true ->
        ending_of (about x) t1 EndNone <> EndStartFailed).
Proof.
  split; [exact start_failed_silent|].
  intros cfgs msgs ls t1 s x t2 E. exact (start_failure_no_terminal cfgs msgs ls t1 s x t2 E).
Qed.

(* containment: whatever actor k does or suffers in one step (callback, Err, panic, kill, abort,
   its exit cleanup with the kill of its subtree and the report to its supervisor) every other
   actor stays at the same point of its own life cycle; requests (send/stop/kill/drain) and gate
   openings move nobody's program counter.  Other actors are only reached through their ports
   (signal, stop, supervision queue, mailbox) and the tree fields. *)
Theorem C04_containment : forall w l j,
  subject l <> Some j -> option_map a_pc (get (step w l) j) = option_map a_pc (get w j).
Proof. exact containment. Qed.

(* a terminal event already sent is handled before any later user message: under every schedule,
   whenever supervisor s starts a MESSAGE handler, every child spawn-linked to s whose post_start
   was entered and whose callbacks are over (post_stop returned, a callback failed, or a callback
   was cancelled by kill / abort) has had its terminal event handled by s *)
Theorem C04_terminal_first_sound : forall cfgs msgs ls,
  check_C04_terminal_first (map c_link cfgs) (trace_of (run (init cfgs msgs) ls)) = true.
Proof. exact terminal_first_sound. Qed.

Theorem C04_terminal_first_driver_programs : forall cfgs msgs rounds fuel order ops,
  check_C04_terminal_first (map c_link cfgs)
    (trace_of (run_dops rounds fuel order (init cfgs msgs) ops)) = true.
Proof. exact terminal_first_sound_dops. Qed.

(* ActorStarted is delivered before the terminal event: under every schedule, whenever supervisor s starts
   to handle a terminal event (ActorTerminated / ActorFailed) about a child c spawn-linked to it whose
   post_start had returned Ok, s has already started to handle ActorStarted(c).  (The supervision queue is
   FIFO and ActorStarted is pushed in the step that logs post_start's Ok; an ActorStarted that is dequeued and
   loses the race against a kill leaves a supervisor that never handles anything again.) *)
Theorem C04_started_first_sound : forall cfgs msgs ls,
  check_C04_started_first (map c_link cfgs) (trace_of (run (init cfgs msgs) ls)) = true.
Proof. exact started_first_sound. Qed.

Theorem C04_started_first_driver_programs : forall cfgs msgs rounds fuel order ops,
  check_C04_started_first (map c_link cfgs)
    (trace_of (run_dops rounds fuel order (init cfgs msgs) ops)) = true.
Proof. exact started_first_sound_dops. Qed.

(* a failing callback never escapes the actor: in EVERY reachable world (settled or not) an actor
   one of whose callbacks after pre_start returned Err or panicked has a join handle that completed
   normally (the TJoin is logged in the very step of the failure) *)
Theorem C04_join_sound : forall cfgs msgs ls n,
  check_C04_join n (trace_of (run (init cfgs msgs) ls)) = true.
Proof. exact join_sound. Qed.

Theorem C04_join_driver_programs : forall cfgs msgs rounds fuel order ops n,
  check_C04_join n (trace_of (run_dops rounds fuel order (init cfgs msgs) ops)) = true.
Proof. exact join_sound_dops. Qed.

(* the "at least once" half, for SETTLED worlds (no actor waiting between handlers has a pending
   signal or supervision event; implied by: polling any actor changes nothing): a child that was
   started and has ended (join handle completed or task aborted) has had a terminal event handled
   by its supervisor, provided the supervisor is alive and idle at the end of the trace *)
Theorem C04_complete_sound_settled : forall cfgs msgs ls,
  settled (run (init cfgs msgs) ls) ->
  check_C04_complete (map c_link cfgs) (trace_of (run (init cfgs msgs) ls)) = true.
Proof. exact complete_sound. Qed.

Theorem C04_complete_sound_quiescent : forall cfgs msgs ls,
  (forall i fuel, poll fuel (run (init cfgs msgs) ls) i = run (init cfgs msgs) ls) ->
  check_C04_complete (map c_link cfgs) (trace_of (run (init cfgs msgs) ls)) = true.
Proof. exact complete_sound_quiescent. Qed.

(* without "settled" the statement is false of the model (the event is still queued): the oracle
   must only be applied to traces that end in a settle *)
Definition cr_cfgs : list cfg :=
  [mkCfg ([], ROk) ([], ROk) ([], ROk) (SupScript ([], ROk)) None false;
   mkCfg ([], ROk) ([], ROk) ([], ROk) SupDefault (Some 0) false].
Definition cr_ls : list label :=
  [LSpawn 0; LPoll 0 20; LPoll 0 20; LSpawn 1; LPoll 1 20; LPoll 1 20; LPoll 0 20; LKill 1; LPoll 1 20].
Example C04_complete_unsettled_refuted :
  check_C04_complete (map c_link cr_cfgs) (trace_of (run (init cr_cfgs []) cr_ls)) = false
  /\ check_C04_complete (map c_link cr_cfgs) (trace_of (run (init cr_cfgs []) (cr_ls ++ [LPoll 0 20]))) = true.
Proof. vm_compute. split; reflexivity. Qed.

(* likewise for a callback after pre_start that was cancelled (kill while parked, or abort): in
   EVERY reachable world the task has ended (TJoin logged in the very step of the cancellation, or
   TAborted logged just before it) *)
Theorem C04_join_cancel_sound : forall cfgs msgs ls n,
  check_C04_join_cancel n (trace_of (run (init cfgs msgs) ls)) = true.
Proof. exact join_cancel_sound. Qed.

Theorem C04_join_cancel_driver_programs : forall cfgs msgs rounds fuel order ops n,
  check_C04_join_cancel n (trace_of (run_dops rounds fuel order (init cfgs msgs) ops)) = true.
Proof. exact join_cancel_sound_dops. Qed.

Check (C04_join_cancel_sound : forall cfgs msgs ls n,
  check_C04_join_cancel n (trace_of (run (init cfgs msgs) ls)) = true).

Check (C04_terminal_first_sound : forall cfgs msgs ls,
  check_C04_terminal_first (map c_link cfgs) (trace_of (run (init cfgs msgs) ls)) = true).
Check (C04_started_first_sound : forall cfgs msgs ls,
  check_C04_started_first (map c_link cfgs) (trace_of (run (init cfgs msgs) ls)) = true).
Check (C04_join_sound : forall cfgs msgs ls n,
  check_C04_join n (trace_of (run (init cfgs msgs) ls)) = true).
Check (C04_complete_sound_settled : forall cfgs msgs ls,
  settled (run (init cfgs msgs) ls) ->
  check_C04_complete (map c_link cfgs) (trace_of (run (init cfgs msgs) ls)) = true).

Check (C04_oracle_sound : forall cfgs msgs ls,
  check_C04 (map c_link cfgs) (map c_local cfgs) (trace_of (run (init cfgs msgs) ls)) = true).
Check (C04_terminal_at_most_once : forall cfgs msgs ls s c,
  count_sup s (fun y => is_terminal y && Nat.eqb (about y) c)
            (trace_of (run (init cfgs msgs) ls)) <= 1).
Check (C04_containment : forall w l j,
  subject l <> Some j -> option_map a_pc (get (step w l) j) = option_map a_pc (get w j)).

(* ---- the oracle is not vacuous: it rejects the forbidden shapes ---- *)
Example accept_killed_child :
  check_C04 [None; Some 0] [] [TKillReq 1; TEnter 0 (Sup (STerminated 1 false (Some 0)))] = true.
Proof. reflexivity. Qed.
Example reject_duplicated_terminal :
  check_C04 [None; Some 0] [] [TKillReq 1; TEnter 0 (Sup (STerminated 1 false (Some 0)));
                            TEnter 0 (Sup (STerminated 1 false (Some 0)))] = false.
Proof. reflexivity. Qed.
Example reject_started_after_terminal :
  check_C04 [None; Some 0] [] [TExit 1 PostStart ROk; TKillReq 1;
                            TEnter 0 (Sup (STerminated 1 false (Some 0))); TEnter 0 (Sup (SStarted 1))] = false.
Proof. reflexivity. Qed.
Example reject_started_without_post_start :
  check_C04 [None; Some 0] [] [TEnter 0 (Sup (SStarted 1))] = false.
Proof. reflexivity. Qed.
Example reject_killed_with_state :
  check_C04 [None; Some 0] [] [TKillReq 1; TEnter 0 (Sup (STerminated 1 true (Some 0)))] = false.
Proof. reflexivity. Qed.
Example reject_stranger :
  check_C04 [None; None] [] [TKillReq 1; TEnter 0 (Sup (STerminated 1 false (Some 0)))] = false.
Proof. reflexivity. Qed.
Example reject_wrong_failure_text :
  check_C04 [None; Some 0] [] [TExit 1 (Handle 7) (RPanic 5); TEnter 0 (Sup (SFailed 1 6))] = false.
Proof. reflexivity. Qed.

(* ---- thread-local children: the state slot of ActorTerminated is empty by construction (the
   state is not Send); the oracle lets in exactly that for them and nothing else ---- *)
Definition tl_graceful (x : supevt) : list tev :=
  [TEnter 1 PreStart; TExit 1 PreStart ROk; TEnter 1 PostStart; TExit 1 PostStart ROk; TStopReq 1 (Some 10);
   TEnter 1 PostStop; TExit 1 PostStop ROk; TEnter 0 (Sup x)].
Example local_graceful_without_state :
  check_C04 [None; Some 0] [false; true] (tl_graceful (STerminated 1 false (Some 10))) = true
  /\ check_C04 [None; Some 0] [false; false] (tl_graceful (STerminated 1 false (Some 10))) = false.
Proof. split; reflexivity. Qed.
Example local_rejects_state :
  check_C04 [None; Some 0] [false; true] (tl_graceful (STerminated 1 true (Some 10))) = false
  /\ check_C04 [None; Some 0] [false; false] (tl_graceful (STerminated 1 true (Some 10))) = true.
Proof. split; reflexivity. Qed.
Example local_rejects_unbacked_reason :
  check_C04 [None; Some 0] [false; true] (tl_graceful (STerminated 1 false (Some 11))) = false
  /\ check_C04 [None; Some 0] [false; true] (tl_graceful (STerminated 1 false (Some 0))) = false.
Proof. split; reflexivity. Qed.
Example local_rejects_stranger_and_duplicate :
  check_C04 [None; None] [false; true] (tl_graceful (STerminated 1 false (Some 10))) = false
  /\ check_C04 [None; Some 0] [false; true] (tl_graceful (STerminated 1 false (Some 10))
                                             ++ [TEnter 0 (Sup (STerminated 1 false (Some 10)))]) = false.
Proof. split; reflexivity. Qed.
Example local_same_as_send_otherwise :
  check_C04 [None; Some 0] [false; true] [TKillReq 1; TEnter 0 (Sup (STerminated 1 false (Some 0)))] = true
  /\ check_C04 [None; Some 0] [false; true] [TEnter 0 (Sup (SStarted 1))] = false
  /\ check_C04 [None; Some 0] [false; true] [TExit 1 (Handle 7) (RPanic 5); TEnter 0 (Sup (SFailed 1 6))] = false
  /\ check_C04 [None; Some 0] [false; true] [TEnter 0 (Sup (STerminated 1 false (Some 0)))] = false.
Proof. repeat split; reflexivity. Qed.

(* ---- and the model really runs: one supervisor, every kind of exit ---- *)
Definition nv_child (pre : fin) := mkCfg ([], pre) ([], ROk) ([], ROk) SupDefault (Some 0) false.
Definition nv_cfgs : list cfg :=
  [mkCfg ([], ROk) ([], ROk) ([], ROk) (SupScript ([], ROk)) None false;
   nv_child ROk; nv_child ROk; nv_child ROk; nv_child ROk;
   mkCfg ([], ROk) ([EGate 9], ROk) ([], ROk) SupDefault (Some 0) false;
   nv_child (RErr 3)].
Definition nv_ops : list dop :=
  [DL (LSpawn 0); DSettle; DL (LSpawn 1); DL (LSpawn 2); DL (LSpawn 3); DL (LSpawn 4);
   DL (LSpawn 5); DL (LSpawn 6); DSettle;
   DL (LKill 1); DL (LStop 2 (Some 10)); DL (LDrain 3); DL (LSend 4 7); DL (LAbort 5); DSettle].
(* child 1 killed, 2 stopped with a reason, 3 drained, 4 panics in a handler, 5 aborted inside
   post_start (no ActorStarted), 6 fails in pre_start (nothing at all) *)
Example nv_events :
  hl 0 (trace_of (run_dops 6 20 [0;1;2;3;4;5;6] (init nv_cfgs [(7, ([], RPanic 5))]) nv_ops)) =
  [SStarted 1; SStarted 2; SStarted 3; SStarted 4;
   STerminated 5 false (Some 2); STerminated 1 false (Some 0);
   STerminated 2 true (Some 10); STerminated 3 true (Some 1); SFailed 4 5].
Proof. vm_compute. reflexivity. Qed.

(* a stop that carries the reason "Drained" itself is a legitimate cause of that reason *)
Definition sd_cfgs : list cfg :=
  [mkCfg ([], ROk) ([], ROk) ([], ROk) (SupScript ([], ROk)) None false;
   mkCfg ([], ROk) ([], ROk) ([], ROk) SupDefault (Some 0) false].
Definition sd_ops : list dop :=
  [DL (LSpawn 0); DSettle; DL (LSpawn 1); DSettle; DL (LStop 1 (Some 1)); DSettle].
Example stop_with_reason_drained :
  hl 0 (trace_of (run_dops 6 20 [0; 1] (init sd_cfgs []) sd_ops)) = [SStarted 1; STerminated 1 true (Some 1)]
  /\ check_C04 (map c_link sd_cfgs) (map c_local sd_cfgs) (trace_of (run_dops 6 20 [0; 1] (init sd_cfgs []) sd_ops)) = true.
Proof. vm_compute. split; reflexivity. Qed.

(* the same supervisor with thread-local children: the link exists BEFORE pre_start (child 2, parked in
   pre_start when the supervisor is killed, is killed with it and reports nothing: start() failed);
   the graceful exit of child 1 is reported without state *)
Definition tlw_cfgs : list cfg :=
  [mkCfg ([], ROk) ([], ROk) ([], ROk) (SupScript ([], ROk)) None true;
   mkCfg ([], ROk) ([], ROk) ([], ROk) SupDefault (Some 0) true;
   mkCfg ([EGate 5], ROk) ([], ROk) ([], ROk) SupDefault (Some 0) true].
Definition tlw_ops : list dop :=
  [DL (LSpawn 0); DSettle; DL (LSpawn 1); DL (LSpawn 2); DSettle; DL (LStop 1 (Some 10)); DSettle;
   DL (LKill 0); DSettle].
Example local_world :
  let t := trace_of (run_dops 6 20 [0; 1; 2] (init tlw_cfgs []) tlw_ops) in
  hl 0 t = [SStarted 1; STerminated 1 false (Some 10)]
  /\ filter (fun e => match e with TCancel 2 _ | TSpawnRet 2 _ | TJoin 0 => true | _ => false end) t
     = [TJoin 0; TCancel 2 PreStart; TSpawnRet 2 false]
  /\ check_C04 (map c_link tlw_cfgs) (map c_local tlw_cfgs) t = true.
Proof. vm_compute. repeat split; reflexivity. Qed.

(* the started-first oracle is not vacuous *)
Example reject_terminal_before_started :
  check_C04_started_first [None; Some 0]
    [TExit 1 PostStart ROk; TKillReq 1; TEnter 0 (Sup (STerminated 1 false (Some 0)))] = false
  /\ check_C04_started_first [None; Some 0]
    [TExit 1 PostStart ROk; TEnter 0 (Sup (SStarted 1)); TKillReq 1; TEnter 0 (Sup (STerminated 1 false (Some 0)))] = true.
Proof. split; reflexivity. Qed.

Print Assumptions C04_oracle_sound.
Print Assumptions C04_driver_programs.
Print Assumptions C04_terminal_at_most_once.
Print Assumptions C04_started_once_before_terminal.
Print Assumptions C04_no_stranger_events.
Print Assumptions C04_classification.
Print Assumptions C04_prestart_failure_silent.
Print Assumptions C04_containment.
Print Assumptions C04_terminal_first_sound.
Print Assumptions C04_terminal_first_driver_programs.
Print Assumptions C04_started_first_sound.
Print Assumptions C04_started_first_driver_programs.
Print Assumptions C04_join_sound.
Print Assumptions C04_join_driver_programs.
Print Assumptions C04_complete_sound_settled.
Print Assumptions C04_complete_sound_quiescent.
Print Assumptions C04_join_cancel_sound.
Print Assumptions C04_join_cancel_driver_programs.
