(* C06 — Shutdown waits are accurate and never miss the wake-up.
   Only statements (pinned with their literal text), non-vacuity examples and
   Print Assumptions. Model: WaitNotify/Model.v; proofs: WaitNotify/Proofs.v.

   Reading guide.  `run ls init` is the state after the interleaving `ls` (a list of
   atomic steps of actor-side threads `LA i`, waiter steps `LW w`, timeout firings `LT w`,
   drain's status write, gate openings).  `mk_init s0 ws progs` has any number of waiters
   `ws` (each `W0` = about to call wait(), or `WJoin` = awaiting the join handle) and any
   number of actor-side threads running arbitrary instruction lists `progs`;
   `scenario_init s0 ws c sup` is the real configuration: one actor task running
   `exit_prog c sup`, the exit path of the code for exit cause `c`. *)
From Coq Require Import List NArith Bool.
From RV Require Import WaitNotify.Model WaitNotify.Proofs.
Import ListNotations.
Local Open Scope N_scope.

(* (1a) a wait() that has returned has seen the final status — any number of waiters and of
   concurrent set_status callers, arbitrary programs, every interleaving *)
Theorem C06_no_early_return_status : forall s0 ws progs ls w,
  init_ok s0 ws ->
  nth_error (wpcs (run ls (mk_init s0 ws progs))) w = Some WDone ->
  status (run ls (mk_init s0 ws progs)) = Stopped.
Proof. exact done_stopped. Qed.

(* (1b) hence, by the order of the exit path: at the return of any wait-family call or of
   the join handle the actor has fully stopped (status Stopped; name, pid and group
   entries removed; post_stop not running and, when the cause runs it, left; children
   signalled; supervisor event enqueued when there is a supervisor) — every exit cause *)
Theorem C06_no_early_return : forall s0 ws c sup ks r ls w,
  init_ok s0 ws ->
  let s := run ls (scenario_init_k s0 ws c sup ks r) in
  (nth_error (wpcs s) w = Some WDone \/ nth_error (wpcs s) w = Some WJDone) ->
  fully_stopped (want_ps_of c) (want_sup_of c sup) (snapshot s) = true.
Proof. exact early_return_full. Qed.

(* (`r` = the actor has a remote ActorId: it never has a name or pid entry; its group memberships
   are dropped by the same cleanup block)
   (1c) children: `ks` are the statuses of the children linked to the actor when it exits
   (Running, Draining — drain requested, still busy —, Stopping, ...).  Once terminate() has
   run, in particular whenever a wait has returned, every one of them has been sent the kill
   signal unless it was already Stopping/Stopped: a Draining child IS signalled.  Holds for
   any number of threads and programs; `fully_stopped` above includes it (sn_children). *)
Theorem C06_children_signalled : forall s0 ws progs ks r ls,
  let s := run ls (mk_init_k s0 ws progs ks r) in
  0 < n_term (gh s) -> forallb kid_ok (kids (gh s)) = true.
Proof. intros s0 ws progs ks r ls s. apply (kids_inv_run ls _ (kids_inv_init s0 ws progs ks r)). Qed.

(* (2) no lost wake-up: once the exit has completed, a waiter that cannot move has
   returned (or reported its timeout) — for any number of waiters and every interleaving
   of their micro-steps with the status store, notify_waiters and notify_one *)
Theorem C06_no_lost_wakeup : forall s0 ws progs ls w p,
  init_ok s0 ws ->
  let s := run ls (mk_init s0 ws progs) in
  threads_done s = true -> status s = Stopped ->
  nth_error (wpcs s) w = Some p -> can_move s p = false -> terminal p = true.
Proof.
  intros s0 ws progs ls w p H s D St E M.
  eapply no_lost_wakeup_inv; eauto. apply reach_inv; auto.
Qed.

(* `can_move` is not an arbitrary predicate: false = the waiter's step is a no-op,
   true = the step changes the waiter's program counter *)
Theorem C06_can_move_exact : forall s w p,
  nth_error (wpcs s) w = Some p ->
  (can_move s p = false -> wstep s w = s) /\
  (can_move s p = true -> nth_error (wpcs (wstep s w)) w <> Some p).
Proof. intros s w p E. split; [apply can_move_spec | apply can_move_progress]; auto. Qed.

(* a waiter reports a timeout only if its timeout fired *)
Theorem C06_timeout_only_if_fired : forall s0 ws progs ls w,
  init_ok s0 ws ->
  nth_error (wpcs (run ls (mk_init s0 ws progs))) w = Some WTimedOut -> In (LT w) ls.
Proof.
  intros s0 ws progs ls w [_ H] E.
  destruct (timedout_needs_label ls _ w E) as [X|X]; auto.
  exfalso. unfold mk_init in X. simpl in X.
  rewrite Forall_forall in H. apply nth_error_In in X. specialize (H _ X). discriminate.
Qed.

(* (3) a timeout reports the timeout and has no effect on the actor *)
Theorem C06_timeout_inert : forall s w,
  status (tstep s w) = status s /\ athreads (tstep s w) = athreads s /\ gh (tstep s w) = gh s
  /\ calls (tstep s w) = calls s /\ gates (tstep s w) = gates s.
Proof. exact timeout_inert. Qed.

Theorem C06_timeout_reports : forall s w seen fl,
  nth_error (wpcs s) w = Some (WWait seen fl) -> nth_error (wpcs (tstep s w)) w = Some WTimedOut.
Proof. exact timeout_reports. Qed.

(* (4) the observed status never moves backwards *)
Theorem C06_status_monotone : forall s l1 l2,
  rank (status (run l1 s)) <= rank (status (run (l1 ++ l2) s)).
Proof. intros s l1 l2. rewrite run_app. apply run_status_mono. Qed.

(* (5) the registry/pg cleanup block runs exactly once, for any number of concurrent
   set_status(>= Stopping) callers: never before the status reaches Stopping, at most
   once ever, and exactly once when all callers have finished *)
Theorem C06_cleanup_once : forall s0 ws progs ls,
  init_ok s0 ws ->
  let s := run ls (mk_init s0 ws progs) in
  cleanups (gh s) <= 1 /\
  (rank (status s) < 5 -> cleanups (gh s) = 0) /\
  (threads_done s = true -> 5 <= rank (status s) -> cleanups (gh s) = 1).
Proof.
  intros s0 ws progs ls H s. pose proof (reach_inv s0 ws progs ls H) as I. fold s in I.
  split; [apply cleanup_at_most_once; auto|].
  split; [apply cleanup_not_before; auto|apply cleanup_exactly_once; auto].
Qed.

(* the executable form used on the implementation (number of Leave notifications observed) *)
Theorem C06_cleanup_oracle_sound : forall s0 ws progs ls,
  init_ok s0 ws ->
  let s := run ls (mk_init s0 ws progs) in
  no_thread_in_cleanup s = true -> check_cleanup (cleanups (gh s)) (status s) = true.
Proof. intros s0 ws progs ls H s. apply cleanup_oracle_sound. apply reach_inv; auto. Qed.

(* exactly one broadcast, and only after the Stopped store *)
Theorem C06_one_broadcast : forall s0 ws progs ls,
  init_ok s0 ws ->
  let s := run ls (mk_init s0 ws progs) in
  calls s <= 1 /\ (1 <= calls s -> status s = Stopped).
Proof. intros s0 ws progs ls H s. apply one_broadcast. apply reach_inv; auto. Qed.

(* model sanity: the Notify waiter list is exactly the set of parked, unflagged waiters (so
   notify_waiters — defined as "flag every parked waiter" — and notify_one — defined as "pop
   the head of the list" — are two views of the same list), without duplicates *)
Theorem C06_waiter_list_exact : forall s0 ws progs ls w,
  init_ok s0 ws ->
  let s := run ls (mk_init s0 ws progs) in
  NoDup (queue s) /\
  (In w (queue s) <-> exists seen, nth_error (wpcs s) w = Some (WWait seen None)).
Proof.
  intros s0 ws progs ls w [_ H] s.
  pose proof (InvQ_run ls _ (InvQ_init s0 ws progs H)) as Q. fold s in Q.
  split; [apply (qND _ Q)|apply (qIn _ Q)].
Qed.

(* (6) the executable oracle accepts every run of the model (it cannot raise a false alarm
   on model-conforming behaviour); with the completeness flag when the run is maximal *)
Theorem C06_oracle_sound : forall s0 ws c sup ks r ls,
  init_ok s0 ws ->
  check_C06 (want_ps_of c) (want_sup_of c sup) false (observe ls (scenario_init_k s0 ws c sup ks r)) = true.
Proof. exact oracle_sound. Qed.

Theorem C06_oracle_sound_complete : forall s0 ws c sup ks r ls,
  init_ok s0 ws ->
  let s := run ls (scenario_init_k s0 ws c sup ks r) in
  threads_done s = true -> status s = Stopped ->
  (forall w p, nth_error (wpcs s) w = Some p -> can_move s p = false) ->
  check_C06 (want_ps_of c) (want_sup_of c sup) true (observe ls (scenario_init_k s0 ws c sup ks r)) = true.
Proof. exact oracle_sound_complete. Qed.

(* ---- statement pins ---- *)
Check (C06_no_early_return : forall s0 ws c sup ks r ls w,
  init_ok s0 ws ->
  let s := run ls (scenario_init_k s0 ws c sup ks r) in
  (nth_error (wpcs s) w = Some WDone \/ nth_error (wpcs s) w = Some WJDone) ->
  fully_stopped (want_ps_of c) (want_sup_of c sup) (snapshot s) = true).
Check (C06_no_lost_wakeup : forall s0 ws progs ls w p,
  init_ok s0 ws ->
  let s := run ls (mk_init s0 ws progs) in
  threads_done s = true -> status s = Stopped ->
  nth_error (wpcs s) w = Some p -> can_move s p = false -> terminal p = true).
Check (C06_cleanup_once : forall s0 ws progs ls,
  init_ok s0 ws ->
  let s := run ls (mk_init s0 ws progs) in
  cleanups (gh s) <= 1 /\
  (rank (status s) < 5 -> cleanups (gh s) = 0) /\
  (threads_done s = true -> 5 <= rank (status s) -> cleanups (gh s) = 1)).
Check (C06_status_monotone : forall s l1 l2,
  rank (status (run l1 s)) <= rank (status (run (l1 ++ l2) s))).

(* ---- non-vacuity ---- *)
(* waiters registered before (0), during post_stop (1, and the join handle 3) and after
   (2) the exit, in one schedule: all return, all see the fully stopped state *)
Definition ex_ops : list op :=
  [OpStart 0; OpOpen 0; OpSettle; OpStart 1; OpStart 3; OpSettle; OpOpen 1; OpSettle; OpStart 2; OpSettle].
Example ex_before_during_after :
  map (fun o => (o_w o, o_out o)) (run_scenario Running [W0; W0; W0; WJoin] CStop true [] false ex_ops)
  = [(0, ORet); (1, ORet); (3, OJoin); (2, ORet)]%nat
  /\ check_C06 true true true (run_scenario Running [W0; W0; W0; WJoin] CStop true [] false ex_ops) = true.
Proof. split; vm_compute; reflexivity. Qed.

(* children of every kind: a Draining child is signalled (second component true), a Stopping one
   is left to its own exit; the waiter's snapshot says children = true *)
Example ex_children :
  let s := run (sched [OpStart 0; OpOpen 0; OpOpen 1; OpSettle])
               (scenario_init_k Running [W0] CStop true [Running; Draining; Stopping] false) in
  kids (gh s) = [(Running, true); (Draining, true); (Stopping, false)]
  /\ run_scenario Running [W0] CStop true [Running; Draining; Stopping] false [OpStart 0; OpOpen 0; OpOpen 1; OpSettle]
     = [mkObs 0 ORet (mkSnap Stopped false false false false true true true)].
Proof. split; vm_compute; reflexivity. Qed.

(* while post_stop is parked the waiters are really parked (the hypotheses of
   no_lost_wakeup are not yet met), and the status they would see is Stopping *)
Example ex_parked_during :
  let s := run (sched [OpStart 0; OpOpen 0; OpSettle; OpStart 1; OpSettle])
               (scenario_init Running [W0; W0] CStop true) in
  wpcs s = [WWait 0 None; WWait 0 None] /\ status s = Stopping /\ threads_done s = false
  /\ name_reg (gh s) = false /\ ps_in (gh s) = 1 /\ ps_out (gh s) = 0.
Proof. vm_compute. repeat split; reflexivity. Qed.

(* the window the tests never produce: the waiter has created its Notified and read the
   status (W2), the whole exit (Stopped store, notify_waiters, notify_one) runs, then the
   waiter polls: it returns because the call counter moved *)
Example ex_between_check_and_register :
  let ls := [LW 0; LW 0] ++ [LOpen 0; LOpen 1] ++ repeat_l [LA 0] 40 ++ [LW 0]%nat in
  let s := run ls (scenario_init Running [W0] CStop false) in
  nth_error (wpcs (run [LW 0; LW 0]%nat (scenario_init Running [W0] CStop false))) 0 = Some (W2 0)
  /\ wpcs s = [WDone] /\ threads_done s = true /\ permit s = true /\ calls s = 1.
Proof. vm_compute. repeat split; reflexivity. Qed.

(* a waiter polled from inside its waker, i.e. in the middle of notify_waiters() on the exit
   thread (before notify_one): it already sees the fully stopped state *)
Example ex_eager :
  run_scenario Running [W0] CStop true [] false [OpStartEager 0; OpOpen 0; OpOpen 1; OpSettle]
  = [mkObs 0 ORet (mkSnap Stopped false false false false true true true)]
  /\ (let s := run ([LW 0; LW 0; LW 0; LW 0; LOpen 0; LOpen 1] ++ repeat_l [LA 0] 14 ++ [LW 0])%nat
                   (scenario_init Running [W0] CStop true) in
      wpcs s = [WDone] /\ permit s = false /\ threads_done s = false).
Proof. vm_compute. repeat split; reflexivity. Qed.

(* a waiter created after notify_waiters but before it reads the status: returns by the
   status check; a timed-out waiter is reported as such and the actor is untouched *)
Example ex_timeout :
  map (fun o => (o_w o, o_out o))
      (run_scenario Running [W0; W0] CKill false [] false [OpStart 0; OpStart 1; OpSettle; OpTimeout 0; OpSettle; OpOpen 0; OpSettle])
  = [(0, OTimeout); (1, ORet)]%nat.
Proof. vm_compute; reflexivity. Qed.

(* two concurrent set_status(Stopping) callers and one set_status(Stopped): one cleanup *)
Example ex_cleanup_two_callers :
  let s := run [LA 0; LA 1; LA 2; LA 1; LA 0; LA 0; LA 1; LA 0; LA 2; LA 2; LA 2; LA 1; LA 0; LA 2]%nat
               (mk_init Running [] [[ISet Stopping]; [ISet Stopping]; [ISet Stopped]]) in
  threads_done s = true /\ cleanups (gh s) = 1 /\ calls s = 1.
Proof. vm_compute. repeat split; reflexivity. Qed.

(* the oracle does reject: a return observed while the status is still Stopping, and a
   waiter still pending after a complete schedule *)
Example ex_oracle_rejects_early :
  check_C06 true true true
    [mkObs 0 ORet (mkSnap Stopping false false false true false false false)] = false.
Proof. vm_compute; reflexivity. Qed.
Example ex_oracle_rejects_lost :
  check_C06 true true true
    [mkObs 0 OPending (mkSnap Stopped false false false false true true true)] = false.
Proof. vm_compute; reflexivity. Qed.

Print Assumptions C06_no_early_return_status.
Print Assumptions C06_no_early_return.
Print Assumptions C06_children_signalled.
Print Assumptions C06_no_lost_wakeup.
Print Assumptions C06_can_move_exact.
Print Assumptions C06_timeout_only_if_fired.
Print Assumptions C06_timeout_inert.
Print Assumptions C06_timeout_reports.
Print Assumptions C06_status_monotone.
Print Assumptions C06_cleanup_once.
Print Assumptions C06_cleanup_oracle_sound.
Print Assumptions C06_one_broadcast.
Print Assumptions C06_waiter_list_exact.
Print Assumptions C06_oracle_sound.
Print Assumptions C06_oracle_sound_complete.
