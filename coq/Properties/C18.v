(* C18 — Cluster: duplicate connections converge on one and the same link.
   Only statements (pinned with their literal text), non-vacuity examples and
   Print Assumptions. Proofs: Cluster/ElectProofs.v; model: Cluster/Elect.v. *)
From Coq Require Import List NArith Bool Permutation.
From RV Require Import Cluster.Elect Cluster.ElectProofs.
Import ListNotations.
Local Open Scope N_scope.

(* (1) the choice does not depend on the order in which candidates are examined *)
Theorem C18_perm_invariant : forall this peer cs cs',
  Permutation cs cs' -> Permutation (elect this peer cs) (elect this peer cs').
Proof. exact elect_perm. Qed.

(* (2) pairwise-distinct non-zero nonces: both endpoints keep the same single
   physical connection, for every multiset of connections and every pair of names
   (including equal names: the nonce alone decides) *)
Theorem C18_mirror_agree : forall na nb cs,
  cs <> [] -> nonces_ok cs ->
  exists c, In c cs
    /\ elect na nb (map view_a cs) = [id_a c]
    /\ elect nb na (map view_b cs) = [id_b c].
Proof. exact mirror_agree. Qed.

(* (3) arbitrary nonces (legacy zero, repeated), distinct names: the accepting
   endpoint keeps exactly one connection and the initiating endpoint still holds it *)
Theorem C18_tie_resolution : forall na nb cs,
  na <> nb -> cs <> [] -> ids_ok cs ->
  exists c, In c cs /\
    ((elect na nb (map view_a cs) = [id_a c] /\ In (id_b c) (elect nb na (map view_b cs)))
     \/ (elect nb na (map view_b cs) = [id_b c] /\ In (id_a c) (elect na nb (map view_a cs)))).
Proof. exact tie_resolution. Qed.

(* (4) a connection that has not authenticated can neither displace nor veto *)
Theorem C18_unauth_powerless : forall t t' id,
  ids_unique t -> ids_unique t' ->
  auth_part t = auth_part t' -> is_elected t id = is_elected t' id.
Proof. exact unauth_powerless. Qed.

Theorem C18_commit_unauth_powerless : forall t id,
  snd (commit_authenticated t id) = snd (commit_authenticated (commit_part t id) id).
Proof. exact commit_unauth_powerless. Qed.

Theorem C18_check_candidate_unauth_powerless : forall t id,
  check_candidate t id = check_candidate (commit_part t id) id.
Proof. exact check_candidate_unauth_powerless. Qed.

(* (5) an accepted session that is elected is the only elected session of its peer:
   at most one ready event per peer at the accepting endpoint (the initiating
   endpoint's duplicates are closed by the acceptor, theorem (3)) *)
Theorem C18_one_ready_per_peer : forall t id id' s s' peer,
  ids_unique t -> t_this t <> peer ->
  find_sess t id = Some s -> find_sess t id' = Some s' ->
  s_peer s = Some peer -> s_peer s' = Some peer ->
  s_srv s = true ->
  is_elected t id = true -> is_elected t id' = true -> id = id'.
Proof. exact one_elected_acceptor. Qed.

(* the executable oracle applied to implementation outputs is a consequence of (3) *)
Theorem C18_oracle_sound : forall na nb cs,
  na <> nb -> ids_ok cs ->
  check_C18_mirror (elect na nb (map view_a cs)) (elect nb na (map view_b cs)) cs = true.
Proof. exact check_C18_mirror_model. Qed.

(* ---- statement pins: a silently weakened lemma no longer type-checks ---- *)
Check (C18_perm_invariant : forall this peer cs cs',
  Permutation cs cs' -> Permutation (elect this peer cs) (elect this peer cs')).
Check (C18_mirror_agree : forall na nb cs, cs <> [] -> nonces_ok cs ->
  exists c, In c cs /\ elect na nb (map view_a cs) = [id_a c]
                    /\ elect nb na (map view_b cs) = [id_b c]).

(* ---- non-vacuity: the hypotheses are met by non-trivial inputs ---- *)
Definition ex_conns : list conn :=
  [mkConn true 19 1 4; mkConn false 7 2 3; mkConn true 5 8 9; mkConn false 0 6 10].
Example ex_ids_ok : ids_ok ex_conns.
Proof. split; simpl; repeat constructor; simpl; intuition discriminate. Qed.
Example ex_elect_a : elect 1 2 (map view_a ex_conns) = [2] /\ elect 2 1 (map view_b ex_conns) = [3].
Proof. split; vm_compute; reflexivity. Qed.
Example ex_nonces_ok : nonces_ok (firstn 3 ex_conns).
Proof. split; simpl; [intuition (subst; discriminate)|repeat constructor; simpl; intuition discriminate]. Qed.
Example ex_tie_outgoing : elect 1 2 [mkCand 21 false (Some 41); mkCand 22 false (Some 41)] = [21; 22].
Proof. vm_compute; reflexivity. Qed.
Example ex_table :
  table_run 2 [TOpen 1 true; TOpen 2 true; TRegister 1 1 0; TRegister 2 1 23;
               TCommit 1; TCommit 2; TIsElected 1; TIsElected 2]
  = [OUnit; OUnit; OUnit; OUnit; OCommit (Some (true, [])); OCommit (Some (true, [1]));
     OBool false; OBool true].
Proof. vm_compute; reflexivity. Qed.

Print Assumptions C18_perm_invariant.
Print Assumptions C18_mirror_agree.
Print Assumptions C18_tie_resolution.
Print Assumptions C18_unauth_powerless.
Print Assumptions C18_commit_unauth_powerless.
Print Assumptions C18_check_candidate_unauth_powerless.
Print Assumptions C18_one_ready_per_peer.
Print Assumptions C18_oracle_sound.
