(* C19 — Wire decoding is total, bounded and round-trips.
   Only statements (pinned with their literal text), non-vacuity examples and
   Print Assumptions. Models: Cluster/Codec.v, Cluster/Frame.v; proofs: *Proofs.v. *)
From Coq Require Import List NArith ZArith Bool.
From RV Require Import Cluster.Codec Cluster.CodecProofs Cluster.Frame Cluster.FrameProofs.
Import ListNotations.
Local Open Scope N_scope.

(* ===== round trips: encode followed by decode yields the original value ===== *)

(* (1) big-endian integers of any width *)
Theorem C19_int_roundtrip : forall w n, n < pow256 w -> de (be w n) = n.
Proof. exact de_be. Qed.

(* (2) every built-in BytesConvertable type (u8..u128, i8..i128, f32/f64 as bit patterns,
   bool, char, String, (), Vec of each element type): from_bytes (into_bytes v) = v *)
Theorem C19_value_roundtrip : forall t v, wf_val t v = true -> decode t (encode t v) = Some v.
Proof. exact roundtrip. Qed.

(* (3) derive macro argument packing *)
Theorem C19_pack_roundtrip : forall fs, len (pack fs) < U64 -> unpack (length fs) (pack fs) = Some fs.
Proof. exact unpack_pack. Qed.

(* (4) derived enums: any variant table with distinct names, tuple/struct/unit variants alike,
   casts and calls (the reply port is not part of the argument bytes, wherever it stands) *)
Theorem C19_enum_roundtrip : forall tbl i vs v m,
  tags_distinct tbl = true ->
  nth_error tbl (N.to_nat i) = Some v ->
  wf_all (v_tys v) vs = true ->
  len (pack (encode_all (v_tys v) vs)) < U64 ->
  serialize tbl i vs = Some m ->
  deserialize tbl m = Some (i, vs).
Proof. exact enum_roundtrip. Qed.

(* (5) job metadata. The guard [opts_wf] is exact: times below 2^64 ns and ttl <> Some 0. *)
Theorem C19_job_options_roundtrip : forall o, opts_wf o = true -> dec_opts (enc_opts o) = JOpts o.
Proof. exact opts_roundtrip. Qed.

Theorem C19_job_roundtrip : forall kt tbl k o i vs v m,
  opts_wf o = true -> wf_val kt k = true ->
  tags_distinct tbl = true ->
  nth_error tbl (N.to_nat i) = Some v ->
  wf_all (v_tys v) vs = true ->
  len (pack (encode_all (v_tys v) vs)) < U64 ->
  job_serialize kt tbl k o i vs = Some m ->
  job_deserialize kt tbl m = JOk k (JOpts o) i vs.
Proof. exact job_roundtrip. Qed.

(* (5') finding F5: the guard cannot be dropped. A zero time-to-live (a value of the type:
   "expire at once") is encoded like "no ttl" and comes back as None, for every submit time. *)
Theorem C19_job_options_zero_ttl_refuted : forall s,
  dec_opts (enc_opts (mkJo s (Some 0))) = JOpts (mkJo (s mod U64) None).
Proof. exact opts_zero_ttl_refuted. Qed.

(* ===== canonicity (where it holds): framing has no slack ===== *)

Theorem C19_int_canonical : forall l, bytes_ok l -> be (length l) (de l) = l.
Proof. exact be_de. Qed.

(* short or trailing bytes are errors; the accepted byte string is unique *)
Theorem C19_unpack_canonical : forall k args fs,
  bytes_ok args -> unpack k args = Some fs -> pack fs = args /\ length fs = k.
Proof. exact unpack_canonical. Qed.

(* ===== totality / safety of the generated decoders ===== *)

(* every range the generated code reads lies inside the argument bytes *)
Theorem C19_unpack_safe : forall k args p a b,
  In (a, b) (unpack_log k args p) -> a <= b /\ b <= len args.
Proof. exact unpack_safe. Qed.

(* the generated decoder is the framing followed by the user conversions; a conversion
   that panics (decode = None) is an error of the whole message, not a panic *)
Theorem C19_deser_fields_spec : forall tys args,
  deser_fields tys args =
  match unpack (length tys) args with None => None | Some fs => decode_all tys fs end.
Proof. exact deser_fields_spec. Qed.

(* job metadata: fewer than the 16 option bytes is an error; with a key conversion that
   cannot panic no metadata whatsoever makes the job decoder panic *)
Theorem C19_meta_short : forall kt bs, (length bs < 16)%nat -> deser_meta kt (Some bs) = MErr.
Proof. exact deser_meta_short. Qed.

Theorem C19_meta_total : forall kt m,
  (forall bs, decode kt bs <> None) -> deser_meta kt m <> MPanic.
Proof. exact deser_meta_total. Qed.

(* primitive message types (blanket Message impl of every BytesConvertable type) *)
Theorem C19_prim_roundtrip : forall t v, wf_val t v = true ->
  prim_deserialize t (prim_serialize t v) = POk v.
Proof. exact prim_roundtrip. Qed.

(* ===== frames ===== *)

(* decoding is independent of how the byte stream is split into reads:
   same outputs, same final reader state *)
Theorem C19_fragmentation : forall max valid bytes chunks,
  concat chunks = bytes -> feed_all max valid init chunks = feed max valid init bytes.
Proof. exact fragmentation. Qed.

Theorem C19_fragmentation_run : forall max valid c1 c2,
  concat c1 = concat c2 -> run max valid c1 = run max valid c2.
Proof. exact fragmentation_two. Qed.

(* a declared length above the maximum: rejected having consumed exactly the 8 header
   bytes, whatever follows and however it is split ... *)
Theorem C19_frame_bound : forall max valid hdr rest chunks,
  length hdr = 8%nat -> max < de hdr -> concat chunks = hdr ++ rest ->
  feed_all max valid init chunks = (mkR RDead 8, [FErr ETooLarge]).
Proof. exact frame_bound. Qed.

(* ... and at no point of the session was any payload byte buffered *)
Theorem C19_frame_bound_nothing_buffered : forall max valid hdr rest chunks1 chunks2,
  length hdr = 8%nat -> max < de hdr -> concat (chunks1 ++ chunks2) = hdr ++ rest ->
  buffered (fst (feed_all max valid init chunks1)) = 0.
Proof. exact frame_bound_nothing_buffered. Qed.

(* the reader never buffers more than max, nor more than it received, and never takes
   more from the transport than was offered *)
Theorem C19_buffer_bound : forall max valid chunks,
  let r := fst (feed_all max valid init chunks) in
  buffered r <= max /\ buffered r <= len (concat chunks) /\ r_consumed r <= len (concat chunks).
Proof. exact buffer_bound. Qed.

(* no stalling: a reader that has not hit an error has consumed every byte offered *)
Theorem C19_reader_consumes_all : forall max valid chunks,
  r_st (fst (feed_all max valid init chunks)) <> RDead ->
  r_consumed (fst (feed_all max valid init chunks)) = len (concat chunks).
Proof. exact reader_consumes_all. Qed.

(* whatever arrives and however fragmented: the session's outputs are the one-shot parse
   of the stream: the valid frames in order, then at most one error, nothing after it *)
Theorem C19_reader_refines_parse : forall max valid chunks,
  fst (run max valid chunks) = parse max valid (concat chunks).
Proof. exact run_refines_parse. Qed.

(* valid frames are all delivered; a truncated one ends the session with an error *)
Theorem C19_valid_stream : forall max valid ps chunks,
  Forall (frame_ok max valid) ps ->
  concat chunks = concat (map enc_frame ps) ->
  feed_all max valid init chunks = (mkR (RHdr []) (len (concat chunks)), map FMsg ps).
Proof. exact valid_stream_fragmented. Qed.

Theorem C19_truncated_stream : forall max valid ps p k chunks,
  Forall (frame_ok max valid) ps -> frame_ok max valid p ->
  (k < length (enc_frame p))%nat -> (0 < k)%nat ->
  concat chunks = concat (map enc_frame ps) ++ firstn k (enc_frame p) ->
  fst (run max valid chunks) = map FMsg ps ++ [FErr EEof].
Proof. exact truncated_stream. Qed.

(* ===== the executable oracles never reject a run of the model ===== *)

Theorem C19_oracle_sound_stream : forall max valid bytes splits,
  Forall (fun chunks => concat chunks = bytes) splits ->
  check_C19_stream max valid bytes (map (run max valid) splits) = true.
Proof. exact stream_oracle_sound. Qed.

Theorem C19_oracle_sound_roundtrip : forall t v, wf_val t v = true ->
  check_C19_roundtrip v (decode t (encode t v)) = true.
Proof. exact roundtrip_oracle_sound. Qed.

Theorem C19_oracle_sound_enum : forall tbl i vs v m,
  tags_distinct tbl = true -> nth_error tbl (N.to_nat i) = Some v ->
  wf_all (v_tys v) vs = true -> len (pack (encode_all (v_tys v) vs)) < U64 ->
  serialize tbl i vs = Some m ->
  check_C19_enum_roundtrip i vs (deserialize tbl m) = true.
Proof. exact enum_oracle_sound. Qed.

Theorem C19_oracle_sound_options : forall o, opts_wf o = true ->
  check_C19_opts_roundtrip o (dec_opts (enc_opts o)) = true.
Proof. exact opts_oracle_sound. Qed.

(* ---- statement pins: a silently weakened lemma no longer type-checks ---- *)
Check (C19_value_roundtrip : forall t v, wf_val t v = true -> decode t (encode t v) = Some v).
Check (C19_fragmentation : forall max valid bytes chunks,
  concat chunks = bytes -> feed_all max valid init chunks = feed max valid init bytes).
Check (C19_frame_bound : forall max valid hdr rest chunks,
  length hdr = 8%nat -> max < de hdr -> concat chunks = hdr ++ rest ->
  feed_all max valid init chunks = (mkR RDead 8, [FErr ETooLarge])).
Check (C19_unpack_canonical : forall k args fs,
  bytes_ok args -> unpack k args = Some fs -> pack fs = args /\ length fs = k).
Check (C19_reader_refines_parse : forall max valid chunks,
  fst (run max valid chunks) = parse max valid (concat chunks)).
Check (C19_job_options_roundtrip : forall o, opts_wf o = true -> dec_opts (enc_opts o) = JOpts o).

(* ---- non-vacuity ---- *)
Example ex_i16 : decode (TE (EI 2)) (encode (TE (EI 2)) (VE (VZ (-2)%Z))) = Some (VE (VZ (-2)%Z))
                 /\ encode (TE (EI 2)) (VE (VZ (-2)%Z)) = [255; 254].
Proof. split; vm_compute; reflexivity. Qed.
Example ex_wf_vec : wf_val (TVec EChar) (VVec [VN 65; VN 128150]) = true.
Proof. vm_compute; reflexivity. Qed.
Example ex_not_canonical_value :   (* conversions ignore trailing bytes; only the framing is canonical *)
  decode (TE (EU 2)) [1; 2; 9] = Some (VE (VN 258)) /\ decode (TE EBool) [2] = Some (VE (VB false)).
Proof. split; vm_compute; reflexivity. Qed.
Definition ex_tbl : list variant :=
  [mkVar [65] false []; mkVar [66] false [TE (EU 4); TStr]; mkVar [67] true [TVec (EI 2)]].
Example ex_tbl_ok : tags_distinct ex_tbl = true.
Proof. vm_compute; reflexivity. Qed.
Example ex_enum : serialize ex_tbl 1 [VE (VN 7); VStr [104; 105]]
                  = Some (SCast [66] [0;0;0;0;0;0;0;4; 0;0;0;7; 0;0;0;0;0;0;0;2; 104;105] None)
  /\ deserialize ex_tbl (SCast [66] [0;0;0;0;0;0;0;4; 0;0;0;7; 0;0;0;0;0;0;0;2; 104;105] None)
     = Some (1, [VE (VN 7); VStr [104; 105]])
  /\ deserialize ex_tbl (SCast [66] [0;0;0;0;0;0;0;4; 0;0;0;7; 0;0;0;0;0;0;0;2; 104;105; 0] None) = None
  /\ deserialize ex_tbl (SCast [66] [0;0;0;0;0;0;0;4; 0;0;0;7; 0;0;0;0;0;0;0;1; 255] None) = None
  /\ deserialize ex_tbl (SCast [90] [] None) = None.
Proof. repeat split; vm_compute; reflexivity. Qed.
Example ex_opts_ok : opts_wf (mkJo 1700000000000000000 (Some 5)) = true.
Proof. vm_compute; reflexivity. Qed.
Example ex_zero_ttl :   (* F5 witness *)
  opts_wf (mkJo 5 (Some 0)) = false
  /\ dec_opts (enc_opts (mkJo 5 (Some 0))) = JOpts (mkJo 5 None)
  /\ check_C19_opts_roundtrip (mkJo 5 (Some 0)) (dec_opts (enc_opts (mkJo 5 (Some 0)))) = false.
Proof. repeat split; vm_compute; reflexivity. Qed.
Example ex_stream :
  run 100 (fun _ => true) [[0;0;0;0]; [0;0;0;2;7]; [8;0;0;0;0;0;0;0;0; 0;0;0;0;0;0;0;200;1]]
  = ([FMsg [7; 8]; FMsg []; FErr ETooLarge], 26).
Proof. vm_compute; reflexivity. Qed.
Example ex_frame_ok : frame_ok 100 (fun _ => true) [7; 8].
Proof. repeat split; vm_compute; congruence. Qed.

Print Assumptions C19_int_roundtrip.
Print Assumptions C19_value_roundtrip.
Print Assumptions C19_pack_roundtrip.
Print Assumptions C19_enum_roundtrip.
Print Assumptions C19_job_options_roundtrip.
Print Assumptions C19_job_roundtrip.
Print Assumptions C19_job_options_zero_ttl_refuted.
Print Assumptions C19_int_canonical.
Print Assumptions C19_unpack_canonical.
Print Assumptions C19_unpack_safe.
Print Assumptions C19_deser_fields_spec.
Print Assumptions C19_meta_short.
Print Assumptions C19_meta_total.
Print Assumptions C19_prim_roundtrip.
Print Assumptions C19_fragmentation.
Print Assumptions C19_fragmentation_run.
Print Assumptions C19_frame_bound.
Print Assumptions C19_frame_bound_nothing_buffered.
Print Assumptions C19_buffer_bound.
Print Assumptions C19_reader_consumes_all.
Print Assumptions C19_reader_refines_parse.
Print Assumptions C19_valid_stream.
Print Assumptions C19_truncated_stream.
Print Assumptions C19_oracle_sound_stream.
Print Assumptions C19_oracle_sound_roundtrip.
Print Assumptions C19_oracle_sound_enum.
Print Assumptions C19_oracle_sound_options.
