(* C12 placeholder while the proofs are being written *)
From RV Require Import Timer.Model.
