(* C12 — Timers fire once, never early, and die with their target.
   Only statements, pins, non-vacuity examples and Print Assumptions.
   Model: Timer/Model.v; proofs: Timer/Proofs.v.

   Every theorem quantifies over ALL label sequences `ls` (clock advances of any size, single
   micro-steps of any timer task, iterations of the target's loop, aborts, stop / kill / drain
   requests and timer creations in any order) and every start time; `run ls (init t0 pk)` is the
   state reached; `pk = true` starts with the target still inside pre_start (status Starting:
   active and accepting, its loop not running until `TgtStart`).  tokio's timer contract (sleep with deadline D complete at a poll iff
   ceil_ms D <= floor_ms now; interval deadlines t0 + k*p, Burst) is the MODEL of sleep/interval
   and is calibrated against the real runtime on every run of the check, not verified. *)
From Coq Require Import List NArith Bool.
From RV Require Import Timer.Model Timer.Proofs.
Import ListNotations.
Local Open Scope N_scope.

(* (1) send_after: enqueued at most once (the global sequence of accepted timer messages has
   no duplicates), numbered 1, never before creation + period; handled at most once, never
   before; the handle reports Ok exactly when the message was enqueued *)
Theorem C12_after_once_not_early : forall pk ls t0 i tm,
  let s := run ls (init t0 pk) in
  nth_error (timers s) i = Some tm -> k_kind tm = KAfter ->
  NoDup (pairs (effs s)) /\ NoDup (log_pairs (g_log (tgt s)))
  /\ (forall e k, In e (effs s) -> e_tid e = i -> e_what e = ESent k ->
        k = 1 /\ k_born tm + k_dur tm <= e_time e)
  /\ (forall k t, In (i, k, t) (g_log (tgt s)) -> k = 1 /\ k_born tm + k_dur tm <= t)
  /\ (k_pc tm = PDone ROk <-> In (i, 1) (pairs (effs s))).
Proof. exact after_once_not_early. Qed.

(* (1b) ... and exactly once when it matters: polling the task once its wheel deadline has
   passed delivers the message iff the target accepts at that moment, else the handle is Err
   and the target is untouched *)
Theorem C12_after_fires : forall pk ls t0 i tm D,
  let s := run ls (init t0 pk) in
  nth_error (timers s) i = Some tm -> k_kind tm = KAfter -> k_pc tm = PWait D ->
  ceil_ms D <= now s ->
  let s' := step s (Poll i) in
  if accepts (g_status (tgt s))
  then nth_error (timers s') i = Some (mkTimer KAfter (k_dur tm) (k_born tm) (k_t0 tm) (PDone ROk) 1)
       /\ g_mbox (tgt s') = g_mbox (tgt s) ++ [MTick i 1]
  else nth_error (timers s') i = Some (set_pc tm (PDone RErr)) /\ tgt s' = tgt s.
Proof. exact after_fires. Qed.

(* (2) abort: whatever happens after `Abort i`, timer i's record and the list of its effects
   on the target (messages, send failures, stop, kill) never change again; an unfinished task
   ends as cancelled *)
Theorem C12_abort_prevents : forall pk ls1 ls2 t0 i,
  let s1 := run ls1 (init t0 pk) in
  (i < length (timers s1))%nat ->
  let s2 := step s1 (Abort i) in
  let s3 := run ls2 s2 in
  nth_error (timers s3) i = nth_error (timers s2) i
  /\ effs_of i (effs s3) = effs_of i (effs s1)
  /\ (forall tm, nth_error (timers s1) i = Some tm -> finished (k_pc tm) = false ->
        exists tm', nth_error (timers s3) i = Some tm' /\ k_pc tm' = PAborted).
Proof. exact abort_prevents. Qed.

(* (2b) abort before the first poll: a timer whose handle is aborted before its task was ever
   polled (e.g. send_after(0) followed at once by abort(), no await in between) never fires,
   whatever the period (zero included) and whatever happens afterwards: no effect of that timer
   on the target ever exists, nothing of it is ever handled, the task ends as cancelled *)
Theorem C12_abort_before_first_poll : forall pk ls1 ls2 t0 i tm,
  let s1 := run ls1 (init t0 pk) in
  nth_error (timers s1) i = Some tm -> k_pc tm = PInit ->
  let s3 := run ls2 (step s1 (Abort i)) in
  effs_of i (effs s3) = []
  /\ (forall k t, ~ In (i, k, t) (g_log (tgt s3)))
  /\ exists tm', nth_error (timers s3) i = Some tm' /\ k_pc tm' = PAborted /\ k_sent tm' = 0.
Proof. exact abort_before_first_poll. Qed.

(* (3) dead target: once the target refuses messages (Draining, Stopping, Stopped) no timer
   message is ever accepted again, and a send_after that had not delivered reports Err
   through its handle whenever it returns *)
Theorem C12_dead_target_err : forall pk ls1 ls2 t0,
  let s1 := run ls1 (init t0 pk) in
  accepts (g_status (tgt s1)) = false ->
  let s2 := run ls2 s1 in
  pairs (effs s2) = pairs (effs s1)
  /\ forall i tm1 tm2 r,
       nth_error (timers s1) i = Some tm1 -> nth_error (timers s2) i = Some tm2 ->
       k_kind tm2 = KAfter -> k_pc tm1 <> PDone ROk -> k_pc tm2 = PDone r -> r = RErr.
Proof. exact dead_target_err. Qed.

(* (4) send_interval: the k-th message is never enqueued or handled before the k-th wheel
   deadline ceil_ms (t0 + k*p) >= born + k*p (t0 = first poll of the task): the deadline is
   k periods after t0 regardless of how late earlier ticks were served (no drift); every
   number 1..k_sent is enqueued, none twice *)
Theorem C12_interval_kth : forall pk ls t0 i tm,
  let s := run ls (init t0 pk) in
  nth_error (timers s) i = Some tm -> k_kind tm = KInterval ->
  (forall e k, In e (effs s) -> e_tid e = i -> e_what e = ESent k ->
     1 <= k /\ k <= k_sent tm /\ ceil_ms (k_t0 tm + k * k_dur tm) <= e_time e
     /\ k_born tm + k * k_dur tm <= e_time e)
  /\ (forall k t, In (i, k, t) (g_log (tgt s)) ->
        ceil_ms (k_t0 tm + k * k_dur tm) <= t /\ k_born tm + k * k_dur tm <= t)
  /\ (forall k, 1 <= k -> k <= k_sent tm -> In (i, k) (pairs (effs s)))
  /\ NoDup (pairs (effs s)) /\ NoDup (log_pairs (g_log (tgt s))).
Proof. exact interval_kth. Qed.

(* (4b) on a prompt schedule (the clock never jumps over a pending wheel deadline and never
   moves before a new task's first poll) every timer message — k-th tick of an interval, the
   single message of a send_after — is enqueued at EXACTLY ceil_ms (born + k*p); with a
   millisecond-aligned creation time and period that is born + k*p itself *)
Theorem C12_interval_kth_exact : forall pk ls t0 e k,
  prompt ls (init t0 pk) ->
  let s := run ls (init t0 pk) in
  In e (effs s) -> e_what e = ESent k ->
  exists tm, nth_error (timers s) (e_tid e) = Some tm
             /\ e_time e = ceil_ms (k_born tm + k * k_dur tm)
             /\ (k_born tm mod ms = 0 -> k_dur tm mod ms = 0 -> e_time e = k_born tm + k * k_dur tm).
Proof. exact interval_kth_exact. Qed.

(* (5) an interval task is finished at the latest when it is blocked at a time that is one
   (wheel-rounded) period after the target left {Starting, Running, Upgrading} *)
Theorem C12_interval_ends : forall pk ls t0 i tm tl,
  let s := run ls (init t0 pk) in
  nth_error (timers s) i = Some tm -> k_kind tm = KInterval ->
  g_left (tgt s) = Some tl ->
  timer_enabled (now s) tm = false ->
  ceil_ms (k_t0 tm) <= now s ->
  tl + ceil_ms (k_dur tm) <= now s ->
  finished (k_pc tm) = true.
Proof. exact interval_ends. Qed.

(* g_left really is the moment the target left the active states *)
Theorem C12_left_spec : forall pk ls t0,
  let s := run ls (init t0 pk) in
  (g_left (tgt s) = None <-> is_active (g_status (tgt s)) = true)
  /\ (forall tl, g_left (tgt s) = Some tl -> tl <= now s).
Proof. exact left_spec. Qed.

(* (6) exit_after / kill_after: an exit caused by timer i happens no earlier than the period
   after its creation and carries the documented reason "Exit after {ms}ms" / "killed";
   the stop / kill requests themselves are never issued early *)
Theorem C12_exit_kill_after : forall pk ls t0 r i t,
  let s := run ls (init t0 pk) in
  g_exit (tgt s) = Some (r, Some i, t) ->
  exists tm, nth_error (timers s) i = Some tm
    /\ k_born tm + k_dur tm <= t
    /\ ((k_kind tm = KExit /\ r = RExitAfter (k_dur tm / ms)) \/ (k_kind tm = KKill /\ r = RKilled)).
Proof. exact exit_kill_after. Qed.

Theorem C12_exit_kill_effects : forall pk ls t0 e,
  let s := run ls (init t0 pk) in
  In e (effs s) -> (e_what e = EStop \/ e_what e = EKill) ->
  exists tm, nth_error (timers s) (e_tid e) = Some tm
    /\ k_born tm + k_dur tm <= e_time e
    /\ (e_what e = EStop -> k_kind tm = KExit) /\ (e_what e = EKill -> k_kind tm = KKill).
Proof. exact exit_kill_effects. Qed.

(* (7) the deterministic driver used by the correspondence check only performs model steps:
   every scenario the harness runs is one of the label sequences quantified over above *)
Theorem C12_exec_is_run : forall pk gt ops,
  d_s (fst (exec pk gt ops)) = run (rev (d_ls (fst (exec pk gt ops)))) (init 0 pk).
Proof. exact exec_is_run. Qed.

(* (8) the executable oracle.  Its SAFETY clauses -- every handled timer message comes from an
   existing message timer, carries a legal number, is never earlier than creation + k periods
   (computed from the scenario alone), is in the log exactly once and not after the target's exit
   -- accept every run of the model's driver, for every scenario and both kinds of target; and
   they are part of the oracle applied to the implementation *)
Theorem C12_oracle_sound_safety : forall pk gt ops, check_C12_safety ops (observe pk gt ops) = true.
Proof. exact oracle_sound_safety. Qed.

Theorem C12_oracle_includes_safety : forall pk ops o,
  check_C12 pk ops o = true -> check_C12_safety ops o = true.
Proof. exact oracle_includes_safety. Qed.

(* (8b) the handle-result clauses of the oracle -- Ok / Err only from send_after, Err only if
   nothing of that timer was ever handled, unit results only from the other kinds, Ok only if the
   period had elapsed before the target left the active states and before it exited, and the
   handled numbers of every timer are 1, 2, 3, ... in this order -- accept every run of the model's
   driver; they are part of the oracle applied to the implementation.  (Not included: "cancelled
   only if an abort was issued", which needs the scenario's abort book-keeping.) *)
Theorem C12_oracle_sound_results : forall pk gt ops, check_C12_results ops (observe pk gt ops) = true.
Proof. exact oracle_sound_results. Qed.

Theorem C12_oracle_includes_results : forall pk ops o,
  check_C12 pk ops o = true -> check_C12_results ops o = true.
Proof. exact oracle_includes_results. Qed.

(* (8c) the UNCONDITIONAL form of full oracle soundness is FALSE: the driver's `settle` is
   fuel-bounded (FUEL = 400 task turns), and a history that is not settled -- here a 1 us interval
   asked to burst 1000 ticks in one turn -- leaves ticks to be handled at a later instant, which the
   oracle's "not later than the first instant the runtime ran at/after the deadline" clause
   rejects.  The open statement therefore carries an explicit `settled` side condition (every
   settle of the scenario ends with an empty run queue, no enabled timer task and an idle target) *)
Example C12_oracle_sound_unsettled_refuted :
  exists ops, check_C12 false ops (observe false false ops) = false.
Proof. exists [OMk KInterval 1000; OAdv ms; OProbe; OAdv ms; OProbe]. vm_compute. reflexivity. Qed.

(* OPEN: C12_oracle_sound_settled : forall pk gt ops, settled_history pk gt ops ->
     check_C12 pk ops (observe pk gt ops) = true.     (proved so far: the safety, result and
     -- as theorem (2b) on the model -- abort-before-first-poll parts; see (8), (8b))
   GAP: the clauses outside check_C12_safety are not proved of all model runs:
   (i) "not later than the first instant the runtime ran at/after the k-th wheel deadline" and
   "nothing handled after an earlier abort" and "interval handle finished one period after the
   exit" are PROGRESS statements about the fuel-bounded driver `settle` (false if the fuel runs
   out); (ii) handle-result consistency, prefix order 1..n of an interval's handled numbers and
   the explanation of the exit reason need further trace invariants.  All of them are checked by
   vm_compute on the model's own observation for every scenario of every run
   (lib/c12.py, coverage.model_oracle_accepts). *)

(* ---- statement pins ---- *)
Check (C12_abort_prevents : forall pk ls1 ls2 t0 i,
  let s1 := run ls1 (init t0 pk) in
  (i < length (timers s1))%nat ->
  let s2 := step s1 (Abort i) in
  let s3 := run ls2 s2 in
  nth_error (timers s3) i = nth_error (timers s2) i
  /\ effs_of i (effs s3) = effs_of i (effs s1)
  /\ (forall tm, nth_error (timers s1) i = Some tm -> finished (k_pc tm) = false ->
        exists tm', nth_error (timers s3) i = Some tm' /\ k_pc tm' = PAborted)).
Check (C12_interval_ends : forall pk ls t0 i tm tl,
  let s := run ls (init t0 pk) in
  nth_error (timers s) i = Some tm -> k_kind tm = KInterval ->
  g_left (tgt s) = Some tl -> timer_enabled (now s) tm = false ->
  ceil_ms (k_t0 tm) <= now s -> tl + ceil_ms (k_dur tm) <= now s ->
  finished (k_pc tm) = true).
Check (C12_exit_kill_after : forall pk ls t0 r i t,
  let s := run ls (init t0 pk) in
  g_exit (tgt s) = Some (r, Some i, t) ->
  exists tm, nth_error (timers s) i = Some tm
    /\ k_born tm + k_dur tm <= t
    /\ ((k_kind tm = KExit /\ r = RExitAfter (k_dur tm / ms)) \/ (k_kind tm = KKill /\ r = RKilled))).

(* ---- non-vacuity ---- *)
(* a prompt run of a 1 ms interval: ticks 1 and 2 are enqueued at exactly 1 ms and 2 ms *)
Definition ex_ls : list label :=
  [Mk KInterval ms; Poll 0; Poll 0; Poll 0; Advance ms; Poll 0; Poll 0; TgtPoll;
   Advance ms; Poll 0; TgtPoll].
Example ex_prompt : prompt ex_ls (init 0 false).
Proof. simpl. repeat split; auto; right; vm_compute; reflexivity. Qed.
Example ex_effs : effs (run ex_ls (init 0 false))
  = [mkEff 0 (ESent 1) 1000000; mkEff 0 (ESent 2) 2000000]
  /\ g_log (tgt (run ex_ls (init 0 false))) = [(0%nat, 1, 1000000); (0%nat, 2, 2000000)].
Proof. split; vm_compute; reflexivity. Qed.
(* a late schedule: the clock jumps over three deadlines, the ticks burst but none is early *)
Example ex_burst :
  o_log (observe false false [OMk KInterval ms; OAdv (3 * ms + 5)]) =
  [(0%nat, 1, 3000005); (0%nat, 2, 3000005); (0%nat, 3, 3000005)].
Proof. vm_compute; reflexivity. Qed.
(* abort at the boundary: the sleep has fired but the task has not run *)
Example ex_abort_boundary :
  observe false false [OMk KAfter ms; OAdv ms; OAbort 0] = mkObs [] [HCancelled] None [] None
  /\ observe false false [OMk KAfter ms; OAdv ms; OSettle; OAbort 0] = mkObs [(0%nat, 1, 1000000)] [HOk] None [] None.
Proof. split; vm_compute; reflexivity. Qed.
(* the target stops before expiry: Err through the handle; exit_after reason and time *)
Example ex_dead :
  observe false false [OMk KAfter (3 * ms); OMk KExit 1500000; OAdv (2 * ms); OAdv ms]
  = mkObs [] [HErr; HUnit] (Some (RExitAfter 1, 2000000)) [] (Some 2000000).
Proof. vm_compute; reflexivity. Qed.
(* interval task ends one period after the exit *)
Example ex_ends :
  o_probes (observe false false [OMk KInterval ms; OAdv ms; OKill; OProbe; OAdv ms; OProbe])
  = [(1000000, true, [false]); (2000000, true, [true])].
Proof. vm_compute; reflexivity. Qed.
(* a target parked in pre_start (Starting) is active and accepts: the interval keeps ticking, the
   messages are handled when pre_start returns *)
Example ex_starting :
  observe true false [OMk KInterval ms; OMk KAfter ms; OAdv ms; OAdv ms; OProbe; OOpen]
  = mkObs [(0%nat, 1, 2000000); (1%nat, 1, 2000000); (0%nat, 2, 2000000)] [HPending; HOk] None
          [(2000000, false, [false; true])] None.
Proof. vm_compute; reflexivity. Qed.
(* the Stopping window (post_stop still running, ports open): a send_after that expires inside it
   delivers nothing and reports Err; an interval ends; the exit is reported when post_stop returns;
   the oracle rejects an Ok reported for an expiry inside the window *)
Example ex_stopping_window :
  observe false true [OMk KAfter (5 * ms); OMk KInterval (2 * ms); OAdv ms; OStop (RUser 3); OAdv (4 * ms);
                      OProbe; OPOpen; OAdv ms; OProbe]
  = mkObs [] [HErr; HUnit] (Some (RUser 3, 5000000))
          [(5000000, false, [true; true]); (6000000, true, [true; true])] (Some 1000000)
  /\ check_C12 false [OMk KAfter (5 * ms); OAdv ms; OStop RNone; OAdv (4 * ms); OPOpen]
       (mkObs [] [HOk] (Some (RNone, 5000000)) [] (Some 1000000)) = false.
Proof. split; vm_compute; reflexivity. Qed.
(* zero-period timers of every one-shot kind aborted at once (no await in between) never fire;
   with a settle in between (the control) they have fired before the abort; the oracle rejects a
   delivery / an Ok / an exit by a timer that was aborted before its first poll *)
Example ex_abort_unpolled :
  observe false false [OMk KAfter 0; OAbort 0; OMk KExit 0; OAbort 1; OMk KKill 0; OAbort 2; OSettle; OAdv ms]
  = mkObs [] [HCancelled; HCancelled; HCancelled] None [] None
  /\ observe false false [OMk KAfter 0; OSettle; OAbort 0] = mkObs [(0%nat, 1, 0)] [HOk] None [] None
  /\ check_C12 false [OMk KAfter 0; OAbort 0; OSettle] (mkObs [(0%nat, 1, 0)] [HOk] None [] None) = false
  /\ check_C12 false [OMk KAfter 0; OAbort 0; OSettle] (mkObs [(0%nat, 1, 0)] [HCancelled] None [] None) = false
  /\ check_C12 false [OMk KExit 0; OAbort 0; OSettle] (mkObs [] [HCancelled] (Some (RExitAfter 0, 0)) [] (Some 0)) = false
  /\ check_C12 false [OMk KKill 0; OAbort 0; OSettle] (mkObs [] [HCancelled] (Some (RKilled, 0)) [] (Some 0)) = false
  /\ check_C12 false [OMk KAfter 0; OSettle; OAbort 0] (mkObs [(0%nat, 1, 0)] [HOk] None [] None) = true.
Proof. repeat split; vm_compute; reflexivity. Qed.
(* kill_after ends the target at its deadline whatever its state then (here: Stopping, post_stop
   still running); a Duration::MAX timer never fires and nothing panics; the oracle rejects a
   kill_after that let the target live past its deadline, and a panicking timer call *)
Example ex_kill_due_and_huge :
  observe false true [OMk KKill (4 * ms); OAdv (2 * ms); OStop (RUser 4); OAdv (2 * ms); OAdv (2 * ms); OPOpen; OProbe]
  = mkObs [] [HUnit] (Some (RKilled, 4000000)) [(6000000, true, [true])] (Some 2000000)
  /\ check_C12 false [OMk KKill (4 * ms); OAdv (2 * ms); OStop (RUser 4); OAdv (2 * ms); OAdv (2 * ms); OPOpen; OProbe]
       (mkObs [] [HUnit] (Some (RUser 4, 6000000)) [(6000000, true, [true])] (Some 2000000)) = false
  /\ observe false false [OMk KAfter 18446744073709551615999999999; OAdv ms; OProbe]
     = mkObs [] [HPending] None [(1000000, false, [false])] None
  /\ check_C12 false [OMk KAfter 18446744073709551615999999999; OAdv ms; OProbe]
       (mkObs [] [HPanic] None [(1000000, false, [true])] None) = false.
Proof. repeat split; vm_compute; reflexivity. Qed.
Example ex_oracle :
  check_C12 false [OMk KInterval ms; OAdv ms; OKill; OProbe; OAdv ms; OProbe]
            (observe false false [OMk KInterval ms; OAdv ms; OKill; OProbe; OAdv ms; OProbe]) = true
  /\ check_C12 false [OMk KAfter ms; OAdv ms] (mkObs [(0%nat, 1, 999999)] [HOk] None [] None) = false
  /\ check_C12 false [OMk KAfter ms; OAdv ms] (mkObs [(0%nat, 1, 1000000); (0%nat, 1, 1000000)] [HOk] None [] None) = false
  /\ check_C12 false [OMk KExit (2 * ms); OAdv ms] (mkObs [] [HUnit] (Some (RExitAfter 2, 1000000)) [] (Some 1000000)) = false
  /\ check_C12 false [OMk KExit (2 * ms); OAdv (2 * ms)] (mkObs [] [HUnit] (Some (RExitAfter 3, 2000000)) [] (Some 2000000)) = false.
Proof. repeat split; vm_compute; reflexivity. Qed.

Print Assumptions C12_after_once_not_early.
Print Assumptions C12_after_fires.
Print Assumptions C12_abort_prevents.
Print Assumptions C12_abort_before_first_poll.
Print Assumptions C12_dead_target_err.
Print Assumptions C12_interval_kth.
Print Assumptions C12_interval_kth_exact.
Print Assumptions C12_interval_ends.
Print Assumptions C12_left_spec.
Print Assumptions C12_exit_kill_after.
Print Assumptions C12_exit_kill_effects.
Print Assumptions C12_exec_is_run.
Print Assumptions C12_oracle_sound_safety.
Print Assumptions C12_oracle_includes_safety.
Print Assumptions C12_oracle_sound_results.
Print Assumptions C12_oracle_includes_results.
