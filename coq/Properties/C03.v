(* C03 — Kill > stop > supervision > messages; stop is graceful, kill immediate.
   Model Loop/World.v, recogniser Loop/Checks.v (rules 31/32/33), proofs Loop/WorldProofs.v,
   Loop/PickProofs.v. *)
From Coq Require Import List Arith Bool.
From RV Require Import Loop.World Loop.Checks Loop.WorldProofs Loop.PickProofs Loop.C04Proofs Loop.TraceOracleProofs.
Import ListNotations.

(* Under every schedule, for every actor: once kill() on it has returned no callback starts
   (rule 31) and the running callback logs no progress after its next suspension point (rule 33:
   no tick / wake / exit once it is parked); once stop() has returned no message or supervision
   handler starts (rule 32), while the running handler may finish and post_stop still runs
   (accepted by the grammar of C01). *)
Theorem C03_kill_stop_clauses : forall cfgs msgs ls n,
  check_C03 n (trace_of (run (init cfgs msgs) ls)) = true.
Proof. exact check_C03_ok. Qed.

Theorem C03_driver_programs : forall cfgs msgs rounds fuel order ops n,
  check_C03 n (trace_of (run_dops rounds fuel order (init cfgs msgs) ops)) = true.
Proof. intros. rewrite run_dops_labels. apply check_C03_ok. Qed.

(* the biased pick, in priority order *)
Theorem C03_pick_signal_first : forall w i a,
  idle_at w i a -> a_sig a = true ->
  pick a = PkSignal /\ seg w i = (killed_exit (consume_sig w i) i None, false).
Proof. exact pick_signal_first. Qed.

Theorem C03_pick_stop_second : forall w i a r,
  idle_at w i a -> a_sig a = false -> a_stop a = Some r ->
  pick a = PkStop r /\
  seg w i = (graceful_exit (upd w i (fun a => upd_stop a None true)) i r, true).
Proof. exact pick_stop_second. Qed.

Theorem C03_sup_before_msg : forall w i a e t,
  idle_at w i a -> a_sig a = false -> a_stop a = None -> a_supq a = e :: t ->
  pick a = PkSup e /\
  seg w i = (start_cb (upd w i (fun a => upd_supq a t)) i (Sup e), true) /\
  hd_error (w_trace (fst (seg w i))) = Some (TEnter i (Sup e)).
Proof. exact pick_sup_before_msg. Qed.

Theorem C03_msg_last : forall a m,
  pick a = PkMsg m -> a_sig a = false /\ a_stop a = None /\ a_supq a = [] /\ hd_error (a_msgq a) = Some m.
Proof. exact pick_msg_last. Qed.

(* supervision before messages, on traces (the oracle evaluated on implementation traces): under
   every schedule, whenever an actor starts a MESSAGE handler, every ActorStarted already sent to
   it (child spawn-linked to it, post_start returned Ok earlier in the trace) has been handled:
   a pending supervision event is never overtaken by a user message *)
Theorem C03_sup_first_sound : forall cfgs msgs ls,
  check_C03_sup_first (map c_link cfgs) (trace_of (run (init cfgs msgs) ls)) = true.
Proof. exact sup_first_sound. Qed.

Theorem C03_sup_first_driver_programs : forall cfgs msgs rounds fuel order ops,
  check_C03_sup_first (map c_link cfgs) (trace_of (run_dops rounds fuel order (init cfgs msgs) ops)) = true.
Proof. exact sup_first_sound_dops. Qed.

Check (C03_sup_first_sound : forall cfgs msgs ls,
  check_C03_sup_first (map c_link cfgs) (trace_of (run (init cfgs msgs) ls)) = true).

Check (C03_kill_stop_clauses : forall cfgs msgs ls n,
  check_C03 n (trace_of (run (init cfgs msgs) ls)) = true).

(* ---- non-vacuity: the rules fire on the forbidden shapes ---- *)
Definition started := [TEnter 0 PreStart; TExit 0 PreStart ROk; TEnter 0 PostStart; TExit 0 PostStart ROk].
Example reject_enter_after_kill :
  code_of (arun 0 ast0 (started ++ [TKillReq 0; TEnter 0 (Handle 1)])) = 31.
Proof. reflexivity. Qed.
Example reject_handler_after_stop :
  code_of (arun 0 ast0 (started ++ [TStopReq 0 None; TEnter 0 (Handle 1)])) = 32.
Proof. reflexivity. Qed.
Example reject_progress_after_kill :
  code_of (arun 0 ast0 (started ++ [TEnter 0 (Handle 1); TPark 0 3; TKillReq 0; TWake 0 3])) = 33.
Proof. reflexivity. Qed.
Example accept_stop_lets_handler_finish :
  code_of (arun 0 ast0 (started ++ [TEnter 0 (Handle 1); TPark 0 3; TStopReq 0 None; TWake 0 3; TTick 0;
                                    TExit 0 (Handle 1) ROk; TEnter 0 PostStop; TExit 0 PostStop ROk; TJoin 0])) = 0.
Proof. reflexivity. Qed.
(* all four ports loaded at once: the model serves them in priority order *)
Example ex_ports_loaded :
  let w := run_dops 4 20 [0] (init [mkCfg ([], ROk) ([], ROk) ([], ROk) (SupScript ([], ROk)) None false] [])
             [DL (LSpawn 0); DSettle; DL (LSend 0 1); DL (LStop 0 None)] in
  trace_of (run_dops 4 20 [0] w [DSettle]) =
  [TEnter 0 PreStart; TExit 0 PreStart ROk; TSpawnRet 0 true; TEnter 0 PostStart; TExit 0 PostStart ROk;
   TSent 0 1 true; TStopReq 0 None; TEnter 0 PostStop; TExit 0 PostStop ROk; TJoin 0].
Proof. vm_compute. reflexivity. Qed.

Print Assumptions C03_kill_stop_clauses.
Print Assumptions C03_driver_programs.
Print Assumptions C03_pick_signal_first.
Print Assumptions C03_pick_stop_second.
Print Assumptions C03_sup_before_msg.
Print Assumptions C03_msg_last.
Print Assumptions C03_sup_first_sound.
Print Assumptions C03_sup_first_driver_programs.
