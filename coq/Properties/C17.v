(* C17 — Cluster: nothing from a peer takes effect before authentication.
   Only statements (pinned with their literal text), non-vacuity examples and
   Print Assumptions.  Models: Cluster/Auth.v (handshake state machines),
   Cluster/Gate.v (the session's network-message handler); proofs:
   Cluster/AuthProofs.v, Cluster/GateProofs.v.
   The digest function is universally quantified in every theorem ([dg]); no
   cryptographic assumption is made anywhere. *)
From Coq Require Import List NArith Bool.
From RV Require Import Cluster.Auth Cluster.AuthProofs Cluster.Gate Cluster.GateProofs.
From RV Require Cluster.Elect Cluster.Listed Cluster.ListedProofs.
Import ListNotations.
Local Open Scope N_scope.

(* ---------- (1) the handshake state machines ---------- *)

(* Close is absorbing: every sequence of peer messages and session operations
   (with every outcome of the random draws) leaves a closed FSM closed. *)
Theorem C17_close_absorbing_server : forall dg ck ops, s_run dg ck SClose ops = SClose.
Proof. exact s_run_close. Qed.

Theorem C17_close_absorbing_client : forall dg ck ops, c_run dg ck CClose ops = CClose.
Proof. exact c_run_close. Qed.

(* ... hence once any run has reached Close, every continuation stays there *)
Theorem C17_close_forever_server : forall dg ck st pre post,
  s_run dg ck st pre = SClose -> s_run dg ck st (pre ++ post) = SClose.
Proof. exact s_close_forever. Qed.

Theorem C17_close_forever_client : forall dg ck st pre post,
  c_run dg ck st pre = CClose -> c_run dg ck st (pre ++ post) = CClose.
Proof. exact c_close_forever. Qed.

(* any message other than the one the current state expects (including an empty
   message, a repeated one, one of the other role, a declined ClientStatus, or a
   challenge reply / ack whose digest differs from the stored one) yields Close *)
Theorem C17_unexpected_closes_server : forall dg st m ck rnd,
  s_expects st m = false -> s_next dg st m ck rnd = SClose.
Proof. exact s_unexpected_closes. Qed.

Theorem C17_unexpected_closes_client : forall dg st m ck rnd,
  c_expects st m = false -> c_next dg st m ck rnd = CClose.
Proof. exact c_unexpected_closes. Qed.

(* Ok needs the digest of the challenge this side issued (server role) *)
Theorem C17_ok_needs_digest_server : forall dg ck ops d,
  s_run dg ck SWaitName ops = SOk d ->
  exists pre ch c2 rnd post,
    ops = pre ++ SMsg (AClientChallenge c2 (dg ck ch)) rnd :: post
    /\ s_run dg ck SWaitName pre = SWaitReply ch (dg ck ch)
    /\ In ch (s_drawn pre)
    /\ d = dg ck c2
    /\ Forall (fun o => o = SForceWaitStatus) post.
Proof. exact s_ok_needs_digest. Qed.

(* ... and the client role: Ok is the state right after a ServerAck carrying
   dg cookie mych for the challenge mych this client drew *)
Theorem C17_ok_needs_digest_client : forall dg ck ops,
  c_run dg ck CWaitStatus ops = COk ->
  exists pre n cs sch mych rnd,
    ops = pre ++ [(AServerAck (dg ck mych), rnd)]
    /\ c_run dg ck CWaitStatus pre = CWaitAck n cs sch (dg ck sch) mych (dg ck mych)
    /\ In mych (c_drawn pre).
Proof. exact c_ok_needs_digest. Qed.

(* the reduction in contrapositive form: presenting anything but dg cookie ch closes *)
Theorem C17_wrong_digest_closes_server : forall dg ck ch c2 d rnd,
  d <> dg ck ch ->
  s_next dg (SWaitReply ch (dg ck ch)) (AClientChallenge c2 d) ck rnd = SClose.
Proof. exact s_wrong_digest_closes. Qed.

Theorem C17_wrong_digest_closes_client : forall dg ck n cs sch r mych d rnd,
  d <> dg ck mych ->
  c_next dg (CWaitAck n cs sch r mych (dg ck mych)) (AServerAck d) ck rnd = CClose.
Proof. exact c_wrong_digest_closes. Qed.

(* replaying the digest the client itself sent (a cookie-less acceptor's only move) closes,
   unless the two digests coincide *)
Theorem C17_replay_closes_client : forall dg ck n cs sch mych rnd,
  dg ck sch <> dg ck mych ->
  c_next dg (CWaitAck n cs sch (dg ck sch) mych (dg ck mych)) (AServerAck (dg ck sch)) ck rnd = CClose.
Proof. exact c_replay_closes. Qed.

(* the symbolic digest the model is evaluated with (the harness maps SHA-256 values to it and
   tests the real function's injectivity on structured cookie pairs) is injective *)
Theorem C17_dg_sym_injective : forall k ch k' ch',
  ch < 4294967296 -> ch' < 4294967296 ->
  dg_sym k ch = dg_sym k' ch' -> k = k' /\ ch = ch'.
Proof. exact dg_sym_injective. Qed.

(* the executable FSM oracle accepts every model run (so it cannot raise a false
   alarm on behaviour that conforms to the model) *)
Theorem C17_fsm_oracle_sound_server : forall dg ck ops,
  check_C17_server dg ck SWaitName ops (s_trace dg ck SWaitName ops) = true.
Proof. exact check_server_sound_init. Qed.

Theorem C17_fsm_oracle_sound_client : forall dg ck ops,
  check_C17_client dg ck CWaitStatus ops (c_trace dg ck CWaitStatus ops) = true.
Proof. exact check_client_sound_init. Qed.

(* ---------- (2) the session's handler of network messages ---------- *)

(* C17_gate: for every configuration (client-side or server-side session), every
   start state, every sequence of network messages and every behaviour of the
   environment (random draws, node-server replies, registry contents): an effect
   of kind Deliver* / Proxy* / Pg* / ListSessions / Connect is produced only while
   handling a message that arrived when the auth state was already Ok. *)
Theorem C17_gate : forall dg cfg l st,
  Forall (fun x : sstate * netmsg * env * list effect =>
            let '(pre, _, _, eff) := x in
            existsb protected eff = true -> a_is_ok (s_auth pre) = true)
         (run_log dg cfg st l).
Proof. exact run_gate. Qed.

(* the same for the actor, which stops handling at the first requested stop *)
Theorem C17_gate_actor : forall dg cfg l st,
  Forall (fun x : sstate * netmsg * env * list effect =>
            let '(pre, _, _, eff) := x in
            existsb protected eff = true -> a_is_ok (s_auth pre) = true)
         (run_actor dg cfg st l).
Proof. exact run_actor_gate. Qed.

(* the gate with the session's local events (spawn / exit of local actors reported by the pid
   registry monitor) interleaved arbitrarily with the peer's messages *)
Theorem C17_gate_inputs : forall dg cfg l st,
  Forall (fun x : sstate * input * list effect =>
            let '(pre, _, eff) := x in
            existsb protected eff = true -> a_is_ok (s_auth pre) = true)
         (run_in_log dg cfg st l).
Proof. exact run_in_gate. Qed.

(* one message, contrapositive form *)
Theorem C17_gate_step : forall dg cfg st m e,
  a_is_ok (s_auth st) = false -> existsb protected (snd (handle dg cfg st m e)) = false.
Proof. exact handle_gate. Qed.

(* C17_advertised_only: a cast or call reaches local pid only if the session is
   authenticated, pid is in the session's advertised set and the registry holds
   an actor for pid that supports remote messaging *)
Theorem C17_advertised_only : forall dg cfg st m e x pid,
  In x (snd (handle dg cfg st m e)) -> delivered_pid x = Some pid ->
  a_is_ok (s_auth st) = true /\ mem pid (s_adv st) = true /\ mem pid (e_live e) = true.
Proof. exact handle_advertised_only. Qed.

(* the session can never become authenticated again after Close, whatever it
   receives, and does nothing protected *)
Theorem C17_session_close_absorbing : forall dg cfg l st,
  a_is_close (s_auth st) = true ->
  Forall (fun x : sstate * netmsg * env * list effect =>
            let '(pre, _, _, eff) := x in
            a_is_close (s_auth pre) = true /\ a_is_ok (s_auth pre) = false
            /\ existsb protected eff = false)
         (run_log dg cfg st l)
  /\ a_is_close (s_auth (run_state dg cfg st l)) = true.
Proof. exact run_closed. Qed.

(* authentication of a session needs the digest of the challenge it issued *)
Theorem C17_session_ok_needs_digest : forall dg cfg l,
  a_is_ok (s_auth (run_state dg cfg (init_state cfg) l)) = true ->
  exists pre m e post ch,
    l = pre ++ (m, e) :: post
    /\ a_is_ok (s_auth (run_state dg cfg (init_state cfg) pre)) = false
    /\ In ch (rnds pre)
    /\ ((c_server cfg = true /\ exists c2,
           s_auth (run_state dg cfg (init_state cfg) pre) = AsServer (SWaitReply ch (dg (c_cookie cfg) ch))
           /\ m = NAuth (AClientChallenge c2 (dg (c_cookie cfg) ch)))
        \/ (c_server cfg = false /\ exists n cs sch r,
           s_auth (run_state dg cfg (init_state cfg) pre)
             = AsClient (CWaitAck n cs sch r ch (dg (c_cookie cfg) ch))
           /\ m = NAuth (AServerAck (dg (c_cookie cfg) ch)))).
Proof. exact run_ok_needs_digest. Qed.

(* handshake messages (or anything else) after authentication do not touch the auth state *)
Theorem C17_ok_stable : forall dg cfg st m e,
  a_is_ok (s_auth st) = true -> s_auth (fst (handle dg cfg st m e)) = s_auth st.
Proof. exact handle_ok_stable. Qed.

(* the executable oracles accept every model run *)
Theorem C17_oracle_sound : forall dg cfg l st,
  check_C17 (obs_of_log (run_log dg cfg st l)) = true.
Proof. exact check_C17_sound. Qed.

Theorem C17_closed_oracle_sound : forall dg cfg l st closed,
  (closed = true -> a_is_close (s_auth st) = true) ->
  check_C17_closed (obs_closed_of_log (run_log dg cfg st l)) closed = true.
Proof. exact check_C17_closed_sound. Qed.

(* ---------- (3) the node server: GetSessions lists authenticated sessions only ---------- *)

(* on C18's table model (Cluster/Elect.v): for every history of table operations, a
   session is listed by GetSessions only if ConnectionAuthenticated (TCommit) was
   received for it earlier - and by C17_gate's model a session sends that message
   only in the step in which it enters Ok *)
Theorem C17_getsessions_auth_only : forall this ops id,
  In id (Listed.listed (fst (Elect.trun (Elect.mkTable this []) ops))) -> In id (Listed.committed ops).
Proof. exact ListedProofs.listed_needs_commit. Qed.

(* ---- statement pins ---- *)
Check (C17_close_absorbing_server : forall dg ck ops, s_run dg ck SClose ops = SClose).
Check (C17_close_absorbing_client : forall dg ck ops, c_run dg ck CClose ops = CClose).
Check (C17_unexpected_closes_server : forall dg st m ck rnd,
  s_expects st m = false -> s_next dg st m ck rnd = SClose).
Check (C17_ok_needs_digest_server : forall dg ck ops d,
  s_run dg ck SWaitName ops = SOk d ->
  exists pre ch c2 rnd post,
    ops = pre ++ SMsg (AClientChallenge c2 (dg ck ch)) rnd :: post
    /\ s_run dg ck SWaitName pre = SWaitReply ch (dg ck ch)
    /\ In ch (s_drawn pre) /\ d = dg ck c2
    /\ Forall (fun o => o = SForceWaitStatus) post).

Check (C17_gate : forall dg cfg l st,
  Forall (fun x : sstate * netmsg * env * list effect =>
            let '(pre, _, _, eff) := x in
            existsb protected eff = true -> a_is_ok (s_auth pre) = true)
         (run_log dg cfg st l)).
Check (C17_advertised_only : forall dg cfg st m e x pid,
  In x (snd (handle dg cfg st m e)) -> delivered_pid x = Some pid ->
  a_is_ok (s_auth st) = true /\ mem pid (s_adv st) = true /\ mem pid (e_live e) = true).

(* ---- non-vacuity ---- *)
Example ex_server_ok :
  s_run dg_sym 0 SWaitName
    [SMsg (AName 1 2 3) 0; SStart 77; SMsg (AClientChallenge 5 (dg_sym 0 77)) 0] = SOk (dg_sym 0 5).
Proof. vm_compute; reflexivity. Qed.
Example ex_server_alive_path_ok :
  s_run dg_sym 0 SWaitName
    [SMsg (AName 1 2 3) 0; SForceWaitStatus; SMsg (AClientStatus true) 9;
     SMsg (AClientChallenge 5 (dg_sym 0 9)) 0] = SOk (dg_sym 0 5).
Proof. vm_compute; reflexivity. Qed.
Example ex_server_wrong_cookie :
  s_run dg_sym 0 SWaitName
    [SMsg (AName 1 2 3) 0; SStart 77; SMsg (AClientChallenge 5 (dg_sym 1 77)) 0] = SClose.
Proof. vm_compute; reflexivity. Qed.
Example ex_client_ok :
  c_run dg_sym 0 CWaitStatus
    [(AServerStatus 0, 0); (AServerChallenge 7 8 99, 41); (AServerAck (dg_sym 0 41), 0)] = COk.
Proof. vm_compute; reflexivity. Qed.
Example ex_expects_nonvacuous :
  s_expects SWaitName (AName 1 2 3) = true /\ s_expects SWaitName AEmpty = false
  /\ c_expects CWaitStatus (AServerStatus 4) = true.
Proof. vm_compute; auto. Qed.

(* a server-side session: handshake, then a cast to an advertised pid is delivered,
   a cast to another pid is not; before authentication nothing is *)
Definition ex_cfg := mkConfig true 0 100 101 false 0.
Definition ex_env (rnd : N) := mkEnv rnd (Some RNoOther) (Some RNoOther) (Some []) [7; 8] [] [].
Definition ex_msgs : list (netmsg * env) :=
  [(NNode (MCast 7), ex_env 0);
   (NControl (KSpawn [(55, None)]), ex_env 0);
   (NAuth (AName 1 2 3), ex_env 77);
   (NNode (MCast 7), ex_env 0);
   (NAuth (AClientChallenge 5 (dg_sym 0 77)), ex_env 0);
   (NNode (MCast 7), ex_env 0);
   (NNode (MCast 9), ex_env 0);
   (NControl (KSpawn [(55, None)]), ex_env 0);
   (NControl (KEnumerate 1 2), ex_env 0)].
Example ex_gate_run :
  map (fun x => filter protected (snd x)) (run_log dg_sym ex_cfg (init_state ex_cfg) ex_msgs)
  = [[]; []; []; []; []; [EDeliverCast 7]; []; [EProxySpawn 55 None]; [EListSessions]].
Proof. vm_compute; reflexivity. Qed.
Example ex_gate_wrong_cookie :
  existsb (fun x => existsb protected (snd x))
    (run_log dg_sym ex_cfg (init_state ex_cfg)
       [(NAuth (AName 1 2 3), ex_env 77);
        (NAuth (AClientChallenge 5 (dg_sym 1 77)), ex_env 0);
        (NNode (MCast 7), ex_env 0); (NControl (KSpawn [(55, None)]), ex_env 0);
        (NAuth (AClientChallenge 5 (dg_sym 0 77)), ex_env 0); (NNode (MCast 7), ex_env 0)]) = false.
Proof. vm_compute; reflexivity. Qed.

Example ex_listed :
  Listed.listed (fst (Elect.trun (Elect.mkTable 2 [])
     [Elect.TOpen 1 true; Elect.TOpen 2 true; Elect.TRegister 1 1 0; Elect.TRegister 2 5 0; Elect.TCommit 2])) = [2].
Proof. vm_compute; reflexivity. Qed.

Print Assumptions C17_close_absorbing_server.
Print Assumptions C17_close_absorbing_client.
Print Assumptions C17_close_forever_server.
Print Assumptions C17_close_forever_client.
Print Assumptions C17_unexpected_closes_server.
Print Assumptions C17_unexpected_closes_client.
Print Assumptions C17_ok_needs_digest_server.
Print Assumptions C17_ok_needs_digest_client.
Print Assumptions C17_wrong_digest_closes_server.
Print Assumptions C17_wrong_digest_closes_client.
Print Assumptions C17_fsm_oracle_sound_server.
Print Assumptions C17_fsm_oracle_sound_client.
Print Assumptions C17_gate.
Print Assumptions C17_gate_actor.
Print Assumptions C17_gate_step.
Print Assumptions C17_advertised_only.
Print Assumptions C17_session_close_absorbing.
Print Assumptions C17_session_ok_needs_digest.
Print Assumptions C17_ok_stable.
Print Assumptions C17_oracle_sound.
Print Assumptions C17_closed_oracle_sound.
Print Assumptions C17_getsessions_auth_only.
Print Assumptions C17_replay_closes_client.
Print Assumptions C17_dg_sym_injective.
Print Assumptions C17_gate_inputs.
