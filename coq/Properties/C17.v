(* C17 — Cluster: nothing from a peer takes effect before authentication.
   Only statements (pinned with their literal text), non-vacuity examples and
   Print Assumptions.  Models: Cluster/Auth.v (handshake state machines),
   Cluster/Gate.v (the session's network-message handler); proofs:
   Cluster/AuthProofs.v, Cluster/GateProofs.v.
   The digest function is universally quantified in every theorem ([dg]); no
   cryptographic assumption is made anywhere. *)
From Coq Require Import List NArith Bool.
From RV Require Import Cluster.Auth Cluster.AuthProofs.
Import ListNotations.
Local Open Scope N_scope.

(* ---------- (1) the handshake state machines ---------- *)

(* Close is absorbing: every sequence of peer messages and session operations
   (with every outcome of the random draws) leaves a closed FSM closed. *)
Theorem C17_close_absorbing_server : forall dg ck ops, s_run dg ck SClose ops = SClose.
Proof. exact s_run_close. Qed.

Theorem C17_close_absorbing_client : forall dg ck ops, c_run dg ck CClose ops = CClose.
Proof. exact c_run_close. Qed.

(* ... hence once any run has reached Close, every continuation stays there *)
Theorem C17_close_forever_server : forall dg ck st pre post,
  s_run dg ck st pre = SClose -> s_run dg ck st (pre ++ post) = SClose.
Proof. exact s_close_forever. Qed.

Theorem C17_close_forever_client : forall dg ck st pre post,
  c_run dg ck st pre = CClose -> c_run dg ck st (pre ++ post) = CClose.
Proof. exact c_close_forever. Qed.

(* any message other than the one the current state expects (including an empty
   message, a repeated one, one of the other role, a declined ClientStatus, or a
   challenge reply / ack whose digest differs from the stored one) yields Close *)
Theorem C17_unexpected_closes_server : forall dg st m ck rnd,
  s_expects st m = false -> s_next dg st m ck rnd = SClose.
Proof. exact s_unexpected_closes. Qed.

Theorem C17_unexpected_closes_client : forall dg st m ck rnd,
  c_expects st m = false -> c_next dg st m ck rnd = CClose.
Proof. exact c_unexpected_closes. Qed.

(* Ok needs the digest of the challenge this side issued (server role) *)
Theorem C17_ok_needs_digest_server : forall dg ck ops d,
  s_run dg ck SWaitName ops = SOk d ->
  exists pre ch c2 rnd post,
    ops = pre ++ SMsg (AClientChallenge c2 (dg ck ch)) rnd :: post
    /\ s_run dg ck SWaitName pre = SWaitReply ch (dg ck ch)
    /\ In ch (s_drawn pre)
    /\ d = dg ck c2
    /\ Forall (fun o => o = SForceWaitStatus) post.
Proof. exact s_ok_needs_digest. Qed.

(* ... and the client role: Ok is the state right after a ServerAck carrying
   dg cookie mych for the challenge mych this client drew *)
Theorem C17_ok_needs_digest_client : forall dg ck ops,
  c_run dg ck CWaitStatus ops = COk ->
  exists pre n cs sch mych rnd,
    ops = pre ++ [(AServerAck (dg ck mych), rnd)]
    /\ c_run dg ck CWaitStatus pre = CWaitAck n cs sch (dg ck sch) mych (dg ck mych)
    /\ In mych (c_drawn pre).
Proof. exact c_ok_needs_digest. Qed.

(* the reduction in contrapositive form: presenting anything but dg cookie ch closes *)
Theorem C17_wrong_digest_closes_server : forall dg ck ch c2 d rnd,
  d <> dg ck ch ->
  s_next dg (SWaitReply ch (dg ck ch)) (AClientChallenge c2 d) ck rnd = SClose.
Proof. exact s_wrong_digest_closes. Qed.

Theorem C17_wrong_digest_closes_client : forall dg ck n cs sch r mych d rnd,
  d <> dg ck mych ->
  c_next dg (CWaitAck n cs sch r mych (dg ck mych)) (AServerAck d) ck rnd = CClose.
Proof. exact c_wrong_digest_closes. Qed.

(* the executable FSM oracle accepts every model run (so it cannot raise a false
   alarm on behaviour that conforms to the model) *)
Theorem C17_fsm_oracle_sound_server : forall dg ck ops,
  check_C17_server dg ck SWaitName ops (s_trace dg ck SWaitName ops) = true.
Proof. exact check_server_sound_init. Qed.

Theorem C17_fsm_oracle_sound_client : forall dg ck ops,
  check_C17_client dg ck CWaitStatus ops (c_trace dg ck CWaitStatus ops) = true.
Proof. exact check_client_sound_init. Qed.

(*GATE-PART*)

(* ---- statement pins ---- *)
Check (C17_close_absorbing_server : forall dg ck ops, s_run dg ck SClose ops = SClose).
Check (C17_close_absorbing_client : forall dg ck ops, c_run dg ck CClose ops = CClose).
Check (C17_unexpected_closes_server : forall dg st m ck rnd,
  s_expects st m = false -> s_next dg st m ck rnd = SClose).
Check (C17_ok_needs_digest_server : forall dg ck ops d,
  s_run dg ck SWaitName ops = SOk d ->
  exists pre ch c2 rnd post,
    ops = pre ++ SMsg (AClientChallenge c2 (dg ck ch)) rnd :: post
    /\ s_run dg ck SWaitName pre = SWaitReply ch (dg ck ch)
    /\ In ch (s_drawn pre) /\ d = dg ck c2
    /\ Forall (fun o => o = SForceWaitStatus) post).

(* ---- non-vacuity ---- *)
Example ex_server_ok :
  s_run dg_sym 0 SWaitName
    [SMsg (AName 1 2 3) 0; SStart 77; SMsg (AClientChallenge 5 (dg_sym 0 77)) 0] = SOk (dg_sym 0 5).
Proof. vm_compute; reflexivity. Qed.
Example ex_server_alive_path_ok :
  s_run dg_sym 0 SWaitName
    [SMsg (AName 1 2 3) 0; SForceWaitStatus; SMsg (AClientStatus true) 9;
     SMsg (AClientChallenge 5 (dg_sym 0 9)) 0] = SOk (dg_sym 0 5).
Proof. vm_compute; reflexivity. Qed.
Example ex_server_wrong_cookie :
  s_run dg_sym 0 SWaitName
    [SMsg (AName 1 2 3) 0; SStart 77; SMsg (AClientChallenge 5 (dg_sym 1 77)) 0] = SClose.
Proof. vm_compute; reflexivity. Qed.
Example ex_client_ok :
  c_run dg_sym 0 CWaitStatus
    [(AServerStatus 0, 0); (AServerChallenge 7 8 99, 41); (AServerAck (dg_sym 0 41), 0)] = COk.
Proof. vm_compute; reflexivity. Qed.
Example ex_expects_nonvacuous :
  s_expects SWaitName (AName 1 2 3) = true /\ s_expects SWaitName AEmpty = false
  /\ c_expects CWaitStatus (AServerStatus 4) = true.
Proof. vm_compute; auto. Qed.

Print Assumptions C17_close_absorbing_server.
Print Assumptions C17_close_absorbing_client.
Print Assumptions C17_close_forever_server.
Print Assumptions C17_close_forever_client.
Print Assumptions C17_unexpected_closes_server.
Print Assumptions C17_unexpected_closes_client.
Print Assumptions C17_ok_needs_digest_server.
Print Assumptions C17_ok_needs_digest_client.
Print Assumptions C17_wrong_digest_closes_server.
Print Assumptions C17_wrong_digest_closes_client.
Print Assumptions C17_fsm_oracle_sound_server.
Print Assumptions C17_fsm_oracle_sound_client.
