(* C14 -- Factory routing keeps its promises about where a job runs.
   Only statements (pinned), non-vacuity examples, the refutation witness for the known
   deviation F3 and Print Assumptions. Model: Factory/Model.v; proofs: Factory/Route.v. *)
From Coq Require Import List NArith Bool.
From RV Require Import Factory.Model Factory.Scenario Factory.Oracle Factory.Route Factory.RoutePool Factory.RouteUniq Factory.RouteCouple Factory.RouteOrder.
Import ListNotations.
Local Open Scope N_scope.

(* (1) custom hashing: whatever the user's hash function returns (c_custom is an arbitrary
   function of the configuration), the selected worker is inside the current pool *)
Theorem C14_custom_in_pool : forall c k hint w wid w',
  c_router c = RCustom ->
  choose_target c k hint w = (Some wid, w') ->
  wid < pool_size w /\ in_pool w wid = true /\ w' = w.
Proof. exact custom_in_pool. Qed.

Theorem C14_custom_empty_pool : forall c k hint w,
  c_router c = RCustom -> pool_size w = 0 -> choose_target c k hint w = (None, w).
Proof. exact custom_empty_pool. Qed.

(* the default hash of key-persistent routing, using only h k n < n *)
Theorem C14_key_persistent_hash_in_pool : forall c k w wid w',
  c_router c = RKeyPersistent ->
  (forall k n, 0 < n -> c_hash c k n < n) ->
  find_worker (fun p => has_pending p k) (pool w) = None ->
  choose_target c k None w = (Some wid, w') ->
  wid < pool_size w.
Proof. exact key_persistent_hash_in_pool. Qed.

(* (2) round robin: what choose_target does without a usable hint ... *)
Theorem C14_round_robin_step : forall c k hint w,
  c_router c = RRoundRobin -> pool_size w <> 0 ->
  (match hint with Some h => worker_available w h | None => false end) = false ->
  let key := rr_next (pool_size w) (rr_last w) in
  choose_target c k hint w = (if in_pool w key then Some key else None, set_rr_last key w).
Proof. exact rr_choose. Qed.

(* ... and n consecutive such choices on a pool of n visit n distinct slots, all inside the
   pool, from any cursor position (also one left beyond the pool by a shrink) *)
Theorem C14_round_robin_spread : forall n last,
  0 < n ->
  let picks := rr_picks n last (N.to_nat n) in
  NoDup picks /\ length picks = N.to_nat n /\ Forall (fun x => x < n) picks.
Proof. exact round_robin_spread. Qed.

(* (3) queuer routing only ever selects an idle worker (so a worker handles one job at a
   time), and gives up only when no worker listed in its deque is idle *)
Theorem C14_queuer_target_idle : forall c k hint w wid w',
  c_router c = RQueuer ->
  choose_target c k hint w = (Some wid, w') ->
  worker_available w wid = true.
Proof. exact queuer_target_idle. Qed.

Theorem C14_queuer_no_idle_backlog_partial : forall c k w w',
  c_router c = RQueuer ->
  choose_target c k None w = (None, w') ->
  forall wid, In wid (avail w) -> worker_available w wid = false.
Proof. exact queuer_none_no_idle_listed. Qed.

(* (4) one job at a time, factory side: in every reachable state of every history (stale
   completions included) the factory records at most one running job per worker; it is an
   instance of the generic per-worker invariant theorem RoutePool.pool_invariant *)
Theorem C14_one_at_a_time : forall c n d rls ls wid p,
  lookup wid (pool (run c (init c n d rls) ls)) = Some p -> (length (w_curr p) <= 1)%nat.
Proof. exact one_at_a_time_factory_side. Qed.

(* (5) factory-side affinity of key-persistent routing, for EVERY history (stale completions
   included): a key is pending (queued or believed running) at no more than one worker. It is an
   instance of the generic pool-relation invariant theorem RouteUniq.pool_relation_invariant.
   (F3 breaks affinity between this bookkeeping and what the workers really hold, not inside it.) *)
Theorem C14_key_persistent_one_owner : forall c n d rls ls k w1 w2 p1 p2,
  c_router c = RKeyPersistent ->
  let pl := pool (run c (init c n d rls) ls) in
  lookup w1 pl = Some p1 -> lookup w2 pl = Some p2 ->
  has_pending p1 k = true -> has_pending p2 k = true -> w1 = w2.
Proof. exact kp_one_owner. Qed.

(* (6) AFFINITY, key-persistent routing, histories WITHOUT stale completions (run_ok: the factory
   never takes a Finished(w,k) whose sender -- ghost field of MFinished -- is no longer the actor
   behind slot w): two jobs of one key are never held -- in a handler or handed over to a mailbox --
   by actors of two different workers. For every configuration, pool size, resize, worker death
   and replacement, draining, stop. It rests on the coupling invariant (7) and on (5). *)
Theorem C14_affinity : forall c n d rls ls a1 a2 x1 x2 j1 j2,
  c_router c = RKeyPersistent ->
  run_ok c (init c n d rls) ls ->
  let w := run c (init c n d rls) ls in
  lookup a1 (actors w) = Some x1 -> lookup a2 (actors w) = Some x2 ->
  In j1 (actor_jobs x1) -> In j2 (actor_jobs x2) -> j_key j1 = j_key j2 ->
  a_wid x1 = a_wid x2.
Proof. exact kp_affinity. Qed.

(* (6') the same for STICKY-queuer routing since fix 36a533a (F11), for every history without stale
   completions -- in particular through the exit window of a worker (stopped gracefully, post_stop
   still running, supervisor not yet told), where the rule before the fix put one key on two workers
   (refutation example below). owner_router c = key-persistent, or sticky with c_sticky_pending. *)
Theorem C14_sticky_affinity : forall c n d rls ls a1 a2 x1 x2 j1 j2,
  c_router c = RSticky -> c_sticky_pending c = true ->
  run_ok c (init c n d rls) ls ->
  let w := run c (init c n d rls) ls in
  lookup a1 (actors w) = Some x1 -> lookup a2 (actors w) = Some x2 ->
  In j1 (actor_jobs x1) -> In j2 (actor_jobs x2) -> j_key j1 = j_key j2 ->
  a_wid x1 = a_wid x2.
Proof. intros c n d rls ls a1 a2 x1 x2 j1 j2 R S. apply owner_affinity. right. split; assumption. Qed.

Theorem C14_sticky_one_owner : forall c n d rls ls k w1 w2 p1 p2,
  c_router c = RSticky -> c_sticky_pending c = true ->
  let pl := pool (run c (init c n d rls) ls) in
  lookup w1 pl = Some p1 -> lookup w2 pl = Some p2 ->
  has_pending p1 k = true -> has_pending p2 k = true -> w1 = w2.
Proof. intros c n d rls ls k w1 w2 p1 p2 R S. apply one_owner. right. split; assumption. Qed.

(* (7) the coupling invariant itself (all routers): for histories without stale completions,
   whatever a worker actor holds is recorded in curr_jobs of the slot it stands behind *)
Theorem C14_held_job_is_recorded : forall c n d rls ls a x j,
  run_ok c (init c n d rls) ls ->
  let w := run c (init c n d rls) ls in
  lookup a (actors w) = Some x -> In j (actor_jobs x) ->
  exists p, lookup (a_wid x) (pool w) = Some p /\ w_aid p = a /\ has_pending p (j_key j) = true.
Proof. exact held_job_is_pending. Qed.

(* (8) key order, slot level (C14_key_order_partial): the pipeline of a worker slot -- mailbox of
   the actor behind it, then message_queue -- is FIFO under every worker-level operation of the
   factory: a new job enters at its end (or is shed), a completion only advances it, and the
   replacement of a dead worker continues with the predecessor's queue in the same order.
   By (5) all pending jobs of a key sit in ONE slot and by (7) what an actor holds belongs to the
   slot it stands behind; the composition into a statement about the global start order of a key
   is OPEN (see below). *)
Theorem C14_key_order_partial_enqueue : forall t p acts out j,
  Subseq (pipe (enqueue_job t (p, acts, out) j)) (pipe (p, acts, out) ++ [j_id j]).
Proof. exact enqueue_job_fifo. Qed.

Theorem C14_key_order_partial_complete : forall t p acts out k,
  Subseq (pipe (worker_complete t (p, acts, out) k)) (pipe (p, acts, out)).
Proof. exact worker_complete_fifo. Qed.

Theorem C14_key_order_partial_replace : forall t p acts out a,
  mb_of acts a = [] ->
  Subseq (pipe (replace_worker t (p, acts, out) a)) (map j_id (w_queue p)).
Proof. exact replace_worker_fifo. Qed.

(* actor side: a worker actor whose handler is busy does not take another job *)
Theorem C14_actor_busy_takes_nothing : forall a w x,
  lookup a (actors w) = Some x -> a_run x <> None -> w_start a w = w.
Proof. exact one_at_a_time_actor_side. Qed.

(* OPEN (stated, not proved in this round):
   (affinity for sticky routing: proved since fix 36a533a, (6').)
   C14_key_order (global): with key-persistent routing the EStart events of one key follow dispatch order.
     Proved so far: slot-level FIFO (8), one owner per key (5), coupling (7). Still needed: "factory queue
     non-empty => pool empty" for worker-queueing routers (true since aa3c2d4; needs the pool-domain
     invariant {0..pool_size-1} in pool and h k n < n) and the per-key subsequence invariant
     started ++ slot pipeline ++ factory queue ++ inbox  is a subsequence of the dispatch order.
   C14_queuer_no_idle_backlog (full): fq <> [] -> every idle non-draining pool worker is listed in `avail`.
   (one job at a time for the REAL slots -- mailbox + handler of a worker's actor -- is proved under the
     no-stale-completion hypothesis as C13_worker_holds_one in Properties/C13.v.)
   They are checked on every run by check_C14 on the implementation's histories and by the
   model/implementation view comparison; the unrestricted affinity statement is refuted below. *)

Definition started_order (evs : list (list event)) : list N :=
  flat_map (fun e => match e with EStart j _ _ => [j] | _ => [] end) (concat evs).

(* ---- pins *)
Check (C14_custom_in_pool : forall c k hint w wid w',
  c_router c = RCustom -> choose_target c k hint w = (Some wid, w') ->
  wid < pool_size w /\ in_pool w wid = true /\ w' = w).
Check (C14_round_robin_spread : forall n last, 0 < n ->
  let picks := rr_picks n last (N.to_nat n) in
  NoDup picks /\ length picks = N.to_nat n /\ Forall (fun x => x < n) picks).

(* ---- non-vacuity *)
Example rr_example : rr_picks 4 9 4 = [0; 1; 2; 3] /\ rr_picks 3 1 3 = [2; 0; 1].
Proof. vm_compute. split; reflexivity. Qed.

Definition cu := mk_config RCustom false [] [(7, 18446744073709551615); (8, 5)].
Example custom_example :
  scenario_events cu 3 None [] [ODispatch 1 7 None false; ODispatch 2 8 None false]
  = [[EStart 1 0 0]; [EStart 2 2 2]].
Proof. vm_compute. reflexivity. Qed.

(* ---- F3: the model reproduces the failure of the unchanged code.
   Key-persistent routing, one worker, three jobs of key 1. The factory is held inside the
   capacity controller while job 1 completes and the worker is killed. After the release the
   supervision event is processed first (replacement starts job 2), then the stale
   Finished(0,1) of the dead actor is matched against job 2: job 3 is handed to the busy
   replacement. When job 2 really completes the factory believes worker 0 idle
   (GetNumActiveWorkers = 0 while job 3 runs); after AdjustWorkerPool(4) job 4 of the same
   key is hashed to worker 1 and runs concurrently with job 3 on worker 0. *)
Definition kp1 := mk_config RKeyPersistent false [(1,1,0);(4,1,1)] [].
Definition f3_ops := [ODispatch 1 1 None false; ODispatch 2 1 None false; ODispatch 3 1 None false;
                      OHold; OComplete 0; OKill 0; ORelease 0; OComplete 0; OQuery;
                      OResize 4; ODispatch 4 1 None false].
Example C14_affinity_refuted :
  let w := scenario_final kp1 1 None [] f3_ops in
  (* two actors of different workers run a job of key 1 at the same time *)
  (exists a1 a2 j1 j2,
      lookup 1 (actors w) = Some a1 /\ lookup 2 (actors w) = Some a2
      /\ a_wid a1 = 0 /\ a_wid a2 = 1
      /\ a_run a1 = Some j1 /\ a_run a2 = Some j2 /\ j_key j1 = 1 /\ j_key j2 = 1)
  (* and the factory reported no active worker while job 3 was running *)
  /\ In (EQActive 0) (evs w).
Proof.
  vm_compute. split.
  - do 4 eexists. repeat split; reflexivity.
  - intuition.
Qed.

(* the history contains a stale completion in the sense of the ghost field: the actor that sent
   Finished(0,1) is actor 0, while worker 0's slot is held by actor 1 when it is processed *)
Example f3_has_stale_completion :
  stale_completions f3_ops (scenario_events kp1 1 None [] f3_ops) = [(0, 1)].
Proof. vm_compute. reflexivity. Qed.

Example oracle_flags_f3 :
  check_C14 kp1 1 None f3_ops (scenario_events kp1 1 None [] f3_ops)
  = [AActiveUnder 8 0 1; AAffinity 1 0 1 10].
Proof. vm_compute. reflexivity. Qed.

(* the hypothesis of (6)/(7) is decidable; it holds on ordinary histories with deaths and
   replacements and fails exactly on the F3 history *)
Definition death_ops := [ODispatch 1 1 None false; ODispatch 2 1 None false; OKill 0; OComplete 0;
                         OResize 4; ODispatch 3 1 None false; OComplete 0].
Example run_ok_with_deaths :
  run_ok kp1 (init kp1 1 None []) (labels_of kp1 1 None [] death_ops).
Proof. apply run_okb_ok. vm_compute. reflexivity. Qed.
Example f3_is_excluded :
  run_okb kp1 (init kp1 1 None []) (labels_of kp1 1 None [] f3_ops) = false.
Proof. vm_compute. reflexivity. Qed.

(* ---- F11 (fixed in /repo by 36a533a): sticky-queuer routing, worker 0 is stopped from outside and
   parks in its post_stop (exit window); job 1 (key 5) routed to it waits in its queue with curr_jobs
   empty. Under the pre-fix rule job 2 (key 5) goes to idle worker 1 and after the replacement both
   run at once; with the fix job 2 joins job 1 in worker 0's queue. No stale completion is involved. *)
Definition sq_pre := mk_config_pre_f11 RSticky false [] [].
Definition sq_fix := mk_config RSticky false [] [].
Definition f11_ops := [OXStop 0; ODispatch 1 5 None false; ODispatch 2 5 None false; OXRelease 0; OQuery].
Example C14_sticky_window_refuted_before_fix :
  check_C14 sq_pre 2 None f11_ops (scenario_events sq_pre 2 None [] f11_ops) = [AAffinity 5 1 0 3]
  /\ run_okb sq_pre (init sq_pre 2 None []) (labels_of sq_pre 2 None [] f11_ops) = true.
Proof. vm_compute. split; reflexivity. Qed.
Example C14_sticky_window_after_fix :
  check_C14 sq_fix 2 None f11_ops (scenario_events sq_fix 2 None [] f11_ops) = []
  /\ started_order (scenario_events sq_fix 2 None [] f11_ops) = [1]
  /\ run_okb sq_fix (init sq_fix 2 None []) (labels_of sq_fix 2 None [] f11_ops) = true.
Proof. vm_compute. repeat split; reflexivity. Qed.

(* ---- F8 (fixed in /repo by aa3c2d4): key-persistent routing started with an empty pool. Under the
   pre-fix rule only pool_size backlogged jobs are routed when the pool grows; job 3 (same key),
   dispatched afterwards, goes straight to the worker's queue and starts before job 2. *)
Definition kp0_pre := mk_config_pre_f8 RKeyPersistent false [(1,7,0)] [].
Definition kp0 := mk_config RKeyPersistent false [(1,7,0)] [].
Definition f8_ops := [ODispatch 1 7 None true; ODispatch 2 7 None true; OSetCount 1; ODispatch 3 7 None true;
                      OComplete 0; OComplete 0; OComplete 0].
Example C14_key_order_refuted_before_fix :
  check_C14 kp0_pre 0 None f8_ops (scenario_events kp0_pre 0 None [] f8_ops) = [AOrder 7 2 3].
Proof. vm_compute. reflexivity. Qed.
Example C14_key_order_after_fix :
  check_C14 kp0 0 None f8_ops (scenario_events kp0 0 None [] f8_ops) = []
  /\ started_order (scenario_events kp0 0 None [] f8_ops) = [1; 2; 3].
Proof. vm_compute. split; reflexivity. Qed.

(* ---- the exit window of a worker the factory retires itself: worker 1's actor gets a slow post_stop
   (OXGate), a shrink to 1 stops it, the pool grows back to 2 (a NEW actor, 2, is worker 1) while the
   old actor still sits in its post_stop; job 2 runs on the new actor when the old one's termination
   finally reaches the factory (OXRelease). The slot and the actor index were cleaned at the shrink, so
   the late event concerns nobody: job 3 (same key) waits behind job 2 on the same incarnation. A
   history in which the late event is taken for the new worker's death -- a replacement (actor 3)
   starts job 3 next to job 2 -- is rejected. *)
Definition shrink_window_ops :=
  [OXGate 1; OResize 1; OResize 2; ODispatch 1 5 None false; ODispatch 2 6 None false; OXRelease 1;
   ODispatch 3 6 None false; OQuery; OComplete 1; OQuery].
Example C14_late_termination_of_retired_worker :
  scenario_events sq_fix 2 None [] shrink_window_ops
  = [[]; []; []; [EStart 1 0 0]; [EStart 2 1 2]; []; []; [EQDepth 0; EQActive 2; EQCap 0];
     [EEnd 2 1 2; EStart 3 1 2]; [EQDepth 0; EQActive 2; EQCap 0]]
  /\ check_C14 sq_fix 2 None shrink_window_ops (scenario_events sq_fix 2 None [] shrink_window_ops) = []
  /\ check_C14 sq_fix 2 None shrink_window_ops
       [[]; []; []; [EStart 1 0 0]; [EStart 2 1 2]; []; [EStart 3 1 3]; [EQDepth 0; EQActive 2; EQCap 0];
        [EEnd 2 1 2]; [EQDepth 0; EQActive 2; EQCap 0]] = [ATwoAtOnce 1 6].
Proof. vm_compute. repeat split; reflexivity. Qed.

(* ---- no idle backlog, sticky queuer (judged where the model's own run is clean, lib/c14.py): both
   workers busy, jobs 3 and 4 of key 3 wait in the factory queue; worker 0 finishes and takes job 3,
   worker 1 finishes while the head's key runs on worker 0: job 4 goes to worker 0's queue and worker 1
   is free again -- job 5 starts on it at once. A history in which job 5 stays in the factory queue
   while worker 1 idles is rejected (by check_C13 as well: the job has no fate and nobody will give it one). *)
Definition backlog_ops :=
  [ODispatch 1 1 None false; ODispatch 2 2 None false; ODispatch 3 3 None false; ODispatch 4 3 None false;
   OComplete 0; OComplete 1; OQuery; ODispatch 5 5 None false; OQuery].
Example C14_sticky_freed_worker_takes_next :
  scenario_events sq_fix 2 None [] backlog_ops
  = [[EStart 1 0 0]; [EStart 2 1 1]; []; []; [EEnd 1 0 0; EStart 3 0 0]; [EEnd 2 1 1];
     [EQDepth 0; EQActive 1; EQCap 1]; [EStart 5 1 1]; [EQDepth 0; EQActive 2; EQCap 0]]
  /\ check_C14 sq_fix 2 None backlog_ops (scenario_events sq_fix 2 None [] backlog_ops) = []
  /\ check_C14 sq_fix 2 None backlog_ops
       [[EStart 1 0 0]; [EStart 2 1 1]; []; []; [EEnd 1 0 0; EStart 3 0 0]; [EEnd 2 1 1];
        [EQDepth 0; EQActive 1; EQCap 1]; []; [EQDepth 1; EQActive 1; EQCap 1]] = [AIdleBacklog 8].
Proof. vm_compute. repeat split; reflexivity. Qed.

(* ---- round robin across a shrink: two jobs leave the cursor at worker 2, the pool shrinks to 2, the
   cursor wraps and job 3 runs on worker 0. A history in which job 3 waits in the factory queue while
   both workers idle is rejected (judged where the model's own run is clean, lib/c14.py). *)
Definition rr14 := mk_config RRoundRobin false [] [].
Definition cursor_ops :=
  [ODispatch 1 1 None false; ODispatch 2 2 None false; OComplete 1; OComplete 2; OResize 2;
   ODispatch 3 3 None false; OQuery].
Example C14_round_robin_cursor_wraps_after_shrink :
  scenario_events rr14 3 None [] cursor_ops
  = [[EStart 1 1 1]; [EStart 2 2 2]; [EEnd 1 1 1]; [EEnd 2 2 2]; []; [EStart 3 0 0]; [EQDepth 0; EQActive 1; EQCap 1]]
  /\ check_C14 rr14 3 None cursor_ops (scenario_events rr14 3 None [] cursor_ops) = []
  /\ check_C14 rr14 3 None cursor_ops
       [[EStart 1 1 1]; [EStart 2 2 2]; [EEnd 1 1 1]; [EEnd 2 2 2]; []; []; [EQDepth 1; EQActive 0; EQCap 2]]
     = [AIdleBacklog 6].
Proof. vm_compute. repeat split; reflexivity. Qed.

Print Assumptions C14_custom_in_pool.
Print Assumptions C14_custom_empty_pool.
Print Assumptions C14_key_persistent_hash_in_pool.
Print Assumptions C14_round_robin_step.
Print Assumptions C14_round_robin_spread.
Print Assumptions C14_queuer_target_idle.
Print Assumptions C14_queuer_no_idle_backlog_partial.
Print Assumptions C14_one_at_a_time.
Print Assumptions C14_actor_busy_takes_nothing.
Print Assumptions C14_key_persistent_one_owner.
Print Assumptions C14_affinity.
Print Assumptions C14_held_job_is_recorded.
Print Assumptions C14_sticky_affinity.
Print Assumptions C14_sticky_one_owner.
Print Assumptions C14_key_order_partial_enqueue.
Print Assumptions C14_key_order_partial_complete.
Print Assumptions C14_key_order_partial_replace.
