(* C11 — Process groups reflect live membership and tell their monitors.
   Only statements, pins, non-vacuity examples and Print Assumptions.
   Models: Pg/Model.v (every pg function as one atomic step: all sequential histories),
           Pg/Conc.v  (the same functions split into the lock sections of the code, any
                       number of threads, every interleaving, notifications included).
   Proofs: Pg/Proofs.v, Pg/ConcProofs.v, Pg/ConcProofs2.v, Pg/OracleProofs.v. *)
From Coq Require Import List NArith Bool.
From RV Require Import Pg.Model Pg.Proofs Pg.Conc Pg.ConcProofs Pg.ConcProofs2 Pg.OracleProofs.
Import ListNotations.
Local Open Scope N_scope.

(* ------------------------------------------------------------------------------------
   Part 1: sequential histories (arbitrary length, arbitrary operations and arguments)
   ------------------------------------------------------------------------------------ *)

(* (1) join/leave/exit refine insertion/deletion on sets: after any history the forward
   map, the listener lists and the world listeners are exactly the specification's sets *)
Theorem C11_refines_set : forall ops,
  (forall s g a, In a (get_members (run ops) s g) <-> sm (spec_run ops) (s, g) a = true) /\
  (forall k a, nmem a (lis_of (run ops) k) = gm (spec_run ops) k a) /\
  (forall s a, nmem a (world_of (run ops) s) = wm (spec_run ops) s a) /\
  (forall a, p_dead (run ops) a = sdead (spec_run ops) a).
Proof.
  intros ops. destruct (refine_run ops) as [A [B [C D]]]. repeat split; auto.
  - apply members_spec. - apply members_spec.
Qed.

(* one step: the new membership is the old one plus/minus exactly the named live actors *)
Theorem C11_refines_set_step : forall st o, inv st ->
  forall k a, nmem a (mem_of (fst (step st o)) k) = sm (spec_step (abs st) o) k a.
Proof. intros st o I k a. destruct (refine_step st o I) as [A _]. apply A. Qed.

(* duplicates in one call and repeated joins are idempotent *)
Theorem C11_join_idempotent : forall ops s g acts k a,
  nmem a (mem_of (run (ops ++ [OJoin s g (acts ++ acts); OJoin s g acts])) k)
  = nmem a (mem_of (run (ops ++ [OJoin s g acts])) k).
Proof.
  intros ops s g acts k a.
  destruct (refine_run (ops ++ [OJoin s g (acts ++ acts); OJoin s g acts])) as [A _].
  destruct (refine_run (ops ++ [OJoin s g acts])) as [B _].
  simpl in A, B. rewrite A, B. unfold spec_run. rewrite !fold_left_app. simpl.
  unfold nmem. rewrite existsb_app.
  destruct (sm _ k a), (keqb (s, g) k), (existsb (N.eqb a) acts), (sdead _ a); reflexivity.
Qed.

(* (2) a group is listed iff it has members; every query answers from the membership *)
Theorem C11_index_agree : forall ops,
  let st := run ops in
  (forall s g, In g (which_scoped_groups st s) <-> get_members st s g <> []) /\
  (forall s g, In (s, g) (which_scopes_and_groups st) <-> get_members st s g <> []) /\
  (forall g, In g (which_groups st) <-> exists s, get_members st s g <> []) /\
  (forall s, In s (which_scopes st) <-> exists g, get_members st s g <> []) /\
  (forall s g, get_local_members st s g = filter is_local (get_members st s g)) /\
  (forall s, NoDup (which_scoped_groups st s)) /\ NoDup (which_scopes_and_groups st) /\
  NoDup (which_groups st) /\ NoDup (which_scopes st) /\ (forall s g, NoDup (get_members st s g)).
Proof. intros ops. apply index_agree, inv_run. Qed.

(* (3) the reverse index mirrors the forward maps *)
Theorem C11_reverse_agree : forall ops a,
  let st := run ops in
  (forall k, In k (r_mem (rel_of st a)) <-> In a (mem_of st k)) /\
  (forall k, In k (r_gmon (rel_of st a)) <-> In a (lis_of st k)) /\
  (forall s, In s (r_wmon (rel_of st a)) <-> In a (world_of st s)).
Proof.
  intros ops a. pose proof (inv_run ops) as I. repeat split; try apply I.
Qed.

(* (4) sequential no-zombie: a stopping/stopped actor is never added, and once its exit
   has run it is in no members list, no listener list, no world list and owns no
   reverse-index entry, whatever is called afterwards *)
Theorem C11_no_zombie_seq : forall ops1 ops2 a,
  let st := run (ops1 ++ OExit a :: ops2) in
  (forall k, ~ In a (mem_of st k)) /\ (forall k, ~ In a (lis_of st k)) /\
  (forall s, ~ In a (world_of st s)) /\ p_rels st a = None.
Proof. exact no_zombie. Qed.

Theorem C11_never_added : forall st o a k, inv st -> p_dead st a = true ->
  ~ In a (mem_of (fst (step st o)) k) /\ ~ In a (lis_of (fst (step st o)) k).
Proof. exact never_added. Qed.

(* (5) notifications: exactly the listeners of the group, of its scope and of all scopes,
   as they are at that step, one event per monitor relation, with the call's payload;
   the automatic leave emits one batch per group the actor was still in (the groups of its
   reverse index = the groups it is a member of, each once); nothing else is emitted *)
Theorem C11_notify_exact : forall st, inv st ->
  (forall s g acts,
     snd (join st s g acts) =
     let kept := filter (fun a => negb (p_dead st a)) acts in
     if null kept then [] else map (fun l => mkEv l true s g kept) (recipients st s g)) /\
  (forall s g acts,
     snd (leave st s g acts) =
     if has_entry st (s, g) then map (fun l => mkEv l false s g acts) (recipients st s g) else []) /\
  (forall k, has_entry st k = true <-> (mem_of st k <> [] \/ lis_of st k <> [])) /\
  (forall a, p_dead st a = false ->
     snd (exit_ st a) =
     flat_map (fun k => map (fun l => mkEv l false (fst k) (snd k) [a])
                            (recipients (fst (exit_ st a)) (fst k) (snd k)))
              (r_mem (rel_of st a))) /\
  (forall a, NoDup (r_mem (rel_of st a)) /\ forall k, In k (r_mem (rel_of st a)) <-> In a (mem_of st k)) /\
  (forall a, p_dead st a = true -> snd (exit_ st a) = []) /\
  (forall g a, snd (step st (OMon g a)) = []) /\ (forall s a, snd (step st (OMonScope s a)) = []) /\
  (forall g a, snd (step st (ODemon g a)) = []) /\ (forall s a, snd (step st (ODemonScope s a)) = []) /\
  (forall s g l, count_occ N.eq_dec (recipients st s g) l = fanout (abs st) s g l).
Proof.
  intros st I. repeat split; auto.
  - intros. apply notify_join.
  - intros. apply notify_leave.
  - apply entry_iff; auto. - apply entry_iff; auto.
  - intros. apply notify_exit; auto.
  - apply (i_nd_rmem _ I). - apply (i_rmem _ I). - apply (i_rmem _ I).
  - intros. apply exit_dead_noev; auto.
  - intros. apply recipients_count; auto.
Qed.

(* the invariant holds after every history, so (5) applies at every step of every history *)
Theorem C11_inv_always : forall ops, inv (run ops).
Proof. exact inv_run. Qed.

(* ------------------------------------------------------------------------------------
   Part 2: every interleaving of the lock sections (Pg/Conc.v): any number of concurrent
   join/leave/monitor/demonitor calls with arbitrary arguments, any actor exits, any
   schedule (list of labels, no bound)
   ------------------------------------------------------------------------------------ *)

(* the interleaving invariant (Appendix C: P2 in the direction clean-up relies on, P3, P5,
   lock discipline) holds in every reachable state *)
Theorem C11_conc_invariant : forall calls ls, cinv (crun (cinit calls) ls).
Proof. exact cinv_crun. Qed.

(* (4) no zombie, whatever was racing with the exit: once the clean-up block of an actor's
   exit has finished (wait() returns only after that), the actor is in no members list, no
   listener list, no world-listener list, its reverse index mentions nothing, no join in
   flight has it among its accepted actors (so it cannot be added later), and its status is
   published *)
Theorem C11_no_zombie : forall calls ls a,
  let c := crun (cinit calls) ls in
  c_x c a = XDone ->
  (forall k, ~ In a (mem_of (c_pg c) k)) /\
  (forall k, ~ In a (lis_of (c_pg c) k)) /\
  (forall s, ~ In a (world_of (c_pg c) s)) /\
  (forall k, ~ In k (r_mem (rel_of (c_pg c) a))) /\
  (forall k, ~ In k (r_gmon (rel_of (c_pg c) a))) /\
  (forall s, ~ In s (r_wmon (rel_of (c_pg c) a))) /\
  (forall t p k, nth_error (c_thr c) t = Some p -> holds p k -> ~ In a (accs p)) /\
  p_dead (c_pg c) a = true.
Proof. exact no_zombie_conc. Qed.

(* an actor enters a join's accepted set only at a locked re-check that read "not stopping" *)
Theorem C11_accepted_only_alive : forall t p c a,
  In a (accs (fst (tstep t p c))) -> ~ In a (accs p) -> p_dead (c_pg c) a = false.
Proof. exact accepted_only_alive. Qed.

(* (3, concurrent form) whoever is in a forward list is recorded in the reverse index or in
   the pending work of its own exit *)
Theorem C11_forward_recorded : forall calls ls a k,
  let c := crun (cinit calls) ls in
  (In a (mem_of (c_pg c) k) -> In k (r_mem (rel_of (c_pg c) a)) \/ pend_m (c_x c a) k) /\
  (In a (lis_of (c_pg c) k) -> In k (r_gmon (rel_of (c_pg c) a)) \/ pend_g (c_x c a) k).
Proof. exact forward_recorded. Qed.

(* (2, concurrent form; Appendix C P1) in every reachable state, for every key whose entry no
   thread holds, the scope index lists the group iff it has members.  (While a leave_scoped
   section holds the entry it has removed members and fixes the index in its last step; the
   stronger statement excludes only those sections: index_agree_conc.) *)
Theorem C11_index_agree_conc : forall calls ls s g,
  let c := crun (cinit calls) ls in
  c_held c (s, g) = None ->
  (In g (which_scoped_groups (c_pg c) s) <-> get_members (c_pg c) s g <> []).
Proof. exact index_agree_unheld. Qed.

(* (4, leak-freedom; Appendix C P4) once the exit clean-up of a has finished, an
   actor_relations entry for a exists only while a call that created it is still going to
   remove it (a join that rejected a, a monitor/monitor_scope naming a), it is empty, and at
   quiescence there is none.  (Empty entries of LIVE actors are left by leave_scoped /
   demonitor by design of the code and are removed by the actor's exit.) *)
Theorem C11_no_leak : forall calls ls a,
  let c := crun (cinit calls) ls in
  c_x c a = XDone ->
  rel_is_empty (rel_of (c_pg c) a) = true /\
  ((forall t p, nth_error (c_thr c) t = Some p -> ~ obliged p a) -> p_rels (c_pg c) a = None) /\
  ((forall t p, nth_error (c_thr c) t = Some p -> p = Done) -> p_rels (c_pg c) a = None).
Proof.
  intros calls ls a c XD. repeat split.
  - apply late_entry_empty; auto.
  - apply no_leak_conc; auto.
  - apply no_leak_quiescent; auto.
Qed.

(* ------------------------------------------------------------------------------------
   Part 3: the executable oracle
   ------------------------------------------------------------------------------------ *)
(* check_C11 accepts the views of every history of the atomic model whose operations stay in
   the universe it enumerates (duplicate-free scope/group/actor lists, scope 0 reserved for
   "all scopes"): it can never raise a false alarm on model-conforming behaviour *)
Theorem C11_oracle_sound : forall u ops,
  wf_u u -> forallb (op_in u) ops = true ->
  check_C11 u ops (run_views u pg0 ops) = true.
Proof. exact check_C11_sound. Qed.

(* ------------------------------------------------------------------------------------
   Part 4: notifications in the micro-step model (Pg/Conc.v: tstep_evs, xstep_evs, clog)
   ------------------------------------------------------------------------------------ *)
(* (5, at the linearization point) the step of join_scoped that makes the accepted actors
   members is the step that clones the group's listeners; the Join naming exactly these
   actors is later sent to exactly these listeners; the world listeners are those of the
   state in which the thread reads them (JW1, JW2) *)
Theorem C11_notify_join_point : forall t c k kept acc stopped,
  let joined := filter (fun a => nmem a acc) kept in
  let lis := lis_of (c_pg c) k in
  let c' := snd (tstep t (JCommit k kept acc stopped) c) in
  fst (tstep t (JCommit k kept acc stopped) c) = JS k joined lis stopped /\
  (forall a, In a (mem_of (c_pg c') k) <-> In a (mem_of (c_pg c) k) \/ In a joined) /\
  (forall c2, tstep_evs (JN k joined lis) c2 = notify_list lis true (fst k) (snd k) joined) /\
  (forall c2, tstep_evs (JW1 k joined) c2 = notify_list (world_of (c_pg c2) (fst k)) true (fst k) (snd k) joined) /\
  (forall c2, tstep_evs (JW2 k joined) c2 = notify_list (world_of (c_pg c2) WORLD) true (fst k) (snd k) joined).
Proof. exact join_commit_point. Qed.

(* these are the atomic model's events for that state when all named actors are (still) live *)
Theorem C11_notify_join_as_atomic : forall g s g0 kept,
  kept <> [] -> (forall a, In a kept -> p_dead g a = false) ->
  snd (join g s g0 kept)
  = notify_list (lis_of g (s, g0)) true s g0 kept ++ notify_list (world_of g s) true s g0 kept
    ++ notify_list (world_of g WORLD) true s g0 kept.
Proof. exact join_events_as_atomic. Qed.

Theorem C11_notify_leave_point : forall t c k acts,
  fst (tstep t (LL k acts []) c) = LN k acts (lis_of (c_pg c) k) /\
  (forall c2, tstep_evs (LN k acts (lis_of (c_pg c) k)) c2 = notify_list (lis_of (c_pg c) k) false (fst k) (snd k) acts).
Proof. exact leave_commit_point. Qed.

(* the automatic leave: one batch per group the actor is still a member of when leave_all
   visits that entry *)
Theorem C11_notify_exit_point : forall a c k todo evs,
  free c k = true ->
  fst (xstep a (XL (k :: todo) evs) c)
  = XL todo (evs ++ if nmem a (mem_of (c_pg c) k) then [(k, lis_of (c_pg c) k)] else []).
Proof. exact exit_batch_point. Qed.

(* OPEN — refinement of every schedule of Conc.v to a sequential history of the atomic model.
   NOT proved, and FALSE for the atomic alphabet of Pg/Model.v as it stands, for two reasons
   that the examples below exhibit in the micro-step model (the real code behaves the same):
   (a) the exit is two-phase: between the publication of Stopping and leave_all's visit of a
       group, registrations naming the actor are already rejected while queries still see it
       as a member (ex_two_phase_exit): a rejected join that returned BEFORE a query that
       still sees the member cannot be ordered around a one-shot OExit.  The right sequential
       alphabet splits OExit into Publish a ; AutoLeave a k ... (one per group);
   (b) join_scoped re-checks each actor under its own relations lock at a different instant:
       a call naming two actors is linearizable per (call, actor), not as one insertion
       (ex_join_per_actor: 7 accepted, then 7 and 8 publish in this order, then 8 rejected —
       at no single instant was 7 live and 8 stopping).
   What is proved instead: for every schedule the safety clauses (C11_no_zombie, C11_no_leak,
   C11_index_agree_conc, C11_forward_recorded), the notification facts at the commit points
   above, and equality with the atomic model on solo runs (checked per case by solo_agree,
   events included).  A simulation proof against the split alphabet is future work. *)

(* ---- statement pins ---- *)
Check (C11_no_zombie_seq : forall ops1 ops2 a,
  let st := run (ops1 ++ OExit a :: ops2) in
  (forall k, ~ In a (mem_of st k)) /\ (forall k, ~ In a (lis_of st k)) /\
  (forall s, ~ In a (world_of st s)) /\ p_rels st a = None).
Check (C11_no_zombie : forall calls ls a,
  let c := crun (cinit calls) ls in
  c_x c a = XDone ->
  (forall k, ~ In a (mem_of (c_pg c) k)) /\
  (forall k, ~ In a (lis_of (c_pg c) k)) /\
  (forall s, ~ In a (world_of (c_pg c) s)) /\
  (forall k, ~ In k (r_mem (rel_of (c_pg c) a))) /\
  (forall k, ~ In k (r_gmon (rel_of (c_pg c) a))) /\
  (forall s, ~ In s (r_wmon (rel_of (c_pg c) a))) /\
  (forall t p k, nth_error (c_thr c) t = Some p -> holds p k -> ~ In a (accs p)) /\
  p_dead (c_pg c) a = true).
Check (C11_refines_set_step : forall st o, inv st ->
  forall k a, nmem a (mem_of (fst (step st o)) k) = sm (spec_step (abs st) o) k a).

(* ---- non-vacuity ---- *)
Definition ex_ops : list op :=
  [OMon 2 3; OMonScope 1 4; OMonScope 0 101; OJoin 1 2 [1; 1; 102]; OJoin 1 2 [1]; OJoin 2 2 [2];
   OLeave 1 2 [1; 4]; OExit 102; OExit 3; OJoin 1 2 [102; 2]].
Example ex_members : get_members (run ex_ops) 1 2 = [2] /\ which_scopes (run ex_ops) = [2; 1]
                     /\ which_scoped_groups (run ex_ops) 1 = [2].
Proof. vm_compute. auto. Qed.
Example ex_events :
  snd (step (run (firstn 3 ex_ops)) (OJoin 1 2 [1; 1; 102]))
  = [mkEv 3 true 1 2 [1; 1; 102]; mkEv 4 true 1 2 [1; 1; 102]; mkEv 101 true 1 2 [1; 1; 102]].
Proof. vm_compute. reflexivity. Qed.
Example ex_exit_events :
  snd (step (run (firstn 7 ex_ops)) (OExit 102)) = [mkEv 3 false 1 2 [102]; mkEv 4 false 1 2 [102]; mkEv 101 false 1 2 [102]].
Proof. vm_compute. reflexivity. Qed.
Example ex_oracle :
  let u := mkU [1; 2; 3] [1; 2; 3] [1; 2; 3; 4; 101; 102] in
  check_C11 u ex_ops (run_views u pg0 ex_ops) = true.
Proof. vm_compute. reflexivity. Qed.
(* the oracle is not vacuous: a zombie member is rejected *)
Example ex_oracle_rejects :
  let u := mkU [1] [1] [1; 2] in
  check_C11 u [OJoin 1 1 [1]; OExit 1]
    (run_views u pg0 [OJoin 1 1 [1]] ++ run_views u pg0 [OJoin 1 1 [1]]) = false.
Proof. vm_compute. reflexivity. Qed.

(* the race of the property, as a concrete schedule of the micro-step model: the join has
   accepted actor 7 and holds the entry; 7 publishes Stopping and drains its reverse index;
   its leave_all blocks on the entry; the join commits (7 is a member for a moment); the
   exit removes it; at XDone 7 is nowhere *)
Definition ex_sched : list label :=
  [LT 0; LT 0; LT 0; LT 0; LX 7; LX 7; LX 7; LX 7; LX 7; LX 7; LT 0; LT 0]
  ++ repeat (LX 7) 8 ++ repeat (LT 0) 5.
Example ex_race_mid :
  let c := crun (cinit [CJoin 1 1 [7]]) (firstn 12 ex_sched) in
  mem_of (c_pg c) (1, 1) = [7] /\ p_dead (c_pg c) 7 = true /\ c_x c 7 = XL [(1, 1)] [].
Proof. vm_compute. auto. Qed.
Example ex_race_end :
  let c := crun (cinit [CJoin 1 1 [7]]) ex_sched in
  mem_of (c_pg c) (1, 1) = [] /\ c_x c 7 = XDone /\ p_rels (c_pg c) 7 = None /\ c_thr c = [Done]
  /\ which_scoped_groups (c_pg c) 1 = [].
Proof. vm_compute. auto. Qed.
(* the exit really blocks while the join holds the entry *)
Example ex_race_blocked :
  c_x (crun (cinit [CJoin 1 1 [7]]) (firstn 10 ex_sched)) 7 = XL [(1, 1)] [].
Proof. vm_compute. reflexivity. Qed.

(* observation O2 in the model (the real code shows the same order, docs/notes/C11.md): actor 3
   monitors group (1,1); the join of 7 has released the entry but not yet notified; 7 exits
   completely (its automatic Leave is sent); then the join sends its Join: the monitor is told
   Leave [7] and afterwards Join [7].  The property constrains recipients and payload, not the
   order of notifications of different calls. *)
Example ex_O2_order :
  clog (cinit [CMon 1 3; CJoin 1 1 [7]])
       (repeat (LT 0) 3 ++ repeat (LT 1) 7 ++ repeat (LX 7) 12 ++ repeat (LT 1) 4)
  = [mkEv 3 false 1 1 [7]; mkEv 3 true 1 1 [7]].
Proof. vm_compute. reflexivity. Qed.

(* the two phenomena that rule out a one-shot-exit / one-shot-join sequential specification *)
Example ex_two_phase_exit :
  let c := crun (cinit [CJoin 1 1 [7]; CJoin 2 1 [7]]) (repeat (LT 0) 12 ++ [LX 7] ++ repeat (LT 1) 12) in
  c_thr c = [Done; Done] /\ p_dead (c_pg c) 7 = true
  /\ get_members (c_pg c) 2 1 = []        (* the second join has returned: rejected *)
  /\ get_members (c_pg c) 1 1 = [7].      (* a later query still sees the member *)
Proof. vm_compute. auto. Qed.
Example ex_join_per_actor :
  let c := crun (cinit [CJoin 1 1 [7; 8]]) (repeat (LT 0) 5 ++ [LX 7] ++ repeat (LX 8) 3 ++ repeat (LT 0) 2) in
  c_thr c = [JCommit (1, 1) [7; 8] [7] [8]] /\ c_x c 7 = XPub /\ c_x c 8 = XDone.
Proof. vm_compute. auto. Qed.

Print Assumptions C11_refines_set.
Print Assumptions C11_refines_set_step.
Print Assumptions C11_join_idempotent.
Print Assumptions C11_index_agree.
Print Assumptions C11_reverse_agree.
Print Assumptions C11_no_zombie_seq.
Print Assumptions C11_never_added.
Print Assumptions C11_notify_exact.
Print Assumptions C11_inv_always.
Print Assumptions C11_conc_invariant.
Print Assumptions C11_no_zombie.
Print Assumptions C11_accepted_only_alive.
Print Assumptions C11_forward_recorded.
Print Assumptions C11_index_agree_conc.
Print Assumptions C11_no_leak.
Print Assumptions C11_oracle_sound.
Print Assumptions C11_notify_join_point.
Print Assumptions C11_notify_join_as_atomic.
Print Assumptions C11_notify_leave_point.
Print Assumptions C11_notify_exit_point.
