(* C11 — placeholder while the proofs are being written *)
From Coq Require Import List NArith Bool.
From RV Require Import Pg.Model.
Import ListNotations.
Local Open Scope N_scope.
Example ex_c11_run : get_members (run [OJoin 1 1 [1; 2; 1]; OExit 1]) 1 1 = [2].
Proof. vm_compute; reflexivity. Qed.
