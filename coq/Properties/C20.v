(* C20 — Cluster: remote actors behave like the actors they stand for.
   Only statements (pinned with their literal text), non-vacuity examples and
   Print Assumptions. Model: Cluster/Remote.v; proofs: Cluster/RemoteProofs.v (proxy, chains),
   Cluster/RemoteNetProofs.v (two-node system). *)
From Coq Require Import List NArith Bool Sorted Lia Arith.
From RV Require Import Cluster.Remote Cluster.RemoteProofs Cluster.RemoteNetProofs Cluster.RemoteReplyProofs.
From RV Require Cluster.Writer Cluster.Frame Cluster.WriterReader.
Import ListNotations.
Local Open Scope N_scope.

(* (1a) the proxy, over every history of messages, abandoned callers and session failures:
   request tags are handed out in strictly increasing order, hence pairwise distinct; the
   counter equals the number of calls so far, so it coincides with the code's u64 counter for
   every history with fewer than 2^64 calls through one proxy (beyond that the real counter
   overflows: a debug build panics, a release build wraps around and the theorem does not apply) *)
Theorem C20_tags_fresh_proxy : forall evs st outs,
  prun pst0 evs = (st, outs) ->
  StronglySorted N.lt (map fst (inserted evs outs))
  /\ NoDup (map fst (inserted evs outs))
  /\ p_tag st = ncalls evs
  /\ forall e, In e (inserted evs outs) -> 0 < fst e <= ncalls evs.
Proof. exact proxy_tags_fresh. Qed.

(* (2a) a reply with tag t resolves exactly the port that was inserted under t, which is the
   only port ever inserted under t; no request is resolved twice; also after abandoned requests
   were reclaimed (the environment of a history closes ports at will) *)
Theorem C20_reply_correlation_proxy : forall evs st outs t p,
  prun pst0 evs = (st, outs) ->
  In (t, p) (resolved evs outs) ->
  In (t, p) (inserted evs outs)
  /\ (forall p', In (t, p') (inserted evs outs) -> p' = p)
  /\ NoDup (map fst (resolved evs outs)).
Proof. exact proxy_reply_correlation. Qed.

(* (2b) reclamation only ever removes requests whose caller is gone: a pending request with a
   live caller is found by its reply *)
Theorem C20_reply_finds_open : forall c ok st t p d,
  pinv st -> In (t, p) (p_pend st) -> c p = false ->
  snd (pstep c ok st (PReply t d)) = [OResolve p d].
Proof. exact proxy_reply_finds_open. Qed.

(* ====================================================================== *)
(* the two-node system: every theorem below quantifies over ALL label sequences, i.e. every
   interleaving of: senders, callers abandoning, each proxy, each stage of both chains
   (mailboxes, writer, pipe, reader; any number of stages), both sessions, each real actor, reply
   tasks, spawn/join/leave/exit on the actors' node, and connection loss; and over arbitrary user
   code [resp] of the real actors *)

(* composition of FIFO stages is a FIFO: entering at stage 0 appends to the flattened chain, an
   inner hop does not change it, leaving at the last stage takes its head; a cut keeps a prefix *)
Theorem C20_chain_is_fifo : forall (A : Type) (l : list (list A)) (x : A),
  flat (push x l) = flat l ++ [x]
  /\ (forall i, flat (hop i l) = flat l)
  /\ (forall y l', pop_last l = Some (y, l') -> flat l = y :: flat l')
  /\ (forall k, exists rest, flat l = flat (cut k l) ++ rest).
Proof.
  intros A l x. split; [apply flat_push|]. split; [intros i; apply flat_hop|].
  split; [intros y l'; apply flat_pop|intros k; apply flat_cut].
Qed.

(* connection loss at ANY byte offset: if one stage is a byte pipe carrying self-delimiting frames
   (hypotheses on enc/dec; the real framing is an 8-byte length prefix, C19), what a reader gets
   out of the first n bytes is a prefix of the frames written — the rest, a suffix, is lost.
   This is what the label [LClose k] of the transition system does for every k. *)
Theorem C20_cut_at_any_byte : forall (F : Type) (enc : F -> list N) (dec : list N -> option (F * list N)),
  (forall f rest, dec (enc f ++ rest) = Some (f, rest)) ->
  (forall f bs c tl, enc f = bs ++ c :: tl -> dec bs = None) ->
  dec [] = None ->
  forall fs n fuel,
    (length (firstn n (concat (map enc fs))) <= fuel)%nat ->
    exists k, read_all dec fuel (firstn n (concat (map enc fs))) = firstn k fs.
Proof. exact @cut_at_any_byte. Qed.

(* (1) tags inserted into pending by a proxy are strictly increasing, hence pairwise distinct,
   bounded by the counter, and pending only holds inserted pairs *)
Theorem C20_tags_fresh : forall resp nf nb ls pid, let st := run resp (init nf nb) ls in
  x_alive (px st pid) = true ->
  StronglySorted N.lt (map fst (ins st pid))
  /\ NoDup (map fst (ins st pid))
  /\ (forall e, In e (ins st pid) -> fst e <= p_tag (x_st (px st pid)))
  /\ incl (p_pend (x_st (px st pid))) (ins st pid).
Proof. exact net_tags_fresh. Qed.

(* (2) end to end: a caller's port is only ever resolved with the real actor's answer to the very
   call that was made with this port (ports identify calls uniquely) — whatever else is
   outstanding, abandoned, reclaimed, reordered among reply tasks, or lost *)
Theorem C20_reply_correlation : forall resp nf nb ls p d, let st := run resp (init nf nb) ls in
  In (p, d) (res st) ->
  exists pid m, In (pid, m, p) (calls st) /\ m_call m = true /\ resp pid m = Some d
                /\ forall pid' m', In (pid', m', p) (calls st) -> pid' = pid /\ m' = m.
Proof. exact net_reply_correlation. Qed.

(* (2') and the reply does come back: if no fault hit the target, the caller is still there, the
   real actor answers the call, and nothing about this call is on its way any more (the proxy's
   mailbox, the frames to the target, the target's mailbox, the reply tasks and the backward
   chain are empty), then the port HAS been resolved — by (2) with exactly that answer *)
Theorem C20_reply_complete : forall resp nf nb ls pid m port d,
  let st := run resp (init nf nb) ls in
  In (pid, m, port) (calls st) -> m_call m = true -> resp pid m = Some d ->
  lossy st pid = false -> ~ In port (aband st) ->
  x_mbox (px st pid) = [] -> fmsgs pid (flat (fwd st)) = [] -> t_mbox (tg st pid) = [] ->
  pool st = [] -> flat (bwd st) = [] ->
  In (port, d) (res st).
Proof. exact net_reply_complete. Qed.

(* (3) per target, what the real actor handled is a subsequence of what its remote reference
   accepted: same messages (cast/call, variant, bytes), same order; hence per sender, for every
   way [f] of attributing messages to senders *)
Theorem C20_fifo_per_sender : forall resp nf nb ls pid (f : msg -> bool),
  let st := run resp (init nf nb) ls in
  subseq (filter f (dlv st pid)) (filter f (sent st pid)).
Proof. exact net_fifo_per_sender. Qed.

(* (3') and as long as no fault hit the target (it did not exit, its proxy was not terminated,
   the session did not close) nothing is lost: accepted = handled ++ still in flight, so what
   was handled is a prefix and at quiescence everything has been handled *)
Theorem C20_fifo_no_gaps : forall resp nf nb ls pid, let st := run resp (init nf nb) ls in
  lossy st pid = false -> sent st pid = dlv st pid ++ inflight st pid.
Proof. exact net_fifo_no_gaps. Qed.

(* (4) mirror: replaying the lifecycle frames still in flight on X's view of pid yields exactly
   Y's state of pid (alive / exited / unknown, and its groups); the replay never revives a
   terminated proxy (ksim would be None) *)
Theorem C20_mirror_lifecycle : forall resp nf nb ls pid, let st := run resp (init nf nb) ls in
  up st = true ->
  ksim pid (xview (px st pid)) (flat (bwd st) ++ ctl st) = Some (yview (tg st pid)).
Proof. exact net_mirror. Qed.

(* (4') once the Spawn/PgJoin/PgLeave/Terminate frames about pid have been processed, the proxy
   exists iff the original is alive and is in exactly the original's groups *)
Theorem C20_mirror_settled : forall resp nf nb ls pid, let st := run resp (init nf nb) ls in
  up st = true ->
  (forall f, In f (flat (bwd st) ++ ctl st) -> is_ctl_for pid f = false) ->
  x_alive (px st pid) = t_alive (tg st pid) /\ x_groups (px st pid) = t_groups (tg st pid).
Proof. exact net_mirror_settled. Qed.

(* (4a) the exit of a live actor is always announced with a Terminate frame, whatever inbound
   messages were handled before (the model has no "still advertised" condition on it); together
   with (4) the proxy stops once the frame is processed *)
Theorem C20_exit_announced : forall st pid,
  t_alive (tg st pid) = true ->
  In (FTerm pid) (ctl (do_exit st pid)) /\ t_alive (tg (do_exit st pid) pid) = false.
Proof. exact exit_announced. Qed.

(* (4'') after the session closed every proxy is stopped, in no group, sends to it fail (the state
   does not change, nothing is accepted), and this stays so whatever happens next *)
Theorem C20_closed : forall resp nf nb ls pid, let st := run resp (init nf nb) ls in
  up st = false ->
  x_alive (px st pid) = false /\ x_groups (px st pid) = []
  /\ (forall m port, step resp st (LSend pid m port) = st)
  /\ forall ls', let st' := run resp st ls' in up st' = false /\ x_alive (px st' pid) = false.
Proof. exact net_closed. Qed.

(* the oracle's order test (greedy subsequence matching, the function check_fifo uses on what the
   real nodes did) accepts every run of the model: it cannot raise a false alarm on
   model-conforming behaviour *)
Theorem C20_oracle_sound : forall resp nf nb ls pid (f : msg -> bool),
  let st := run resp (init nf nb) ls in
  subseqb msg_eqb (filter f (dlv st pid)) (filter f (sent st pid)) = true.
Proof. exact oracle_fifo_sound. Qed.

(* the unit-level oracle (applied to the real handler's outputs in E3) accepts every history of
   the model proxy *)
Theorem C20_oracle_sound_proxy : forall evs st outs,
  prun pst0 evs = (st, outs) -> check_C20_proxy evs outs = true.
Proof. exact proxy_oracle_sound. Qed.

(* the session's write task (run_write_task): coalescing any number of queued frames into one
   write is transparent — bytes on the wire ++ encodings of what is still queued = encodings of
   everything handed to the writer, in order, for every encoding and every schedule of sends and
   batches (the FIFO "writer channel" stage of the chain above, justified at byte level) *)
Theorem C20_writer_transparent : forall frame (enc : frame -> list N) ls s,
  Writer.run frame enc (Writer.init frame) ls = Some s -> Writer.dead frame s = false ->
  Writer.wire frame s ++ Writer.encs frame enc (Writer.queue frame s)
  = Writer.encs frame enc (Writer.sent frame ls).
Proof. exact Writer.writer_transparent. Qed.

(* after a failed write_all the wire holds a byte PREFIX of that stream: truncation only *)
Theorem C20_writer_failure_truncates : forall frame (enc : frame -> list N) ls s,
  Writer.run frame enc (Writer.init frame) ls = Some s ->
  exists more, Writer.wire frame s ++ more = Writer.encs frame enc (Writer.sent frame ls).
Proof. exact Writer.writer_failure_truncates. Qed.

(* byte pipe end to end: whatever batches the write task formed and however the transport
   fragments them, the session reader (C19's Frame model) produces what it produces on the plain
   concatenation of the frames' encodings, in hand-over order *)
Theorem C20_writer_reader_end_to_end :
  forall (max : N) (valid : list N -> bool) (frame : Type) (enc : frame -> list N) ls s chunks,
    Writer.run frame enc (Writer.init frame) ls = Some s -> Writer.dead frame s = false ->
    Writer.queue frame s = [] ->
    concat chunks = Writer.wire frame s ->
    Frame.run max valid chunks = Frame.run max valid [Writer.encs frame enc (Writer.sent frame ls)].
Proof. exact WriterReader.writer_reader_end_to_end. Qed.

(* ---- statement pins ---- *)
Check (C20_tags_fresh_proxy : forall evs st outs,
  prun pst0 evs = (st, outs) ->
  StronglySorted N.lt (map fst (inserted evs outs))
  /\ NoDup (map fst (inserted evs outs))
  /\ p_tag st = ncalls evs
  /\ forall e, In e (inserted evs outs) -> 0 < fst e <= ncalls evs).

Check (C20_reply_correlation : forall resp nf nb ls p d, let st := run resp (init nf nb) ls in
  In (p, d) (res st) ->
  exists pid m, In (pid, m, p) (calls st) /\ m_call m = true /\ resp pid m = Some d
                /\ forall pid' m', In (pid', m', p) (calls st) -> pid' = pid /\ m' = m).
Check (C20_fifo_per_sender : forall resp nf nb ls pid (f : msg -> bool),
  let st := run resp (init nf nb) ls in
  subseq (filter f (dlv st pid)) (filter f (sent st pid))).
Check (C20_mirror_settled : forall resp nf nb ls pid, let st := run resp (init nf nb) ls in
  up st = true ->
  (forall f, In f (flat (bwd st) ++ ctl st) -> is_ctl_for pid f = false) ->
  x_alive (px st pid) = t_alive (tg st pid) /\ x_groups (px st pid) = t_groups (tg st pid)).

(* ---- non-vacuity ---- *)
(* the hypotheses of C20_cut_at_any_byte are met by a length-prefixed encoding *)
Definition toy_enc (l : list N) : list N := N.of_nat (length l) :: l.
Definition toy_dec (bs : list N) : option (list N * list N) :=
  match bs with
  | [] => None
  | n :: r => if Nat.leb (N.to_nat n) (length r)
              then Some (firstn (N.to_nat n) r, skipn (N.to_nat n) r) else None
  end.
Example toy_dec_enc : forall f rest, toy_dec (toy_enc f ++ rest) = Some (f, rest).
Proof.
  intros f rest. unfold toy_dec, toy_enc. simpl. rewrite Nnat.Nat2N.id.
  rewrite app_length. replace (Nat.leb (length f) (length f + length rest)) with true
    by (symmetry; apply Nat.leb_le; lia).
  rewrite firstn_app, skipn_app, Nat.sub_diag, firstn_all, skipn_all. simpl. now rewrite app_nil_r.
Qed.
Example toy_dec_partial : forall f bs c tl, toy_enc f = bs ++ c :: tl -> toy_dec bs = None.
Proof.
  intros f bs c tl E. destruct bs as [|n r]; [reflexivity|]. unfold toy_enc in E. simpl in E.
  injection E as E1 E2. subst n. simpl. rewrite Nnat.Nat2N.id.
  destruct (Nat.leb_spec (length f) (length r)) as [Hle|Hgt]; [|reflexivity].
  exfalso. rewrite E2, app_length in Hle. simpl in Hle. lia.
Qed.
Example toy_cut : read_all toy_dec 20 (firstn 9 (concat (map toy_enc [[1; 2]; [3; 4; 5]; [6]; []])))
                  = [[1; 2]; [3; 4; 5]; [6]].
Proof. vm_compute. reflexivity. Qed.
Example toy_cut' : read_all toy_dec 20 (firstn 6 (concat (map toy_enc [[1; 2]; [3; 4; 5]; [6]; []])))
                   = [[1; 2]].
Proof. vm_compute. reflexivity. Qed.

Definition ex_resp (pid : N) (m : msg) : option (list N) := Some (pid :: m_a m).
Definition ex_ls : list label :=
  [LSpawn 5; LCtl; LHopB 0; LDeliverB;
   LJoin 5 9; LCtl; LHopB 0; LDeliverB;
   LSend 5 (mkMsg false 1 [7]) 0; LSend 5 (mkMsg true 2 [8]) 100; LSend 5 (mkMsg true 2 [6]) 101;
   LProxy 5; LProxy 5; LProxy 5; LAbandon 101;
   LHopF 0; LHopF 0; LHopF 0; LDeliverF; LDeliverF; LDeliverF; LTarget 5; LTarget 5; LTarget 5;
   LReplyTask 1; LReplyTask 0; LHopB 0; LHopB 0; LDeliverB; LDeliverB; LProxy 5; LProxy 5].
Example ex_net :
  let st := run ex_resp (init 1 1) ex_ls in
  (dlv st 5, res st, ins st 5, x_alive (px st 5), x_groups (px st 5), lossy st 5, inflight st 5)
  = ([mkMsg false 1 [7]; mkMsg true 2 [8]; mkMsg true 2 [6]], [(100, [5; 8])], [(1, 100); (2, 101)],
     true, [9], false, []).
Proof. vm_compute. reflexivity. Qed.
Example ex_net_quiescent :
  let st := run ex_resp (init 1 1) ex_ls in
  (calls st, lossy st 5, aband st, x_mbox (px st 5), fmsgs 5 (flat (fwd st)), t_mbox (tg st 5), pool st, flat (bwd st))
  = ([(5, mkMsg true 2 [8], 100); (5, mkMsg true 2 [6], 101)], false, [101], [], [], [], [], []).
Proof. vm_compute. reflexivity. Qed.
Example ex_net_exit_close :
  let st := run ex_resp (init 1 1) (ex_ls ++ [LExit 5; LCtl; LCtl; LHopB 0; LHopB 0; LDeliverB; LDeliverB]) in
  let st' := run ex_resp (init 1 1) (ex_ls ++ [LSend 5 (mkMsg false 1 [1]) 0; LClose 1; LSend 5 (mkMsg false 1 [2]) 0]) in
  (x_alive (px st 5), x_groups (px st 5), up st, x_alive (px st' 5), x_groups (px st' 5), up st', sent st' 5, dlv st' 5)
  = (false, [], true, false, [], false,
     [mkMsg false 1 [7]; mkMsg true 2 [8]; mkMsg true 2 [6]; mkMsg false 1 [1]],
     [mkMsg false 1 [7]; mkMsg true 2 [8]; mkMsg true 2 [6]]).
Proof. vm_compute. reflexivity. Qed.
Definition ex_evs : list pev :=
  [ (([], true), PSend (mkMsg true 1 [7]) 100);
    (([], true), PSend (mkMsg true 1 [8]) 101);
    (([100], true), PSend (mkMsg false 2 []) 0);
    (([100], true), PReply 2 [9]);
    (([100], true), PReply 1 [9]) ].
Example ex_proxy :
  prun_view pst0 ex_evs =
  [ ([OSend 1 (mkMsg true 1 [7])], (1, [(1, 100)], None));
    ([OSend 2 (mkMsg true 1 [8])], (2, [(1, 100); (2, 101)], Some 1));
    ([OSend 0 (mkMsg false 2 [])], (2, [(2, 101)], Some 1));
    ([OResolve 101 [9]], (2, [], None));
    ([], (2, [], None)) ].
Proof. vm_compute. reflexivity. Qed.
Example ex_proxy_oracle : check_C20_proxy ex_evs (snd (prun pst0 ex_evs)) = true.
Proof. vm_compute. reflexivity. Qed.

Print Assumptions C20_tags_fresh_proxy.
Print Assumptions C20_reply_correlation_proxy.
Print Assumptions C20_reply_finds_open.
Print Assumptions C20_chain_is_fifo.
Print Assumptions C20_cut_at_any_byte.
Print Assumptions C20_tags_fresh.
Print Assumptions C20_reply_correlation.
Print Assumptions C20_reply_complete.
Print Assumptions C20_fifo_per_sender.
Print Assumptions C20_fifo_no_gaps.
Print Assumptions C20_mirror_lifecycle.
Print Assumptions C20_mirror_settled.
Print Assumptions C20_closed.
Print Assumptions C20_oracle_sound.
Print Assumptions C20_oracle_sound_proxy.
Print Assumptions C20_exit_announced.
Print Assumptions C20_writer_transparent.
Print Assumptions C20_writer_failure_truncates.
Print Assumptions C20_writer_reader_end_to_end.
