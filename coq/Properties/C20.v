(* C20 — Cluster: remote actors behave like the actors they stand for.
   Only statements (pinned with their literal text), non-vacuity examples and
   Print Assumptions. Model: Cluster/Remote.v; proofs: Cluster/RemoteProofs.v (proxy, chains),
   Cluster/RemoteNetProofs.v (two-node system). *)
From Coq Require Import List NArith Bool Sorted.
From RV Require Import Cluster.Remote Cluster.RemoteProofs.
Import ListNotations.
Local Open Scope N_scope.

(* (1a) the proxy, over every history of messages, abandoned callers and session failures:
   request tags are handed out in strictly increasing order, hence pairwise distinct; the
   counter equals the number of calls so far, so it coincides with the code's u64 counter for
   every history with fewer than 2^64 calls through one proxy (beyond that the real counter
   overflows: a debug build panics, a release build wraps around and the theorem does not apply) *)
Theorem C20_tags_fresh_proxy : forall evs st outs,
  prun pst0 evs = (st, outs) ->
  StronglySorted N.lt (map fst (inserted evs outs))
  /\ NoDup (map fst (inserted evs outs))
  /\ p_tag st = ncalls evs
  /\ forall e, In e (inserted evs outs) -> 0 < fst e <= ncalls evs.
Proof. exact proxy_tags_fresh. Qed.

(* (2a) a reply with tag t resolves exactly the port that was inserted under t, which is the
   only port ever inserted under t; no request is resolved twice; also after abandoned requests
   were reclaimed (the environment of a history closes ports at will) *)
Theorem C20_reply_correlation_proxy : forall evs st outs t p,
  prun pst0 evs = (st, outs) ->
  In (t, p) (resolved evs outs) ->
  In (t, p) (inserted evs outs)
  /\ (forall p', In (t, p') (inserted evs outs) -> p' = p)
  /\ NoDup (map fst (resolved evs outs)).
Proof. exact proxy_reply_correlation. Qed.

(* (2b) reclamation only ever removes requests whose caller is gone: a pending request with a
   live caller is found by its reply *)
Theorem C20_reply_finds_open : forall c ok st t p d,
  pinv st -> In (t, p) (p_pend st) -> c p = false ->
  snd (pstep c ok st (PReply t d)) = [OResolve p d].
Proof. exact proxy_reply_finds_open. Qed.

(* ---- statement pins ---- *)
Check (C20_tags_fresh_proxy : forall evs st outs,
  prun pst0 evs = (st, outs) ->
  StronglySorted N.lt (map fst (inserted evs outs))
  /\ NoDup (map fst (inserted evs outs))
  /\ p_tag st = ncalls evs
  /\ forall e, In e (inserted evs outs) -> 0 < fst e <= ncalls evs).

(* ---- non-vacuity ---- *)
Definition ex_evs : list pev :=
  [ (([], true), PSend (mkMsg true 1 [7]) 100);
    (([], true), PSend (mkMsg true 1 [8]) 101);
    (([100], true), PSend (mkMsg false 2 []) 0);
    (([100], true), PReply 2 [9]);
    (([100], true), PReply 1 [9]) ].
Example ex_proxy :
  prun_view pst0 ex_evs =
  [ ([OSend 1 (mkMsg true 1 [7])], (1, [(1, 100)], None));
    ([OSend 2 (mkMsg true 1 [8])], (2, [(1, 100); (2, 101)], Some 1));
    ([OSend 0 (mkMsg false 2 [])], (2, [(2, 101)], Some 1));
    ([OResolve 101 [9]], (2, [], None));
    ([], (2, [], None)) ].
Proof. vm_compute. reflexivity. Qed.
Example ex_proxy_oracle : check_C20_proxy ex_evs (snd (prun pst0 ex_evs)) = true.
Proof. vm_compute. reflexivity. Qed.

Print Assumptions C20_tags_fresh_proxy.
Print Assumptions C20_reply_correlation_proxy.
Print Assumptions C20_reply_finds_open.
