(* C13 -- Factory: every job meets exactly one fate, never runs twice.
   Only statements (pinned), non-vacuity examples, refutation witnesses for the known
   deviation F3 and for the rule before the F4 fix and Print Assumptions.
   Model: Factory/Model.v (+ Factory/Scenario.v for concrete histories); proofs: Factory/Conserve.v. *)
From Coq Require Import List NArith Bool Permutation.
From RV Require Import Factory.Model Factory.Scenario Factory.Oracle Factory.Conserve Factory.ConserveRet Factory.ConserveTerm Factory.RouteCouple Factory.OracleSound.
Import ListNotations.
Local Open Scope N_scope.

(* (1) For every configuration (router, queue type, user hash / priority functions, discard
   settings, rate-limiter answers), every pool size and EVERY sequence of labels -- dispatches,
   factory steps, worker starts / completions / deaths at any point, resizes, settings updates,
   draining, stop, holding the factory inside its capacity controller -- the job ids found in
   {factory queue, per-worker queues, factory inbox, worker mailboxes, running slots, handled,
   discarded, lost, send-error} are exactly the dispatched ids, with multiplicity. *)
Theorem C13_places_partition : forall c n d rls ls,
  Permutation (places (run c (init c n d rls) ls)) (sent_ids ls).
Proof. exact places_permutation. Qed.

(* ... hence with distinct job ids every job is in exactly one place *)
Theorem C13_one_place : forall c n d rls ls,
  NoDup (sent_ids ls) -> NoDup (places (run c (init c n d rls) ls)).
Proof. exact places_nodup. Qed.

(* (2) no job enters a worker's handler twice *)
Theorem C13_never_runs_twice : forall c n d rls ls,
  NoDup (sent_ids ls) -> NoDup (started_ids (run c (init c n d rls) ls)).
Proof. exact started_nodup. Qed.

(* (3) handled / discarded / lost / refused-at-send are pairwise disjoint, each without repetition *)
Theorem C13_single_fate : forall c n d rls ls,
  NoDup (sent_ids ls) ->
  let w := run c (init c n d rls) ls in
  NoDup (handled_ids w ++ discarded_ids w ++ lost_ids w ++ unsent_ids w).
Proof. exact single_fate. Qed.

(* (4) a job that met its fate is in no queue, mailbox or running slot any more *)
Theorem C13_fated_not_live : forall c n d rls ls j,
  NoDup (sent_ids ls) ->
  let w := run c (init c n d rls) ls in
  In j (fated_ids w) -> ~ In j (map j_id (live_jobs w)).
Proof. exact fated_not_live. Qed.

(* (5) nothing is invented, nothing leaks out of the places *)
Theorem C13_no_silent_loss : forall c n d rls ls j,
  let w := run c (init c n d rls) ls in
  In j (places w) <-> In j (sent_ids ls).
Proof. exact no_job_invented_or_leaked. Qed.

(* (6) the replacement of a dead worker keeps its predecessor's queue *)
Theorem C13_replacement_inherits : forall t p acts out a' wid p' acts' out',
  lookup a' acts = Some (new_actor wid) ->
  replace_worker t (p, acts, out) a' = (p', acts', out') ->
  exists pre mb,
    forallb (expired t) pre = true
    /\ w_queue p = pre ++ mb ++ w_queue p'
    /\ w_aid p' = a'
    /\ lookup a' acts' = Some (set_a_mb mb (new_actor wid))
    /\ w_curr p' = map j_key mb
    /\ (length mb <= 1)%nat.
Proof. exact replacement_inherits. Qed.

(* (7) stopping: post_stop (after `fix: report jobs queued on workers to the discard handler when
   the factory stops`, F4) leaves no job in the factory queue nor in any per-worker queue -- each is
   handed to the discard handler with Shutdown (conservation, (1), says none is lost on the way) --
   and once the workers are gone the factory's pool and inbox are dropped *)
Theorem C13_stop_discards_queues : forall c w,
  c_shutdown_worker_queues c = true ->
  concat (fq (post_stop c w)) = [] /\ pool_jobs (pool (post_stop c w)) = []
  /\ fstatus (post_stop c w) = FStopping.
Proof. exact post_stop_clears. Qed.

Theorem C13_finalize_empties : forall w,
  fstatus w = FStopping -> all_workers_gone w = true ->
  fstatus (finalize w) = FStopped /\ pool (finalize w) = [] /\ inbox_msg (finalize w) = [].
Proof. exact finalize_empties. Qed.

(* (8) "at most one job per worker death": over histories without stale completions (run_ok, see
   Properties/C14.v) a worker actor never holds more than one job (mailbox + handler), and the
   death of a worker loses at most one. With stale completions both are false (F3, witness below). *)
Theorem C13_worker_holds_one : forall c n d rls ls a x,
  run_ok c (init c n d rls) ls ->
  lookup a (actors (run c (init c n d rls) ls)) = Some x -> (length (actor_jobs x) <= 1)%nat.
Proof. exact real_one_at_a_time. Qed.

Theorem C13_one_per_death : forall c n d rls ls a,
  run_ok c (init c n d rls) ls ->
  let w := run c (init c n d rls) ls in
  (length (lost_ids (step c w (LWDie a))) <= length (lost_ids w) + 1)%nat.
Proof. exact one_per_death. Qed.

(* (9) "returned to the submitter" is not a fate of its own: a job comes back through its
   acceptance port only in the rejection that also tells the discard handler, for every history *)
Theorem C13_returned_is_discarded : forall c n d rls ls j,
  In (ERet j) (evs (run c (init c n d rls) ls)) ->
  exists r, In (EDisc j r) (evs (run c (init c n d rls) ls)).
Proof. exact returned_is_discarded. Qed.

(* (10) THE TERMINAL THEOREM, global form, for every history (stale completions included): in every
   reachable state in which the factory has stopped, no job is left in the factory queue, a worker
   queue, the inbox, a mailbox or a handler; hence the fates recorded are exactly the dispatched
   jobs, each once ((1)-(3)). Which fate: handled, discarded with a reason, lost with a dying
   worker, refused at send -- or dropped by the stopping factory itself, which is the known
   finding F9 (cause CStopExit; before 700d6bc also CWorkerQueue, F4). *)
Theorem C13_terminal : forall c n d rls ls,
  let w := run c (init c n d rls) ls in
  fstatus w = FStopped -> live_jobs w = [].
Proof. exact terminal_no_live_job. Qed.

Theorem C13_terminal_every_job_fated : forall c n d rls ls,
  let w := run c (init c n d rls) ls in
  fstatus w = FStopped -> Permutation (fated_ids w) (sent_ids ls).
Proof. exact terminal_every_job_fated. Qed.

(* (11) ORACLE SOUNDNESS, per-job clauses of check_C13 (what lib/c13.py evaluates on the
   implementation's log): on the model's own event log -- of every label sequence with distinct job
   ids, in any order of presentation, and in particular on the concatenated per-op lists of every
   scenario -- none of ATwoStarts, ATwoFates, AEndNoStart, ARetNoDisc fires. So a report of one of
   these on an implementation history can never be an artefact of the oracle: the model itself
   would have to be rejected. (job_anomalies = unknown-job clause ++ job_core ++ acc-and-ret clause.) *)
Theorem C13_oracle_sound_job_core : forall c n d rls ls flat j,
  NoDup (sent_ids ls) ->
  Permutation flat (evs (run c (init c n d rls) ls)) ->
  job_core flat j = [].
Proof. exact job_core_sound. Qed.

Theorem C13_oracle_sound_job_core_scenario : forall c n d rls os j,
  NoDup (sent_ids (labels_of c n d rls os)) ->
  job_core (concat (scenario_events c n d rls os)) j = [].
Proof. exact job_core_sound_scenario. Qed.

(* the scenario runner is a model run, and its per-op lists are the log of that run *)
Theorem C13_scenario_is_a_run : forall c n d rls os,
  concat (scenario_events c n d rls os) = rev (evs (scenario_final c n d rls os))
  /\ scenario_final c n d rls os = run c (init c n d rls) (labels_of c n d rls os).
Proof. exact scenario_log. Qed.

Theorem C13_end_has_start : forall c n d rls ls i w' a',
  In (EEnd i w' a') (evs (run c (init c n d rls) ls)) -> started_in i (evs (run c (init c n d rls) ls)).
Proof. exact end_has_start. Qed.

(* OPEN: soundness of the remaining clauses of check_C13 on model runs -- AUnknownJob and AAccAndRet
   (per job) and ASilentLoss (the in-progress scan; by construction it fires on the model exactly for
   drops with a cause other than CDeath-of-the-in-progress-job, i.e. F3/F9 histories and CInbox). *)

(* ---- pins *)
Check (C13_oracle_sound_job_core_scenario : forall c n d rls os j,
  NoDup (sent_ids (labels_of c n d rls os)) ->
  job_core (concat (scenario_events c n d rls os)) j = []).
Check (C13_places_partition : forall c n d rls ls,
  Permutation (places (run c (init c n d rls) ls)) (sent_ids ls)).
Check (C13_never_runs_twice : forall c n d rls ls,
  NoDup (sent_ids ls) -> NoDup (started_ids (run c (init c n d rls) ls))).
Check (C13_terminal : forall c n d rls ls,
  let w := run c (init c n d rls) ls in fstatus w = FStopped -> live_jobs w = []).
Check (C13_single_fate : forall c n d rls ls,
  NoDup (sent_ids ls) ->
  let w := run c (init c n d rls) ls in
  NoDup (handled_ids w ++ discarded_ids w ++ lost_ids w ++ unsent_ids w)).

(* ---- non-vacuity and the two refutation witnesses (vm_compute on the model) *)
Definition kp1 := mk_config RKeyPersistent false [(1,5,0);(4,5,0);(1,1,0);(4,1,1)] [].
(* the same configuration under the rule BEFORE the F4 fix *)
Definition kp1_prefix := mk_config_gen false RKeyPersistent false [(1,5,0);(4,5,0);(1,1,0);(4,1,1)] [].

(* F4 (fixed in /repo by 700d6bc): key-persistent routing, one worker, three jobs of one key, plain
   stop. Under the pre-fix rule j2 and j3, waiting in the worker's queue, are dropped with the
   factory state: neither handled, nor discarded, nor returned. *)
Definition f4_ops := [ODispatch 1 5 None false; ODispatch 2 5 None false; ODispatch 3 5 None false;
                      OStop; OComplete 0].
Example C13_terminal_refuted_before_fix :
  let w := scenario_final kp1_prefix 1 None [] f4_ops in
  fstatus w = FStopped
  /\ In (EDrop 2 (CWorkerQueue 0)) (evs w) /\ In (EDrop 3 (CWorkerQueue 0)) (evs w)
  /\ discarded_ids w = [] /\ handled_ids w = [1].
Proof. vm_compute. intuition. Qed.

(* with the fix every job has a fate the property allows, and nothing is left anywhere *)
Example C13_terminal_after_fix :
  let w := scenario_final kp1 1 None [] f4_ops in
  fstatus w = FStopped /\ live_jobs w = [] /\ lost_ids w = []
  /\ In (EDisc 2 RShutdown) (evs w) /\ In (EDisc 3 RShutdown) (evs w) /\ handled_ids w = [1].
Proof. vm_compute. intuition. Qed.

(* the scenario runner only takes model steps, so the theorems above apply to this history *)
Example f4_is_a_run : scenario_final kp1 1 None [] f4_ops
                      = run kp1 (init kp1 1 None []) (labels_of kp1 1 None [] f4_ops).
Proof. vm_compute. reflexivity. Qed.
Example f4_partition : NoDup (sent_ids (labels_of kp1 1 None [] f4_ops))
                       /\ sent_ids (labels_of kp1 1 None [] f4_ops) = [1; 2; 3].
Proof. vm_compute. split; [repeat constructor; simpl; intuition discriminate|reflexivity]. Qed.

(* F3: a completion sent by an actor that is then killed, processed after the death
   (supervision outranks messages), is taken for the replacement's same-key job: the
   replacement then holds one job in its handler and one in its mailbox, and its death loses two. *)
Definition f3_ops := [ODispatch 1 1 None false; ODispatch 2 1 None false; ODispatch 3 1 None false;
                      OHold; OComplete 0; OKill 0; ORelease 0; OKill 0].
Example C13_one_per_death_refuted :
  let w := scenario_final kp1 1 None [] f3_ops in
  In (EDrop 2 (CDeath 1)) (evs w) /\ In (EDrop 3 (CMailbox 1)) (evs w).
Proof. vm_compute. intuition. Qed.

(* the executable oracle flags exactly these *)
Example oracle_flags_f4_before_fix :
  check_C13 kp1_prefix 1 None f4_ops (scenario_events kp1_prefix 1 None [] f4_ops) = [ASilentLoss 2 4; ASilentLoss 3 4].
Proof. vm_compute. reflexivity. Qed.
Example oracle_accepts_f4_after_fix :
  check_C13 kp1 1 None f4_ops (scenario_events kp1 1 None [] f4_ops) = [].
Proof. vm_compute. reflexivity. Qed.
Example oracle_accepts_plain :
  let ops := [ODispatch 1 5 None true; ODispatch 2 5 (Some 0) true; OComplete 0; OKill 0; OQuery] in
  check_C13 kp1 1 None ops (scenario_events kp1 1 None [] ops) = [].
Proof. vm_compute. reflexivity. Qed.

(* ---- progress at a settled point, factory-queueing routers (judged where the model's own run is
   clean, lib/c13.py): worker 0 is killed while it runs job 1 and the factory queue is empty; its
   replacement (actor 2) is a routing target again, job 3 starts on it. A history in which job 3 waits
   in the factory queue while the replacement idles is rejected: the job has no fate and nothing is
   pending that would give it one. *)
Definition qr := mk_config RQueuer false [] [].
Definition killed_busy_ops :=
  [ODispatch 1 1 None false; OKill 0; ODispatch 2 2 None false; ODispatch 3 3 None false; OQuery].
Example oracle_replacement_is_a_target_again :
  scenario_events qr 2 None [] killed_busy_ops
  = [[EStart 1 0 0]; [EDrop 1 (CDeath 0)]; [EStart 2 1 1]; [EStart 3 0 2]; [EQDepth 0; EQActive 2; EQCap 0]]
  /\ check_C13 qr 2 None killed_busy_ops (scenario_events qr 2 None [] killed_busy_ops) = []
  /\ check_C13 qr 2 None killed_busy_ops
       [[EStart 1 0 0]; [EDrop 1 (CDeath 0)]; [EStart 2 1 1]; []; [EQDepth 1; EQActive 1; EQCap 1]]
     = [AQueuedWhileFree 4 1 1].
Proof. vm_compute. repeat split; reflexivity. Qed.

(* ---- load shedding hits the applicable queue only (sticky queuer; judged where the model's own run is
   clean, lib/c13.py): worker 0 runs key 5, a discard limit of 1 is set at runtime, jobs 2..4 of key 5
   are parked at worker 0 -- its private queue has no limit under a factory-queueing router -- and
   nothing is shed. A history in which job 4 comes back with reason Loadshed is rejected. *)
Definition sq13 := mk_config RSticky false [] [].
Definition shed_ops :=
  [ODispatch 1 5 None false; OSetDisc (Some (1, Newest)); ODispatch 2 5 None true; ODispatch 3 5 None true;
   ODispatch 4 5 None true; OQuery].
Example oracle_shed_only_from_the_factory_queue :
  scenario_events sq13 2 None [] shed_ops
  = [[EStart 1 0 0]; []; [EAcc 2]; [EAcc 3]; [EAcc 4]; [EQDepth 0; EQActive 1; EQCap 2]]
  /\ check_C13 sq13 2 None shed_ops (scenario_events sq13 2 None [] shed_ops) = []
  /\ check_C13 sq13 2 None shed_ops
       [[EStart 1 0 0]; []; [EAcc 2]; [EAcc 3]; [EDisc 4 RLoadshed; ERet 4]; [EQDepth 0; EQActive 1; EQCap 2]]
     = [AShedKeyRunning 4 5 4].
Proof. vm_compute. repeat split; reflexivity. Qed.

Print Assumptions C13_places_partition.
Print Assumptions C13_one_place.
Print Assumptions C13_never_runs_twice.
Print Assumptions C13_single_fate.
Print Assumptions C13_fated_not_live.
Print Assumptions C13_no_silent_loss.
Print Assumptions C13_replacement_inherits.
Print Assumptions C13_stop_discards_queues.
Print Assumptions C13_finalize_empties.
Print Assumptions C13_worker_holds_one.
Print Assumptions C13_one_per_death.
Print Assumptions C13_returned_is_discarded.
Print Assumptions C13_terminal.
Print Assumptions C13_terminal_every_job_fated.
Print Assumptions C13_oracle_sound_job_core.
Print Assumptions C13_oracle_sound_job_core_scenario.
Print Assumptions C13_scenario_is_a_run.
Print Assumptions C13_end_has_start.
