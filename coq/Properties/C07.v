(* C07 - Drain processes everything accepted and lets in nothing afterwards.
   Only statements, pins, non-vacuity examples and Print Assumptions.
   Model: Admission/Model.v (one step = one atomic operation of
   ractor/src/actor/actor_properties.rs send/drain paths + the processing loop);
   proofs: Admission/Proofs.v. All theorems quantify over every label list, i.e. every
   interleaving of any number of send / drain activations (incl. re-entrant ones issued
   from box_message or from handlers) with the actor loop, stop, kill and failure. *)
From Coq Require Import List Arith Bool.
From RV Require Import Admission.Model Admission.Proofs.
Import ListNotations.

(* a send that begins after some drain() has returned gets its message back *)
Theorem C07_closed_rejects : forall ls1 ls2 j ok i r,
  nth_error (ds (run init ls1)) j = Some (DDone ok) ->
  nth_error (ss (run init ls1)) i = None ->
  result (run (run init ls1) ls2) i = Some r ->
  r = RErr i \/
  (r = RInvalid /\ exists inf, nth_error (si (run (run init ls1) ls2)) i = Some inf /\ wrong inf = true).
Proof.
  intros ls1 ls2 j ok i r. apply closed_rejects. apply reachable_inv. exists ls1; auto.
Qed.

(* the marker is the last item of the channel history and every accepted message precedes
   it; no send is still granted at that point *)
Theorem C07_marker_after_accepted : forall s, reachable s -> In Marker (hist s) ->
  exists msgs, hist s = msgs ++ [Marker] /\ ~ In Marker msgs /\
    (forall i, result s i = Some ROk -> In (Msg i) msgs) /\
    sumf inflight1 (ss s) = 0 /\ closed s = true.
Proof. intros s R. apply marker_after_accepted, reachable_inv, R. Qed.

Theorem C07_marker_unique : forall s, reachable s -> markers (hist s) <= 1.
Proof. intros s R. apply marker_unique, reachable_inv, R. Qed.

(* all calls returned and some drain ran: the marker was emitted, unless the receiver was
   already closed when its channel send was attempted *)
Theorem C07_marker_eventually : forall s, reachable s -> all_done s = true -> ds s <> [] ->
  marker s = true /\ (In Marker (hist s) \/ (mlost s = true /\ rx_open s = false)).
Proof. intros s R. apply marker_eventually, reachable_inv, R. Qed.

(* once the marker is in the channel, nothing (further drains, further sends) ever adds
   another item *)
Theorem C07_idempotent : forall s, reachable s -> In Marker (hist s) ->
  forall ls, hist (run s ls) = hist s.
Proof. intros s R H ls. apply marker_last; auto. apply reachable_inv, R. Qed.

(* at most one terminal event; an exit with reason Drained happens only after every
   accepted message was handled; the terminal event is published exactly when dead *)
Theorem C07_drained_once : forall s, reachable s ->
  length (exits s) <= 1 /\
  (forall r, cons s = CExit r \/ cons s = CDead r -> r = RDrained ->
     In Marker (taken s) /\ handled s = accepted s /\ sumf inflight1 (ss s) = 0) /\
  (forall r, exits s = [r] <-> cons s = CDead r).
Proof. intros s R. apply drained_once, reachable_inv, R. Qed.

(* a drain never leaves the actor running forever: with every call returned and some
   drain run, a still-polling actor has the marker ahead of it in its queue *)
Theorem C07_not_idle_forever : forall s, reachable s -> all_done s = true -> ds s <> [] ->
  alive (cons s) = true -> In Marker (q s).
Proof. intros s R. apply drained_not_idle, reachable_inv, R. Qed.

(* the executable oracle evaluated on implementation logs accepts every log the model can
   produce, with the completeness flag as the model computes it: no false alarm is possible
   for model-conforming behaviour *)
Theorem C07_oracle_sound : forall s, reachable s -> check_C07 (complete s) (log s) = true.
Proof. exact check_C07_sound. Qed.

(* the deterministic drivers used by the correspondence runs only compose steps: every state
   the model is compared on is a reachable state, so all theorems above apply to it
   (ps: threads the harness actor's post_stop releases before the ports are dropped) *)
Theorem C07_exec_reachable : forall ps acts, reachable (exec_ps ps acts).
Proof. exact exec_reachable. Qed.

(* repeated / late drains are harmless for the lifecycle status too: in every reachable state whose log
   contains the terminal event, the status is Stopped (the model's drain raises the status to Draining only
   from below Stopping - a drain on an exited actor is a no-op including the status) *)
Theorem C07_status_sound : forall s, reachable s -> check_status (log s) (status s) = true.
Proof. exact check_status_sound. Qed.

(* ---- statement pins ---- *)
Check (C07_marker_unique : forall s, reachable s -> markers (hist s) <= 1).
Check (C07_idempotent : forall s, reachable s -> In Marker (hist s) ->
  forall ls, hist (run s ls) = hist s).
Check (C07_closed_rejects : forall ls1 ls2 j ok i r,
  nth_error (ds (run init ls1)) j = Some (DDone ok) ->
  nth_error (ss (run init ls1)) i = None ->
  result (run (run init ls1) ls2) i = Some r ->
  r = RErr i \/
  (r = RInvalid /\ exists inf, nth_error (si (run (run init ls1) ls2)) i = Some inf /\ wrong inf = true)).

(* ---- non-vacuity: the interleaving of the repository's own re-entrant test
   (drain_defers_marker_for_reentrant_*_send, the crate test about a re-entrant send during a drain) as an explicit schedule, plus a
   three-thread schedule reaching the deferred-marker path ---- *)
Definition msg (p : nat) (bx : list call) : call := CSend p false true false false bx [].

Example ex_reentrant :
  view (exec [ADo (msg 1 []); AStart (msg 2 [CDrain]); ADo CDrain; ADo (msg 3 []);
              ARelease 0; ADo CDrain; ADo (msg 4 []); AConsume])
  = ([EBegin 1 false; EEnd 1 ROk; EBegin 2 false; EDrainEnd true; EBegin 3 false;
      EEnd 3 (RErr 3); EDrainEnd true; EEnd 2 ROk; EDrainEnd true; EBegin 4 false;
      EEnd 4 (RErr 4); EHandle 1; EHandle 2; EExit RDrained], 6).
Proof. vm_compute. reflexivity. Qed.

(* label-level: sender 0 granted, drainer closes and finds count 1 (gives up), sender
   enqueues and its ticket drop emits the marker *)
Definition ex_labels : list label :=
  [LSpawn (msg 1 []); LS 0; LS 0; LS 0; LS 0;           (* T0 S0 S1 SA -> S2g *)
   LSpawn CDrain; LD 0; LD 0; LD 0; LD 0;               (* close, status, load, give up *)
   LS 0; LS 0; LS 0;                                     (* box, box done, enqueue *)
   LS 0; LS 0; LS 0; LS 0].                              (* fetch_sub, load, cas, marker send *)
Example ex_deferred_marker :
  hist (run init ex_labels) = [Msg 0; Marker] /\ all_done (run init ex_labels) = true /\
  ds (run init ex_labels) <> [].
Proof. vm_compute. repeat split; discriminate. Qed.

Print Assumptions C07_closed_rejects.
Print Assumptions C07_marker_after_accepted.
Print Assumptions C07_marker_unique.
Print Assumptions C07_marker_eventually.
Print Assumptions C07_idempotent.
Print Assumptions C07_drained_once.
Print Assumptions C07_not_idle_forever.
Print Assumptions C07_oracle_sound.
Print Assumptions C07_exec_reachable.
Print Assumptions C07_status_sound.
