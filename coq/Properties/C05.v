(* placeholder while the proofs are being written *)
From RV Require Import Tree.Model.
