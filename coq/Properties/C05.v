(* C05 — An exiting actor takes its whole subtree with it; links stay consistent.
   Only statements (pinned), non-vacuity examples and Print Assumptions.
   Model: Tree/Model.v (labels = atomic actions of supervision.rs / actor_cell.rs / the guard
   cleanup in actor.rs; states = total maps aid -> actor).  Proofs: Tree/Proofs.v,
   Tree/DriverProofs.v.  Every theorem quantifies over ALL label lists, i.e. all interleavings of
   link/unlink/kill/drain/create and of every actor's start-up and exit steps, for any number of
   actors and any graph shape.  `rule_fixed` is ActorCell::terminate's rule in the current tree
   (kill when status < Stopping); theorems stated for an arbitrary rule `r` hold for the historical
   rule as well. *)
From Coq Require Import List NArith Bool.
From RV Require Import Tree.Model Tree.Proofs Tree.DriverProofs Tree.OracleProofs.
Import ListNotations.
Local Open Scope N_scope.

(* (1) two-sidedness at all times: c names p as supervisor iff p's child set contains c *)
Theorem C05_two_sided : forall r ls c p,
  let s := exec r ls init in
  supervisor (s c) = Some p <-> (exists l, children (s p) = Some l /\ In c l).
Proof. intros r ls c p s. apply (two_sided_reachable r). exists ls; reflexivity. Qed.

(* hence at most one supervisor, and membership in exactly that supervisor's set *)
Theorem C05_one_supervisor : forall r ls c p q,
  let s := exec r ls init in
  (exists l, children (s p) = Some l /\ In c l) ->
  (exists l, children (s q) = Some l /\ In c l) -> p = q.
Proof. intros r ls c p q s. apply (one_supervisor r). exists ls; reflexivity. Qed.

(* (2) a stopped actor has neither supervisor nor children (its set is closed) *)
Theorem C05_stopped_is_bare : forall r ls a,
  let s := exec r ls init in
  st (s a) = Stopped -> supervisor (s a) = None /\ children (s a) = None.
Proof. intros r ls a s. apply (stopped_is_bare r). exists ls; reflexivity. Qed.

(* (3) no adoption.  The link operation is refused and changes nothing when either side is
   Draining/Stopping/Stopped or the supervisor's set was taken ... *)
Theorem C05_no_adoption : forall s c p,
  4 <= rank (st (s c)) \/ 4 <= rank (st (s p)) \/ children (s p) = None ->
  do_link s c p = (s, false).
Proof. exact link_refused. Qed.

(* ... and no step whatsoever gives such an actor a child, or such a child a supervisor;
   with status monotonicity and permanence of the closed set this is "never again" *)
Theorem C05_never_gains_children : forall r l s c p,
  4 <= rank (st (s p)) \/ children (s p) = None ->
  (exists k, children (step r l s p) = Some k /\ In c k) ->
  (exists k, children (s p) = Some k /\ In c k).
Proof. exact no_adoption_parent. Qed.

Theorem C05_never_gains_supervisor : forall r l s c p,
  4 <= rank (st (s c)) ->
  supervisor (step r l s c) = Some p -> supervisor (s c) = Some p.
Proof. exact no_adoption_child. Qed.

Theorem C05_status_monotone : forall r l s a, rank (st (s a)) <= rank (st (step r l s a)).
Proof. exact rank_mono. Qed.

Theorem C05_closed_is_permanent : forall r l s a,
  children (s a) = None -> children (step r l s a) = None.
Proof. exact closed_stays. Qed.

(* after an actor's cleanup has run its terminate(), its own child set is closed *)
Theorem C05_closed_after_cleanup : forall r ls p,
  let s := exec r ls init in
  match apc (s p) with PNotify | PReadSup | PUnlink _ | PPubStopped | PDone => True | _ => False end ->
  children (s p) = None.
Proof. intros r ls p s. apply (closed_after_cleanup r). exists ls; reflexivity. Qed.

(* (4) every actor detached by a take_children (ghost mark `doomed c = Some t`: detached by the
   terminate() that t executes) has been killed (signal pending or consumed) or is already
   Stopping/Stopped, or its kill is still queued in that terminate()'s work list.  The subtree
   is covered transitively because terminate() also queues a take for every detached actor. *)
Theorem C05_subtree_killed : forall ls c t,
  let s := exec rule_fixed ls init in
  doomed (s c) = Some t ->
  (sg (s c) <> SigNone \/ 5 <= rank (st (s c))) \/ In (TKill c) (work s t).
Proof. intros ls c t s. apply subtree_killed. exists ls; reflexivity. Qed.

Theorem C05_subtree_killed_after_cleanup : forall ls c t,
  let s := exec rule_fixed ls init in
  doomed (s c) = Some t -> work s t = [] ->
  sg (s c) <> SigNone \/ 5 <= rank (st (s c)).
Proof. intros ls c t s. apply subtree_killed_after_cleanup. exists ls; reflexivity. Qed.

(* the historical rule (kill only when status <= Upgrading) does NOT have this property:
   the F2 scenario (a Draining child below a killed supervisor) is a counterexample *)
Theorem C05_prefix_rule_refuted :
  ~ (forall s c t, reachable rule_prefix s -> doomed (s c) = Some t -> work s t = [] ->
       sg (s c) <> SigNone \/ 5 <= rank (st (s c))).
Proof. exact prefix_rule_refutes_subtree_killed. Qed.

(* (5) progress: in every quiescent state (no actor's own task has an enabled obligation) every
   detached actor is Stopped -- or is an un-killed actor still inside its post_stop callback
   (user code; it was already Stopping when its supervisor exited) *)
Theorem C05_subtree_stops : forall ls c t,
  let s := exec rule_fixed ls init in
  (forall a, enabled_internal s a = false) ->
  doomed (s c) = Some t ->
  st (s c) = Stopped \/ (apc (s c) = PPostStop /\ sg (s c) = SigNone).
Proof. intros ls c t s. apply subtree_stops. exists ls; reflexivity. Qed.

Theorem C05_subtree_stops_all : forall ls c t,
  let s := exec rule_fixed ls init in
  (forall a, enabled_internal s a = false) -> (forall a, apc (s a) <> PPostStop) ->
  doomed (s c) = Some t -> st (s c) = Stopped.
Proof. intros ls c t s. apply subtree_stops_all. exists ls; reflexivity. Qed.

(* (6) a link (explicit, or the one spawn_linked performs) racing the supervisor's exit: it is
   refused (C05_no_adoption), or it succeeds and then -- for every continuation in which c is not
   explicitly unlinked/relinked and does not exit by itself -- once p's set is closed c is among
   the detached actors and is killed (or queued to be killed by the running terminate()) *)
Theorem C05_race_outcome : forall ls0 c p s1 ls,
  let s := exec rule_fixed ls0 init in
  do_link s c p = (s1, true) ->
  Forall (fun l => ~ moves c l) ls ->
  let s2 := exec rule_fixed ls s1 in
  children (s2 p) = None ->
  exists t, doomed (s2 c) = Some t
    /\ ((sg (s2 c) <> SigNone \/ 5 <= rank (st (s2 c))) \/ In (TKill c) (work s2 t)).
Proof.
  intros ls0 c p s1 ls s E F s2 H. apply (race_outcome s c p s1 ls); auto. exists ls0; reflexivity.
Qed.

Theorem C05_link_accepted_is_child : forall s c p s',
  do_link s c p = (s', true) -> exists l, children (s' p) = Some l /\ In c l.
Proof. exact link_accepted. Qed.

(* the executable oracle's static part accepts every snapshot of every reachable state, and the
   scenario driver used for the correspondence runs only produces reachable states *)
Theorem C05_oracle_sound_static : forall r ls n, check_snap (snap n (exec r ls init)) = true.
Proof. intros r ls n. apply (check_snap_sound r). exists ls; reflexivity. Qed.

Theorem C05_driver_is_a_schedule : forall r ops, exists ls, core (drun r ops) = exec r ls init.
Proof. intros r ops. exact (drun_reachable r ops). Qed.

(* (7) soundness of the DYNAMIC part of the oracle, as evaluated by lib/c05.py on snapshot sequences.
   A window = the labels between two snapshots.  Side conditions (explicit): the later snapshot is taken
   at quiescence and the window contains no explicit unlink -- or no status changed in the window (the
   window of an explicit unlink operation); all created actors are inside the snapshot (bounded).
   Under these, for EVERY label list and every reachable start state the oracle accepts. *)
Theorem C05_oracle_sound_window : forall n s ls,
  let s' := exec rule_fixed ls s in
  reachable rule_fixed s -> bounded n s' ->
  (Forall no_unlink ls /\ (forall a, enabled_internal s' a = false)) \/ (forall a, st (s' a) = st (s a)) ->
  check_pair (snap n s) (snap n s') = true.
Proof. exact check_pair_sound. Qed.

Theorem C05_oracle_sound : forall n ws s,
  reachable rule_fixed s -> windows_ok n s ws ->
  check_C05 (map (snap n) (run_windows s ws)) = true.
Proof. exact check_C05_sound. Qed.

(* the orphan clause of check_C05_full: after an accepted link of c under p (the one spawn_linked
   performs), along any window without explicit unlink and without another link of c, at quiescence
   c still names p or is Stopping/Stopped *)
Theorem C05_oracle_sound_spawn : forall n s c p s1 ls,
  reachable rule_fixed s -> do_link s c p = (s1, true) ->
  Forall (no_move c) ls ->
  let s2 := exec rule_fixed ls s1 in
  (forall a, enabled_internal s2 a = false) -> bounded n s2 ->
  oeq (sup_of (snap n s2) c) p || (5 <=? rank_of (snap n s2) c) = true.
Proof. exact spawn_clause_sound. Qed.

(* the unconditional form is false: a snapshot taken before quiescence (Kill still pending) is rejected,
   and so is a window in which the child is explicitly unlinked before the supervisor exits *)
Theorem C05_oracle_unconditional_refuted :
  ~ (forall n s ls, reachable rule_fixed s ->
       check_pair (snap n s) (snap n (exec rule_fixed ls s)) = true).
Proof. exact check_pair_unconditional_refuted. Qed.

(* every detached actor's own child set is closed, or its take is still queued (used by (7)) *)
Theorem C05_detached_is_closed : forall r ls c t,
  let s := exec r ls init in
  doomed (s c) = Some t -> children (s c) = None \/ In (TTake c) (work s t).
Proof. intros r ls c t s. apply (doomed_closed_reachable r). exists ls; reflexivity. Qed.

(* ---- statement pins ---- *)
Check (C05_oracle_sound : forall n ws s,
  reachable rule_fixed s -> windows_ok n s ws ->
  check_C05 (map (snap n) (run_windows s ws)) = true).
Check (C05_oracle_sound_window : forall n s ls,
  let s' := exec rule_fixed ls s in
  reachable rule_fixed s -> bounded n s' ->
  (Forall no_unlink ls /\ (forall a, enabled_internal s' a = false)) \/ (forall a, st (s' a) = st (s a)) ->
  check_pair (snap n s) (snap n s') = true).
Check (C05_two_sided : forall r ls c p, let s := exec r ls init in
  supervisor (s c) = Some p <-> (exists l, children (s p) = Some l /\ In c l)).
Check (C05_stopped_is_bare : forall r ls a, let s := exec r ls init in
  st (s a) = Stopped -> supervisor (s a) = None /\ children (s a) = None).
Check (C05_subtree_killed : forall ls c t, let s := exec rule_fixed ls init in
  doomed (s c) = Some t ->
  (sg (s c) <> SigNone \/ 5 <= rank (st (s c))) \/ In (TKill c) (work s t)).
Check (C05_subtree_stops : forall ls c t, let s := exec rule_fixed ls init in
  (forall a, enabled_internal s a = false) -> doomed (s c) = Some t ->
  st (s c) = Stopped \/ (apc (s c) = PPostStop /\ sg (s c) = SigNone)).

(* ---- non-vacuity ---- *)
(* depth-3 chain 0 <- 1 <- 2 <- 3, all running; the root is killed; everything is run to quiescence *)
Definition ex_chain : list dop :=
  [OSpawn 0 None false false false; OSettle 4; OSpawn 1 (Some 0) false false false; OSettle 4;
   OSpawn 2 (Some 1) false false false; OSettle 4; OSpawn 3 (Some 2) false false true; OSettle 4;
   OSend 2 MBlock; OSettle 4; ODrain 2; OSettle 4].
Example ex_chain_before :
  snap 4 (core (drun rule_fixed ex_chain))
  = [(2, [1], None); (2, [2], Some 0); (4, [3], Some 1); (2, [], Some 2)].
Proof. vm_compute. reflexivity. Qed.
Example ex_chain_after_kill :
  snap 4 (core (drun rule_fixed (ex_chain ++ [OKill 0; OSettle 4])))
  = [(6, [], None); (6, [], None); (6, [], None); (6, [], None)].
Proof. vm_compute. reflexivity. Qed.
(* the detached actors carry the ghost mark; the hypotheses of C05_subtree_stops are satisfiable *)
Example ex_chain_doomed :
  let s := core (drun rule_fixed (ex_chain ++ [OKill 0; OSettle 4])) in
  map (fun a => doomed (s a)) [1; 2; 3] = [Some 0; Some 0; Some 0]
  /\ map (enabled_internal s) [0; 1; 2; 3] = [false; false; false; false].
Proof. vm_compute. split; reflexivity. Qed.
(* exits at an inner node by stop: the supervisor is parked in post_stop while a new child is
   refused and an existing one stays linked; then everything below is taken *)
Example ex_inner_stop :
  map (fun x => fst x)
      (model_run rule_fixed 5
         (ex_chain ++ [OStop 3; OSettle 5; OSpawn 4 (Some 3) false false false; OSettle 5;
                       OOpen 3 GPs; OSettle 5; OStop 1; OSettle 5]))
  = [[(2, [], None); (0, [], None); (0, [], None); (0, [], None); (0, [], None)];
     [(2, [1], None); (2, [], Some 0); (0, [], None); (0, [], None); (0, [], None)];
     [(2, [1], None); (2, [2], Some 0); (2, [], Some 1); (0, [], None); (0, [], None)];
     [(2, [1], None); (2, [2], Some 0); (2, [3], Some 1); (2, [], Some 2); (0, [], None)];
     [(2, [1], None); (2, [2], Some 0); (2, [3], Some 1); (2, [], Some 2); (0, [], None)];
     [(2, [1], None); (2, [2], Some 0); (4, [3], Some 1); (2, [], Some 2); (0, [], None)];
     [(2, [1], None); (2, [2], Some 0); (4, [3], Some 1); (5, [], Some 2); (0, [], None)];
     [(2, [1], None); (2, [2], Some 0); (4, [3], Some 1); (5, [], Some 2); (6, [], None)];
     [(2, [1], None); (2, [2], Some 0); (4, [], Some 1); (6, [], None); (6, [], None)];
     [(2, [], None); (6, [], None); (6, [], None); (6, [], None); (6, [], None)]].
Proof. vm_compute. reflexivity. Qed.
(* the race theorem's hypotheses are met: a link accepted, then the supervisor's exit *)
Example ex_race :
  let s := exec rule_fixed [LCreate 0; LStart 0; LRun 0; LCreate 1; LStart 1] init in
  snd (do_link s 1 0) = true
  /\ children (exec rule_fixed [LKill 0; LSignal 0; LTerm 0; LTerm 0] (fst (do_link s 1 0)) 0) = None
  /\ doomed (exec rule_fixed [LKill 0; LSignal 0; LTerm 0; LTerm 0] (fst (do_link s 1 0)) 1) = Some 0.
Proof. vm_compute. repeat split; reflexivity. Qed.
(* the historical rule on the F2 schedule: supervisor Stopped, its terminate() complete, the
   Draining child detached, not killed, nothing enabled *)
Example ex_f2_prefix :
  let s := exec rule_prefix f2_labels init in
  st (s 0) = Stopped /\ work s 0 = [] /\ doomed (s 1) = Some 0 /\ st (s 1) = Draining
  /\ sg (s 1) = SigNone /\ enabled_internal s 0 = false /\ enabled_internal s 1 = false.
Proof. vm_compute. repeat split; reflexivity. Qed.
Example ex_f2_oracle :
  check_C05 (map fst (model_run rule_prefix 2
     [OSpawn 0 None false false false; OSettle 2; OSpawn 1 (Some 0) false false false; OSettle 2;
      OSend 1 MBlock; OSettle 2; ODrain 1; OSettle 2; OKill 0; OSettle 2])) = false
  /\ check_C05 (map fst (model_run rule_fixed 2
     [OSpawn 0 None false false false; OSettle 2; OSpawn 1 (Some 0) false false false; OSettle 2;
      OSend 1 MBlock; OSettle 2; ODrain 1; OSettle 2; OKill 0; OSettle 2])) = true.
Proof. vm_compute. split; reflexivity. Qed.

(* the hypotheses of C05_oracle_sound are met by a real run: set-up window, exit window (quiescent) *)
Example ex_windows_ok :
  let ws := [w_setup; w_exit0 ++ [LSignal 1; LTerm 1; LTerm 1; LTerm 1; LClean 1; LTerm 1; LTerm 1; LTerm 1;
                                  LClean 1; LClean 1; LClean 1; LClean 1]] in
  map (snap 2) (run_windows init ws)
  = [[(0, [], None); (0, [], None)]; [(2, [1], None); (2, [], Some 0)]; [(6, [], None); (6, [], None)]]
  /\ map (fun s => map (enabled_internal s) [0; 1]) (run_windows init ws) = [[false; false]; [false; false]; [false; false]].
Proof. vm_compute. split; reflexivity. Qed.

Print Assumptions C05_two_sided.
Print Assumptions C05_one_supervisor.
Print Assumptions C05_stopped_is_bare.
Print Assumptions C05_no_adoption.
Print Assumptions C05_never_gains_children.
Print Assumptions C05_never_gains_supervisor.
Print Assumptions C05_status_monotone.
Print Assumptions C05_closed_is_permanent.
Print Assumptions C05_closed_after_cleanup.
Print Assumptions C05_subtree_killed.
Print Assumptions C05_subtree_killed_after_cleanup.
Print Assumptions C05_prefix_rule_refuted.
Print Assumptions C05_subtree_stops.
Print Assumptions C05_subtree_stops_all.
Print Assumptions C05_race_outcome.
Print Assumptions C05_link_accepted_is_child.
Print Assumptions C05_oracle_sound_static.
Print Assumptions C05_driver_is_a_schedule.
Print Assumptions C05_oracle_sound_window.
Print Assumptions C05_oracle_sound.
Print Assumptions C05_oracle_sound_spawn.
Print Assumptions C05_oracle_unconditional_refuted.
Print Assumptions C05_detached_is_closed.
