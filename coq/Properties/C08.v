(* C08 — A failed or cancelled spawn leaves nothing behind.
   Only statements (pinned), non-vacuity examples and Print Assumptions.
   Model: Spawn/Model.v (the spawn pipeline of ActorRuntime::new/start, the guard's cleanup stage by
   stage, the dropping of the ports, and every operation by which the rest of the system can
   attach something to the actor being spawned), proofs: Spawn/Proofs.v.
   `init nm sp loc scr f holder sst scl` is a spawn request: named?, supervisor?, thread-local
   order (link before pre_start)?, the pre_start script (side effects and await points) and
   how it ends, plus the environment (a holder of the name, the supervisor's status / closed child
   set).  Theorems quantify over all label lists: every cut point (LAbort at every await point and
   before the first poll, LSeeKill at every await point), every interleaving with sends, calls,
   waits, kills, drains, joins, monitors, links and supervisor status changes. *)
From Coq Require Import List NArith Bool.
From RV Require Import Spawn.Model Spawn.Proofs.
Import ListNotations.
Local Open Scope N_scope.

(* (1) for every spawn request, every environment and every label list: once the failed spawn's
   guard and ports are gone (pc = PDone) nothing of the actor is left -- status Stopped, every
   waiter released, name and pid unregistered, in no group and no monitor list, in no child set and
   with no children, no lifecycle event emitted, no callback other than pre_start ever entered,
   mailbox dropped, every accepted call's reply port closed, further sends refused. *)
Theorem C08_clean_failure : forall ls nm sp loc scr f holder sst scl rem,
  let s := exec ls (init nm sp loc scr f holder sst scl rem) in
  pc s = PDone -> residue_free s = true /\ check_C08 (observe s) = true.
Proof. exact clean_failure. Qed.

(* PDone is final, so the above holds forever after *)
Theorem C08_done_is_final : forall l s, pc s = PDone -> pc (step l s) = PDone.
Proof. exact pdone_absorbing. Qed.

(* (2) every failure cause leads into the cleanup: start on a non-Unstarted cell, task dropped
   before its first poll, pre_start Err/panic, future dropped at an await point, Kill seen at an
   await point, supervisor link refused (Send order / thread-local order); a taken name creates
   nothing at all *)
Theorem C08_failure_enters_cleanup : forall s,
  (pc s = P1 -> status s <> 0 -> pc (step LBegin s) = C1)
  /\ (pc s = P1 -> pc (step LAbort s) = C1)
  /\ (pc s = P2 -> script s = [] -> fin_ s <> ROk -> pc (step LEff s) = C1)
  /\ (at_gate s = true -> pc (step LAbort s) = C1)
  /\ (at_gate s = true -> sgn s = SigPending -> pc (step LSeeKill s) = C1)
  /\ (pc s = P3 -> local_ s = false -> sup s <> None -> sup_link_ok s = false -> pc (step LLinkSup s) = C1)
  /\ (pc s = P1 -> status s = 0 -> local_ s = true -> sup s <> None ->
      sup_link_ok (set_status 1 s) = false -> pc (step LBegin s) = C1)
  /\ (pc s = P0 -> remote s = false -> named s = true -> name_other s <> None -> step LNew s = set_pc PClash s).
Proof. exact failure_enters_cleanup. Qed.

(* (3) and the cleanup, being synchronous code of the guard, completes: six more steps reach PDone
   whatever else is interleaved before them *)
Theorem C08_cleanup_completes : forall s, (1 <= stage (pc s))%nat ->
  pc (exec [LClean; LClean; LClean; LClean; LClean; LClean] s) = PDone.
Proof. exact cleanup_completes. Qed.

(* (4) a name clash changes nothing about the existing holder and creates nothing *)
Theorem C08_clash_inert : forall ls h sp loc scr f sst scl,
  let s := exec ls (init true sp loc scr f (Some h) sst scl false) in
  Forall (fun l => forall b, l <> LReuseName b) ls ->
  name_other s = Some h
  /\ exists_cell s = false
  /\ name_mine s = false /\ pid_mine s = false /\ groups s = [] /\ mons s = [] /\ my_sup s = None
  /\ mailbox s = [] /\ waiters s = [] /\ status s = 0 /\ events s = O /\ ran s = O.
Proof. exact clash_creates_nothing. Qed.

(* the executable oracles are sound for the model: check_C08 accepts every observation of a finished
   failed spawn (second conjunct of C08_clean_failure), check_clash every observation of a refused one *)
Theorem C08_clash_oracle_sound : forall ls h sp loc scr f sst scl,
  let s := exec ls (init true sp loc scr f (Some h) sst scl false) in
  Forall (fun l => forall b, l <> LReuseName b) ls ->
  check_clash (observe s) = true.
Proof. exact clash_oracle_sound. Qed.

(* no step of a failing spawn removes or replaces another actor's registration of the name *)
Theorem C08_holder_untouched : forall ls0 nm sp loc scr f holder sst scl rem l,
  let s := exec ls0 (init nm sp loc scr f holder sst scl rem) in
  name_other (step l s) = name_other s \/ (exists b, l = LReuseName b).
Proof.
  intros ls0 nm sp loc scr f holder sst scl rem l s. apply holder_untouched. apply inv_exec, inv_init.
Qed.

(* in particular for a cell with a REMOTE id (spawn_linked_remote carrying the name of a live local actor):
   it never touches the registry, neither on construction nor in its cleanup; whatever the failure cause,
   at PDone nothing of it is left and the local holder still owns the name *)
Theorem C08_holder_kept : forall ls nm sp loc scr f h sst scl rem,
  Forall (fun l => forall b, l <> LReuseName b) ls ->
  name_other (exec ls (init nm sp loc scr f (Some h) sst scl rem)) = Some h.
Proof. exact holder_kept. Qed.

Theorem C08_failed_spawn_keeps_holder : forall ls nm sp loc scr f h sst scl rem,
  let s := exec ls (init nm sp loc scr f (Some h) sst scl rem) in
  Forall (fun l => forall b, l <> LReuseName b) ls ->
  pc s = PDone -> check_C08_holder (observe s) = true.
Proof. exact remote_failure_oracle_sound. Qed.

(* ---- statement pins ---- *)
Check (C08_clean_failure : forall ls nm sp loc scr f holder sst scl rem,
  let s := exec ls (init nm sp loc scr f holder sst scl rem) in
  pc s = PDone -> residue_free s = true /\ check_C08 (observe s) = true).
Check (C08_clash_inert : forall ls h sp loc scr f sst scl,
  let s := exec ls (init true sp loc scr f (Some h) sst scl false) in
  Forall (fun l => forall b, l <> LReuseName b) ls ->
  name_other s = Some h /\ exists_cell s = false
  /\ name_mine s = false /\ pid_mine s = false /\ groups s = [] /\ mons s = [] /\ my_sup s = None
  /\ mailbox s = [] /\ waiters s = [] /\ status s = 0 /\ events s = O /\ ran s = O).

(* ---- non-vacuity ---- *)
(* pre_start joins a group, monitors one, adopts a child, is linked elsewhere, then fails; a call
   and a waiter arrive while it is parked; everything is gone at PDone *)
Definition ex_script : list eff := [EJoin 1; EMon 2; EAdopt 7; EGate; ELinkTo 8; EGate].
Definition ex_run : list label :=
  [LNew; LBegin; LEff; LEff; LEff; LSend (Some 5); LWait 1; LJoin 3; LEff; LEff; LEff; LEff;
   LClean; LClean; LClean; LClean; LClean; LClean].
Example ex_before_failure :
  let s := exec (firstn 12 ex_run) (init true (Some 4) false ex_script RErr None 2 false false) in
  pc s = C1 /\ name_mine s = true /\ pid_mine s = true /\ groups s = [3; 1] /\ mons s = [2]
  /\ my_sup s = Some 8 /\ my_children s = Some [7] /\ mailbox s = [Some 5] /\ waiters s = [(1, false)]
  /\ residue_free s = false.
Proof. vm_compute. repeat split; reflexivity. Qed.
Example ex_after_failure :
  let s := exec ex_run (init true (Some 4) false ex_script RErr None 2 false false) in
  pc s = PDone /\ residue_free s = true /\ killed s = [7] /\ closed_calls s = [5] /\ waiters s = [(1, true)].
Proof. vm_compute. repeat split; reflexivity. Qed.
(* cut by dropping the future at the second await point; cut by a Kill; supervisor stopping *)
Example ex_abort_at_gate :
  let s := exec [LNew; LBegin; LEff; LEff; LEff; LEff; LEff; LAbort; LClean; LClean; LClean; LClean; LClean; LClean]
                (init false None false ex_script ROk None 2 false false) in
  pc s = PDone /\ residue_free s = true.
Proof. vm_compute. split; reflexivity. Qed.
Example ex_killed :
  let s := exec [LNew; LBegin; LEff; LEff; LEff; LKill; LSeeKill; LClean; LClean; LClean; LClean; LClean; LClean]
                (init false None false ex_script ROk None 2 false false) in
  pc s = PDone /\ residue_free s = true /\ killed s = [7].
Proof. vm_compute. repeat split; reflexivity. Qed.
Example ex_supervisor_stopping :
  let s := exec [LNew; LBegin; LSupStatus 5; LEff; LLinkSup; LClean; LClean; LClean; LClean; LClean; LClean]
                (init false (Some 4) false [] ROk None 2 false false) in
  pc s = PDone /\ residue_free s = true.
Proof. vm_compute. split; reflexivity. Qed.
Example ex_success_is_not_failure :
  let s := exec [LNew; LBegin; LEff; LLinkSup; LClean; LClean]
                (init false (Some 4) false [] ROk None 2 false false) in
  pc s = PRun /\ my_sup s = Some 4 /\ ran s = 1%nat.
Proof. vm_compute. repeat split; reflexivity. Qed.
(* thread-local order: linked before pre_start; the future is dropped while the request is queued *)
Example ex_thread_local_cancelled_while_queued :
  let s0 := exec [LNew; LBegin; LWait 1; LSend (Some 2)] (init true (Some 4) true ex_script ROk None 2 false false) in
  let s := exec [LAbort; LClean; LClean; LClean; LClean; LClean; LClean] s0 in
  pc s0 = P2 /\ my_sup s0 = Some 4 /\ name_mine s0 = true /\ at_gate s0 = true
  /\ pc s = PDone /\ residue_free s = true /\ closed_calls s = [2].
Proof. vm_compute. repeat split; reflexivity. Qed.
Example ex_thread_local_supervisor_exits_while_queued :
  let s := exec [LNew; LBegin; LSupTake; LSupStatus 6; LSupClose; LSeeKill; LClean; LClean; LClean; LClean; LClean; LClean]
                (init false (Some 4) true ex_script ROk None 2 false false) in
  pc s = PDone /\ residue_free s = true.
Proof. vm_compute. split; reflexivity. Qed.
(* a remote-id cell named like a live local actor fails in pre_start: the holder keeps the name *)
Example ex_remote_named_like_holder :
  let s := exec [LNew; LBegin; LEff; LEff; LEff; LEff; LEff; LEff; LEff; LClean; LClean; LClean; LClean; LClean; LClean]
                (init true (Some 4) false ex_script RErr (Some 9) 2 false true) in
  pc s = PDone /\ name_other s = Some 9 /\ name_mine s = false /\ pid_mine s = false
  /\ check_C08_holder (observe s) = true.
Proof. vm_compute. repeat split; reflexivity. Qed.
Example ex_clash :
  let s := exec [LNew; LBegin; LEff; LSend None; LJoin 1; LAbort; LClean]
                (init true None false ex_script ROk (Some 9) 2 false false) in
  pc s = PClash /\ name_other s = Some 9 /\ check_clash (observe s) = true.
Proof. vm_compute. repeat split; reflexivity. Qed.
Example ex_name_reusable :
  let s := exec (ex_run ++ [LReuseName 9]) (init true (Some 4) false ex_script RErr None 2 false false) in
  name_other s = Some 9.
Proof. vm_compute. reflexivity. Qed.

Print Assumptions C08_clean_failure.
Print Assumptions C08_done_is_final.
Print Assumptions C08_failure_enters_cleanup.
Print Assumptions C08_cleanup_completes.
Print Assumptions C08_clash_inert.
Print Assumptions C08_holder_untouched.
Print Assumptions C08_clash_oracle_sound.
Print Assumptions C08_holder_kept.
Print Assumptions C08_failed_spawn_keeps_holder.
