(* C16 — Output ports fan out in order without duplicates.
   Only statements, pins, non-vacuity examples and Print Assumptions. *)
From Coq Require Import List NArith Bool Arith.
From RV Require Import OutPort.Spec OutPort.V1 OutPort.V1Proofs OutPort.Harness.
Import ListNotations.

Theorem C16_v1_publish_nonblocking : forall C cv cap (st : V1.state C) m,
  exists st', V1.step C cv cap st (V1.LPublish m) = Some st'
    /\ V1.tasks C st' = V1.tasks C st /\ V1.actors C st' = V1.actors C st
    /\ V1.order C st' = V1.order C st /\ V1.handles C st' = V1.handles C st
    /\ V1.rxcnt C st' = V1.rxcnt C st.
Proof. exact publish_nonblocking. Qed.

Print Assumptions C16_v1_publish_nonblocking.
