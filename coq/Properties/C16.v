(* C16 — Output ports fan out in order without duplicates.
   Only statements (pinned), non-vacuity examples and Print Assumptions.
   Models: OutPort/Spec.v (single-subscription automaton Sub1), OutPort/V1.v (default
   port), OutPort/V2.v (output-port-v2), OutPort/Harness.v (scenarios, canonical
   scheduler, oracle).  Proofs: OutPort/SpecProofs.v, V1Proofs.v, V2Proofs.v, HarnessProofs.v.

   Reading guide.  `V1.run init ls = Some st` ranges over ALL label sequences, i.e. all
   interleavings of publisher, subscribe calls, forwarding-task steps, handler steps and
   actor terminations, for any number of subscriptions, any converters `cv`, any ring size.
   `conv_of s ls = Some (a, c)`: subscription s was made in ls, for receiver a with
   converter c.  `received st s`: what a's handler has received through s.
   `pubs_after s ls`: the messages published after s was made.
   `absv s a st`: subscription s seen alone (forwarder pc, backlog = accepted publishes the
   forwarder has not taken yet, a's mailbox / received items that came through s, a alive). *)
From Coq Require Import List NArith Bool Arith.
From RV Require Import OutPort.Spec OutPort.SpecProofs OutPort.Harness OutPort.HarnessProofs.
From RV Require OutPort.V1 OutPort.V2 OutPort.V1Proofs OutPort.V2Proofs OutPort.V2NoDup OutPort.V1Handles.
Import ListNotations.

(* ---------------- default port (tokio broadcast, one forwarding task per subscription) *)

(* (1) order preserved, never twice, only converter-mapped messages published after the
   subscription (None-mapped ones skipped): the received sequence is an order-preserving
   sub-sequence, each published occurrence used at most once *)
Theorem C16_v1_subsequence : forall C cv cap ls st s a c,
  V1.run C cv cap (V1.init C) ls = Some st -> V1.conv_of C s ls = Some (a, c) ->
  sublist (V1.received C st s) (filter_map (cv c) (V1.pubs_after C s ls)).
Proof. exact V1Proofs.v1_subsequence. Qed.

(* (2) every run of the port, projected on one subscription (labels of all other
   subscriptions and actors erased), is a run of the single-subscription automaton *)
Theorem C16_v1_refines_sub1 : forall C cv cap ls st s a c,
  V1.run C cv cap (V1.init C) ls = Some st -> V1.conv_of C s ls = Some (a, c) ->
  crun (Some cap) (cv c) ainit (V1.projs C s a ls) = Some (V1.absv C s a st).
Proof. exact V1Proofs.v1_refines. Qed.

(* (3) a subscriber that is never more than `cap` behind misses nothing: what it received
   is a prefix of everything owed, and while its forwarder and actor live, received ++
   mailbox ++ still-to-forward is exactly everything owed *)
Theorem C16_v1_lag_bound : forall C cv cap ls st s a c,
  V1.run C cv cap (V1.init C) ls = Some st -> V1.conv_of C s ls = Some (a, c) ->
  V1.never_behind C cv cap (V1.init C) s ls ->
  let x := V1.absv C s a st in
  prefix (c_got x) (filter_map (cv c) (V1.pubs_after C s ls))
  /\ (active x = true -> c_alive x = true ->
      c_got x ++ c_mbox x ++ filter_map (cv c) (held x ++ c_backlog x)
      = filter_map (cv c) (V1.pubs_after C s ls)).
Proof. exact V1Proofs.v1_lag_bound. Qed.

(* (4) one that lagged keeps receiving: from any point of a run on (e.g. right after a
   Lagged skip), as long as it is not more than `cap` behind again, everything pending at
   that point and everything published later is delivered in order or still pending *)
Theorem C16_v1_after_lag : forall C cv cap ls1 ls2 st1 st2 s a c,
  V1.run C cv cap (V1.init C) ls1 = Some st1 -> V1.run C cv cap st1 ls2 = Some st2 ->
  V1.conv_of C s ls1 = Some (a, c) -> V1.never_behind C cv cap st1 s ls2 ->
  let x1 := V1.absv C s a st1 in let x2 := V1.absv C s a st2 in
  active x1 = true -> active x2 = true -> c_alive x2 = true ->
  c_got x2 ++ c_mbox x2 ++ filter_map (cv c) (held x2 ++ c_backlog x2)
  = c_got x1 ++ c_mbox x1 ++ filter_map (cv c) (held x1 ++ c_backlog x1 ++ V1.pubs_on C ls2).
Proof. exact V1Proofs.v1_after_lag. Qed.

(* (5) a dead (or any other) subscriber is inert: two runs of the port that agree on the
   labels of subscription s and its receiver — whatever the other subscriptions and actors
   do, stop, fail or get pruned — give s the same view *)
Theorem C16_v1_dead_subscriber_inert : forall C cv cap ls1 ls2 st1 st2 s a c,
  V1.run C cv cap (V1.init C) ls1 = Some st1 -> V1.run C cv cap (V1.init C) ls2 = Some st2 ->
  V1.conv_of C s ls1 = Some (a, c) -> V1.conv_of C s ls2 = Some (a, c) ->
  V1.projs C s a ls1 = V1.projs C s a ls2 ->
  V1.absv C s a st1 = V1.absv C s a st2.
Proof. exact V1Proofs.v1_inert. Qed.

(* ... in one-step form: a step of another subscription's forwarder, of another actor
   (including its termination) leaves the view of s untouched *)
Theorem C16_v1_other_steps_invisible : forall C cv cap ls l st st' s a c,
  V1.run C cv cap (V1.init C) ls = Some st -> V1.step C cv cap st l = Some st' ->
  V1.conv_of C s (ls ++ [l]) = Some (a, c) -> V1.proj C s a l = [] ->
  V1.absv C s a st' = V1.absv C s a st.
Proof. exact V1Proofs.v1_frame. Qed.

(* (5b) dropping the port: the forwarder sees Closed only after it has taken everything that
   was buffered, so a subscriber that kept up has been forwarded EVERYTHING published after
   its subscription by the time its forwarding task ends because of the drop (publisher
   publishes a burst and drops the port without yielding: nothing of the burst is lost) *)
Theorem C16_v1_drop_drains : forall C cv cap ls st st' s a c,
  V1.run C cv cap (V1.init C) ls = Some st -> V1.conv_of C s ls = Some (a, c) ->
  V1.never_behind C cv cap (V1.init C) s ls ->
  V1.step C cv cap st (V1.LEnd s) = Some st' -> a_alive (V1.actors C st a) = true ->
  let x := V1.absv C s a st' in
  c_pc x = ADone /\ c_got x ++ c_mbox x = filter_map (cv c) (V1.pubs_after C s ls).
Proof. exact V1Proofs.v1_drop_drains. Qed.

Theorem C16_v1_end_needs_drained : forall C cv cap (st st' : V1.state C) s,
  V1.step C cv cap st (V1.LEnd s) = Some st' -> V1.closed C st = true /\ V1.behind C st s = 0%nat.
Proof. exact V1Proofs.end_needs_drained. Qed.

(* (6) publishing never blocks (as long as a handle of the port exists) and touches only the channel *)
Theorem C16_v1_publish_nonblocking : forall C cv cap (st : V1.state C) m,
  V1.closed C st = false ->
  exists st', V1.step C cv cap st (V1.LPublish m) = Some st'
    /\ V1.tasks C st' = V1.tasks C st /\ V1.actors C st' = V1.actors C st
    /\ V1.order C st' = V1.order C st /\ V1.handles C st' = V1.handles C st
    /\ V1.rxcnt C st' = V1.rxcnt C st.
Proof. exact V1Proofs.publish_nonblocking. Qed.

(* (6b) default port: the subscription vector never loses a forwarding task that is still
   running (every reachable state) ... *)
Theorem C16_v1_handles_keep_live : forall C cv cap ls st,
  V1.run C cv cap (V1.init C) ls = Some st ->
  filter (V1Handles.alive C (V1.tasks C st)) (V1.handles C st)
  = filter (V1Handles.alive C (V1.tasks C st)) (V1.order C st).
Proof. exact V1Handles.v1_handles_keep_live. Qed.

(* (6c) ... and right after every subscribe it holds exactly the live subscriptions in creation
   order: the subscription of a stopped subscriber whose task has ended is dropped, a live
   one is never pruned *)
Theorem C16_v1_subscribe_prunes_exactly : forall C cv cap ls st st' s a c,
  V1.run C cv cap (V1.init C) ls = Some st ->
  V1.step C cv cap st (V1.LSubscribe s a c) = Some st' ->
  V1.handles C st' = filter (V1Handles.alive C (V1.tasks C st')) (V1.order C st')
  /\ (forall h, In h (V1.handles C st') -> V1.is_dead C st' h = false).
Proof. exact V1Handles.v1_subscribe_prunes_exactly. Qed.

(* ---------------- v2 port, for both values `ad` of allow_duplicate_subscription (the public
   port uses true; with false a new subscription of an actor replaces that actor's previous
   one at its position in the batch: abstract label ADrop for the replaced subscription) *)

(* (7) every run of the v2 port projected on one subscription is a run of Sub1 without a ring *)
Theorem C16_v2_refines_sub1 : forall C cv ad ls st s a c,
  V2.run C cv ad (V2.init C) ls = Some st -> V2.conv_of C s ls = Some (a, c) ->
  crun None (cv c) ainit (V2.projs C s a ls) = Some (V2.absv C s a st).
Proof. exact V2Proofs.v2_refines. Qed.

(* (8) v2: none skipped.  What the receiver got through s is a PREFIX of the converter-mapped
   messages published after the subscription (equal up to the subscriber's stop), and while
   the port still serves s and its actor lives: received ++ mailbox ++ not yet dispatched
   = everything owed (so at quiescence received = everything owed) *)
Theorem C16_v2_exact : forall C cv ad ls st s a c,
  V2.run C cv ad (V2.init C) ls = Some st -> V2.conv_of C s ls = Some (a, c) ->
  prefix (V2.received C st s a) (filter_map (cv c) (V2.pubs_after C s ls))
  /\ (let x := V2.absv C s a st in active x = true -> c_alive x = true ->
      c_got x ++ c_mbox x ++ filter_map (cv c) (held x ++ c_backlog x)
      = filter_map (cv c) (V2.pubs_after C s ls)).
Proof. exact V2Proofs.v2_exact. Qed.

(* (9) v2: other subscribers (stopping, being removed on a failed send, subscribing) are inert *)
Theorem C16_v2_dead_subscriber_inert : forall C cv ad ls1 ls2 st1 st2 s a c,
  V2.run C cv ad (V2.init C) ls1 = Some st1 -> V2.run C cv ad (V2.init C) ls2 = Some st2 ->
  V2.conv_of C s ls1 = Some (a, c) -> V2.conv_of C s ls2 = Some (a, c) ->
  V2.projs C s a ls1 = V2.projs C s a ls2 ->
  V2.absv C s a st1 = V2.absv C s a st2.
Proof. exact V2Proofs.v2_inert. Qed.

(* (9b) a v2 port created with allow_duplicate_subscription = false never serves two
   subscriptions of one actor, in any reachable state: no publication reaches an actor twice
   through re-subscription.  False with the flag true (V2NoDup.two_subs_refuted), where
   "never twice" holds per subscription (C16_v2_exact). *)
Theorem C16_v2_nodup_one_per_actor : forall C cv ls st,
  V2.run C cv false (V2.init C) ls = Some st ->
  NoDup (map (V2.e_actor C) (V2.subscribers C st)).
Proof. exact V2NoDup.v2_nodup_one_per_actor. Qed.

(* (9c) apply_subscriber on such a port, exactly: the actor's previous subscription is replaced
   in place and reported, or the new entry is appended *)
Theorem C16_v2_nodup_apply_spec : forall C (l : list (V2.entry C)) e,
  (exists l1 x l2, l = l1 ++ x :: l2 /\ V2.e_actor C x = V2.e_actor C e
     /\ ~ In (V2.e_actor C e) (map (V2.e_actor C) l1)
     /\ V2.apply_subscriber C false l e = (l1 ++ e :: l2, Some (V2.e_sid C x)))
  \/ (~ In (V2.e_actor C e) (map (V2.e_actor C) l)
      /\ V2.apply_subscriber C false l e = (l ++ [e], None)).
Proof. exact V2NoDup.apply_subscriber_false_spec. Qed.

Theorem C16_v2_publish_nonblocking : forall C cv ad (st : V2.state C) m,
  V2.closed C st = false ->
  exists st', V2.step C cv ad st (V2.LPublish m) = Some st'
    /\ V2.queue C st' = V2.queue C st ++ [V2.Data m] /\ V2.batch C st' = V2.batch C st
    /\ V2.dp C st' = V2.dp C st /\ V2.subscribers C st' = V2.subscribers C st
    /\ V2.actors C st' = V2.actors C st.
Proof. exact V2Proofs.publish_nonblocking. Qed.

(* ---------------- the single-subscription automaton itself *)
Theorem C16_sub1_subsequence : forall cap conv ls c, crun cap conv ainit ls = Some c ->
  sublist (c_got c) (filter_map conv (apubs ls)).
Proof. exact sub1_subsequence. Qed.

(* without a ring (v2) nothing is ever skipped *)
Theorem C16_sub1_unbounded_exact : forall conv ls c, crun None conv ainit ls = Some c ->
  prefix (c_got c) (filter_map conv (apubs ls))
  /\ (active c = true -> c_alive c = true ->
      c_got c ++ c_mbox c ++ filter_map conv (held c ++ c_backlog c) = filter_map conv (apubs ls)).
Proof.
  intros conv ls c H. split.
  - eapply sub1_nocap_prefix; [reflexivity|eassumption].
  - intros. eapply sub1_nocap_exact; [reflexivity|eassumption|assumption|assumption].
Qed.

(* ---------------- the executions compared with the implementation are runs of the models *)
Theorem C16_canonical_v1_is_run : forall cap sc,
  let '(_, st, acc) := X1.exec cap sc in
  V1.run cspec cv cap (V1.init cspec) (rev acc) = Some st.
Proof. exact P1.exec_is_run. Qed.

Theorem C16_canonical_v2_is_run : forall ad sc,
  let '(_, st, acc) := X2.exec ad sc in
  V2.run cspec cv ad (V2.init cspec) (rev acc) = Some st.
Proof. exact P2.exec_is_run. Qed.

(* the oracle's matcher decides exactly the sub-sequence / prefix relations of the theorems *)
Theorem C16_oracle_sublist_iff : forall l1 l2, is_sublist l1 l2 = true <-> sublist l1 l2.
Proof. intros l1 l2. split; [apply is_sublist_sound|apply is_sublist_complete]. Qed.

Theorem C16_oracle_prefix_sound : forall l1 l2, is_prefix l1 l2 = true -> prefix l1 l2.
Proof. exact is_prefix_sound. Qed.

(* ---- statement pins ---- *)
Check (C16_v1_subsequence : forall C cv cap ls st s a c,
  V1.run C cv cap (V1.init C) ls = Some st -> V1.conv_of C s ls = Some (a, c) ->
  sublist (V1.received C st s) (filter_map (cv c) (V1.pubs_after C s ls))).
Check (C16_v2_exact : forall C cv ad ls st s a c,
  V2.run C cv ad (V2.init C) ls = Some st -> V2.conv_of C s ls = Some (a, c) ->
  prefix (V2.received C st s a) (filter_map (cv c) (V2.pubs_after C s ls))
  /\ (let x := V2.absv C s a st in active x = true -> c_alive x = true ->
      c_got x ++ c_mbox x ++ filter_map (cv c) (held x ++ c_backlog x)
      = filter_map (cv c) (V2.pubs_after C s ls))).
Check (C16_v2_nodup_one_per_actor : forall C cv ls st,
  V2.run C cv false (V2.init C) ls = Some st ->
  NoDup (map (V2.e_actor C) (V2.subscribers C st))).
Check (C16_v1_subscribe_prunes_exactly : forall C cv cap ls st st' s a c,
  V1.run C cv cap (V1.init C) ls = Some st ->
  V1.step C cv cap st (V1.LSubscribe s a c) = Some st' ->
  V1.handles C st' = filter (V1Handles.alive C (V1.tasks C st')) (V1.order C st')
  /\ (forall h, In h (V1.handles C st') -> V1.is_dead C st' h = false)).
(* non-vacuity: a reachable v2 no-duplicate state with a replaced subscription, and the
   statement's failure for the public flag value *)
Check (V2NoDup.nodup_replaces).
Check (V2NoDup.two_subs_refuted).
Check (C16_v1_dead_subscriber_inert : forall C cv cap ls1 ls2 st1 st2 s a c,
  V1.run C cv cap (V1.init C) ls1 = Some st1 -> V1.run C cv cap (V1.init C) ls2 = Some st2 ->
  V1.conv_of C s ls1 = Some (a, c) -> V1.conv_of C s ls2 = Some (a, c) ->
  V1.projs C s a ls1 = V1.projs C s a ls2 -> V1.absv C s a st1 = V1.absv C s a st2).

(* ---- non-vacuity ---- *)
Local Open Scope N_scope.
Definition ex_all := mkC 1 0 1 0.
Definition ex_even := mkC 2 0 1 0.
(* two subscriptions, a burst of 20 into a ring of 16 (lag), a re-subscription of actor 0,
   actor 1 stopped, more publishes *)
Definition ex_sc := mkScen [] ([OStart 0; OStart 1; OSub 0 ex_all; OSub 1 ex_even] ++ burst 0 5 ++ [OSettle] ++ burst 5 20
                               ++ [OSub 0 ex_even; OSettle; OKill 1] ++ burst 25 3 ++ [OSettle]).
Example ex_v1_result : X1.result 16 ex_sc =
  [[0; 1; 2; 3; 4; 9; 10; 11; 12; 13; 14; 15; 16; 17; 18; 19; 20; 21; 22; 23; 24; 25; 26; 27];
   [0; 2; 4; 10; 12; 14; 16; 18; 20; 22; 24]; [26]].
Proof. vm_compute. reflexivity. Qed.
Example ex_v2_result : X2.result true ex_sc =
  [[0; 1; 2; 3; 4; 5; 6; 7; 8; 9; 10; 11; 12; 13; 14; 15; 16; 17; 18; 19; 20; 21; 22; 23; 24; 25; 26; 27];
   [0; 2; 4; 6; 8; 10; 12; 14; 16; 18; 20; 22; 24]; [26]].
Proof. vm_compute. reflexivity. Qed.
Example ex_oracle : check_C16 false 16 ex_sc (X1.result 16 ex_sc) = true
                 /\ check_C16 true 16 ex_sc (X2.result true ex_sc) = true
                 /\ check_C16 true 16 ex_sc (X1.result 16 ex_sc) = false       (* a skipped item is rejected for v2 *)
                 /\ check_C16 false 16 ex_sc [[0; 1; 1]; []; []] = false        (* a duplicate is rejected *)
                 /\ check_C16 false 16 ex_sc [[1; 0]; []; []] = false.          (* a reordering is rejected *)
Proof. vm_compute. repeat split; reflexivity. Qed.
(* the canonical trace of the example really contains a Lagged step: subscription 0 is 20 behind *)
Example ex_never_behind_fails :
  let '(_, st, acc) := X1.exec 16 (mkScen [] ([OStart 0; OSub 0 ex_all] ++ burst 0 20)) in
  V1.behind cspec st 0 = 20%nat.
Proof. vm_compute. reflexivity. Qed.

(* a subscriber that is still Starting (parked in pre_start) when it is subscribed and while
   0..4 are published and forwarded: the items wait in its mailbox and are all handled, in
   order, once it is Running; if its pre_start fails instead it receives nothing and the
   other subscriber is unaffected *)
Definition ex_starting := mkScen [] ([OStart 1; OSub 0 ex_all; OSub 1 ex_all] ++ burst 0 5 ++ [OSettle]).
Example ex_starting_queued :
  X1.result 16 ex_starting = [[]; [0; 1; 2; 3; 4]]
  /\ (let '(_, st, _) := X1.exec 16 ex_starting in c_mbox (V1.absv cspec 0 0 st)) = [0; 1; 2; 3; 4]
  /\ X1.result 16 (mkScen [] (sc_ops ex_starting ++ [OStart 0] ++ burst 5 2 ++ [OSettle]))
     = [[0; 1; 2; 3; 4; 5; 6]; [0; 1; 2; 3; 4; 5; 6]]
  /\ X2.result true (mkScen [] (sc_ops ex_starting ++ [OStart 0] ++ burst 5 2 ++ [OSettle]))
     = [[0; 1; 2; 3; 4; 5; 6]; [0; 1; 2; 3; 4; 5; 6]]
  /\ X1.result 16 (mkScen [] (sc_ops ex_starting ++ [OFailStart 0] ++ burst 5 2 ++ [OSettle]))
     = [[]; [0; 1; 2; 3; 4; 5; 6]].
Proof. vm_compute. repeat split; reflexivity. Qed.

(* allow_duplicate_subscription = false: the second subscription of actor 0 replaces the first
   at its position in the batch (the situation of the crate's unit test
   replacement_subscription_takes_effect_at_batch_position): subscription 0 receives 1,
   subscription 1 receives 2 *)
Example ex_v2_replace :
  match V2.run cspec cv false (V2.init cspec)
          [V2.LStart 0; V2.LSubscribe 0 0 ex_all; V2.LPublish 1; V2.LSubscribe 1 0 ex_all; V2.LPublish 2;
           V2.LTake 4; V2.LCtl; V2.LApply None; V2.LCtl; V2.LCtl; V2.LSend 0; V2.LCtl; V2.LCtl;
           V2.LApply (Some 0); V2.LCtl; V2.LCtl; V2.LSend 1; V2.LCtl; V2.LCtl; V2.LCtl;
           V2.LHandle 0 0; V2.LHandle 0 1] with
  | Some st => V2.received cspec st 0 0 = [1] /\ V2.received cspec st 1 0 = [2]
               /\ c_pc (V2.absv cspec 0 0 st) = ADone /\ c_pc (V2.absv cspec 1 0 st) = AIdle
  | None => False
  end.
Proof. vm_compute. repeat split; reflexivity. Qed.

(* publisher publishes [0;1;2] and drops the port without yielding, the forwarder having run
   once before: all three arrive, in both ports, and the canonical run ends with LEnd *)
Definition ex_drop := mkScen [] [OStart 0; OSub 0 ex_all; OSettle; OPub 0; OPub 1; OPub 2; ODrop; OSettle].
Example ex_drop_drains :
  X1.result 16 ex_drop = [[0; 1; 2]] /\ X2.result true ex_drop = [[0; 1; 2]]
  /\ In (V1.LEnd 0) (X1.trace 16 ex_drop)
  /\ check_C16 false 16 ex_drop [[0]] = false.
Proof. vm_compute. repeat split; try reflexivity. tauto. Qed.

(* allow_duplicate_subscription = false under the canonical scheduler: the re-subscription of
   actor 0 (subscription 2, even only) replaces subscription 0, which stops at that point; the
   oracle for this configuration accepts it and rejects the allow-duplicates answer *)
Example ex_v2_nodup :
  X2.result false ex_sc =
    [[0; 1; 2; 3; 4; 5; 6; 7; 8; 9; 10; 11; 12; 13; 14; 15; 16; 17; 18; 19; 20; 21; 22; 23; 24];
     [0; 2; 4; 6; 8; 10; 12; 14; 16; 18; 20; 22; 24]; [26]]
  /\ check_C16_nodup 16 ex_sc (X2.result false ex_sc) = true
  /\ check_C16_nodup 16 ex_sc (X2.result true ex_sc) = false.
Proof. vm_compute. repeat split; reflexivity. Qed.

(* the hypotheses of C16_v2_exact's second part are met: subscription 0 of the example is
   still served, its actor alive, and everything owed has been received *)
Example ex_v2_active :
  let '(_, st, _) := X2.exec true ex_sc in
  let x := V2.absv cspec 0 0 st in
  active x = true /\ c_alive x = true /\ c_backlog x = [] /\ c_mbox x = []
  /\ c_got x = filter_map (cv ex_all) (V2.pubs_after cspec 0 (X2.trace true ex_sc)).
Proof. vm_compute. repeat split; reflexivity. Qed.

Print Assumptions C16_v1_subsequence.
Print Assumptions C16_v1_refines_sub1.
Print Assumptions C16_v1_lag_bound.
Print Assumptions C16_v1_after_lag.
Print Assumptions C16_v1_dead_subscriber_inert.
Print Assumptions C16_v1_other_steps_invisible.
Print Assumptions C16_v1_drop_drains.
Print Assumptions C16_v1_end_needs_drained.
Print Assumptions C16_v1_publish_nonblocking.
Print Assumptions C16_v1_handles_keep_live.
Print Assumptions C16_v1_subscribe_prunes_exactly.
Print Assumptions C16_v2_publish_nonblocking.
Print Assumptions C16_v2_refines_sub1.
Print Assumptions C16_v2_exact.
Print Assumptions C16_v2_dead_subscriber_inert.
Print Assumptions C16_v2_nodup_one_per_actor.
Print Assumptions C16_v2_nodup_apply_spec.
Print Assumptions C16_sub1_subsequence.
Print Assumptions C16_sub1_unbounded_exact.
Print Assumptions C16_canonical_v1_is_run.
Print Assumptions C16_canonical_v2_is_run.
Print Assumptions C16_oracle_sublist_iff.
Print Assumptions C16_oracle_prefix_sound.
