(* C01 — One handler at a time, in lifecycle order.
   Model: Loop/World.v (the actor runtime: start, processing loop, ports, lifecycle guard,
   supervision routing), the property as the executable recogniser Loop/Checks.v (astep / arun /
   check_C01), proofs in Loop/WorldProofs.v.  Statements, pins, non-vacuity, assumptions only. *)
From Coq Require Import List Arith Bool.
From RV Require Import Loop.World Loop.Checks Loop.WorldProofs Loop.PickProofs.
Import ListNotations.

(* For every world of scripted actors (arbitrary callback bodies: gates = await points, ticks,
   sends, stops, kills, drains, Ok / Err / panic results), every supervision layout and EVERY
   schedule (any list of driver operations and polls of any actor with any fuel), each actor's
   callback events form a word of the lifecycle grammar: no two callbacks open at once;
   pre_start first and once; post_start once after pre_start returned Ok; handlers only after
   post_start returned Ok; post_stop at most once, after the last handler, only after a stop or
   drain request; nothing after a cancellation, an Err or a panic. *)
Theorem C01_trace_grammar : forall cfgs msgs ls n,
  check_C01 n (trace_of (run (init cfgs msgs) ls)) = true.
Proof. exact check_C01_ok. Qed.

(* the same, for the driver programs the E1 engine executes (settle = rounds of polls) *)
Theorem C01_driver_programs : forall cfgs msgs rounds fuel order ops n,
  check_C01 n (trace_of (run_dops rounds fuel order (init cfgs msgs) ops)) = true.
Proof. intros. rewrite run_dops_labels. apply check_C01_ok. Qed.

(* per actor, with the verdict code: 0 = accepted (no C01 and no C03 rule is violated) *)
Theorem C01_every_actor_accepted : forall cfgs msgs ls i,
  code_of (arun i ast0 (trace_of (run (init cfgs msgs) ls))) = 0.
Proof. exact life_ok. Qed.

Check (C01_trace_grammar : forall cfgs msgs ls n,
  check_C01 n (trace_of (run (init cfgs msgs) ls)) = true).

(* ---- the recogniser is not vacuous: it rejects the forbidden shapes ---- *)
Example reject_overlap :
  code_of (arun 0 ast0 [TEnter 0 PreStart; TExit 0 PreStart ROk; TEnter 0 PostStart; TExit 0 PostStart ROk;
                        TEnter 0 (Handle 1); TEnter 0 (Handle 2)]) = 11.
Proof. reflexivity. Qed.
Example reject_handler_before_post_start :
  code_of (arun 0 ast0 [TEnter 0 PreStart; TExit 0 PreStart ROk; TEnter 0 (Handle 1)]) = 11.
Proof. reflexivity. Qed.
Example reject_post_stop_after_error :
  code_of (arun 0 ast0 [TEnter 0 PreStart; TExit 0 PreStart ROk; TEnter 0 PostStart; TExit 0 PostStart ROk;
                        TStopReq 0 None; TEnter 0 (Handle 1); TExit 0 (Handle 1) (RErr 5); TEnter 0 PostStop]) <> 0.
Proof. discriminate. Qed.
Example reject_post_stop_without_cause :
  code_of (arun 0 ast0 [TEnter 0 PreStart; TExit 0 PreStart ROk; TEnter 0 PostStart; TExit 0 PostStart ROk;
                        TEnter 0 PostStop]) = 12.
Proof. reflexivity. Qed.
Example reject_second_pre_start :
  code_of (arun 0 ast0 [TEnter 0 PreStart; TExit 0 PreStart ROk; TEnter 0 PreStart]) = 11.
Proof. reflexivity. Qed.

(* ---- and the model really runs: a two-actor world through every phase ---- *)
Definition ex_cfgs : list cfg :=
  [mkCfg ([ETick], ROk) ([], ROk) ([ETick], ROk) SupDefault None false;
   mkCfg ([EGate 1], ROk) ([ETick], ROk) ([], ROk) SupDefault (Some 0) false].
Definition ex_ops : list dop :=
  [DL (LSpawn 0); DSettle; DL (LSpawn 1); DSettle; DL (LOpen 1); DSettle;
   DL (LSend 1 7); DSettle; DL (LKill 1); DSettle].
Example ex_trace :
  trace_of (run_dops 6 20 [0; 1] (init ex_cfgs [(7, ([ETick; EGate 2], ROk))]) ex_ops) =
  [TEnter 0 PreStart; TTick 0; TExit 0 PreStart ROk; TSpawnRet 0 true; TEnter 0 PostStart;
   TExit 0 PostStart ROk; TEnter 1 PreStart; TPark 1 1; TWake 1 1; TExit 1 PreStart ROk;
   TSpawnRet 1 true; TEnter 1 PostStart; TTick 1; TExit 1 PostStart ROk;
   TEnter 0 (Sup (SStarted 1)); TExit 0 (Sup (SStarted 1)) ROk; TSent 1 7 true;
   TEnter 1 (Handle 7); TTick 1; TPark 1 2; TKillReq 1; TCancel 1 (Handle 7); TJoin 1;
   TEnter 0 (Sup (STerminated 1 false (Some 0))); TStopReq 0 None;
   TExit 0 (Sup (STerminated 1 false (Some 0))) ROk; TEnter 0 PostStop; TTick 0;
   TExit 0 PostStop ROk; TJoin 0].
Proof. vm_compute. reflexivity. Qed.

Print Assumptions C01_trace_grammar.
Print Assumptions C01_driver_programs.
Print Assumptions C01_every_actor_accepted.
