(* C02 - Mailbox delivers accepted messages once, in order.
   Only statements, pins, non-vacuity examples and Print Assumptions.
   Model: Admission/Model.v; proofs: Admission/Proofs.v. A message is identified with
   the send activation that offers it (frame index), so identities are unique. *)
From Coq Require Import List Arith Bool.
From RV Require Import Admission.Model Admission.Proofs.
Import ListNotations.

(* handled is a prefix of accepted, in acceptance order: at most once, in order, nothing
   skipped *)
Theorem C02_refines_fifo : forall s, reachable s ->
  handled s = firstn (length (handled s)) (accepted s) /\ NoDup (accepted s) /\ NoDup (handled s).
Proof. intros s R. apply refines_fifo, reachable_inv, R. Qed.

(* a send that returned Ok was accepted *)
Theorem C02_ok_accepted : forall s i, reachable s -> result s i = Some ROk -> In i (accepted s).
Proof. intros s i R. apply ok_accepted, reachable_inv, R. Qed.

(* a send that returned Err is never accepted nor handled, and Err(SendErr(m)) hands back
   the very message *)
Theorem C02_rejected_never_handled : forall s i r, reachable s -> result s i = Some r -> r <> ROk ->
  ~ In i (accepted s) /\ ~ In i (handled s) /\ (forall m, r = RErr m -> m = i).
Proof. intros s i r R. apply rejected_not_accepted, reachable_inv, R. Qed.

(* while the actor is alive with an empty mailbox, everything accepted has been handled *)
Theorem C02_exactly_once_if_alive : forall s, reachable s -> alive (cons s) = true -> q s = [] ->
  handled s = accepted s.
Proof. intros s R. apply exactly_once_if_alive, reachable_inv, R. Qed.

(* send i returned Ok before send j began: i precedes j in the channel and, if j is ever
   handled, i was handled before it *)
Theorem C02_real_time_order : forall ls1 ls2 i j,
  result (run init ls1) i = Some ROk -> nth_error (ss (run init ls1)) j = None ->
  forall s2, s2 = run (run init ls1) ls2 ->
  (In j (accepted s2) -> before i j (accepted s2)) /\
  (In j (handled s2) -> before i j (handled s2)).
Proof.
  intros ls1 ls2 i j. apply real_time_order. apply reachable_inv. exists ls1; auto.
Qed.

(* a send of the wrong message type is rejected and changes nothing but its own frame
   (and the ghost log) *)
Theorem C02_wrong_type_inert : forall fail s i inf,
  nth_error (ss s) i = Some T0 -> nth_error (si s) i = Some inf -> wrong inf = true ->
  sstep fail s i = add_log (set_ss s (upd (ss s) i (SDone RInvalid))) (EEnd i RInvalid).
Proof. exact wrong_type_inert. Qed.

(* the executable oracle evaluated on implementation logs accepts every log the model can
   produce (flag: the actor is still polling with an empty mailbox) *)
Theorem C02_oracle_sound : forall s, reachable s -> check_C02 (alive_idle s) (log s) = true.
Proof. exact check_C02_sound. Qed.

(* the same oracle without its (cubic) real-time-order clause, used on long-backlog logs *)
Theorem C02_oracle_lite_sound : forall s, reachable s -> check_C02_lite (alive_idle s) (log s) = true.
Proof. exact check_C02_lite_sound. Qed.

(* ---- statement pins ---- *)
Check (C02_refines_fifo : forall s, reachable s ->
  handled s = firstn (length (handled s)) (accepted s) /\ NoDup (accepted s) /\ NoDup (handled s)).
Check (C02_rejected_never_handled : forall s i r, reachable s -> result s i = Some r -> r <> ROk ->
  ~ In i (accepted s) /\ ~ In i (handled s) /\ (forall m, r = RErr m -> m = i)).

(* ---- non-vacuity: three concurrent senders and a drain, explicit schedule that reaches
   every pc of the send path (granted, parked in box, rejected at the status gate,
   rejected at the admission word) ---- *)
Definition msg (p : nat) : call := CSend p false true false false [] [].
Definition ex_labels : list label :=
  [LSpawn (msg 1); LSpawn (msg 2); LSpawn (msg 3); LSpawn CDrain;
   LS 0; LS 0; LS 0; LS 0;        (* sender 0: T0 S0 S1 SA -> granted *)
   LS 1; LS 1; LS 1;              (* sender 1: T0 S0 S1 -> holds a stale copy of the word *)
   LD 0;                          (* drainer closes admission *)
   LS 1;                          (* sender 1: CAS fails, observes closed *)
   LS 1;                          (* sender 1: rejected at the admission word *)
   LD 0;                          (* drainer publishes Draining *)
   LS 2; LS 2;                    (* sender 2: rejected at the status gate *)
   LD 0; LD 0;                    (* drainer: load, gives up (count = 1) *)
   LS 0; LS 0; LS 0; LS 0; LS 0; LS 0; LS 0;   (* sender 0: box, enqueue, drop, marker *)
   LRecv; LH; LRecv; LCStopping; LCClose; LFinish].
Example ex_three_senders :
  map (result (run init ex_labels)) [0; 1; 2] = [Some ROk; Some (RErr 1); Some (RErr 2)] /\
  handled (run init ex_labels) = [0] /\ exits (run init ex_labels) = [RDrained].
Proof. vm_compute. auto. Qed.

Example ex_order :
  view (exec [AStart (CSend 1 false true true false [] []); ADo (msg 2); ARelease 0; ADo (msg 3); AConsume])
  = ([EBegin 1 false; EBegin 2 false; EEnd 2 ROk; EEnd 1 ROk; EBegin 3 false; EEnd 3 ROk;
      EHandle 2; EHandle 1; EHandle 3], 2).
Proof. vm_compute. reflexivity. Qed.

Print Assumptions C02_refines_fifo.
Print Assumptions C02_ok_accepted.
Print Assumptions C02_rejected_never_handled.
Print Assumptions C02_exactly_once_if_alive.
Print Assumptions C02_real_time_order.
Print Assumptions C02_wrong_type_inert.
Print Assumptions C02_oracle_sound.
Print Assumptions C02_oracle_lite_sound.
