(* Proofs about Rpc/Model.v.  Every theorem quantifies over arbitrary label sequences: any
   number of callers, any callee behaviour (reply with any value from any holder of the port,
   drop, store, hand over, return), exits of any actor at any moment, any clock advances. *)
From Coq Require Import List NArith ZArith Bool Lia Arith.
From RV Require Import Rpc.Model.
Import ListNotations.
Local Open Scope N_scope.

(* ---------- lists ---------- *)
Lemma nth_upd_eq : forall {A} (l : list A) i x, (i < length l)%nat -> nth_error (upd l i x) i = Some x.
Proof. induction l; destruct i; simpl; intros; try lia; auto. apply IHl. lia. Qed.

Lemma nth_upd_neq : forall {A} (l : list A) i j x, i <> j -> nth_error (upd l i x) j = nth_error l j.
Proof. induction l; destruct i, j; simpl; intros; try congruence; auto. Qed.

Lemma upd_length : forall {A} (l : list A) i x, length (upd l i x) = length l.
Proof. induction l; destruct i; simpl; intros; auto. Qed.

Lemma nth_some_lt : forall {A} (l : list A) i x, nth_error l i = Some x -> (i < length l)%nat.
Proof. intros. apply nth_error_Some. congruence. Qed.

Lemma nth_upd : forall {A} (l : list A) i j x y,
  nth_error (upd l i x) j = Some y ->
  (i = j /\ y = x /\ (i < length l)%nat) \/ (i <> j /\ nth_error l j = Some y).
Proof.
  intros. destruct (Nat.eq_dec i j) as [->|n].
  - left. assert (j < length l)%nat by (apply nth_some_lt in H; now rewrite upd_length in H).
    rewrite nth_upd_eq in H by auto. inversion H; auto.
  - right. rewrite nth_upd_neq in H; auto.
Qed.

Lemma nth_snoc : forall {A} (l : list A) x j y,
  nth_error (l ++ [x]) j = Some y -> nth_error l j = Some y \/ (j = length l /\ y = x).
Proof.
  intros. destruct (Nat.lt_ge_cases j (length l)).
  - rewrite nth_error_app1 in H by auto. auto.
  - rewrite nth_error_app2 in H by auto. destruct (j - length l)%nat eqn:E.
    + simpl in H. inversion H. right. split; auto. lia.
    + simpl in H. destruct n; discriminate.
Qed.

Lemma filter_none : forall {A} (f : A -> bool) l, (forall x, In x l -> f x = false) -> filter f l = [].
Proof.
  induction l; simpl; intros; auto. rewrite (H a) by auto. apply IHl. intros. apply H. auto.
Qed.

Lemma run_app : forall ls1 ls2 s, run (ls1 ++ ls2) s = run ls2 (run ls1 s).
Proof. intros. unfold run. apply fold_left_app. Qed.
Lemma run_snoc : forall ls l s, run (ls ++ [l]) s = step (run ls s) l.
Proof. intros. rewrite run_app. reflexivity. Qed.

Module Arith.
  Ltac Zify.zify_post_hook ::= Z.div_mod_to_equations.
  Lemma le_ceil : forall t, t <= ceil_ms t.
  Proof. intros. unfold ceil_ms, ms. lia. Qed.
  Lemma floor_le : forall t, floor_ms t <= t.
  Proof. intros. unfold floor_ms, ms. lia. Qed.
  Ltac Zify.zify_post_hook ::= idtac.
End Arith.
Import Arith.

Lemma elapsed_ge : forall t D, elapsed t D = true -> D <= t.
Proof.
  unfold elapsed. intros. apply N.leb_le in H. pose proof (le_ceil D). pose proof (floor_le t). lia.
Qed.

(* break every match in sight *)
Ltac break :=
  repeat match goal with
         | H : context [match ?x with _ => _ end] |- _ => destruct x eqn:?; try discriminate
         | |- context [match ?x with _ => _ end] => destruct x eqn:?; try discriminate
         | H : context [if ?x then _ else _] |- _ => destruct x eqn:?; try discriminate
         | |- context [if ?x then _ else _] => destruct x eqn:?; try discriminate
         end.

(* ---------- how a step changes one call ---------- *)
(* every call of the next state is an old call, the freshly created one, or the image of an
   old call under one of a few transformations *)
Inductive ctrans (s : state) (c : nat) (cl : call) : call -> Prop :=
| T_same : ctrans s c cl cl
| T_start_ok : c_st cl = CNew ->
    ctrans s c cl (mkCall (c_callee cl) (c_tmo cl) (c_fwd cl) (now s)
                    (CWaiting (match c_tmo cl with Some T => Some (now s + T) | None => None end)) ChOpen LMbox None)
| T_start_fail : c_st cl = CNew ->
    ctrans s c cl (mkCall (c_callee cl) (c_tmo cl) (c_fwd cl) (now s) (CGot RSendFailed (now s)) ChClosed LGone None)
| T_abandon : forall dl, c_st cl = CWaiting dl ->
    ctrans s c cl (set_call cl (CGot RAbandoned (now s)) (c_ch cl) (c_loc cl) (c_first cl))
| T_dequeue : c_loc cl = LMbox -> ctrans s c cl (set_call cl (c_st cl) (c_ch cl) LHandler (c_first cl))
| T_reply : forall v, held (c_loc cl) = true -> ctrans s c cl (send_value cl v)
| T_drop : (held (c_loc cl) = true \/ c_loc cl = LMbox) -> ctrans s c cl (drop_sender cl)
| T_store : c_loc cl = LHandler -> ctrans s c cl (set_call cl (c_st cl) (c_ch cl) LStored (c_first cl))
| T_move : (c_loc cl = LHandler \/ c_loc cl = LStored) ->
    ctrans s c cl (set_call cl (c_st cl) (c_ch cl) LTask (c_first cl))
| T_poll_ok : forall dl v, c_st cl = CWaiting dl -> c_ch cl = ChFull v ->
    ctrans s c cl (set_call cl (CGot (RSuccess v) (now s)) (c_ch cl) (c_loc cl) (c_first cl))
| T_poll_closed : forall dl, c_st cl = CWaiting dl -> c_ch cl = ChClosed ->
    ctrans s c cl (set_call cl (CGot RSenderError (now s)) (c_ch cl) (c_loc cl) (c_first cl))
| T_poll_timeout : forall D, c_st cl = CWaiting (Some D) -> c_ch cl = ChOpen -> elapsed (wheel s) D = true ->
    ctrans s c cl (set_call cl (CGot RTimeout (now s)) (c_ch cl) (c_loc cl) (c_first cl)).

Definition fresh (a : nat) (tmo : option N) (fwd : option nat) : call :=
  mkCall a tmo fwd 0 CNew ChOpen LNone None.

Lemma step_call : forall s l c cl',
  nth_error (calls (step s l)) c = Some cl' ->
  (exists cl, nth_error (calls s) c = Some cl /\ ctrans s c cl cl')
  \/ (c = length (calls s) /\ exists a tmo fwd, l = NewCall a tmo fwd /\ cl' = fresh a tmo fwd).
Proof.
  intros s l c cl' H.
  assert (SAME : nth_error (calls s) c = Some cl' ->
          (exists cl, nth_error (calls s) c = Some cl /\ ctrans s c cl cl')
          \/ (c = length (calls s) /\ exists a tmo fwd, l = NewCall a tmo fwd /\ cl' = fresh a tmo fwd)).
  { intro X. left. exists cl'. split; auto. constructor. }
  assert (UPD : forall c0 cl x, nth_error (calls s) c0 = Some cl -> ctrans s c0 cl x ->
          nth_error (upd (calls s) c0 x) c = Some cl' ->
          (exists cl, nth_error (calls s) c = Some cl /\ ctrans s c cl cl')
          \/ (c = length (calls s) /\ exists a tmo fwd, l = NewCall a tmo fwd /\ cl' = fresh a tmo fwd)).
  { intros c0 cl x N T X. apply nth_upd in X. destruct X as [(-> & -> & _)|(_ & X)]; auto.
    left. exists cl. auto. }
  destruct l; simpl in H; auto.
  - (* NewCall *) apply nth_snoc in H. destruct H as [H|(-> & ->)]; auto. right. split; auto. eauto.
  - (* Start *)
    destruct (nth_error (calls s) c0) as [cl|] eqn:N; auto.
    destruct (c_st cl) eqn:ST; auto.
    destruct (nth_error (actors s) (c_callee cl)) as [ac|] eqn:NA.
    + destruct (accepts ac); simpl in H; eapply UPD; eauto; constructor; auto.
    + simpl in H. eapply UPD; eauto; constructor; auto.
  - (* Abandon *)
    destruct (nth_error (calls s) c0) as [cl|] eqn:N; auto.
    destruct (c_st cl) eqn:ST; auto. simpl in H. eapply UPD; eauto. econstructor; eauto.
  - (* Dequeue *)
    destruct (nth_error (actors s) a) as [ac|] eqn:NA; auto.
    destruct (a_alive ac); auto. destruct (a_cur ac); auto. destruct (a_mbox ac) as [|c0 rest] eqn:MB; auto.
    destruct (nth_error (calls s) c0) as [cl|] eqn:N; auto.
    destruct (c_loc cl) eqn:L; auto. simpl in H. eapply UPD; eauto. constructor; auto.
  - (* Reply *)
    destruct (nth_error (calls s) c0) as [cl|] eqn:N; auto.
    destruct (held (c_loc cl)) eqn:HL; auto. simpl in H. eapply UPD; eauto. constructor; auto.
  - (* DropPort *)
    destruct (nth_error (calls s) c0) as [cl|] eqn:N; auto.
    destruct (held (c_loc cl)) eqn:HL; auto. simpl in H. eapply UPD; eauto. constructor; auto.
  - (* Store *)
    destruct (nth_error (calls s) c0) as [cl|] eqn:N; auto.
    destruct (c_loc cl) eqn:L; auto. destruct (nth_error (actors s) (c_callee cl)); auto.
    simpl in H. eapply UPD; eauto. constructor; auto.
  - (* Move *)
    destruct (nth_error (calls s) c0) as [cl|] eqn:N; auto.
    destruct (c_loc cl) eqn:L; auto; simpl in H; eapply UPD; eauto; constructor; auto.
  - (* Finish *)
    destruct (nth_error (actors s) a) as [ac|] eqn:NA; auto.
    destruct (a_cur ac) as [c0|]; auto. simpl in H.
    destruct (nth_error (calls s) c0) as [cl|] eqn:N; auto.
    destruct (c_loc cl) eqn:L; auto. eapply UPD; eauto. constructor. left. rewrite L. reflexivity.
  - (* Exit *)
    destruct (nth_error (actors s) a) as [ac|] eqn:NA; auto.
    destruct (a_alive ac); auto. simpl in H.
    rewrite nth_error_map in H. destruct (nth_error (calls s) c) as [cl|] eqn:N; try discriminate.
    simpl in H. inversion H; subst cl'. left. exists cl. split; auto.
    unfold exit_call. destruct (Nat.eqb (c_callee cl) a); [|constructor].
    destruct (c_loc cl) eqn:L; try constructor; auto; left; rewrite L; reflexivity.
  - (* StopAccept *)
    destruct (nth_error (actors s) a); auto.
  - (* Poll *)
    destruct (nth_error (calls s) c0) as [cl|] eqn:N; auto.
    destruct (c_st cl) eqn:ST; auto.
    destruct (c_ch cl) eqn:CH.
    + destruct dl as [D|]; auto. destruct (elapsed (wheel s) D) eqn:E; auto.
      simpl in H. rewrite <- CH in H. eapply UPD; eauto. eapply T_poll_timeout; eauto.
    + simpl in H. rewrite <- CH in H at 1. eapply UPD; eauto. eapply T_poll_ok; eauto.
    + simpl in H. rewrite <- CH in H. eapply UPD; eauto. eapply T_poll_closed; eauto.
Qed.

(* ---------- per-call consistency of caller state, channel and port location ---------- *)
Definition holder (l : ploc) : bool :=
  match l with LMbox => true | LHandler => true | LStored => true | LTask => true | _ => false end.

Definition call_ok (cl : call) : Prop :=
  (c_st cl = CNew <-> c_loc cl = LNone)
  /\ (c_loc cl = LNone -> c_ch cl = ChOpen /\ c_first cl = None)
  /\ (holder (c_loc cl) = true -> c_ch cl = ChOpen /\ c_first cl = None)
  /\ (c_loc cl = LGone -> forall dl, c_st cl = CWaiting dl -> c_ch cl <> ChOpen)
  /\ (forall v, c_ch cl = ChFull v -> c_first cl = Some v)
  /\ (forall v t, c_st cl = CGot (RSuccess v) t -> c_first cl = Some v)
  /\ (forall D, c_st cl = CWaiting (Some D) -> exists T, c_tmo cl = Some T /\ D = c_t0 cl + T)
  /\ (c_st cl = CWaiting None -> c_tmo cl = None)
  /\ (forall t, c_st cl = CGot RTimeout t -> exists T, c_tmo cl = Some T /\ c_t0 cl + T <= t).

Ltac solve_ok :=
  repeat match goal with
         | H : ?x = ?x -> _ |- _ => specialize (H eq_refl)
         | H : _ /\ _ |- _ => destruct H
         | H : _ <-> _ |- _ => destruct H
         | H : CWaiting _ = CWaiting _ |- _ => inversion H; clear H; subst
         | H : CGot _ _ = CGot _ _ |- _ => inversion H; clear H; subst
         | H : ChFull _ = ChFull _ |- _ => inversion H; clear H; subst
         | H : Some _ = Some _ |- _ => inversion H; clear H; subst
         | H : _ \/ _ |- _ => destruct H; subst; simpl in *
         end; try discriminate; try congruence; eauto.

Lemma ctrans_ok : forall s c cl cl', wheel s <= now s -> call_ok cl -> ctrans s c cl cl' -> call_ok cl'.
Proof.
  intros s c cl cl' W OK T.
  destruct cl as [callee tmo fwd t0 st ch loc fst].
  unfold call_ok in *. simpl in *.
  inversion T; subst; clear T; simpl in *; try subst; unfold send_value, drop_sender, set_call; simpl;
    try tauto.
  all: destruct OK as (O1 & O2 & O3 & O4 & O5 & O6 & O7 & O8 & O9).
  all: try (destruct loc; simpl in *; try discriminate).
  all: repeat split; intros; subst; simpl in *; solve_ok; subst; simpl in *; solve_ok.
  all: try (destruct tmo; solve_ok; fail).
  all: try (destruct st; simpl in *; solve_ok; fail).
  all: try (destruct ch; simpl in *; solve_ok; fail).
  all: try (match goal with
            | H : forall v t, CGot (RSuccess ?a) ?b = CGot (RSuccess v) t -> _ |- _ =>
                specialize (H _ _ eq_refl); discriminate
            end).
  all: try (match goal with
            | H : forall D, CWaiting (Some ?d) = CWaiting (Some D) -> _, E : elapsed _ ?d = true |- _ =>
                destruct (H _ eq_refl) as (T & ? & ?); exists T; split; auto; apply elapsed_ge in E; lia
            end).
Qed.

Definition Inv1 (s : state) : Prop :=
  wheel s <= now s /\ forall c cl, nth_error (calls s) c = Some cl -> call_ok cl.

Lemma fresh_ok : forall a tmo fwd, call_ok (fresh a tmo fwd).
Proof. intros. unfold call_ok, fresh; simpl. repeat split; intros; try discriminate; auto. Qed.

Lemma step_clock : forall s l, wheel s <= now s -> wheel (step s l) <= now (step s l) /\ now s <= now (step s l).
Proof.
  intros s l W. destruct l; simpl; try (split; lia); break; simpl; split; lia.
Qed.

Lemma Inv1_step : forall s l, Inv1 s -> Inv1 (step s l).
Proof.
  intros s l (W & OK). split; [apply step_clock; auto|].
  intros c cl' N. apply step_call in N. destruct N as [(cl & N & T)|(_ & a & tmo & fwd & _ & ->)].
  - eapply ctrans_ok; eauto.
  - apply fresh_ok.
Qed.

Lemma Inv1_run : forall ls t n, Inv1 (run ls (init t n)).
Proof.
  induction ls using rev_ind; intros.
  - split; simpl; [lia|]. intros c cl N. destruct c; discriminate.
  - rewrite run_snoc. apply Inv1_step. auto.
Qed.

(* ---------- the ghost log of replies agrees with the per-call ghost ---------- *)
Definition first_reply (c : nat) (l : list (nat * N)) : option N :=
  match find (fun p => Nat.eqb (fst p) c) l with Some p => Some (snd p) | None => None end.

Lemma first_reply_snoc : forall c l c0 v,
  first_reply c (l ++ [(c0, v)]) =
  match first_reply c l with Some x => Some x | None => if Nat.eqb c0 c then Some v else None end.
Proof.
  unfold first_reply. induction l as [|[c1 v1] l]; simpl; intros.
  - destruct (Nat.eqb c0 c); auto.
  - destruct (Nat.eqb c1 c); simpl; auto.
Qed.

Definition InvB (s : state) : Prop :=
  (forall c cl, nth_error (calls s) c = Some cl -> first_reply c (replies s) = c_first cl)
  /\ (forall c v, In (c, v) (replies s) -> (c < length (calls s))%nat).

Lemma held_holder : forall l, held l = true -> holder l = true.
Proof. destruct l; simpl; auto. Qed.

Lemma exit_call_first : forall a cl, c_first (exit_call a cl) = c_first cl.
Proof. intros. unfold exit_call, drop_sender. break; reflexivity. Qed.

Lemma step_len : forall s l, (length (calls s) <= length (calls (step s l)))%nat.
Proof.
  intros. destruct l; simpl; break; simpl; rewrite ?upd_length, ?map_length, ?app_length; simpl; lia.
Qed.

Lemma InvB_step : forall s l, Inv1 s -> InvB s -> InvB (step s l).
Proof.
  intros s l (W & OK) (IB & IL). split.
  2: { intros c v IN. pose proof (step_len s l) as LE.
       assert (OLD : In (c, v) (replies s) -> (c < length (calls (step s l)))%nat).
       { intro X. apply IL in X. lia. }
       destruct l; simpl in IN; auto; break; simpl in IN; auto.
       all: apply in_app_or in IN; destruct IN as [IN|[E|[]]]; auto; inversion E; subst.
       all: match goal with H : nth_error (calls _) _ = Some _ |- _ => apply nth_some_lt in H end; lia. }
  intros c cl' N.
  assert (UPD : forall c0 cl0 x, nth_error (calls s) c0 = Some cl0 -> c_first x = c_first cl0 ->
                nth_error (upd (calls s) c0 x) c = Some cl' -> first_reply c (replies s) = c_first cl').
  { intros c0 cl0 x N0 F X. apply nth_upd in X. destruct X as [(-> & -> & _)|(_ & X)]; auto.
    rewrite F. auto. }
  assert (NEWF : forall cl0 c0, nth_error (calls s) c0 = Some cl0 -> c_st cl0 = CNew -> c_first cl0 = None).
  { intros cl0 c0 N0 ST. destruct (OK _ _ N0) as (O1 & O2 & _). apply O2. apply O1. auto. }
  destruct l; simpl in N |- *; auto.
  - (* NewCall *) apply nth_snoc in N. destruct N as [N|(-> & ->)]; auto. simpl.
    unfold first_reply.
    destruct (find (fun p => Nat.eqb (fst p) (length (calls s))) (replies s)) as [[c1 v1]|] eqn:F; auto.
    exfalso. apply find_some in F. destruct F as (IN & E). simpl in E. apply Nat.eqb_eq in E. subst c1.
    apply IL in IN. lia.
  - (* Start *)
    destruct (nth_error (calls s) c0) as [cl|] eqn:N0; auto.
    destruct (c_st cl) eqn:ST; auto.
    destruct (nth_error (actors s) (c_callee cl)); [destruct (accepts a)|]; simpl in *;
      (eapply (UPD c0 cl); [exact N0| |exact N]; simpl; symmetry; eapply NEWF; eauto).
  - destruct (nth_error (calls s) c0) as [cl|] eqn:N0; auto.
    destruct (c_st cl) eqn:ST; auto. simpl in *. (eapply (UPD c0 cl); [exact N0| |exact N]; reflexivity).
  - destruct (nth_error (actors s) a) as [ac|] eqn:NA; auto.
    destruct (a_alive ac); auto. destruct (a_cur ac); auto. destruct (a_mbox ac) as [|c0 rest]; auto.
    destruct (nth_error (calls s) c0) as [cl|] eqn:N0; auto.
    destruct (c_loc cl); auto. simpl in *. (eapply (UPD c0 cl); [exact N0| |exact N]; reflexivity).
  - (* Reply *)
    destruct (nth_error (calls s) c0) as [cl|] eqn:N0; auto.
    destruct (held (c_loc cl)) eqn:HL; auto. simpl in *.
    rewrite first_reply_snoc.
    apply nth_upd in N. destruct N as [(-> & -> & _)|(NE & N)].
    + rewrite (IB _ _ N0). destruct (OK _ _ N0) as (_ & _ & O3 & _).
      destruct (O3 (held_holder _ HL)) as (_ & F). rewrite F. simpl. rewrite F, Nat.eqb_refl. reflexivity.
    + rewrite (IB _ _ N). destruct (c_first cl'); auto.
      destruct (Nat.eqb_spec c0 c); auto. congruence.
  - destruct (nth_error (calls s) c0) as [cl|] eqn:N0; auto.
    destruct (held (c_loc cl)) eqn:HL; auto. simpl in *. (eapply (UPD c0 cl); [exact N0| |exact N]; reflexivity).
  - destruct (nth_error (calls s) c0) as [cl|] eqn:N0; auto.
    destruct (c_loc cl); auto. destruct (nth_error (actors s) (c_callee cl)); auto.
    simpl in *. (eapply (UPD c0 cl); [exact N0| |exact N]; reflexivity).
  - destruct (nth_error (calls s) c0) as [cl|] eqn:N0; auto.
    destruct (c_loc cl); auto; simpl in *; (eapply (UPD c0 cl); [exact N0| |exact N]; reflexivity).
  - destruct (nth_error (actors s) a) as [ac|] eqn:NA; auto.
    destruct (a_cur ac) as [c0|]; auto. simpl in *.
    destruct (nth_error (calls s) c0) as [cl|] eqn:N0; auto.
    destruct (c_loc cl); auto. (eapply (UPD c0 cl); [exact N0| |exact N]; reflexivity).
  - destruct (nth_error (actors s) a) as [ac|] eqn:NA; auto.
    destruct (a_alive ac); auto. simpl in *.
    rewrite nth_error_map in N. destruct (nth_error (calls s) c) as [cl|] eqn:N0; try discriminate.
    simpl in N. inversion N; subst cl'. rewrite exit_call_first. auto.
  - destruct (nth_error (actors s) a); auto.
  - destruct (nth_error (calls s) c0) as [cl|] eqn:N0; auto.
    destruct (c_st cl) eqn:ST; auto.
    destruct (c_ch cl) eqn:CH.
    + destruct dl as [D|]; auto. destruct (elapsed (wheel s) D); auto. simpl in *. (eapply (UPD c0 cl); [exact N0| |exact N]; reflexivity).
    + simpl in *. (eapply (UPD c0 cl); [exact N0| |exact N]; reflexivity).
    + simpl in *. (eapply (UPD c0 cl); [exact N0| |exact N]; reflexivity).
Qed.

Lemma InvB_run : forall ls t n, InvB (run ls (init t n)).
Proof.
  induction ls using rev_ind; intros.
  - split; simpl; [intros c cl N; destruct c; discriminate|intros c v []].
  - rewrite run_snoc. apply InvB_step; auto. apply Inv1_run.
Qed.

(* ---------- a dead actor holds no reply port ---------- *)
Definition at_actor (l : ploc) : bool :=
  match l with LMbox => true | LHandler => true | LStored => true | _ => false end.

Definition alive_at (acts : list actor) (a : nat) : Prop :=
  exists ac, nth_error acts a = Some ac /\ a_alive ac = true.

Definition InvC (s : state) : Prop :=
  forall c cl, nth_error (calls s) c = Some cl -> at_actor (c_loc cl) = true -> alive_at (actors s) (c_callee cl).

Lemma alive_upd : forall acts a0 ac0 ac0' a,
  nth_error acts a0 = Some ac0 -> a_alive ac0' = a_alive ac0 ->
  alive_at acts a -> alive_at (upd acts a0 ac0') a.
Proof.
  intros acts a0 ac0 ac0' a N0 E (ac & N & AL). unfold alive_at.
  destruct (Nat.eq_dec a0 a) as [->|NE].
  - rewrite nth_upd_eq by (eapply nth_some_lt; eauto). exists ac0'. split; auto. congruence.
  - rewrite nth_upd_neq by auto. eauto.
Qed.

Lemma InvC_step : forall s l, InvC s -> InvC (step s l).
Proof.
  intros s l IC c cl' N AT.
  assert (UPD : forall c0 cl0 x, nth_error (calls s) c0 = Some cl0 -> c_callee x = c_callee cl0 ->
                (at_actor (c_loc x) = true -> at_actor (c_loc cl0) = true) ->
                nth_error (upd (calls s) c0 x) c = Some cl' -> alive_at (actors s) (c_callee cl')).
  { intros c0 cl0 x N0 E IMP X. apply nth_upd in X. destruct X as [(-> & -> & _)|(_ & X)].
    - rewrite E. eapply IC; eauto.
    - eapply IC; eauto. }
  assert (SAME : nth_error (calls s) c = Some cl' -> alive_at (actors s) (c_callee cl')).
  { intro X. eapply IC; eauto. }
  destruct l; simpl in N |- *; auto.
  - apply nth_snoc in N. destruct N as [N|(-> & ->)]; [auto|discriminate].
  - (* Start *)
    destruct (nth_error (calls s) c0) as [cl|] eqn:N0; auto.
    destruct (c_st cl) eqn:ST; auto.
    destruct (nth_error (actors s) (c_callee cl)) as [ac|] eqn:NA.
    + destruct (accepts ac) eqn:AC; simpl in *.
      * apply nth_upd in N. destruct N as [(-> & -> & _)|(_ & N)]; simpl in *.
        -- unfold alive_at. rewrite nth_upd_eq by (eapply nth_some_lt; eauto).
           eexists; split; eauto. simpl. unfold accepts in AC. apply andb_prop in AC. tauto.
        -- eapply alive_upd; eauto.
      * refine (UPD _ _ _ N0 _ _ N); [reflexivity|]. discriminate.
    + simpl in *. refine (UPD _ _ _ N0 _ _ N); [reflexivity|]. discriminate.
  - destruct (nth_error (calls s) c0) as [cl|] eqn:N0; auto.
    destruct (c_st cl) eqn:ST; auto. simpl in *. refine (UPD _ _ _ N0 _ _ N); [reflexivity|auto].
  - (* Dequeue *)
    destruct (nth_error (actors s) a) as [ac|] eqn:NA; auto.
    destruct (a_alive ac) eqn:AL; auto. destruct (a_cur ac); auto. destruct (a_mbox ac) as [|c0 rest]; auto.
    destruct (nth_error (calls s) c0) as [cl|] eqn:N0; auto.
    destruct (c_loc cl) eqn:L; auto. simpl in *. eapply alive_upd; eauto.
    refine (UPD _ _ _ N0 _ _ N); [reflexivity|]. rewrite L. auto.
  - (* Reply *)
    destruct (nth_error (calls s) c0) as [cl|] eqn:N0; auto.
    destruct (held (c_loc cl)) eqn:HL; auto. simpl in *.
    assert (A0 : alive_at (actors s) (c_callee cl')).
    { refine (UPD _ _ _ N0 _ _ N); [reflexivity|]. discriminate. }
    destruct (c_loc cl); auto. destruct (nth_error (actors s) (c_callee cl)) eqn:NA; auto.
    eapply alive_upd; eauto.
  - destruct (nth_error (calls s) c0) as [cl|] eqn:N0; auto.
    destruct (held (c_loc cl)) eqn:HL; auto. simpl in *.
    assert (A0 : alive_at (actors s) (c_callee cl')).
    { refine (UPD _ _ _ N0 _ _ N); [reflexivity|]. discriminate. }
    destruct (c_loc cl); auto. destruct (nth_error (actors s) (c_callee cl)) eqn:NA; auto.
    eapply alive_upd; eauto.
  - (* Store *)
    destruct (nth_error (calls s) c0) as [cl|] eqn:N0; auto.
    destruct (c_loc cl) eqn:L; auto. destruct (nth_error (actors s) (c_callee cl)) eqn:NA; auto.
    simpl in *. eapply alive_upd; eauto.
    refine (UPD _ _ _ N0 _ _ N); [reflexivity|]. rewrite L. auto.
  - (* Move *)
    destruct (nth_error (calls s) c0) as [cl|] eqn:N0; auto.
    destruct (c_loc cl) eqn:L; auto; simpl in *.
    + refine (UPD _ _ _ N0 _ _ N); [reflexivity|]. discriminate.
    + assert (A0 : alive_at (actors s) (c_callee cl')).
      { refine (UPD _ _ _ N0 _ _ N); [reflexivity|]. discriminate. }
      destruct (nth_error (actors s) (c_callee cl)) eqn:NA; auto. eapply alive_upd; eauto.
  - (* Finish *)
    destruct (nth_error (actors s) a) as [ac|] eqn:NA; auto.
    destruct (a_cur ac) as [c0|]; auto. simpl in *.
    eapply alive_upd; eauto.
    destruct (nth_error (calls s) c0) as [cl|] eqn:N0; auto.
    destruct (c_loc cl); auto. refine (UPD _ _ _ N0 _ _ N); [reflexivity|]. discriminate.
  - (* Exit *)
    destruct (nth_error (actors s) a) as [ac|] eqn:NA; auto.
    destruct (a_alive ac) eqn:AL; auto. simpl in *.
    rewrite nth_error_map in N. destruct (nth_error (calls s) c) as [cl|] eqn:N0; try discriminate.
    simpl in N. inversion N; subst cl'. clear N. unfold exit_call in *.
    destruct (Nat.eqb_spec (c_callee cl) a) as [E|NE].
    + exfalso. destruct (c_loc cl) eqn:L; simpl in AT; try discriminate; rewrite ?L in AT; discriminate.
    + destruct (IC _ _ N0 AT) as (ac1 & N1 & A1). exists ac1. rewrite nth_upd_neq by auto. auto.
  - destruct (nth_error (actors s) a) as [ac|] eqn:NA; auto. simpl in *. eapply alive_upd; eauto.
  - (* Poll *)
    destruct (nth_error (calls s) c0) as [cl|] eqn:N0; auto.
    destruct (c_st cl) eqn:ST; auto.
    destruct (c_ch cl) eqn:CH.
    + destruct dl as [D|]; auto. destruct (elapsed (wheel s) D); auto. simpl in *.
      refine (UPD _ _ _ N0 _ _ N); [reflexivity|auto].
    + simpl in *. refine (UPD _ _ _ N0 _ _ N); [reflexivity|auto].
    + simpl in *. refine (UPD _ _ _ N0 _ _ N); [reflexivity|auto].
Qed.

Lemma InvC_run : forall ls t n, InvC (run ls (init t n)).
Proof.
  induction ls using rev_ind; intros.
  - intros c cl N. destruct c; discriminate.
  - rewrite run_snoc. apply InvC_step; auto.
Qed.

(* ---------- forwards: exactly one per successful forwarding call, none otherwise ---------- *)
Definition fw_of (c : nat) (l : list (nat * N * N * bool)) : list (nat * N * N * bool) :=
  filter (fun e => Nat.eqb (fst (fst (fst e))) c) l.

Definition fwd_ok (c : nat) (cl : call) (l : list (nat * N * N * bool)) : Prop :=
  match c_st cl, c_fwd cl with
  | CGot (RSuccess v) t, Some b => exists ok, fw_of c l = [(c, v, t, ok)]
  | _, _ => fw_of c l = []
  end.

Definition succ (st : cst) : bool := match st with CGot (RSuccess _) _ => true | _ => false end.

Definition InvE (s : state) : Prop :=
  (forall c cl, nth_error (calls s) c = Some cl -> fwd_ok c cl (fwds s))
  /\ (forall e, In e (fwds s) -> (fst (fst (fst e)) < length (calls s))%nat).

Lemma fwd_ok_same : forall c cl x l,
  c_fwd x = c_fwd cl -> (c_st x = c_st cl \/ (succ (c_st x) = false /\ succ (c_st cl) = false)) ->
  fwd_ok c cl l -> fwd_ok c x l.
Proof.
  unfold fwd_ok. intros c cl x l F [E|(S1 & S2)] H.
  - rewrite F, E. auto.
  - rewrite F. destruct (c_st x) as [| |[] ?]; destruct (c_st cl) as [| |[] ?]; simpl in *; try discriminate; auto;
      destruct (c_fwd cl); auto.
Qed.

Lemma exit_call_same : forall a cl, c_fwd (exit_call a cl) = c_fwd cl /\ c_st (exit_call a cl) = c_st cl.
Proof. intros. unfold exit_call, drop_sender. break; auto. Qed.

Lemma InvE_step : forall s l, InvE s -> InvE (step s l).
Proof.
  intros s l (IE & IL). split.
  2: { intros e IN. pose proof (step_len s l) as LE.
       assert (OLD : In e (fwds s) -> (fst (fst (fst e)) < length (calls (step s l)))%nat).
       { intro X. apply IL in X. lia. }
       destruct l; simpl in IN; auto; break; simpl in IN; auto.
       all: unfold forward in IN; break; auto.
       all: apply in_app_or in IN; destruct IN as [IN|[E|[]]]; auto; subst e; cbn [fst].
       all: match goal with H : nth_error (calls _) _ = Some _ |- _ => apply nth_some_lt in H end; lia. }
  intros c cl' N.
  assert (UPD : forall c0 cl0 x, nth_error (calls s) c0 = Some cl0 -> c_fwd x = c_fwd cl0 ->
                (c_st x = c_st cl0 \/ (succ (c_st x) = false /\ succ (c_st cl0) = false)) ->
                nth_error (upd (calls s) c0 x) c = Some cl' -> fwd_ok c cl' (fwds s)).
  { intros c0 cl0 x N0 F E X. apply nth_upd in X. destruct X as [(-> & -> & _)|(_ & X)]; auto.
    eapply fwd_ok_same; eauto. }
  assert (SAME : nth_error (calls s) c = Some cl' -> fwd_ok c cl' (fwds s)) by auto.
  destruct l; simpl in N |- *; auto.
  - apply nth_snoc in N. destruct N as [N|(-> & ->)]; auto. unfold fwd_ok, fresh. simpl.
    unfold fw_of. apply filter_none.
    intros e IN. apply Nat.eqb_neq. apply IL in IN. lia.
  - destruct (nth_error (calls s) c0) as [cl|] eqn:N0; auto.
    destruct (c_st cl) eqn:ST; auto.
    destruct (nth_error (actors s) (c_callee cl)); [destruct (accepts a)|]; simpl in *;
      (refine (UPD _ _ _ N0 _ _ N); [reflexivity|right; rewrite ST; auto]).
  - destruct (nth_error (calls s) c0) as [cl|] eqn:N0; auto.
    destruct (c_st cl) eqn:ST; auto. simpl in *.
    refine (UPD _ _ _ N0 _ _ N); [reflexivity|right; rewrite ST; auto].
  - destruct (nth_error (actors s) a) as [ac|] eqn:NA; auto.
    destruct (a_alive ac); auto. destruct (a_cur ac); auto. destruct (a_mbox ac) as [|c0 rest]; auto.
    destruct (nth_error (calls s) c0) as [cl|] eqn:N0; auto.
    destruct (c_loc cl); auto. simpl in *. refine (UPD _ _ _ N0 _ _ N); [reflexivity|left; reflexivity].
  - destruct (nth_error (calls s) c0) as [cl|] eqn:N0; auto.
    destruct (held (c_loc cl)); auto. simpl in *. refine (UPD _ _ _ N0 _ _ N); [reflexivity|left; reflexivity].
  - destruct (nth_error (calls s) c0) as [cl|] eqn:N0; auto.
    destruct (held (c_loc cl)); auto. simpl in *. refine (UPD _ _ _ N0 _ _ N); [reflexivity|left; reflexivity].
  - destruct (nth_error (calls s) c0) as [cl|] eqn:N0; auto.
    destruct (c_loc cl); auto. destruct (nth_error (actors s) (c_callee cl)); auto.
    simpl in *. refine (UPD _ _ _ N0 _ _ N); [reflexivity|left; reflexivity].
  - destruct (nth_error (calls s) c0) as [cl|] eqn:N0; auto.
    destruct (c_loc cl); auto; simpl in *; (refine (UPD _ _ _ N0 _ _ N); [reflexivity|left; reflexivity]).
  - destruct (nth_error (actors s) a) as [ac|] eqn:NA; auto.
    destruct (a_cur ac) as [c0|]; auto. simpl in *.
    destruct (nth_error (calls s) c0) as [cl|] eqn:N0; auto.
    destruct (c_loc cl); auto. refine (UPD _ _ _ N0 _ _ N); [reflexivity|left; reflexivity].
  - destruct (nth_error (actors s) a) as [ac|] eqn:NA; auto.
    destruct (a_alive ac); auto. simpl in *.
    rewrite nth_error_map in N. destruct (nth_error (calls s) c) as [cl|] eqn:N0; try discriminate.
    simpl in N. inversion N; subst cl'. destruct (exit_call_same a cl) as (E1 & E2).
    eapply fwd_ok_same; eauto.
  - destruct (nth_error (actors s) a); auto.
  - (* Poll *)
    destruct (nth_error (calls s) c0) as [cl|] eqn:N0; auto.
    destruct (c_st cl) eqn:ST; auto.
    destruct (c_ch cl) eqn:CH.
    + destruct dl as [D|]; auto. destruct (elapsed (wheel s) D); auto. simpl in *.
      refine (UPD _ _ _ N0 _ _ N); [reflexivity|right; rewrite ST; auto].
    + simpl in *. unfold forward.
      apply nth_upd in N. destruct N as [(-> & -> & _)|(NE & N)].
      * pose proof (IE _ _ N0) as F0. unfold fwd_ok in F0 |- *. rewrite ST in F0. simpl.
        destruct (c_fwd cl) as [b|]; auto.
        unfold fw_of in *. rewrite filter_app, F0. simpl. rewrite Nat.eqb_refl. simpl. eauto.
      * pose proof (IE _ _ N) as F0. destruct (c_fwd cl) as [b|]; auto.
        unfold fwd_ok, fw_of in *. rewrite filter_app. simpl.
        destruct (Nat.eqb_spec c0 c); [congruence|]. rewrite app_nil_r. auto.
    + simpl in *. refine (UPD _ _ _ N0 _ _ N); [reflexivity|right; rewrite ST; auto].
Qed.

Lemma InvE_run : forall ls t n, InvE (run ls (init t n)).
Proof.
  induction ls using rev_ind; intros.
  - split; simpl; [intros c cl N; destruct c; discriminate|intros e []].
  - rewrite run_snoc. apply InvE_step; auto.
Qed.

(* ================= headline theorems ================= *)

(* the reply log is written only by `Reply c v` executed by the current holder of c's port *)
Lemma replies_step : forall s l,
  replies (step s l) = replies s
  \/ exists c v cl, l = Reply c v /\ nth_error (calls s) c = Some cl /\ held (c_loc cl) = true
                    /\ replies (step s l) = replies s ++ [(c, v)].
Proof.
  intros. destruct l; simpl; auto; break; simpl; auto.
  all: right; do 3 eexists; repeat split; eauto; rewrite ?Heqp; auto.
Qed.

(* Success v only if v is the FIRST value sent on that call's own port *)
Theorem success_sound : forall ls t n c cl v tt,
  let s := run ls (init t n) in
  nth_error (calls s) c = Some cl -> c_st cl = CGot (RSuccess v) tt ->
  first_reply c (replies s) = Some v.
Proof.
  intros ls t n c cl v tt s N ST. subst s.
  destruct (Inv1_run ls t n) as (_ & OK). destruct (InvB_run ls t n) as (IB & _).
  rewrite (IB _ _ N). destruct (OK _ _ N) as (_ & _ & _ & _ & _ & O6 & _). eauto.
Qed.

Lemma poll_result : forall s c cl dl,
  nth_error (calls s) c = Some cl -> c_st cl = CWaiting dl -> c_ch cl <> ChOpen ->
  exists r, nth_error (calls (step s (Poll c))) c
            = Some (set_call cl (CGot r (now s)) (c_ch cl) (c_loc cl) (c_first cl))
            /\ (r = RSenderError \/ exists v, r = RSuccess v /\ c_ch cl = ChFull v).
Proof.
  intros s c cl dl N ST CH. simpl. rewrite N, ST.
  destruct (c_ch cl) eqn:E; try congruence; simpl; rewrite nth_upd_eq by (eapply nth_some_lt; eauto).
  - exists (RSuccess v). split; eauto.
  - exists RSenderError. split; auto.
Qed.

(* no hang: if the callee is gone (for whatever reason) or the port is gone, and the port was
   not handed to another task, a waiting caller completes at its next poll -- with SenderError
   or with the value that had been sent -- so a quiescent caller is never still waiting *)
Theorem no_hang : forall ls t n c cl dl,
  let s := run ls (init t n) in
  nth_error (calls s) c = Some cl -> c_st cl = CWaiting dl ->
  (~ alive_at (actors s) (c_callee cl) \/ c_loc cl = LGone) -> c_loc cl <> LTask ->
  (exists r, nth_error (calls (step s (Poll c))) c
             = Some (set_call cl (CGot r (now s)) (c_ch cl) (c_loc cl) (c_first cl))
             /\ (r = RSenderError \/ exists v, r = RSuccess v /\ c_ch cl = ChFull v))
  /\ ~ caller_quiescent s c.
Proof.
  intros ls t n c cl dl s N ST DEAD NT. subst s.
  destruct (Inv1_run ls t n) as (_ & OK). pose proof (InvC_run ls t n) as IC.
  destruct (OK _ _ N) as (O1 & _ & _ & O4 & _).
  assert (LG : c_loc cl = LGone).
  { destruct DEAD as [D|D]; auto.
    destruct (c_loc cl) eqn:L; auto; try congruence.
    - exfalso. destruct O1 as (_ & O1). rewrite (O1 eq_refl) in ST. discriminate.
    - exfalso. apply D. eapply IC; eauto. rewrite L. auto.
    - exfalso. apply D. eapply IC; eauto. rewrite L. auto.
    - exfalso. apply D. eapply IC; eauto. rewrite L. auto. }
  assert (CH : c_ch cl <> ChOpen) by (eapply O4; eauto).
  destruct (poll_result _ _ _ _ N ST CH) as (r & NP & R). split; eauto.
  intro Q. unfold caller_quiescent in Q. rewrite Q, N in NP. inversion NP as [E].
  apply (f_equal c_st) in E. simpl in E. congruence.
Qed.

(* timeouts: the deadline is exactly T after the start of the call; once tokio's timer has
   seen it pass, the next poll completes the call (so a quiescent caller is not waiting); a
   Timeout result is never produced before T has elapsed *)
Theorem timeout_bound : forall ls t n c cl D,
  let s := run ls (init t n) in
  nth_error (calls s) c = Some cl -> c_st cl = CWaiting (Some D) ->
  (exists T, c_tmo cl = Some T /\ D = c_t0 cl + T)
  /\ (elapsed (wheel s) D = true ->
      (exists r, nth_error (calls (step s (Poll c))) c
                 = Some (set_call cl (CGot r (now s)) (c_ch cl) (c_loc cl) (c_first cl)))
      /\ ~ caller_quiescent s c).
Proof.
  intros ls t n c cl D s N ST. subst s.
  destruct (Inv1_run ls t n) as (_ & OK).
  destruct (OK _ _ N) as (_ & _ & _ & _ & _ & _ & O7 & _). split; auto.
  intro EL.
  assert (R : exists r, nth_error (calls (step (run ls (init t n)) (Poll c))) c
             = Some (set_call cl (CGot r (now (run ls (init t n)))) (c_ch cl) (c_loc cl) (c_first cl))).
  { simpl. rewrite N, ST. destruct (c_ch cl) eqn:E; simpl; rewrite ?EL; simpl;
      rewrite nth_upd_eq by (eapply nth_some_lt; eauto); eauto. }
  split; auto. destruct R as (r & NP).
  intro Q. unfold caller_quiescent in Q. rewrite Q, N in NP. inversion NP as [E].
  apply (f_equal c_st) in E. simpl in E. congruence.
Qed.

Theorem timeout_not_early : forall ls t n c cl tt,
  let s := run ls (init t n) in
  nth_error (calls s) c = Some cl -> c_st cl = CGot RTimeout tt ->
  exists T, c_tmo cl = Some T /\ c_t0 cl + T <= tt.
Proof.
  intros ls t n c cl tt s N ST. subst s.
  destruct (Inv1_run ls t n) as (_ & OK).
  destruct (OK _ _ N) as (_ & _ & _ & _ & _ & _ & _ & _ & O9). eauto.
Qed.

(* no cross-wiring: a label that acts on call c (its port or its caller) leaves every other
   call untouched -- in any state whatsoever *)
Definition call_label (l : label) : option nat :=
  match l with
  | Reply c _ => Some c | DropPort c => Some c | Store c => Some c | Move c => Some c
  | Start c => Some c | Abandon c => Some c | Poll c => Some c
  | _ => None
  end.

Theorem no_crosswire : forall s l c c',
  call_label l = Some c -> c' <> c -> nth_error (calls (step s l)) c' = nth_error (calls s) c'.
Proof.
  intros s l c c' L NE. destruct l; simpl in L; inversion L; subst; simpl; break; simpl;
    rewrite ?nth_upd_neq by auto; auto.
Qed.

(* call_and_forward: at most one forward per call; exactly one, carrying the reply's value
   and issued at the completion time, when the call succeeded; none otherwise *)
Theorem forward_once : forall ls t n c cl,
  let s := run ls (init t n) in
  nth_error (calls s) c = Some cl ->
  (length (fw_of c (fwds s)) <= 1)%nat
  /\ (forall v tt b, c_st cl = CGot (RSuccess v) tt -> c_fwd cl = Some b ->
        exists ok, fw_of c (fwds s) = [(c, v, tt, ok)])
  /\ ((forall v tt, c_st cl <> CGot (RSuccess v) tt) -> fw_of c (fwds s) = []).
Proof.
  intros ls t n c cl s N. subst s.
  destruct (InvE_run ls t n) as (IE & _). pose proof (IE _ _ N) as F. unfold fwd_ok in F.
  repeat split.
  - destruct (c_st cl) as [| |[] ?]; try (rewrite F; simpl; lia);
      destruct (c_fwd cl); try (rewrite F; simpl; lia). destruct F as (ok & ->). simpl. lia.
  - intros v tt b ST FW. rewrite ST, FW in F. auto.
  - intros NS. destruct (c_st cl) as [| |[] ?]; auto. exfalso. eapply NS; eauto.
Qed.

(* ---------- multi_call: request i goes to target i, for every run ---------- *)
Lemma ctrans_static : forall s c cl cl', ctrans s c cl cl' ->
  c_callee cl' = c_callee cl /\ c_tmo cl' = c_tmo cl /\ c_fwd cl' = c_fwd cl.
Proof. intros. inversion H; subst; simpl; auto; unfold send_value, drop_sender, set_call; auto. Qed.

Lemma step_static : forall s l c cl,
  nth_error (calls s) c = Some cl ->
  exists cl', nth_error (calls (step s l)) c = Some cl'
              /\ c_callee cl' = c_callee cl /\ c_tmo cl' = c_tmo cl /\ c_fwd cl' = c_fwd cl.
Proof.
  intros s l c cl N. pose proof (step_len s l) as LE. pose proof (nth_some_lt _ _ _ N) as LT.
  destruct (nth_error (calls (step s l)) c) as [cl'|] eqn:N'.
  - exists cl'. split; auto. apply step_call in N'.
    destruct N' as [(cl0 & N0 & T)|(E & _)]; [|lia].
    rewrite N in N0. inversion N0; subst. eapply ctrans_static; eauto.
  - apply nth_error_None in N'. lia.
Qed.

Lemma step_groups : forall s l, groups (step s l) = groups s.
Proof. intros. destruct l; simpl; break; reflexivity. Qed.

Lemma step_set_groups : forall s gs l, step (set_groups s gs) l = set_groups (step s l) gs.
Proof. intros. destruct l; unfold set_groups; simpl; break; reflexivity. Qed.

Definition sent_to (s : state) (c a : nat) (tmo : option N) : Prop :=
  exists cl, nth_error (calls s) c = Some cl /\ c_callee cl = a /\ c_tmo cl = tmo /\ c_fwd cl = None.

Lemma sent_to_step : forall s l c a tmo, sent_to s c a tmo -> sent_to (step s l) c a tmo.
Proof.
  intros s l c a tmo (cl & N & E1 & E2 & E3).
  destruct (step_static s l c cl N) as (cl' & N' & F1 & F2 & F3). exists cl'. repeat split; congruence.
Qed.

Lemma sent_to_groups : forall s gs c a tmo, sent_to s c a tmo <-> sent_to (set_groups s gs) c a tmo.
Proof. intros. unfold sent_to, set_groups. simpl. tauto. Qed.

Lemma sent_to_abandons : forall ids s c a tmo,
  sent_to s c a tmo -> sent_to (fold_left (fun ss i => step ss (Abandon i)) ids s) c a tmo.
Proof. induction ids; cbn [fold_left]; intros; auto. apply IHids. apply sent_to_step. auto. Qed.

Definition group_ok (s : state) (gr : cgroup) : Prop :=
  forall i c, nth_error (gg_ids gr) i = Some c ->
    exists a, nth_error (gg_targets gr) i = Some a /\ sent_to s c a (gg_tmo gr).

Definition InvG (s : state) : Prop :=
  (forall g gr, nth_error (groups s) g = Some gr -> group_ok s gr)
  /\ (forall g1 g2 gr1 gr2 i1 i2 c,
        nth_error (groups s) g1 = Some gr1 -> nth_error (groups s) g2 = Some gr2 ->
        nth_error (gg_ids gr1) i1 = Some c -> nth_error (gg_ids gr2) i2 = Some c -> g1 = g2 /\ i1 = i2).

Lemma abandons_groups : forall ids s, groups (fold_left (fun ss i => step ss (Abandon i)) ids s) = groups s.
Proof. induction ids; cbn [fold_left]; intros; auto. rewrite IHids. apply step_groups. Qed.

Lemma abandons_len : forall ids s, (length (calls s) <= length (calls (fold_left (fun ss i => step ss (Abandon i)) ids s)))%nat.
Proof.
  induction ids; cbn [fold_left]; intros; auto. eapply Nat.le_trans; [|apply IHids]. apply step_len.
Qed.

Lemma InvG_xstep : forall s x, InvG s -> InvG (xstep s x).
Proof.
  intros s x (GO & GD). destruct x as [l|ts tmo|g]; cbn [xstep].
  - (* an ordinary label: groups untouched, calls keep their identity *)
    unfold InvG. rewrite step_groups. split; auto.
    intros g gr N i c NI. destruct (GO _ _ N i c NI) as (a & NT & ST). exists a. split; auto.
    apply sent_to_step. auto.
  - unfold set_groups. split.
    + intros g gr N. simpl in N. apply nth_snoc in N. destruct N as [N|(_ & ->)].
      * intros i c NI. destruct (GO _ _ N i c NI) as (a & NT & ST). exists a. split; auto; try (apply sent_to_groups; auto).
      * intros i c NI. destruct i; discriminate.
    + simpl. intros g1 g2 gr1 gr2 i1 i2 c N1 N2 I1 I2.
      apply nth_snoc in N1. apply nth_snoc in N2.
      destruct N1 as [N1|(_ & ->)]; [|destruct i1; discriminate].
      destruct N2 as [N2|(_ & ->)]; [|destruct i2; discriminate]. eauto.
  - destruct (nth_error (groups s) g) as [gr|] eqn:NG; [|split; auto].
    destruct (gg_failed gr) eqn:GF; [split; auto|].
    destruct (nth_error (gg_targets gr) (length (gg_ids gr))) as [a|] eqn:NT; [|split; auto].
    set (c := length (calls s)).
    set (s1 := step (step s (NewCall a (gg_tmo gr) None)) (Start c)).
    assert (G1 : groups s1 = groups s) by (unfold s1; rewrite !step_groups; auto).
    assert (KEEP : forall c0 a0 t0, sent_to s c0 a0 t0 -> sent_to s1 c0 a0 t0).
    { intros. unfold s1. apply sent_to_step. apply sent_to_step. auto. }
    assert (NEW : sent_to s1 c a (gg_tmo gr)).
    { unfold s1. apply sent_to_step. exists (fresh a (gg_tmo gr) None). simpl.
      rewrite nth_error_app2 by (unfold c; lia). unfold c. rewrite Nat.sub_diag. simpl. auto. }
    assert (FRESH : forall g2 gr2 i2, nth_error (groups s) g2 = Some gr2 -> nth_error (gg_ids gr2) i2 <> Some c).
    { intros g2 gr2 i2 N2 I2. destruct (GO _ _ N2 _ _ I2) as (a2 & _ & (cl & NC & _)).
      apply nth_some_lt in NC. unfold c in NC. lia. }
    assert (MAIN : forall s2 fl, groups s2 = groups s ->
              (forall c0 a0 t0, sent_to s1 c0 a0 t0 -> sent_to s2 c0 a0 t0) ->
              InvG (set_groups s2 (upd (groups s2) g (mkCG (gg_targets gr) (gg_tmo gr) (gg_ids gr ++ [c]) fl)))).
    { intros s2 fl G2 K2. rewrite G2. split.
      - intros g0 gr0 N0. simpl in N0. apply nth_upd in N0.
        destruct N0 as [(-> & -> & _)|(NE & N0)].
        + intros i c0 NI. simpl in *. apply nth_snoc in NI. destruct NI as [NI|(-> & ->)].
          * destruct (GO _ _ NG i c0 NI) as (a0 & NT0 & ST0). exists a0. split; auto; try (apply sent_to_groups; auto).
          * exists a. split; auto; try (apply sent_to_groups; auto).
        + intros i c0 NI. destruct (GO _ _ N0 i c0 NI) as (a0 & NT0 & ST0). exists a0. split; auto; try (apply sent_to_groups; auto).
      - simpl. intros g1 g2 gr1 gr2 i1 i2 c0 N1 N2 I1 I2.
        apply nth_upd in N1. apply nth_upd in N2.
        destruct N1 as [(<- & -> & _)|(NE1 & N1)]; destruct N2 as [(<- & -> & _)|(NE2 & N2)]; simpl in *.
        + split; auto. apply nth_snoc in I1. apply nth_snoc in I2.
          destruct I1 as [I1|(-> & ->)]; destruct I2 as [I2|(-> & E2)]; auto.
          * eapply (GD g g); eauto.
          * subst c0. exfalso. eapply FRESH; eauto.
          * exfalso. eapply FRESH; eauto.
        + apply nth_snoc in I1. destruct I1 as [I1|(-> & ->)].
          * eapply GD; eauto.
          * exfalso. eapply FRESH; eauto.
        + apply nth_snoc in I2. destruct I2 as [I2|(-> & ->)].
          * eapply GD; eauto.
          * exfalso. eapply FRESH; eauto.
        + eapply GD; eauto. }
    fold c. fold s1.
    destruct (nth_error (calls s1) c) as [cl|] eqn:NC.
    + destruct (c_st cl); apply MAIN; auto;
        try (rewrite abandons_groups; auto); try (intros; apply sent_to_abandons; auto).
    + destruct NEW as (cl & N & _). congruence.
Qed.

Lemma xrun_snoc : forall xls x s, xrun (xls ++ [x]) s = xstep (xrun xls s) x.
Proof. intros. unfold xrun. rewrite fold_left_app. reflexivity. Qed.

Lemma InvG_xrun : forall xls t n, InvG (xrun xls (init t n)).
Proof.
  induction xls using rev_ind; intros.
  - split; simpl; intros; destruct g || destruct g1; discriminate.
  - rewrite xrun_snoc. apply InvG_xstep. auto.
Qed.

(* C09_multi_order: for every run -- any interleaving of several multi_calls' send loops with
   everything else, targets exiting at any moment -- and every multi_call in it:
   request i was created for target i with this call's timeout and stays addressed to it;
   no request belongs to two multi_calls or two positions; and the vector handed to the caller
   has one entry per target, entry i being the outcome of request i (hence of the port that was
   sent to target i) *)
Theorem multi_order : forall xls t n g gr,
  let s := xrun xls (init t n) in
  nth_error (groups s) g = Some gr ->
  (forall i c, nth_error (gg_ids gr) i = Some c ->
     exists a, nth_error (gg_targets gr) i = Some a /\ sent_to s c a (gg_tmo gr))
  /\ (forall g2 gr2 i1 i2 c, nth_error (groups s) g2 = Some gr2 ->
        nth_error (gg_ids gr) i1 = Some c -> nth_error (gg_ids gr2) i2 = Some c -> g = g2 /\ i1 = i2)
  /\ (forall rs tt, gres_of s gr = GOk rs tt ->
        length rs = length (gg_targets gr)
        /\ forall i c, nth_error (gg_ids gr) i = Some c -> nth_error rs i = Some (res_of s c)).
Proof.
  intros xls t n g gr s N. subst s. destruct (InvG_xrun xls t n) as (GO & GD).
  split; [apply (GO _ _ N)|]. split; [intros; eapply GD; eauto|].
  intros rs tt H. unfold gres_of in H. destruct (gg_failed gr); [discriminate|].
  destruct (Nat.eqb (length (gg_ids gr)) (length (gg_targets gr))) eqn:E; simpl in H; [|discriminate].
  destruct (all_done _ _); [|discriminate]. inversion H; subst. apply Nat.eqb_eq in E.
  split; [rewrite map_length; auto|]. intros i c NI. rewrite nth_error_map, NI. reflexivity.
Qed.

(* the states of x-runs are states of ordinary runs (plus the multi_call bookkeeping): every
   theorem above about `run` applies to them *)
Theorem xrun_core : forall xls t n,
  exists ls, xrun xls (init t n) = set_groups (run ls (init t n)) (groups (xrun xls (init t n))).
Proof.
  induction xls using rev_ind; intros.
  - exists []. reflexivity.
  - rewrite xrun_snoc. destruct (IHxls t n) as (ls & E). set (r := run ls (init t n)) in *.
    set (sx := xrun xls (init t n)) in *.
    assert (STEPS : forall ls2, fold_left step ls2 sx = set_groups (run (ls ++ ls2) (init t n)) (groups sx)).
    { intros ls2. rewrite run_app. fold r. rewrite E at 1. generalize r. clear.
      induction ls2; simpl; intros; auto. rewrite step_set_groups. rewrite IHls2.
      f_equal. }
    assert (FM : forall ids ss, fold_left step (map Abandon ids) ss
                               = fold_left (fun s0 i => step s0 (Abandon i)) ids ss).
    { induction ids; cbn [fold_left map]; auto. }
    destruct x as [l|ts tmo|g]; cbn [xstep].
    + exists (ls ++ [l]). pose proof (STEPS [l]) as S1. cbn [fold_left] in S1.
      rewrite step_groups. exact S1.
    + exists ls. rewrite E at 1. reflexivity.
    + destruct (nth_error (groups sx) g) as [gr|]; [|exists ls; auto].
      destruct (gg_failed gr); [exists ls; auto|].
      destruct (nth_error (gg_targets gr) (length (gg_ids gr))) as [a|]; [|exists ls; auto].
      set (c := length (calls sx)).
      pose proof (STEPS [NewCall a (gg_tmo gr) None; Start c]) as S1. cbn [fold_left] in S1.
      pose proof (STEPS ([NewCall a (gg_tmo gr) None; Start c] ++ map Abandon (gg_ids gr))) as S2.
      rewrite fold_left_app in S2. cbn [fold_left] in S2. rewrite FM in S2.
      destruct (nth_error (calls (step (step sx (NewCall a (gg_tmo gr) None)) (Start c))) c) as [cl|].
      * destruct (c_st cl); eexists; try (rewrite S2; reflexivity); rewrite S1; reflexivity.
      * eexists. rewrite S1 at 1. rewrite S1. reflexivity.
Qed.

Theorem success_sound_x : forall xls t n c cl v tt,
  let s := xrun xls (init t n) in
  nth_error (calls s) c = Some cl -> c_st cl = CGot (RSuccess v) tt ->
  first_reply c (replies s) = Some v.
Proof.
  intros xls t n c cl v tt s N ST. subst s. destruct (xrun_core xls t n) as (ls & E).
  rewrite E in *. simpl in *. eapply success_sound; eauto.
Qed.

(* ---------- the deterministic driver only ever performs model steps ---------- *)
Definition R (n : nat) (d : drv) : Prop := d_s d = xrun (rev (d_ls d)) (init 0 n).

Lemma R_dstep : forall n d l, R n d -> R n (dstep d l).
Proof. unfold R, dstep, with_s. intros. simpl. rewrite xrun_snoc. simpl. congruence. Qed.

Lemma R_dxstep : forall n d x, R n d -> R n (dxstep d x).
Proof. unfold R, dxstep, with_s. intros. simpl. rewrite xrun_snoc. congruence. Qed.

Lemma R_eq : forall n d d', d_s d' = d_s d -> d_ls d' = d_ls d -> R n d -> R n d'.
Proof. unfold R. intros. congruence. Qed.

Lemma R_dpush : forall n d t, R n d -> R n (dpush d t).
Proof. intros. eapply R_eq; eauto. Qed.

Lemma R_with_q : forall n d q, R n d -> R n (with_q d q).
Proof. intros. eapply R_eq; eauto. Qed.

Global Hint Resolve R_dstep R_dpush R_with_q : rdb.

Lemma R_wake_ready : forall n cs i d, R n d -> R n (wake_ready i cs d).
Proof.
  induction cs; simpl; intros; auto. apply IHcs. destruct (c_st a); auto. destruct (c_ch a); auto with rdb.
Qed.

Lemma R_wake_callers : forall n d, R n d -> R n (wake_callers d).
Proof. intros. apply R_wake_ready. auto. Qed.
Global Hint Resolve R_wake_callers : rdb.

Lemma R_do_also : forall n a l d, R n d -> R n (do_also a l d).
Proof.
  induction l as [|[c [v|]] l]; simpl; intros; auto; apply IHl; destruct (stored_at d a c); auto with rdb.
Qed.
Global Hint Resolve R_do_also : rdb.

Lemma R_run_actor : forall n f a d, R n d -> R n (run_actor f a d).
Proof.
  induction f; simpl; intros; auto.
  destruct (nth_error (actors (d_s d)) a) as [ac|]; auto.
  destruct (negb (a_alive ac)); auto.
  destruct (mem a (d_kill d)); auto with rdb.
  destruct (a_cur ac) as [c|].
  - destruct (assoc c (d_plans d)) as [p|]; auto.
    destruct (p_act p); auto 10 with rdb.
  - destruct (mem a (d_stop d)); auto with rdb.
    destruct (a_mbox ac); auto with rdb.
    destruct (mem a (d_drain d)); auto with rdb.
Qed.

Lemma R_run_helper : forall n c d, R n d -> R n (run_helper c d).
Proof.
  unfold run_helper. intros. destruct (nth_error (calls (d_s d)) c); auto.
  destruct (c_loc c0); auto. destruct (assoc c (d_tplans d)) as [[v|]|]; auto with rdb.
Qed.

Lemma R_start_only : forall n c d, R n d -> R n (start_only c d).
Proof.
  unfold start_only. intros. cbv zeta.
  destruct (nth_error (calls (d_s (dstep d (Start c)))) c) as [cl|]; auto with rdb.
  destruct (c_st cl); auto with rdb.
Qed.
Global Hint Resolve R_start_only : rdb.

Lemma R_run_start : forall n c d, R n d -> R n (run_start c d).
Proof.
  unfold run_start. intros. destruct (nth_error (calls (d_s d)) c); auto.
  destruct (c_fwd c0); auto with rdb.
Qed.

Lemma R_fold_push : forall n ids d, R n d -> R n (fold_left (fun dd c => dpush dd (TPoll c)) ids d).
Proof. induction ids; simpl; intros; auto with rdb. Qed.

Lemma R_multi_loop : forall n f g d, R n d -> R n (multi_loop f g d).
Proof.
  induction f; cbn [multi_loop]; intros; auto.
  destruct (nth_error (groups (d_s d)) g) as [gr|]; auto. destruct (gg_failed gr); auto.
  destruct (nth_error (gg_targets gr) (length (gg_ids gr))); auto.
  cbv zeta. apply IHf. pose proof (R_dxstep n d (XMultiSend g) H) as RX.
  set (d1 := dxstep d (XMultiSend g)) in *.
  destruct (nth_error (groups (d_s d1)) g) as [gr1|]; auto.
  destruct (gg_failed gr1); auto with rdb.
Qed.

Lemma R_run_multi : forall n g d, R n d -> R n (run_multi g d).
Proof.
  unfold run_multi. intros. destruct (nth_error (groups (d_s d)) g) as [gr|]; auto.
  pose proof (R_multi_loop n (S (length (gg_targets gr))) g d H) as RM. cbv zeta.
  destruct (nth_error (groups (d_s (multi_loop (S (length (gg_targets gr))) g d))) g) as [gr1|]; auto.
  destruct (gg_failed gr1); auto. apply R_fold_push. auto.
Qed.

Lemma R_settle : forall n tf f d, R n d -> R n (settle tf f d).
Proof.
  induction f; simpl; intros; auto. destruct (d_q d) as [|t q]; auto.
  apply IHf. destruct t; auto using R_run_start, R_run_multi, R_run_actor, R_run_helper with rdb.
Qed.

Lemma R_wake_fired : forall n d, R n d -> R n (wake_fired d).
Proof.
  unfold wake_fired. intros. generalize (fired_list (wheel (d_s d)) 0 (calls (d_s d))).
  intro l. revert d H. induction l; simpl; intros; auto with rdb.
Qed.

Lemma R_settle_full : forall n tf f d, R n d -> R n (settle_full tf f d).
Proof. unfold settle_full. intros. apply R_settle. apply R_wake_fired. apply R_dstep. apply R_settle. auto. Qed.

Lemma R_exec_op : forall n tf f d o, R n d -> R n (exec_op_gen tf f d o).
Proof.
  intros n tf f d o H. destruct o; unfold exec_op_gen.
  - auto with rdb.
  - auto with rdb.
  - apply R_dpush. apply R_dxstep. auto.
  - destruct (assoc c (d_plans d)); auto.
    assert (R n (add_plan d c p)) by (eapply R_eq; eauto).
    destruct (nth_error (calls (d_s d)) c); auto.
    destruct (nth_error (actors (d_s d)) (c_callee c0)); auto.
    destruct (a_cur a); auto. destruct (Nat.eqb c n0); auto with rdb.
  - destruct (assoc c (d_tplans d)); auto.
    assert (R n (add_tplan d c t)) by (eapply R_eq; eauto).
    destruct (nth_error (calls (d_s d)) c); auto. destruct (c_loc c0); auto with rdb.
  - destruct (mem a (d_kill d)); auto; apply R_dpush; eapply R_eq; eauto.
  - destruct (mem a (d_stop d)); auto; apply R_dpush; eapply R_eq; eauto.
  - destruct (mem a (d_drain d)); auto; apply R_dpush; apply R_dstep; eapply R_eq; eauto.
  - apply R_settle_full. auto.
  - apply R_wake_fired. apply R_dstep. apply R_dstep. apply R_settle_full. auto.
  - apply R_settle_full. apply R_dstep. auto.
Qed.

(* every scenario of the correspondence check is a run of the model: all theorems above apply
   to the states the driver reaches *)
Theorem exec_is_run : forall n ops, d_s (exec n ops) = xrun (rev (d_ls (exec n ops))) (init 0 n).
Proof.
  intros. unfold exec, exec_op. generalize FUEL. intro f.
  assert (G : forall ops d, R n d -> R n (fold_left (exec_op_gen f f) ops d)).
  { induction ops0; simpl; intros; auto. apply IHops0. apply R_exec_op. auto. }
  apply G. reflexivity.
Qed.

(* ================= soundness of the oracle's safety clauses ================= *)
Lemma x_invariants : forall xls t n,
  let s := xrun xls (init t n) in
  Inv1 s /\ InvE s.
Proof.
  intros. subst s. destruct (xrun_core xls t n) as (ls & E). rewrite E.
  pose proof (Inv1_run ls t n) as I1. pose proof (InvE_run ls t n) as IE.
  unfold Inv1, InvE, set_groups in *. simpl. auto.
Qed.

Lemma member_no_fwd : forall xls t n c cl,
  let s := xrun xls (init t n) in
  nth_error (calls s) c = Some cl -> member_of_group s c = true -> c_fwd cl = None.
Proof.
  intros xls t n c cl s N M. subst s. unfold member_of_group in M.
  apply existsb_exists in M. destruct M as (gr & IN & MM).
  apply In_nth_error in IN. destruct IN as (g & NG).
  unfold mem in MM. apply existsb_exists in MM. destruct MM as (c' & IC & E).
  apply Nat.eqb_eq in E. subst c'. apply In_nth_error in IC. destruct IC as (i & NI).
  destruct (multi_order xls t n g gr NG) as (A & _).
  destruct (A _ _ NI) as (a & _ & (cl' & N' & _ & _ & F)). congruence.
Qed.

Lemma check_calls_safe_map : forall fw (f : nat * call -> ocall) l c0,
  (forall i cl, nth_error l i = Some cl -> check_call_safe fw (c0 + i) (f ((c0 + i)%nat, cl)) = true) ->
  check_calls_safe fw c0 (map f (combine (seq c0 (length l)) l)) = true.
Proof.
  induction l; simpl; intros; auto.
  pose proof (H 0%nat a eq_refl) as H0. rewrite Nat.add_0_r in H0. rewrite H0. simpl.
  apply IHl. intros i cl N. specialize (H (S i) cl N). rewrite Nat.add_succ_r in H. auto.
Qed.

(* the safety clauses of the executable oracle accept every run of the model's driver, for
   every number of actors and every scenario *)
Theorem oracle_sound_safety : forall n ops, check_C09_safety (observe n ops) = true.
Proof.
  intros n ops. unfold check_C09_safety, observe.
  set (d := exec n (ops ++ [OSettle])). pose proof (exec_is_run n (ops ++ [OSettle])) as ER. fold d in ER.
  set (s := d_s d) in *. cbn [o_fwds o_calls].
  destruct (x_invariants (rev (d_ls d)) 0 n) as ((_ & OK) & (IE & _)). rewrite <- ER in OK, IE.
  apply check_calls_safe_map. intros i cl N. simpl (0 + i)%nat.
  pose proof (OK _ _ N) as (O1 & _ & _ & _ & _ & _ & _ & _ & O9). pose proof (IE _ _ N) as FW.
  unfold fwd_ok, fw_of in FW. unfold check_call_safe. cbn [oc_res oc_done oc_t0 oc_tmo oc_fwd].
  destruct (member_of_group s i) eqn:M.
  - (* a request of a multi_call: reported through the vector; it never forwards *)
    assert (F : c_fwd cl = None).
    { subst s. rewrite ER in N, M. eapply member_no_fwd; eauto. }
    rewrite F in *. simpl. destruct (c_st cl) as [| |[] ?]; rewrite FW; auto.
  - destruct (c_st cl) as [|dl|r tt] eqn:ST; simpl.
    + destruct (c_fwd cl); rewrite FW; auto.
    + destruct (c_fwd cl); rewrite FW; auto.
    + destruct r; simpl.
      * destruct (c_fwd cl).
        -- destruct FW as (ok & ->). rewrite !N.eqb_refl. auto.
        -- rewrite FW. auto.
      * destruct (c_fwd cl); rewrite FW; auto.
      * destruct (O9 _ eq_refl) as (T & -> & LE). apply N.leb_le in LE. rewrite LE.
        destruct (c_fwd cl); rewrite FW; auto.
      * destruct (c_fwd cl); rewrite FW; auto.
      * destruct (c_fwd cl); rewrite FW; auto.
Qed.

Lemma check_calls_imp : forall ops pts alive fw members l c,
  check_calls ops pts alive fw members c l = true -> check_calls_safe fw c l = true.
Proof.
  induction l; simpl; intros; auto. apply andb_prop in H. destruct H as (H1 & H2).
  unfold check_call in H1. apply andb_prop in H1. destruct H1 as (H1 & _). rewrite H1. simpl. eauto.
Qed.

(* ... and they are part of the oracle that judges the implementation *)
Theorem oracle_includes_safety : forall n ops o, check_C09 n ops o = true -> check_C09_safety o = true.
Proof.
  unfold check_C09, check_C09_safety. intros. apply andb_prop in H. destruct H as (_ & H).
  apply andb_prop in H. destruct H as (H & _).
  eapply check_calls_imp; eauto.
Qed.

(* ================= soundness of the oracle's value clauses =================
   trace invariant of the driver: every value in the reply log was published by the scenario
   for that very request (as the action of its handler, as an answer to its stored port, or as
   the action of the task holding its port) *)
Definition also_vals (c : nat) (l : list (nat * option N)) : list N :=
  flat_map (fun x => match x with (c2, Some v) => if Nat.eqb c c2 then [v] else [] | _ => [] end) l.

Fixpoint des_plans (pl : list (nat * plan)) (c : nat) : list N :=
  match pl with
  | [] => []
  | (c', p) :: r =>
      (match p_act p with AReply v => if Nat.eqb c c' then [v] else [] | _ => [] end)
      ++ also_vals c (p_also p) ++ des_plans r c
  end.

Fixpoint des_tplans (tl : list (nat * taction)) (c : nat) : list N :=
  match tl with
  | [] => []
  | (c', TReply v) :: r => (if Nat.eqb c c' then [v] else []) ++ des_tplans r c
  | _ :: r => des_tplans r c
  end.

Definition des (d : drv) (c : nat) (v : N) : Prop :=
  In v (des_plans (d_plans d) c) \/ In v (des_tplans (d_tplans d) c).

Definition DV (d : drv) : Prop := forall c v, In (c, v) (replies (d_s d)) -> des d c v.

(* K d d': d' was obtained from d without touching the published plans, keeping DV *)
Definition K (d d' : drv) : Prop :=
  d_plans d' = d_plans d /\ d_tplans d' = d_tplans d /\ (DV d -> DV d').

Lemma K_refl : forall d, K d d.
Proof. repeat split; auto. Qed.
Lemma K_trans : forall a b c, K a b -> K b c -> K a c.
Proof. unfold K. intros a b c (A1 & A2 & A3) (B1 & B2 & B3). repeat split; try congruence. auto. Qed.
Lemma K_eq : forall d d', d_s d' = d_s d -> d_plans d' = d_plans d -> d_tplans d' = d_tplans d -> K d d'.
Proof. unfold K, DV, des. intros d d' E1 E2 E3. rewrite E1, E2, E3. auto. Qed.

Lemma K_dstep : forall d l, (forall c v, l <> Reply c v) -> K d (dstep d l).
Proof.
  intros d l NR. split; [reflexivity|]. split; [reflexivity|]. intros H c v IN. unfold dstep, with_s in IN. cbn [d_s] in IN.
  destruct (replies_step (d_s d) l) as [E|(c0 & v0 & _ & -> & _)]; [|exfalso; eapply NR; eauto].
  rewrite E in IN. apply H in IN. exact IN.
Qed.

Lemma K_reply : forall d c v, des d c v -> K d (dstep d (Reply c v)).
Proof.
  intros d c v DS. split; [reflexivity|]. split; [reflexivity|]. intros H c1 v1 IN. unfold dstep, with_s in IN. cbn [d_s] in IN.
  destruct (replies_step (d_s d) (Reply c v)) as [E|(c0 & v0 & cl & E0 & _ & _ & E)]; rewrite E in IN.
  - apply H in IN. exact IN.
  - inversion E0; subst. apply in_app_or in IN. destruct IN as [IN|[X|[]]].
    + apply H in IN. exact IN.
    + inversion X; subst. exact DS.
Qed.

Lemma K_dxstep : forall d x, (forall l, x <> XL l) -> K d (dxstep d x).
Proof.
  intros d x NL. split; [reflexivity|]. split; [reflexivity|]. intros H c v IN. apply H.
  unfold dxstep, with_s in IN. cbn [d_s] in IN.
  assert (E : replies (xstep (d_s d) x) = replies (d_s d)).
  { destruct x as [l|ts tmo|g]; [exfalso; eapply NL; eauto|reflexivity|]. cbn [xstep].
    assert (AB : forall ids s, replies (fold_left (fun ss i => step ss (Abandon i)) ids s) = replies s).
    { induction ids; cbn [fold_left]; intros; auto. rewrite IHids. simpl. break; reflexivity. }
    assert (S2 : forall s a t c0, replies (step (step s (NewCall a t None)) (Start c0)) = replies s).
    { intros. simpl. break; reflexivity. }
    destruct (nth_error (groups (d_s d)) g) as [gr|]; auto. destruct (gg_failed gr); auto.
    destruct (nth_error (gg_targets gr) (length (gg_ids gr))); auto.
    destruct (nth_error _ _) as [cl|]; [destruct (c_st cl)|]; unfold set_groups; cbn [replies];
      rewrite ?AB, ?S2; auto. }
  rewrite E in IN. auto.
Qed.

Lemma K_dpush : forall d t, K d (dpush d t).
Proof. intros. apply K_eq; reflexivity. Qed.

Lemma K_wake_ready : forall cs i d, K d (wake_ready i cs d).
Proof.
  induction cs; simpl; intros; [apply K_refl|]. eapply K_trans; [|apply IHcs].
  destruct (c_st a); try apply K_refl. destruct (c_ch a); try apply K_refl; apply K_dpush.
Qed.
Lemma K_wake_callers : forall d, K d (wake_callers d).
Proof. intros. apply K_wake_ready. Qed.

Ltac notreply := intros ? ? X; discriminate X.

Lemma assoc_in : forall {A} (l : list (nat * A)) k x, assoc k l = Some x -> In (k, x) l.
Proof.
  induction l as [|[k' y] l]; simpl; intros; [discriminate|].
  destruct (Nat.eqb_spec k k'); [inversion H; subst; auto|auto].
Qed.

Lemma des_plans_act : forall pl c p v, In (c, p) pl -> p_act p = AReply v -> In v (des_plans pl c).
Proof.
  induction pl as [|[c' q] pl]; simpl; intros; [contradiction|]. destruct H as [E|IN].
  - inversion E; subst. rewrite H0, Nat.eqb_refl. simpl. auto.
  - apply in_or_app. right. apply in_or_app. right. eauto.
Qed.

Lemma des_plans_also : forall pl c0 p c v, In (c0, p) pl -> In (c, Some v) (p_also p) -> In v (des_plans pl c).
Proof.
  induction pl as [|[c' q] pl]; simpl; intros; [contradiction|]. destruct H as [E|IN].
  - inversion E; subst. apply in_or_app. right. apply in_or_app. left.
    unfold also_vals. apply in_flat_map. exists (c, Some v). split; auto. rewrite Nat.eqb_refl. simpl. auto.
  - apply in_or_app. right. apply in_or_app. right. eauto.
Qed.

Lemma des_tplans_in : forall tl c v, In (c, TReply v) tl -> In v (des_tplans tl c).
Proof.
  induction tl as [|[c' [v'|]] tl]; simpl; intros; try contradiction.
  - destruct H as [E|IN]; [inversion E; subst; rewrite Nat.eqb_refl; simpl; auto|apply in_or_app; right; auto].
  - destruct H as [E|IN]; [discriminate|auto].
Qed.

Lemma K_do_also : forall a l d, (forall c v, In (c, Some v) l -> des d c v) -> K d (do_also a l d).
Proof.
  induction l as [|[c [v|]] l]; simpl; intros d H; [apply K_refl| |].
  - assert (K1 : K d (if stored_at d a c then dstep d (Reply c v) else d)).
    { destruct (stored_at d a c); [apply K_reply; apply H; auto|apply K_refl]. }
    eapply K_trans; [exact K1|]. apply IHl. intros c1 v1 IN.
    destruct K1 as (E1 & E2 & _). unfold des. rewrite E1, E2. apply H. auto.
  - assert (K1 : K d (if stored_at d a c then dstep d (DropPort c) else d)).
    { destruct (stored_at d a c); [apply K_dstep; notreply|apply K_refl]. }
    eapply K_trans; [exact K1|]. apply IHl. intros c1 v1 IN.
    destruct K1 as (E1 & E2 & _). unfold des. rewrite E1, E2. apply H. auto.
Qed.

Lemma K_run_actor : forall f a d, K d (run_actor f a d).
Proof.
  induction f; simpl; intros; [apply K_refl|].
  destruct (nth_error (actors (d_s d)) a) as [ac|]; [|apply K_refl].
  destruct (negb (a_alive ac)); [apply K_refl|].
  destruct (mem a (d_kill d)).
  { eapply K_trans; [|apply K_wake_callers]; apply K_dstep; notreply. }
  destruct (a_cur ac) as [c|].
  - destruct (assoc c (d_plans d)) as [p|] eqn:AS; [|apply K_refl]. apply assoc_in in AS.
    assert (KA : K d (do_also a (p_also p) d)).
    { apply K_do_also. intros c1 v1 IN. left. eapply des_plans_also; eauto. }
    destruct KA as (E1 & E2 & E3).
    assert (KA : K d (do_also a (p_also p) d)) by (repeat split; auto).
    set (d1 := do_also a (p_also p) d) in *.
    destruct (p_act p) eqn:PA.
    + eapply K_trans; [exact KA|]. eapply K_trans; [|apply IHf].
      eapply K_trans; [|apply K_wake_callers]. eapply K_trans; [|apply K_dstep; notreply].
      apply K_reply. left. rewrite E1. eapply des_plans_act; eauto.
    + eapply K_trans; [exact KA|]. eapply K_trans; [|apply IHf]. eapply K_trans; [|apply K_wake_callers].
      eapply K_trans; [|apply K_dstep; notreply]. apply K_dstep; notreply.
    + eapply K_trans; [exact KA|]. eapply K_trans; [|apply IHf]. eapply K_trans; [|apply K_wake_callers].
      eapply K_trans; [|apply K_dstep; notreply]. apply K_dstep; notreply.
    + eapply K_trans; [exact KA|]. eapply K_trans; [|apply IHf]. eapply K_trans; [|apply K_dpush].
      eapply K_trans; [|apply K_wake_callers]. eapply K_trans; [|apply K_dstep; notreply]. apply K_dstep; notreply.
    + eapply K_trans; [exact KA|]. eapply K_trans; [|apply K_wake_callers]; apply K_dstep; notreply.
    + eapply K_trans; [exact KA|]. eapply K_trans; [|apply K_wake_callers]; apply K_dstep; notreply.
  - destruct (mem a (d_stop d)).
    { eapply K_trans; [|apply K_wake_callers]; apply K_dstep; notreply. }
    destruct (a_mbox ac).
    + destruct (mem a (d_drain d)); [|apply K_refl].
      eapply K_trans; [|apply K_wake_callers]; apply K_dstep; notreply.
    + eapply K_trans; [|apply IHf]. apply K_dstep; notreply.
Qed.

Lemma K_run_helper : forall c d, K d (run_helper c d).
Proof.
  unfold run_helper. intros. destruct (nth_error (calls (d_s d)) c) as [cl|]; [|apply K_refl].
  destruct (c_loc cl); try apply K_refl. destruct (assoc c (d_tplans d)) as [[v|]|] eqn:AS; try apply K_refl.
  - eapply K_trans; [|apply K_wake_callers]. apply K_reply. right. apply des_tplans_in. apply assoc_in. auto.
  - eapply K_trans; [|apply K_wake_callers]; apply K_dstep; notreply.
Qed.

Lemma K_start_only : forall c d, K d (start_only c d).
Proof.
  unfold start_only. intros. cbv zeta.
  assert (K0 : K d (dstep d (Start c))) by (apply K_dstep; notreply).
  destruct (nth_error (calls (d_s (dstep d (Start c)))) c) as [cl|]; auto.
  destruct (c_st cl); auto.
  all: try (eapply K_trans; [exact K0|apply K_dpush]).
Qed.

Lemma K_run_start : forall c d, K d (run_start c d).
Proof.
  unfold run_start. intros. destruct (nth_error (calls (d_s d)) c) as [cl|]; [|apply K_refl].
  destruct (c_fwd cl).
  - eapply K_trans; [apply K_start_only|apply K_dpush].
  - eapply K_trans; [|apply K_dstep; notreply]. apply K_start_only.
Qed.

Lemma K_multi_loop : forall f g d, K d (multi_loop f g d).
Proof.
  induction f; cbn [multi_loop]; intros; [apply K_refl|].
  destruct (nth_error (groups (d_s d)) g) as [gr|]; [|apply K_refl]. destruct (gg_failed gr); [apply K_refl|].
  destruct (nth_error (gg_targets gr) (length (gg_ids gr))); [|apply K_refl]. cbv zeta.
  eapply K_trans; [|apply IHf].
  assert (KX : K d (dxstep d (XMultiSend g))) by (apply K_dxstep; intros l X; discriminate X).
  destruct (nth_error (groups (d_s (dxstep d (XMultiSend g)))) g) as [gr1|]; auto.
  destruct (gg_failed gr1); auto.
  all: try (eapply K_trans; [exact KX|apply K_dpush]).
Qed.

Lemma K_fold_push : forall ids d, K d (fold_left (fun dd c => dpush dd (TPoll c)) ids d).
Proof. induction ids; simpl; intros; [apply K_refl|]. eapply K_trans; [apply K_dpush|apply IHids]. Qed.

Lemma K_run_multi : forall g d, K d (run_multi g d).
Proof.
  unfold run_multi. intros. destruct (nth_error (groups (d_s d)) g) as [gr|]; [|apply K_refl]. cbv zeta.
  pose proof (K_multi_loop (S (length (gg_targets gr))) g d) as KM.
  destruct (nth_error (groups (d_s (multi_loop (S (length (gg_targets gr))) g d))) g) as [gr1|]; auto.
  destruct (gg_failed gr1); auto.
  all: try (eapply K_trans; [exact KM|apply K_fold_push]).
Qed.

Lemma K_settle : forall tf f d, K d (settle tf f d).
Proof.
  induction f; cbn [settle]; intros; [apply K_refl|]. destruct (d_q d) as [|t q]; [apply K_refl|].
  eapply K_trans; [|apply IHf]. eapply K_trans; [apply (K_eq d (with_q d q)); reflexivity|].
  destruct t; [apply K_run_start|apply K_run_multi|apply K_run_actor|apply K_run_helper|apply K_dstep; notreply].
Qed.

Lemma K_wake_fired : forall d, K d (wake_fired d).
Proof.
  unfold wake_fired. intros. generalize (fired_list (wheel (d_s d)) 0 (calls (d_s d))). intro l. revert d.
  induction l; simpl; intros; [apply K_refl|]. eapply K_trans; [apply K_dpush|apply IHl].
Qed.

Lemma K_settle_full : forall tf f d, K d (settle_full tf f d).
Proof.
  unfold settle_full. intros. eapply K_trans; [|apply K_settle]. eapply K_trans; [|apply K_wake_fired].
  eapply K_trans; [|apply K_dstep; notreply]. apply K_settle.
Qed.

Lemma designated_app : forall a b c, designated (a ++ b) c = designated a c ++ designated b c.
Proof.
  induction a as [|o a IH]; simpl; intros; auto.
  destruct o; auto; try (rewrite IH; rewrite <- ?app_assoc; reflexivity).
  destruct t; rewrite IH; rewrite <- ?app_assoc; reflexivity.
Qed.

Definition PV (d : drv) (pre : list op) : Prop :=
  DV d /\ (forall c v, des d c v -> In v (designated pre c)).

Lemma PV_K : forall d d' pre o, K d d' -> PV d pre -> PV d' (pre ++ [o]).
Proof.
  intros d d' pre o (E1 & E2 & E3) (H1 & H2). split; auto.
  intros c v DS. unfold des in DS. rewrite E1, E2 in DS. rewrite designated_app. apply in_or_app. left. auto.
Qed.

Lemma PV_exec_op : forall tf f d o pre, PV d pre -> PV (exec_op_gen tf f d o) (pre ++ [o]).
Proof.
  intros tf f d o pre H. destruct o; unfold exec_op_gen.
  - eapply PV_K; eauto. eapply K_trans; [|apply K_dpush]. apply K_dstep; notreply.
  - eapply PV_K; eauto. eapply K_trans; [|apply K_dpush]. apply K_dstep; notreply.
  - eapply PV_K; eauto. eapply K_trans; [|apply K_dpush]. apply K_dxstep. intros l X; discriminate X.
  - destruct (assoc c (d_plans d)) eqn:AS; [eapply PV_K; eauto; apply K_refl|].
    assert (P1 : PV (add_plan d c p) (pre ++ [OAct c p])).
    { destruct H as (H1 & H2). split.
      - intros c1 v1 IN. destruct (H1 _ _ IN) as [X|X]; [left|right; exact X].
        simpl. apply in_or_app. right. apply in_or_app. right. exact X.
      - intros c1 v1 [X|X]; rewrite designated_app; apply in_or_app.
        + simpl in X. apply in_app_or in X. destruct X as [X|X].
          * right. simpl. apply in_or_app. left. exact X.
          * apply in_app_or in X. destruct X as [X|X].
            -- right. simpl. apply in_or_app. right. rewrite app_nil_r. exact X.
            -- left. apply H2. left. exact X.
        + left. apply H2. right. exact X. }
    assert (KE : forall t, PV (dpush (add_plan d c p) t) (pre ++ [OAct c p])).
    { intro t. destruct P1 as (A & B). split; auto. }
    destruct (nth_error (calls (d_s d)) c) as [cl|]; auto.
    destruct (nth_error (actors (d_s d)) (c_callee cl)) as [ac|]; auto.
    destruct (a_cur ac) as [c'|]; auto. destruct (Nat.eqb c c'); auto.
  - destruct (assoc c (d_tplans d)) eqn:AS; [eapply PV_K; eauto; apply K_refl|].
    assert (P1 : PV (add_tplan d c t) (pre ++ [OTask c t])).
    { destruct H as (H1 & H2). split.
      - intros c1 v1 IN. destruct (H1 _ _ IN) as [X|X]; [left; exact X|right].
        simpl. destruct t; auto. apply in_or_app. right. exact X.
      - intros c1 v1 [X|X]; rewrite designated_app; apply in_or_app.
        + left. apply H2. left. exact X.
        + simpl in X. destruct t as [v|].
          * apply in_app_or in X. destruct X as [X|X].
            -- right. simpl. rewrite app_nil_r. exact X.
            -- left. apply H2. right. exact X.
          * left. apply H2. right. exact X. }
    assert (KE : forall t0, PV (dpush (add_tplan d c t) t0) (pre ++ [OTask c t])).
    { intro t0. destruct P1 as (A & B). split; auto. }
    destruct (nth_error (calls (d_s d)) c) as [cl|]; auto. destruct (c_loc cl); auto.
  - destruct (mem a (d_kill d)); [eapply PV_K; eauto; apply K_refl|].
    eapply PV_K; eauto. eapply K_trans; [|apply K_dpush]. apply K_eq; reflexivity.
  - destruct (mem a (d_stop d)); [eapply PV_K; eauto; apply K_refl|].
    eapply PV_K; eauto. eapply K_trans; [|apply K_dpush]. apply K_eq; reflexivity.
  - destruct (mem a (d_drain d)); [eapply PV_K; eauto; apply K_refl|].
    eapply PV_K; eauto. eapply K_trans; [|apply K_dpush]. eapply K_trans; [|apply K_dstep; notreply].
    apply K_eq; reflexivity.
  - eapply PV_K; eauto. apply K_settle_full.
  - eapply PV_K; eauto. eapply K_trans; [|apply K_wake_fired]. eapply K_trans; [|apply K_dstep; notreply].
    eapply K_trans; [|apply K_dstep; notreply]. apply K_settle_full.
  - eapply PV_K; eauto. eapply K_trans; [|apply K_settle_full]. apply K_dstep; notreply.
Qed.

Lemma PV_exec : forall f ops d pre, PV d pre -> PV (fold_left (exec_op_gen f f) ops d) (pre ++ ops).
Proof.
  induction ops as [|o ops IH]; simpl; intros d pre H; [rewrite app_nil_r; auto|].
  replace (pre ++ o :: ops) with ((pre ++ [o]) ++ ops) by (rewrite <- app_assoc; reflexivity).
  apply IH. apply PV_exec_op. auto.
Qed.

Lemma check_values_calls_map : forall ops (f : nat * call -> ocall) l c0,
  (forall i cl, nth_error l i = Some cl ->
     match oc_res (f ((c0 + i)%nat, cl)) with OSuccess v => mem_N v (designated ops (c0 + i)) | _ => true end = true) ->
  check_values_calls ops c0 (map f (combine (seq c0 (length l)) l)) = true.
Proof.
  induction l; simpl; intros; auto.
  pose proof (H 0%nat a eq_refl) as H0. rewrite Nat.add_0_r in H0. rewrite H0. simpl.
  apply IHl. intros i cl N. specialize (H (S i) cl N). rewrite Nat.add_succ_r in H. auto.
Qed.

(* the value clauses of the executable oracle accept every run of the model's driver *)
Theorem oracle_sound_values : forall n ops, check_C09_values ops (observe n ops) = true.
Proof.
  intros n ops. unfold check_C09_values, observe.
  assert (PVF : PV (exec n (ops ++ [OSettle])) (ops ++ [OSettle])).
  { unfold exec, exec_op. generalize FUEL. intro f.
    apply (PV_exec f (ops ++ [OSettle]) (drv0 n) []). split; [intros c v []|].
    intros c v [X|X]; simpl in X; contradiction. }
  set (d := exec n (ops ++ [OSettle])) in *. pose proof (exec_is_run n (ops ++ [OSettle])) as ER. fold d in ER.
  set (s := d_s d) in *. cbn [o_calls o_groups].
  assert (VAL : forall c cl v tt, nth_error (calls s) c = Some cl -> c_st cl = CGot (RSuccess v) tt ->
                mem_N v (designated ops c) = true).
  { intros c cl v tt N ST. destruct PVF as (DVd & DSd).
    assert (FR : first_reply c (replies s) = Some v).
    { pose proof (success_sound_x (rev (d_ls d)) 0 n c cl v tt) as SS. cbv zeta in SS.
      rewrite <- ER in SS. apply SS; auto. }
    unfold first_reply in FR. destruct (find _ (replies s)) as [[c1 v1]|] eqn:F; [|discriminate].
    apply find_some in F. destruct F as (IN & E). simpl in E. apply Nat.eqb_eq in E. subst c1.
    inversion FR; subst v1. apply DVd in IN. apply DSd in IN.
    rewrite designated_app in IN. simpl in IN. rewrite app_nil_r in IN.
    unfold mem_N. apply existsb_exists. exists v. split; auto. apply N.eqb_refl. }
  apply andb_true_intro. split.
  - apply check_values_calls_map. intros i cl N. simpl (0 + i)%nat. cbn [oc_res].
    destruct (member_of_group s i); simpl; auto.
    destruct (c_st cl) as [| |[] ?] eqn:ST; simpl; auto. eapply VAL; eauto.
  - apply forallb_forall. intros [g ids] IN. apply in_map_iff in IN. destruct IN as (gr & E & _).
    inversion E; subst. unfold check_values_group.
    destruct (gres_of s gr) as [|rs tt|] eqn:G; auto.
    unfold gres_of in G. destruct (gg_failed gr); [discriminate|].
    destruct (Nat.eqb _ _ && all_done s (gg_ids gr)); [|discriminate]. inversion G; subst.
    apply forallb_forall. intros [c r] INC.
    assert (R : r = res_of s c).
    { clear - INC. revert INC. generalize (gg_ids gr). induction l; simpl; intros; [contradiction|].
      destruct INC as [X|X]; [inversion X; auto|auto]. }
    subst r. unfold res_of. destruct (nth_error (calls s) c) as [cl|] eqn:N; auto.
    destruct (c_st cl) as [| |[] ?] eqn:ST; simpl; auto. eapply VAL; eauto.
Qed.

Lemma check_calls_imp_values : forall ops pts alive fw members l c,
  check_calls ops pts alive fw members c l = true -> check_values_calls ops c l = true.
Proof.
  induction l; simpl; intros; auto. apply andb_prop in H. destruct H as (H1 & H2).
  unfold check_call in H1. apply andb_prop in H1. destruct H1 as (_ & H1). unfold check_call_rest in H1.
  apply andb_prop in H1. destruct H1 as (H1 & _). apply andb_prop in H1. destruct H1 as (H1 & _).
  rewrite H1. simpl. eauto.
Qed.

Lemma check_vector_imp_values : forall ops calls ts ids rs,
  check_vector ops calls ts ids rs = true ->
  forallb (fun x => match x with (c, OSuccess v) => mem_N v (designated ops c) | _ => true end) (combine ids rs) = true.
Proof.
  induction ts; destruct ids, rs; simpl; intros; auto; try discriminate.
  apply andb_prop in H. destruct H as (H1 & H2). apply andb_prop in H1. destruct H1 as (_ & H1).
  rewrite (IHts _ _ H2), andb_true_r. destruct o; auto.
Qed.

Lemma check_groups_imp_values : forall ops calls ms gs,
  check_groups ops calls ms gs = true -> forallb (check_values_group ops) gs = true.
Proof.
  induction ms as [|[ts tmo] ms]; destruct gs as [|[g ids] gs]; simpl; intros; auto; try discriminate.
  apply andb_prop in H. destruct H as (H1 & H2). rewrite (IHms _ H2), andb_true_r.
  destruct g; auto. eapply check_vector_imp_values; eauto.
Qed.

Theorem oracle_includes_values : forall n ops o, check_C09 n ops o = true -> check_C09_values ops o = true.
Proof.
  unfold check_C09, check_C09_values. intros n ops o H. apply andb_prop in H. destruct H as (_ & H).
  apply andb_prop in H. destruct H as (H1 & H2).
  apply andb_true_intro. split; [eapply check_calls_imp_values; eauto|eapply check_groups_imp_values; eauto].
Qed.
