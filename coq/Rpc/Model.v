(* Model of ractor/src/rpc.rs (call, multi_call, call_and_forward) and port.rs on a virtual
   clock.  Definitions only; proofs are in Rpc/Proofs.v.

   A call creates a fresh oneshot channel.  The sender half (the RpcReplyPort) travels inside
   the request message; it is LINEAR (Rust ownership, trusted): at any time it is in exactly one
   place -- the callee's mailbox, the running handler, the callee's state, another task -- or gone
   (used by `send`, or dropped).  The receiver half stays with the caller, wrapped in tokio's
   `timeout` when a timeout is given.  Modelled, not verified (trusted): tokio oneshot (value
   delivered at most once; dropping the sender closes the channel; sending to a dropped
   receiver fails), `timeout(d, rx)` (polls rx first, then a sleep with deadline t_poll0 + d
   rounded up to the timer wheel's millisecond), mpsc close-and-flush on actor exit.

   Callee behaviour is NOT fixed: every move of a port (reply with any value, drop, store in
   the state, hand to another task, handler return, actor exit at any moment) is a label, so
   `forall label sequence` is `forall callee script, schedule and fault sequence`. *)
From Coq Require Import List NArith Bool.
Import ListNotations.
Local Open Scope N_scope.

Definition ms : N := 1000000.
Definition ceil_ms (t : N) : N := ((t + (ms - 1)) / ms) * ms.
Definition floor_ms (t : N) : N := (t / ms) * ms.
Definition elapsed (now D : N) : bool := ceil_ms D <=? floor_ms now.

Inductive ploc := LNone | LMbox | LHandler | LStored | LTask | LGone.
Inductive cres := RSuccess (v : N) | RSenderError | RTimeout | RSendFailed | RAbandoned.
Inductive cst :=
| CNew                         (* created by the caller, nothing sent yet *)
| CWaiting (dl : option N)     (* request queued at the callee; awaiting rx (with deadline) *)
| CGot (r : cres) (t : N).     (* call returned r at time t *)
Inductive chan := ChOpen | ChFull (v : N) | ChClosed.

Record call := mkCall {
  c_callee : nat;
  c_tmo : option N;             (* timeout in ns *)
  c_fwd : option nat;           (* call_and_forward: the actor the reply is forwarded to *)
  c_t0 : N;                     (* time the call started (send + creation of the timeout) *)
  c_st : cst;
  c_ch : chan;
  c_loc : ploc;                 (* where the reply port is *)
  c_first : option N            (* ghost: the first value sent on this call's own port *)
}.

Record actor := mkActor {
  a_alive : bool;
  a_accept : bool;              (* false once draining *)
  a_mbox : list nat;            (* queued requests (call ids) *)
  a_cur : option nat;           (* request being handled *)
  a_stored : list nat           (* reply ports kept in the actor's state *)
}.

Definition actor0 : actor := mkActor true true [] None [].

(* a multi_call in progress: its targets, the request ids created so far (in target order),
   whether a send was refused (the whole call then returns Err) *)
Record cgroup := mkCG { gg_targets : list nat; gg_tmo : option N; gg_ids : list nat; gg_failed : bool }.

Record state := mkState {
  now : N;
  wheel : N;                            (* clock value at the last turn of tokio's time driver *)
  calls : list call;
  actors : list actor;
  fwds : list (nat * N * N * bool);     (* forwards attempted: call, value, time, accepted? *)
  replies : list (nat * N);             (* ghost: every (call, value) sent on a held port, in order *)
  groups : list cgroup                  (* multi_calls (changed only by the x-labels below) *)
}.

Definition init (t : N) (n : nat) : state := mkState t t [] (repeat actor0 n) [] [] [].

Inductive label :=
| Advance (dt : N)
| Drive                    (* tokio's time driver takes a turn: expired timers fire *)
| NewCall (a : nat) (tmo : option N) (fwd : option nat)   (* caller builds a call to actor a *)
| Start (c : nat)          (* caller sends the request and starts awaiting *)
| Abandon (c : nat)        (* caller drops rx without awaiting (multi_call's early error return) *)
| Dequeue (a : nat)        (* callee takes the next request; its handler now holds the port *)
| Reply (c : nat) (v : N)  (* whoever holds c's port sends v on it *)
| DropPort (c : nat)       (* whoever holds c's port drops it *)
| Store (c : nat)          (* handler moves the port into the actor's state *)
| Move (c : nat)           (* handler / state gives the port to another task *)
| Finish (a : nat)         (* handler returns (a port still held by it is dropped) *)
| Exit (a : nat)           (* actor exits: stop, kill, panic, error, end of drain *)
| StopAccept (a : nat)     (* drain(): further sends are refused *)
| Poll (c : nat).          (* the caller's future is polled *)

Fixpoint upd {A} (l : list A) (i : nat) (x : A) : list A :=
  match l, i with
  | [], _ => []
  | _ :: t, O => x :: t
  | h :: t, S j => h :: upd t j x
  end.

Definition set_call (cl : call) (st : cst) (ch : chan) (loc : ploc) (fst : option N) : call :=
  mkCall (c_callee cl) (c_tmo cl) (c_fwd cl) (c_t0 cl) st ch loc fst.

Definition held (l : ploc) : bool :=
  match l with LHandler => true | LStored => true | LTask => true | _ => false end.

(* dropping the sender half: the channel closes unless a value is already in it *)
Definition drop_sender (cl : call) : call :=
  set_call cl (c_st cl) (match c_ch cl with ChOpen => ChClosed | x => x end) LGone (c_first cl).

(* oneshot send: succeeds only while the receiver is still there *)
Definition send_value (cl : call) (v : N) : call :=
  set_call cl (c_st cl)
    (match c_ch cl, c_st cl with ChOpen, CWaiting _ => ChFull v | x, _ => x end)
    LGone (match c_first cl with None => Some v | x => x end).

Definition accepts (a : actor) : bool := a_alive a && a_accept a.

Definition remove_id (c : nat) (l : list nat) : list nat := filter (fun x => negb (Nat.eqb x c)) l.

(* ports owned by actor a (mailbox, handler, state) are dropped when it exits *)
Definition exit_call (a : nat) (cl : call) : call :=
  if Nat.eqb (c_callee cl) a
  then match c_loc cl with
       | LMbox => drop_sender cl | LHandler => drop_sender cl | LStored => drop_sender cl
       | _ => cl
       end
  else cl.

Definition forward (s : state) (c : nat) (cl : call) (v : N) : list (nat * N * N * bool) :=
  match c_fwd cl with
  | None => fwds s
  | Some b =>
      fwds s ++ [(c, v, now s, match nth_error (actors s) b with Some ab => accepts ab | None => false end)]
  end.

Definition step (s : state) (l : label) : state :=
  match l with
  | Advance dt => mkState (now s + dt) (wheel s) (calls s) (actors s) (fwds s) (replies s) (groups s)
  | Drive => mkState (now s) (now s) (calls s) (actors s) (fwds s) (replies s) (groups s)
  | NewCall a tmo fwd =>
      mkState (now s) (wheel s) (calls s ++ [mkCall a tmo fwd 0 CNew ChOpen LNone None]) (actors s) (fwds s) (replies s) (groups s)
  | Start c =>
      match nth_error (calls s) c with
      | Some cl =>
          match c_st cl, nth_error (actors s) (c_callee cl) with
          | CNew, Some ac =>
              if accepts ac
              then mkState (now s) (wheel s)
                     (upd (calls s) c (mkCall (c_callee cl) (c_tmo cl) (c_fwd cl) (now s)
                        (CWaiting (match c_tmo cl with Some T => Some (now s + T) | None => None end))
                        ChOpen LMbox None))
                     (upd (actors s) (c_callee cl)
                        (mkActor (a_alive ac) (a_accept ac) (a_mbox ac ++ [c]) (a_cur ac) (a_stored ac)))
                     (fwds s) (replies s) (groups s)
              else mkState (now s) (wheel s)
                     (upd (calls s) c (mkCall (c_callee cl) (c_tmo cl) (c_fwd cl) (now s)
                        (CGot RSendFailed (now s)) ChClosed LGone None))
                     (actors s) (fwds s) (replies s) (groups s)
          | CNew, None =>
              mkState (now s) (wheel s)
                (upd (calls s) c (mkCall (c_callee cl) (c_tmo cl) (c_fwd cl) (now s)
                   (CGot RSendFailed (now s)) ChClosed LGone None))
                (actors s) (fwds s) (replies s) (groups s)
          | _, _ => s
          end
      | None => s
      end
  | Abandon c =>
      match nth_error (calls s) c with
      | Some cl =>
          match c_st cl with
          | CWaiting _ => mkState (now s) (wheel s) (upd (calls s) c (set_call cl (CGot RAbandoned (now s)) (c_ch cl) (c_loc cl) (c_first cl)))
                                  (actors s) (fwds s) (replies s) (groups s)
          | _ => s
          end
      | None => s
      end
  | Dequeue a =>
      match nth_error (actors s) a with
      | Some ac =>
          match a_alive ac, a_cur ac, a_mbox ac with
          | true, None, c :: rest =>
              match nth_error (calls s) c with
              | Some cl =>
                  match c_loc cl with
                  | LMbox =>
                      mkState (now s) (wheel s) (upd (calls s) c (set_call cl (c_st cl) (c_ch cl) LHandler (c_first cl)))
                              (upd (actors s) a (mkActor true (a_accept ac) rest (Some c) (a_stored ac)))
                              (fwds s) (replies s) (groups s)
                  | _ => s
                  end
              | None => s
              end
          | _, _, _ => s
          end
      | None => s
      end
  | Reply c v =>
      match nth_error (calls s) c with
      | Some cl =>
          if held (c_loc cl)
          then mkState (now s) (wheel s) (upd (calls s) c (send_value cl v))
                 (match c_loc cl, nth_error (actors s) (c_callee cl) with
                  | LStored, Some ac =>
                      upd (actors s) (c_callee cl)
                          (mkActor (a_alive ac) (a_accept ac) (a_mbox ac) (a_cur ac) (remove_id c (a_stored ac)))
                  | _, _ => actors s
                  end)
                 (fwds s) (replies s ++ [(c, v)]) (groups s)
          else s
      | None => s
      end
  | DropPort c =>
      match nth_error (calls s) c with
      | Some cl =>
          if held (c_loc cl)
          then mkState (now s) (wheel s) (upd (calls s) c (drop_sender cl))
                 (match c_loc cl, nth_error (actors s) (c_callee cl) with
                  | LStored, Some ac =>
                      upd (actors s) (c_callee cl)
                          (mkActor (a_alive ac) (a_accept ac) (a_mbox ac) (a_cur ac) (remove_id c (a_stored ac)))
                  | _, _ => actors s
                  end)
                 (fwds s) (replies s) (groups s)
          else s
      | None => s
      end
  | Store c =>
      match nth_error (calls s) c with
      | Some cl =>
          match c_loc cl, nth_error (actors s) (c_callee cl) with
          | LHandler, Some ac =>
              mkState (now s) (wheel s) (upd (calls s) c (set_call cl (c_st cl) (c_ch cl) LStored (c_first cl)))
                      (upd (actors s) (c_callee cl)
                           (mkActor (a_alive ac) (a_accept ac) (a_mbox ac) (a_cur ac) (a_stored ac ++ [c])))
                      (fwds s) (replies s) (groups s)
          | _, _ => s
          end
      | None => s
      end
  | Move c =>
      match nth_error (calls s) c with
      | Some cl =>
          match c_loc cl with
          | LHandler =>
              mkState (now s) (wheel s) (upd (calls s) c (set_call cl (c_st cl) (c_ch cl) LTask (c_first cl)))
                      (actors s) (fwds s) (replies s) (groups s)
          | LStored =>
              mkState (now s) (wheel s) (upd (calls s) c (set_call cl (c_st cl) (c_ch cl) LTask (c_first cl)))
                      (match nth_error (actors s) (c_callee cl) with
                       | Some ac => upd (actors s) (c_callee cl)
                                        (mkActor (a_alive ac) (a_accept ac) (a_mbox ac) (a_cur ac) (remove_id c (a_stored ac)))
                       | None => actors s
                       end)
                      (fwds s) (replies s) (groups s)
          | _ => s
          end
      | None => s
      end
  | Finish a =>
      match nth_error (actors s) a with
      | Some ac =>
          match a_cur ac with
          | Some c =>
              mkState (now s) (wheel s)
                (match nth_error (calls s) c with
                 | Some cl => match c_loc cl with LHandler => upd (calls s) c (drop_sender cl) | _ => calls s end
                 | None => calls s
                 end)
                (upd (actors s) a (mkActor (a_alive ac) (a_accept ac) (a_mbox ac) None (a_stored ac)))
                (fwds s) (replies s) (groups s)
          | None => s
          end
      | None => s
      end
  | Exit a =>
      match nth_error (actors s) a with
      | Some ac =>
          if a_alive ac
          then mkState (now s) (wheel s) (map (exit_call a) (calls s))
                       (upd (actors s) a (mkActor false (a_accept ac) [] None []))
                       (fwds s) (replies s) (groups s)
          else s
      | None => s
      end
  | StopAccept a =>
      match nth_error (actors s) a with
      | Some ac => mkState (now s) (wheel s) (calls s)
                     (upd (actors s) a (mkActor (a_alive ac) false (a_mbox ac) (a_cur ac) (a_stored ac)))
                     (fwds s) (replies s) (groups s)
      | None => s
      end
  | Poll c =>
      match nth_error (calls s) c with
      | Some cl =>
          match c_st cl with
          | CWaiting dl =>
              match c_ch cl with
              | ChFull v =>            (* tokio::time::timeout polls the inner future first *)
                  mkState (now s) (wheel s) (upd (calls s) c (set_call cl (CGot (RSuccess v) (now s)) (c_ch cl) (c_loc cl) (c_first cl)))
                          (actors s) (forward s c cl v) (replies s) (groups s)
              | ChClosed =>
                  mkState (now s) (wheel s) (upd (calls s) c (set_call cl (CGot RSenderError (now s)) (c_ch cl) (c_loc cl) (c_first cl)))
                          (actors s) (fwds s) (replies s) (groups s)
              | ChOpen =>
                  match dl with
                  | Some D =>
                      if elapsed (wheel s) D
                      then mkState (now s) (wheel s) (upd (calls s) c (set_call cl (CGot RTimeout (now s)) (c_ch cl) (c_loc cl) (c_first cl)))
                                   (actors s) (fwds s) (replies s) (groups s)
                      else s
                  | None => s
                  end
              end
          | _ => s
          end
      | None => s
      end
  end.

Definition run (ls : list label) (s : state) : state := fold_left step ls s.

(* the caller of c has nothing left to do when polled *)
Definition caller_quiescent (s : state) (c : nat) : Prop := step s (Poll c) = s.

(* ---------- multi_call as part of the model ----------
   rpc::multi_call sends one request per target, in order, each with a fresh port; the first
   refused send aborts the whole call (the receivers created so far are dropped).  Its result
   vector is assembled from the request ids in `gg_ids`.  One `XMultiSend g` is one iteration
   of the send loop, so other tasks' labels may be interleaved anywhere (a superset of the real
   schedules); several multi_calls may be in progress at once. *)
Inductive xlabel :=
| XL (l : label)
| XNewMulti (ts : list nat) (tmo : option N)
| XMultiSend (g : nat).

Definition set_groups (s : state) (gs : list cgroup) : state :=
  mkState (now s) (wheel s) (calls s) (actors s) (fwds s) (replies s) gs.

Definition xstep (s : state) (x : xlabel) : state :=
  match x with
  | XL l => step s l
  | XNewMulti ts tmo => set_groups s (groups s ++ [mkCG ts tmo [] false])
  | XMultiSend g =>
      match nth_error (groups s) g with
      | Some gr =>
          if gg_failed gr then s else
          match nth_error (gg_targets gr) (length (gg_ids gr)) with
          | None => s
          | Some a =>
              let c := length (calls s) in
              let s1 := step (step s (NewCall a (gg_tmo gr) None)) (Start c) in
              match nth_error (calls s1) c with
              | Some cl =>
                  match c_st cl with
                  | CWaiting _ =>
                      set_groups s1 (upd (groups s1) g (mkCG (gg_targets gr) (gg_tmo gr) (gg_ids gr ++ [c]) false))
                  | _ =>
                      let s2 := fold_left (fun ss i => step ss (Abandon i)) (gg_ids gr) s1 in
                      set_groups s2 (upd (groups s2) g (mkCG (gg_targets gr) (gg_tmo gr) (gg_ids gr ++ [c]) true))
                  end
              | None => s1
              end
          end
      | None => s
      end
  end.

Definition xrun (xls : list xlabel) (s : state) : state := fold_left xstep xls s.

(* results as the caller of multi_call sees them *)
Inductive ores := OSuccess (v : N) | OSenderError | OTimeout | OSendFailed | OPending.
Definition ores_of (st : cst) : ores * N :=
  match st with
  | CGot (RSuccess v) t => (OSuccess v, t)
  | CGot RSenderError t => (OSenderError, t)
  | CGot RTimeout t => (OTimeout, t)
  | CGot RSendFailed t => (OSendFailed, t)
  | CGot RAbandoned t => (OPending, 0)
  | _ => (OPending, 0)
  end.

Inductive gres := GErr | GOk (rs : list ores) (t : N) | GPending.
Definition all_done (s : state) (ids : list nat) : bool :=
  forallb (fun c => match nth_error (calls s) c with
                    | Some cl => match c_st cl with CGot _ _ => true | _ => false end
                    | None => false end) ids.
Definition res_of (s : state) (c : nat) : ores :=
  match nth_error (calls s) c with Some cl => fst (ores_of (c_st cl)) | None => OPending end.
(* Err if a send was refused, else the vector once every request was sent and has returned *)
Definition gres_of (s : state) (g : cgroup) : gres :=
  if gg_failed g then GErr
  else if Nat.eqb (length (gg_ids g)) (length (gg_targets g)) && all_done s (gg_ids g)
       then GOk (map (res_of s) (gg_ids g))
                (fold_left N.max (map (fun c => match nth_error (calls s) c with Some cl => snd (ores_of (c_st cl)) | None => 0 end) (gg_ids g)) 0)
       else GPending.

(* ================= deterministic driver for the correspondence check =================
   The harness gates every callee handler on a per-request semaphore: the handler of request
   c waits until the driver publishes an action for c.  Driver operations either publish
   something (an action, a kill / stop signal, a new caller task) and wake the task concerned,
   or settle (run the FIFO run queue of tokio's current_thread scheduler until it is empty),
   or move the virtual clock. *)
Inductive action :=
| AReply (v : N) | ADrop | AStore | AMove | APanic | AErr.

(* `also`: ports kept in the state that this handler answers (Some v) or drops (None) first *)
Record plan := mkPlan { p_also : list (nat * option N); p_act : action }.
Inductive taction := TReply (v : N) | TDrop.

Inductive op :=
| OCall (a : nat) (tmo : option N)                  (* ActorRef::call in its own task *)
| OFwd (a b : nat) (tmo : option N)                 (* call_and_forward to actor b *)
| OMulti (targets : list nat) (tmo : option N)      (* multi_call in its own task *)
| OAct (c : nat) (p : plan)                         (* publish the action for request c *)
| OTask (c : nat) (t : taction)                     (* the task holding c's port replies / drops *)
| OKill (a : nat) | OStop (a : nat) | ODrain (a : nat)
| OSettle
| OAdv (dt : N)                                     (* settle, advance, timers fire *)
| OAdvRaw (dt : N).                                 (* advance with work still queued *)

Inductive task := TStart (c : nat) | TMulti (g : nat) | TActor (a : nat) | THelper (c : nat) | TPoll (c : nat).
Definition task_eqb (x y : task) : bool :=
  match x, y with
  | TStart a, TStart b | TMulti a, TMulti b | TActor a, TActor b | THelper a, THelper b | TPoll a, TPoll b => Nat.eqb a b
  | _, _ => false
  end.
Definition push (x : task) (q : list task) : list task := if existsb (task_eqb x) q then q else q ++ [x].


Record drv := mkDrv {
  d_s : state;
  d_q : list task;
  d_plans : list (nat * plan);
  d_tplans : list (nat * taction);
  d_kill : list nat; d_stop : list nat; d_drain : list nat;
  d_ls : list xlabel           (* labels executed so far, reversed *)
}.

Definition with_s (d : drv) (s : state) (ls : list xlabel) : drv :=
  mkDrv s (d_q d) (d_plans d) (d_tplans d) (d_kill d) (d_stop d) (d_drain d) ls.
Definition with_q (d : drv) (q : list task) : drv :=
  mkDrv (d_s d) q (d_plans d) (d_tplans d) (d_kill d) (d_stop d) (d_drain d) (d_ls d).
Definition dstep (d : drv) (l : label) : drv := with_s d (step (d_s d) l) (XL l :: d_ls d).
Definition dxstep (d : drv) (x : xlabel) : drv := with_s d (xstep (d_s d) x) (x :: d_ls d).
Definition dpush (d : drv) (t : task) : drv := with_q d (push t (d_q d)).

Fixpoint assoc {A} (k : nat) (l : list (nat * A)) : option A :=
  match l with
  | [] => None
  | (k', v) :: r => if Nat.eqb k k' then Some v else assoc k r
  end.
Definition mem (k : nat) (l : list nat) : bool := existsb (Nat.eqb k) l.

(* callers whose channel changed wake up: queue a poll for every waiting call whose channel
   is no longer open *)
Fixpoint wake_ready (i : nat) (cs : list call) (d : drv) : drv :=
  match cs with
  | [] => d
  | cl :: r =>
      wake_ready (S i) r
        (match c_st cl, c_ch cl with
         | CWaiting _, ChOpen => d
         | CWaiting _, _ => dpush d (TPoll i)
         | _, _ => d
         end)
  end.
Definition wake_callers (d : drv) : drv := wake_ready 0 (calls (d_s d)) d.

(* a handler can only use ports kept in its OWN actor's state *)
Definition stored_at (d : drv) (a c : nat) : bool :=
  match nth_error (calls (d_s d)) c with
  | Some cl => Nat.eqb (c_callee cl) a && match c_loc cl with LStored => true | _ => false end
  | None => false
  end.

Fixpoint do_also (a : nat) (l : list (nat * option N)) (d : drv) : drv :=
  match l with
  | [] => d
  | (c, Some v) :: r => do_also a r (if stored_at d a c then dstep d (Reply c v) else d)
  | (c, None) :: r => do_also a r (if stored_at d a c then dstep d (DropPort c) else d)
  end.

(* the actor task runs until it blocks: kill first, then the gated handler, then stop,
   then the next request, then the drain marker *)
Fixpoint run_actor (fuel : nat) (a : nat) (d : drv) : drv :=
  match fuel with
  | O => d
  | S f =>
      match nth_error (actors (d_s d)) a with
      | None => d
      | Some ac =>
          if negb (a_alive ac) then d
          else if mem a (d_kill d) then wake_callers (dstep d (Exit a))
          else match a_cur ac with
               | Some c =>
                   match assoc c (d_plans d) with
                   | None => d
                   | Some p =>
                       let d1 := do_also a (p_also p) d in
                       match p_act p with
                       | AReply v => run_actor f a (wake_callers (dstep (dstep d1 (Reply c v)) (Finish a)))
                       | ADrop => run_actor f a (wake_callers (dstep (dstep d1 (DropPort c)) (Finish a)))
                       | AStore => run_actor f a (wake_callers (dstep (dstep d1 (Store c)) (Finish a)))
                       | AMove => run_actor f a (dpush (wake_callers (dstep (dstep d1 (Move c)) (Finish a))) (THelper c))
                       | APanic => wake_callers (dstep d1 (Exit a))
                       | AErr => wake_callers (dstep d1 (Exit a))
                       end
                   end
               | None =>
                   if mem a (d_stop d) then wake_callers (dstep d (Exit a))
                   else match a_mbox ac with
                        | _ :: _ => run_actor f a (dstep d (Dequeue a))
                        | [] => if mem a (d_drain d) then wake_callers (dstep d (Exit a)) else d
                        end
               end
      end
  end.

Definition run_helper (c : nat) (d : drv) : drv :=
  match nth_error (calls (d_s d)) c with
  | Some cl =>
      match c_loc cl, assoc c (d_tplans d) with
      | LTask, Some (TReply v) => wake_callers (dstep d (Reply c v))
      | LTask, Some TDrop => wake_callers (dstep d (DropPort c))
      | _, _ => d
      end
  | None => d
  end.

(* start of a plain / forwarding call: the request is sent, the callee's task is woken *)
Definition start_only (c : nat) (d : drv) : drv :=
  let d1 := dstep d (Start c) in
  match nth_error (calls (d_s d1)) c with
  | Some cl => match c_st cl with
               | CWaiting _ => dpush d1 (TActor (c_callee cl))
               | _ => d1
               end
  | None => d1
  end.

(* ActorRef::call: the first poll sends and also polls the timeout.  call_and_forward sends
   at once but awaits in a freshly spawned task, first polled after everything already queued *)
Definition run_start (c : nat) (d : drv) : drv :=
  match nth_error (calls (d_s d)) c with
  | Some cl => match c_fwd cl with
               | Some _ => dpush (start_only c d) (TPoll c)
               | None => dstep (start_only c d) (Poll c)
               end
  | None => d
  end.

(* multi_call's task: the send loop (an accepted send wakes that callee), then the receivers
   are awaited by freshly spawned tasks, first polled after everything already queued *)
Fixpoint multi_loop (fuel : nat) (g : nat) (d : drv) : drv :=
  match fuel with
  | O => d
  | S f =>
      match nth_error (groups (d_s d)) g with
      | Some gr =>
          if gg_failed gr then d
          else match nth_error (gg_targets gr) (length (gg_ids gr)) with
               | None => d
               | Some a =>
                   let d1 := dxstep d (XMultiSend g) in
                   multi_loop f g
                     (match nth_error (groups (d_s d1)) g with
                      | Some gr1 => if gg_failed gr1 then d1 else dpush d1 (TActor a)
                      | None => d1
                      end)
               end
      | None => d
      end
  end.

Definition run_multi (g : nat) (d : drv) : drv :=
  match nth_error (groups (d_s d)) g with
  | Some gr =>
      let d1 := multi_loop (S (length (gg_targets gr))) g d in
      match nth_error (groups (d_s d1)) g with
      | Some gr1 => if gg_failed gr1 then d1 else fold_left (fun dd c => dpush dd (TPoll c)) (gg_ids gr1) d1
      | None => d1
      end
  | None => d
  end.

Definition FUEL : nat := 300.

Fixpoint settle (tf : nat) (fuel : nat) (d : drv) : drv :=
  match fuel with
  | O => d
  | S f =>
      match d_q d with
      | [] => d
      | t :: q =>
          let d0 := with_q d q in
          settle tf f
            (match t with
             | TStart c => run_start c d0
             | TMulti g => run_multi g d0
             | TActor a => run_actor tf a d0
             | THelper c => run_helper c d0
             | TPoll c => dstep d0 (Poll c)
             end)
      end
  end.

(* timers: waiting calls whose deadline has elapsed are woken in deadline order *)
Fixpoint insert_by (x : nat * N) (l : list (nat * N)) : list (nat * N) :=
  match l with
  | [] => [x]
  | y :: r => if snd x <=? snd y then x :: l else y :: insert_by x r
  end.
Fixpoint fired_list (t : N) (i : nat) (cs : list call) : list (nat * N) :=
  match cs with
  | [] => []
  | cl :: r =>
      match c_st cl with
      | CWaiting (Some D) => if elapsed t D then insert_by (i, ceil_ms D) (fired_list t (S i) r)
                             else fired_list t (S i) r
      | _ => fired_list t (S i) r
      end
  end.
Definition wake_fired (d : drv) : drv :=
  fold_left (fun dd x => dpush dd (TPoll (fst x))) (fired_list (wheel (d_s d)) 0 (calls (d_s d))) d.

(* yielding until nothing changes: the queue drains, the time driver turns, what it fired runs *)
Definition settle_full (tf f : nat) (d : drv) : drv :=
  settle tf f (wake_fired (dstep (settle tf f d) Drive)).

Definition add_plan (d : drv) (c : nat) (p : plan) : drv :=
  mkDrv (d_s d) (d_q d) ((c, p) :: d_plans d) (d_tplans d) (d_kill d) (d_stop d) (d_drain d) (d_ls d).
Definition add_tplan (d : drv) (c : nat) (t : taction) : drv :=
  mkDrv (d_s d) (d_q d) (d_plans d) ((c, t) :: d_tplans d) (d_kill d) (d_stop d) (d_drain d) (d_ls d).

Definition exec_op_gen (tf f : nat) (d : drv) (o : op) : drv :=
  match o with
  | OCall a tmo =>
      let c := length (calls (d_s d)) in dpush (dstep d (NewCall a tmo None)) (TStart c)
  | OFwd a b tmo =>
      let c := length (calls (d_s d)) in dpush (dstep d (NewCall a tmo (Some b))) (TStart c)
  | OMulti ts tmo =>
      let g := length (groups (d_s d)) in dpush (dxstep d (XNewMulti ts tmo)) (TMulti g)
  | OAct c p =>
      match assoc c (d_plans d) with
      | Some _ => d
      | None =>
          let d1 := add_plan d c p in
          match nth_error (calls (d_s d)) c with
          | Some cl =>
              (* the semaphore wakes the callee's task only if the handler of c is waiting on it *)
              match nth_error (actors (d_s d)) (c_callee cl) with
              | Some ac => match a_cur ac with
                           | Some c' => if Nat.eqb c c' then dpush d1 (TActor (c_callee cl)) else d1
                           | None => d1
                           end
              | None => d1
              end
          | None => d1
          end
      end
  | OTask c t =>
      match assoc c (d_tplans d) with
      | Some _ => d
      | None =>
          let d1 := add_tplan d c t in
          match nth_error (calls (d_s d)) c with
          | Some cl => match c_loc cl with LTask => dpush d1 (THelper c) | _ => d1 end
          | None => d1
          end
      end
  | OKill a =>
      if mem a (d_kill d) then d else     (* the signal port is a oneshot: later kills send nothing *)
      dpush (mkDrv (d_s d) (d_q d) (d_plans d) (d_tplans d) (a :: d_kill d) (d_stop d) (d_drain d) (d_ls d)) (TActor a)
  | OStop a =>
      if mem a (d_stop d) then d else
      dpush (mkDrv (d_s d) (d_q d) (d_plans d) (d_tplans d) (d_kill d) (a :: d_stop d) (d_drain d) (d_ls d)) (TActor a)
  | ODrain a =>
      if mem a (d_drain d) then d else
      dpush (dstep (mkDrv (d_s d) (d_q d) (d_plans d) (d_tplans d) (d_kill d) (d_stop d) (a :: d_drain d) (d_ls d))
                   (StopAccept a)) (TActor a)
  | OSettle => settle_full tf f d
  | OAdv dt => wake_fired (dstep (dstep (settle_full tf f d) (Advance dt)) Drive)
  | OAdvRaw dt => settle_full tf f (dstep d (Advance dt))
  end.

Definition exec_op := exec_op_gen FUEL FUEL.

Definition drv0 (n : nat) : drv := mkDrv (init 0 n) [] [] [] [] [] [] [].
Definition exec (n : nat) (ops : list op) : drv := fold_left exec_op ops (drv0 n).

(* ---------- observations ---------- *)
Record ocall := mkOC {
  oc_res : ores; oc_done : N; oc_t0 : N; oc_started : bool;
  oc_tmo : option N; oc_callee : nat; oc_fwd : option nat
}.

Record obs := mkObs {
  o_calls : list ocall;                 (* per call id *)
  o_groups : list (gres * list nat);    (* multi_call results with the request ids they used *)
  o_fwds : list (nat * N * N * bool);   (* forwards: call, value, time, accepted *)
  o_alive : list bool                   (* actors still alive at the end *)
}.

Definition member_of_group (s : state) (c : nat) : bool :=
  existsb (fun g => mem c (gg_ids g)) (groups s).

Definition started (st : cst) : bool := match st with CNew => false | _ => true end.

Definition observe (n : nat) (ops : list op) : obs :=
  let d := exec n (ops ++ [OSettle]) in
  let s := d_s d in
  mkObs (map (fun ic => let (i, cl) := (ic : nat * call) in
                        let (r, t) := if member_of_group s i then (OPending, 0) else ores_of (c_st cl) in
                        mkOC r t (if started (c_st cl) then c_t0 cl else 0) (started (c_st cl))
                             (c_tmo cl) (c_callee cl) (c_fwd cl))
             (combine (seq 0 (length (calls s))) (calls s)))
        (map (fun g => (gres_of s g, gg_ids g)) (groups s))
        (fwds s)
        (map a_alive (actors s)).

(* ================= the property as an executable oracle =================
   Evaluated on the IMPLEMENTATION's observation.  It uses only the scenario (which values the
   driver designated as replies for which request, which ports were handed to other tasks,
   when the clock moved) and the observation itself -- never the step function. *)
Fixpoint designated (ops : list op) (c : nat) : list N :=
  match ops with
  | [] => []
  | OAct c' p :: r =>
      (match p_act p with AReply v => if Nat.eqb c c' then [v] else [] | _ => [] end)
      ++ flat_map (fun x => match x with (c2, Some v) => if Nat.eqb c c2 then [v] else [] | _ => [] end) (p_also p)
      ++ designated r c
  | OTask c' (TReply v) :: r => (if Nat.eqb c c' then [v] else []) ++ designated r c
  | _ :: r => designated r c
  end.

Definition moved_unanswered (ops : list op) (c : nat) : bool :=
  existsb (fun o => match o with OAct c' p => Nat.eqb c c' && match p_act p with AMove => true | _ => false end | _ => false end) ops
  && negb (existsb (fun o => match o with OTask c' _ => Nat.eqb c c' | _ => false end) ops).

(* the instants at which the scenario lets queued tasks run: `settle` and `adv` drain the run
   queue at the current time (adv before moving the clock), `advraw` after moving it *)
Fixpoint time_points (ops : list op) (t : N) : list N :=
  match ops with
  | [] => [t]
  | OAdv dt :: r => t :: time_points r (t + dt)
  | OAdvRaw dt :: r => (t + dt) :: time_points r (t + dt)
  | OSettle :: r => t :: time_points r t
  | _ :: r => time_points r t
  end.
Fixpoint first_ge (pts : list N) (x : N) : option N :=
  match pts with
  | [] => None
  | p :: r => if x <=? p then Some p else first_ge r x
  end.

Definition mem_N (v : N) (l : list N) : bool := existsb (N.eqb v) l.

(* SAFETY clauses (proved to hold of every model run: C09_oracle_sound_safety): a Timeout is never
   early; a forward is issued exactly once, with the reply's value and at the completion time,
   iff a forwarding call succeeded *)
Definition check_call_safe (fw : list (nat * N * N * bool)) (c : nat) (oc : ocall) : bool :=
  let fw_c := filter (fun e => Nat.eqb (fst (fst (fst e))) c) fw in
  (match oc_res oc, oc_tmo oc with
   | OTimeout, Some T => oc_t0 oc + T <=? oc_done oc
   | OTimeout, None => false
   | _, _ => true
   end)
  && (match oc_fwd oc, oc_res oc with
      | Some _, OSuccess v =>
          match fw_c with [(_, v', t, _)] => (v' =? v) && (t =? oc_done oc) | _ => false end
      | _, _ => match fw_c with [] => true | _ => false end
      end).

(* the remaining clauses (checked by evaluation on every scenario, not proved of all model runs):
   Success v only with a value designated for THIS call's port; with a timeout the answer is
   there by the first instant the run queue was drained at/after the wheel-rounded deadline; no
   pending caller whose callee is gone unless its port was handed to a task that still holds it *)
Definition check_call_rest (ops : list op) (pts : list N) (alive : list bool)
           (c : nat) (oc : ocall) (in_group : bool) : bool :=
  (match oc_res oc with OSuccess v => mem_N v (designated ops c) | _ => true end)
  && (if in_group then true else
      match oc_tmo oc, oc_started oc with
      | Some T, true =>
          match first_ge pts (ceil_ms (oc_t0 oc + T)), oc_res oc with
          | Some p, OPending => false
          | Some p, _ => oc_done oc <=? p
          | None, _ => true
          end
      | _, _ => true
      end)
  && (if in_group then true else
      match oc_res oc, oc_started oc with
      | OPending, true =>
          match nth_error alive (oc_callee oc) with
          | Some false => moved_unanswered ops c
          | _ => true
          end
      | _, _ => true
      end).

Definition check_call (ops : list op) (pts : list N) (alive : list bool) (fw : list (nat * N * N * bool))
           (c : nat) (oc : ocall) (in_group : bool) : bool :=
  check_call_safe fw c oc && check_call_rest ops pts alive c oc in_group.

Fixpoint check_calls_safe (fw : list (nat * N * N * bool)) (c : nat) (l : list ocall) : bool :=
  match l with
  | [] => true
  | oc :: r => check_call_safe fw c oc && check_calls_safe fw (S c) r
  end.

(* VALUE clauses (proved of every model run: C09_oracle_sound_values): a caller -- of a plain /
   forwarding call or of a multi_call -- only ever sees a value the scenario designated for THAT
   request (all designated values are distinct, so this is the no-cross-wiring clause) *)
Fixpoint check_values_calls (ops : list op) (c : nat) (l : list ocall) : bool :=
  match l with
  | [] => true
  | oc :: r => (match oc_res oc with OSuccess v => mem_N v (designated ops c) | _ => true end)
               && check_values_calls ops (S c) r
  end.

Definition check_values_group (ops : list op) (g : gres * list nat) : bool :=
  match g with
  | (GOk rs _, ids) =>
      forallb (fun x => match x with (c, OSuccess v) => mem_N v (designated ops c) | _ => true end) (combine ids rs)
  | _ => true
  end.

Definition check_C09_values (ops : list op) (o : obs) : bool :=
  check_values_calls ops 0 (o_calls o) && forallb (check_values_group ops) (o_groups o).

Definition check_C09_safety (o : obs) : bool := check_calls_safe (o_fwds o) 0 (o_calls o).

Fixpoint check_calls (ops : list op) (pts : list N) (alive : list bool) (fw : list (nat * N * N * bool))
         (members : list nat) (c : nat) (l : list ocall) : bool :=
  match l with
  | [] => true
  | oc :: r => check_call ops pts alive fw c oc (mem c members) && check_calls ops pts alive fw members (S c) r
  end.

Fixpoint multi_ops (ops : list op) : list (list nat * option N) :=
  match ops with
  | [] => []
  | OMulti ts tmo :: r => (ts, tmo) :: multi_ops r
  | _ :: r => multi_ops r
  end.

(* result i of multi_call is the outcome of the request sent to actor i *)
Fixpoint check_vector (ops : list op) (calls : list ocall) (ts : list nat) (ids : list nat) (rs : list ores) : bool :=
  match ts, ids, rs with
  | [], [], [] => true
  | a :: ts', c :: ids', r :: rs' =>
      (match nth_error calls c with Some oc => Nat.eqb (oc_callee oc) a | None => false end)
      && (match r with OSuccess v => mem_N v (designated ops c) | OPending => false | OSendFailed => false | _ => true end)
      && check_vector ops calls ts' ids' rs'
  | _, _, _ => false
  end.

Fixpoint check_groups (ops : list op) (calls : list ocall) (ms : list (list nat * option N))
         (gs : list (gres * list nat)) : bool :=
  match ms, gs with
  | [], [] => true
  | (ts, _) :: ms', (g, ids) :: gs' =>
      (match g with
       | GOk rs _ => check_vector ops calls ts ids rs
       | _ => true
       end) && check_groups ops calls ms' gs'
  | _, _ => false
  end.

(* multi_call with a timeout T: the caller gets its answer no later than T (the first instant the
   run queue was drained at / after the wheel-rounded deadline t_call + T); it cannot still be
   waiting at the end of a scenario whose clock passed that deadline; a Timeout slot is never
   produced before T *)
Definition check_group_time (pts : list N) (calls : list ocall) (tmo : option N) (g : gres) (ids : list nat) : bool :=
  match tmo, ids with
  | Some T, c0 :: _ =>
      match nth_error calls c0 with
      | Some oc0 =>
          let dl := first_ge pts (ceil_ms (oc_t0 oc0 + T)) in
          match g with
          | GOk rs t =>
              (match dl with Some p => t <=? p | None => true end)
              && forallb (fun r => match r with OTimeout => oc_t0 oc0 + T <=? t | _ => true end) rs
          | GPending => match dl with Some _ => false | None => true end
          | GErr => true
          end
      | None => true
      end
  | None, _ =>
      (* Timeout only when a timeout was given: an un-timed multi_call reports a callee that
         dropped the port or exited as SenderError, never as Timeout *)
      match g with
      | GOk rs _ => forallb (fun r => match r with OTimeout => false | _ => true end) rs
      | _ => true
      end
  | _, _ => true
  end.

Fixpoint check_groups_time (pts : list N) (calls : list ocall) (ms : list (list nat * option N))
         (gs : list (gres * list nat)) : bool :=
  match ms, gs with
  | (_, tmo) :: ms', (g, ids) :: gs' => check_group_time pts calls tmo g ids && check_groups_time pts calls ms' gs'
  | _, _ => true
  end.

Definition check_C09 (n : nat) (ops : list op) (o : obs) : bool :=
  let members := flat_map snd (o_groups o) in
  check_groups_time (time_points ops 0) (o_calls o) (multi_ops ops) (o_groups o)
  && (check_calls ops (time_points ops 0) (o_alive o) (o_fwds o) members 0 (o_calls o)
      && check_groups ops (o_calls o) (multi_ops ops) (o_groups o)).
