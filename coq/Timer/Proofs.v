(* Proofs about Timer/Model.v.  All theorems quantify over arbitrary label sequences
   (every interleaving of clock advances, timer-task micro-steps, target-loop iterations,
   aborts, stop / kill / drain requests and timer creations), by induction on the run. *)
From Coq Require Import List NArith ZArith Bool Lia Arith.
From RV Require Import Timer.Model.
Import ListNotations.
Local Open Scope N_scope.

(* ---------- lists ---------- *)
Lemma nth_upd_eq : forall {A} (l : list A) i x, (i < length l)%nat -> nth_error (upd l i x) i = Some x.
Proof. induction l; destruct i; simpl; intros; try lia; auto. apply IHl. lia. Qed.

Lemma nth_upd_neq : forall {A} (l : list A) i j x, i <> j -> nth_error (upd l i x) j = nth_error l j.
Proof. induction l; destruct i, j; simpl; intros; try congruence; auto. Qed.

Lemma upd_length : forall {A} (l : list A) i x, length (upd l i x) = length l.
Proof. induction l; destruct i; simpl; intros; auto. Qed.

Lemma nth_some_lt : forall {A} (l : list A) i x, nth_error l i = Some x -> (i < length l)%nat.
Proof. intros. apply nth_error_Some. congruence. Qed.

Lemma nth_upd : forall {A} (l : list A) i j x y,
  nth_error (upd l i x) j = Some y ->
  (i = j /\ y = x /\ (i < length l)%nat) \/ (i <> j /\ nth_error l j = Some y).
Proof.
  intros. destruct (Nat.eq_dec i j) as [->|n].
  - left. assert (j < length l)%nat by (apply nth_some_lt in H; now rewrite upd_length in H).
    rewrite nth_upd_eq in H by auto. inversion H; auto.
  - right. rewrite nth_upd_neq in H; auto.
Qed.

Lemma NoDup_snoc : forall {A} (l : list A) x, NoDup l -> ~ In x l -> NoDup (l ++ [x]).
Proof.
  induction l; simpl; intros x ND NI.
  - constructor; auto.
  - inversion ND; subst. constructor.
    + rewrite in_app_iff. simpl. intuition.
    + apply IHl; auto.
Qed.

Lemma NoDup_app_l : forall {A} (a b : list A), NoDup (a ++ b) -> NoDup a.
Proof.
  induction a; simpl; intros b ND; [constructor|].
  inversion ND; subst. constructor; [|eapply IHa; eauto].
  intro X. apply H1. apply in_or_app. auto.
Qed.

Lemma filter_none_eff : forall {A} (f : A -> bool) l, (forall x, In x l -> f x = false) -> filter f l = [].
Proof.
  induction l; simpl; intros; auto. rewrite (H a) by auto. apply IHl. intros. apply H. auto.
Qed.

Lemma run_app : forall ls1 ls2 s, run (ls1 ++ ls2) s = run ls2 (run ls1 s).
Proof. intros. unfold run. apply fold_left_app. Qed.

Lemma run_snoc : forall ls l s, run (ls ++ [l]) s = step (run ls s) l.
Proof. intros. rewrite run_app. reflexivity. Qed.

(* ---------- time arithmetic ---------- *)
Module Arith.
  Ltac Zify.zify_post_hook ::= Z.div_mod_to_equations.
  Lemma le_ceil : forall t, t <= ceil_ms t.
  Proof. intros. unfold ceil_ms, ms. lia. Qed.
  Lemma floor_le : forall t, floor_ms t <= t.
  Proof. intros. unfold floor_ms, ms. lia. Qed.
  Lemma ceil_mono : forall a b, a <= b -> ceil_ms a <= ceil_ms b.
  Proof. intros a b. unfold ceil_ms, ms. lia. Qed.
  (* a wheel deadline that is <= now is also <= the wheel's view of now *)
  Lemma ceil_le_floor : forall a b, ceil_ms a <= b -> ceil_ms a <= floor_ms b.
  Proof. intros a b. unfold ceil_ms, floor_ms, ms. lia. Qed.
  Lemma ceil_add : forall a b, ceil_ms (ceil_ms a + b) = ceil_ms a + ceil_ms b.
  Proof. intros. unfold ceil_ms, ms. lia. Qed.
  Lemma ceil_aligned : forall a, a mod ms = 0 -> ceil_ms a = a.
  Proof.
    intros a H. apply N.div_exact in H; [|discriminate]. unfold ceil_ms.
    rewrite H at 1. rewrite (N.mul_comm ms), N.div_add_l by discriminate.
    change ((ms - 1) / ms) with 0. lia.
  Qed.
  Lemma mod_add_aligned : forall a k p, a mod ms = 0 -> p mod ms = 0 -> (a + k * p) mod ms = 0.
  Proof.
    intros a k p Ha Hp.
    rewrite N.add_mod, N.mul_mod, Hp, N.mul_0_r, Ha by discriminate. reflexivity.
  Qed.
  Ltac Zify.zify_post_hook ::= idtac.
End Arith.
Import Arith.

Lemma elapsed_true : forall t D, elapsed t D = true <-> ceil_ms D <= t.
Proof.
  intros. unfold elapsed. rewrite N.leb_le. split; intro H.
  - pose proof (floor_le t). lia.
  - now apply ceil_le_floor.
Qed.

Lemma elapsed_ge : forall t D, elapsed t D = true -> D <= t.
Proof. intros. apply elapsed_true in H. pose proof (le_ceil D). lia. Qed.

Lemma ceil_add_le : forall a b, ceil_ms (a + b) <= ceil_ms a + ceil_ms b.
Proof.
  intros. rewrite <- ceil_add. apply ceil_mono. pose proof (le_ceil a). lia.
Qed.

(* ---------- how one label changes the components of the state ---------- *)
Lemma step_now : forall s l, now s <= now (step s l).
Proof.
  intros. destruct l; simpl; try lia.
  - destruct (nth_error (timers s) i); [|lia]. unfold poll_timer.
    destruct (poll_eff _ _ _); simpl; lia.
  - destruct (nth_error (timers s) i); [|lia]. destruct (finished _); simpl; lia.
Qed.

Lemma run_now : forall ls s, now s <= now (run ls s).
Proof.
  induction ls using rev_ind; intros; simpl. unfold run; simpl; lia.
  rewrite run_snoc. pose proof (step_now (run ls s) x). specialize (IHls s). lia.
Qed.

(* timers: every entry of the next state is unchanged, freshly created, aborted, or the
   polled task's next record *)
Lemma step_timer : forall s l j tm',
  nth_error (timers (step s l)) j = Some tm' ->
  nth_error (timers s) j = Some tm'
  \/ (exists k d, l = Mk k d /\ j = length (timers s) /\ tm' = mkTimer k d (now s) 0 PInit 0)
  \/ (exists tm, l = Abort j /\ nth_error (timers s) j = Some tm /\ finished (k_pc tm) = false
                 /\ tm' = set_pc tm PAborted)
  \/ (exists tm, l = Poll j /\ nth_error (timers s) j = Some tm
                 /\ tm' = poll_tm (now s) (g_status (tgt s)) tm).
Proof.
  intros s l j tm' H. destruct l; simpl in H; auto.
  - destruct (nth_error (timers s) i) eqn:E; auto.
    assert (H' : nth_error (upd (timers s) i (poll_tm (now s) (g_status (tgt s)) t)) j = Some tm').
    { unfold poll_timer in H. destruct (poll_eff _ _ _); simpl in H; auto. }
    apply nth_upd in H'. destruct H' as [(-> & -> & _)|(_ & H')]; auto.
    right; right; right. eauto.
  - destruct (nth_error (timers s) i) eqn:E; auto.
    destruct (finished (k_pc t)) eqn:F; auto. simpl in H.
    apply nth_upd in H. destruct H as [(-> & -> & _)|(_ & H')]; auto.
    right; right; left. eauto.
  - destruct (Nat.eq_dec j (length (timers s))) as [->|n].
    + rewrite nth_error_app2, Nat.sub_diag in H by lia. simpl in H. inversion H.
      right; left. eauto.
    + destruct (Nat.lt_ge_cases j (length (timers s))).
      * rewrite nth_error_app1 in H by auto. auto.
      * rewrite nth_error_app2 in H by lia.
        destruct (j - length (timers s))%nat eqn:E; [lia|]. simpl in H. destruct n0; discriminate.
Qed.

(* and conversely, existing entries survive (possibly changed) *)
Lemma step_timer_fwd : forall s l j tm,
  nth_error (timers s) j = Some tm ->
  exists tm', nth_error (timers (step s l)) j = Some tm'
   /\ (tm' = tm
       \/ (l = Abort j /\ finished (k_pc tm) = false /\ tm' = set_pc tm PAborted)
       \/ (l = Poll j /\ tm' = poll_tm (now s) (g_status (tgt s)) tm)).
Proof.
  intros s l j tm H. pose proof (nth_some_lt _ _ _ H) as Hlt.
  destruct l; simpl; eauto.
  - destruct (nth_error (timers s) i) eqn:E; eauto.
    assert (Hu : timers (poll_timer s i t) = upd (timers s) i (poll_tm (now s) (g_status (tgt s)) t)).
    { unfold poll_timer. destruct (poll_eff _ _ _); reflexivity. }
    rewrite Hu. destruct (Nat.eq_dec i j) as [->|n].
    + rewrite nth_upd_eq by auto. rewrite H in E. inversion E; subst. eexists; split; [reflexivity|]; auto.
    + rewrite nth_upd_neq by auto. eauto.
  - destruct (nth_error (timers s) i) eqn:E; eauto.
    destruct (finished (k_pc t)) eqn:F; eauto. simpl.
    destruct (Nat.eq_dec i j) as [->|n].
    + rewrite nth_upd_eq by auto. rewrite H in E. inversion E; subst. eexists; split; [reflexivity|]; auto.
    + rewrite nth_upd_neq by auto. eauto.
  - rewrite nth_error_app1 by auto. eauto.
Qed.

(* effects and target: unchanged by timers unless a Poll fires *)
Definition fires (s : state) (l : label) (i : nat) (tm : timer) (w : ewhat) : Prop :=
  l = Poll i /\ nth_error (timers s) i = Some tm
  /\ poll_eff (now s) (g_status (tgt s)) tm = Some w.

Lemma step_effs : forall s l,
  effs (step s l) = effs s
  \/ exists i tm w, fires s l i tm w /\ effs (step s l) = effs s ++ [mkEff i w (now s)].
Proof.
  intros. destruct l; simpl; auto.
  - destruct (nth_error (timers s) i) eqn:E; auto. unfold poll_timer.
    destruct (poll_eff _ _ _) eqn:P; simpl; auto. right. exists i, t, e. unfold fires. auto.
  - destruct (nth_error (timers s) i); auto. destruct (finished _); auto.
Qed.

Lemma step_tgt : forall s l,
  (exists i tm w, fires s l i tm w /\ tgt (step s l) = apply_eff i tm w (tgt s))
  \/ (tgt (step s l) = tgt s /\ forall i tm w, ~ fires s l i tm w)
  \/ (l = TgtPoll /\ tgt (step s l) = tgt_poll (now s) (tgt s))
  \/ (exists r, l = TStop r /\ tgt (step s l) = tgt_stop r None (tgt s))
  \/ (l = TKill /\ tgt (step s l) = tgt_kill None (tgt s))
  \/ (l = TDrain /\ tgt (step s l) = tgt_drain (now s) (tgt s))
  \/ (l = TgtStart /\ tgt (step s l) = tgt_start (tgt s))
  \/ (l = TgtPostStop /\ tgt (step s l) = tgt_post_stop (now s) (tgt s)).
Proof.
  intros. destruct l; simpl; eauto 12;
    try (right; left; split; [reflexivity|intros ? ? ? (F & _); discriminate F]).
  - destruct (nth_error (timers s) i) eqn:E.
    + unfold poll_timer. destruct (poll_eff _ _ _) eqn:P; simpl.
      * left. exists i, t, e. unfold fires. auto.
      * right; left. split; auto. intros ? ? ? (F & F2 & F3). inversion F; subst.
        rewrite E in F2. inversion F2; subst. congruence.
    + right; left. split; auto. intros ? ? ? (F & F2 & _). inversion F; subst. congruence.
  - right; left. split.
    + destruct (nth_error (timers s) i); auto. destruct (finished _); auto.
    + intros ? ? ? (F & _); discriminate F.
Qed.

Lemma poll_eff_wait : forall t st tm w,
  poll_eff t st tm = Some w -> exists D, k_pc tm = PWait D /\ elapsed t D = true.
Proof.
  unfold poll_eff. intros. destruct (k_pc tm); try discriminate.
  destruct (elapsed t D) eqn:E; try discriminate. eauto.
Qed.

(* ---------- the timer task's own record ---------- *)
Definition timer_ok (t : N) (tm : timer) : Prop :=
  k_born tm <= t /\
  match k_pc tm with
  | PInit => k_sent tm = 0
  | PFirst D => k_kind tm = KInterval /\ D = k_t0 tm /\ k_sent tm = 0
                /\ k_born tm <= k_t0 tm /\ k_t0 tm <= t
  | PCheck D => k_kind tm = KInterval /\ D = k_t0 tm + (k_sent tm + 1) * k_dur tm
                /\ k_born tm <= k_t0 tm /\ k_t0 tm <= t
  | PWait D => D = k_t0 tm + (k_sent tm + 1) * k_dur tm
               /\ k_born tm <= k_t0 tm /\ k_t0 tm <= t
               /\ (k_kind tm <> KInterval -> k_sent tm = 0)
  | PDone r => k_born tm <= k_t0 tm /\ k_t0 tm <= t
               /\ (k_kind tm <> KInterval -> ceil_ms (k_t0 tm + k_dur tm) <= t)
               /\ match k_kind tm, r with
                  | KAfter, ROk => k_sent tm = 1
                  | KAfter, RUnit => False
                  | KInterval, _ => True
                  | _, _ => k_sent tm = 0
                  end
  | PAborted => k_kind tm <> KInterval -> k_sent tm = 0
  end.

Lemma timer_ok_mono : forall t t' tm, t <= t' -> timer_ok t tm -> timer_ok t' tm.
Proof.
  unfold timer_ok. intros t t' tm L (B & H). split; [lia|].
  destruct (k_pc tm); intuition lia.
Qed.

Lemma poll_tm_ok : forall t st tm, timer_ok t tm -> timer_ok t (poll_tm t st tm).
Proof.
  intros t st tm H. unfold poll_tm.
  destruct (k_pc tm) eqn:P; auto; unfold timer_ok in H; rewrite P in H; destruct H as (B & H).
  - unfold timer_ok; simpl. split; auto.
    destruct (k_kind tm) eqn:K; simpl; rewrite ?H; repeat split; auto; try lia; congruence.
  - destruct (elapsed t D); [|unfold timer_ok; rewrite P; auto].
    unfold timer_ok; simpl. intuition; subst; lia.
  - destruct H as (K & HD & H1 & H2). unfold timer_ok; simpl.
    destruct (is_active st); simpl; rewrite ?K; repeat split; auto; congruence.
  - destruct (elapsed t D) eqn:E; [|unfold timer_ok; rewrite P; auto].
    destruct H as (HD & H1 & H2 & H3). apply elapsed_true in E.
    assert (S0 : k_kind tm <> KInterval -> ceil_ms (k_t0 tm + k_dur tm) <= t).
    { intro NI. rewrite (H3 NI), N.add_0_l, N.mul_1_l in HD. subst D; auto. }
    destruct (k_kind tm) eqn:K.
    + assert (k_sent tm = 0) by (apply H3; congruence).
      destruct (accepts st); unfold timer_ok; simpl; rewrite ?K; repeat split; auto; lia.
    + destruct (accepts st); unfold timer_ok; simpl; rewrite ?K; repeat split; auto; try lia; congruence.
    + assert (k_sent tm = 0) by (apply H3; congruence).
      unfold timer_ok; simpl; rewrite ?K; repeat split; auto.
    + assert (k_sent tm = 0) by (apply H3; congruence).
      unfold timer_ok; simpl; rewrite ?K; repeat split; auto.
Qed.

(* what a micro-step never changes *)
Definition same_id (tm tm' : timer) : Prop :=
  k_kind tm' = k_kind tm /\ k_dur tm' = k_dur tm /\ k_born tm' = k_born tm
  /\ k_sent tm <= k_sent tm'
  /\ (k_pc tm <> PInit -> k_t0 tm' = k_t0 tm /\ k_pc tm' <> PInit).

Lemma poll_tm_same : forall t st tm, same_id tm (poll_tm t st tm).
Proof.
  unfold same_id, poll_tm. intros.
  destruct (k_pc tm) eqn:P; simpl;
    repeat match goal with
           | |- context [if ?c then _ else _] => destruct c; simpl
           | |- context [match k_kind tm with _ => _ end] => destruct (k_kind tm) eqn:?; simpl
           end; rewrite ?P; repeat split; auto; try lia; try congruence; try discriminate.
Qed.

Lemma set_pc_same : forall tm, same_id tm (set_pc tm PAborted).
Proof. unfold same_id, set_pc. intros; simpl. repeat split; auto; try lia. discriminate. Qed.

Lemma same_refl : forall tm, same_id tm tm.
Proof. unfold same_id. intros. repeat split; auto; lia. Qed.

Lemma step_same : forall s l j tm,
  nth_error (timers s) j = Some tm ->
  exists tm', nth_error (timers (step s l)) j = Some tm' /\ same_id tm tm'.
Proof.
  intros. destruct (step_timer_fwd s l j tm H) as (tm' & N & [->|[(_ & _ & ->)|(_ & ->)]]);
    eexists; (split; [eassumption|]); auto using same_refl, set_pc_same, poll_tm_same.
Qed.

Definition timers_ok (s : state) : Prop :=
  forall j tm, nth_error (timers s) j = Some tm -> timer_ok (now s) tm.

Lemma timers_ok_step : forall s l, timers_ok s -> timers_ok (step s l).
Proof.
  unfold timers_ok. intros s l H j tm' N. pose proof (step_now s l) as L.
  apply step_timer in N.
  destruct N as [N|[(k & d & -> & -> & ->)|[(tm & -> & N & F & ->)|(tm & -> & N & ->)]]].
  - eapply timer_ok_mono; eauto.
  - simpl. unfold timer_ok; simpl. split; [lia|auto].
  - apply H in N. eapply timer_ok_mono; eauto.
    unfold timer_ok in *. simpl. destruct N as (B & N). split; auto.
    destruct (k_pc tm); simpl in F; try discriminate; intuition.
  - apply H in N. eapply timer_ok_mono; eauto. apply poll_tm_ok; auto.
Qed.

(* ---------- effects: each one is justified by its timer ---------- *)
Definition is_msg_kind (k : kind) : Prop := k = KAfter \/ k = KInterval.

Definition eff_ok (tm : timer) (e : eff) : Prop :=
  match e_what e with
  | ESent k => is_msg_kind (k_kind tm) /\ 1 <= k /\ k <= k_sent tm
               /\ ceil_ms (k_t0 tm + k * k_dur tm) <= e_time e
  | ESendFail => is_msg_kind (k_kind tm)
  | EStop => k_kind tm = KExit /\ ceil_ms (k_t0 tm + k_dur tm) <= e_time e /\ k_born tm <= k_t0 tm
  | EKill => k_kind tm = KKill /\ ceil_ms (k_t0 tm + k_dur tm) <= e_time e /\ k_born tm <= k_t0 tm
  end.

Definition effs_ok (s : state) : Prop :=
  forall e, In e (effs s) ->
    e_time e <= now s /\
    exists tm, nth_error (timers s) (e_tid e) = Some tm /\ k_pc tm <> PInit /\ eff_ok tm e.

Lemma eff_ok_same : forall tm tm' e, k_pc tm <> PInit -> same_id tm tm' -> eff_ok tm e -> eff_ok tm' e.
Proof.
  unfold eff_ok, same_id. intros tm tm' e NI (K & Du & B & S & T) H.
  destruct (T NI) as (T0 & _). rewrite K, Du, T0, B. destruct (e_what e); intuition lia.
Qed.

(* the effect produced by a firing task is justified by the task's NEXT record *)
Lemma fire_eff_ok : forall t st tm w,
  timer_ok t tm -> poll_eff t st tm = Some w ->
  k_pc tm <> PInit /\ eff_ok (poll_tm t st tm) (mkEff 0 w t)
  /\ (forall k, w = ESent k -> k = k_sent tm + 1 /\ k_sent (poll_tm t st tm) = k_sent tm + 1
                               /\ accepts st = true)
  /\ ((forall k, w <> ESent k) -> k_sent (poll_tm t st tm) = k_sent tm).
Proof.
  intros t st tm w OK PE. unfold poll_eff in PE. unfold poll_tm.
  destruct (k_pc tm) eqn:P; try discriminate.
  destruct (elapsed t D) eqn:E; try discriminate. apply elapsed_true in E.
  unfold timer_ok in OK. rewrite P in OK. destruct OK as (B & HD & H1 & H2 & H3).
  split; [discriminate|]. inversion PE; subst w; clear PE. unfold eff_ok, is_msg_kind; simpl.
  assert (S0 : k_kind tm <> KInterval -> k_sent tm = 0 /\ D = k_t0 tm + k_dur tm).
  { intro NI. rewrite (H3 NI), N.add_0_l, N.mul_1_l in HD. auto. }
  destruct (k_kind tm) eqn:K; simpl;
    try (destruct S0 as (S0 & S1); [congruence|]; try rewrite S0 in *; try subst D);
    try destruct (accepts st) eqn:A; simpl; rewrite ?K; repeat split; auto;
    try lia; try congruence; try (rewrite <- HD; auto; fail);
    try (intros k Hk; inversion Hk; subst; auto; lia);
    try (intros Hn; exfalso; eapply Hn; reflexivity).
Qed.

Lemma poll_nth : forall s i tm,
  nth_error (timers s) i = Some tm ->
  nth_error (timers (step s (Poll i))) i = Some (poll_tm (now s) (g_status (tgt s)) tm).
Proof.
  intros. simpl. rewrite H. unfold poll_timer.
  destruct (poll_eff _ _ _); simpl; apply nth_upd_eq; eapply nth_some_lt; eauto.
Qed.

Lemma poll_nth_neq : forall s i j, j <> i ->
  nth_error (timers (step s (Poll i))) j = nth_error (timers s) j.
Proof.
  intros. simpl. destruct (nth_error (timers s) i) eqn:E; auto. unfold poll_timer.
  destruct (poll_eff _ _ _); simpl; apply nth_upd_neq; auto.
Qed.

Lemma eff_ok_tid : forall tm i j w t, eff_ok tm (mkEff i w t) -> eff_ok tm (mkEff j w t).
Proof. unfold eff_ok; simpl; auto. Qed.

Lemma effs_ok_step : forall s l, timers_ok s -> effs_ok s -> effs_ok (step s l).
Proof.
  intros s l TO EO e IN. pose proof (step_now s l) as L.
  assert (OLD : In e (effs s) ->
    e_time e <= now (step s l) /\
    exists tm, nth_error (timers (step s l)) (e_tid e) = Some tm /\ k_pc tm <> PInit /\ eff_ok tm e).
  { intro I. destruct (EO e I) as (T & tm & N & NI & OK). split; [lia|].
    destruct (step_same s l _ _ N) as (tm' & N' & SI). exists tm'. split; auto.
    split; [apply SI; auto|]. eapply eff_ok_same; eauto. }
  destruct (step_effs s l) as [E|(i & tm & w & (-> & N & PE) & E)]; rewrite E in IN; auto.
  apply in_app_or in IN. destruct IN as [IN|[<-|[]]]; auto. simpl.
  split; [auto|]. exists (poll_tm (now s) (g_status (tgt s)) tm). split; [apply poll_nth; auto|].
  destruct (fire_eff_ok _ _ _ _ (TO _ _ N) PE) as (NI & OK & _).
  split; [|eapply eff_ok_tid; eauto].
  apply (poll_tm_same (now s) (g_status (tgt s)) tm). auto.
Qed.

(* ---------- at most once / exactly the numbers 1..k_sent ---------- *)
Fixpoint pairs (es : list eff) : list (nat * N) :=
  match es with
  | [] => []
  | e :: r => match e_what e with ESent k => (e_tid e, k) :: pairs r | _ => pairs r end
  end.

Lemma pairs_app : forall a b, pairs (a ++ b) = pairs a ++ pairs b.
Proof. induction a; simpl; intros; auto. destruct (e_what a); simpl; rewrite ?IHa; auto. Qed.

Lemma pairs_snoc : forall es e,
  pairs (es ++ [e]) = pairs es ++ match e_what e with ESent k => [(e_tid e, k)] | _ => [] end.
Proof. intros. rewrite pairs_app. simpl. destruct (e_what e); auto. Qed.

Lemma in_pairs : forall es i k, In (i, k) (pairs es) <-> exists t, In (mkEff i (ESent k) t) es.
Proof.
  induction es; simpl; intros.
  - split; [tauto|intros (? & [])].
  - destruct a as [j w t]; simpl. destruct w; simpl; rewrite ?IHes; split.
    + intros [E|(t' & I)]; [inversion E; subst; eauto|eauto].
    + intros (t' & [E|I]); [inversion E; auto|eauto].
    + intros (t' & I); eauto.
    + intros (t' & [E|I]); [discriminate|eauto].
    + intros (t' & I); eauto.
    + intros (t' & [E|I]); [discriminate|eauto].
    + intros (t' & I); eauto.
    + intros (t' & [E|I]); [discriminate|eauto].
Qed.

Definition sent_complete (s : state) : Prop :=
  forall i tm k, nth_error (timers s) i = Some tm -> 1 <= k -> k <= k_sent tm -> In (i, k) (pairs (effs s)).

Definition Inv1 (s : state) : Prop :=
  timers_ok s /\ effs_ok s /\ NoDup (pairs (effs s)) /\ sent_complete s.

Lemma sent_bound : forall s i k tm,
  effs_ok s -> In (i, k) (pairs (effs s)) -> nth_error (timers s) i = Some tm -> k <= k_sent tm.
Proof.
  intros s i k tm EO IN N. apply in_pairs in IN. destruct IN as (t & IN).
  destruct (EO _ IN) as (_ & tm' & N' & _ & OK). simpl in N'. rewrite N in N'. inversion N'; subst.
  unfold eff_ok in OK; simpl in OK. lia.
Qed.

Lemma Inv1_step : forall s l, Inv1 s -> Inv1 (step s l).
Proof.
  intros s l (TO & EO & ND & SC).
  split; [apply timers_ok_step; auto|]. split; [apply effs_ok_step; auto|].
  destruct (step_effs s l) as [E|(i & tm & w & F & E)].
  - (* no effect: k_sent cannot have grown *)
    split; [rewrite E; auto|].
    intros j tm' k N K1 K2. rewrite E. apply step_timer in N.
    destruct N as [N|[(kk & d & -> & -> & ->)|[(tm & -> & N & F & ->)|(tm & -> & N & ->)]]].
    + eapply SC; eauto.
    + simpl in K2. lia.
    + simpl in K2. eapply SC; eauto.
    + destruct (poll_eff (now s) (g_status (tgt s)) tm) eqn:PE.
      * exfalso. simpl in E. rewrite N in E. unfold poll_timer in E. rewrite PE in E. simpl in E.
        apply (f_equal (@length eff)) in E. rewrite app_length in E. simpl in E. lia.
      * assert (k_sent (poll_tm (now s) (g_status (tgt s)) tm) = k_sent tm).
        { unfold poll_eff in PE. unfold poll_tm. destruct (k_pc tm); auto;
            try (destruct (elapsed (now s) D); auto; discriminate);
            try (destruct (is_active (g_status (tgt s))); auto). }
        eapply SC; eauto. lia.
  - destruct F as (-> & N & PE).
    destruct (fire_eff_ok _ _ _ _ (TO _ _ N) PE) as (NI & OK & SK & NK).
    unfold sent_complete. rewrite E, pairs_snoc. cbn [e_what e_tid].
    assert (OTHER : forall j tm' k, j <> i -> nth_error (timers (step s (Poll i))) j = Some tm' ->
                     1 <= k -> k <= k_sent tm' -> In (j, k) (pairs (effs s))).
    { intros j tm' k NE N' K1 K2. rewrite poll_nth_neq in N' by auto. eapply SC; eauto. }
    destruct w as [k| | |]; rewrite ?app_nil_r.
    + destruct (SK k eq_refl) as (-> & S1 & A). split.
      * (* NoDup: the new number is above all earlier ones of this timer *)
        apply NoDup_snoc; auto. intro IN.
        pose proof (sent_bound s i _ tm EO IN N). lia.
      * intros j tm' k N' K1 K2. apply in_or_app.
        destruct (Nat.eq_dec j i) as [->|NE]; [|left; eauto].
        rewrite (poll_nth _ _ _ N) in N'. inversion N'; subst tm'. rewrite S1 in K2.
        destruct (N.eq_dec k (k_sent tm + 1)) as [->|]; [right; simpl; auto|].
        left. eapply SC; eauto. lia.
    + split; auto. intros j tm' k N' K1 K2.
      destruct (Nat.eq_dec j i) as [->|NE]; [|eauto].
      rewrite (poll_nth _ _ _ N) in N'. inversion N'; subst tm'.
      rewrite NK in K2 by (intros; discriminate). eapply SC; eauto.
    + split; auto. intros j tm' k N' K1 K2.
      destruct (Nat.eq_dec j i) as [->|NE]; [|eauto].
      rewrite (poll_nth _ _ _ N) in N'. inversion N'; subst tm'.
      rewrite NK in K2 by (intros; discriminate). eapply SC; eauto.
    + split; auto. intros j tm' k N' K1 K2.
      destruct (Nat.eq_dec j i) as [->|NE]; [|eauto].
      rewrite (poll_nth _ _ _ N) in N'. inversion N'; subst tm'.
      rewrite NK in K2 by (intros; discriminate). eapply SC; eauto.
Qed.

Lemma Inv1_init : forall t pk, Inv1 (init t pk).
Proof.
  intros. split; [|split; [|split]].
  - intros j tm N. destruct j; discriminate.
  - intros e [].
  - constructor.
  - intros i tm k N. destruct i; discriminate.
Qed.

Lemma Inv1_run : forall ls t pk, Inv1 (run ls (init t pk)).
Proof.
  induction ls using rev_ind; intros.
  - apply Inv1_init.
  - rewrite run_snoc. apply Inv1_step. auto.
Qed.

(* ---------- the target: what is queued / handled / pending on the ports ---------- *)
Definition tick_ok (s : state) (i : nat) (k t : N) : Prop :=
  exists tm, nth_error (timers s) i = Some tm /\ k_pc tm <> PInit /\ is_msg_kind (k_kind tm)
             /\ 1 <= k /\ k <= k_sent tm /\ ceil_ms (k_t0 tm + k * k_dur tm) <= t.

Definition origin_ok (s : state) (i : nat) (r : reason) (t : N) : Prop :=
  exists tm, nth_error (timers s) i = Some tm /\ k_pc tm <> PInit
             /\ ceil_ms (k_t0 tm + k_dur tm) <= t /\ k_born tm <= k_t0 tm
             /\ ((k_kind tm = KExit /\ r = RExitAfter (k_dur tm / ms))
                 \/ (k_kind tm = KKill /\ r = RKilled)).

Lemma tick_ok_step : forall s l i k t t', t <= t' -> tick_ok s i k t -> tick_ok (step s l) i k t'.
Proof.
  intros s l i k t t' L (tm & N & NI & MK & K1 & K2 & C).
  destruct (step_same s l _ _ N) as (tm' & N' & (K & Du & B & S & T)).
  destruct (T NI) as (T0 & NI'). exists tm'. rewrite K, Du, T0. repeat split; auto; lia.
Qed.

Lemma origin_ok_step : forall s l i r t t', t <= t' -> origin_ok s i r t -> origin_ok (step s l) i r t'.
Proof.
  intros s l i r t t' L (tm & N & NI & C & BT & O).
  destruct (step_same s l _ _ N) as (tm' & N' & (K & Du & B & S & T)).
  destruct (T NI) as (T0 & NI'). exists tm'. rewrite K, Du, T0, B. repeat split; auto; lia.
Qed.

Fixpoint ticks (mb : list mmsg) : list (nat * N) :=
  match mb with
  | [] => []
  | MTick i k :: r => (i, k) :: ticks r
  | MDrainMark :: r => ticks r
  end.

Lemma ticks_app : forall a b, ticks (a ++ b) = ticks a ++ ticks b.
Proof. induction a; simpl; intros; auto. destruct a; simpl; rewrite ?IHa; auto. Qed.

Definition log_pairs (lg : list (nat * N * N)) : list (nat * N) :=
  map (fun e => (fst (fst e), snd (fst e))) lg.

Record tgt_ok (s : state) : Prop := {
  ok_mbox : forall i k, In (MTick i k) (g_mbox (tgt s)) -> tick_ok s i k (now s);
  ok_log : forall i k t, In (i, k, t) (g_log (tgt s)) -> t <= now s /\ tick_ok s i k t;
  ok_deliv : exists rest, log_pairs (g_log (tgt s)) ++ ticks (g_mbox (tgt s)) ++ rest = pairs (effs s)
                          /\ (g_status (tgt s) <> Stopped -> rest = []);
  ok_stop : forall r i, g_stop (tgt s) = Some (r, Some i) -> origin_ok s i r (now s);
  ok_kill : forall i, g_kill (tgt s) = Some (Some i) -> origin_ok s i RKilled (now s);
  ok_exit : forall r i t, g_exit (tgt s) = Some (r, Some i, t) -> t <= now s /\ origin_ok s i r t;
  ok_exit_log : forall r o te i k t, g_exit (tgt s) = Some (r, o, te) -> In (i, k, t) (g_log (tgt s)) -> t <= te;
  ok_exit_st : g_exit (tgt s) <> None <-> g_status (tgt s) = Stopped;
  ok_left : (g_left (tgt s) = None <-> is_active (g_status (tgt s)) = true)
            /\ (forall tl, g_left (tgt s) = Some tl -> tl <= now s);
  ok_started : g_status (tgt s) <> Unstarted
}.

(* carrying every fact about the old target over one step when the target itself is unchanged
   or only extended *)
Lemma effs_same_or_fire : forall s l,
  (forall i tm w, ~ fires s l i tm w) -> effs (step s l) = effs s.
Proof.
  intros s l NF. destruct (step_effs s l) as [E|(i & tm & w & F & _)]; auto. exfalso. eapply NF; eauto.
Qed.

Lemma note_left_spec : forall t g,
  (g_left g = None <-> is_active (g_status g) = true) -> note_left t g <> None.
Proof.
  unfold note_left. intros t g (H1 & H2). destruct (g_left g) eqn:L; try discriminate.
  rewrite (H1 eq_refl). discriminate.
Qed.

Arguments step : simpl never.

(* a step that keeps status / log / exit / left of the target and only adds justified items *)
Lemma tgt_ok_carry : forall s s',
  now s <= now s' ->
  (forall i k t, tick_ok s i k t -> tick_ok s' i k t) ->
  (forall i r t, origin_ok s i r t -> origin_ok s' i r t) ->
  g_status (tgt s') = g_status (tgt s) -> g_log (tgt s') = g_log (tgt s) ->
  g_exit (tgt s') = g_exit (tgt s) -> g_left (tgt s') = g_left (tgt s) ->
  (forall i k, In (MTick i k) (g_mbox (tgt s')) ->
     In (MTick i k) (g_mbox (tgt s)) \/ tick_ok s' i k (now s')) ->
  (exists rest, log_pairs (g_log (tgt s')) ++ ticks (g_mbox (tgt s')) ++ rest = pairs (effs s')
                /\ (g_status (tgt s') <> Stopped -> rest = [])) ->
  (forall r i, g_stop (tgt s') = Some (r, Some i) ->
     g_stop (tgt s) = Some (r, Some i) \/ origin_ok s' i r (now s')) ->
  (forall i, g_kill (tgt s') = Some (Some i) ->
     g_kill (tgt s) = Some (Some i) \/ origin_ok s' i RKilled (now s')) ->
  tgt_ok s -> tgt_ok s'.
Proof.
  intros s s' L TK OR E1 E4 E5 E6 MB DL ST KL [Hmb Hlog Hdel Hstop Hkill Hexit Hexl Hest Hleft Hstart].
  assert (TKn : forall i k, tick_ok s i k (now s) -> tick_ok s' i k (now s')).
  { intros i k (tm & N & NI & MK & K1 & K2 & C). apply TK. exists tm. repeat split; auto. lia. }
  assert (ORn : forall i r, origin_ok s i r (now s) -> origin_ok s' i r (now s')).
  { intros i r (tm & N & NI & C & BT & O). apply OR. exists tm. repeat split; auto. lia. }
  constructor; rewrite ?E1, ?E4, ?E5, ?E6; auto.
  - intros i k IN. destruct (MB _ _ IN); auto.
  - intros i k t IN. destruct (Hlog _ _ _ IN). split; auto. lia.
  - rewrite <- E1, <- E4. auto.
  - intros r i G. destruct (ST _ _ G); auto.
  - intros i G. destruct (KL _ G); auto.
  - intros r i t G. destruct (Hexit _ _ _ G). split; auto. lia.
  - destruct Hleft as (H1 & H2). split; auto. intros tl G. specialize (H2 _ G). lia.
Qed.

Lemma tgt_stop_shape : forall r o g, let g' := tgt_stop r o g in
  g_status g' = g_status g /\ g_mbox g' = g_mbox g /\ g_kill g' = g_kill g
  /\ g_log g' = g_log g /\ g_exit g' = g_exit g /\ g_left g' = g_left g
  /\ (g_stop g' = g_stop g \/ g_stop g' = Some (r, o)).
Proof. intros. unfold g', tgt_stop. destruct (g_status g) eqn:?; destruct (g_stop g) eqn:?; simpl; repeat split; auto. Qed.

Lemma tgt_kill_shape : forall o g, let g' := tgt_kill o g in
  g_status g' = g_status g /\ g_mbox g' = g_mbox g /\ g_stop g' = g_stop g
  /\ g_log g' = g_log g /\ g_exit g' = g_exit g /\ g_left g' = g_left g
  /\ (g_kill g' = g_kill g \/ g_kill g' = Some o).
Proof. intros. unfold g', tgt_kill. destruct (g_status g) eqn:?; destruct (g_kill g) eqn:?; simpl; repeat split; auto. Qed.

Lemma note_left_ok : forall t g,
  ((g_left g = None <-> is_active (g_status g) = true) /\ (forall tl, g_left g = Some tl -> tl <= t)) ->
  note_left t g <> None /\ (forall tl, note_left t g = Some tl -> tl <= t).
Proof.
  unfold note_left. intros t g ((H1 & H2) & H3). destruct (g_left g) eqn:L.
  - split; [discriminate|]. intros tl X; inversion X; subst; auto.
  - rewrite (H1 eq_refl). split; [discriminate|]. intros tl X; inversion X; subst; lia.
Qed.

Lemma tgt_ok_exit : forall s r o, tgt_ok s ->
  (forall i, o = Some i -> origin_ok s i r (now s)) -> g_status (tgt s) <> Stopped ->
  tgt_ok (mkState (now s) (tgt_exit (now s) r o (tgt s)) (timers s) (effs s)).
Proof.
  intros s r o [Hmb Hlog Hdel Hstop Hkill Hexit Hexl Hest Hleft Hstart] OO NS.
  destruct (note_left_ok (now s) (tgt s) Hleft) as (NL1 & NL2).
  constructor; simpl; auto.
  - intros i k [].
  - destruct Hdel as (rest & D1 & D2). exists (ticks (g_mbox (tgt s)) ++ rest). split; auto.
    intros X; congruence.
  - discriminate.
  - discriminate.
  - intros r' i t G. inversion G; subst. split; [lia|]. apply OO. auto.
  - intros r' o' te i k t G IN. inversion G; subst. apply Hlog in IN. lia.
  - split; auto. discriminate.
  - split; auto. split; [intro X; congruence|discriminate].
  - discriminate.
Qed.

Lemma tgt_ok_stopping : forall s r o, tgt_ok s ->
  (forall i, o = Some i -> origin_ok s i r (now s)) -> g_status (tgt s) <> Stopped ->
  tgt_ok (mkState (now s) (tgt_stopping (now s) r o (tgt s)) (timers s) (effs s)).
Proof.
  intros s r o [Hmb Hlog Hdel Hstop Hkill Hexit Hexl Hest Hleft Hstart] OO NS.
  destruct (note_left_ok (now s) (tgt s) Hleft) as (NL1 & NL2).
  constructor; simpl; auto.
  - destruct Hdel as (rest & D1 & D2). exists rest. split; auto.
  - intros r' i G. inversion G; subst. apply OO. auto.
  - split; [|discriminate]. intro X. apply Hest in X. congruence.
  - split; auto. split; [intro X; congruence|discriminate].
  - discriminate.
Qed.

Lemma tgt_ok_step : forall s l, Inv1 s -> tgt_ok s -> tgt_ok (step s l).
Proof.
  intros s l (TO & EO & ND & SC) OK. pose proof (step_now s l) as L.
  assert (TK0 : forall i k t, tick_ok s i k t -> tick_ok (step s l) i k t)
    by (intros; eapply tick_ok_step; eauto; lia).
  assert (OR0 : forall i r t, origin_ok s i r t -> origin_ok (step s l) i r t)
    by (intros; eapply origin_ok_step; eauto; lia).
  destruct (step_tgt s l) as
    [(i & tm & w & F & TG)|[(TG & NF)|[(-> & TG)|[(r & -> & TG)|[(-> & TG)|[(-> & TG)|[(-> & TG)|(-> & TG)]]]]]]].
  - (* a timer task fires *)
    pose proof F as (-> & N & PE).
    destruct (fire_eff_ok _ _ _ _ (TO _ _ N) PE) as (NI & EOK & SK & NK).
    assert (E : effs (step s (Poll i)) = effs s ++ [mkEff i w (now s)]).
    { destruct (step_effs s (Poll i)) as [E|(i' & tm' & w' & (F1 & N' & PE') & E)].
      - exfalso. unfold step in E. rewrite N in E. unfold poll_timer in E. rewrite PE in E. simpl in E.
        apply (f_equal (@length eff)) in E. rewrite app_length in E. simpl in E. lia.
      - inversion F1; subst i'. rewrite N in N'. inversion N'; subst tm'. rewrite PE in PE'.
        inversion PE'; subst; auto. }
    assert (NOW : now (step s (Poll i)) = now s).
    { unfold step. rewrite N. unfold poll_timer. rewrite PE. reflexivity. }
    destruct (poll_tm_same (now s) (g_status (tgt s)) tm) as (K & Du & B & S & T).
    destruct (T NI) as (T0 & NI').
    pose proof (poll_nth _ _ _ N) as N'.
    destruct OK as [Hmb Hlog Hdel Hstop Hkill Hexit Hexl Hest Hleft Hstart].
    destruct Hdel as (rest & D1 & D2).
    destruct w as [k| | |]; cbn [apply_eff] in TG.
    + (* accepted message *)
      destruct (SK k eq_refl) as (-> & S1 & A).
      assert (NS : g_status (tgt s) <> Stopped) by (intro X; rewrite X in A; discriminate).
      apply tgt_ok_carry with (s := s); rewrite ?TG, ?NOW, ?E; auto; try lia.
      * simpl. intros j k IN. apply in_app_or in IN. destruct IN as [IN|[X|[]]]; auto.
        inversion X; subst. right. exists (poll_tm (now s) (g_status (tgt s)) tm).
        unfold eff_ok in EOK; simpl in EOK. destruct EOK as (MK & K1 & K2 & C). auto 10.
      * exists []. rewrite (D2 NS) in D1. rewrite app_nil_r in *.
        rewrite pairs_snoc. simpl. rewrite ticks_app, app_assoc, D1. simpl. auto.
      * constructor; auto. exists rest; auto.
    + apply tgt_ok_carry with (s := s); rewrite ?TG, ?NOW, ?E; auto; try lia.
      * exists rest. rewrite pairs_snoc. simpl. rewrite app_nil_r. auto.
      * constructor; auto. exists rest; auto.
    + destruct (tgt_stop_shape (RExitAfter (k_dur tm / ms)) (Some i) (tgt s)) as (E1 & E2 & E3 & E4 & E5 & E6 & E7).
      apply tgt_ok_carry with (s := s); rewrite ?TG, ?NOW, ?E, ?E1, ?E2, ?E3, ?E4, ?E5, ?E6; auto; try lia.
      * exists rest. rewrite pairs_snoc. simpl. rewrite app_nil_r. auto.
      * intros r j G. destruct E7 as [E7|E7]; rewrite E7 in G; auto. inversion G; subst.
        right. exists (poll_tm (now s) (g_status (tgt s)) tm).
        unfold eff_ok in EOK; simpl in EOK. destruct EOK as (KK & C & BT). rewrite Du in *.
        split; [auto|split; [auto|split; [auto|split; [auto|left; auto]]]].
      * constructor; auto. exists rest; auto.
    + destruct (tgt_kill_shape (Some i) (tgt s)) as (E1 & E2 & E3 & E4 & E5 & E6 & E7).
      apply tgt_ok_carry with (s := s); rewrite ?TG, ?NOW, ?E, ?E1, ?E2, ?E3, ?E4, ?E5, ?E6; auto; try lia.
      * exists rest. rewrite pairs_snoc. simpl. rewrite app_nil_r. auto.
      * intros j G. destruct E7 as [E7|E7]; rewrite E7 in G; auto. inversion G; subst.
        right. exists (poll_tm (now s) (g_status (tgt s)) tm).
        unfold eff_ok in EOK; simpl in EOK. destruct EOK as (KK & C & BT).
        split; [auto|split; [auto|split; [auto|split; [auto|right; auto]]]].
      * constructor; auto. exists rest; auto.
  - (* target untouched *)
    pose proof (effs_same_or_fire s l NF) as E.
    apply tgt_ok_carry with (s := s); rewrite ?TG, ?E; auto. apply OK.
  - (* one iteration of the target's loop *)
    pose proof OK as [Hmb Hlog Hdel Hstop Hkill Hexit Hexl Hest Hleft Hstart].
    unfold step in *. simpl. unfold tgt_poll.
    assert (TKs : forall g i k t, tick_ok s i k t -> tick_ok (mkState (now s) g (timers s) (effs s)) i k t)
      by (intros g i k t H; exact H).
    assert (SAME : tgt_ok (mkState (now s) (tgt s) (timers s) (effs s))).
    { constructor; auto. }
    destruct (g_status (tgt s)) eqn:ST; auto.
    all: destruct (g_kill (tgt s)) as [o|] eqn:GK;
           [apply tgt_ok_exit; [auto|intros i ->; auto|congruence]|]; auto.
    all: destruct (g_stop (tgt s)) as [[r o]|] eqn:GS;
           [apply tgt_ok_stopping; [auto|intros i ->; auto|congruence]|].
    all: destruct (g_mbox (tgt s)) as [|[i k|] rest] eqn:MB;
           [auto| |apply tgt_ok_stopping; [auto|intros i; discriminate|congruence]].
    all: destruct Hdel as (rest' & D1 & D2); simpl in D1.
    all: constructor; simpl; rewrite ?ST; auto; try congruence.
    all: try (intros j k' IN; apply TKs; apply Hmb; right; auto; fail).
    all: try (intros j k' t IN; apply in_app_or in IN; destruct IN as [IN|[X|[]]];
              [destruct (Hlog _ _ _ IN); auto|inversion X; subst; split; [lia|apply TKs; apply Hmb; left; auto]]; fail).
    all: try (exists rest'; split; [unfold log_pairs in *; rewrite map_app, <- app_assoc; simpl; auto|auto]; fail).
    all: try (intros r9 o9 te j k' t G IN; apply in_app_or in IN; destruct IN as [IN|[X|[]]];
              [eauto|exfalso; assert (HS : g_exit (tgt s) <> None) by congruence;
                     apply Hest in HS; congruence]; fail).
  - (* stop request from outside *)
    unfold step in *. simpl.
    destruct (tgt_stop_shape r None (tgt s)) as (E1 & E2 & E3 & E4 & E5 & E6 & E7).
    apply tgt_ok_carry with (s := s); simpl; rewrite ?E1, ?E2, ?E3, ?E4, ?E5, ?E6; auto; try lia.
    + apply OK.
    + intros r' j G. destruct E7 as [E7|E7]; rewrite E7 in G; auto. discriminate.
  - unfold step in *. simpl.
    destruct (tgt_kill_shape None (tgt s)) as (E1 & E2 & E3 & E4 & E5 & E6 & E7).
    apply tgt_ok_carry with (s := s); simpl; rewrite ?E1, ?E2, ?E3, ?E4, ?E5, ?E6; auto; try lia.
    + apply OK.
    + intros j G. destruct E7 as [E7|E7]; rewrite E7 in G; auto. discriminate.
  - destruct OK as [Hmb Hlog Hdel Hstop Hkill Hexit Hexl Hest Hleft Hstart].
    unfold step in *. simpl. unfold tgt_drain.
    assert (TKs : forall g i k t, tick_ok s i k t -> tick_ok (mkState (now s) g (timers s) (effs s)) i k t)
      by (intros g i k t H; exact H).
    assert (ORs : forall g i r t, origin_ok s i r t -> origin_ok (mkState (now s) g (timers s) (effs s)) i r t)
      by (intros g i r t H; exact H).
    destruct (accepts (g_status (tgt s))) eqn:A; [|constructor; simpl; auto].
    destruct (note_left_ok (now s) (tgt s) Hleft) as (NL1 & NL2).
    constructor; simpl; auto; try discriminate.
    + intros i k IN. apply in_app_or in IN. destruct IN as [IN|[X|[]]]; auto. discriminate.
    + destruct Hdel as (rest & D1 & D2). exists rest. rewrite ticks_app. simpl. rewrite app_nil_r.
      split; auto. intros _. apply D2. intro X. rewrite X in A. discriminate.
    + split; [intros X; rewrite (proj1 Hest X) in A; discriminate|discriminate].
    + split; auto. split; [intro X; congruence|discriminate].
  - (* pre_start / post_start return *)
    destruct OK as [Hmb Hlog Hdel Hstop Hkill Hexit Hexl Hest Hleft Hstart].
    unfold step in *. simpl. unfold tgt_start.
    destruct (g_status (tgt s)) eqn:ST; try (constructor; simpl; rewrite ?ST; auto; fail).
    constructor; simpl; auto; try discriminate.
    + destruct Hdel as (rest & D1 & D2). exists rest. split; auto. intros _. apply D2. discriminate.
    + split; [intro X|discriminate]. apply Hest in X. discriminate.
  - (* post_stop returns *)
    pose proof OK as [Hmb Hlog Hdel Hstop Hkill Hexit Hexl Hest Hleft Hstart].
    unfold step in *. simpl. unfold tgt_post_stop.
    assert (SAME : tgt_ok (mkState (now s) (tgt s) (timers s) (effs s))) by (constructor; auto).
    destruct (g_status (tgt s)) eqn:ST; auto.
    destruct (g_stop (tgt s)) as [[r o]|] eqn:GS; auto.
    apply tgt_ok_exit; [auto|intros i ->; auto|congruence].
Qed.

Lemma tgt_ok_init : forall t pk, tgt_ok (init t pk).
Proof.
  intros. destruct pk; constructor; simpl; try discriminate; try (intros; contradiction);
    try (exists []; auto; fail); try (split; [intro X; congruence|discriminate]);
    try (split; [split; auto|discriminate]).
Qed.

Definition Inv2 (s : state) : Prop := Inv1 s /\ tgt_ok s.

Lemma Inv2_run : forall ls t pk, Inv2 (run ls (init t pk)).
Proof.
  induction ls using rev_ind; intros.
  - split; [apply Inv1_init|apply tgt_ok_init].
  - rewrite run_snoc. destruct (IHls t pk). split; [apply Inv1_step|apply tgt_ok_step]; auto.
Qed.

(* ---------- stability: finished tasks, dead targets ---------- *)
Definition effs_of (i : nat) (es : list eff) : list eff := filter (fun e => Nat.eqb (e_tid e) i) es.

Lemma finished_stable : forall s l i tm,
  nth_error (timers s) i = Some tm -> finished (k_pc tm) = true ->
  nth_error (timers (step s l)) i = Some tm /\ effs_of i (effs (step s l)) = effs_of i (effs s).
Proof.
  intros s l i tm N F. split.
  - destruct (step_timer_fwd s l i tm N) as (tm' & N' & [->|[(_ & F' & _)|(_ & ->)]]); auto.
    + congruence.
    + rewrite N'. f_equal. unfold poll_tm. destruct (k_pc tm); simpl in F; try discriminate; auto.
  - destruct (step_effs s l) as [E|(j & tm' & w & (-> & N' & PE) & E)]; rewrite E; auto.
    unfold effs_of. rewrite filter_app. simpl.
    destruct (Nat.eqb_spec j i) as [->|NE]; [|rewrite app_nil_r; auto].
    exfalso. rewrite N in N'. inversion N'; subst tm'.
    apply poll_eff_wait in PE. destruct PE as (D & P & _). rewrite P in F. discriminate.
Qed.

Lemma finished_stable_run : forall ls s i tm,
  nth_error (timers s) i = Some tm -> finished (k_pc tm) = true ->
  nth_error (timers (run ls s)) i = Some tm /\ effs_of i (effs (run ls s)) = effs_of i (effs s).
Proof.
  induction ls using rev_ind; intros s i tm N F.
  - auto.
  - rewrite run_snoc. destruct (IHls s i tm N F) as (N' & E').
    destruct (finished_stable (run ls s) x i tm N' F) as (N'' & E''). split; auto. congruence.
Qed.

Lemma abort_finishes : forall s i tm,
  nth_error (timers s) i = Some tm ->
  exists tm', nth_error (timers (step s (Abort i))) i = Some tm' /\ finished (k_pc tm') = true
              /\ effs (step s (Abort i)) = effs s
              /\ (finished (k_pc tm) = false -> k_pc tm' = PAborted).
Proof.
  intros s i tm N. unfold step. rewrite N. destruct (finished (k_pc tm)) eqn:F.
  - exists tm. repeat split; auto. discriminate.
  - exists (set_pc tm PAborted). simpl. rewrite nth_upd_eq by (eapply nth_some_lt; eauto). auto.
Qed.

Lemma poll_eff_sent_accepts : forall t st tm k, poll_eff t st tm = Some (ESent k) -> accepts st = true.
Proof.
  unfold poll_eff. intros. destruct (k_pc tm); try discriminate. destruct (elapsed t D); try discriminate.
  destruct (k_kind tm); destruct (accepts st); auto; discriminate.
Qed.

Lemma dead_stays_dead : forall s l,
  accepts (g_status (tgt s)) = false -> accepts (g_status (tgt (step s l))) = false.
Proof.
  intros s l A.
  destruct (step_tgt s l) as
    [(i & tm & w & F & TG)|[(TG & NF)|[(-> & TG)|[(r & -> & TG)|[(-> & TG)|[(-> & TG)|[(-> & TG)|(-> & TG)]]]]]]]; rewrite TG; auto.
  - destruct w; simpl; auto.
    + destruct (tgt_stop_shape (RExitAfter (k_dur tm / ms)) (Some i) (tgt s)) as (E1 & _). rewrite E1. auto.
    + destruct (tgt_kill_shape (Some i) (tgt s)) as (E1 & _). rewrite E1. auto.
  - unfold tgt_poll. destruct (g_status (tgt s)) eqn:ST; auto;
      destruct (g_kill (tgt s)); auto; destruct (g_stop (tgt s)) as [[? ?]|]; auto;
      destruct (g_mbox (tgt s)) as [|[? ?|] ?]; simpl; rewrite ?ST; auto.
  - destruct (tgt_stop_shape r None (tgt s)) as (E1 & _). rewrite E1. auto.
  - destruct (tgt_kill_shape None (tgt s)) as (E1 & _). rewrite E1. auto.
  - unfold tgt_drain. rewrite A. auto.
  - unfold tgt_start. destruct (g_status (tgt s)) eqn:ST; simpl in *; rewrite ?ST; auto; try discriminate.
  - unfold tgt_post_stop. destruct (g_status (tgt s)) eqn:ST; simpl in *; rewrite ?ST; auto.
    destruct (g_stop (tgt s)) as [[? ?]|]; simpl; rewrite ?ST; auto.
Qed.

Lemma dead_no_sends : forall s l,
  accepts (g_status (tgt s)) = false -> pairs (effs (step s l)) = pairs (effs s).
Proof.
  intros s l A. destruct (step_effs s l) as [E|(i & tm & w & (-> & N & PE) & E)]; rewrite E; auto.
  rewrite pairs_snoc. simpl. destruct w; rewrite ?app_nil_r; auto.
  apply poll_eff_sent_accepts in PE. congruence.
Qed.

Lemma dead_run : forall ls s,
  accepts (g_status (tgt s)) = false ->
  accepts (g_status (tgt (run ls s))) = false /\ pairs (effs (run ls s)) = pairs (effs s).
Proof.
  induction ls using rev_ind; intros s A; auto.
  rewrite run_snoc. destruct (IHls s A) as (A' & P'). split.
  - apply dead_stays_dead; auto.
  - rewrite dead_no_sends; auto.
Qed.

(* ---------- intervals and the moment the target leaves the active states ---------- *)
Lemma step_left : forall s l,
  g_left (tgt (step s l)) = g_left (tgt s)
  \/ (g_left (tgt s) = None /\ g_left (tgt (step s l)) = Some (now s)
      /\ timers (step s l) = timers s /\ now (step s l) = now s).
Proof.
  intros s l.
  destruct (step_tgt s l) as
    [(i & tm & w & F & TG)|[(TG & NF)|[(-> & TG)|[(r & -> & TG)|[(-> & TG)|[(-> & TG)|[(-> & TG)|(-> & TG)]]]]]]]; rewrite TG; auto.
  - destruct w; simpl; auto.
    + destruct (tgt_stop_shape (RExitAfter (k_dur tm / ms)) (Some i) (tgt s)) as (_ & _ & _ & _ & _ & E & _). auto.
    + destruct (tgt_kill_shape (Some i) (tgt s)) as (_ & _ & _ & _ & _ & E & _). auto.
  - assert (EX : forall r o, g_left (tgt_exit (now s) r o (tgt s)) = g_left (tgt s)
                \/ (g_left (tgt s) = None /\ g_left (tgt_exit (now s) r o (tgt s)) = Some (now s))).
    { intros. simpl. unfold note_left. destruct (g_left (tgt s)); auto.
      destruct (is_active _); auto. }
    unfold tgt_poll. destruct (g_status (tgt s)) eqn:ST; auto;
      (destruct (g_kill (tgt s)); [destruct (EX RKilled o) as [?|(? & ?)]; auto|];
       destruct (g_stop (tgt s)) as [[r o]|]; [destruct (EX r o) as [?|(? & ?)]; auto|];
       destruct (g_mbox (tgt s)) as [|[? ?|] ?]; auto;
       destruct (EX RDrained None) as [?|(? & ?)]; auto).
  - destruct (tgt_stop_shape r None (tgt s)) as (_ & _ & _ & _ & _ & E & _). auto.
  - destruct (tgt_kill_shape None (tgt s)) as (_ & _ & _ & _ & _ & E & _). auto.
  - unfold tgt_drain. destruct (accepts _); auto. simpl. unfold note_left.
    destruct (g_left (tgt s)); auto. destruct (is_active _); auto.
  - unfold tgt_start. destruct (g_status (tgt s)); auto.
  - unfold tgt_post_stop. destruct (g_status (tgt s)); auto. destruct (g_stop (tgt s)) as [[r o]|]; auto.
    simpl. unfold note_left. destruct (g_left (tgt s)); auto. destruct (is_active _); auto.
Qed.

Definition ival_ok (s : state) : Prop :=
  forall i tm, nth_error (timers s) i = Some tm -> k_kind tm = KInterval ->
    match g_left (tgt s), k_pc tm with
    | None, PCheck D => exists Dp, D = Dp + k_dur tm /\ ceil_ms Dp <= now s
    | None, PWait D => exists Dp, D = Dp + k_dur tm /\ ceil_ms Dp <= now s
    | Some tl, PWait D => exists Dp, D = Dp + k_dur tm /\ ceil_ms Dp <= tl
    | _, _ => True
    end.

Lemma ival_ok_step : forall s l, tgt_ok s -> ival_ok s -> ival_ok (step s l).
Proof.
  intros s l OK IV i tm' N' KI. pose proof (step_now s l) as L.
  destruct (ok_left s OK) as ((LA1 & LA2) & LT).
  destruct (step_left s l) as [EL|(L0 & L1 & TS & NW)].
  - rewrite EL. apply step_timer in N'.
    destruct N' as [N|[(k & d & -> & -> & ->)|[(tm & -> & N & F & ->)|(tm & -> & N & ->)]]].
    + specialize (IV _ _ N KI). destruct (g_left (tgt s)); destruct (k_pc tm'); auto;
        destruct IV as (Dp & ? & ?); exists Dp; split; auto; lia.
    + simpl. destruct (g_left (tgt s)); auto.
    + simpl. destruct (g_left (tgt s)); auto.
    + assert (KI' : k_kind tm = KInterval).
      { destruct (poll_tm_same (now s) (g_status (tgt s)) tm) as (K & _). congruence. }
      specialize (IV _ _ N KI').
      assert (NW : now (step s (Poll i)) = now s).
      { unfold step. rewrite N. unfold poll_timer. destruct (poll_eff _ _ _); auto. }
      rewrite NW.
      assert (Du : k_dur (poll_tm (now s) (g_status (tgt s)) tm) = k_dur tm)
        by apply (poll_tm_same (now s) (g_status (tgt s)) tm).
      rewrite Du. unfold poll_tm. destruct (k_pc tm) eqn:P; simpl; rewrite ?P.
      * rewrite KI'. simpl. destruct (g_left (tgt s)); auto.
      * destruct (elapsed (now s) D) eqn:E; simpl; rewrite ?P.
        -- apply elapsed_true in E. destruct (g_left (tgt s)); auto. eauto.
        -- destruct (g_left (tgt s)); auto.
      * destruct (is_active (g_status (tgt s))) eqn:A; simpl.
        -- rewrite (LA2 eq_refl) in *. auto.
        -- destruct (g_left (tgt s)); auto.
      * destruct (elapsed (now s) D) eqn:E; simpl; rewrite ?P; auto.
        apply elapsed_true in E. rewrite KI'.
        destruct (accepts (g_status (tgt s))); simpl; destruct (g_left (tgt s)); auto; eauto.
      * destruct (g_left (tgt s)); auto.
      * destruct (g_left (tgt s)); auto.
  - rewrite L1. rewrite TS in N'. specialize (IV _ _ N' KI). rewrite L0 in IV.
    destruct (k_pc tm'); auto.
Qed.

Lemma ival_ok_run : forall ls t pk, ival_ok (run ls (init t pk)).
Proof.
  induction ls using rev_ind; intros.
  - intros i tm N. destruct i; discriminate.
  - rewrite run_snoc. apply ival_ok_step; auto. apply Inv2_run.
Qed.

(* ---------- prompt schedules: every tick is enqueued at exactly its wheel deadline ---------- *)
Definition prompt_ok (s : state) : Prop :=
  forall i tm, nth_error (timers s) i = Some tm ->
    match k_pc tm with
    | PInit => k_born tm = now s
    | PFirst D => now s <= ceil_ms D /\ k_t0 tm = k_born tm
    | PCheck D => now s <= ceil_ms D /\ k_t0 tm = k_born tm
    | PWait D => now s <= ceil_ms D /\ k_t0 tm = k_born tm
    | _ => True
    end.

Definition exact_ok (s : state) : Prop :=
  forall e k, In e (effs s) -> e_what e = ESent k ->
    exists tm, nth_error (timers s) (e_tid e) = Some tm
               /\ e_time e = ceil_ms (k_born tm + k * k_dur tm).

Definition adv_ok (s : state) (l : label) : Prop :=
  match l with
  | Advance dt => dt = 0 \/ forallb (pending_ok (now s + dt)) (timers s) = true
  | _ => True
  end.

Lemma step_now_eq : forall s l, (forall dt, l <> Advance dt) -> now (step s l) = now s.
Proof.
  intros s l NA. destruct l; unfold step; simpl; auto.
  - exfalso. eapply NA; eauto.
  - destruct (nth_error (timers s) i); auto. unfold poll_timer. destruct (poll_eff _ _ _); auto.
  - destruct (nth_error (timers s) i); auto. destruct (finished _); auto.
Qed.

Lemma prompt_ok_step : forall s l, adv_ok s l -> prompt_ok s -> prompt_ok (step s l).
Proof.
  intros s l AD PO i tm' N'.
  destruct (step_timer _ _ _ _ N') as [N|[(k & d & -> & -> & ->)|[(tm & -> & N & F & ->)|(tm & -> & N & ->)]]].
  - specialize (PO _ _ N). destruct l; try (rewrite step_now_eq by (intros; discriminate); exact PO).
    unfold step. simpl in *. destruct AD as [->|FA].
    + rewrite N.add_0_r. auto.
    + rewrite forallb_forall in FA. specialize (FA tm' (nth_error_In _ _ N)).
      unfold pending_ok in FA. destruct (k_pc tm'); try discriminate; auto;
        apply N.leb_le in FA; intuition.
  - simpl. unfold step. reflexivity.
  - simpl. auto.
  - specialize (PO _ _ N). rewrite step_now_eq by (intros; discriminate). unfold poll_tm.
    destruct (k_pc tm) eqn:P; simpl; rewrite ?P; auto.
    + destruct (k_kind tm); simpl; split; auto; try apply le_ceil;
        (eapply N.le_trans; [|apply le_ceil]; lia).
    + destruct (elapsed (now s) D); simpl; rewrite ?P; auto. destruct PO. split; auto.
      eapply N.le_trans; eauto. apply ceil_mono. lia.
    + destruct (is_active _); simpl; auto.
    + destruct (elapsed (now s) D); simpl; rewrite ?P; auto. destruct PO.
      destruct (k_kind tm); try destruct (accepts _); simpl; auto. split; auto.
      eapply N.le_trans; eauto. apply ceil_mono. lia.
Qed.

Lemma exact_ok_step : forall s l, Inv1 s -> prompt_ok s -> exact_ok s -> exact_ok (step s l).
Proof.
  intros s l (TO & EO & _) PO EX e k IN W.
  assert (OLD : In e (effs s) ->
    exists tm, nth_error (timers (step s l)) (e_tid e) = Some tm
               /\ e_time e = ceil_ms (k_born tm + k * k_dur tm)).
  { intro I. destruct (EX e k I W) as (tm & N & T).
    destruct (step_same s l _ _ N) as (tm' & N' & (K & Du & B & _)). exists tm'. rewrite B, Du. auto. }
  destruct (step_effs s l) as [E|(i & tm & w & (-> & N & PE) & E)]; rewrite E in IN; auto.
  apply in_app_or in IN. destruct IN as [IN|[<-|[]]]; auto. simpl in *. subst w.
  exists (poll_tm (now s) (g_status (tgt s)) tm). split; [apply poll_nth; auto|].
  destruct (poll_tm_same (now s) (g_status (tgt s)) tm) as (K & Du & B & _). rewrite B, Du.
  destruct (fire_eff_ok _ _ _ _ (TO _ _ N) PE) as (NI & OK & SK & NK).
  destruct (SK k eq_refl) as (-> & _).
  destruct (poll_eff_wait _ _ _ _ PE) as (D & P & EL). apply elapsed_true in EL.
  specialize (PO _ _ N). rewrite P in PO. destruct PO as (PO & T0).
  pose proof (TO _ _ N) as TK. unfold timer_ok in TK. rewrite P in TK. destruct TK as (_ & HD & _).
  rewrite <- T0, <- HD. lia.
Qed.

Lemma prompt_exact : forall ls s,
  Inv1 s -> prompt_ok s -> exact_ok s -> prompt ls s -> exact_ok (run ls s).
Proof.
  induction ls; intros s I PO EX PR; auto.
  simpl in PR. destruct PR as (AD & PR). change (run (a :: ls) s) with (run ls (step s a)).
  apply IHls; auto.
  - apply Inv1_step; auto.
  - apply prompt_ok_step; auto.
  - apply exact_ok_step; auto.
Qed.

(* the creation time never exceeds the first-poll time once anything has been sent *)
Definition born_ok (s : state) : Prop :=
  forall i tm, nth_error (timers s) i = Some tm -> k_sent tm = 0 \/ k_born tm <= k_t0 tm.

Lemma born_ok_step : forall s l, timers_ok s -> born_ok s -> born_ok (step s l).
Proof.
  intros s l TO BO i tm' N'.
  destruct (step_timer _ _ _ _ N') as [N|[(k & d & -> & -> & ->)|[(tm & -> & N & F & ->)|(tm & -> & N & ->)]]].
  - eauto.
  - simpl. auto.
  - simpl. eauto.
  - specialize (BO _ _ N). pose proof (TO _ _ N) as TK. unfold timer_ok in TK. destruct TK as (B & TK).
    unfold poll_tm. destruct (k_pc tm) eqn:P; simpl; auto.
    + destruct (elapsed _ _); simpl; auto.
    + destruct (elapsed _ _); simpl; auto.
      destruct (k_kind tm); try destruct (accepts _); simpl; auto; right; intuition.
Qed.

Lemma born_ok_run : forall ls t pk, born_ok (run ls (init t pk)).
Proof.
  induction ls using rev_ind; intros.
  - intros i tm N. destruct i; discriminate.
  - rewrite run_snoc. apply born_ok_step; auto. apply Inv1_run.
Qed.

Lemma after_sent : forall t tm, timer_ok t tm -> k_kind tm = KAfter ->
  k_sent tm <= 1 /\ (k_sent tm = 1 <-> k_pc tm = PDone ROk).
Proof.
  unfold timer_ok. intros t tm (B & H) K. rewrite K in H.
  destruct (k_pc tm) eqn:P.
  - rewrite H. split; [lia|]. split; [lia|discriminate].
  - destruct H as (X & _). discriminate.
  - destruct H as (X & _). discriminate.
  - destruct H as (_ & _ & _ & S0). rewrite S0 by discriminate. split; [lia|]. split; [lia|discriminate].
  - destruct H as (_ & _ & _ & S0). destruct r.
    + rewrite S0. split; [lia|]. split; auto.
    + rewrite S0. split; [lia|]. split; [lia|discriminate].
    + contradiction.
  - rewrite H by discriminate. split; [lia|]. split; [lia|discriminate].
Qed.

(* ================= headline theorems ================= *)

(* send_after: at most once, numbered 1, never before creation + period; handled at most
   once and never before; the handle says Ok exactly when the message was enqueued *)
Theorem after_once_not_early : forall pk ls t0 i tm,
  let s := run ls (init t0 pk) in
  nth_error (timers s) i = Some tm -> k_kind tm = KAfter ->
  NoDup (pairs (effs s)) /\ NoDup (log_pairs (g_log (tgt s)))
  /\ (forall e k, In e (effs s) -> e_tid e = i -> e_what e = ESent k ->
        k = 1 /\ k_born tm + k_dur tm <= e_time e)
  /\ (forall k t, In (i, k, t) (g_log (tgt s)) -> k = 1 /\ k_born tm + k_dur tm <= t)
  /\ (k_pc tm = PDone ROk <-> In (i, 1) (pairs (effs s))).
Proof.
  intros pk ls t0 i tm s N K. subst s.
  destruct (Inv2_run ls t0 pk) as ((TO & EO & ND & SC) & OK). pose proof (born_ok_run ls t0 pk _ _ N) as BO.
  destruct (after_sent _ _ (TO _ _ N) K) as (S1 & S2).
  assert (NE : forall k t, 1 <= k -> k <= k_sent tm -> ceil_ms (k_t0 tm + k * k_dur tm) <= t ->
               k = 1 /\ k_born tm + k_dur tm <= t).
  { intros k t K1 K2 C. assert (k = 1) by lia. subst k. split; auto.
    pose proof (le_ceil (k_t0 tm + 1 * k_dur tm)). destruct BO; lia. }
  split; auto. split.
  - destruct (ok_deliv _ OK) as (rest & D & _). rewrite <- D in ND.
    apply NoDup_app_l in ND. auto.
  - split; [|split].
    + intros e k IN T W. destruct (EO _ IN) as (_ & tm' & N' & _ & EK). rewrite T, N in N'.
      inversion N'; subst tm'. unfold eff_ok in EK. rewrite W in EK. destruct EK as (_ & K1 & K2 & C). auto.
    + intros k t IN. destruct (ok_log _ OK _ _ _ IN) as (_ & tm' & N' & _ & _ & K1 & K2 & C).
      rewrite N in N'. inversion N'; subst tm'. auto.
    + rewrite <- S2. split.
      * intro X. eapply SC; eauto; lia.
      * intro IN. pose proof (sent_bound _ _ _ _ EO IN N). lia.
Qed.

(* the step at which a due send_after task is polled: delivered iff the target accepts *)
Theorem after_fires : forall pk ls t0 i tm D,
  let s := run ls (init t0 pk) in
  nth_error (timers s) i = Some tm -> k_kind tm = KAfter -> k_pc tm = PWait D ->
  ceil_ms D <= now s ->
  let s' := step s (Poll i) in
  if accepts (g_status (tgt s))
  then nth_error (timers s') i = Some (mkTimer KAfter (k_dur tm) (k_born tm) (k_t0 tm) (PDone ROk) 1)
       /\ g_mbox (tgt s') = g_mbox (tgt s) ++ [MTick i 1]
  else nth_error (timers s') i = Some (set_pc tm (PDone RErr)) /\ tgt s' = tgt s.
Proof.
  intros pk ls t0 i tm D s N K P C s'. subst s s'.
  destruct (Inv1_run ls t0 pk) as (TO & _). destruct (after_sent _ _ (TO _ _ N) K) as (S1 & S2).
  assert (S0 : k_sent tm = 0).
  { destruct (N.eq_dec (k_sent tm) 1) as [X|X]; [|lia]. apply S2 in X. congruence. }
  apply elapsed_true in C. rewrite (poll_nth _ _ _ N).
  unfold step. rewrite N. unfold poll_timer, poll_eff, poll_tm. rewrite P, C, K, S0.
  destruct (accepts _); simpl; auto.
Qed.

(* abort: from the abort on, the task's record and its effects on the target are frozen *)
Theorem abort_prevents : forall pk ls1 ls2 t0 i,
  let s1 := run ls1 (init t0 pk) in
  (i < length (timers s1))%nat ->
  let s2 := step s1 (Abort i) in
  let s3 := run ls2 s2 in
  nth_error (timers s3) i = nth_error (timers s2) i
  /\ effs_of i (effs s3) = effs_of i (effs s1)
  /\ (forall tm, nth_error (timers s1) i = Some tm -> finished (k_pc tm) = false ->
        exists tm', nth_error (timers s3) i = Some tm' /\ k_pc tm' = PAborted).
Proof.
  intros pk ls1 ls2 t0 i s1 LT s2 s3. subst s3 s2.
  destruct (nth_error (timers s1) i) as [tm|] eqn:N; [|apply nth_error_None in N; lia].
  destruct (abort_finishes _ _ _ N) as (tm' & N' & F & E & AB).
  destruct (finished_stable_run ls2 _ _ _ N' F) as (N'' & E''). rewrite N', N'', E'', E.
  repeat split; auto. intros tm0 X NF. inversion X; subst. eauto.
Qed.

(* dead target: once the target refuses messages nothing is delivered any more, and a
   send_after that had not delivered reports Err through its handle if it finishes *)
Theorem dead_target_err : forall pk ls1 ls2 t0,
  let s1 := run ls1 (init t0 pk) in
  accepts (g_status (tgt s1)) = false ->
  let s2 := run ls2 s1 in
  pairs (effs s2) = pairs (effs s1)
  /\ forall i tm1 tm2 r,
       nth_error (timers s1) i = Some tm1 -> nth_error (timers s2) i = Some tm2 ->
       k_kind tm2 = KAfter -> k_pc tm1 <> PDone ROk -> k_pc tm2 = PDone r -> r = RErr.
Proof.
  intros pk ls1 ls2 t0 s1 A s2. destruct (dead_run ls2 s1 A) as (A2 & P2). split; auto.
  intros i tm1 tm2 r N1 N2 K NP P. subst s2 s1. rewrite <- run_app in *.
  destruct (Inv1_run (ls1 ++ ls2) t0 pk) as (TO2 & EO2 & _ & SC2).
  destruct (Inv1_run ls1 t0 pk) as (TO1 & EO1 & _ & _).
  destruct (after_sent _ _ (TO2 _ _ N2) K) as (S1 & S2).
  destruct r; auto.
  - exfalso. assert (IN : In (i, 1) (pairs (effs (run (ls1 ++ ls2) (init t0 pk))))).
    { eapply SC2; eauto; try lia. apply S2 in P. lia. }
    rewrite P2 in IN. pose proof (sent_bound _ _ _ _ EO1 IN N1) as B.
    assert (K1 : k_kind tm1 = KAfter).
    { clear - N1 N2 K. revert tm2 N2 K. induction ls2 using rev_ind; intros.
      - rewrite app_nil_r in N2. congruence.
      - rewrite app_assoc, run_snoc in N2.
        destruct (step_timer _ _ _ _ N2) as [N|[(k & d & -> & -> & ->)|[(tm & -> & N & F & ->)|(tm & -> & N & ->)]]].
        + eauto.
        + exfalso. rewrite run_app in N2. pose proof (nth_some_lt _ _ _ N1).
          assert (length (timers (run ls1 (init t0 pk))) <= length (timers (run ls2 (run ls1 (init t0 pk)))))%nat.
          { clear. induction ls2 using rev_ind; simpl; auto. rewrite run_snoc.
            eapply Nat.le_trans; eauto. clear. set (s := run ls2 _). destruct x; unfold step; simpl; auto.
            - destruct (nth_error (timers s) i); auto. unfold poll_timer. destruct (poll_eff _ _ _); simpl; rewrite upd_length; auto.
            - destruct (nth_error (timers s) i); auto. destruct (finished _); simpl; rewrite ?upd_length; auto.
            - rewrite app_length. simpl. lia. }
          rewrite <- run_app in H0. lia.
        + eapply IHls2; eauto.
        + eapply IHls2; eauto. destruct (poll_tm_same (now (run (ls1 ++ ls2) (init t0 pk))) (g_status (tgt (run (ls1 ++ ls2) (init t0 pk)))) tm) as (KK & _). congruence. }
    destruct (after_sent _ _ (TO1 _ _ N1) K1) as (S1' & S2'). apply NP. apply S2'. lia.
  - exfalso. pose proof (TO2 _ _ N2) as TK. unfold timer_ok in TK. rewrite P, K in TK. intuition.
Qed.

(* send_interval: the k-th message is never enqueued (or handled) before the k-th wheel
   deadline ceil_ms (t0 + k*p) >= born + k*p, where t0 is the first poll of the task: the
   deadline is k periods after t0 whatever happened to the earlier ticks (no drift); each
   number 1..k_sent is enqueued exactly once *)
Theorem interval_kth : forall pk ls t0 i tm,
  let s := run ls (init t0 pk) in
  nth_error (timers s) i = Some tm -> k_kind tm = KInterval ->
  (forall e k, In e (effs s) -> e_tid e = i -> e_what e = ESent k ->
     1 <= k /\ k <= k_sent tm /\ ceil_ms (k_t0 tm + k * k_dur tm) <= e_time e
     /\ k_born tm + k * k_dur tm <= e_time e)
  /\ (forall k t, In (i, k, t) (g_log (tgt s)) ->
        ceil_ms (k_t0 tm + k * k_dur tm) <= t /\ k_born tm + k * k_dur tm <= t)
  /\ (forall k, 1 <= k -> k <= k_sent tm -> In (i, k) (pairs (effs s)))
  /\ NoDup (pairs (effs s)) /\ NoDup (log_pairs (g_log (tgt s))).
Proof.
  intros pk ls t0 i tm s N K. subst s.
  destruct (Inv2_run ls t0 pk) as ((TO & EO & ND & SC) & OK). pose proof (born_ok_run ls t0 pk _ _ N) as BO.
  assert (NE : forall k t, 1 <= k -> k <= k_sent tm -> ceil_ms (k_t0 tm + k * k_dur tm) <= t ->
               k_born tm + k * k_dur tm <= t).
  { intros k t K1 K2 C. pose proof (le_ceil (k_t0 tm + k * k_dur tm)). destruct BO; lia. }
  repeat split; auto.
  - destruct (EO _ H) as (_ & tm' & N' & _ & EK). rewrite H0, N in N'. inversion N'; subst tm'.
    unfold eff_ok in EK. rewrite H1 in EK. intuition.
  - destruct (EO _ H) as (_ & tm' & N' & _ & EK). rewrite H0, N in N'. inversion N'; subst tm'.
    unfold eff_ok in EK. rewrite H1 in EK. intuition.
  - destruct (EO _ H) as (_ & tm' & N' & _ & EK). rewrite H0, N in N'. inversion N'; subst tm'.
    unfold eff_ok in EK. rewrite H1 in EK. intuition.
  - destruct (EO _ H) as (_ & tm' & N' & _ & EK). rewrite H0, N in N'. inversion N'; subst tm'.
    unfold eff_ok in EK. rewrite H1 in EK. destruct EK as (_ & K1 & K2 & C). auto.
  - destruct (ok_log _ OK _ _ _ H) as (_ & tm' & N' & _ & _ & K1 & K2 & C).
    rewrite N in N'. inversion N'; subst tm'. auto.
  - destruct (ok_log _ OK _ _ _ H) as (_ & tm' & N' & _ & _ & K1 & K2 & C).
    rewrite N in N'. inversion N'; subst tm'. auto.
  - intros. eapply SC; eauto.
  - destruct (ok_deliv _ OK) as (rest & D & _). rewrite <- D in ND. apply NoDup_app_l in ND. auto.
Qed.

(* on a prompt schedule the k-th message is enqueued at EXACTLY the k-th wheel deadline
   counted from the creation of the timer; with an aligned creation time and period that is
   born + k*p on the nose *)
Theorem interval_kth_exact : forall pk ls t0 e k,
  prompt ls (init t0 pk) ->
  let s := run ls (init t0 pk) in
  In e (effs s) -> e_what e = ESent k ->
  exists tm, nth_error (timers s) (e_tid e) = Some tm
             /\ e_time e = ceil_ms (k_born tm + k * k_dur tm)
             /\ (k_born tm mod ms = 0 -> k_dur tm mod ms = 0 -> e_time e = k_born tm + k * k_dur tm).
Proof.
  intros pk ls t0 e k PR s IN W. subst s.
  assert (EX : exact_ok (run ls (init t0 pk))).
  { apply prompt_exact; auto.
    - apply Inv1_init.
    - intros i tm N. destruct i; discriminate.
    - intros e' k' []. }
  destruct (EX e k IN W) as (tm & N & T). exists tm. repeat split; auto.
  intros A1 A2. rewrite T. apply ceil_aligned. apply mod_add_aligned; auto.
Qed.

(* an interval task is finished at the latest when it is blocked at a time >= one (wheel-
   rounded) period after the target left the active states *)
Theorem interval_ends : forall pk ls t0 i tm tl,
  let s := run ls (init t0 pk) in
  nth_error (timers s) i = Some tm -> k_kind tm = KInterval ->
  g_left (tgt s) = Some tl ->
  timer_enabled (now s) tm = false ->             (* the task has run as far as it can *)
  ceil_ms (k_t0 tm) <= now s ->                   (* (its own immediate first tick is due) *)
  tl + ceil_ms (k_dur tm) <= now s ->
  finished (k_pc tm) = true.
Proof.
  intros pk ls t0 i tm tl s N K GL EN C0 C1. subst s.
  pose proof (ival_ok_run ls t0 pk _ _ N K) as IV. rewrite GL in IV.
  destruct (Inv2_run ls t0 pk) as ((TO & _) & OK). pose proof (TO _ _ N) as TK.
  unfold timer_ok in TK. destruct TK as (_ & TK).
  unfold timer_enabled in EN. destruct (k_pc tm) eqn:P; auto; try discriminate.
  - exfalso. destruct TK as (_ & -> & _).
    assert (elapsed (now (run ls (init t0 pk))) (k_t0 tm) = true) by (apply elapsed_true; auto). congruence.
  - exfalso. destruct IV as (Dp & -> & CP).
    assert (EL : elapsed (now (run ls (init t0 pk))) (Dp + k_dur tm) = true).
    { apply elapsed_true. eapply N.le_trans; [apply ceil_add_le|]. lia. }
    congruence.
Qed.

(* the target's active flag and the ghost leave time agree; the leave time is in the past *)
Theorem left_spec : forall pk ls t0,
  let s := run ls (init t0 pk) in
  (g_left (tgt s) = None <-> is_active (g_status (tgt s)) = true)
  /\ (forall tl, g_left (tgt s) = Some tl -> tl <= now s).
Proof. intros. destruct (Inv2_run ls t0 pk) as (_ & OK). apply (ok_left _ OK). Qed.

(* exit_after / kill_after: an exit caused by timer i happens no earlier than the period
   after its creation and carries the documented reason *)
Theorem exit_kill_after : forall pk ls t0 r i t,
  let s := run ls (init t0 pk) in
  g_exit (tgt s) = Some (r, Some i, t) ->
  exists tm, nth_error (timers s) i = Some tm
    /\ k_born tm + k_dur tm <= t
    /\ ((k_kind tm = KExit /\ r = RExitAfter (k_dur tm / ms)) \/ (k_kind tm = KKill /\ r = RKilled)).
Proof.
  intros pk ls t0 r i t s G. subst s.
  destruct (Inv2_run ls t0 pk) as ((TO & _) & OK).
  destruct (ok_exit _ OK _ _ _ G) as (_ & tm & N & NI & C & BT & O). exists tm. repeat split; auto.
  pose proof (le_ceil (k_t0 tm + k_dur tm)). lia.
Qed.

(* every stop / kill request issued by a timer task is issued no earlier than its period *)
Theorem exit_kill_effects : forall pk ls t0 e,
  let s := run ls (init t0 pk) in
  In e (effs s) -> (e_what e = EStop \/ e_what e = EKill) ->
  exists tm, nth_error (timers s) (e_tid e) = Some tm
    /\ k_born tm + k_dur tm <= e_time e
    /\ (e_what e = EStop -> k_kind tm = KExit) /\ (e_what e = EKill -> k_kind tm = KKill).
Proof.
  intros pk ls t0 e s IN W. subst s.
  destruct (Inv1_run ls t0 pk) as (TO & EO & _).
  destruct (EO _ IN) as (_ & tm & N & NI & EK). exists tm. split; auto.
  pose proof (le_ceil (k_t0 tm + k_dur tm)).
  unfold eff_ok in EK.
  destruct W as [W|W]; rewrite W in EK; destruct EK as (KK & C & BT);
    (split; [lia|]); split; intro X; auto; congruence.
Qed.

(* ---------- the deterministic driver only ever performs model steps ---------- *)
Lemma run_timer_is_run : forall pk f i d, d_s d = run (rev (d_ls d)) (init 0 pk) ->
  d_s (run_timer f i d) = run (rev (d_ls (run_timer f i d))) (init 0 pk).
Proof.
  induction f; simpl; intros; auto. destruct (enabled (d_s d) i); auto.
  apply IHf. simpl. rewrite run_snoc. congruence.
Qed.

Lemma run_tgt_is_run : forall pk f d, d_s d = run (rev (d_ls d)) (init 0 pk) ->
  d_s (run_tgt f d) = run (rev (d_ls (run_tgt f d))) (init 0 pk).
Proof.
  induction f; simpl; intros; auto. destruct (tgt_next d); auto.
  apply IHf. simpl. rewrite run_snoc. congruence.
Qed.

Lemma settle_is_run : forall pk tf f d, d_s d = run (rev (d_ls d)) (init 0 pk) ->
  d_s (settle tf f d) = run (rev (d_ls (settle tf f d))) (init 0 pk).
Proof.
  induction f; simpl; intros; auto. destruct (d_q d) as [|[i|] q]; auto.
  - apply IHf. unfold wake_tgt.
    pose proof (run_timer_is_run pk tf i (mkDrv (d_s d) q (d_ls d) (d_pg d)) H).
    destruct (tgt_next _); auto.
  - apply IHf. apply run_tgt_is_run. auto.
Qed.

Lemma exec_op_gen_is_run : forall pk tf f dp o, d_s (fst dp) = run (rev (d_ls (fst dp))) (init 0 pk) ->
  d_s (fst (exec_op_gen tf f dp o)) = run (rev (d_ls (fst (exec_op_gen tf f dp o)))) (init 0 pk).
Proof.
  intros pk tf f (d, pr) o H. cbn [fst] in H.
  assert (SN : forall d' l, d_s d' = run (rev (d_ls d')) (init 0 pk) ->
               d_s (dstep d' l) = run (rev (d_ls (dstep d' l))) (init 0 pk)).
  { intros d' l H'. unfold dstep. cbn [d_s d_ls rev]. rewrite run_snoc. congruence. }
  assert (WT : forall d', d_s d' = run (rev (d_ls d')) (init 0 pk) ->
               d_s (wake_tgt d') = run (rev (d_ls (wake_tgt d'))) (init 0 pk)).
  { intros d' H'. unfold wake_tgt. destruct (tgt_next _); auto. }
  destruct o.
  - exact (SN d (Mk k dur) H).
  - exact (SN d (Abort i) H).
  - exact (WT _ (SN d (TStop r) H)).
  - exact (WT _ (SN d TKill H)).
  - exact (WT _ (SN d TDrain H)).
  - exact (settle_is_run pk tf f d H).
  - exact (SN _ (Advance dt) (settle_is_run pk tf f d H)).
  - exact (settle_is_run pk tf f d H).
  - exact (WT _ (SN d TgtStart H)).
  - exact (WT (mkDrv (d_s d) (d_q d) (d_ls d) true) H).
Qed.

(* every scenario of the correspondence check is a run of the model: all theorems above
   apply to the states the driver reaches *)
Theorem exec_is_run : forall pk gt ops,
  d_s (fst (exec pk gt ops)) = run (rev (d_ls (fst (exec pk gt ops)))) (init 0 pk).
Proof.
  intros. unfold exec, exec_op. generalize FUEL. intro f.
  assert (G : forall ops dp, d_s (fst dp) = run (rev (d_ls (fst dp))) (init 0 pk) ->
              d_s (fst (fold_left (exec_op_gen f f) ops dp))
              = run (rev (d_ls (fst (fold_left (exec_op_gen f f) ops dp)))) (init 0 pk)).
  { induction ops0; simpl; intros; auto. apply IHops0. apply exec_op_gen_is_run. auto. }
  apply G. reflexivity.
Qed.

(* ================= soundness of the oracle's safety clauses =================
   The scenario's own book-keeping (`scan`: kind, period and creation time of the i-th timer,
   computed from the operations alone) agrees with the timers of the state the driver reaches. *)
Definition statics (tm : timer) : kind * N * N := (k_kind tm, k_dur tm, k_born tm).
Definition ti_statics (ti : tinfo) : kind * N * N := (ti_kind ti, ti_dur ti, ti_born ti).

Lemma map_upd_same : forall {A B} (f : A -> B) l i x y,
  nth_error l i = Some y -> f x = f y -> map f (upd l i x) = map f l.
Proof.
  induction l; destruct i; simpl; intros; try discriminate; auto.
  - inversion H; subst. congruence.
  - f_equal. eapply IHl; eauto.
Qed.

Definition quiet (l : label) : bool :=
  match l with Advance _ => false | Mk _ _ => false | _ => true end.

Lemma step_quiet : forall s l, quiet l = true ->
  now (step s l) = now s /\ map statics (timers (step s l)) = map statics (timers s).
Proof.
  intros s l Q. destruct l; simpl in Q; try discriminate; unfold step; simpl; auto.
  - destruct (nth_error (timers s) i) as [tm|] eqn:N; auto. unfold poll_timer.
    assert (E : statics (poll_tm (now s) (g_status (tgt s)) tm) = statics tm).
    { destruct (poll_tm_same (now s) (g_status (tgt s)) tm) as (K & Du & B & _).
      unfold statics. congruence. }
    destruct (poll_eff _ _ _); simpl; split; auto; eapply map_upd_same; eauto.
  - destruct (nth_error (timers s) i) as [tm|] eqn:N; auto.
    destruct (finished (k_pc tm)); simpl; auto. split; auto. eapply map_upd_same; eauto.
Qed.

Definition same_frame (d d' : drv) : Prop :=
  now (d_s d') = now (d_s d) /\ map statics (timers (d_s d')) = map statics (timers (d_s d)).

Lemma frame_refl : forall d, same_frame d d.
Proof. split; auto. Qed.
Lemma frame_s : forall d d', d_s d' = d_s d -> same_frame d d'.
Proof. unfold same_frame. intros d d' E. rewrite E. auto. Qed.
Lemma frame_trans : forall a b c, same_frame a b -> same_frame b c -> same_frame a c.
Proof. unfold same_frame. intros a b c (A1 & A2) (B1 & B2). split; congruence. Qed.
Lemma frame_dstep : forall d l, quiet l = true -> same_frame d (dstep d l).
Proof. intros. unfold same_frame, dstep. simpl. apply step_quiet. auto. Qed.

Lemma frame_run_timer : forall f i d, same_frame d (run_timer f i d).
Proof.
  induction f; simpl; intros; [apply frame_refl|]. destruct (enabled (d_s d) i); [|apply frame_refl].
  eapply frame_trans; [apply (frame_dstep d (Poll i)); reflexivity|apply IHf].
Qed.

Lemma frame_run_tgt : forall f d, same_frame d (run_tgt f d).
Proof.
  induction f; simpl; intros; [apply frame_refl|]. destruct (tgt_next d) as [l|] eqn:TN; [|apply frame_refl].
  eapply frame_trans; [apply (frame_dstep d l)|apply IHf].
  unfold tgt_next in TN. destruct (tgt_enabled _); [inversion TN; reflexivity|].
  destruct (g_status _); try discriminate. destruct (d_pg d); inversion TN; reflexivity.
Qed.

Lemma frame_wake_tgt : forall d, same_frame d (wake_tgt d).
Proof. intros. unfold wake_tgt. destruct (tgt_next _); apply frame_s; reflexivity. Qed.

Lemma frame_settle : forall tf f d, same_frame d (settle tf f d).
Proof.
  induction f; cbn [settle]; intros; [apply frame_refl|].
  destruct (d_q d) as [|[i|] q]; [apply frame_refl| |].
  - eapply frame_trans; [|apply IHf].
    eapply frame_trans; [|apply frame_wake_tgt].
    eapply frame_trans; [|apply frame_run_timer]. apply frame_s; reflexivity.
  - eapply frame_trans; [|apply IHf]. eapply frame_trans; [|apply frame_run_tgt]. apply frame_s; reflexivity.
Qed.

Lemma frame_wake_fired : forall d, same_frame d (wake_fired d).
Proof. intros. apply frame_s; reflexivity. Qed.

(* one operation: the clock and the timers' identities move exactly as `scan` says *)
Lemma exec_op_scan : forall tf f d pr o t acc,
  now (d_s d) = t -> map statics (timers (d_s d)) = map ti_statics acc ->
  let d' := fst (exec_op_gen tf f (d, pr) o) in
  match o with
  | OMk k dur => now (d_s d') = t /\ map statics (timers (d_s d')) = map ti_statics (acc ++ [mkTinfo k dur t None])
  | OAdv dt => now (d_s d') = t + dt /\ map statics (timers (d_s d')) = map ti_statics acc
  | _ => now (d_s d') = t /\ map statics (timers (d_s d')) = map ti_statics acc
  end.
Proof.
  intros tf f d pr o t acc NW ST d'. subst d'.
  assert (FR : forall d2, same_frame d d2 -> now (d_s d2) = t /\ map statics (timers (d_s d2)) = map ti_statics acc).
  { intros d2 (A & B). split; congruence. }
  destruct o; unfold exec_op_gen; cbn [fst].
  - split.
    + unfold dstep. simpl. unfold step. simpl. auto.
    + unfold dstep. simpl. unfold step. simpl. rewrite !map_app, ST. simpl. unfold statics, ti_statics. simpl.
      rewrite NW. reflexivity.
  - apply FR. apply (frame_dstep d (Abort i)). reflexivity.
  - apply FR. eapply frame_trans; [apply (frame_dstep d (TStop r)); reflexivity|apply frame_wake_tgt].
  - apply FR. eapply frame_trans; [apply (frame_dstep d TKill); reflexivity|apply frame_wake_tgt].
  - apply FR. eapply frame_trans; [apply (frame_dstep d TDrain); reflexivity|apply frame_wake_tgt].
  - apply FR. apply frame_settle.
  - destruct (FR _ (frame_settle tf f d)) as (A & B). unfold wake_fired, dstep. simpl. unfold step. simpl.
    split; [lia|auto].
  - apply FR. apply frame_settle.
  - apply FR. eapply frame_trans; [apply (frame_dstep d TgtStart); reflexivity|apply frame_wake_tgt].
  - apply FR. eapply frame_trans; [|apply frame_wake_tgt]. apply frame_s; reflexivity.
Qed.

Lemma scan_abort_statics : forall acc i ti t,
  nth_error acc i = Some ti ->
  map ti_statics (upd acc i (mkTinfo (ti_kind ti) (ti_dur ti) (ti_born ti) (Some t))) = map ti_statics acc.
Proof. intros. eapply map_upd_same; eauto. Qed.

Lemma exec_scan : forall tf f ops d pr t acc,
  now (d_s d) = t -> map statics (timers (d_s d)) = map ti_statics acc ->
  map statics (timers (d_s (fst (fold_left (exec_op_gen tf f) ops (d, pr))))) = map ti_statics (scan ops t acc).
Proof.
  induction ops as [|o ops IH]; intros d pr t acc NW ST; [simpl; auto|].
  cbn [fold_left]. pose proof (exec_op_scan tf f d pr o t acc NW ST) as H.
  destruct (exec_op_gen tf f (d, pr) o) as (d1, pr1) eqn:E. cbn [fst] in H.
  destruct o; cbn [scan]; try (destruct H as (H1 & H2); apply IH; auto; fail).
  destruct H as (H1 & H2). apply IH; auto.
  destruct (nth_error acc i) as [ti|] eqn:N; auto. destruct (ti_abort ti); auto.
  rewrite scan_abort_statics; auto.
Qed.

Lemma scan_settle : forall ops t acc, scan (ops ++ [OSettle]) t acc = scan ops t acc.
Proof. induction ops as [|o ops IH]; intros; simpl; auto. destruct o; auto. Qed.

Lemma count_nodup : forall (log : list (nat * N * N)) i k t,
  NoDup (log_pairs log) -> In (i, k, t) log -> count_log i k log = 1%nat.
Proof.
  induction log as [|[[j k'] t'] log IH]; simpl; intros i k t ND IN; [contradiction|].
  inversion ND; subst. unfold count_log in *. simpl.
  destruct IN as [E|IN].
  - inversion E; subst. rewrite Nat.eqb_refl, N.eqb_refl. simpl. f_equal.
    destruct (filter _ log) as [|[[a b] c] r] eqn:F; auto. exfalso.
    assert (X : In (a, b, c) (filter (fun e => let '(j0, k'0, _) := e in Nat.eqb i j0 && (k =? k'0)) log))
      by (rewrite F; left; auto).
    apply filter_In in X. destruct X as (X1 & X2). apply andb_prop in X2. destruct X2 as (X2 & X3).
    apply Nat.eqb_eq in X2. apply N.eqb_eq in X3. subst. apply H1.
    unfold log_pairs. apply in_map_iff. exists (a, b, c). auto.
  - destruct (Nat.eqb i j && (k =? k')) eqn:B.
    + exfalso. apply andb_prop in B. destruct B as (B1 & B2). apply Nat.eqb_eq in B1. apply N.eqb_eq in B2. subst.
      apply H1. unfold log_pairs. apply in_map_iff. exists (j, k', t). auto.
    + eapply IH; eauto.
Qed.

(* the safety clauses of the executable oracle accept every run of the model's driver *)
Theorem oracle_sound_safety : forall pk gt ops, check_C12_safety ops (observe pk gt ops) = true.
Proof.
  intros pk gt ops. unfold check_C12_safety, observe.
  pose proof (exec_is_run pk gt (ops ++ [OSettle])) as ER.
  assert (SC : map statics (timers (d_s (fst (exec pk gt (ops ++ [OSettle]))))) = map ti_statics (scan ops 0 [])).
  { unfold exec, exec_op. rewrite <- (scan_settle ops 0 []). generalize FUEL. intro f. apply exec_scan; auto. }
  destruct (exec pk gt (ops ++ [OSettle])) as (d, pr). cbn [fst] in *. cbn [o_log o_exit].
  set (s := d_s d) in *.
  destruct (Inv2_run (rev (d_ls d)) 0 pk) as ((TO & EO & ND & SCm) & OK). pose proof (born_ok_run (rev (d_ls d)) 0 pk) as BO.
  rewrite <- ER in *.
  assert (NDL : NoDup (log_pairs (g_log (tgt s)))).
  { destruct (ok_deliv _ OK) as (rest & D & _). rewrite <- D in ND. apply NoDup_app_l in ND. auto. }
  apply andb_true_intro. split.
  - apply forallb_forall. intros [[i k] t] IN. unfold check_entry_safe.
    destruct (ok_log _ OK _ _ _ IN) as (_ & tm & N & NI & MK & K1 & K2 & C).
    assert (NT : nth_error (map ti_statics (scan ops 0 [])) i = Some (statics tm)).
    { rewrite <- SC. rewrite nth_error_map, N. reflexivity. }
    rewrite nth_error_map in NT. destruct (nth_error (scan ops 0 []) i) as [ti|]; [|discriminate].
    simpl in NT. inversion NT as [[E1 E2 E3]]. rewrite E1, E2, E3.
    rewrite (count_nodup _ _ _ _ NDL IN). rewrite Nat.eqb_refl, andb_true_r.
    apply andb_true_intro. split.
    + destruct MK as [MK|MK]; rewrite MK.
      * destruct (after_sent _ _ (TO _ _ N) MK) as (S1 & _). apply N.eqb_eq. lia.
      * apply N.leb_le. auto.
    + apply N.leb_le. pose proof (le_ceil (k_t0 tm + k * k_dur tm)). destruct (BO _ _ N); lia.
  - apply forallb_forall. intros [[i k] t] IN. simpl.
    destruct (g_exit (tgt s)) as [[[r o] te]|] eqn:GE; auto.
    apply N.leb_le. eapply (ok_exit_log _ OK); eauto.
Qed.

(* ... and they are part of the oracle that judges the implementation *)
Theorem oracle_includes_safety : forall pk ops o, check_C12 pk ops o = true -> check_C12_safety ops o = true.
Proof.
  unfold check_C12, check_C12_safety. intros pk ops o H.
  repeat (apply andb_prop in H; destruct H as (H & ?)).
  apply andb_true_intro. split; auto.
  rewrite forallb_forall in *. intros e IN. specialize (H e IN).
  unfold check_entry in H. apply andb_prop in H. tauto.
Qed.

(* an abort that reaches a timer task before its first poll (the sleep / interval does not even
   exist yet) prevents everything, whatever the period -- zero included: the task ends as
   cancelled and no message, send failure, stop or kill of that timer ever exists *)
Theorem abort_before_first_poll : forall pk ls1 ls2 t0 i tm,
  let s1 := run ls1 (init t0 pk) in
  nth_error (timers s1) i = Some tm -> k_pc tm = PInit ->
  let s3 := run ls2 (step s1 (Abort i)) in
  effs_of i (effs s3) = []
  /\ (forall k t, ~ In (i, k, t) (g_log (tgt s3)))
  /\ exists tm', nth_error (timers s3) i = Some tm' /\ k_pc tm' = PAborted /\ k_sent tm' = 0.
Proof.
  intros pk ls1 ls2 t0 i tm s1 N P s3. subst s3.
  destruct (abort_prevents pk ls1 ls2 t0 i (nth_some_lt _ _ _ N)) as (NT & EF & AB). fold s1 in NT, EF, AB.
  destruct (Inv1_run ls1 t0 pk) as (_ & EO & _). fold s1 in EO.
  assert (E0 : effs_of i (effs s1) = []).
  { unfold effs_of. apply filter_none_eff. intros e IN.
    destruct (EO _ IN) as (_ & tm' & N' & NI & _).
    destruct (Nat.eqb_spec (e_tid e) i) as [E|]; auto. subst i. rewrite N in N'. inversion N'; subst. congruence. }
  destruct (AB tm N) as (tm' & N3 & P3); [rewrite P; reflexivity|].
  split; [congruence|].
  set (s3 := run ls2 (step s1 (Abort i))) in *.
  assert (R3 : s3 = run (ls1 ++ Abort i :: ls2) (init t0 pk)).
  { unfold s3, s1. rewrite run_app. reflexivity. }
  destruct (Inv2_run (ls1 ++ Abort i :: ls2) t0 pk) as ((TO3 & EO3 & _ & SC3) & OK3). rewrite <- R3 in *.
  assert (S0 : k_sent tm' = 0).
  { destruct (N.eq_dec (k_sent tm') 0) as [|NZ]; auto. exfalso.
    assert (IN : In (i, 1) (pairs (effs s3))) by (eapply SC3; eauto; lia).
    apply in_pairs in IN. destruct IN as (t & IN).
    assert (X : In (mkEff i (ESent 1) t) (effs_of i (effs s3))).
    { unfold effs_of. apply filter_In. split; auto. simpl. apply Nat.eqb_refl. }
    rewrite EF, E0 in X. contradiction. }
  split.
  - intros k t IN. destruct (ok_log _ OK3 _ _ _ IN) as (_ & tm2 & N2 & _ & _ & K1 & K2 & _).
    rewrite N3 in N2. inversion N2; subst. lia.
  - eauto.
Qed.

(* ================= soundness of the oracle's handle-result clauses ================= *)
Definition res_ok (tm : timer) : Prop :=
  match k_pc tm with
  | PDone r => match k_kind tm with KAfter => r <> RUnit | _ => r = RUnit end
  | _ => True
  end.

Lemma poll_tm_res_ok : forall t st tm, timer_ok t tm -> res_ok tm -> res_ok (poll_tm t st tm).
Proof.
  intros t st tm TK H. unfold poll_tm. unfold timer_ok in TK. destruct TK as (_ & TK).
  destruct (k_pc tm) eqn:P; auto.
  - unfold res_ok; simpl. destruct (k_kind tm); simpl; auto.
  - destruct (elapsed t D); auto. unfold res_ok; simpl. auto.
  - destruct TK as (K & _). unfold res_ok; simpl. destruct (is_active st); simpl; auto. rewrite K. auto.
  - destruct (elapsed t D); auto.
    destruct (k_kind tm) eqn:K; try destruct (accepts st); unfold res_ok; simpl; rewrite ?K; auto; congruence.
Qed.

Lemma res_ok_run : forall ls t pk i tm, nth_error (timers (run ls (init t pk))) i = Some tm -> res_ok tm.
Proof.
  induction ls using rev_ind; intros t pk i tm' N'.
  - destruct i; discriminate.
  - rewrite run_snoc in N'. destruct (Inv1_run ls t pk) as (TO & _).
    destruct (step_timer _ _ _ _ N') as [N|[(k & d & -> & -> & ->)|[(tm & -> & N & F & ->)|(tm & -> & N & ->)]]];
      eauto; try exact I.
    apply poll_tm_res_ok; eauto.
Qed.

(* the exit record is either unchanged or written with the current time *)
Lemma step_exit : forall s l,
  g_exit (tgt (step s l)) = g_exit (tgt s)
  \/ exists r o, g_exit (tgt (step s l)) = Some (r, o, now s).
Proof.
  intros s l.
  destruct (step_tgt s l) as
    [(i & tm & w & F & TG)|[(TG & NF)|[(-> & TG)|[(r & -> & TG)|[(-> & TG)|[(-> & TG)|[(-> & TG)|(-> & TG)]]]]]]]; rewrite TG; auto.
  - destruct w; simpl; auto.
    + destruct (tgt_stop_shape (RExitAfter (k_dur tm / ms)) (Some i) (tgt s)) as (_ & _ & _ & _ & E & _). auto.
    + destruct (tgt_kill_shape (Some i) (tgt s)) as (_ & _ & _ & _ & E & _). auto.
  - unfold tgt_poll. destruct (g_status (tgt s)); auto;
      destruct (g_kill (tgt s)); simpl; eauto; destruct (g_stop (tgt s)) as [[? ?]|]; simpl; eauto;
      destruct (g_mbox (tgt s)) as [|[? ?|] ?]; simpl; eauto.
  - destruct (tgt_stop_shape r None (tgt s)) as (_ & _ & _ & _ & E & _). auto.
  - destruct (tgt_kill_shape None (tgt s)) as (_ & _ & _ & _ & E & _). auto.
  - unfold tgt_drain. destruct (accepts _); auto.
  - unfold tgt_start. destruct (g_status (tgt s)); auto.
  - unfold tgt_post_stop. destruct (g_status (tgt s)); auto. destruct (g_stop (tgt s)) as [[? ?]|]; simpl; eauto.
Qed.

(* every accepted timer message was accepted before the target left the active states and
   before it exited *)
Definition sent_bounds (s : state) : Prop :=
  forall e k, In e (effs s) -> e_what e = ESent k ->
    (forall tl, g_left (tgt s) = Some tl -> e_time e <= tl)
    /\ (forall r o te, g_exit (tgt s) = Some (r, o, te) -> e_time e <= te).

Lemma sent_bounds_step : forall s l, Inv2 s -> sent_bounds s -> sent_bounds (step s l).
Proof.
  intros s l ((TO & EO & _) & OK) SB e k IN W.
  assert (OLD : In e (effs s) -> e_time e <= now s) by (intro X; apply (EO _ X)).
  assert (CASE : In e (effs s) \/ (exists i tm, fires s l i tm (ESent k) /\ e_time e = now s)).
  { destruct (step_effs s l) as [E|(i & tm & w & F & E)]; rewrite E in IN; auto.
    apply in_app_or in IN. destruct IN as [IN|[<-|[]]]; auto. simpl in W. subst w. right. eauto. }
  destruct CASE as [INO|(i & tm & (-> & N & PE) & T)].
  - destruct (SB _ _ INO W) as (SL & SE). split.
    + intros tl GL. destruct (step_left s l) as [EL|(_ & L1 & _)].
      * rewrite EL in GL. auto.
      * rewrite L1 in GL. inversion GL; subst. auto.
    + intros r o te GE. destruct (step_exit s l) as [EE|(r' & o' & EE)].
      * rewrite EE in GE. eauto.
      * rewrite EE in GE. inversion GE; subst. auto.
  - apply poll_eff_sent_accepts in PE.
    assert (LN : g_left (tgt s) = None).
    { destruct (ok_left _ OK) as ((_ & H2) & _). apply H2. pose proof (ok_started _ OK).
      unfold accepts, is_active in *. destruct (g_status (tgt s)); simpl in *; try discriminate; auto; congruence. }
    assert (EN : g_exit (tgt s) = None).
    { destruct (g_exit (tgt s)) eqn:GE; auto. exfalso.
      assert (X : g_exit (tgt s) <> None) by congruence. apply (ok_exit_st _ OK) in X. rewrite X in PE. discriminate. }
    rewrite T. split.
    + intros tl GL. destruct (step_left s (Poll i)) as [EL|(_ & L1 & _)].
      * rewrite EL, LN in GL. discriminate.
      * rewrite L1 in GL. inversion GL; subst. lia.
    + intros r o te GE. destruct (step_exit s (Poll i)) as [EE|(r' & o' & EE)].
      * rewrite EE, EN in GE. discriminate.
      * rewrite EE in GE. inversion GE; subst. lia.
Qed.

Lemma sent_bounds_run : forall ls t pk, sent_bounds (run ls (init t pk)).
Proof.
  induction ls using rev_ind; intros.
  - intros e k [].
  - rewrite run_snoc. apply sent_bounds_step; auto. apply Inv2_run.
Qed.

(* the numbers a timer has had accepted are 1, 2, ..., k_sent IN THIS ORDER *)
Definition ks_eff (i : nat) (es : list eff) : list N :=
  map snd (filter (fun p => Nat.eqb i (fst p)) (pairs es)).
Definition nseq (n : N) : list N := map N.of_nat (seq 1 (N.to_nat n)).

Lemma nseq_succ : forall n, nseq (n + 1) = nseq n ++ [n + 1].
Proof.
  intros. unfold nseq. replace (N.to_nat (n + 1)) with (S (N.to_nat n)) by lia.
  rewrite seq_S, map_app. simpl. f_equal. f_equal. lia.
Qed.

Definition seq_ok (s : state) : Prop :=
  forall i, ks_eff i (effs s) = match nth_error (timers s) i with Some tm => nseq (k_sent tm) | None => [] end.

Lemma timers_len_step : forall s l, (length (timers s) <= length (timers (step s l)))%nat.
Proof.
  intros. destruct l; unfold step; simpl; auto.
  - destruct (nth_error (timers s) i); auto. unfold poll_timer. destruct (poll_eff _ _ _); simpl; rewrite upd_length; auto.
  - destruct (nth_error (timers s) i); auto. destruct (finished _); simpl; rewrite ?upd_length; auto.
  - rewrite app_length. simpl. lia.
Qed.

Lemma seq_ok_step : forall s l, Inv1 s -> seq_ok s -> seq_ok (step s l).
Proof.
  intros s l (TO & EO & ND & SC) SQ i.
  destruct (step_effs s l) as [E|(i0 & tm0 & w & (-> & N0 & PE) & E)].
  - rewrite E, SQ.
    destruct (nth_error (timers (step s l)) i) as [tm'|] eqn:N'.
    + destruct (step_timer _ _ _ _ N') as [N|[(k & d & -> & -> & ->)|[(tm & -> & N & F & ->)|(tm & -> & N & ->)]]].
      * rewrite N. auto.
      * assert (X : nth_error (timers s) (length (timers s)) = None) by (apply nth_error_None; lia).
        rewrite X. reflexivity.
      * rewrite N. reflexivity.
      * rewrite N. f_equal.
        destruct (poll_eff (now s) (g_status (tgt s)) tm) eqn:PE.
        -- exfalso. unfold step in E. rewrite N in E. unfold poll_timer in E. rewrite PE in E. simpl in E.
           apply (f_equal (@length eff)) in E. rewrite app_length in E. simpl in E. lia.
        -- unfold poll_eff in PE. unfold poll_tm. destruct (k_pc tm); auto;
             try (destruct (elapsed (now s) D); auto; discriminate);
             try (destruct (is_active (g_status (tgt s))); auto).
    + destruct (nth_error (timers s) i) eqn:N; auto. exfalso.
      apply nth_some_lt in N. apply nth_error_None in N'. pose proof (timers_len_step s l). lia.
  - destruct (fire_eff_ok _ _ _ _ (TO _ _ N0) PE) as (NI & OK & SK & NK).
    rewrite E. unfold ks_eff. rewrite pairs_snoc. cbn [e_what e_tid].
    destruct (Nat.eq_dec i i0) as [->|NE].
    + rewrite (poll_nth _ _ _ N0). pose proof (SQ i0) as S0. rewrite N0 in S0. unfold ks_eff in S0.
      destruct w as [k| | |]; rewrite ?app_nil_r.
      * destruct (SK k eq_refl) as (-> & S1 & _). rewrite filter_app, map_app, S0. simpl.
        rewrite Nat.eqb_refl. simpl. rewrite S1, nseq_succ. reflexivity.
      * rewrite S0, NK by (intros; discriminate). reflexivity.
      * rewrite S0, NK by (intros; discriminate). reflexivity.
      * rewrite S0, NK by (intros; discriminate). reflexivity.
    + rewrite (poll_nth_neq s i0 i NE). rewrite <- (SQ i). unfold ks_eff.
      destruct w; rewrite ?app_nil_r; auto.
      rewrite filter_app, map_app. simpl. destruct (Nat.eqb_spec i i0); [congruence|]. simpl. rewrite app_nil_r. auto.
Qed.

Lemma seq_ok_run : forall ls t pk, seq_ok (run ls (init t pk)).
Proof.
  induction ls using rev_ind; intros.
  - intro i. destruct i; reflexivity.
  - rewrite run_snoc. apply seq_ok_step; auto. apply Inv1_run.
Qed.

Lemma ks_of_pairs : forall i log,
  ks_of i log = map snd (filter (fun p => Nat.eqb i (fst p)) (log_pairs log)).
Proof.
  induction log as [|[[j k] t] log IH]; simpl; auto. unfold ks_of in *. simpl.
  destruct (Nat.eqb i j); simpl; rewrite IH; auto.
Qed.

Lemma prefix_from : forall l r a m, l ++ r = map N.of_nat (seq a m) -> is_prefix_from (N.of_nat a) l = true.
Proof.
  induction l; simpl; intros; auto. destruct m; simpl in H; [discriminate|]. inversion H; subst.
  rewrite N.eqb_refl. simpl. replace (N.of_nat a0 + 1) with (N.of_nat (S a0)) by lia. eapply IHl; eauto.
Qed.

Lemma check_all_res_safe_map : forall log ex lf tis tms c0,
  map statics tms = map ti_statics tis ->
  (forall i tm ti, nth_error tms i = Some tm -> nth_error tis i = Some ti ->
     check_res_safe log ex lf (c0 + i) ti (hres_of tm) = true) ->
  check_all_res_safe log ex lf c0 tis (map hres_of tms) = true.
Proof.
  induction tis; destruct tms; simpl; intros; try discriminate; auto.
  inversion H. pose proof (H0 0%nat t a eq_refl eq_refl) as H1. rewrite Nat.add_0_r in H1. rewrite H1. simpl.
  apply IHtis; auto. intros i tm ti N1 N2. specialize (H0 (S i) tm ti N1 N2). rewrite Nat.add_succ_r in H0. auto.
Qed.

(* the handle-result clauses of the executable oracle accept every run of the model's driver *)
Theorem oracle_sound_results : forall pk gt ops, check_C12_results ops (observe pk gt ops) = true.
Proof.
  intros pk gt ops. unfold check_C12_results, observe.
  pose proof (exec_is_run pk gt (ops ++ [OSettle])) as ER.
  assert (SC : map statics (timers (d_s (fst (exec pk gt (ops ++ [OSettle]))))) = map ti_statics (scan ops 0 [])).
  { unfold exec, exec_op. rewrite <- (scan_settle ops 0 []). generalize FUEL. intro f. apply exec_scan; auto. }
  destruct (exec pk gt (ops ++ [OSettle])) as (d, pr). cbn [fst] in *. cbn [o_log o_exit o_left o_res].
  set (s := d_s d) in *. set (ls := rev (d_ls d)) in *.
  destruct (Inv2_run ls 0 pk) as ((TO & EO & ND & SCm) & OK).
  pose proof (born_ok_run ls 0 pk) as BO. pose proof (sent_bounds_run ls 0 pk) as SB.
  pose proof (seq_ok_run ls 0 pk) as SQ. pose proof (res_ok_run ls 0 pk) as RO.
  rewrite <- ER in *.
  apply check_all_res_safe_map; auto. intros i tm ti N NT. simpl (0 + i)%nat.
  assert (ST : ti_statics ti = statics tm).
  { assert (X : nth_error (map ti_statics (scan ops 0 [])) i = Some (ti_statics ti)) by (rewrite nth_error_map, NT; auto).
    rewrite <- SC, nth_error_map, N in X. simpl in X. inversion X. unfold ti_statics, statics. congruence. }
  inversion ST as [[E1 E2 E3]]. unfold check_res_safe. rewrite E1, E2, E3.
  (* prefix order *)
  assert (PF : is_prefix_from 1 (ks_of i (g_log (tgt s))) = true).
  { destruct (ok_deliv _ OK) as (rest & D & _). pose proof (SQ i) as S0. rewrite N in S0.
    unfold ks_eff in S0. rewrite <- D, !filter_app, !map_app in S0. rewrite <- ks_of_pairs in S0.
    eapply (prefix_from _ _ 1%nat). unfold nseq in S0. exact S0. }
  rewrite PF, andb_true_r.
  pose proof (RO _ _ N) as R0. unfold res_ok in R0. pose proof (TO _ _ N) as TK.
  unfold hres_of. destruct (k_pc tm) as [| | | |r|] eqn:P; simpl; auto;
    try (destruct (g_exit (tgt s)) as [[[? ?] ?]|]; destruct (g_left (tgt s)); destruct (k_kind tm); reflexivity).
  destruct (k_kind tm) eqn:K.
  - (* send_after *)
    destruct (after_sent _ _ TK K) as (S1 & S2).
    destruct r; try congruence; simpl.
    + assert (IN : In (i, 1) (pairs (effs s))) by (eapply SCm; eauto; try lia; apply S2 in P; lia).
      apply in_pairs in IN. destruct IN as (te & IN).
      destruct (EO _ IN) as (_ & tm' & N' & _ & EK). simpl in N'. rewrite N in N'. inversion N'; subst tm'.
      unfold eff_ok in EK; cbn [e_what e_time] in EK. destruct EK as (_ & _ & K2 & C).
      destruct (SB _ _ IN eq_refl) as (SL & SE). cbn [e_time] in SL, SE.
      pose proof (le_ceil (k_t0 tm + 1 * k_dur tm)).
      assert (B0 : k_born tm <= k_t0 tm) by (destruct (BO _ _ N); lia).
      assert (LE1 : forall x, te <= x -> k_born tm + k_dur tm <=? x = true) by (intros; apply N.leb_le; lia).
      destruct (g_exit (tgt s)) as [[[r1 o1] te1]|] eqn:GE; destruct (g_left (tgt s)) as [tl|] eqn:GL; simpl;
        rewrite ?(LE1 _ (SE _ _ _ eq_refl)), ?(LE1 _ (SL _ eq_refl)); auto.
    + (* Err: nothing of this timer was ever handled *)
      assert (S0 : k_sent tm = 0).
      { destruct (N.eq_dec (k_sent tm) 1) as [X|X]; [apply S2 in X; congruence|lia]. }
      assert (NOE : ks_of i (g_log (tgt s)) = []).
      { unfold ks_of. rewrite filter_none_eff; auto. intros [[j k] t] IN. simpl.
        destruct (Nat.eqb_spec i j); auto. subst j.
        destruct (ok_log _ OK _ _ _ IN) as (_ & tm' & N' & _ & _ & K1 & K2 & _).
        rewrite N in N'. inversion N'; subst. lia. }
      rewrite NOE. simpl.
      destruct (g_exit (tgt s)) as [[[? ?] ?]|]; destruct (g_left (tgt s)); reflexivity.
  - subst r. simpl. destruct (g_exit (tgt s)) as [[[? ?] ?]|]; destruct (g_left (tgt s)); reflexivity.
  - subst r. simpl. destruct (g_exit (tgt s)) as [[[? ?] ?]|]; destruct (g_left (tgt s)); reflexivity.
  - subst r. simpl. destruct (g_exit (tgt s)) as [[[? ?] ?]|]; destruct (g_left (tgt s)); reflexivity.
Qed.

Lemma check_all_res_imp : forall log ex lf tis rs i,
  check_all_res log ex lf i tis rs = true -> check_all_res_safe log ex lf i tis rs = true.
Proof.
  induction tis; destruct rs; simpl; intros; auto. apply andb_prop in H. destruct H as (H1 & H2).
  rewrite (IHtis _ _ H2), andb_true_r. unfold check_res in H1. unfold check_res_safe.
  repeat (apply andb_prop in H1; destruct H1 as (H1 & ?)).
  repeat (apply andb_true_intro; split); auto. destruct h; auto.
Qed.

Theorem oracle_includes_results : forall pk ops o, check_C12 pk ops o = true -> check_C12_results ops o = true.
Proof.
  unfold check_C12, check_C12_results. intros pk ops o H.
  repeat (apply andb_prop in H; destruct H as (H & ?)).
  eapply check_all_res_imp; eauto.
Qed.
