(* Model of ractor/src/time.rs (send_after, send_interval, exit_after, kill_after)
   on a virtual clock.  Definitions only; proofs are in Timer/Proofs.v.

   Time is `now : N` in nanoseconds since the runtime's clock base.  tokio's timer
   contract is the *model* of sleep/interval (trusted, calibrated by the harness):
     - a sleep with deadline D is complete at a poll iff  ceil_ms D <= floor_ms now
       (deadlines are rounded UP to the next millisecond of the timer wheel, the
       current time is rounded DOWN: tokio/src/runtime/time/source.rs);
     - `interval(p)` created at t0 ticks with deadlines t0, t0+p, t0+2p, ...
       (MissedTickBehavior::Burst: the next deadline is the previous deadline + p,
       never recomputed from the current time).
   A timer task is a small pc machine; one `Poll i` label is one micro-step of
   task i (a real tokio poll is a sequence of micro-steps), so the theorems, which
   quantify over all label sequences, cover every real schedule.
   The target actor is abstracted by its lifecycle status, its message queue,
   its stop / kill ports and what it has handled so far. *)
From Coq Require Import List NArith Bool.
Import ListNotations.
Local Open Scope N_scope.

(* ---------- time ---------- *)
Definition ms : N := 1000000.
Definition ceil_ms (t : N) : N := ((t + (ms - 1)) / ms) * ms.
Definition floor_ms (t : N) : N := (t / ms) * ms.
Definition elapsed (now D : N) : bool := ceil_ms D <=? floor_ms now.

(* ---------- target actor ---------- *)
Inductive status := Unstarted | Starting | Running | Upgrading | Draining | Stopping | Stopped.
Definition rank (st : status) : N :=
  match st with
  | Unstarted => 0 | Starting => 1 | Running => 2 | Upgrading => 3
  | Draining => 4 | Stopping => 5 | Stopped => 6
  end.
(* ACTIVE_STATES = [Starting, Running, Upgrading] (actor_cell.rs) *)
Definition is_active (st : status) : bool := (1 <=? rank st) && (rank st <=? 3).
(* send_message_unchecked: refused once status >= Draining (actor_properties.rs) *)
Definition accepts (st : status) : bool := rank st <? 4.

(* ROther: any other string / a failure (never produced by the model; lets the oracle judge
   whatever the implementation reports) *)
Inductive reason := RNone | RUser (n : N) | RExitAfter (millis : N) | RKilled | RDrained | ROther.
Inductive mmsg := MTick (tid : nat) (k : N) | MDrainMark.

Record target := mkTgt {
  g_status : status;
  g_mbox : list mmsg;                          (* message port, FIFO *)
  g_stop : option (reason * option nat);       (* stop port (oneshot): first stop wins; origin timer *)
  g_kill : option (option nat);                (* signal port (oneshot); origin timer *)
  g_log : list (nat * N * N);                  (* handled timer messages (tid, k, time) *)
  g_exit : option (reason * option nat * N);   (* exit reason, origin timer, time *)
  g_left : option N                            (* ghost: time at which it left the active states *)
}.

Definition tgt0 : target := mkTgt Running [] None None [] None None.
(* an instant-spawned target still inside pre_start: status Starting (active, accepts), its loop
   does not run until pre_start returns *)
Definition tgtS : target := mkTgt Starting [] None None [] None None.

(* pre_start / post_start are over: the loop starts (set_status is a fetch_max) *)
Definition tgt_start (g : target) : target :=
  match g_status g with
  | Starting => mkTgt Running (g_mbox g) (g_stop g) (g_kill g) (g_log g) (g_exit g) (g_left g)
  | _ => g
  end.

Definition note_left (now : N) (g : target) : option N :=
  match g_left g with Some t => Some t | None => if is_active (g_status g) then Some now else None end.

Definition tgt_stop (r : reason) (o : option nat) (g : target) : target :=
  match g_status g, g_stop g with
  | Stopped, _ => g
  | _, Some _ => g
  | _, None => mkTgt (g_status g) (g_mbox g) (Some (r, o)) (g_kill g) (g_log g) (g_exit g) (g_left g)
  end.

Definition tgt_kill (o : option nat) (g : target) : target :=
  match g_status g, g_kill g with
  | Stopped, _ => g
  | _, Some _ => g
  | _, None => mkTgt (g_status g) (g_mbox g) (g_stop g) (Some o) (g_log g) (g_exit g) (g_left g)
  end.

(* ActorProperties::drain: close admission, status -> Draining unless >= Stopping,
   drain marker queued once *)
Definition tgt_drain (now : N) (g : target) : target :=
  if accepts (g_status g)
  then mkTgt Draining (g_mbox g ++ [MDrainMark]) (g_stop g) (g_kill g) (g_log g) (g_exit g) (note_left now g)
  else g.

Definition tgt_exit (now : N) (r : reason) (o : option nat) (g : target) : target :=
  mkTgt Stopped [] None None (g_log g) (Some (r, o, now)) (note_left now g).

(* leaving the loop gracefully (stop, end of drain): status Stopping, post_stop starts.  The
   ports stay open -- queued messages are only dropped when the actor finishes -- and the
   reason is kept in the stop slot until then *)
Definition tgt_stopping (now : N) (r : reason) (o : option nat) (g : target) : target :=
  mkTgt Stopping (g_mbox g) (Some (r, o)) (g_kill g) (g_log g) (g_exit g) (note_left now g).

(* one iteration of the actor loop: signal > stop > message (listen_in_priority); a kill ends
   the actor at once (no post_stop), also while post_stop is running *)
Definition tgt_poll (now : N) (g : target) : target :=
  match g_status g with
  | Stopped => g
  | Starting => g          (* parked in pre_start: the loop is not running yet *)
  | Stopping => match g_kill g with Some o => tgt_exit now RKilled o g | None => g end
  | _ =>
    match g_kill g with
    | Some o => tgt_exit now RKilled o g
    | None =>
      match g_stop g with
      | Some (r, o) => tgt_stopping now r o g
      | None =>
        match g_mbox g with
        | MDrainMark :: _ => tgt_stopping now RDrained None g
        | MTick i k :: rest =>
            mkTgt (g_status g) rest (g_stop g) (g_kill g) (g_log g ++ [(i, k, now)]) (g_exit g) (g_left g)
        | [] => g
        end
      end
    end
  end.

(* post_stop returns: the actor finishes (Stopped, supervisor told the reason, ports dropped) *)
Definition tgt_post_stop (now : N) (g : target) : target :=
  match g_status g, g_stop g with
  | Stopping, Some (r, o) => tgt_exit now r o g
  | _, _ => g
  end.

Definition tgt_enabled (g : target) : bool :=
  match g_status g with
  | Stopped => false
  | Starting => false
  | Stopping => match g_kill g with Some _ => true | None => false end
  | _ => match g_kill g, g_stop g, g_mbox g with
         | None, None, [] => false
         | _, _, _ => true
         end
  end.

Definition tgt_enqueue (m : mmsg) (g : target) : target :=
  mkTgt (g_status g) (g_mbox g ++ [m]) (g_stop g) (g_kill g) (g_log g) (g_exit g) (g_left g).

(* ---------- timer tasks ---------- *)
Inductive kind := KAfter | KInterval | KExit | KKill.
Inductive result := ROk | RErr | RUnit.
Inductive pc :=
| PInit                (* spawned, never polled: the sleep / interval does not exist yet *)
| PFirst (D : N)       (* interval: awaiting the immediate first tick (deadline D = t0) *)
| PCheck (D : N)       (* interval: about to test ACTIVE_STATES; next tick deadline D *)
| PWait (D : N)        (* awaiting sleep / tick with deadline D *)
| PDone (r : result)   (* task returned *)
| PAborted.            (* JoinHandle::abort took effect *)

Record timer := mkTimer {
  k_kind : kind;
  k_dur : N;       (* period in ns *)
  k_born : N;      (* time of the send_after / send_interval / ... call *)
  k_t0 : N;        (* time of the first poll (creation of the sleep / interval) *)
  k_pc : pc;
  k_sent : N       (* messages accepted by the target so far *)
}.

Inductive ewhat := ESent (k : N) | ESendFail | EStop | EKill.
Record eff := mkEff { e_tid : nat; e_what : ewhat; e_time : N }.

Record state := mkState {
  now : N;
  tgt : target;
  timers : list timer;
  effs : list eff        (* ghost: every effect a timer task had on its target, in order *)
}.

Definition init (t : N) (parked : bool) : state := mkState t (if parked then tgtS else tgt0) [] [].

Inductive label :=
| Advance (dt : N)         (* the clock moves (and the time driver takes its turn) *)
| Poll (i : nat)           (* one micro-step of timer task i *)
| Abort (i : nat)          (* JoinHandle::abort on timer i *)
| TgtPoll                  (* one iteration of the target's loop *)
| TgtStart                 (* the target's pre_start / post_start return: Starting -> Running *)
| TgtPostStop              (* the target's post_stop returns: Stopping -> Stopped *)
| TStop (r : reason)       (* somebody calls target.stop(r) *)
| TKill                    (* somebody calls target.kill() *)
| TDrain                   (* somebody calls target.drain() *)
| Mk (k : kind) (dur : N). (* send_after / send_interval / exit_after / kill_after *)

Fixpoint upd {A} (l : list A) (i : nat) (x : A) : list A :=
  match l, i with
  | [], _ => []
  | _ :: t, O => x :: t
  | h :: t, S j => h :: upd t j x
  end.

Definition set_pc (tm : timer) (p : pc) : timer :=
  mkTimer (k_kind tm) (k_dur tm) (k_born tm) (k_t0 tm) p (k_sent tm).

(* One micro-step of a timer task, split into its three components: the task's own next
   record, the effect (if any) it has on the target, and that effect applied to the target. *)
Definition poll_tm (t : N) (st : status) (tm : timer) : timer :=
  match k_pc tm with
  | PInit =>
      mkTimer (k_kind tm) (k_dur tm) (k_born tm) t
              (match k_kind tm with KInterval => PFirst t | _ => PWait (t + k_dur tm) end) (k_sent tm)
  | PFirst D => if elapsed t D then set_pc tm (PCheck (D + k_dur tm)) else tm
  | PCheck D => set_pc tm (if is_active st then PWait D else PDone RUnit)
  | PWait D =>
      if elapsed t D then
        match k_kind tm with
        | KAfter =>
            if accepts st
            then mkTimer (k_kind tm) (k_dur tm) (k_born tm) (k_t0 tm) (PDone ROk) (k_sent tm + 1)
            else set_pc tm (PDone RErr)
        | KInterval =>
            if accepts st
            then mkTimer (k_kind tm) (k_dur tm) (k_born tm) (k_t0 tm) (PCheck (D + k_dur tm)) (k_sent tm + 1)
            else set_pc tm (PDone RUnit)
        | KExit => set_pc tm (PDone RUnit)
        | KKill => set_pc tm (PDone RUnit)
        end
      else tm
  | PDone _ => tm
  | PAborted => tm
  end.

Definition poll_eff (t : N) (st : status) (tm : timer) : option ewhat :=
  match k_pc tm with
  | PWait D =>
      if elapsed t D then
        Some (match k_kind tm with
              | KAfter => if accepts st then ESent (k_sent tm + 1) else ESendFail
              | KInterval => if accepts st then ESent (k_sent tm + 1) else ESendFail
              | KExit => EStop
              | KKill => EKill
              end)
      else None
  | _ => None
  end.

Definition apply_eff (i : nat) (tm : timer) (w : ewhat) (g : target) : target :=
  match w with
  | ESent k => tgt_enqueue (MTick i k) g
  | ESendFail => g
  | EStop => tgt_stop (RExitAfter (k_dur tm / ms)) (Some i) g   (* "Exit after {ms}ms", Duration::as_millis *)
  | EKill => tgt_kill (Some i) g
  end.

Definition poll_timer (s : state) (i : nat) (tm : timer) : state :=
  let st := g_status (tgt s) in
  match poll_eff (now s) st tm with
  | Some w => mkState (now s) (apply_eff i tm w (tgt s)) (upd (timers s) i (poll_tm (now s) st tm))
                      (effs s ++ [mkEff i w (now s)])
  | None => mkState (now s) (tgt s) (upd (timers s) i (poll_tm (now s) st tm)) (effs s)
  end.

Definition finished (p : pc) : bool :=
  match p with PDone _ => true | PAborted => true | _ => false end.

Definition step (s : state) (l : label) : state :=
  match l with
  | Advance dt => mkState (now s + dt) (tgt s) (timers s) (effs s)
  | Poll i => match nth_error (timers s) i with Some tm => poll_timer s i tm | None => s end
  | Abort i =>
      match nth_error (timers s) i with
      | Some tm => if finished (k_pc tm) then s
                   else mkState (now s) (tgt s) (upd (timers s) i (set_pc tm PAborted)) (effs s)
      | None => s
      end
  | TgtPoll => mkState (now s) (tgt_poll (now s) (tgt s)) (timers s) (effs s)
  | TgtStart => mkState (now s) (tgt_start (tgt s)) (timers s) (effs s)
  | TgtPostStop => mkState (now s) (tgt_post_stop (now s) (tgt s)) (timers s) (effs s)
  | TStop r => mkState (now s) (tgt_stop r None (tgt s)) (timers s) (effs s)
  | TKill => mkState (now s) (tgt_kill None (tgt s)) (timers s) (effs s)
  | TDrain => mkState (now s) (tgt_drain (now s) (tgt s)) (timers s) (effs s)
  | Mk k d => mkState (now s) (tgt s) (timers s ++ [mkTimer k d (now s) 0 PInit 0]) (effs s)
  end.

Definition run (ls : list label) (s : state) : state := fold_left step ls s.

(* task i can make progress when polled *)
Definition timer_enabled (now : N) (tm : timer) : bool :=
  match k_pc tm with
  | PInit => true
  | PFirst D => elapsed now D
  | PCheck _ => true
  | PWait D => elapsed now D
  | PDone _ => false
  | PAborted => false
  end.

Definition enabled (s : state) (i : nat) : bool :=
  match nth_error (timers s) i with Some tm => timer_enabled (now s) tm | None => false end.

(* ---------- prompt schedules: the clock never jumps over a pending deadline and never
   moves while a freshly spawned timer task has not had its first poll.  This is what a
   runtime that is not overloaded (and tokio's paused clock with auto-advance) provides. *)
Definition pending_ok (t : N) (tm : timer) : bool :=
  match k_pc tm with
  | PInit => false
  | PFirst D => t <=? ceil_ms D
  | PWait D => t <=? ceil_ms D
  | PCheck _ => false
  | _ => true
  end.

Fixpoint prompt (ls : list label) (s : state) : Prop :=
  match ls with
  | [] => True
  | l :: ls' =>
      match l with
      | Advance dt => dt = 0 \/ forallb (pending_ok (now s + dt)) (timers s) = true
      | _ => True
      end /\ prompt ls' (step s l)
  end.

(* ---------- the deterministic driver used by the correspondence check ----------
   Harness operations; a scenario is a list of them.  `OAdv dt` and `OProbe` settle first.
   Settling runs a FIFO run queue (tokio current_thread): tasks woken by the time driver,
   then tasks woken / spawned by the driver's operations in order; a timer task that
   reaches the target wakes the actor task behind the tasks already queued. *)
Inductive op :=
| OMk (k : kind) (dur : N)
| OAbort (i : nat)
| OStop (r : reason)
| OKill
| ODrain
| OSettle
| OAdv (dt : N)
| OProbe
| OOpen                   (* release the gate in the target's pre_start *)
| OPOpen.                 (* release the gate in the target's post_stop *)

Inductive task := TT (i : nat) | TA.
Definition task_eqb (a b : task) : bool :=
  match a, b with TT i, TT j => Nat.eqb i j | TA, TA => true | _, _ => false end.
Definition in_q (x : task) (q : list task) : bool := existsb (task_eqb x) q.
Definition push (x : task) (q : list task) : list task := if in_q x q then q else q ++ [x].

(* driver state: model state, run queue, labels executed so far (reversed) *)
(* d_pg: the gate in the target's post_stop is open (post_stop returns as soon as it runs) *)
Record drv := mkDrv { d_s : state; d_q : list task; d_ls : list label; d_pg : bool }.

Definition dstep (d : drv) (l : label) : drv := mkDrv (step (d_s d) l) (d_q d) (l :: d_ls d) (d_pg d).

Fixpoint run_timer (fuel : nat) (i : nat) (d : drv) : drv :=
  match fuel with
  | O => d
  | S f => if enabled (d_s d) i then run_timer f i (dstep d (Poll i)) else d
  end.

(* what the target's task does next, if anything *)
Definition tgt_next (d : drv) : option label :=
  let g := tgt (d_s d) in
  if tgt_enabled g then Some TgtPoll
  else match g_status g with
       | Stopping => if d_pg d then Some TgtPostStop else None
       | _ => None
       end.

Fixpoint run_tgt (fuel : nat) (d : drv) : drv :=
  match fuel with
  | O => d
  | S f => match tgt_next d with Some l => run_tgt f (dstep d l) | None => d end
  end.

Definition wake_tgt (d : drv) : drv :=
  match tgt_next d with Some _ => mkDrv (d_s d) (push TA (d_q d)) (d_ls d) (d_pg d) | None => d end.

Definition FUEL : nat := 400.

Fixpoint settle (tf : nat) (fuel : nat) (d : drv) : drv :=
  match fuel with
  | O => d
  | S f =>
      match d_q d with
      | [] => d
      | TT i :: q => settle tf f (wake_tgt (run_timer tf i (mkDrv (d_s d) q (d_ls d) (d_pg d))))
      | TA :: q => settle tf f (run_tgt tf (mkDrv (d_s d) q (d_ls d) (d_pg d)))
      end
  end.

(* the time driver fires the elapsed sleeps in deadline order (timer wheel), equal wheel
   deadlines in creation order; their tasks are queued in that order *)
Definition due_key (tm : timer) : N :=
  match k_pc tm with PFirst D => ceil_ms D | PWait D => ceil_ms D | _ => 0 end.

Fixpoint insert_by (x : nat * N) (l : list (nat * N)) : list (nat * N) :=
  match l with
  | [] => [x]
  | y :: r => if snd x <=? snd y then x :: l else y :: insert_by x r
  end.

Fixpoint fired_list (t : N) (i : nat) (tms : list timer) : list (nat * N) :=
  match tms with
  | [] => []
  | tm :: r => if timer_enabled t tm then insert_by (i, due_key tm) (fired_list t (S i) r)
               else fired_list t (S i) r
  end.

Definition wake_fired (d : drv) : drv :=
  mkDrv (d_s d)
        (fold_left (fun q x => push (TT (fst x)) q) (fired_list (now (d_s d)) 0 (timers (d_s d))) (d_q d))
        (d_ls d) (d_pg d).

(* one probe: (time, target stopped?, is_finished of every handle) *)
Definition probe_of (s : state) : N * bool * list bool :=
  (now s, match g_status (tgt s) with Stopped => true | _ => false end,
   map (fun tm => finished (k_pc tm)) (timers s)).

Definition exec_op_gen (tf f : nat) (dp : drv * list (N * bool * list bool)) (o : op)
  : drv * list (N * bool * list bool) :=
  let (d, pr) := dp in
  match o with
  | OMk k dur =>
      let d' := dstep d (Mk k dur) in
      (mkDrv (d_s d') (push (TT (length (timers (d_s d)))) (d_q d')) (d_ls d') (d_pg d'), pr)
  | OAbort i => (dstep d (Abort i), pr)
  | OStop r => (wake_tgt (dstep d (TStop r)), pr)
  | OKill => (wake_tgt (dstep d TKill), pr)
  | ODrain => (wake_tgt (dstep d TDrain), pr)
  | OSettle => (settle tf f d, pr)
  | OAdv dt =>
      let d1 := dstep (settle tf f d) (Advance dt) in
      (wake_fired d1, pr)
  | OProbe => let d1 := settle tf f d in (d1, pr ++ [probe_of (d_s d1)])
  | OOpen => (wake_tgt (dstep d TgtStart), pr)
  | OPOpen => (wake_tgt (mkDrv (d_s d) (d_q d) (d_ls d) true), pr)
  end.

Definition exec_op := exec_op_gen FUEL FUEL.

Definition exec (parked gated : bool) (ops : list op) : drv * list (N * bool * list bool) :=
  fold_left exec_op ops (mkDrv (init 0 parked) [] [] (negb gated), []).

(* ---------- observations (printed in the same syntax by the Rust harness) ---------- *)
Inductive hres := HOk | HErr | HUnit | HCancelled | HPending | HPanic.
Definition hres_of (tm : timer) : hres :=
  match k_pc tm with
  | PDone ROk => HOk | PDone RErr => HErr | PDone RUnit => HUnit
  | PAborted => HCancelled
  | _ => HPending
  end.

Record obs := mkObs {
  o_log : list (nat * N * N);                 (* handled timer messages (tid, k, virtual ns) *)
  o_res : list hres;                          (* JoinHandle outputs at the end *)
  o_exit : option (reason * N);               (* target's exit reason and time *)
  o_probes : list (N * bool * list bool);
  o_left : option N                           (* when the target left the active states *)
}.

Definition observe (parked gated : bool) (ops : list op) : obs :=
  let (d, pr) := exec parked gated (ops ++ [OSettle]) in
  let s := d_s d in
  mkObs (g_log (tgt s)) (map hres_of (timers s))
        (match g_exit (tgt s) with Some (r, _, t) => Some (r, t) | None => None end) pr (g_left (tgt s)).

(* ---------- the property as an executable oracle over a scenario and what was observed
   (used on the IMPLEMENTATION's observations; it only uses the scenario's own arithmetic,
   never the step function above) ---------- *)
Record tinfo := mkTinfo {
  ti_kind : kind; ti_dur : N; ti_born : N;
  ti_abort : option N          (* time of the first abort of the handle *)
}.

(* scenario clock and per-timer facts *)
Fixpoint scan (ops : list op) (t : N) (acc : list tinfo) : list tinfo :=
  match ops with
  | [] => acc
  | OMk k d :: r => scan r t (acc ++ [mkTinfo k d t None])
  | OAbort i :: r =>
      scan r t (match nth_error acc i with
                | Some ti => match ti_abort ti with
                             | None => upd acc i (mkTinfo (ti_kind ti) (ti_dur ti) (ti_born ti) (Some t))
                             | Some _ => acc end
                | None => acc end)
  | OAdv dt :: r => scan r (t + dt) acc
  | _ :: r => scan r t acc
  end.

Definition kind_eqb (a b : kind) : bool :=
  match a, b with
  | KAfter, KAfter | KInterval, KInterval | KExit, KExit | KKill, KKill => true
  | _, _ => false
  end.

Definition reason_eqb (a b : reason) : bool :=
  match a, b with
  | RNone, RNone | RKilled, RKilled | RDrained, RDrained => true
  | RUser x, RUser y => x =? y
  | RExitAfter x, RExitAfter y => x =? y
  | _, _ => false
  end.

Definition count_log (i : nat) (k : N) (log : list (nat * N * N)) : nat :=
  length (filter (fun e => match e with (j, k', _) => Nat.eqb i j && (k =? k') end) log).

Definition ks_of (i : nat) (log : list (nat * N * N)) : list N :=
  map (fun e => snd (fst e)) (filter (fun e => Nat.eqb i (fst (fst e))) log).

Fixpoint is_prefix_from (k : N) (l : list N) : bool :=
  match l with
  | [] => true
  | x :: r => (x =? k) && is_prefix_from (k + 1) r
  end.

(* the instants at which the scenario lets the runtime run: start and after every advance *)
Fixpoint time_points (ops : list op) (t : N) : list N :=
  match ops with
  | [] => [t]
  | OAdv dt :: r => t :: time_points r (t + dt)
  | _ :: r => time_points r t
  end.

Fixpoint first_ge (pts : list N) (x : N) : option N :=
  match pts with
  | [] => None
  | p :: r => if x <=? p then Some p else first_ge r x
  end.

(* a log entry: from a message timer, never early, not later than the first instant at which
   the runtime got to run at or after the k-th wheel deadline (k periods after creation: no
   drift), never after an abort took place strictly earlier, at most once *)
(* time at which the target's pre_start gate is opened *)
Fixpoint open_time (ops : list op) (t : N) : option N :=
  match ops with
  | [] => None
  | OOpen :: _ => Some t
  | OAdv dt :: r => open_time r (t + dt)
  | _ :: r => open_time r t
  end.

(* a target parked in pre_start handles what it was sent when it starts: such an entry may be
   later than its deadline / an abort, but then it carries exactly the opening time *)
Definition at_open (topen : option N) (t : N) : bool :=
  match topen with Some o => t =? o | None => false end.

(* SAFETY clauses of a log entry (proved to hold of every model run: C12_oracle_sound_safety):
   it comes from a message timer that exists, with a legal number, never before creation +
   k periods, and it is in the log exactly once *)
Definition check_entry_safe (tis : list tinfo) (log : list (nat * N * N)) (e : nat * N * N) : bool :=
  match e with
  | (i, k, t) =>
      match nth_error tis i with
      | None => false
      | Some ti =>
          (match ti_kind ti with
           | KAfter => k =? 1
           | KInterval => 1 <=? k
           | _ => false
           end)
          && (ti_born ti + k * ti_dur ti <=? t)
          && Nat.eqb (count_log i k log) 1
      end
  end.

(* the remaining clauses of a log entry (checked by evaluation on every scenario only): not
   later than the first instant at which the runtime got to run at or after the k-th wheel
   deadline (no drift), never after an abort that took place strictly earlier *)
Definition check_entry_rest (topen : option N) (pts : list N) (tis : list tinfo) (e : nat * N * N) : bool :=
  match e with
  | (i, k, t) =>
      match nth_error tis i with
      | None => false
      | Some ti =>
          (match first_ge pts (ceil_ms (ti_born ti + k * ti_dur ti)) with
           | Some p => (t <=? p) || at_open topen t
           | None => false
           end)
          && (match ti_abort ti with Some ta => (t <=? ta) || at_open topen t | None => true end)
      end
  end.

Definition check_entry (topen : option N) (pts : list N) (tis : list tinfo) (log : list (nat * N * N)) (e : nat * N * N) : bool :=
  check_entry_safe tis log e && check_entry_rest topen pts tis e.

Definition check_C12_safety (ops : list op) (o : obs) : bool :=
  forallb (check_entry_safe (scan ops 0 []) (o_log o)) (o_log o)
  && forallb (fun e => match o_exit o with Some (_, te) => snd e <=? te | None => true end) (o_log o).

Definition ops_have (f : op -> bool) (ops : list op) : bool := existsb f ops.

(* the exit reason must be explained by an operation or by a timer that was due *)
(* operations during which the runtime lets other tasks run *)
Definition yields (o : op) : bool :=
  match o with OSettle => true | OAdv _ => true | OProbe => true | _ => false end.

Fixpoint aborted_unpolled_from (ops : list op) (i : nat) : bool :=
  match ops with
  | [] => false
  | OAbort j :: r => if Nat.eqb i j then true else aborted_unpolled_from r i
  | o :: r => if yields o then false else aborted_unpolled_from r i
  end.

(* timer i's handle was aborted before the runtime ran anything after its creation: its task
   cannot have been polled even once, so the timer has not fired and must never fire *)
Fixpoint fresh_aborted (ops : list op) (n : nat) (i : nat) : bool :=
  match ops with
  | [] => false
  | OMk _ _ :: r => if Nat.eqb n i then aborted_unpolled_from r i else fresh_aborted r (S n) i
  | _ :: r => fresh_aborted r n i
  end.

Definition check_exit (ops : list op) (tis : list tinfo) (ex : option (reason * N)) : bool :=
  match ex with
  | None => true
  | Some (r, te) =>
      match r with
      | RExitAfter m =>
          ops_have (fun o => match o with OStop r'' => reason_eqb r r'' | _ => false end) ops
          || existsb (fun x => match x with (i, ti) =>
                             kind_eqb (ti_kind ti) KExit && (ti_dur ti / ms =? m)
                             && (ti_born ti + ti_dur ti <=? te)
                             && (match ti_abort ti with Some ta => ti_born ti + ti_dur ti <=? ta | None => true end)
                             && negb (fresh_aborted ops 0 i) end) (combine (seq 0 (length tis)) tis)
      | RKilled =>
          ops_have (fun o => match o with OKill => true | _ => false end) ops
          || existsb (fun x => match x with (i, ti) =>
                                kind_eqb (ti_kind ti) KKill && (ti_born ti + ti_dur ti <=? te)
                                && (match ti_abort ti with Some ta => ti_born ti + ti_dur ti <=? ta | None => true end)
                                && negb (fresh_aborted ops 0 i) end) (combine (seq 0 (length tis)) tis)
      | RDrained => ops_have (fun o => match o with ODrain => true | _ => false end) ops
      | ROther => false
      | r' => ops_have (fun o => match o with OStop r'' => reason_eqb r' r'' | _ => false end) ops
      end
  end.

(* handle results: Err / Ok only from send_after; Err means nothing was handled;
   a target that exited strictly before the period elapsed yields Err (unless aborted);
   nothing is handled after the exit *)
Definition check_res (log : list (nat * N * N)) (ex : option (reason * N)) (lf : option N) (i : nat) (ti : tinfo) (r : hres) : bool :=
  (match r with
   | HOk => kind_eqb (ti_kind ti) KAfter
   | HErr => kind_eqb (ti_kind ti) KAfter && Nat.eqb (length (ks_of i log)) 0
   | HUnit => negb (kind_eqb (ti_kind ti) KAfter)
   | HCancelled => match ti_abort ti with Some _ => true | None => false end
   | HPending => true
   | HPanic => false
   end)
  && (match ex, ti_kind ti, r with
      | Some (_, te), KAfter, HOk => ti_born ti + ti_dur ti <=? te
      | _, _, _ => true
      end)
  (* a target that has left the running states (Draining, Stopping with post_stop still running,
     Stopped) accepts nothing: send_after can only report Ok if its period had elapsed by then *)
  && (match lf, ti_kind ti, r with
      | Some tl, KAfter, HOk => ti_born ti + ti_dur ti <=? tl
      | _, _, _ => true
      end)
  && is_prefix_from 1 (ks_of i log).

Fixpoint check_all_res (log : list (nat * N * N)) (ex : option (reason * N)) (lf : option N) (i : nat)
         (tis : list tinfo) (rs : list hres) : bool :=
  match tis, rs with
  | [], [] => true
  | ti :: tis', r :: rs' => check_res log ex lf i ti r && check_all_res log ex lf (S i) tis' rs'
  | _, _ => false
  end.

(* the handle-result clauses WITHOUT "cancelled only if an abort was issued" (that one needs the
   scenario's abort book-keeping): proved of every model run, C12_oracle_sound_results *)
Definition check_res_safe (log : list (nat * N * N)) (ex : option (reason * N)) (lf : option N) (i : nat) (ti : tinfo) (r : hres) : bool :=
  (match r with
   | HOk => kind_eqb (ti_kind ti) KAfter
   | HErr => kind_eqb (ti_kind ti) KAfter && Nat.eqb (length (ks_of i log)) 0
   | HUnit => negb (kind_eqb (ti_kind ti) KAfter)
   | HCancelled => true
   | HPending => true
   | HPanic => false
   end)
  && (match ex, ti_kind ti, r with
      | Some (_, te), KAfter, HOk => ti_born ti + ti_dur ti <=? te
      | _, _, _ => true
      end)
  && (match lf, ti_kind ti, r with
      | Some tl, KAfter, HOk => ti_born ti + ti_dur ti <=? tl
      | _, _, _ => true
      end)
  && is_prefix_from 1 (ks_of i log).

Fixpoint check_all_res_safe (log : list (nat * N * N)) (ex : option (reason * N)) (lf : option N) (i : nat)
         (tis : list tinfo) (rs : list hres) : bool :=
  match tis, rs with
  | [], [] => true
  | ti :: tis', r :: rs' => check_res_safe log ex lf i ti r && check_all_res_safe log ex lf (S i) tis' rs'
  | _, _ => false
  end.

Definition check_C12_results (ops : list op) (o : obs) : bool :=
  check_all_res_safe (o_log o) (o_exit o) (o_left o) 0 (scan ops 0 []) (o_res o).

(* interval tasks end within one period (rounded to the wheel granularity) of the moment the
   target left the active states *)
Definition check_probe (tis : list tinfo) (lf : option N) (p : N * bool * list bool) : bool :=
  match p, lf with
  | (tp, _, flags), Some te =>
      forallb (fun x => match x with
                        | (ti, fin) =>
                            if kind_eqb (ti_kind ti) KInterval && (te + ceil_ms (ti_dur ti) <=? tp)
                               && (ti_born ti <=? te)
                            then fin else true
                        end) (combine tis flags)
  | _, None => true
  end.

(* exit_after / kill_after DO stop the actor: unless its handle was aborted, once the runtime has
   run at / after the wheel deadline a kill_after has ended the target (whatever its state then:
   Running, Draining, Stopping) and an exit_after has made it leave the active states.  Not
   demanded of a target still parked in pre_start (a kill during startup is not reported) *)
Definition check_due (parked : bool) (pts : list N) (o : obs) (ti : tinfo) : bool :=
  if parked then true else
  match ti_abort ti, first_ge pts (ceil_ms (ti_born ti + ti_dur ti)) with
  | None, Some p =>
      match ti_kind ti with
      | KKill => match o_exit o with Some (_, te) => te <=? p | None => false end
      | KExit => match o_left o with Some tl => tl <=? p | None => false end
      | _ => true
      end
  | _, _ => true
  end.

(* an abort before the timer task's first poll prevents everything: nothing of that timer is ever
   handled and its handle reports the cancellation *)
Definition check_fresh (ops : list op) (o : obs) (i : nat) : bool :=
  if fresh_aborted ops 0 i
  then Nat.eqb (length (ks_of i (o_log o))) 0
       && match nth_error (o_res o) i with Some HCancelled => true | Some _ => false | None => true end
  else true.

Definition check_C12 (parked : bool) (ops : list op) (o : obs) : bool :=
  let tis := scan ops 0 [] in
  forallb (check_entry (if parked then open_time ops 0 else None) (time_points ops 0) tis (o_log o)) (o_log o)
  && forallb (fun e => match o_exit o with Some (_, te) => snd e <=? te | None => true end) (o_log o)
  && check_all_res (o_log o) (o_exit o) (o_left o) 0 tis (o_res o)
  && check_exit ops tis (o_exit o)
  && forallb (check_probe tis (o_left o)) (o_probes o)
  && forallb (check_fresh ops o) (seq 0 (length tis))
  && forallb (check_due parked (time_points ops 0) o) tis.
