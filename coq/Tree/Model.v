(* Model of the supervision tree of ractor (C05):
     ractor/src/actor/supervision.rs   SupervisionTree::{link, unlink, take_children}
     ractor/src/actor/actor_cell.rs    ActorCell::{terminate, kill, set_status}, drain
     ractor/src/actor.rs               ActorLifecycleGuard::cleanup, handle_signal, exit paths
   Definitions only (total, computable); proofs are in Tree/Proofs.v.

   Part 1 (core): the world is a total map  aid -> actor.  A label is ONE atomic action
   of the code: the three tree operations run under TREE_MUTATION_LOCK and are single
   labels; an exit path is the code's sequence of atomic actions, one label each, and may
   be interleaved arbitrarily with every other actor's/thread's labels.  Theorems
   quantify over ALL label lists.

   Part 2 (driver): a deterministic scheduler used only for the correspondence runs: it
   turns harness operations (spawn/send/stop/kill/drain/abort/link/unlink/open/settle)
   into core labels, i.e. it is one particular schedule among those the theorems cover
   (Proofs.v: the core state of every driver run is reachable). *)
From Coq Require Import List NArith Bool.
Import ListNotations.
Local Open Scope N_scope.

Definition aid := N.

(* ActorStatus, with its numeric order (actor_cell.rs:40) *)
Inductive status := Unstarted | Starting | Running | Upgrading | Draining | Stopping | Stopped.

Definition rank (s : status) : N :=
  match s with
  | Unstarted => 0 | Starting => 1 | Running => 2 | Upgrading => 3
  | Draining => 4 | Stopping => 5 | Stopped => 6
  end.

(* set_status = fetch_max: never moves backwards *)
Definition smax (a b : status) : status := if rank a <? rank b then b else a.

(* the oneshot signal port: sender not yet taken / Kill sent, not yet received / received *)
Inductive sigst := SigNone | SigPending | SigConsumed.

(* work items of ActorCell::terminate's iterative loop *)
Inductive titem := TKill (a : aid) | TTake (a : aid).

(* control point of the actor's own task along its exit path *)
Inductive pc :=
| PLive                         (* start-up, message loop, handlers: no exit step taken yet *)
| PSigTerm (w : list titem)     (* inside handle_signal -> terminate(); status not yet touched *)
| PPostStop                     (* Stopping published, inside post_stop (user code) *)
| PClean0                       (* ActorLifecycleGuard::cleanup entered *)
| PCleanTerm (w : list titem)   (* cleanup: set_status(Stopping) done, inside terminate() *)
| PNotify                       (* cleanup: about to notify_supervisor *)
| PReadSup                      (* cleanup: about to try_get_supervisor *)
| PUnlink (sup : option aid)    (* cleanup: about to unlink from the supervisor just read *)
| PPubStopped                   (* cleanup: about to set_status(Stopped) *)
| PDone.

Record actor := mkActor {
  created : bool;               (* the cell exists (ActorCell::new ran) and its guard/task is owned by someone *)
  st : status;
  sg : sigst;
  children : option (list aid); (* None = taken: permanently closed *)
  supervisor : option aid;
  apc : pc;
  doomed : option aid           (* ghost: Some t = last detached by a take_children executed by t's terminate() *)
}.

Definition pristine : actor := mkActor false Unstarted SigNone (Some []) None PLive None.

Definition state := aid -> actor.
Definition init : state := fun _ => pristine.

Definition upd (s : state) (a : aid) (x : actor) : state :=
  fun b => if b =? a then x else s b.

Definition set_created (x : actor) := mkActor true (st x) (sg x) (children x) (supervisor x) (apc x) (doomed x).
Definition set_st (v : status) (x : actor) := mkActor (created x) v (sg x) (children x) (supervisor x) (apc x) (doomed x).
Definition set_sg (v : sigst) (x : actor) := mkActor (created x) (st x) v (children x) (supervisor x) (apc x) (doomed x).
Definition set_children (v : option (list aid)) (x : actor) := mkActor (created x) (st x) (sg x) v (supervisor x) (apc x) (doomed x).
Definition set_sup (v : option aid) (x : actor) := mkActor (created x) (st x) (sg x) (children x) v (apc x) (doomed x).
Definition set_pc (v : pc) (x : actor) := mkActor (created x) (st x) (sg x) (children x) (supervisor x) v (doomed x).
Definition set_doomed (v : option aid) (x : actor) := mkActor (created x) (st x) (sg x) (children x) (supervisor x) (apc x) v.

Definition mem (a : aid) (l : list aid) : bool := existsb (N.eqb a) l.
Definition add (a : aid) (l : list aid) : list aid := if mem a l then l else a :: l.
Definition remove (a : aid) (l : list aid) : list aid := filter (fun b => negb (b =? a)) l.
Definition oeq (x : option aid) (p : aid) : bool := match x with Some q => q =? p | None => false end.

Definition draining_or_later (s : status) : bool := 4 <=? rank s.

(* ---- SupervisionTree::link (supervision.rs:47), one atomic section -------------------- *)
Definition do_link (s : state) (c p : aid) : state * bool :=
  if negb (created (s c) && created (s p)) then (s, false) else
  if draining_or_later (st (s c)) || draining_or_later (st (s p)) then (s, false) else
  match children (s p) with
  | None => (s, false)
  | Some l =>
      let s1 := upd s p (set_children (Some (add c l)) (s p)) in
      match supervisor (s1 c) with
      | Some q =>
          if q =? p then (s1, true)
          else
            let s2 := upd s1 c (set_sup (Some p) (s1 c)) in
            let s3 := upd s2 q (set_children (option_map (remove c) (children (s2 q))) (s2 q)) in
            (s3, true)
      | None => (upd s1 c (set_sup (Some p) (s1 c)), true)
      end
  end.

(* ---- SupervisionTree::unlink (supervision.rs:85) --------------------------------------- *)
Definition do_unlink (s : state) (c p : aid) : state :=
  if oeq (supervisor (s c)) p then
    let s1 := upd s p (set_children (option_map (remove c) (children (s p))) (s p)) in
    upd s1 c (set_sup None (s1 c))
  else s.

(* ---- SupervisionTree::take_children (supervision.rs:104), executed by thread t --------- *)
Definition detach (t p : aid) (l : list aid) (s : state) : state :=
  fun x =>
    if mem x l then
      set_doomed (Some t) (if oeq (supervisor (s x)) p then set_sup None (s x) else s x)
    else s x.

Definition do_take (s : state) (t p : aid) : state * list aid :=
  match children (s p) with
  | None => (s, [])
  | Some l => (detach t p l (upd s p (set_children None (s p))), l)
  end.

(* ActorCell::kill: take the oneshot sender, send Kill (no-op when already taken) *)
Definition do_kill (s : state) (a : aid) : state :=
  match sg (s a) with
  | SigNone => upd s a (set_sg SigPending (s a))
  | _ => s
  end.

Definition items (l : list aid) : list titem := flat_map (fun c => [TKill c; TTake c]) l.

Section Rule.
  (* which statuses ActorCell::terminate still kills (actor_cell.rs:375);
     a parameter so that the repaired and the historical rule can both be examined *)
  Variable kill_rule : status -> bool.

  (* one iteration step of terminate() executed by t with remaining work w *)
  Definition term_step (s : state) (t : aid) (w : list titem) : state * list titem :=
    match w with
    | [] => (s, [])
    | TKill x :: w' => ((if kill_rule (st (s x)) then do_kill s x else s), w')
    | TTake x :: w' => let '(s1, l) := do_take s t x in (s1, items l ++ w')
    end.

  Inductive label :=
  (* any thread / task / handler, any time *)
  | LCreate (a : aid)            (* ActorRuntime::new: cell + armed guard *)
  | LLink (c p : aid)
  | LUnlink (c p : aid)
  | LKill (a : aid)
  | LDrain (a : aid)
  (* the actor's own task *)
  | LStart (a : aid)             (* start(): Unstarted -> Starting *)
  | LRun (a : aid)               (* post_start returned: set_status(Running) *)
  | LSignal (a : aid)            (* an await point observes the Kill signal: handle_signal *)
  | LTerm (a : aid)              (* one step of terminate() *)
  | LExitGraceful (a : aid)      (* stop message / drain marker: set_status(Stopping), post_stop next *)
  | LExitAbrupt (a : aid)        (* handler Err/panic, start-up failure, task cancelled: guard cleanup next *)
  | LPostStopDone (a : aid)      (* post_stop returned / failed / was cancelled *)
  | LClean (a : aid).            (* one step of ActorLifecycleGuard::cleanup *)

  Definition self_work (a : aid) : list titem := [TKill a; TTake a].

  Definition step (l : label) (s : state) : state :=
    match l with
    | LCreate a => upd s a (set_created (s a))
    | LLink c p => fst (do_link s c p)
    | LUnlink c p => do_unlink s c p
    | LKill a => do_kill s a
    | LDrain a => if rank (st (s a)) <? 5 then upd s a (set_st Draining (s a)) else s
    | LStart a =>
        match created (s a), st (s a), apc (s a) with
        | true, Unstarted, PLive => upd s a (set_st Starting (s a))
        | _, _, _ => s
        end
    | LRun a =>
        match created (s a), apc (s a) with
        | true, PLive => if 1 <=? rank (st (s a)) then upd s a (set_st (smax (st (s a)) Running) (s a)) else s
        | _, _ => s
        end
    | LSignal a =>
        match created (s a), sg (s a) with
        | true, SigPending =>
            if 1 <=? rank (st (s a)) then
              match apc (s a) with
              | PLive | PPostStop => upd s a (set_pc (PSigTerm (self_work a)) (set_sg SigConsumed (s a)))
              | _ => s
              end
            else s
        | _, _ => s
        end
    | LTerm a =>
        match apc (s a) with
        | PSigTerm [] => upd s a (set_pc PClean0 (s a))
        | PSigTerm w => let '(s1, w1) := term_step s a w in upd s1 a (set_pc (PSigTerm w1) (s1 a))
        | PCleanTerm [] => upd s a (set_pc PNotify (s a))
        | PCleanTerm w => let '(s1, w1) := term_step s a w in upd s1 a (set_pc (PCleanTerm w1) (s1 a))
        | _ => s
        end
    | LExitGraceful a =>
        match created (s a), apc (s a) with
        | true, PLive =>
            if (2 <=? rank (st (s a))) then
              upd s a (set_pc PPostStop (set_st (smax (st (s a)) Stopping) (s a)))
            else s
        | _, _ => s
        end
    | LExitAbrupt a =>
        match created (s a), apc (s a) with
        | true, PLive => upd s a (set_pc PClean0 (s a))
        | _, _ => s
        end
    | LPostStopDone a =>
        match apc (s a) with
        | PPostStop => upd s a (set_pc PClean0 (s a))
        | _ => s
        end
    | LClean a =>
        match apc (s a) with
        | PClean0 => upd s a (set_pc (PCleanTerm (self_work a)) (set_st (smax (st (s a)) Stopping) (s a)))
        | PNotify => upd s a (set_pc PReadSup (s a))
        | PReadSup => upd s a (set_pc (PUnlink (supervisor (s a))) (s a))
        | PUnlink None => upd s a (set_pc PPubStopped (s a))
        | PUnlink (Some q) => let s1 := do_unlink s a q in upd s1 a (set_pc PPubStopped (s1 a))
        | PPubStopped => upd s a (set_pc PDone (set_st Stopped (s a)))
        | _ => s
        end
    end.

  Definition exec (ls : list label) (s : state) : state := fold_left (fun s l => step l s) ls s.

  (* an obligation of a's own task is enabled (something the runtime will do without any
     further outside stimulus; completion of user callbacks is NOT included) *)
  Definition busy_pc (p : pc) : bool :=
    match p with
    | PLive | PPostStop | PDone => false
    | _ => true
    end.

  Definition sig_visible (x : actor) : bool :=
    match sg x, apc x with
    | SigPending, PLive | SigPending, PPostStop => 1 <=? rank (st x)
    | _, _ => false
    end.

  Definition startable (x : actor) : bool :=
    match st x, apc x with
    | Unstarted, PLive => true
    | _, _ => false
    end.

  Definition enabled_internal (s : state) (a : aid) : bool :=
    created (s a) && (busy_pc (apc (s a)) || sig_visible (s a) || startable (s a)).

  (* the label a's own task takes next, if any obligation is enabled *)
  Definition next_label (s : state) (a : aid) : option label :=
    if negb (created (s a)) then None else
    match apc (s a) with
    | PSigTerm _ | PCleanTerm _ => Some (LTerm a)
    | PClean0 | PNotify | PReadSup | PUnlink _ | PPubStopped => Some (LClean a)
    | PDone => None
    | PLive | PPostStop =>
        if sig_visible (s a) then Some (LSignal a)
        else if startable (s a) then Some (LStart a) else None
    end.
End Rule.

(* the rule of the current tree (after "fix: kill draining children when their supervisor exits")
   and the historical one (status <= Upgrading) *)
Definition rule_fixed (s : status) : bool := rank s <? 5.
Definition rule_prefix (s : status) : bool := rank s <=? 3.

(* ---- Part 2: snapshots, oracle, driver -------------------------------------------------- *)

(* what the harness observes of one actor through the public API at quiescence:
   status rank, get_children() ids, try_get_supervisor() id *)
Definition asnap := (N * list aid * option aid)%type.
Definition snapshot := list asnap.

Fixpoint nseq (start : N) (len : nat) : list N :=
  match len with O => [] | S k => start :: nseq (N.succ start) k end.

Definition snap_of (x : actor) : asnap :=
  (rank (st x), match children x with Some l => l | None => [] end, supervisor x).

Definition snap (n : nat) (s : state) : snapshot := map (fun a => snap_of (s a)) (nseq 0 n).

Definition s_rank (x : asnap) : N := fst (fst x).
Definition s_children (x : asnap) : list aid := snd (fst x).
Definition s_sup (x : asnap) : option aid := snd x.

Definition sget (sn : snapshot) (a : aid) : option asnap := nth_error sn (N.to_nat a).

(* static part of the oracle, on ONE snapshot:
   two-sidedness (among the observed actors) and bareness of stopped actors *)
Definition check_actor (sn : snapshot) (a : aid) (x : asnap) : bool :=
  (* my supervisor lists me *)
  (match s_sup x with
   | Some p => match sget sn p with Some y => mem a (s_children y) | None => true end
   | None => true
   end)
  (* each of my children names me *)
  && forallb (fun c => match sget sn c with Some y => oeq (s_sup y) a | None => true end) (s_children x)
  (* stopped => bare *)
  && (if s_rank x =? 6 then match s_sup x, s_children x with None, [] => true | _, _ => false end else true).

Fixpoint check_actors (sn : snapshot) (a : aid) (l : snapshot) : bool :=
  match l with
  | [] => true
  | x :: t => check_actor sn a x && check_actors sn (N.succ a) t
  end.

Definition check_snap (sn : snapshot) : bool := check_actors sn 0 sn.

(* dynamic part, on two consecutive quiescent snapshots (exactly one driver operation in
   between):
   (1) an actor that was Draining/Stopping/Stopped gains no child;
   (2) when p became Stopped in this window, every actor below p in the earlier snapshot
       (transitively, through actors of any status) is Stopping or Stopped now (it was killed: the
       kill interrupts whatever callback it is parked in; or it was already inside its own
       post_stop) -- unless it
       is alive under another supervisor afterwards (it was relinked within the window). *)
Definition rank_of (sn : snapshot) (a : aid) : N :=
  match sget sn a with Some x => s_rank x | None => 0 end.

Definition sup_of (sn : snapshot) (a : aid) : option aid :=
  match sget sn a with Some x => s_sup x | None => None end.

(* still alive afterwards and linked to a supervisor OTHER than the one it had before the window: it
   was moved to another supervisor in this window (by its own pending spawn_linked or an explicit
   relink) and left the subtree with everything below it.  An actor that is still under the
   same supervisor is not exempt: had that supervisor been reached by the ancestor's terminate(),
   its child set would have been taken. *)
Definition osame (x y : option aid) : bool :=
  match x, y with Some a, Some b => a =? b | None, None => true | _, _ => false end.

Definition moved_away (pre post : snapshot) (c : aid) : bool :=
  negb (rank_of post c =? 6)
  && match sup_of post c with Some _ => negb (osame (sup_of pre c) (sup_of post c)) | None => false end.

Fixpoint descendants (fuel : nat) (pre post : snapshot) (a : aid) : list aid :=
  match fuel with
  | O => []
  | S k =>
      match sget pre a with
      | Some x =>
          let cs := filter (fun c => negb (moved_away pre post c)) (s_children x) in
          cs ++ flat_map (descendants k pre post) cs
      | None => []
      end
  end.

Definition check_pair_actor (pre post : snapshot) (a : aid) : bool :=
  match sget pre a, sget post a with
  | Some x, Some y =>
      (if 4 <=? s_rank x then forallb (fun c => mem c (s_children x)) (s_children y) else true)
      && (if (s_rank y =? 6) && negb (s_rank x =? 6) then
            forallb (fun c => 5 <=? rank_of post c)
                    (descendants (length pre) pre post a)
          else true)
  | _, _ => true
  end.

Definition check_pair (pre post : snapshot) : bool :=
  forallb (check_pair_actor pre post) (nseq 0 (length pre)).

Fixpoint check_pairs (l : list snapshot) : bool :=
  match l with
  | a :: ((b :: _) as t) => check_pair a b && check_pairs t
  | _ => true
  end.

(* spawn results: when spawn_linked(c under p) is first observed to have returned Ok, c is in p's
   child set (and names p), or c is being terminated as well (Stopping or Stopped).  "Ok, alive, and not linked
   to the requested supervisor" is the orphan the property excludes.  (Between the link inside
   start() and the quiescent point only p's own exit can remove c from p's set, and that kills c.) *)
Definition res_ok (r : list (option bool)) (c : aid) : bool :=
  match nth_error r (N.to_nat c) with Some (Some true) => true | _ => false end.

Definition check_spawn_at (reqs : list (aid * aid)) (prev : list (option bool))
                          (cur : snapshot * list (option bool)) : bool :=
  forallb (fun cp =>
             let '(c, p) := cp in
             if res_ok (snd cur) c && negb (res_ok prev c) then
               oeq (sup_of (fst cur) c) p || (5 <=? rank_of (fst cur) c)
             else true) reqs.

Fixpoint check_spawns (reqs : list (aid * aid)) (prev : list (option bool))
                      (l : list (snapshot * list (option bool))) : bool :=
  match l with
  | [] => true
  | x :: t => check_spawn_at reqs prev x && check_spawns reqs (snd x) t
  end.

(* explicit links: a `link c p` that was accepted in the window (read back at once) and not followed by
   another move of c in that window: at the quiescent end c names p or is Stopping/Stopped
   (Proofs: OracleProofs.spawn_clause_sound, the same statement as for the spawn's own link) *)
Definition check_links (l : list (snapshot * list (aid * aid))) : bool :=
  forallb (fun x => forallb (fun cp => oeq (sup_of (fst x) (fst cp)) (snd cp) || (5 <=? rank_of (fst x) (fst cp)))
                            (snd x)) l.

(* the oracle of C05 on the implementation's sequence of quiescent snapshots *)
Definition check_C05 (l : list snapshot) : bool :=
  forallb check_snap l && check_pairs l.

(* ... together with the spawn results (reqs = the spawn_linked requests (child, supervisor)) *)
Definition check_C05_full (reqs : list (aid * aid)) (l : list (snapshot * list (option bool))) : bool :=
  check_C05 (map fst l) && check_spawns reqs [] l.

(* ---- driver ---------------------------------------------------------------------------- *)

Inductive msg := MBlock | MErr | MPanic | MMarker.

Inductive phase := PhNone | PhNew | PhPre | PhPost | PhLoop | PhHandler | PhPostStop | PhGone.

Record book := mkBook {
  phs : phase;
  queue : list msg;
  stop_req : bool;
  abort_req : bool;
  marker_sent : bool;
  sup_arg : option aid;
  g_pre : bool;      (* true = gate open (or absent) *)
  g_post : bool;
  g_h : bool;
  g_ps : bool;
  spawn_res : option bool;  (* Some true = Ok, Some false = Err *)
  defsup : bool;            (* the actor keeps the library's default handle_supervisor_evt: stop when a child exits *)
  supq : nat                (* terminal supervision events waiting in its supervision port *)
}.

Definition book0 : book := mkBook PhNone [] false false false None true true true true None false O.

Definition books := aid -> book.

Record dstate := mkD { core : state; bk : books }.

Definition dinit : dstate := mkD init (fun _ => book0).

Definition bupd (b : books) (a : aid) (x : book) : books := fun c => if c =? a then x else b c.

Definition set_phs v (x : book) := mkBook v (queue x) (stop_req x) (abort_req x) (marker_sent x) (sup_arg x) (g_pre x) (g_post x) (g_h x) (g_ps x) (spawn_res x) (defsup x) (supq x).
Definition set_queue v (x : book) := mkBook (phs x) v (stop_req x) (abort_req x) (marker_sent x) (sup_arg x) (g_pre x) (g_post x) (g_h x) (g_ps x) (spawn_res x) (defsup x) (supq x).
Definition set_stop v (x : book) := mkBook (phs x) (queue x) v (abort_req x) (marker_sent x) (sup_arg x) (g_pre x) (g_post x) (g_h x) (g_ps x) (spawn_res x) (defsup x) (supq x).
Definition set_abort v (x : book) := mkBook (phs x) (queue x) (stop_req x) v (marker_sent x) (sup_arg x) (g_pre x) (g_post x) (g_h x) (g_ps x) (spawn_res x) (defsup x) (supq x).
Definition set_marker v (x : book) := mkBook (phs x) (queue x) (stop_req x) (abort_req x) v (sup_arg x) (g_pre x) (g_post x) (g_h x) (g_ps x) (spawn_res x) (defsup x) (supq x).
Definition set_res v (x : book) := mkBook (phs x) (queue x) (stop_req x) (abort_req x) (marker_sent x) (sup_arg x) (g_pre x) (g_post x) (g_h x) (g_ps x) v (defsup x) (supq x).
Definition set_gates (a b c d : bool) (x : book) := mkBook (phs x) (queue x) (stop_req x) (abort_req x) (marker_sent x) (sup_arg x) a b c d (spawn_res x) (defsup x) (supq x).
Definition set_defsup v (x : book) := mkBook (phs x) (queue x) (stop_req x) (abort_req x) (marker_sent x) (sup_arg x) (g_pre x) (g_post x) (g_h x) (g_ps x) (spawn_res x) v (supq x).
Definition set_supq v (x : book) := mkBook (phs x) (queue x) (stop_req x) (abort_req x) (marker_sent x) (sup_arg x) (g_pre x) (g_post x) (g_h x) (g_ps x) (spawn_res x) (defsup x) v.

Inductive gate := GPre | GPost | GH | GPs.

Inductive dop :=
| OSpawn (a : aid) (sup : option aid) (pre post ps : bool)  (* gate present (closed) flags; handler gate always present *)
| OSend (a : aid) (m : msg)
| OStop (a : aid)
| OKill (a : aid)
| ODrain (a : aid)
| OAbort (a : aid)
| ODefSup (a : aid)      (* a was spawned with the default supervision handler *)
| OStopKids (a : aid)    (* ActorCell::stop_children / stop_children_and_wait *)
| ODrainKids (a : aid)   (* ActorCell::drain_children / drain_children_and_wait *)
| ODropNow (a : aid)     (* the driver drops a's start future itself: the guard's cleanup runs inline, no settle *)
| OLink (c p : aid)
| OUnlink (c p : aid)
| OOpen (a : aid) (g : gate)
| OFlush (n : nat)      (* open every gate of actors 0..n-1 *)
| OSettle (n : nat).    (* run actors 0..n-1 to quiescence *)

Section Driver.
  Variable kill_rule : status -> bool.
  Let stepR := step kill_rule.

  (* run a's own obligations (terminate / cleanup steps, signal) until none is enabled *)
  Fixpoint run_own (fuel : nat) (a : aid) (s : state) : state :=
    match fuel with
    | O => s
    | S k =>
        match next_label s a with
        | Some l =>
            match l with
            | LStart _ => s           (* start is scheduled by the driver itself *)
            | _ => run_own k a (stepR l s)
            end
        | None => s
        end
    end.

  Definition own_fuel : nat := 200.

  Definition alive_phase (p : phase) : bool :=
    match p with PhNone | PhGone => false | _ => true end.

  (* a's terminal supervision event: sent by the cleanup's notify step to the supervisor a names when its
     exit begins (its own terminate() does not change that), only for an actor whose spawn had returned
     (marked running); a supervisor with the default handler will stop when it gets to the event *)
  Definition started_phase (p : phase) : bool :=
    match p with PhPost | PhLoop | PhHandler | PhPostStop => true | _ => false end.

  Definition notify_sup (a : aid) (before : dstate) (b : books) : books :=
    if started_phase (phs (bk before a)) then
      match supervisor (core before a) with
      | Some p =>
          if defsup (b p) && alive_phase (phs (b p)) then bupd b p (set_supq (S (supq (b p))) (b p)) else b
      | None => b
      end
    else b.

  (* the task exits now without post_stop: failure / cancellation / failed start *)
  Definition abrupt (a : aid) (d : dstate) (res : option bool) : dstate :=
    let s1 := stepR (LExitAbrupt a) (core d) in
    let s2 := stepR (LPostStopDone a) s1 in
    let s3 := run_own own_fuel a s2 in
    let b := bk d a in
    mkD s3 (notify_sup a d (bupd (bk d) a (set_phs PhGone (set_queue [] (match res with Some r => set_res (Some r) b | None => b end))))).

  (* one scheduling decision for actor a; returns (progress?, state) *)
  Definition advance (a : aid) (d : dstate) : bool * dstate :=
    let b := bk d a in
    let s := core d in
    if negb (alive_phase (phs b)) then (false, d) else
    if abort_req b then
      (true, abrupt a d (match phs b with PhNew | PhPre => Some false | _ => None end))
    else
    match phs b with
    | PhNew =>
        match st (s a) with
        | Unstarted => (true, mkD (stepR (LStart a) s) (bupd (bk d) a (set_phs PhPre b)))
        | _ => (true, abrupt a d (Some false))       (* ActorAlreadyStarted *)
        end
    | _ =>
      if sig_visible (s a) then
        (* biased select: the signal port wins at the next await point *)
        let s1 := run_own own_fuel a s in
        (true, mkD s1 (notify_sup a d (bupd (bk d) a (set_phs PhGone (set_queue []
                 (match phs b with PhPre => set_res (Some false) b | _ => b end))))))
      else
      match phs b with
      | PhPre =>
          if g_pre b then
            match sup_arg b with
            | Some p =>
                let '(s1, ok) := do_link s a p in
                let d1 := mkD (stepR (LLink a p) s) (bk d) in
                if ok then (true, mkD (core d1) (bupd (bk d) a (set_phs PhPost (set_res (Some true) b))))
                else (true, abrupt a d1 (Some false))
            | None => (true, mkD s (bupd (bk d) a (set_phs PhPost (set_res (Some true) b))))
            end
          else (false, d)
      | PhPost =>
          if g_post b then (true, mkD (stepR (LRun a) s) (bupd (bk d) a (set_phs PhLoop b)))
          else (false, d)
      | PhLoop =>
          if stop_req b then
            (true, mkD (stepR (LExitGraceful a) s) (bupd (bk d) a (set_phs PhPostStop b)))
          else
          match supq b with
          | S k => (true, mkD s (bupd (bk d) a (set_supq k (set_stop true b))))   (* default handler: myself.stop(None) *)
          | O =>
          match queue b with
          | [] => (false, d)
          | MBlock :: q => (true, mkD s (bupd (bk d) a (set_phs PhHandler (set_queue q b))))
          | MErr :: q | MPanic :: q => (true, abrupt a d None)
          | MMarker :: q => (true, mkD (stepR (LExitGraceful a) s) (bupd (bk d) a (set_phs PhPostStop (set_queue q b))))
          end
          end
      | PhHandler =>
          if g_h b then (true, mkD s (bupd (bk d) a (set_phs PhLoop b))) else (false, d)
      | PhPostStop =>
          if g_ps b then
            let s1 := run_own own_fuel a (stepR (LPostStopDone a) s) in
            (true, mkD s1 (notify_sup a d (bupd (bk d) a (set_phs PhGone (set_queue [] b)))))
          else (false, d)
      | _ => (false, d)
      end
    end.

  Fixpoint sweep (l : list aid) (d : dstate) : bool * dstate :=
    match l with
    | [] => (false, d)
    | a :: t =>
        let '(p1, d1) := advance a d in
        let '(p2, d2) := sweep t d1 in
        (p1 || p2, d2)
    end.

  Fixpoint settle (fuel : nat) (n : nat) (d : dstate) : dstate :=
    match fuel with
    | O => d
    | S k => let '(p, d1) := sweep (nseq 0 n) d in if p then settle k n d1 else d1
    end.

  Definition open_gate (g : gate) (b : book) : book :=
    match g with
    | GPre => set_gates true (g_post b) (g_h b) (g_ps b) b
    | GPost => set_gates (g_pre b) true (g_h b) (g_ps b) b
    | GH => set_gates (g_pre b) (g_post b) true (g_ps b) b
    | GPs => set_gates (g_pre b) (g_post b) (g_h b) true b
    end.

  Definition d_stop (d : dstate) (a : aid) : dstate :=
    let b := bk d a in
    if alive_phase (phs b) then mkD (core d) (bupd (bk d) a (set_stop true b)) else d.

  Definition d_drain (d : dstate) (a : aid) : dstate :=
    let b := bk d a in
    if alive_phase (phs b) then
      mkD (stepR (LDrain a) (core d))
          (if marker_sent b then bk d
           else bupd (bk d) a (set_marker true (set_queue (queue b ++ [MMarker]) b)))
    else d.

  Definition kids_of (d : dstate) (a : aid) : list aid :=
    match children (core d a) with Some l => l | None => [] end.

  Definition dstep (o : dop) (d : dstate) : dstate :=
    let s := core d in
    match o with
    | OSpawn a sup pre post ps =>
        match phs (bk d a) with
        | PhNone =>
            mkD (stepR (LCreate a) s)
                (bupd (bk d) a (mkBook PhNew [] false false false sup (negb pre) (negb post) false (negb ps) None false O))
        | _ => d
        end
    | OSend a m =>
        let b := bk d a in
        if alive_phase (phs b) && (rank (st (s a)) <? 4) then mkD s (bupd (bk d) a (set_queue (queue b ++ [m]) b)) else d
    | OStop a =>
        let b := bk d a in
        if alive_phase (phs b) then mkD s (bupd (bk d) a (set_stop true b)) else d
    | OKill a => if alive_phase (phs (bk d a)) then mkD (stepR (LKill a) s) (bk d) else d
    | ODrain a =>
        let b := bk d a in
        if alive_phase (phs b) then
          mkD (stepR (LDrain a) s)
              (if marker_sent b then bk d
               else bupd (bk d) a (set_marker true (set_queue (queue b ++ [MMarker]) b)))
        else d
    | OAbort a =>
        let b := bk d a in
        if alive_phase (phs b) then mkD s (bupd (bk d) a (set_abort true b)) else d
    | ODefSup a => mkD s (bupd (bk d) a (set_defsup true (bk d a)))
    | OStopKids a => fold_left d_stop (kids_of d a) d
    | ODrainKids a => fold_left d_drain (kids_of d a) d
    | ODropNow a =>
        match phs (bk d a) with
        | PhPre => abrupt a d (Some false)
        | _ => d
        end
    | OLink c p => mkD (stepR (LLink c p) s) (bk d)
    | OUnlink c p => mkD (stepR (LUnlink c p) s) (bk d)
    | OOpen a g => mkD s (bupd (bk d) a (open_gate g (bk d a)))
    | OFlush n => mkD s (fun a => if Nat.ltb (N.to_nat a) n then set_gates true true true true (bk d a) else bk d a)
    | OSettle n => settle (20 * (S n)) n d
    end.

  Definition drun (ops : list dop) : dstate := fold_left (fun d o => dstep o d) ops dinit.

  Definition results (n : nat) (d : dstate) : list (option bool) :=
    map (fun a => spawn_res (bk d a)) (nseq 0 n).

  (* the model's answer for a scenario: after every OSettle the snapshot and the spawn results so far *)
  Fixpoint dtrace (n : nat) (ops : list dop) (d : dstate) : list (snapshot * list (option bool)) :=
    match ops with
    | [] => []
    | o :: t =>
        let d1 := dstep o d in
        match o with
        | OSettle _ => (snap n (core d1), results n d1) :: dtrace n t d1
        | _ => dtrace n t d1
        end
    end.

  Definition model_run (n : nat) (ops : list dop) : list (snapshot * list (option bool)) :=
    dtrace n ops dinit.
End Driver.
